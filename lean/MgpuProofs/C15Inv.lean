import MgpuModel.C15
/-! # C15 — the reorder-buffer invariant and its preservation by every transition

`Inv c s` is the conjunction carried through every op of `C15.step` (tick, request arrival,
lower-level response arrival with any id, control message arrival, draining of any port).
Flush and restart are ordinary ops here: the order clause is stated modulo the `discarded`
ghost log.  Core Lean only.
-/
namespace C15

/-- requester ids that were accepted and not thrown away by a flush/restart, in acceptance order -/
def St.live (s : St) : List Nat := s.accepted.filter (fun a => decide (a ∉ s.discarded))

structure Inv (c : Cfg) (s : St) : Prop where
  /-- answered ids followed by pending ids = accepted ids minus discarded ids, order preserved -/
  order : s.delivered.map (·.rspTo) ++ s.txs.map (·.req.id) = s.live
  /-- requester ids are fresh: accepted ones and the ones waiting in the Top port ascend strictly -/
  fresh : (s.accepted ++ s.topIn.map (·.id)).Pairwise (· < ·)
  freshTop : ∀ a ∈ s.accepted ++ s.topIn.map (·.id), a < s.nextTop
  /-- only accepted requests are ever discarded -/
  discAcc : ∀ a ∈ s.discarded, a ∈ s.accepted
  /-- lookup-table keys = bottom ids of the pending transactions (same order) -/
  table : s.table = s.txs.map (·.botId)
  botSorted : s.table.Pairwise (· < ·)
  botFresh : ∀ b ∈ s.table, b < s.nextBot
  discBotFresh : ∀ b ∈ s.discardedBot, b < s.nextBot
  discBotGone : ∀ b ∈ s.discardedBot, b ∉ s.table
  /-- never more than `bufferSize` transactions -/
  cap : s.txs.length ≤ c.cap
  /-- every pending transaction was forwarded as the duplicate of its request -/
  txFwd : ∀ t ∈ s.txs, (t.req, dupReq t.botId t.req) ∈ s.fwd
  /-- a stored response is one the lower level gave for that bottom id -/
  txRsp : ∀ t ∈ s.txs, ∀ p, t.rsp = some p → (t.botId, p) ∈ s.answered
  /-- every response sent up names an accepted request's id and requester and carries a
      payload the lower level returned for that request's duplicate -/
  delOk : ∀ d ∈ s.delivered, ∃ r b, (r, b) ∈ s.fwd ∧ d.rspTo = r.id ∧ d.dst = r.src ∧
            (b.id, d.payload) ∈ s.answered
  /-- everything ever sent down is `dupReq` of the accepted request -/
  fwdDup : ∀ rb ∈ s.fwd, rb.2 = dupReq rb.2.id rb.1
  botOutFwd : ∀ b ∈ s.botOut, ∃ r, (r, b) ∈ s.fwd
  /-- what waits in the Top port's outgoing buffer is the tail of the delivered log -/
  topOutDel : ∃ pre, s.delivered = pre ++ s.topOut

theorem dupReq_id (n : Nat) (r : Req) : (dupReq n r).id = n := by
  unfold dupReq; split <;> rfl

/-! ### list facts -/

theorem setRsp_map_id (b : Nat) (p : Rsp) (l : List Tx) :
    (setRsp b p l).map (·.req.id) = l.map (·.req.id) := by
  induction l with
  | nil => rfl
  | cons t ts ih => simp only [setRsp]; split <;> simp [ih]

theorem setRsp_map_bot (b : Nat) (p : Rsp) (l : List Tx) :
    (setRsp b p l).map (·.botId) = l.map (·.botId) := by
  induction l with
  | nil => rfl
  | cons t ts ih => simp only [setRsp]; split <;> simp [ih]

theorem setRsp_length (b : Nat) (p : Rsp) (l : List Tx) : (setRsp b p l).length = l.length := by
  induction l with
  | nil => rfl
  | cons t ts ih => simp only [setRsp]; split <;> simp [ih]

theorem mem_setRsp {b : Nat} {p : Rsp} {l : List Tx} {t' : Tx} (h : t' ∈ setRsp b p l) :
    ∃ t ∈ l, t'.req = t.req ∧ t'.botId = t.botId ∧ (t'.rsp = t.rsp ∨ (t'.rsp = some p ∧ t.botId = b)) := by
  induction l with
  | nil => simp [setRsp] at h
  | cons t ts ih =>
    simp only [setRsp] at h
    split at h
    · rename_i hb
      rcases List.mem_cons.1 h with h | h
      · exact ⟨t, List.mem_cons_self, by simp [h], by simp [h], Or.inr ⟨by simp [h], hb⟩⟩
      · exact ⟨t', List.mem_cons_of_mem _ h, rfl, rfl, Or.inl rfl⟩
    · rcases List.mem_cons.1 h with h | h
      · exact ⟨t, List.mem_cons_self, by simp [h], by simp [h], Or.inl (by simp [h])⟩
      · obtain ⟨t0, h0, h1⟩ := ih h
        exact ⟨t0, List.mem_cons_of_mem _ h0, h1⟩

/-- the flush step of the order clause -/
theorem filter_flush (L X del D : List Nat) (hn : L.Nodup)
    (h : del ++ D = L.filter (fun a => decide (a ∉ X))) :
    del ++ [] = L.filter (fun a => decide (a ∉ X ++ D)) := by
  have hnd : (del ++ D).Nodup := h ▸ hn.filter _
  have hdis : ∀ a ∈ del, a ∉ D := by
    intro a ha hd
    exact (List.nodup_append.1 hnd).2.2 a ha a hd rfl
  have e : L.filter (fun a => decide (a ∉ X ++ D))
      = (L.filter (fun a => decide (a ∉ X))).filter (fun a => decide (a ∉ D)) := by
    rw [List.filter_filter]
    congr 1
    funext a
    simp [List.mem_append, not_or, Bool.and_comm]
  rw [e, ← h, List.filter_append]
  have h1 : del.filter (fun a => decide (a ∉ D)) = del :=
    List.filter_eq_self.2 (by intro a ha; simpa using hdis a ha)
  have h2 : D.filter (fun a => decide (a ∉ D)) = [] :=
    List.filter_eq_nil_iff.2 (by intro a ha; simpa using ha)
  rw [h1, h2]

theorem pairwise_lt_nodup {l : List Nat} (h : l.Pairwise (· < ·)) : l.Nodup :=
  h.imp (fun hab => Nat.ne_of_lt hab)

theorem pairwise_snoc {l : List Nat} {n : Nat} (h : l.Pairwise (· < ·)) (hb : ∀ a ∈ l, a < n) :
    (l ++ [n]).Pairwise (· < ·) := by
  rw [List.pairwise_append]
  refine ⟨h, List.pairwise_singleton _ _, ?_⟩
  intro a ha b hb'
  simp at hb'
  subst hb'
  exact hb a ha

theorem Inv.acceptedNodup {c : Cfg} {s : St} (h : Inv c s) : s.accepted.Nodup :=
  pairwise_lt_nodup ((List.pairwise_append.1 h.fresh).1)

theorem Inv.pending_accepted {c : Cfg} {s : St} (h : Inv c s) : ∀ t ∈ s.txs, t.req.id ∈ s.accepted := by
  intro t ht
  have : t.req.id ∈ s.live := by
    rw [← h.order]; exact List.mem_append_right _ (List.mem_map.2 ⟨t, ht, rfl⟩)
  exact (List.mem_filter.1 this).1

/-! ### initial state -/

theorem inv_init (c : Cfg) : Inv c {} := by
  constructor <;> simp [St.live, St.accepted]

/-! ### pipeline stages -/

theorem bottomUp_inv (c : Cfg) (s : St) (h : Inv c s) : Inv c (bottomUp c s).1 := by
  unfold bottomUp
  split
  · exact h
  split
  · exact h
  · rename_i t rest hs
    split
    · exact h
    · rename_i p hp
      split
      · exact { h with }
      split
      · have htab : s.table = t.botId :: rest.map (·.botId) := by rw [h.table, hs]; rfl
        have hcap := h.cap
        have hord := h.order
        rw [hs] at hcap hord
        refine { h with order := ?_, table := ?_, botSorted := ?_, botFresh := ?_, discBotGone := ?_,
                        cap := ?_, txFwd := ?_, txRsp := ?_, delOk := ?_, topOutDel := ?_ }
        · show (s.delivered ++ [(⟨t.req.id, t.req.src, p⟩ : TRsp)]).map (·.rspTo) ++ rest.map (·.req.id) = s.live
          rw [← hord]; simp
        · show s.table.erase t.botId = rest.map (·.botId)
          rw [htab]; simp
        · show (s.table.erase t.botId).Pairwise (· < ·)
          exact h.botSorted.sublist (List.erase_sublist)
        · intro b hb; exact h.botFresh b (List.mem_of_mem_erase hb)
        · intro b hb hm; exact h.discBotGone b hb (List.mem_of_mem_erase hm)
        · show rest.length ≤ c.cap
          simp at hcap; omega
        · intro t' ht'; exact h.txFwd t' (by rw [hs]; exact List.mem_cons_of_mem _ ht')
        · intro t' ht'; exact h.txRsp t' (by rw [hs]; exact List.mem_cons_of_mem _ ht')
        · intro d hd
          rcases List.mem_append.1 hd with hd | hd
          · exact h.delOk d hd
          · simp at hd
            subst hd
            have ht : t ∈ s.txs := by rw [hs]; exact List.mem_cons_self
            exact ⟨t.req, dupReq t.botId t.req, h.txFwd t ht, rfl, rfl,
              by rw [dupReq_id]; exact h.txRsp t ht p hp⟩
        · obtain ⟨pre, hpre⟩ := h.topOutDel
          exact ⟨pre, by show s.delivered ++ _ = pre ++ (s.topOut ++ _); rw [hpre, List.append_assoc]⟩
      · exact h

theorem parseBottom_inv (c : Cfg) (s : St) (h : Inv c s) : Inv c (parseBottom s).1 := by
  unfold parseBottom
  split
  · exact h
  split
  · exact h
  · rename_i b p rest hs
    split
    · refine { h with order := ?_, table := ?_, cap := ?_, txFwd := ?_, txRsp := ?_, delOk := ?_ }
      · show s.delivered.map (·.rspTo) ++ (setRsp b p s.txs).map (·.req.id) = s.live
        rw [setRsp_map_id]; exact h.order
      · show s.table = (setRsp b p s.txs).map (·.botId)
        rw [setRsp_map_bot]; exact h.table
      · show (setRsp b p s.txs).length ≤ c.cap
        rw [setRsp_length]; exact h.cap
      · intro t' ht'
        obtain ⟨t, ht, h1, h2, _⟩ := mem_setRsp ht'
        rw [h1, h2]; exact h.txFwd t ht
      · intro t' ht' q hq
        obtain ⟨t, ht, _, h2, h3⟩ := mem_setRsp ht'
        show (t'.botId, q) ∈ s.answered ++ [(b, p)]
        rcases h3 with h3 | ⟨h3, h4⟩
        · exact List.mem_append_left _ (by rw [h2]; exact h.txRsp t ht q (by rw [← h3]; exact hq))
        · refine List.mem_append_right _ ?_
          rw [h3] at hq
          simp at hq
          simp [h2, h4, hq]
      · intro d hd
        obtain ⟨r, bq, h1, h2, h3, h4⟩ := h.delOk d hd
        exact ⟨r, bq, h1, h2, h3, List.mem_append_left _ h4⟩
    · exact { h with }

theorem accept_core (c : Cfg) (s s' : St) (r : Req) (rest : List Req) (h : Inv c s)
    (hs : s.topIn = r :: rest) (hroom : s.txs.length < c.cap)
    (htx : s'.txs = s.txs ++ [⟨r, s.nextBot, none⟩]) (htab : s'.table = s.table ++ [s.nextBot])
    (hnb : s'.nextBot = s.nextBot + 1) (hnt : s'.nextTop = s.nextTop) (htop : s'.topIn = rest)
    (hbo : s'.botOut = s.botOut ++ [dupReq s.nextBot r])
    (hfwd : s'.fwd = s.fwd ++ [(r, dupReq s.nextBot r)])
    (hdel : s'.delivered = s.delivered) (hdisc : s'.discarded = s.discarded)
    (hdb : s'.discardedBot = s.discardedBot) (hans : s'.answered = s.answered)
    (hto : s'.topOut = s.topOut) : Inv c s' := by
  have mono1 : ∀ b ∈ s.table, b < s.nextBot + 1 := fun b hb => Nat.lt_succ_of_lt (h.botFresh b hb)
  have hfresh := h.fresh
  have hfreshTop := h.freshTop
  rw [hs] at hfresh hfreshTop
  have hnew : r.id ∉ s.accepted := by
    intro hm
    have := (List.pairwise_append.1 hfresh).2.2 r.id hm r.id (by simp)
    omega
  have hnd : r.id ∉ s.discarded := fun hm => hnew (h.discAcc _ hm)
  have hacc : s'.accepted = s.accepted ++ [r.id] := by simp [St.accepted, hfwd]
  refine { order := ?_, fresh := ?_, freshTop := ?_, discAcc := ?_, table := ?_, botSorted := ?_,
           botFresh := ?_, discBotFresh := ?_, discBotGone := ?_, cap := ?_, txFwd := ?_,
           txRsp := ?_, delOk := ?_, fwdDup := ?_, botOutFwd := ?_, topOutDel := ?_ }
  · have := h.order
    simp only [St.live] at this ⊢
    rw [hdel, htx, hacc, hdisc, List.filter_append, List.map_append, ← List.append_assoc, this]
    simp [hnd]
  · rw [hacc, htop]; simpa using hfresh
  · rw [hacc, htop, hnt]; intro a ha; exact hfreshTop a (by simpa using ha)
  · intro a ha
    rw [hacc]; rw [hdisc] at ha
    exact List.mem_append_left _ (h.discAcc a ha)
  · rw [htab, htx, h.table]; simp
  · rw [htab]; exact pairwise_snoc h.botSorted h.botFresh
  · rw [htab, hnb]
    intro b hb
    rcases List.mem_append.1 hb with hb | hb
    · exact mono1 b hb
    · simp at hb; omega
  · rw [hdb, hnb]; exact fun b hb => Nat.lt_succ_of_lt (h.discBotFresh b hb)
  · rw [hdb, htab]
    intro b hb hm
    rcases List.mem_append.1 hm with hm | hm
    · exact h.discBotGone b hb hm
    · simp at hm; have := h.discBotFresh b hb; omega
  · rw [htx]; simp; omega
  · rw [htx, hfwd]
    intro t ht
    rcases List.mem_append.1 ht with ht | ht
    · exact List.mem_append_left _ (h.txFwd t ht)
    · simp at ht; subst ht; exact List.mem_append_right _ (by simp)
  · rw [htx, hans]
    intro t ht p hp
    rcases List.mem_append.1 ht with ht | ht
    · exact h.txRsp t ht p hp
    · simp at ht; subst ht; simp at hp
  · rw [hdel, hfwd, hans]
    intro d hd
    obtain ⟨r', b', h1, h2⟩ := h.delOk d hd
    exact ⟨r', b', List.mem_append_left _ h1, h2⟩
  · rw [hfwd]
    intro rb hrb
    rcases List.mem_append.1 hrb with hrb | hrb
    · exact h.fwdDup rb hrb
    · simp at hrb; subst hrb; simp [dupReq_id]
  · rw [hbo, hfwd]
    intro b hb
    rcases List.mem_append.1 hb with hb | hb
    · obtain ⟨r', hr'⟩ := h.botOutFwd b hb
      exact ⟨r', List.mem_append_left _ hr'⟩
    · simp at hb; subst hb; exact ⟨r, List.mem_append_right _ (by simp)⟩
  · rw [hdel, hto]; exact h.topOutDel

theorem topDown_inv (c : Cfg) (s : St) (h : Inv c s) : Inv c (topDown c s).1 := by
  unfold topDown
  split
  · exact h
  split
  · exact h
  · rename_i r rest hs
    have mono1 : ∀ b ∈ s.table, b < s.nextBot + 1 := fun b hb => Nat.lt_succ_of_lt (h.botFresh b hb)
    have mono2 : ∀ b ∈ s.discardedBot, b < s.nextBot + 1 :=
      fun b hb => Nat.lt_succ_of_lt (h.discBotFresh b hb)
    split
    · exact h
    split
    · exact { h with botFresh := mono1, discBotFresh := mono2 }
    split
    · exact { h with botFresh := mono1, discBotFresh := mono2 }
    · rename_i hfull _ _
      exact accept_core c s _ r rest h hs (by simpa using hfull) rfl rfl rfl rfl rfl rfl rfl rfl rfl rfl rfl rfl

theorem iterP_pres {P : St → Prop} {f : St → St × Bool} (hf : ∀ s, P s → P (f s).1) :
    ∀ n sb, P sb.1 → P (iterP f n sb).1 := by
  intro n
  induction n with
  | zero => intro sb h; exact h
  | succ n ih => intro sb h; exact ih _ (hf _ h)

theorem runPipeline_inv (c : Cfg) (s : St) (h : Inv c s) : Inv c (runPipeline c s).1 := by
  unfold runPipeline
  exact iterP_pres (topDown_inv c) _ _
    (iterP_pres (parseBottom_inv c) _ _ (iterP_pres (bottomUp_inv c) _ _ h))

/-! ### control messages: flush and restart -/

/-- clauses shared by `discardTransactions` and `restart`: the transaction list and the table are
    emptied and logged as discarded -/
theorem flush_core (c : Cfg) (s s' : St) (h : Inv c s)
    (htx : s'.txs = []) (htab : s'.table = [])
    (hdisc : s'.discarded = s.discarded ++ s.txs.map (·.req.id))
    (hdb : s'.discardedBot = s.discardedBot ++ s.txs.map (·.botId))
    (hfwd : s'.fwd = s.fwd) (hdel : s'.delivered = s.delivered) (hans : s'.answered = s.answered)
    (hnb : s'.nextBot = s.nextBot) (hnt : s'.nextTop = s.nextTop)
    (htop : s'.topIn = s.topIn ∨ s'.topIn = []) (hbo : s'.botOut = s.botOut)
    (hto : s'.topOut = s.topOut) : Inv c s' := by
  have hacc : s'.accepted = s.accepted := by simp [St.accepted, hfwd]
  have hsub : (s'.accepted ++ s'.topIn.map (·.id)).Sublist (s.accepted ++ s.topIn.map (·.id)) := by
    rw [hacc]
    rcases htop with e | e
    · rw [e]; exact List.Sublist.refl _
    · rw [e]; simp
  refine { order := ?_, fresh := h.fresh.sublist hsub, freshTop := ?_, discAcc := ?_, table := ?_,
           botSorted := ?_, botFresh := ?_, discBotFresh := ?_, discBotGone := ?_, cap := ?_,
           txFwd := ?_, txRsp := ?_, delOk := ?_, fwdDup := ?_, botOutFwd := ?_, topOutDel := ?_ }
  · have := filter_flush s.accepted s.discarded (s.delivered.map (·.rspTo)) (s.txs.map (·.req.id))
      h.acceptedNodup h.order
    simp only [St.live, htx, hdel, hacc, hdisc]
    exact this
  · intro a ha; rw [hnt]; exact h.freshTop a (hsub.subset ha)
  · intro a ha
    rw [hacc]
    rw [hdisc] at ha
    rcases List.mem_append.1 ha with ha | ha
    · exact h.discAcc a ha
    · obtain ⟨t, ht, rfl⟩ := List.mem_map.1 ha
      exact h.pending_accepted t ht
  · rw [htab, htx]; rfl
  · rw [htab]; exact List.Pairwise.nil
  · rw [htab]; intro b hb; cases hb
  · intro b hb
    rw [hnb]
    rw [hdb] at hb
    rcases List.mem_append.1 hb with hb | hb
    · exact h.discBotFresh b hb
    · exact h.botFresh b (by rw [h.table]; exact hb)
  · rw [htab]; intro b _ hm; cases hm
  · rw [htx]; exact Nat.zero_le _
  · rw [htx]; intro t ht; cases ht
  · rw [htx]; intro t ht; cases ht
  · rw [hdel, hfwd, hans]; exact h.delOk
  · rw [hfwd]; exact h.fwdDup
  · rw [hbo, hfwd]; exact h.botOutFwd
  · rw [hdel, hto]; exact h.topOutDel

theorem processCtl_inv (c : Cfg) (s : St) (h : Inv c s) : Inv c (processCtl c s).1 := by
  unfold processCtl
  split
  · exact h
  · split
    · split
      · exact h
      · exact flush_core c s _ h rfl rfl rfl rfl rfl rfl rfl rfl rfl (Or.inl rfl) rfl rfl
    · split
      · split
        · exact h
        · exact flush_core c s _ h rfl rfl rfl rfl rfl rfl rfl rfl rfl (Or.inr rfl) rfl rfl
      · exact { h with }

theorem dropOut_inv (c : Cfg) (s : St) (h : Inv c s) : Inv c (dropOut s).1 := by
  unfold dropOut
  refine { h with botOutFwd := ?_, topOutDel := ?_ }
  · intro b hb; simp at hb
  · exact ⟨s.delivered, by simp⟩

theorem tick_inv (c : Cfg) (s : St) (h : Inv c s) : Inv c (tick c s).1 := by
  unfold tick
  split
  · exact h
  · simp only
    split
    · exact processCtl_inv c s h
    · split
      · exact dropOut_inv c _ (processCtl_inv c s h)
      · exact runPipeline_inv c _ (processCtl_inv c s h)

/-! ### every op of the environment -/

theorem step_inv (c : Cfg) (s : St) (o : Op) (h : Inv c s) : Inv c (step c s o) := by
  cases o with
  | tick => exact tick_inv c s h
  | top q =>
    simp only [step]
    split
    · refine { h with fresh := ?_, freshTop := ?_ }
      · show (s.accepted ++ (s.topIn ++ [q.toReq s.nextTop]).map (·.id)).Pairwise (· < ·)
        rw [List.map_append, ← List.append_assoc]
        exact pairwise_snoc h.fresh h.freshTop
      · show ∀ a ∈ s.accepted ++ (s.topIn ++ [q.toReq s.nextTop]).map (·.id), a < s.nextTop + 1
        intro a ha
        rw [List.map_append, ← List.append_assoc] at ha
        rcases List.mem_append.1 ha with ha | ha
        · exact Nat.lt_succ_of_lt (h.freshTop a ha)
        · simp [ReqIn.toReq] at ha; omega
    · exact h
  | bot b p =>
    simp only [step]
    split
    · exact { h with }
    · exact h
  | ctl m =>
    simp only [step]
    split
    · exact { h with }
    · exact h
  | drainTop =>
    refine { h with topOutDel := ?_ }
    obtain ⟨pre, hpre⟩ := h.topOutDel
    refine ⟨pre ++ s.topOut.take 1, ?_⟩
    show s.delivered = pre ++ s.topOut.take 1 ++ s.topOut.drop 1
    rw [List.append_assoc, List.take_append_drop]; exact hpre
  | drainBot =>
    refine { h with botOutFwd := ?_ }
    intro b hb
    exact h.botOutFwd b (List.mem_of_mem_drop hb)
  | drainCtl => exact { h with }

theorem run_inv (c : Cfg) (ops : List Op) : Inv c (run c ops) := by
  unfold run
  have key : ∀ (ops : List Op) (s : St), Inv c s → Inv c (ops.foldl (step c) s) := by
    intro ops
    induction ops with
    | nil => intro s h; exact h
    | cons o os ih => intro s h; exact ih _ (step_inv c s o h)
  exact key ops {} (inv_init c)

end C15

/-! ## Monotone ghost logs: what was discarded stays discarded, in every continuation -/

namespace C15

/-- `s'` is a later state as far as the discard logs are concerned -/
def LogExt (s s' : St) : Prop :=
  (∀ a ∈ s.discarded, a ∈ s'.discarded) ∧ (∀ b ∈ s.discardedBot, b ∈ s'.discardedBot)

theorem LogExt.refl (s : St) : LogExt s s := ⟨fun _ h => h, fun _ h => h⟩

theorem LogExt.trans {a b c : St} (h1 : LogExt a b) (h2 : LogExt b c) : LogExt a c :=
  ⟨fun x hx => h2.1 x (h1.1 x hx), fun x hx => h2.2 x (h1.2 x hx)⟩

theorem LogExt.of_eq {s s' : St} (h1 : s'.discarded = s.discarded) (h2 : s'.discardedBot = s.discardedBot) :
    LogExt s s' := ⟨fun _ h => h1 ▸ h, fun _ h => h2 ▸ h⟩

theorem iterP_rel {R : St → St → Prop} (hr : ∀ s, R s s) (ht : ∀ a b c, R a b → R b c → R a c)
    {f : St → St × Bool} (hf : ∀ s, R s (f s).1) : ∀ n sb, R sb.1 (iterP f n sb).1 := by
  intro n
  induction n with
  | zero => intro sb; exact hr _
  | succ n ih =>
    intro sb
    exact ht _ _ _ (hf sb.1) (ih ((f sb.1).1, sb.2 || (f sb.1).2))

theorem bottomUp_log (c : Cfg) (s : St) : LogExt s (bottomUp c s).1 := by
  unfold bottomUp
  repeat' split
  all_goals exact LogExt.of_eq rfl rfl

theorem parseBottom_log (s : St) : LogExt s (parseBottom s).1 := by
  unfold parseBottom
  repeat' split
  all_goals exact LogExt.of_eq rfl rfl

theorem topDown_log (c : Cfg) (s : St) : LogExt s (topDown c s).1 := by
  unfold topDown
  repeat' split
  all_goals exact LogExt.of_eq rfl rfl

theorem processCtl_log (c : Cfg) (s : St) : LogExt s (processCtl c s).1 := by
  unfold processCtl
  repeat' split
  all_goals first
    | exact LogExt.of_eq rfl rfl
    | exact ⟨fun _ h => List.mem_append_left _ h, fun _ h => List.mem_append_left _ h⟩

theorem tick_log (c : Cfg) (s : St) : LogExt s (tick c s).1 := by
  have hp : LogExt (processCtl c s).1 (runPipeline c (processCtl c s).1).1 := by
    unfold runPipeline
    have h1 := iterP_rel LogExt.refl (fun _ _ _ => LogExt.trans) (bottomUp_log c) c.width
      ((processCtl c s).1, false)
    have h2 := iterP_rel LogExt.refl (fun _ _ _ => LogExt.trans) parseBottom_log c.width
      (iterP (bottomUp c) c.width ((processCtl c s).1, false))
    have h3 := iterP_rel LogExt.refl (fun _ _ _ => LogExt.trans) (topDown_log c) c.width
      (iterP parseBottom c.width (iterP (bottomUp c) c.width ((processCtl c s).1, false)))
    exact LogExt.trans (LogExt.trans h1 h2) h3
  unfold tick
  split
  · exact LogExt.refl _
  · simp only
    split
    · exact processCtl_log c s
    · split
      · exact LogExt.trans (processCtl_log c s) (LogExt.of_eq rfl rfl)
      · exact LogExt.trans (processCtl_log c s) hp

theorem step_log (c : Cfg) (s : St) (o : Op) : LogExt s (step c s o) := by
  cases o with
  | tick => exact tick_log c s
  | top q => simp only [step]; split <;> exact LogExt.of_eq rfl rfl
  | bot b p => simp only [step]; split <;> exact LogExt.of_eq rfl rfl
  | ctl m => simp only [step]; split <;> exact LogExt.of_eq rfl rfl
  | drainTop => exact LogExt.of_eq rfl rfl
  | drainBot => exact LogExt.of_eq rfl rfl
  | drainCtl => exact LogExt.of_eq rfl rfl

theorem foldl_log (c : Cfg) (ops : List Op) (s : St) : LogExt s (ops.foldl (step c) s) := by
  induction ops generalizing s with
  | nil => exact LogExt.refl _
  | cons o os ih => exact LogExt.trans (step_log c s o) (ih _)

theorem run_append (c : Cfg) (ops1 ops2 : List Op) :
    run c (ops1 ++ ops2) = ops2.foldl (step c) (run c ops1) := by
  simp [run, List.foldl_append]

end C15
