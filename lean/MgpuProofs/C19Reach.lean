import MgpuProofs.C19Live
/-! Helper lemmas for C19 (closed system): the invariant of the whole world and its preservation by
    every valid move. (The two cases `0`/`1` of every lemma are mirror images.) -/
namespace C19

/-- messages in the network are addressed to the other controller -/
def wfR : RMsg → Prop
  | .req r => r.src < 2 ∧ r.dst = 1 - r.src
  | .rsp r => r.dst = some 0 ∨ r.dst = some 1
  | .junk _ => False

/-- request ids are submission numbers: increasing along a controller's queue, below the counter -/
def Sorted (l : List MigReq) (n : Nat) : Prop :=
  (l.map (·.id)).Pairwise (· < ·) ∧ ∀ r ∈ l, r.id < n

/-- bytes that differ between two worlds lie in the destination range of the request the
    controller of that memory is migrating -/
def Frame (w w' : World) : Prop :=
  ∀ x, (readByte w'.sys.m0 x ≠ readByte w.sys.m0 x →
          ∃ r, w.sys.p0.cur = some r ∧ w.sys.p0.handling = true ∧ r.wr ≤ x ∧ x < r.wr + r.size) ∧
       (readByte w'.sys.m1 x ≠ readByte w.sys.m1 x →
          ∃ r, w.sys.p1.cur = some r ∧ w.sys.p1.handling = true ∧ r.wr ≤ x ∧ x < r.wr + r.size)

theorem frame_same {w w' : World} (h0 : w'.sys.m0 = w.sys.m0) (h1 : w'.sys.m1 = w.sys.m1) : Frame w w' := by
  intro x; rw [h0, h1]; exact ⟨fun h => absurd rfl h, fun h => absurd rfl h⟩

theorem frame_write0 {w w' : World} {a : Nat} {d : List Nat} (h0 : w'.sys.m0 = writeBytes w.sys.m0 a d)
    (h1 : w'.sys.m1 = w.sys.m1) (hin : a + d.length ≤ w.sys.m0.size) (r : MigReq) (hc : w.sys.p0.cur = some r)
    (hh : w.sys.p0.handling = true) (hlo : r.wr ≤ a) (hhi : a + d.length ≤ r.wr + r.size) : Frame w w' := by
  intro x; rw [h0, h1]
  refine ⟨fun hne => ⟨r, hc, hh, ?_⟩, fun hne => absurd rfl hne⟩
  rw [readByte_writeBytes _ _ _ _ hin] at hne
  by_cases hx : a ≤ x ∧ x < a + d.length
  · omega
  · rw [if_neg hx] at hne; exact absurd rfl hne

theorem frame_write1 {w w' : World} {a : Nat} {d : List Nat} (h1 : w'.sys.m1 = writeBytes w.sys.m1 a d)
    (h0 : w'.sys.m0 = w.sys.m0) (hin : a + d.length ≤ w.sys.m1.size) (r : MigReq) (hc : w.sys.p1.cur = some r)
    (hh : w.sys.p1.handling = true) (hlo : r.wr ≤ a) (hhi : a + d.length ≤ r.wr + r.size) : Frame w w' := by
  intro x; rw [h0, h1]
  refine ⟨fun hne => absurd rfl hne, fun hne => ⟨r, hc, hh, ?_⟩⟩
  rw [readByte_writeBytes _ _ _ _ hin] at hne
  by_cases hx : a ≤ x ∧ x < a + d.length
  · omega
  · rw [if_neg hx] at hne; exact absurd rfl hne

theorem Sorted.mono {l : List MigReq} {n : Nat} (h : Sorted l n) : Sorted l (n + 1) :=
  ⟨h.1, fun r hr => Nat.lt_succ_of_lt (h.2 r hr)⟩

theorem Sorted.snoc {l : List MigReq} {n : Nat} (h : Sorted l n) (r : MigReq) (hr : r.id = n) :
    Sorted (l ++ [r]) (n + 1) := by
  refine ⟨?_, ?_⟩
  · rw [List.map_append, List.pairwise_append]
    refine ⟨h.1, by simp, ?_⟩
    intro a ha b hb
    obtain ⟨x, hx, rfl⟩ := List.mem_map.mp ha
    simp only [List.map_cons, List.map_nil, List.mem_singleton] at hb
    have := h.2 x hx
    omega
  · intro x hx
    rcases List.mem_append.mp hx with hx | hx
    · exact Nat.lt_succ_of_lt (h.2 x hx)
    · rw [List.mem_singleton.mp hx, hr]; exact Nat.lt_succ_self _

/-- the invariant of the closed system -/
structure WInv (w : World) : Prop where
  nf : w.sys.fault = none
  f0 : w.sys.p0.fault = none
  f1 : w.sys.p1.fault = none
  ph0 : Phase (key w.sys.p0)
  ph1 : Phase (key w.sys.p1)
  wd0 : w.sys.p0.wdone = none
  wd1 : w.sys.p1.wdone = none
  d0 : Dir w.sys.v0 w.live
  d1 : Dir w.sys.v1 w.live
  net : ∀ m ∈ w.sys.net, wfR m
  lp : ∀ ℓ ∈ w.live, ℓ.p < 2
  lo : w.live.Pairwise Disj
  li : w.live.Pairwise (fun a b => a.r.id < b.r.id)
  ln : ∀ ℓ ∈ w.live, ℓ.r.id < w.sys.nreq
  so0 : Sorted (w.sys.p0.started ++ migsOf w.sys.p0.ctlIn ++ migsOf w.sys.cq0) w.sys.nreq
  so1 : Sorted (w.sys.p1.started ++ migsOf w.sys.p1.ctlIn ++ migsOf w.sys.cq1) w.sys.nreq

variable {w : World}

theorem Phase.setCtlIn' {q : Pmc} (x : List CMsg) (h : Phase (key q)) : Phase (key { q with ctlIn := x }) := by
  cases h with
  | idle a b c d e => exact Phase.idle a b c d e
  | moving S r a b c d e f g => exact Phase.moving S r a b c d e f g
  | done S r a b c d e f g i => exact Phase.done S r a b c d e f g i

theorem world_eta (w : World) : ({ sys := w.sys, live := w.live } : World) = w := rfl

theorem junk_not_remOut {v : DirV} {live : List Live} (h : Dir v live) (d : Nat) : RMsg.junk d ∉ v.rq.remOut := by
  intro hin
  apply h.nobad
  simp only [toks, reqSide, List.mem_append, List.mem_flatMap]
  exact Or.inl (Or.inl (Or.inl (Or.inl (Or.inl (Or.inl (Or.inl (Or.inl (Or.inl (Or.inl (Or.inl (Or.inl
    (Or.inr ⟨_, hin, by simp [outReq]⟩))))))))))))

theorem img_readBytes (m : Mem) (a n : Nat) : Img m a (readBytes m a n) 0 n := by
  intro j _ hj
  rw [readBytes_getD _ _ _ _ hj]

theorem ids_ne_of_lt {live : List Live} (h : live.Pairwise (fun a b => a.r.id < b.r.id)) {a b : Live}
    (ha : a ∈ live) (hb : b ∈ live) (hne : a ≠ b) : a.r.id ≠ b.r.id := by
  have h' : live.Pairwise (fun a b => a.r.id ≠ b.r.id) := h.imp (fun h => Nat.ne_of_lt h)
  exact pairwise_mem (fun _ _ h => h.symm) h' ha hb hne

/-! ### moves addressed to controller / memory 0 -/

theorem winv_tick0 (h : WInv w) : WInv (w.step (.tick 0)) ∧ Frame w (w.step (.tick 0)) := by
  obtain ⟨hf, hb, hp, hw⟩ := both_tick (vx := w.sys.v0) (vy := w.sys.v1) (q := w.sys.p0)
    ⟨h.d0, h.d1⟩ h.ph0 h.f0
  have e : w.step (.tick 0) = { sys := { w.sys with p0 := (tick w.sys.p0).1 }, live := w.live } := by
    unfold World.step step; simp [Sys.pmc, Sys.setPmc, hf]
  rw [e]
  have hso : Sorted ((tick w.sys.p0).1.started ++ migsOf (tick w.sys.p0).1.ctlIn ++ migsOf w.sys.cq0) w.sys.nreq := by
    have := (tick_inv _ w.sys.p0 ⟨h.ph0, rfl⟩ hf).2
    simp only [reqs, key] at this
    rw [this]; exact h.so0
  refine ⟨?_, frame_same rfl rfl⟩
  exact { nf := h.nf, so0 := hso, so1 := h.so1, f0 := hf, f1 := h.f1, ph0 := hp, ph1 := h.ph1, wd0 := hw, wd1 := h.wd1,
          d0 := hb.1, d1 := hb.2, net := h.net, lp := h.lp, lo := h.lo, li := h.li, ln := h.ln }

theorem winv_ctl0 (h : WInv w) : WInv (w.step (.ctl 0)) ∧ Frame w (w.step (.ctl 0)) := by
  cases hq : w.sys.cq0 with
  | nil =>
    have e : w.step (.ctl 0) = w := by unfold World.step step; simp [Sys.cq, hq]
    rw [e]; exact ⟨h, frame_same rfl rfl⟩
  | cons c rest =>
    by_cases hroom : w.sys.p0.ctlIn.length < 1
    · have e : w.step (.ctl 0) = { sys := { w.sys with p0 := { w.sys.p0 with ctlIn := w.sys.p0.ctlIn ++ [c] }, cq0 := rest }, live := w.live } := by
        unfold World.step step; simp [Sys.cq, Sys.pmc, Sys.setPmc, Sys.setCq, hq, hroom]
      rw [e]
      have hso : Sorted (w.sys.p0.started ++ migsOf (w.sys.p0.ctlIn ++ [c]) ++ migsOf rest) w.sys.nreq := by
        have := h.so0
        rw [hq, List.append_assoc, ← migsOf_snoc, ← List.append_assoc] at this
        exact this
      refine ⟨?_, frame_same rfl rfl⟩
      exact { nf := h.nf, so0 := hso, so1 := h.so1, f0 := h.f0, f1 := h.f1, ph0 := h.ph0.setCtlIn' _, ph1 := h.ph1,
              wd0 := h.wd0, wd1 := h.wd1,
              d0 := h.d0.ctl c rest hq,
              d1 := h.d1.own_same _ rfl rfl rfl rfl rfl rfl rfl rfl rfl,
              net := h.net, lp := h.lp, lo := h.lo, li := h.li, ln := h.ln }
    · have e : w.step (.ctl 0) = w := by
        unfold World.step step; simp [Sys.cq, Sys.pmc, hq, hroom]
      rw [e]; exact ⟨h, frame_same rfl rfl⟩

theorem winv_pick0 (h : WInv w) : WInv (w.step (.pick 0)) ∧ Frame w (w.step (.pick 0)) := by
  cases hq : w.sys.p0.remOut with
  | nil =>
    have e : w.step (.pick 0) = w := by unfold World.step step; simp [Sys.pmc, hq]
    rw [e]; exact ⟨h, frame_same rfl rfl⟩
  | cons m rest =>
    have e : w.step (.pick 0) = { sys := { w.sys with p0 := { w.sys.p0 with remOut := rest }, net := w.sys.net ++ [m] }, live := w.live } := by
      unfold World.step step; simp [Sys.pmc, Sys.setPmc, hq]
    rw [e]
    have hnj : ∀ d, m ≠ RMsg.junk d := by
      intro d hd
      exact junk_not_remOut h.d0 d (by show RMsg.junk d ∈ w.sys.p0.remOut; rw [hq, hd]; simp)
    have hreq : ∀ r, m = RMsg.req r → r.src = 0 ∧ r.dst = 1 - 0 := by
      intro r hr
      exact h.d0.rt2 r (by show RMsg.req r ∈ w.sys.p0.remOut; rw [hq, hr]; simp)
    have hrsp : ∀ r, m = RMsg.rsp r → r.dst = some 1 := by
      intro r hr
      exact h.d1.rd2 r (by show RMsg.rsp r ∈ w.sys.p0.remOut; rw [hq, hr]; simp)
    refine ⟨?_, frame_same rfl rfl⟩
    exact { nf := h.nf, so0 := h.so0, so1 := h.so1, f0 := h.f0, f1 := h.f1, ph0 := h.ph0, ph1 := h.ph1,
            wd0 := h.wd0, wd1 := h.wd1,
            d0 := h.d0.pick_rq m rest hq (fun r hr => by rw [hrsp r hr]; show some 1 ≠ some 0; simp),
            d1 := h.d1.pick_ow m rest hq (fun r hr => by rw [(hreq r hr).1]; show 0 ≠ 1; simp) hnj,
            net := by
              intro m' hm'
              rcases List.mem_append.mp hm' with hm' | hm'
              · exact h.net m' hm'
              · rw [List.mem_singleton.mp hm']
                cases m with
                | req r => obtain ⟨a, b⟩ := hreq r rfl; exact ⟨by omega, by omega⟩
                | rsp r => have := hrsp r rfl; simp [wfR, this]
                | junk d => exact absurd rfl (hnj d)
            lp := h.lp, lo := h.lo, li := h.li, ln := h.ln }

theorem winv_mtake0 (h : WInv w) : WInv (w.step (.mtake 0)) ∧ Frame w (w.step (.mtake 0)) := by
  cases hq : w.sys.p0.memOut with
  | nil =>
    have e : w.step (.mtake 0) = w := by unfold World.step step; simp [Sys.pmc, hq]
    rw [e]; exact ⟨h, frame_same rfl rfl⟩
  | cons m rest =>
    have e : w.step (.mtake 0) = { sys := { w.sys with p0 := { w.sys.p0 with memOut := rest }, mq0 := w.sys.mq0 ++ [m] }, live := w.live } := by
      unfold World.step step; simp [Sys.pmc, Sys.setPmc, Sys.mq, Sys.setMq, hq]
    rw [e]
    refine ⟨?_, frame_same rfl rfl⟩
    exact { nf := h.nf, so0 := h.so0, so1 := h.so1, f0 := h.f0, f1 := h.f1, ph0 := h.ph0, ph1 := h.ph1,
            wd0 := h.wd0, wd1 := h.wd1,
            d0 := h.d0.mtake_rq m rest hq,
            d1 := h.d1.mtake_ow m rest hq,
            net := h.net, lp := h.lp, lo := h.lo, li := h.li, ln := h.ln }

theorem winv_mrsp0 (h : WInv w) (j : Nat) : WInv (w.step (.mrsp 0 j)) ∧ Frame w (w.step (.mrsp 0 j)) := by
  cases hm : w.sys.mr0[j % w.sys.mr0.length]? with
  | none =>
    have e : w.step (.mrsp 0 j) = w := by unfold World.step step; simp [Sys.mr, hm]
    rw [e]; exact ⟨h, frame_same rfl rfl⟩
  | some m =>
    by_cases hroom : w.sys.p0.memIn.length < 1
    · have e : w.step (.mrsp 0 j) = { sys := { w.sys with p0 := { w.sys.p0 with memIn := w.sys.p0.memIn ++ [m] }, mr0 := w.sys.mr0.eraseIdx (j % w.sys.mr0.length) }, live := w.live } := by
        unfold World.step step; simp [Sys.pmc, Sys.setPmc, Sys.mr, Sys.setMr, removeNth, hm, hroom]
      rw [e]
      refine ⟨?_, frame_same rfl rfl⟩
      exact { nf := h.nf, so0 := h.so0, so1 := h.so1, f0 := h.f0, f1 := h.f1, ph0 := h.ph0, ph1 := h.ph1,
              wd0 := h.wd0, wd1 := h.wd1,
              d0 := h.d0.mrsp_rq _ m hm hroom h.wd0,
              d1 := h.d1.mrsp_ow _ m hm,
              net := h.net, lp := h.lp, lo := h.lo, li := h.li, ln := h.ln }
    · have e : w.step (.mrsp 0 j) = w := by
        unfold World.step step; simp [Sys.pmc, Sys.mr, hm, hroom]
      rw [e]; exact ⟨h, frame_same rfl rfl⟩

theorem winv_mdo0 (h : WInv w) (j : Nat) : WInv (w.step (.mdo 0 j)) ∧ Frame w (w.step (.mdo 0 j)) := by
  cases hm : w.sys.mq0[j % w.sys.mq0.length]? with
  | none =>
    have e : w.step (.mdo 0 j) = w := by unfold World.step step; simp [Sys.mq, hm]
    rw [e]; exact ⟨h, frame_same rfl rfl⟩
  | some m =>
    cases m with
    | read id a n =>
      obtain ⟨hle, hd⟩ := h.d1.mdo_read_ow _ id a n hm
      have hle' : a + n ≤ w.sys.m0.size := hle
      have e : w.step (.mdo 0 j) = { sys := { w.sys with mq0 := w.sys.mq0.eraseIdx (j % w.sys.mq0.length), mr0 := w.sys.mr0 ++ [.data id (readBytes w.sys.m0 a n)] }, live := w.live } := by
        unfold World.step step
        simp [Sys.mq, Sys.setMq, Sys.mr, Sys.setMr, Sys.mem, Sys.setMem, removeNth, hm, perform, hle']
      rw [e]
      refine ⟨?_, frame_same rfl rfl⟩
      exact { nf := h.nf, so0 := h.so0, so1 := h.so1, f0 := h.f0, f1 := h.f1, ph0 := h.ph0, ph1 := h.ph1,
              wd0 := h.wd0, wd1 := h.wd1,
              d0 := h.d0.mdo_read_rq _ id a n _ hm,
              d1 := hd,
              net := h.net, lp := h.lp, lo := h.lo, li := h.li, ln := h.ln }
    | write id a d =>
      obtain ⟨hin, ⟨ℓ, hl, hlp, hlo, hhi, hcur, hhand⟩, hd⟩ := h.d0.mdo_write_rq h.lo _ id a d hm
      have hin' : a + d.length ≤ w.sys.m0.size := hin
      have hlp' : ℓ.p = 0 := hlp
      have e : w.step (.mdo 0 j) = { sys := { w.sys with m0 := writeBytes w.sys.m0 a d, mq0 := w.sys.mq0.eraseIdx (j % w.sys.mq0.length), mr0 := w.sys.mr0 ++ [.done id] }, live := w.live } := by
        unfold World.step step
        simp [Sys.mq, Sys.setMq, Sys.mr, Sys.setMr, Sys.mem, Sys.setMem, removeNth, hm, perform, hin']
      rw [e]
      refine ⟨?_, frame_write0 rfl rfl hin' ℓ.r hcur hhand hlo hhi⟩
      exact { nf := h.nf, so0 := h.so0, so1 := h.so1, f0 := h.f0, f1 := h.f1, ph0 := h.ph0, ph1 := h.ph1,
              wd0 := h.wd0, wd1 := h.wd1,
              d0 := hd,
              d1 := h.d1.mdo_write_ow _ id a d hm hin (by
                intro ℓ' hl' hlq
                have hlq' : ℓ'.p = 1 := hlq
                have hne : ℓ ≠ ℓ' := by intro e'; rw [e'] at hlp'; omega
                have := (pairwise_mem (fun _ _ => Disj.symm) h.lo hl hl' hne).2 (by omega)
                unfold disjoint at this ⊢
                omega),
              net := h.net, lp := h.lp, lo := h.lo, li := h.li, ln := h.ln }

theorem winv_coll0 (h : WInv w) : WInv (w.step (.coll 0)) ∧ Frame w (w.step (.coll 0)) := by
  cases hq : w.sys.p0.ctlOut with
  | nil =>
    have e : w.step (.coll 0) = w := by unfold World.step step; simp [Sys.pmc, hq]
    rw [e]; exact ⟨h, frame_same rfl rfl⟩
  | cons c rest =>
    have e : w.step (.coll 0) = { sys := { w.sys with p0 := { w.sys.p0 with ctlOut := rest }, got0 := w.sys.got0 ++ [c] }, live := w.live.filter fun ℓ => ℓ.r.id != c } := by
      unfold World.step step; simp [Sys.pmc, Sys.setPmc, Sys.got, Sys.setGot, hq]
    rw [e]
    obtain ⟨y, hy, hyp, hyc⟩ := h.d0.id_live c (Or.inl (by show c ∈ w.sys.p0.ctlOut; rw [hq]; simp))
    have hyp' : y.p = 0 := hyp
    have hsub : ∀ x ∈ w.live.filter (fun ℓ => ℓ.r.id != c), x ∈ w.live := fun x hx => (List.mem_filter.mp hx).1
    refine ⟨?_, frame_same rfl rfl⟩
    exact { nf := h.nf, so0 := h.so0, so1 := h.so1, f0 := h.f0, f1 := h.f1, ph0 := h.ph0, ph1 := h.ph1,
            wd0 := h.wd0, wd1 := h.wd1,
            d0 := h.d0.coll_same c rest hq,
            d1 := (h.d1.own_same { w.sys.p0 with ctlOut := rest } rfl rfl rfl rfl rfl rfl rfl rfl rfl).coll_other c (by
              intro x hx hxp
              have hxp' : x.p = 1 := hxp
              have hne : x ≠ y := by intro e'; rw [e'] at hxp'; omega
              rw [← hyc]
              exact ids_ne_of_lt h.li hx hy hne),
            net := h.net,
            lp := fun x hx => h.lp x (hsub x hx),
            lo := h.lo.sublist List.filter_sublist,
            li := h.li.sublist List.filter_sublist,
            ln := fun x hx => h.ln x (hsub x hx) }

theorem winv_submit0 (h : WInv w) (rd wr size peer : Nat) (hv : validSubmit w 0 rd wr size peer) :
    WInv (w.step (.submit 0 rd wr size peer)) ∧ Frame w (w.step (.submit 0 rd wr size peer)) := by
  obtain ⟨_, hpeer, hpos, hmod, hrd, hwr, hdis⟩ := hv
  have hpeer' : peer = 1 := hpeer
  subst hpeer'
  have hrd' : rd + size ≤ w.sys.m1.size := hrd
  have hwr' : wr + size ≤ w.sys.m0.size := hwr
  have e : w.step (.submit 0 rd wr size 1) = { sys := { w.sys with cq0 := w.sys.cq0 ++ [.mig ⟨w.sys.nreq, rd, wr, size, 1⟩], nreq := w.sys.nreq + 1 }, live := w.live ++ [⟨0, ⟨w.sys.nreq, rd, wr, size, 1⟩, readBytes w.sys.m1 rd size⟩] } := by
    unfold World.step step; simp [Sys.cq, Sys.setCq, Sys.mem]
  rw [e]
  have hso : Sorted (w.sys.p0.started ++ migsOf w.sys.p0.ctlIn ++ migsOf (w.sys.cq0 ++ [.mig ⟨w.sys.nreq, rd, wr, size, 1⟩])) (w.sys.nreq + 1) := by
    have := h.so0.snoc ⟨w.sys.nreq, rd, wr, size, 1⟩ rfl
    simpa [migsOf_append, migsOf] using this
  refine ⟨?_, frame_same rfl rfl⟩
  exact { nf := h.nf, so0 := hso, so1 := h.so1.mono, f0 := h.f0, f1 := h.f1, ph0 := h.ph0, ph1 := h.ph1,
          wd0 := h.wd0, wd1 := h.wd1,
          d0 := h.d0.submit_same ⟨0, ⟨w.sys.nreq, rd, wr, size, 1⟩, readBytes w.sys.m1 rd size⟩ rfl
            (fun x hx => h.ln x hx) ⟨rfl, hpos, hmod, hrd', hwr', readBytes_length _ _ _⟩ (img_readBytes _ _ _),
          d1 := h.d1.submit_other ⟨0, ⟨w.sys.nreq, rd, wr, size, 1⟩, readBytes w.sys.m1 rd size⟩
            (by show 0 ≠ 1; simp),
          net := h.net,
          lp := by
            intro x hx
            rcases List.mem_append.mp hx with hx | hx
            · exact h.lp x hx
            · rw [List.mem_singleton.mp hx]; show 0 < 2; omega
          lo := by
            rw [List.pairwise_append]
            refine ⟨h.lo, by simp, ?_⟩
            intro a ha b hb
            rw [List.mem_singleton.mp hb]
            obtain ⟨d1, d2⟩ := hdis a ha
            have := h.lp a ha
            refine ⟨fun e' => ?_, fun e' => ?_⟩
            · have := d1 e'; unfold disjoint at this ⊢; simp only at this ⊢; omega
            · have hp : a.p = 1 := by
                have e'' : a.p ≠ 0 := e'
                omega
              have := d2 hp
              unfold disjoint at this ⊢; simp only at this ⊢; omega
          li := by
            rw [List.pairwise_append]
            refine ⟨h.li, by simp, ?_⟩
            intro a ha b hb
            rw [List.mem_singleton.mp hb]
            exact h.ln a ha
          ln := by
            intro x hx
            rcases List.mem_append.mp hx with hx | hx
            · have := h.ln x hx; show x.r.id < w.sys.nreq + 1; omega
            · rw [List.mem_singleton.mp hx]; show w.sys.nreq < w.sys.nreq + 1; omega }

/-! ### moves addressed to controller / memory 1 -/

theorem winv_tick1 (h : WInv w) : WInv (w.step (.tick 1)) ∧ Frame w (w.step (.tick 1)) := by
  obtain ⟨hf, hb, hp, hw⟩ := both_tick (vx := w.sys.v1) (vy := w.sys.v0) (q := w.sys.p1)
    ⟨h.d1, h.d0⟩ h.ph1 h.f1
  have e : w.step (.tick 1) = { sys := { w.sys with p1 := (tick w.sys.p1).1 }, live := w.live } := by
    unfold World.step step; simp [Sys.pmc, Sys.setPmc, hf]
  rw [e]
  have hso : Sorted ((tick w.sys.p1).1.started ++ migsOf (tick w.sys.p1).1.ctlIn ++ migsOf w.sys.cq1) w.sys.nreq := by
    have := (tick_inv _ w.sys.p1 ⟨h.ph1, rfl⟩ hf).2
    simp only [reqs, key] at this
    rw [this]; exact h.so1
  refine ⟨?_, frame_same rfl rfl⟩
  exact { nf := h.nf, so1 := hso, so0 := h.so0, f1 := hf, f0 := h.f0, ph1 := hp, ph0 := h.ph0, wd1 := hw, wd0 := h.wd0,
          d1 := hb.1, d0 := hb.2, net := h.net, lp := h.lp, lo := h.lo, li := h.li, ln := h.ln }

theorem winv_ctl1 (h : WInv w) : WInv (w.step (.ctl 1)) ∧ Frame w (w.step (.ctl 1)) := by
  cases hq : w.sys.cq1 with
  | nil =>
    have e : w.step (.ctl 1) = w := by unfold World.step step; simp [Sys.cq, hq]
    rw [e]; exact ⟨h, frame_same rfl rfl⟩
  | cons c rest =>
    by_cases hroom : w.sys.p1.ctlIn.length < 1
    · have e : w.step (.ctl 1) = { sys := { w.sys with p1 := { w.sys.p1 with ctlIn := w.sys.p1.ctlIn ++ [c] }, cq1 := rest }, live := w.live } := by
        unfold World.step step; simp [Sys.cq, Sys.pmc, Sys.setPmc, Sys.setCq, hq, hroom]
      rw [e]
      have hso : Sorted (w.sys.p1.started ++ migsOf (w.sys.p1.ctlIn ++ [c]) ++ migsOf rest) w.sys.nreq := by
        have := h.so1
        rw [hq, List.append_assoc, ← migsOf_snoc, ← List.append_assoc] at this
        exact this
      refine ⟨?_, frame_same rfl rfl⟩
      exact { nf := h.nf, so1 := hso, so0 := h.so0, f1 := h.f1, f0 := h.f0, ph1 := h.ph1.setCtlIn' _, ph0 := h.ph0,
              wd1 := h.wd1, wd0 := h.wd0,
              d1 := h.d1.ctl c rest hq,
              d0 := h.d0.own_same _ rfl rfl rfl rfl rfl rfl rfl rfl rfl,
              net := h.net, lp := h.lp, lo := h.lo, li := h.li, ln := h.ln }
    · have e : w.step (.ctl 1) = w := by
        unfold World.step step; simp [Sys.cq, Sys.pmc, hq, hroom]
      rw [e]; exact ⟨h, frame_same rfl rfl⟩

theorem winv_pick1 (h : WInv w) : WInv (w.step (.pick 1)) ∧ Frame w (w.step (.pick 1)) := by
  cases hq : w.sys.p1.remOut with
  | nil =>
    have e : w.step (.pick 1) = w := by unfold World.step step; simp [Sys.pmc, hq]
    rw [e]; exact ⟨h, frame_same rfl rfl⟩
  | cons m rest =>
    have e : w.step (.pick 1) = { sys := { w.sys with p1 := { w.sys.p1 with remOut := rest }, net := w.sys.net ++ [m] }, live := w.live } := by
      unfold World.step step; simp [Sys.pmc, Sys.setPmc, hq]
    rw [e]
    have hnj : ∀ d, m ≠ RMsg.junk d := by
      intro d hd
      exact junk_not_remOut h.d1 d (by show RMsg.junk d ∈ w.sys.p1.remOut; rw [hq, hd]; simp)
    have hreq : ∀ r, m = RMsg.req r → r.src = 1 ∧ r.dst = 1 - 1 := by
      intro r hr
      exact h.d1.rt2 r (by show RMsg.req r ∈ w.sys.p1.remOut; rw [hq, hr]; simp)
    have hrsp : ∀ r, m = RMsg.rsp r → r.dst = some 0 := by
      intro r hr
      exact h.d0.rd2 r (by show RMsg.rsp r ∈ w.sys.p1.remOut; rw [hq, hr]; simp)
    refine ⟨?_, frame_same rfl rfl⟩
    exact { nf := h.nf, so1 := h.so1, so0 := h.so0, f1 := h.f1, f0 := h.f0, ph1 := h.ph1, ph0 := h.ph0,
            wd1 := h.wd1, wd0 := h.wd0,
            d1 := h.d1.pick_rq m rest hq (fun r hr => by rw [hrsp r hr]; show some 0 ≠ some 1; simp),
            d0 := h.d0.pick_ow m rest hq (fun r hr => by rw [(hreq r hr).1]; show 1 ≠ 0; simp) hnj,
            net := by
              intro m' hm'
              rcases List.mem_append.mp hm' with hm' | hm'
              · exact h.net m' hm'
              · rw [List.mem_singleton.mp hm']
                cases m with
                | req r => obtain ⟨a, b⟩ := hreq r rfl; exact ⟨by omega, by omega⟩
                | rsp r => have := hrsp r rfl; simp [wfR, this]
                | junk d => exact absurd rfl (hnj d)
            lp := h.lp, lo := h.lo, li := h.li, ln := h.ln }

theorem winv_mtake1 (h : WInv w) : WInv (w.step (.mtake 1)) ∧ Frame w (w.step (.mtake 1)) := by
  cases hq : w.sys.p1.memOut with
  | nil =>
    have e : w.step (.mtake 1) = w := by unfold World.step step; simp [Sys.pmc, hq]
    rw [e]; exact ⟨h, frame_same rfl rfl⟩
  | cons m rest =>
    have e : w.step (.mtake 1) = { sys := { w.sys with p1 := { w.sys.p1 with memOut := rest }, mq1 := w.sys.mq1 ++ [m] }, live := w.live } := by
      unfold World.step step; simp [Sys.pmc, Sys.setPmc, Sys.mq, Sys.setMq, hq]
    rw [e]
    refine ⟨?_, frame_same rfl rfl⟩
    exact { nf := h.nf, so1 := h.so1, so0 := h.so0, f1 := h.f1, f0 := h.f0, ph1 := h.ph1, ph0 := h.ph0,
            wd1 := h.wd1, wd0 := h.wd0,
            d1 := h.d1.mtake_rq m rest hq,
            d0 := h.d0.mtake_ow m rest hq,
            net := h.net, lp := h.lp, lo := h.lo, li := h.li, ln := h.ln }

theorem winv_mrsp1 (h : WInv w) (j : Nat) : WInv (w.step (.mrsp 1 j)) ∧ Frame w (w.step (.mrsp 1 j)) := by
  cases hm : w.sys.mr1[j % w.sys.mr1.length]? with
  | none =>
    have e : w.step (.mrsp 1 j) = w := by unfold World.step step; simp [Sys.mr, hm]
    rw [e]; exact ⟨h, frame_same rfl rfl⟩
  | some m =>
    by_cases hroom : w.sys.p1.memIn.length < 1
    · have e : w.step (.mrsp 1 j) = { sys := { w.sys with p1 := { w.sys.p1 with memIn := w.sys.p1.memIn ++ [m] }, mr1 := w.sys.mr1.eraseIdx (j % w.sys.mr1.length) }, live := w.live } := by
        unfold World.step step; simp [Sys.pmc, Sys.setPmc, Sys.mr, Sys.setMr, removeNth, hm, hroom]
      rw [e]
      refine ⟨?_, frame_same rfl rfl⟩
      exact { nf := h.nf, so1 := h.so1, so0 := h.so0, f1 := h.f1, f0 := h.f0, ph1 := h.ph1, ph0 := h.ph0,
              wd1 := h.wd1, wd0 := h.wd0,
              d1 := h.d1.mrsp_rq _ m hm hroom h.wd1,
              d0 := h.d0.mrsp_ow _ m hm,
              net := h.net, lp := h.lp, lo := h.lo, li := h.li, ln := h.ln }
    · have e : w.step (.mrsp 1 j) = w := by
        unfold World.step step; simp [Sys.pmc, Sys.mr, hm, hroom]
      rw [e]; exact ⟨h, frame_same rfl rfl⟩

theorem winv_mdo1 (h : WInv w) (j : Nat) : WInv (w.step (.mdo 1 j)) ∧ Frame w (w.step (.mdo 1 j)) := by
  cases hm : w.sys.mq1[j % w.sys.mq1.length]? with
  | none =>
    have e : w.step (.mdo 1 j) = w := by unfold World.step step; simp [Sys.mq, hm]
    rw [e]; exact ⟨h, frame_same rfl rfl⟩
  | some m =>
    cases m with
    | read id a n =>
      obtain ⟨hle, hd⟩ := h.d0.mdo_read_ow _ id a n hm
      have hle' : a + n ≤ w.sys.m1.size := hle
      have e : w.step (.mdo 1 j) = { sys := { w.sys with mq1 := w.sys.mq1.eraseIdx (j % w.sys.mq1.length), mr1 := w.sys.mr1 ++ [.data id (readBytes w.sys.m1 a n)] }, live := w.live } := by
        unfold World.step step
        simp [Sys.mq, Sys.setMq, Sys.mr, Sys.setMr, Sys.mem, Sys.setMem, removeNth, hm, perform, hle']
      rw [e]
      refine ⟨?_, frame_same rfl rfl⟩
      exact { nf := h.nf, so1 := h.so1, so0 := h.so0, f1 := h.f1, f0 := h.f0, ph1 := h.ph1, ph0 := h.ph0,
              wd1 := h.wd1, wd0 := h.wd0,
              d1 := h.d1.mdo_read_rq _ id a n _ hm,
              d0 := hd,
              net := h.net, lp := h.lp, lo := h.lo, li := h.li, ln := h.ln }
    | write id a d =>
      obtain ⟨hin, ⟨ℓ, hl, hlp, hlo, hhi, hcur, hhand⟩, hd⟩ := h.d1.mdo_write_rq h.lo _ id a d hm
      have hin' : a + d.length ≤ w.sys.m1.size := hin
      have hlp' : ℓ.p = 1 := hlp
      have e : w.step (.mdo 1 j) = { sys := { w.sys with m1 := writeBytes w.sys.m1 a d, mq1 := w.sys.mq1.eraseIdx (j % w.sys.mq1.length), mr1 := w.sys.mr1 ++ [.done id] }, live := w.live } := by
        unfold World.step step
        simp [Sys.mq, Sys.setMq, Sys.mr, Sys.setMr, Sys.mem, Sys.setMem, removeNth, hm, perform, hin']
      rw [e]
      refine ⟨?_, frame_write1 rfl rfl hin' ℓ.r hcur hhand hlo hhi⟩
      exact { nf := h.nf, so1 := h.so1, so0 := h.so0, f1 := h.f1, f0 := h.f0, ph1 := h.ph1, ph0 := h.ph0,
              wd1 := h.wd1, wd0 := h.wd0,
              d1 := hd,
              d0 := h.d0.mdo_write_ow _ id a d hm hin (by
                intro ℓ' hl' hlq
                have hlq' : ℓ'.p = 0 := hlq
                have hne : ℓ ≠ ℓ' := by intro e'; rw [e'] at hlp'; omega
                have := (pairwise_mem (fun _ _ => Disj.symm) h.lo hl hl' hne).2 (by omega)
                unfold disjoint at this ⊢
                omega),
              net := h.net, lp := h.lp, lo := h.lo, li := h.li, ln := h.ln }

theorem winv_coll1 (h : WInv w) : WInv (w.step (.coll 1)) ∧ Frame w (w.step (.coll 1)) := by
  cases hq : w.sys.p1.ctlOut with
  | nil =>
    have e : w.step (.coll 1) = w := by unfold World.step step; simp [Sys.pmc, hq]
    rw [e]; exact ⟨h, frame_same rfl rfl⟩
  | cons c rest =>
    have e : w.step (.coll 1) = { sys := { w.sys with p1 := { w.sys.p1 with ctlOut := rest }, got1 := w.sys.got1 ++ [c] }, live := w.live.filter fun ℓ => ℓ.r.id != c } := by
      unfold World.step step; simp [Sys.pmc, Sys.setPmc, Sys.got, Sys.setGot, hq]
    rw [e]
    obtain ⟨y, hy, hyp, hyc⟩ := h.d1.id_live c (Or.inl (by show c ∈ w.sys.p1.ctlOut; rw [hq]; simp))
    have hyp' : y.p = 1 := hyp
    have hsub : ∀ x ∈ w.live.filter (fun ℓ => ℓ.r.id != c), x ∈ w.live := fun x hx => (List.mem_filter.mp hx).1
    refine ⟨?_, frame_same rfl rfl⟩
    exact { nf := h.nf, so1 := h.so1, so0 := h.so0, f1 := h.f1, f0 := h.f0, ph1 := h.ph1, ph0 := h.ph0,
            wd1 := h.wd1, wd0 := h.wd0,
            d1 := h.d1.coll_same c rest hq,
            d0 := (h.d0.own_same { w.sys.p1 with ctlOut := rest } rfl rfl rfl rfl rfl rfl rfl rfl rfl).coll_other c (by
              intro x hx hxp
              have hxp' : x.p = 0 := hxp
              have hne : x ≠ y := by intro e'; rw [e'] at hxp'; omega
              rw [← hyc]
              exact ids_ne_of_lt h.li hx hy hne),
            net := h.net,
            lp := fun x hx => h.lp x (hsub x hx),
            lo := h.lo.sublist List.filter_sublist,
            li := h.li.sublist List.filter_sublist,
            ln := fun x hx => h.ln x (hsub x hx) }

theorem winv_submit1 (h : WInv w) (rd wr size peer : Nat) (hv : validSubmit w 1 rd wr size peer) :
    WInv (w.step (.submit 1 rd wr size peer)) ∧ Frame w (w.step (.submit 1 rd wr size peer)) := by
  obtain ⟨_, hpeer, hpos, hmod, hrd, hwr, hdis⟩ := hv
  have hpeer' : peer = 0 := hpeer
  subst hpeer'
  have hrd' : rd + size ≤ w.sys.m0.size := hrd
  have hwr' : wr + size ≤ w.sys.m1.size := hwr
  have e : w.step (.submit 1 rd wr size 0) = { sys := { w.sys with cq1 := w.sys.cq1 ++ [.mig ⟨w.sys.nreq, rd, wr, size, 0⟩], nreq := w.sys.nreq + 1 }, live := w.live ++ [⟨1, ⟨w.sys.nreq, rd, wr, size, 0⟩, readBytes w.sys.m0 rd size⟩] } := by
    unfold World.step step; simp [Sys.cq, Sys.setCq, Sys.mem]
  rw [e]
  have hso : Sorted (w.sys.p1.started ++ migsOf w.sys.p1.ctlIn ++ migsOf (w.sys.cq1 ++ [.mig ⟨w.sys.nreq, rd, wr, size, 0⟩])) (w.sys.nreq + 1) := by
    have := h.so1.snoc ⟨w.sys.nreq, rd, wr, size, 0⟩ rfl
    simpa [migsOf_append, migsOf] using this
  refine ⟨?_, frame_same rfl rfl⟩
  exact { nf := h.nf, so1 := hso, so0 := h.so0.mono, f1 := h.f1, f0 := h.f0, ph1 := h.ph1, ph0 := h.ph0,
          wd1 := h.wd1, wd0 := h.wd0,
          d1 := h.d1.submit_same ⟨1, ⟨w.sys.nreq, rd, wr, size, 0⟩, readBytes w.sys.m0 rd size⟩ rfl
            (fun x hx => h.ln x hx) ⟨rfl, hpos, hmod, hrd', hwr', readBytes_length _ _ _⟩ (img_readBytes _ _ _),
          d0 := h.d0.submit_other ⟨1, ⟨w.sys.nreq, rd, wr, size, 0⟩, readBytes w.sys.m0 rd size⟩
            (by show 1 ≠ 0; simp),
          net := h.net,
          lp := by
            intro x hx
            rcases List.mem_append.mp hx with hx | hx
            · exact h.lp x hx
            · rw [List.mem_singleton.mp hx]; show 1 < 2; omega
          lo := by
            rw [List.pairwise_append]
            refine ⟨h.lo, by simp, ?_⟩
            intro a ha b hb
            rw [List.mem_singleton.mp hb]
            obtain ⟨d1, d2⟩ := hdis a ha
            have := h.lp a ha
            refine ⟨fun e' => ?_, fun e' => ?_⟩
            · have := d1 e'; unfold disjoint at this ⊢; simp only at this ⊢; omega
            · have hp : a.p = 0 := by
                have e'' : a.p ≠ 1 := e'
                omega
              have := d2 hp
              unfold disjoint at this ⊢; simp only at this ⊢; omega
          li := by
            rw [List.pairwise_append]
            refine ⟨h.li, by simp, ?_⟩
            intro a ha b hb
            rw [List.mem_singleton.mp hb]
            exact h.ln a ha
          ln := by
            intro x hx
            rcases List.mem_append.mp hx with hx | hx
            · have := h.ln x hx; show x.r.id < w.sys.nreq + 1; omega
            · rw [List.mem_singleton.mp hx]; show w.sys.nreq < w.sys.nreq + 1; omega }

/-! ### the network delivers a message -/

theorem winv_dnet (h : WInv w) (j : Nat) : WInv (w.step (.dnet j)) ∧ Frame w (w.step (.dnet j)) := by
  cases hm : w.sys.net[j % w.sys.net.length]? with
  | none =>
    have e : w.step (.dnet j) = w := by unfold World.step step; simp [hm]
    rw [e]; exact ⟨h, frame_same rfl rfl⟩
  | some m =>
    have hwf := h.net m (List.mem_of_getElem? hm)
    have hsubn : ∀ m' ∈ w.sys.net.eraseIdx (j % w.sys.net.length), wfR m' :=
      fun m' hm' => h.net m' (List.mem_of_mem_eraseIdx hm')
    cases m with
    | junk d => exact absurd hwf (by simp [wfR])
    | req r =>
      obtain ⟨hs, hd⟩ := hwf
      have hs'' : r.src = 0 ∨ r.src = 1 := by omega
      rcases hs'' with hs' | hs'
      · have hd' : r.dst = 1 := by omega
        by_cases hroom : w.sys.p1.remIn.length < 1
        · have e : w.step (.dnet j) = { sys := { w.sys with p1 := { w.sys.p1 with remIn := w.sys.p1.remIn ++ [.req r] }, net := w.sys.net.eraseIdx (j % w.sys.net.length) }, live := w.live } := by
            unfold World.step step; simp [Sys.pmc, Sys.setPmc, removeNth, dstOf, hm, hroom, hd']
          rw [e]
          refine ⟨?_, frame_same rfl rfl⟩
          exact { nf := h.nf, so0 := h.so0, so1 := h.so1, f0 := h.f0, f1 := h.f1, ph0 := h.ph0, ph1 := h.ph1, wd0 := h.wd0, wd1 := h.wd1,
                  d1 := h.d1.dnet_rq _ _ hm (by show netTok 1 (.req r) = inRsp (.req r); simp [netTok, inRsp, hs']),
                  d0 := h.d0.dnet_ow _ _ hm (by show netTok 0 (.req r) = inReq (.req r); simp [netTok, inReq, hs'])
                    (fun r' e' => by injection e' with e'; rw [← e']; exact hs'),
                  net := hsubn, lp := h.lp, lo := h.lo, li := h.li, ln := h.ln }
        · have e : w.step (.dnet j) = w := by
            unfold World.step step; simp [Sys.pmc, dstOf, hm, hroom, hd']
          rw [e]; exact ⟨h, frame_same rfl rfl⟩
      · have hd' : r.dst = 0 := by omega
        by_cases hroom : w.sys.p0.remIn.length < 1
        · have e : w.step (.dnet j) = { sys := { w.sys with p0 := { w.sys.p0 with remIn := w.sys.p0.remIn ++ [.req r] }, net := w.sys.net.eraseIdx (j % w.sys.net.length) }, live := w.live } := by
            unfold World.step step; simp [Sys.pmc, Sys.setPmc, removeNth, dstOf, hm, hroom, hd']
          rw [e]
          refine ⟨?_, frame_same rfl rfl⟩
          exact { nf := h.nf, so0 := h.so0, so1 := h.so1, f0 := h.f0, f1 := h.f1, ph0 := h.ph0, ph1 := h.ph1, wd0 := h.wd0, wd1 := h.wd1,
                  d0 := h.d0.dnet_rq _ _ hm (by show netTok 0 (.req r) = inRsp (.req r); simp [netTok, inRsp, hs']),
                  d1 := h.d1.dnet_ow _ _ hm (by show netTok 1 (.req r) = inReq (.req r); simp [netTok, inReq, hs'])
                    (fun r' e' => by injection e' with e'; rw [← e']; exact hs'),
                  net := hsubn, lp := h.lp, lo := h.lo, li := h.li, ln := h.ln }
        · have e : w.step (.dnet j) = w := by
            unfold World.step step; simp [Sys.pmc, dstOf, hm, hroom, hd']
          rw [e]; exact ⟨h, frame_same rfl rfl⟩
    | rsp r =>
      rcases hwf with hd' | hd'
      ·
        by_cases hroom : w.sys.p0.remIn.length < 1
        · have e : w.step (.dnet j) = { sys := { w.sys with p0 := { w.sys.p0 with remIn := w.sys.p0.remIn ++ [.rsp r] }, net := w.sys.net.eraseIdx (j % w.sys.net.length) }, live := w.live } := by
            unfold World.step step; simp [Sys.pmc, Sys.setPmc, removeNth, dstOf, hm, hroom, hd']
          rw [e]
          refine ⟨?_, frame_same rfl rfl⟩
          exact { nf := h.nf, so0 := h.so0, so1 := h.so1, f0 := h.f0, f1 := h.f1, ph0 := h.ph0, ph1 := h.ph1, wd0 := h.wd0, wd1 := h.wd1,
                  d0 := h.d0.dnet_rq _ _ hm (by show netTok 0 (.rsp r) = inRsp (.rsp r); simp [netTok, inRsp, hd']),
                  d1 := h.d1.dnet_ow _ _ hm (by show netTok 1 (.rsp r) = inReq (.rsp r); simp [netTok, inReq, hd'])
                    (fun r' e' => by cases e'),
                  net := hsubn, lp := h.lp, lo := h.lo, li := h.li, ln := h.ln }
        · have e : w.step (.dnet j) = w := by
            unfold World.step step; simp [Sys.pmc, dstOf, hm, hroom, hd']
          rw [e]; exact ⟨h, frame_same rfl rfl⟩
      ·
        by_cases hroom : w.sys.p1.remIn.length < 1
        · have e : w.step (.dnet j) = { sys := { w.sys with p1 := { w.sys.p1 with remIn := w.sys.p1.remIn ++ [.rsp r] }, net := w.sys.net.eraseIdx (j % w.sys.net.length) }, live := w.live } := by
            unfold World.step step; simp [Sys.pmc, Sys.setPmc, removeNth, dstOf, hm, hroom, hd']
          rw [e]
          refine ⟨?_, frame_same rfl rfl⟩
          exact { nf := h.nf, so0 := h.so0, so1 := h.so1, f0 := h.f0, f1 := h.f1, ph0 := h.ph0, ph1 := h.ph1, wd0 := h.wd0, wd1 := h.wd1,
                  d1 := h.d1.dnet_rq _ _ hm (by show netTok 1 (.rsp r) = inRsp (.rsp r); simp [netTok, inRsp, hd']),
                  d0 := h.d0.dnet_ow _ _ hm (by show netTok 0 (.rsp r) = inReq (.rsp r); simp [netTok, inReq, hd'])
                    (fun r' e' => by cases e'),
                  net := hsubn, lp := h.lp, lo := h.lo, li := h.li, ln := h.ln }
        · have e : w.step (.dnet j) = w := by
            unfold World.step step; simp [Sys.pmc, dstOf, hm, hroom, hd']
          rw [e]; exact ⟨h, frame_same rfl rfl⟩

/-! ### every reachable world satisfies the invariant -/

theorem winv_init (m0 m1 : Mem) : WInv { sys := { m0 := m0, m1 := m1 } } := by
  have hd : Dir ({ m0 := m0, m1 := m1 } : Sys).v0 [] ∧ Dir ({ m0 := m0, m1 := m1 } : Sys).v1 [] := by
    refine ⟨?_, ?_⟩ <;>
    exact {
      sf := ⟨rfl, by simp [Sys.v0, Sys.v1]⟩
      co := by simp [Sys.v0, Sys.v1]
      ph := Or.inl (Phase.idle rfl rfl rfl rfl rfl)
      idn := by simp
      lk := rfl
      lm := by intro r hr; simp [Sys.v0, Sys.v1, migsOf] at hr
      cj := by simp [Sys.v0, Sys.v1]
      wd := by simp [Sys.v0, Sys.v1]
      mi := by simp [Sys.v0, Sys.v1]
      wf := by simp
      dn := by simp
      sr := by simp
      rt1 := by simp [Sys.v0, Sys.v1]
      rt2 := by simp [Sys.v0, Sys.v1]
      rt3 := by simp [Sys.v0, Sys.v1]
      rp := Or.inr ⟨rfl, rfl⟩
      rd1 := by simp [Sys.v0, Sys.v1]
      rd2 := by simp [Sys.v0, Sys.v1]
      mv := by intro r hr; simp [Sys.v0, Sys.v1] at hr
      nm := fun _ => ⟨rfl, rfl⟩ }
  exact { nf := rfl, f0 := rfl, f1 := rfl, ph0 := Phase.idle rfl rfl rfl rfl rfl, ph1 := Phase.idle rfl rfl rfl rfl rfl,
          wd0 := rfl, wd1 := rfl, d0 := hd.1, d1 := hd.2, net := by simp,
          lp := by simp, lo := List.Pairwise.nil, li := List.Pairwise.nil, ln := by simp,
          so0 := ⟨by simp [migsOf], by simp [migsOf]⟩, so1 := ⟨by simp [migsOf], by simp [migsOf]⟩ }

theorem winv_step (h : WInv w) (o : Op) (hv : o.valid w) : WInv (w.step o) ∧ Frame w (w.step o) := by
  cases o with
  | tick i =>
    have : i = 0 ∨ i = 1 := by simp [Op.valid, Op.honest] at hv; omega
    rcases this with rfl | rfl
    · exact winv_tick0 h
    · exact winv_tick1 h
  | submit i rd wr size peer =>
    have hv' : validSubmit w i rd wr size peer := hv
    have : i = 0 ∨ i = 1 := by have := hv'.1; omega
    rcases this with rfl | rfl
    · exact winv_submit0 h rd wr size peer hv'
    · exact winv_submit1 h rd wr size peer hv'
  | ctl i =>
    have : i = 0 ∨ i = 1 := by simp [Op.valid, Op.honest] at hv; omega
    rcases this with rfl | rfl
    · exact winv_ctl0 h
    · exact winv_ctl1 h
  | pick i =>
    have : i = 0 ∨ i = 1 := by simp [Op.valid, Op.honest] at hv; omega
    rcases this with rfl | rfl
    · exact winv_pick0 h
    · exact winv_pick1 h
  | dnet j => exact winv_dnet h j
  | mtake i =>
    have : i = 0 ∨ i = 1 := by simp [Op.valid, Op.honest] at hv; omega
    rcases this with rfl | rfl
    · exact winv_mtake0 h
    · exact winv_mtake1 h
  | mdo i j =>
    have : i = 0 ∨ i = 1 := by simp [Op.valid, Op.honest] at hv; omega
    rcases this with rfl | rfl
    · exact winv_mdo0 h j
    · exact winv_mdo1 h j
  | mrsp i j =>
    have : i = 0 ∨ i = 1 := by simp [Op.valid, Op.honest] at hv; omega
    rcases this with rfl | rfl
    · exact winv_mrsp0 h j
    · exact winv_mrsp1 h j
  | coll i =>
    have : i = 0 ∨ i = 1 := by simp [Op.valid, Op.honest] at hv; omega
    rcases this with rfl | rfl
    · exact winv_coll0 h
    · exact winv_coll1 h
  | strayDone i => simp [Op.valid, Op.honest] at hv
  | strayData i => simp [Op.valid, Op.honest] at hv
  | strayRsp i => simp [Op.valid, Op.honest] at hv
  | junkNet i => simp [Op.valid, Op.honest] at hv
  | junkMem i => simp [Op.valid, Op.honest] at hv
  | junkCtl i => simp [Op.valid, Op.honest] at hv

theorem wreach_inv {w : World} (h : WReach w) : WInv w := by
  induction h with
  | init m0 m1 => exact winv_init m0 m1
  | step o _ hv ih => exact (winv_step ih o hv).1

end C19
