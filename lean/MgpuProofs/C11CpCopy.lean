import MgpuProofs.C11CpFlow
/-! Invariant of the command processor's copy path (`InvCopy`): clones, the two id maps, the DMA
engine's answers and the `done` events. -/
namespace C11

attribute [local simp] filterMap_single CpEv.isFwd CpEv.isAck CpEv.cacheIdx? CpEv.flushStart? CpEv.flushDone?
  CpEv.popped? CpEv.clone? CpEv.fwdCid? CpEv.rsp? CpEv.doneOrig? CpEv.dropped

/-! ## list helpers -/

theorem filterMap_nodup_inj {α β} {f : α → Option β} {l : List α} (h : (l.filterMap f).Nodup) {a b : α}
    {x : β} (ha : a ∈ l) (hb : b ∈ l) (fa : f a = some x) (fb : f b = some x) : a = b := by
  induction l with
  | nil => cases ha
  | cons y l ih =>
    rcases List.mem_cons.1 ha with rfl | ha' <;> rcases List.mem_cons.1 hb with rfl | hb'
    · rfl
    · rw [List.filterMap_cons_some fa, List.nodup_cons] at h
      exact absurd (List.mem_filterMap.2 ⟨b, hb', fb⟩) h.1
    · rw [List.filterMap_cons_some fb, List.nodup_cons] at h
      exact absurd (List.mem_filterMap.2 ⟨a, ha', fa⟩) h.1
    · refine ih ?_ ha' hb'
      cases hy : f y with
      | none => rwa [List.filterMap_cons_none hy] at h
      | some z => rw [List.filterMap_cons_some hy, List.nodup_cons] at h; exact h.2

theorem lookup_some_mem {l : List (Nat × Nat)} {c o : Nat} (h : l.lookup c = some o) : (c, o) ∈ l := by
  induction l with
  | nil => simp at h
  | cons p l ih =>
    rcases p with ⟨x, y⟩
    rw [List.lookup_cons] at h
    by_cases hx : c = x
    · subst hx; simp at h; subst h; simp
    · have : (c == x) = false := by simp [hx]
      rw [this] at h
      exact List.mem_cons_of_mem _ (ih h)

theorem lookup_none_not_mem {l : List (Nat × Nat)} {c : Nat} (h : l.lookup c = none) (o : Nat) : (c, o) ∉ l := by
  induction l with
  | nil => simp
  | cons p l ih =>
    rcases p with ⟨x, y⟩
    rw [List.lookup_cons] at h
    by_cases hx : c = x
    · subst hx; simp at h
    · have : (c == x) = false := by simp [hx]
      rw [this] at h
      simp only [List.mem_cons, Prod.mk.injEq, not_or, not_and]
      exact ⟨fun e => absurd e hx, ih h⟩

theorem mem_filter_key {l : List (Nat × Nat)} {c x y : Nat} :
    (x, y) ∈ l.filter (fun e => e.1 != c) ↔ (x, y) ∈ l ∧ x ≠ c := by
  simp

theorem perm_cons_eraseIdx {α} {l : List α} {j : Nat} {c : α} (h : l[j]? = some c) :
    l.Perm (c :: l.eraseIdx j) := by
  induction l generalizing j with
  | nil => simp at h
  | cons a l ih =>
    cases j with
    | zero => simp at h; subst h; simp
    | succ j =>
      simp at h
      simp only [List.eraseIdx_cons_succ]
      exact ((ih h).cons a).trans (List.Perm.swap c a _)

theorem mem_of_getElem? {α} {l : List α} {j : Nat} {c : α} (h : l[j]? = some c) : c ∈ l :=
  List.mem_of_getElem? h

/-- `l ++ [ev]` split at an element: either inside `l`, or the element is the last one -/
theorem snoc_eq_append_cons {α} {l pre post : List α} {ev x : α} (h : l ++ [ev] = pre ++ x :: post) :
    (∃ post', l = pre ++ x :: post' ∧ post = post' ++ [ev]) ∨ (pre = l ∧ x = ev ∧ post = []) := by
  rcases List.append_eq_append_iff.1 h with ⟨a, h1, h2⟩ | ⟨a, h1, h2⟩
  · -- pre = l ++ a, [ev] = a ++ x :: post
    cases a with
    | nil =>
      simp at h2
      right; exact ⟨by simpa using h1, h2.1.symm, h2.2⟩
    | cons y a => simp at h2
  · -- l = pre ++ a, x :: post = a ++ [ev]
    cases a with
    | nil =>
      simp at h2
      right; exact ⟨by simpa using h1.symm, h2.1, h2.2⟩
    | cons y a =>
      simp at h2
      left
      exact ⟨a, by rw [h1, h2.1], h2.2⟩

theorem append_eq_append_cons_of_not_mem {α} {l l2 pre post : List α} {x : α} (h : l ++ l2 = pre ++ x :: post)
    (hx : x ∉ l2) : ∃ post', l = pre ++ x :: post' ∧ post = post' ++ l2 := by
  rcases List.append_eq_append_iff.1 h with ⟨a, h1, h2⟩ | ⟨a, h1, h2⟩
  · exact absurd (by rw [h2]; simp) hx
  · cases a with
    | nil =>
      simp at h2
      exact absurd (by rw [← h2]; simp) hx
    | cons y a =>
      simp at h2
      exact ⟨a, by rw [h1, h2.1], h2.2⟩

/-! ## the invariant -/

def CpEv.isCopy : CpEv → Bool
  | .fwd .. => true
  | .done .. => true
  | _ => false

/-- clone id `c` is a key of one of the two id maps -/
def cpHasKey (s : Cp) (c : Nat) : Prop := ∃ o, (c, o) ∈ s.mapH ∨ (c, o) ∈ s.mapD

/-- clone ids in flight between `ToDMA.Send` and `processMemCopyRsp` -/
def cpFlight (e : CpEnv) : List Nat := (e.s.dmaOut ++ e.atDma).map (·.cid) ++ e.s.dmaIn

/-- clone ids not yet answered by the DMA side, then the answered ones -/
def cpOpen (e : CpEnv) : List Nat := (e.s.dmaOut ++ e.atDma).map (·.cid) ++ e.answered

structure InvCopy (e : CpEnv) : Prop where
  clones : e.dmaSeen ++ e.s.dmaOut = e.s.log.filterMap CpEv.clone?
  cids : e.s.log.filterMap CpEv.fwdCid? = List.range e.s.nextCid
  mapH_fwd : ∀ c o, (c, o) ∈ e.s.mapH → ∃ b, CpEv.fwd o c .h2d b ∈ e.s.log
  mapD_fwd : ∀ c o, (c, o) ∈ e.s.mapD → ∃ b, CpEv.fwd o c .d2h b ∈ e.s.log
  done_nokey : ∀ o c k b, CpEv.done o c k b ∈ e.s.log → ¬ cpHasKey e.s c
  done_ans : ∀ o c k b, CpEv.done o c k b ∈ e.s.log → c ∈ e.answered
  done_pre : ∀ pre post o c k b, e.s.log = pre ++ CpEv.done o c k b :: post →
    CpEv.fwd o c k true ∈ pre ∧ ∀ o' k' b', CpEv.done o' c k' b' ∉ pre
  done_orig : (e.s.log.filterMap CpEv.doneOrig?).Nodup
  flight_nodup : (cpFlight e).Nodup
  flight_key : ∀ c ∈ cpFlight e, cpHasKey e.s c
  atDma_seen : ∀ cl ∈ e.atDma, cl ∈ e.dmaSeen
  dmaIn_ans : ∀ c ∈ e.s.dmaIn, c ∈ e.answered
  ans_seen : ∀ c ∈ e.answered, c ∈ e.dmaSeen.map (·.cid)
  ans_nodup : (cpOpen e).Nodup
  seen_acc : ∀ cl ∈ e.dmaSeen, cl ∈ e.atDma ∨ cl.cid ∈ e.s.dmaIn ∨ ∃ o k b, CpEv.done o cl.cid k b ∈ e.s.log

theorem InvCopy.init (n cin cdrv cdma ccache : Nat) : InvCopy (CpEnv.init n cin cdrv cdma ccache) := by
  constructor <;> simp [CpEnv.init, cpFlight, cpOpen]

/-- a successfully forwarded clone is in the log -/
theorem mem_clone_fwd {log : List CpEv} {cl : CpClone} (h : cl ∈ log.filterMap CpEv.clone?) :
    CpEv.fwd cl.orig cl.cid cl.kind true ∈ log := by
  obtain ⟨ev, hev, he⟩ := List.mem_filterMap.1 h
  cases ev with
  | fwd o c k b =>
    cases b with
    | true => simp at he; subst he; exact hev
    | false => simp at he
  | _ => simp at he

theorem InvCopy.fwd_lt {e : CpEnv} (h : InvCopy e) {o c : Nat} {k : CpKind} {b : Bool}
    (hm : CpEv.fwd o c k b ∈ e.s.log) : c < e.s.nextCid := by
  have : c ∈ e.s.log.filterMap CpEv.fwdCid? := List.mem_filterMap.2 ⟨_, hm, rfl⟩
  rw [h.cids] at this
  exact List.mem_range.1 this

theorem InvCopy.fwd_cid_unique {e : CpEnv} (h : InvCopy e) {o o' c : Nat} {k k' : CpKind} {b b' : Bool}
    (h1 : CpEv.fwd o c k b ∈ e.s.log) (h2 : CpEv.fwd o' c k' b' ∈ e.s.log) : o = o' ∧ k = k' ∧ b = b' := by
  have hn : (e.s.log.filterMap CpEv.fwdCid?).Nodup := by rw [h.cids]; exact List.nodup_range
  have := filterMap_nodup_inj hn h1 h2 (x := c) rfl rfl
  simp at this
  exact ⟨this.1, this.2.1, this.2.2⟩

theorem fwd_orig_unique {log : List CpEv} (hp : ((log.filterMap CpEv.popped?).map (·.id)).Nodup)
    {o c c' : Nat} {k k' : CpKind} {b b' : Bool}
    (h1 : CpEv.fwd o c k b ∈ log) (h2 : CpEv.fwd o c' k' b' ∈ log) : c = c' := by
  rw [List.map_filterMap] at hp
  have := filterMap_nodup_inj hp h1 h2 (x := o) rfl rfl
  simp at this
  exact this.1

theorem InvCopy.key_lt {e : CpEnv} (h : InvCopy e) {c : Nat} (hk : cpHasKey e.s c) : c < e.s.nextCid := by
  obtain ⟨o, ho | ho⟩ := hk
  · obtain ⟨b, hb⟩ := h.mapH_fwd c o ho; exact h.fwd_lt hb
  · obtain ⟨b, hb⟩ := h.mapD_fwd c o ho; exact h.fwd_lt hb

theorem InvCopy.seen_fwd {e : CpEnv} (h : InvCopy e) {c : Nat} (hc : c ∈ e.dmaSeen.map (·.cid)) :
    ∃ o k, CpEv.fwd o c k true ∈ e.s.log := by
  obtain ⟨cl, hcl, rfl⟩ := List.mem_map.1 hc
  have : cl ∈ e.s.log.filterMap CpEv.clone? := by rw [← h.clones]; exact List.mem_append_left _ hcl
  exact ⟨_, _, mem_clone_fwd this⟩

theorem InvCopy.ans_lt {e : CpEnv} (h : InvCopy e) {c : Nat} (hc : c ∈ e.answered) : c < e.s.nextCid := by
  obtain ⟨o, k, hf⟩ := h.seen_fwd (h.ans_seen c hc)
  exact h.fwd_lt hf

theorem InvCopy.open_lt {e : CpEnv} (h : InvCopy e) {c : Nat} (hc : c ∈ (e.s.dmaOut ++ e.atDma).map (·.cid)) :
    c < e.s.nextCid :=
  h.key_lt (h.flight_key c (List.mem_append_left _ hc))

/-- transfer along a change that leaves the copy path alone and logs no copy event -/
theorem InvCopy.of_log {e e' : CpEnv} (h : InvCopy e) (l2 : List CpEv) (hl : e'.s.log = e.s.log ++ l2)
    (hl2 : ∀ ev ∈ l2, ev.isCopy = false)
    (h1 : e'.dmaSeen = e.dmaSeen) (h2 : e'.s.dmaOut = e.s.dmaOut) (h3 : e'.atDma = e.atDma)
    (h4 : e'.s.dmaIn = e.s.dmaIn) (h5 : e'.answered = e.answered) (h6 : e'.s.mapH = e.s.mapH)
    (h7 : e'.s.mapD = e.s.mapD) (h8 : e'.s.nextCid = e.s.nextCid) : InvCopy e' := by
  have c1 : l2.filterMap CpEv.clone? = [] := by
    rw [List.filterMap_eq_nil_iff]; intro ev hev; have := hl2 ev hev; cases ev <;> simp_all [CpEv.isCopy]
  have c2 : l2.filterMap CpEv.fwdCid? = [] := by
    rw [List.filterMap_eq_nil_iff]; intro ev hev; have := hl2 ev hev; cases ev <;> simp_all [CpEv.isCopy]
  have c3 : l2.filterMap CpEv.doneOrig? = [] := by
    rw [List.filterMap_eq_nil_iff]; intro ev hev; have := hl2 ev hev; cases ev <;> simp_all [CpEv.isCopy]
  have c4 : ∀ o c k b, CpEv.fwd o c k b ∉ l2 := fun o c k b hm => by simpa [CpEv.isCopy] using hl2 _ hm
  have c5 : ∀ o c k b, CpEv.done o c k b ∉ l2 := fun o c k b hm => by simpa [CpEv.isCopy] using hl2 _ hm
  have m1 : ∀ o c k b, CpEv.fwd o c k b ∈ e'.s.log ↔ CpEv.fwd o c k b ∈ e.s.log := by
    intro o c k b; rw [hl, List.mem_append]; exact ⟨fun h => h.elim id (fun h => absurd h (c4 _ _ _ _)), .inl⟩
  have m2 : ∀ o c k b, CpEv.done o c k b ∈ e'.s.log ↔ CpEv.done o c k b ∈ e.s.log := by
    intro o c k b; rw [hl, List.mem_append]; exact ⟨fun h => h.elim id (fun h => absurd h (c5 _ _ _ _)), .inl⟩
  have k1 : ∀ c, cpHasKey e'.s c ↔ cpHasKey e.s c := by intro c; simp [cpHasKey, h6, h7]
  have f1 : cpFlight e' = cpFlight e := by simp [cpFlight, h2, h3, h4]
  have f2 : cpOpen e' = cpOpen e := by simp [cpOpen, h2, h3, h5]
  constructor
  · rw [h1, h2, hl, List.filterMap_append, c1, List.append_nil]; exact h.clones
  · rw [h8, hl, List.filterMap_append, c2, List.append_nil]; exact h.cids
  · intro c o hm; rw [h6] at hm; simpa [m1] using h.mapH_fwd c o hm
  · intro c o hm; rw [h7] at hm; simpa [m1] using h.mapD_fwd c o hm
  · intro o c k b hm; rw [k1]; exact h.done_nokey o c k b ((m2 ..).1 hm)
  · intro o c k b hm; rw [h5]; exact h.done_ans o c k b ((m2 ..).1 hm)
  · intro pre post o c k b hd
    rw [hl] at hd
    obtain ⟨post', hp, _⟩ := append_eq_append_cons_of_not_mem hd (c5 _ _ _ _)
    exact h.done_pre pre post' o c k b hp
  · rw [hl, List.filterMap_append, c3, List.append_nil]; exact h.done_orig
  · rw [f1]; exact h.flight_nodup
  · intro c hc; rw [f1] at hc; rw [k1]; exact h.flight_key c hc
  · rw [h3, h1]; exact h.atDma_seen
  · rw [h4, h5]; exact h.dmaIn_ans
  · rw [h5, h1]; exact h.ans_seen
  · rw [f2]; exact h.ans_nodup
  · intro cl hcl
    rw [h1] at hcl
    rw [h3, h4]
    rcases h.seen_acc cl hcl with h | h | ⟨o, k, b, h⟩
    · exact .inl h
    · exact .inr (.inl h)
    · exact .inr (.inr ⟨o, k, b, (m2 ..).2 h⟩)


/-! ## `processMemCopyReq` -/

theorem InvCopy.copy {e : CpEnv} (h : InvCopy e) (m : CpMsg) (rest : List CpMsg) (b : Bool)
    (hk : m.kind ≠ .flush) : InvCopy (e.withS (e.s.copyFwd m rest b)) := by
  have F1 : (e.withS (e.s.copyFwd m rest b)).s.log = e.s.log ++ [.fwd m.id e.s.nextCid m.kind b] := rfl
  have F3 : ∀ c o, (c, o) ∈ (e.withS (e.s.copyFwd m rest b)).s.mapH ↔
      (c, o) ∈ e.s.mapH ∨ (m.kind = .h2d ∧ c = e.s.nextCid ∧ o = m.id) := by
    intro c o
    by_cases hh : m.kind = .h2d <;> simp [Cp.copyFwd, hh]
  have F4 : ∀ c o, (c, o) ∈ (e.withS (e.s.copyFwd m rest b)).s.mapD ↔
      (c, o) ∈ e.s.mapD ∨ (m.kind = .d2h ∧ c = e.s.nextCid ∧ o = m.id) := by
    intro c o
    have : m.kind = .h2d ∨ m.kind = .d2h := by cases hm : m.kind <;> simp_all
    rcases this with hh | hh <;> simp [Cp.copyFwd, hh]
  have F5 : (e.withS (e.s.copyFwd m rest b)).s.dmaOut =
      e.s.dmaOut ++ (if b then [⟨e.s.nextCid, m.id, m.kind⟩] else []) := by
    cases b <;> simp [Cp.copyFwd]
  have mF : ∀ o c k b', CpEv.fwd o c k b' ∈ e.s.log → CpEv.fwd o c k b' ∈ (e.withS (e.s.copyFwd m rest b)).s.log :=
    fun o c k b' hm => by rw [F1]; exact List.mem_append_left _ hm
  have mD : ∀ o c k b', CpEv.done o c k b' ∈ (e.withS (e.s.copyFwd m rest b)).s.log ↔ CpEv.done o c k b' ∈ e.s.log := by
    intro o c k b'; rw [F1]; simp
  have hK : ∀ c, cpHasKey (e.withS (e.s.copyFwd m rest b)).s c ↔ cpHasKey e.s c ∨ c = e.s.nextCid := by
    intro c
    have hkind : m.kind = .h2d ∨ m.kind = .d2h := by cases hm : m.kind <;> simp_all
    simp only [cpHasKey, F3, F4]
    constructor
    · rintro ⟨o, (h1 | h1) | (h1 | h1)⟩
      · exact .inl ⟨o, .inl h1⟩
      · exact .inr h1.2.1
      · exact .inl ⟨o, .inr h1⟩
      · exact .inr h1.2.1
    · rintro (⟨o, h1 | h1⟩ | h1)
      · exact ⟨o, .inl (.inl h1)⟩
      · exact ⟨o, .inr (.inl h1)⟩
      · rcases hkind with hh | hh
        · exact ⟨m.id, .inl (.inr ⟨hh, h1, rfl⟩)⟩
        · exact ⟨m.id, .inr (.inr ⟨hh, h1, rfl⟩)⟩
  have hNflight : e.s.nextCid ∉ cpFlight e := fun hm => Nat.lt_irrefl _ (h.key_lt (h.flight_key _ hm))
  have hNopen : e.s.nextCid ∉ cpOpen e := by
    intro hm
    rcases List.mem_append.1 hm with hm | hm
    · exact Nat.lt_irrefl _ (h.open_lt hm)
    · exact Nat.lt_irrefl _ (h.ans_lt hm)
  have hFl : (b = false ∧ cpFlight (e.withS (e.s.copyFwd m rest b)) = cpFlight e ∧
        cpOpen (e.withS (e.s.copyFwd m rest b)) = cpOpen e) ∨
      (b = true ∧ (cpFlight (e.withS (e.s.copyFwd m rest b))).Perm (e.s.nextCid :: cpFlight e) ∧
        (cpOpen (e.withS (e.s.copyFwd m rest b))).Perm (e.s.nextCid :: cpOpen e)) := by
    cases b
    · left; exact ⟨rfl, by simp [cpFlight, Cp.copyFwd], by simp [cpOpen, Cp.copyFwd]⟩
    · right
      refine ⟨rfl, ?_, ?_⟩
      · simp only [cpFlight, CpEnv.withS_s, CpEnv.withS_atDma, Cp.copyFwd, if_true, List.map_append,
          List.map_cons, List.append_assoc, List.singleton_append]
        exact List.perm_middle
      · simp only [cpOpen, CpEnv.withS_s, CpEnv.withS_atDma, CpEnv.withS_answered, Cp.copyFwd, if_true,
          List.map_append, List.map_cons, List.append_assoc, List.singleton_append]
        exact List.perm_middle
  constructor
  · rw [F5, F1, List.filterMap_append, ← h.clones]
    cases b <;> simp
  · rw [F1, List.filterMap_append, h.cids]
    simp [Cp.copyFwd, List.range_succ]
  · intro c o hm
    rcases (F3 c o).1 hm with hm | ⟨hh, rfl, rfl⟩
    · obtain ⟨b', hb'⟩ := h.mapH_fwd c o hm; exact ⟨b', mF _ _ _ _ hb'⟩
    · exact ⟨b, by rw [F1, ← hh]; simp⟩
  · intro c o hm
    rcases (F4 c o).1 hm with hm | ⟨hh, rfl, rfl⟩
    · obtain ⟨b', hb'⟩ := h.mapD_fwd c o hm; exact ⟨b', mF _ _ _ _ hb'⟩
    · exact ⟨b, by rw [F1, ← hh]; simp⟩
  · intro o c k b' hm
    have hm' := (mD ..).1 hm
    rw [hK]
    rintro (hk' | rfl)
    · exact h.done_nokey o c k b' hm' hk'
    · exact Nat.lt_irrefl _ (h.ans_lt (h.done_ans o _ k b' hm'))
  · intro o c k b' hm
    exact h.done_ans o c k b' ((mD ..).1 hm)
  · intro pre post o c k b' hd
    rw [F1] at hd
    rcases snoc_eq_append_cons hd with ⟨post', hp, _⟩ | ⟨_, hx, _⟩
    · exact h.done_pre pre post' o c k b' hp
    · cases hx
  · rw [F1, List.filterMap_append]
    simpa using h.done_orig
  · rcases hFl with ⟨_, h1, _⟩ | ⟨_, h1, _⟩
    · rw [h1]; exact h.flight_nodup
    · rw [h1.nodup_iff, List.nodup_cons]; exact ⟨hNflight, h.flight_nodup⟩
  · intro c hc
    rw [hK]
    rcases hFl with ⟨_, h1, _⟩ | ⟨_, h1, _⟩
    · rw [h1] at hc; exact .inl (h.flight_key c hc)
    · rcases List.mem_cons.1 (h1.mem_iff.1 hc) with hc | hc
      · exact .inr hc
      · exact .inl (h.flight_key c hc)
  · exact h.atDma_seen
  · exact h.dmaIn_ans
  · exact h.ans_seen
  · rcases hFl with ⟨_, _, h1⟩ | ⟨_, _, h1⟩
    · rw [h1]; exact h.ans_nodup
    · rw [h1.nodup_iff, List.nodup_cons]; exact ⟨hNopen, h.ans_nodup⟩
  · intro cl hcl
    rcases h.seen_acc cl hcl with h1 | h1 | ⟨o, k, b', h1⟩
    · exact .inl h1
    · exact .inr (.inl h1)
    · exact .inr (.inr ⟨o, k, b', (mD ..).2 h1⟩)


/-! ## `processMemCopyRsp` -/

theorem InvCopy.done {e : CpEnv} (h : InvCopy e) (hp : InvPop e) (c : Nat) (rest : List Nat) (o : Nat)
    (k : CpKind) (b : Bool) (hd : e.s.dmaIn = c :: rest)
    (hl : k = .h2d ∧ e.s.mapH.lookup c = some o ∨
          k = .d2h ∧ e.s.mapH.lookup c = none ∧ e.s.mapD.lookup c = some o) :
    InvCopy (e.withS (e.s.copyDone c o k rest b)) := by
  have G1 : (e.withS (e.s.copyDone c o k rest b)).s.log = e.s.log ++ [.done o c k b] := rfl
  have G3 : ∀ c' o', (c', o') ∈ (e.withS (e.s.copyDone c o k rest b)).s.mapH ↔
      (c', o') ∈ e.s.mapH ∧ (k = .h2d → c' ≠ c) := by
    intro c' o'
    by_cases hh : k = .h2d <;> simp [Cp.copyDone, hh]
  have G4 : ∀ c' o', (c', o') ∈ (e.withS (e.s.copyDone c o k rest b)).s.mapD ↔
      (c', o') ∈ e.s.mapD ∧ (k = .d2h → c' ≠ c) := by
    intro c' o'
    rcases hl with ⟨hh, _⟩ | ⟨hh, _⟩ <;> simp [Cp.copyDone, hh]
  have mF : ∀ o' c' k' b', CpEv.fwd o' c' k' b' ∈ (e.withS (e.s.copyDone c o k rest b)).s.log ↔
      CpEv.fwd o' c' k' b' ∈ e.s.log := by
    intro o' c' k' b'; rw [G1]; simp
  have mD : ∀ o' c' k' b', CpEv.done o' c' k' b' ∈ (e.withS (e.s.copyDone c o k rest b)).s.log ↔
      CpEv.done o' c' k' b' ∈ e.s.log ∨ (o' = o ∧ c' = c ∧ k' = k ∧ b' = b) := by
    intro o' c' k' b'; rw [G1]; simp
  -- the clone being answered
  have hcF : c ∈ cpFlight e := by simp [cpFlight, hd]
  have hcK : cpHasKey e.s c := h.flight_key c hcF
  have hcA : c ∈ e.answered := h.dmaIn_ans c (by simp [hd])
  obtain ⟨o1, k1, hF1⟩ := h.seen_fwd (h.ans_seen c hcA)
  have hF0 : ∃ b0, CpEv.fwd o c k b0 ∈ e.s.log := by
    rcases hl with ⟨hh, hlk⟩ | ⟨hh, _, hlk⟩
    · rw [hh]; exact h.mapH_fwd c o (lookup_some_mem hlk)
    · rw [hh]; exact h.mapD_fwd c o (lookup_some_mem hlk)
  obtain ⟨b0, hF0⟩ := hF0
  have hFt : CpEv.fwd o c k true ∈ e.s.log := by
    obtain ⟨_, _, hb⟩ := h.fwd_cid_unique hF0 hF1
    rw [← hb]; exact hF0
  have hnoD : ∀ o' k' b', CpEv.done o' c k' b' ∉ e.s.log := fun o' k' b' hm => h.done_nokey o' c k' b' hm hcK
  have hKsub : ∀ c', cpHasKey (e.withS (e.s.copyDone c o k rest b)).s c' → cpHasKey e.s c' := by
    rintro c' ⟨o', h1 | h1⟩
    · exact ⟨o', .inl ((G3 c' o').1 h1).1⟩
    · exact ⟨o', .inr ((G4 c' o').1 h1).1⟩
  have hKne : ∀ c', c' ≠ c → cpHasKey e.s c' → cpHasKey (e.withS (e.s.copyDone c o k rest b)).s c' := by
    rintro c' hne ⟨o', h1 | h1⟩
    · exact ⟨o', .inl ((G3 c' o').2 ⟨h1, fun _ => hne⟩)⟩
    · exact ⟨o', .inr ((G4 c' o').2 ⟨h1, fun _ => hne⟩)⟩
  have hKc : ¬ cpHasKey (e.withS (e.s.copyDone c o k rest b)).s c := by
    rintro ⟨o', h1 | h1⟩
    · have h2 := (G3 c o').1 h1
      rcases hl with ⟨hh, _⟩ | ⟨hh, hnone, _⟩
      · exact h2.2 hh rfl
      · exact lookup_none_not_mem hnone o' h2.1
    · have h2 := (G4 c o').1 h1
      rcases hl with ⟨hh, _⟩ | ⟨hh, _, _⟩
      · obtain ⟨b2, hb2⟩ := h.mapD_fwd c o' h2.1
        have := (h.fwd_cid_unique hF0 hb2).2.1
        rw [hh] at this; cases this
      · exact h2.2 hh rfl
  have hnd : (cpFlight e).Nodup := h.flight_nodup
  have hFl : cpFlight e = (e.s.dmaOut ++ e.atDma).map (·.cid) ++ c :: rest := by simp [cpFlight, hd]
  have hFl' : cpFlight (e.withS (e.s.copyDone c o k rest b)) = (e.s.dmaOut ++ e.atDma).map (·.cid) ++ rest := by
    simp [cpFlight, Cp.copyDone]
  rw [hFl] at hnd
  have hnd' := List.nodup_append.1 hnd
  have hrest : c ∉ rest := (List.nodup_cons.1 hnd'.2.1).1
  constructor
  · rw [G1, List.filterMap_append]
    simpa [Cp.copyDone] using h.clones
  · rw [G1, List.filterMap_append]
    simpa [Cp.copyDone] using h.cids
  · intro c' o' hm
    obtain ⟨b', hb'⟩ := h.mapH_fwd c' o' ((G3 c' o').1 hm).1
    exact ⟨b', (mF ..).2 hb'⟩
  · intro c' o' hm
    obtain ⟨b', hb'⟩ := h.mapD_fwd c' o' ((G4 c' o').1 hm).1
    exact ⟨b', (mF ..).2 hb'⟩
  · intro o' c' k' b' hm
    rcases (mD ..).1 hm with hm | ⟨_, rfl, _, _⟩
    · exact fun hk' => h.done_nokey o' c' k' b' hm (hKsub c' hk')
    · exact hKc
  · intro o' c' k' b' hm
    rcases (mD ..).1 hm with hm | ⟨_, rfl, _, _⟩
    · exact h.done_ans o' c' k' b' hm
    · exact hcA
  · intro pre post o' c' k' b' hdec
    rw [G1] at hdec
    rcases snoc_eq_append_cons hdec with ⟨post', hp', _⟩ | ⟨hpre, hx, _⟩
    · exact h.done_pre pre post' o' c' k' b' hp'
    · cases hx
      subst hpre
      exact ⟨hFt, hnoD⟩
  · rw [G1, List.filterMap_append]
    simp only [filterMap_single, CpEv.doneOrig?, Option.toList_some]
    rw [List.nodup_append]
    refine ⟨h.done_orig, by simp, ?_⟩
    intro a ha a' ha' heq
    simp only [List.mem_singleton] at ha'
    have hao : a = o := heq.trans ha'
    obtain ⟨ev, hev, he⟩ := List.mem_filterMap.1 ha
    cases ev with
    | done o2 c2 k2 b2 =>
      have ho2 : o2 = o := by simp at he; exact he.trans hao
      rw [ho2] at hev
      obtain ⟨pre, post, hdec⟩ := List.append_of_mem hev
      have hf2 : CpEv.fwd o c2 k2 true ∈ e.s.log := by
        rw [hdec]; exact List.mem_append_left _ (h.done_pre pre post o c2 k2 b2 hdec).1
      have hcc : c2 = c := fwd_orig_unique hp.popped_nodup hf2 hFt
      rw [hcc] at hev
      exact hnoD o k2 b2 hev
    | _ => simp at he
  · rw [hFl']
    exact List.nodup_append.2 ⟨hnd'.1, (List.nodup_cons.1 hnd'.2.1).2,
      fun a ha a' ha' => hnd'.2.2 a ha a' (List.mem_cons_of_mem _ ha')⟩
  · intro c' hc'
    rw [hFl'] at hc'
    have hmem : c' ∈ cpFlight e := by
      rw [hFl]
      rcases List.mem_append.1 hc' with h1 | h1
      · exact List.mem_append_left _ h1
      · exact List.mem_append_right _ (List.mem_cons_of_mem _ h1)
    have hne : c' ≠ c := by
      rcases List.mem_append.1 hc' with h1 | h1
      · exact fun heq => hnd'.2.2 c' h1 c (by simp) heq
      · exact fun heq => hrest (heq ▸ h1)
    exact hKne c' hne (h.flight_key c' hmem)
  · exact h.atDma_seen
  · intro c' hc'
    exact h.dmaIn_ans c' (by rw [hd]; exact List.mem_cons_of_mem _ hc')
  · exact h.ans_seen
  · exact h.ans_nodup
  · intro cl hcl
    rcases h.seen_acc cl hcl with h1 | h1 | ⟨o', k', b', h1⟩
    · exact .inl h1
    · rw [hd] at h1
      rcases List.mem_cons.1 h1 with h1 | h1
      · exact .inr (.inr ⟨o, k, b, (mD ..).2 (.inr ⟨rfl, h1, rfl, rfl⟩)⟩)
      · exact .inr (.inl h1)
    · exact .inr (.inr ⟨o', k', b', (mD ..).2 (.inl h1)⟩)

/-! ## the environment's moves on the copy path -/

def CpEnv.tookDma (e : CpEnv) (k : Nat) : CpEnv :=
  { e with s := { e.s with dmaOut := e.s.dmaOut.drop k },
           atDma := e.atDma ++ e.s.dmaOut.take k, dmaSeen := e.dmaSeen ++ e.s.dmaOut.take k }

def CpEnv.gotRsp (e : CpEnv) (j : Nat) (c : CpClone) : CpEnv :=
  { e with s := { e.s with dmaIn := e.s.dmaIn ++ [c.cid] }, atDma := e.atDma.eraseIdx j,
           answered := e.answered ++ [c.cid] }

theorem InvCopy.takeDma {e : CpEnv} (h : InvCopy e) (k : Nat) : InvCopy (e.tookDma k) := by
  have hp : (e.s.dmaOut.drop k ++ (e.atDma ++ e.s.dmaOut.take k)).Perm (e.s.dmaOut ++ e.atDma) := by
    have h1 : (e.s.dmaOut.drop k ++ (e.atDma ++ e.s.dmaOut.take k)).Perm
        ((e.atDma ++ e.s.dmaOut.take k) ++ e.s.dmaOut.drop k) := List.perm_append_comm
    rw [List.append_assoc, List.take_append_drop] at h1
    exact h1.trans List.perm_append_comm
  have hF : (cpFlight (e.tookDma k)).Perm (cpFlight e) :=
    List.Perm.append_right _ (hp.map _)
  have hO : (cpOpen (e.tookDma k)).Perm (cpOpen e) :=
    List.Perm.append_right _ (hp.map _)
  constructor
  · show (e.dmaSeen ++ e.s.dmaOut.take k) ++ e.s.dmaOut.drop k = _
    rw [List.append_assoc, List.take_append_drop]; exact h.clones
  · exact h.cids
  · exact h.mapH_fwd
  · exact h.mapD_fwd
  · exact h.done_nokey
  · exact h.done_ans
  · exact h.done_pre
  · exact h.done_orig
  · rw [hF.nodup_iff]; exact h.flight_nodup
  · intro c hc; exact h.flight_key c (hF.mem_iff.1 hc)
  · intro cl hcl
    rcases List.mem_append.1 hcl with h1 | h1
    · exact List.mem_append_left _ (h.atDma_seen cl h1)
    · exact List.mem_append_right _ h1
  · exact h.dmaIn_ans
  · intro c hc
    have := h.ans_seen c hc
    show c ∈ (e.dmaSeen ++ e.s.dmaOut.take k).map (·.cid)
    rw [List.map_append]; exact List.mem_append_left _ this
  · rw [hO.nodup_iff]; exact h.ans_nodup
  · intro cl hcl
    rcases List.mem_append.1 hcl with h1 | h1
    · rcases h.seen_acc cl h1 with h2 | h2 | h2
      · exact .inl (List.mem_append_left _ h2)
      · exact .inr (.inl h2)
      · exact .inr (.inr h2)
    · exact .inl (List.mem_append_right _ h1)

theorem InvCopy.rspEnv {e : CpEnv} (h : InvCopy e) (j : Nat) (c : CpClone) (hj : e.atDma[j]? = some c) :
    InvCopy (e.gotRsp j c) := by
  have hp : e.atDma.Perm (c :: e.atDma.eraseIdx j) := perm_cons_eraseIdx hj
  have hcm : c ∈ e.atDma := List.mem_of_getElem? hj
  have hF : (cpFlight e).Perm (cpFlight (e.gotRsp j c)) := by
    show ((e.s.dmaOut ++ e.atDma).map (·.cid) ++ e.s.dmaIn).Perm
      ((e.s.dmaOut ++ e.atDma.eraseIdx j).map (·.cid) ++ (e.s.dmaIn ++ [c.cid]))
    have h1 : ((e.s.dmaOut ++ e.atDma).map (·.cid)).Perm
        (c.cid :: (e.s.dmaOut ++ e.atDma.eraseIdx j).map (·.cid)) := by
      have := ((List.Perm.append_left e.s.dmaOut hp).trans List.perm_middle).map (·.cid)
      simpa using this
    refine (List.Perm.append_right _ h1).trans ?_
    simp only [List.cons_append]
    refine List.perm_middle.symm.trans ?_
    refine List.Perm.append_left _ ?_
    exact (List.perm_append_singleton _ _).symm
  have hO : (cpOpen e).Perm (cpOpen (e.gotRsp j c)) := by
    show ((e.s.dmaOut ++ e.atDma).map (·.cid) ++ e.answered).Perm
      ((e.s.dmaOut ++ e.atDma.eraseIdx j).map (·.cid) ++ (e.answered ++ [c.cid]))
    have h1 : ((e.s.dmaOut ++ e.atDma).map (·.cid)).Perm
        (c.cid :: (e.s.dmaOut ++ e.atDma.eraseIdx j).map (·.cid)) := by
      have := ((List.Perm.append_left e.s.dmaOut hp).trans List.perm_middle).map (·.cid)
      simpa using this
    refine (List.Perm.append_right _ h1).trans ?_
    simp only [List.cons_append]
    refine List.perm_middle.symm.trans ?_
    refine List.Perm.append_left _ ?_
    exact (List.perm_append_singleton _ _).symm
  constructor
  · exact h.clones
  · exact h.cids
  · exact h.mapH_fwd
  · exact h.mapD_fwd
  · exact h.done_nokey
  · intro o c' k b hm
    exact List.mem_append_left _ (h.done_ans o c' k b hm)
  · exact h.done_pre
  · exact h.done_orig
  · rw [← hF.nodup_iff]; exact h.flight_nodup
  · intro c' hc'; exact h.flight_key c' (hF.mem_iff.2 hc')
  · intro cl hcl; exact h.atDma_seen cl (List.mem_of_mem_eraseIdx hcl)
  · intro c' hc'
    rcases List.mem_append.1 hc' with h1 | h1
    · exact List.mem_append_left _ (h.dmaIn_ans c' h1)
    · exact List.mem_append_right _ h1
  · intro c' hc'
    rcases List.mem_append.1 hc' with h1 | h1
    · exact h.ans_seen c' h1
    · simp only [List.mem_singleton] at h1
      subst h1
      exact List.mem_map.2 ⟨c, h.atDma_seen c hcm, rfl⟩
  · rw [← hO.nodup_iff]; exact h.ans_nodup
  · intro cl hcl
    rcases h.seen_acc cl hcl with h1 | h1 | h1
    · rcases List.mem_cons.1 (hp.mem_iff.1 h1) with h2 | h2
      · exact .inr (.inl (List.mem_append_right _ (by simp [h2])))
      · exact .inl h2
    · exact .inr (.inl (List.mem_append_left _ h1))
    · exact .inr (.inr h1)

/-! ## every transition -/

theorem InvCopy.tr {e e' : CpEnv} (h : InvCopy e) (hp : InvPop e) (t : CpTr e e') : InvCopy e' := by
  cases t with
  | flushFault m rest k hf hd hn hk hkn hcap =>
    refine h.of_log (.flushStart m.id :: (List.range k).map .cacheReq) rfl ?_ rfl rfl rfl rfl rfl rfl rfl rfl
    intro ev hev
    simp only [List.mem_cons, List.mem_map] at hev
    rcases hev with rfl | ⟨i, _, rfl⟩ <;> rfl
  | flushOk m rest hf hd hn hk hpos =>
    refine h.of_log (.flushStart m.id :: (List.range e.s.nCaches).map .cacheReq) rfl ?_
      rfl rfl rfl rfl rfl rfl rfl rfl
    intro ev hev
    simp only [List.mem_cons, List.mem_map] at hev
    rcases hev with rfl | ⟨i, _, rfl⟩ <;> rfl
  | flushZero m rest b hf hd hn hk hz hb =>
    refine h.of_log [.flushStart m.id, .flushDone m.id b] rfl ?_ rfl rfl rfl rfl rfl rfl rfl rfl
    intro ev hev
    simp only [List.mem_cons, List.not_mem_nil, or_false] at hev
    rcases hev with rfl | rfl <;> rfl
  | copy m rest b hf hd hn hk hb => exact h.copy m rest b hk
  | done c rest o k b hf hd hl hb => exact h.done hp c rest o k b hd hl
  | never c rest hf hd hH hD =>
    exact h.of_log [] (List.append_nil _).symm (by simp) rfl rfl rfl rfl rfl rfl rfl rfl
  | ackDec x rest n' hf hd hn hz =>
    refine h.of_log [.ack] rfl ?_ rfl rfl rfl rfl rfl rfl rfl rfl
    intro ev hev
    simp only [List.mem_singleton] at hev
    subst hev; rfl
  | nilderef x rest n' hf hd hn hz hc =>
    refine h.of_log [.ack] rfl ?_ rfl rfl rfl rfl rfl rfl rfl rfl
    intro ev hev
    simp only [List.mem_singleton] at hev
    subst hev; rfl
  | ackFinal x rest n' f b hf hd hn hz hc hb =>
    refine h.of_log [.ack, .flushDone f b] rfl ?_ rfl rfl rfl rfl rfl rfl rfl rfl
    intro ev hev
    simp only [List.mem_cons, List.not_mem_nil, or_false] at hev
    rcases hev with rfl | rfl <;> rfl
  | req k hlt => exact h.of_log [] (List.append_nil _).symm (by simp) rfl rfl rfl rfl rfl rfl rfl rfl
  | takeDma k => exact h.takeDma k
  | takeCache k => exact h.of_log [] (List.append_nil _).symm (by simp) rfl rfl rfl rfl rfl rfl rfl rfl
  | takeDrv k => exact h.of_log [] (List.append_nil _).symm (by simp) rfl rfl rfl rfl rfl rfl rfl rfl
  | ackEnv j x hj => exact h.of_log [] (List.append_nil _).symm (by simp) rfl rfl rfl rfl rfl rfl rfl rfl
  | rspEnv j c hj => exact h.rspEnv j c hj

end C11
