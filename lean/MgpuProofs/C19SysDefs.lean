import MgpuModel.C19_Sys
/-! # C19 — the closed system: shapes of one GPU and the system invariant (definitions only)

One GPU = its command processor `c : Cp` and its acknowledging components `m : Comps`. At any moment it
serves at most one command `x` of the driver; `BLoc` says where that command is; `GS x loc rq gq c m`
pins down the WHOLE message state of the GPU for that location: every buffer and counter not mentioned
is empty / zero (`base`), the tokens of the sub-request fan-out are conserved (`O ++ P ++ I ++ C` is a
permutation of the class's component list: still in the CP's outgoing buffer, pending at the component,
acknowledgement in the CP's incoming buffer, consumed), and the ghost quiet sets are what the position in
the chain says. `rq`/`gq` = was the RDMA engine / were the CUs, ATs, caches, TLBs quiet before the command. -/
namespace C19
namespace SY
open CP (Cp Cls K Sub Cmd Ans)
open DR (Drv MmuReq MigCmd)

/-- configuration and `currShootdownRequest` / `currFlushRequest` kept; buffers empty, counters 0 -/
def base (c : Cp) : Cp :=
  { c with drvIn := [], drvOut := [], rdmaIn := [], rdmaOut := [], cuIn := [], cuOut := [], atIn := [],
           atOut := [], cacheIn := [], cacheOut := [], tlbIn := [], tlbOut := [], pmcIn := [], pmcOut := [],
           numCU := 0, numATF := 0, numATR := 0, numTLB := 0, numCache := 0, shoot := false, fault := none }

def toks (k : K) (tag : Nat) (l : List Nat) : List Sub := l.map fun i => ⟨k, i, tag⟩

/-- the component list of a class in the order the command processor walks it -/
def ordOf (c : Cp) : Cls → K → List Nat
  | .rdma, _ => [0]
  | .cu, _ => List.range c.nCU
  | .at, _ => List.range c.nAT
  | .tlb, _ => List.range c.nTLB
  | .cache, .restart => c.ordRestart
  | .cache, _ => c.ordReset
  | .pmc, _ => [0]

def sizeOf (c : Cp) : Cls → Nat
  | .rdma => 1
  | .cu => c.nCU
  | .at => c.nAT
  | .tlb => c.nTLB
  | .cache => c.nCache
  | .pmc => 0

/-- payload tag of the sub-requests of command `x` to class `cl` -/
def tagOf (x : Cmd) (cl : Cls) (k : K) : Nat :=
  match x, cl, k with
  | .shoot _, .cache, .flush => 1
  | .shoot id, .tlb, .flush => id
  | _, _, _ => 0

/-- the sub-phases of a command, in order -/
def chain : Cmd → List (Cls × K)
  | .drain => [(.rdma, .flush)]
  | .rdmaRestart => [(.rdma, .restart)]
  | .shoot _ => [(.cu, .flush), (.at, .flush), (.cache, .flush), (.tlb, .flush)]
  | .restart => [(.cache, .restart), (.tlb, .restart), (.at, .restart), (.cu, .restart)]
  | _ => []

def ansOf : Cmd → Ans
  | .drain => .drain
  | .rdmaRestart => .rdmaRestart
  | .shoot _ => .shoot
  | .restart => .restart
  | .mig _ => .mig
  | .flush f => .flush f
  | .other => .drain

/-- the buffers and the counter of class `cl` (kind `k` selects the address-translator counter) -/
def setTok (b : Cp) (cl : Cls) (k : K) (o i : List Sub) (n : Nat) : Cp :=
  match cl, k with
  | .rdma, _ => { b with rdmaOut := o, rdmaIn := i }
  | .cu, _ => { b with cuOut := o, cuIn := i, numCU := n }
  | .at, .restart => { b with atOut := o, atIn := i, numATR := n }
  | .at, _ => { b with atOut := o, atIn := i, numATF := n }
  | .cache, _ => { b with cacheOut := o, cacheIn := i, numCache := n }
  | .tlb, _ => { b with tlbOut := o, tlbIn := i, numTLB := n }
  | .pmc, _ => { b with pmcOut := o, pmcIn := i }

/-- `base` with `shootDownInProcess` set while a shootdown is being served -/
def baseX (x : Cmd) (c : Cp) : Cp :=
  match x with
  | .shoot _ => { base c with shoot := true }
  | _ => base c

inductive BLoc
  | cmd
  | tok (cl : Cls) (k : K)
  | pmcOut
  | pmcWait
  | pmcIn
  | ans
deriving DecidableEq, Repr

def idxOf (l : List (Cls × K)) (cl : Cls) : Nat := l.findIdx (fun e => e.1 == cl)

/-- the quiet flag of the classes other than the active one while command `x` is in the sub-phase of class `cl` -/
def gqOf (x : Cmd) (gq : Bool) (cl cl' : Cls) : Bool :=
  match x with
  | .shoot _ => decide (idxOf (chain x) cl' < idxOf (chain x) cl)
  | .restart => decide (idxOf (chain x) cl < idxOf (chain x) cl')
  | _ => gq

/-- "every component of class `cl` is quiet iff the flag is set" (RDMA engine: index 0) -/
def qFull (c : Cp) (rq gq : Bool) (cl : Cls) (i : Nat) : Prop :=
  match cl with
  | .rdma => rq = true ∧ i = 0
  | .pmc => False
  | _ => gq = true ∧ i < sizeOf c cl

/-- the flags after command `x` was served -/
def after (x : Cmd) (rq gq : Bool) : Bool × Bool :=
  match x with
  | .drain => (true, gq)
  | .rdmaRestart => (false, gq)
  | .shoot _ => (rq, true)
  | .restart => (rq, false)
  | _ => (rq, gq)

/-- what the flags must be before command `x` -/
def Pre (x : Cmd) (rq gq : Bool) : Prop :=
  match x with
  | .drain => rq = false
  | .rdmaRestart => rq = true
  | .shoot _ => gq = false
  | .restart => gq = true
  | .mig _ => True
  | _ => False

def PendEmpty (m : Comps) : Prop := m.pRdma = [] ∧ m.pCU = [] ∧ m.pAT = [] ∧ m.pCache = [] ∧ m.pTLB = []

def QS (c : Cp) (m : Comps) (rq gq : Bool) : Prop := ∀ cl i, i ∈ m.quiet cl ↔ qFull c rq gq cl i

/-- GPU with nothing to do -/
structure GIdle (rq gq : Bool) (c : Cp) (m : Comps) : Prop where
  cp : c = base c
  pe : PendEmpty m
  qs : QS c m rq gq

/-- the token sub-phase of class `cl`, kind `k`, of command `x` -/
structure GTok (x : Cmd) (cl : Cls) (k : K) (rq gq : Bool) (c : Cp) (m : Comps) (O P I C : List Nat) : Prop where
  ch : (cl, k) ∈ chain x
  cp : c = setTok (baseX x c) cl k (toks k (tagOf x cl k) O) (toks k 0 I) (O.length + P.length + I.length)
  cs : ∀ id, x = .shoot id → c.curShoot = some id
  pend : m.pend cl = toks k (tagOf x cl k) P
  pe : ∀ cl', cl' ≠ cl → m.pend cl' = []
  perm : (O ++ P ++ I ++ C).Perm (ordOf c cl k)
  ne : 0 < O.length + P.length + I.length
  qa : ∀ i, i ∈ m.quiet cl ↔ (if k = .flush then i ∈ I ++ C else i ∈ O)
  qo : ∀ cl' i, cl' ≠ cl → (i ∈ m.quiet cl' ↔ qFull c rq (gqOf x gq cl cl') cl' i)

/-- GPU serving command `x`, which is at `loc` -/
def GS (x : Cmd) (loc : BLoc) (rq gq : Bool) (c : Cp) (m : Comps) : Prop :=
  Pre x rq gq ∧
  match loc with
  | .cmd => c = { base c with drvIn := [x] } ∧ PendEmpty m ∧ QS c m rq gq
  | .tok cl k => ∃ O P I C, GTok x cl k rq gq c m O P I C
  | .pmcOut => (∃ id, x = .mig id ∧ c = { base c with pmcOut := [⟨.flush, 0, id⟩] }) ∧ PendEmpty m ∧ QS c m rq gq
  | .pmcWait => (∃ id, x = .mig id) ∧ c = base c ∧ PendEmpty m ∧ QS c m rq gq
  | .pmcIn => (∃ id, x = .mig id) ∧ c = { base c with pmcIn := [⟨.flush, 0, 0⟩] } ∧ PendEmpty m ∧ QS c m rq gq
  | .ans => c = { base c with drvOut := [ansOf x] } ∧ PendEmpty m ∧ QS c m (after x rq gq).1 (after x rq gq).2

/-! ## the system -/

/-- the five phases of the handshake -/
inductive PK
  | drain
  | shoot
  | mig
  | restart
  | rdma
deriving DecidableEq, Repr

/-- 0-based accessing GPUs of a request -/
def accT (r : MmuReq) : List Nat := r.acc.map (· - 1)

/-- quiet flags of GPU `g` before it is served in phase `p` (`none` = no request is handled) -/
def flagsBefore (p : Option PK) (ngpu : Nat) (acc : List Nat) (g : Nat) : Bool × Bool :=
  match p with
  | none => (false, false)
  | some .drain => (false, false)
  | some .shoot => (decide (g < ngpu), false)
  | some .mig => (decide (g < ngpu), decide (g ∈ acc))
  | some .restart => (decide (g < ngpu), decide (g ∈ acc))
  | some .rdma => (decide (g < ngpu), false)

/-- the command of a phase (the migrate commands carry their own id) -/
def cmdOf (p : PK) (r : MmuReq) : Cmd :=
  match p with
  | .drain => .drain
  | .shoot => .shoot r.id
  | .mig => .mig 0
  | .restart => .restart
  | .rdma => .rdmaRestart

/-- the targets of a broadcast phase, in sending order -/
def targets (p : PK) (ngpu : Nat) (r : MmuReq) : List Nat :=
  match p with
  | .drain => List.range ngpu
  | .rdma => List.range ngpu
  | .shoot => accT r
  | .restart => accT r
  | .mig => []

/-- where the GPUs of the current phase are: command still queued in the driver (`wait`), in the driver's
    outgoing buffer (`sent`), at the GPU (`atG`), answer in the driver's incoming buffer (`bk`), counted (`dn`) -/
structure Split where
  wait : List Nat := []
  sent : List Nat := []
  atG : List Nat := []
  bk : List Nat := []
  dn : List Nat := []

def Split.all (σ : Split) : List Nat := σ.wait ++ σ.sent ++ σ.atG ++ σ.bk ++ σ.dn
def Split.open_ (σ : Split) : Nat := σ.wait.length + σ.sent.length + σ.atG.length + σ.bk.length

/-- a migrate command is consistent with the request being served and the two memories -/
structure MigOK (s : Sys) (r : MmuReq) (m : MigCmd) : Prop where
  log : s.drv.migLog.find? (·.id == m.id) = some m
  gpu : m.gpu < 2
  peer : m.peer = 1 - m.gpu ∧ m.peer + 1 = r.host
  size : m.size = r.pageSize
  rd : m.rd + m.size ≤ (s.w.sys.mem m.peer).size
  wr : m.wr + m.size ≤ (s.w.sys.mem m.gpu).size

/-- where the page migration request of the migrate command in flight is, seen from the world -/
inductive WSt
  /-- no request inside the two-controller system, no completion on its way -/
  | none
  /-- submitted to controller `g`, completion not collected yet -/
  | copying (g : Nat) (m : MigCmd)
  /-- completion collected, not yet delivered to the command processor -/
  | back (g : Nat)

/-- what `live` looks like for a world state -/
def liveOK (s : Sys) : WSt → Prop
  | .copying g m => ∃ ℓ, s.w.live = [ℓ] ∧ ℓ.p = g ∧ ℓ.r.rd = m.rd ∧ ℓ.r.wr = m.wr ∧ ℓ.r.size = m.size ∧ ℓ.r.peer = m.peer
  | _ => s.w.live = []

/-- completions collected and not yet delivered, per GPU -/
def WSt.backOf : WSt → Nat → Nat
  | .back g', g => if g = g' then 1 else 0
  | _, _ => 0

structure WorldInv (s : Sys) (ws : WSt) : Prop where
  reach : WReach s.w
  live : liveOK s ws
  back : ∀ g, s.back g = ws.backOf g

/-- the configuration of a command processor (sizes and capacities) -/
def SameCfg (c c' : Cp) : Prop :=
  c'.nCU = c.nCU ∧ c'.nAT = c.nAT ∧ c'.nTLB = c.nTLB ∧ c'.nI = c.nI ∧ c'.nS = c.nS ∧ c'.nV = c.nV ∧ c'.n2 = c.n2 ∧
  c'.capIn = c.capIn ∧ c'.capDrv = c.capDrv ∧ c'.capRdma = c.capRdma ∧ c'.capCU = c.capCU ∧ c'.capAT = c.capAT ∧
  c'.capCache = c.capCache ∧ c'.capTLB = c.capTLB ∧ c'.capPMC = c.capPMC

/-! ## the progress measure of one GPU: every message weighted by the hops it (and what it will
    spawn) still has to make. `wm id` = weight of the controller leg of migrate command `id`. -/

def wTok (out pend inn : List Sub) : Nat := 5 * out.length + 4 * pend.length + 3 * inn.length

def wFan (c : Cp) : Nat := 5 * (c.nCU + c.nAT + c.nCache + c.nTLB)

def wCmd (c : Cp) (wm : Nat → Nat) : Cmd → Nat
  | .drain => 7
  | .rdmaRestart => 7
  | .shoot _ => wFan c + 2
  | .restart => wFan c + 2
  | .mig id => wm id + 2
  | _ => 0

/-- the fan-outs still to come of the command being served, read off the counters -/
def pot (c : Cp) : Nat :=
  if c.shoot then
    if c.numCU > 0 then 5 * (c.nAT + c.nCache + c.nTLB)
    else if c.numATF > 0 then 5 * (c.nCache + c.nTLB)
    else if c.numCache > 0 then 5 * c.nTLB
    else 0
  else
    if c.numCache > 0 then 5 * (c.nTLB + c.nAT + c.nCU)
    else if c.numTLB > 0 then 5 * (c.nAT + c.nCU)
    else if c.numATR > 0 then 5 * c.nCU
    else 0

def gmeas (wm : Nat → Nat) (c : Cp) (m : Comps) : Nat :=
  (c.drvIn.map (wCmd c wm)).sum + pot c +
  wTok c.rdmaOut m.pRdma c.rdmaIn + wTok c.cuOut m.pCU c.cuIn + wTok c.atOut m.pAT c.atIn +
  wTok c.cacheOut m.pCache c.cacheIn + wTok c.tlbOut m.pTLB c.tlbIn +
  (c.pmcOut.map (fun x => wm x.tag)).sum + 3 * c.pmcIn.length + 2 * c.drvOut.length

/-- the MMU side: requests in order, answers in order, nothing lost; `pc` = id of the request being
    served whose answer has not been prepared yet (at most one) -/
structure MmuInv (s : Sys) (pc : List Nat) : Prop where
  lost : s.drv.lost = []
  sent : s.mmuSent = s.drv.taken ++ s.drv.mmuIn.map (·.id)
  ids : s.mmuSent = List.range s.mmuSent.length
  got : s.mmuGot ++ s.drv.mmuOut.map (·.1) = s.drv.answered
  ans : s.drv.answered ++ (match s.drv.toMMU with
      | some a => [a.1]
      | none => []) ++ pc = s.drv.taken
  one : s.drv.mmuIn ≠ [] → s.mmuGot = s.drv.taken
  fresh : pc ≠ [] → s.drv.toMMU = none ∧ s.drv.mmuOut = []
  cap : s.drv.mmuIn.length ≤ 1 ∧ s.drv.mmuOut.length ≤ 1

end SY
end C19
