import MgpuProofs.C07DispDefs
import MgpuModel.C04
set_option linter.unusedVariables false
set_option linter.unusedSimpArgs false
/-! # C07 helper lemmas: which register operands the decoder (model of property C04) can build, and how
the two stores answer the ones the supported subset leaves out -/
namespace C07
open Gen

/-- the register operands of a decoded instruction: `(RegType, RegCount)` -/
def regOpnds (i : C04.Inst) : List (Nat × Nat) :=
  [i.src0, i.src1, i.src2, i.dst, i.sdst, i.addr, i.data, i.data1, i.base, i.offset].filterMap fun o =>
    match o with
    | some (.reg _ r k) => some (r, k)
    | _ => none

/-- **the `RegCount`s the decoder can produce.** Every register operand of every decodable instruction
    (any bytes, either architecture): outside SMEM at most 4 registers, and an operand that is not a VGPR
    (an SGPR or one of the special registers of `getOperand`) has `RegCount` 0 or 2; SMEM (`s_load_dword*`,
    `s_buffer_load_dword*`, stores): 0, 1, 2, 4, 8 or 16 — whatever SDATA names. -/
theorem decoded_operand_counts (c : Bool) (buf : List Nat) (i : C04.Inst) (h : C04.decode c buf = .ok i) :
    ∀ p ∈ regOpnds i,
      (i.ft ≠ FT_SMEM → p.2 ≤ 4 ∧ (isVReg p.1 = false → p.2 = 0 ∨ p.2 = 2)) ∧
      (i.ft = FT_SMEM → p.2 = 0 ∨ p.2 = 1 ∨ p.2 = 2 ∨ p.2 = 4 ∨ p.2 = 8 ∨ p.2 = 16) := by
  sorry

/-- **a decodable instruction with an operand outside the supported subset**: the bytes
    `82 1a 0a c0 00 00 00 00` (`s_load_dwordx4` with SDATA = 106) decode to a data operand `vcc_lo` with
    `RegCount` 4 -/
theorem malformed_operand_decodable :
    ∃ i, C04.decode false [0x82, 0x1a, 0x0a, 0xc0, 0, 0, 0, 0] = .ok i ∧ i.data = some (.reg 106 R_VCCLO 4) ∧
      ¬ (⟨.vcclo, 4, 0⟩ : Acc).Supported 102 256 := by
  sorry

/-- **every special-register operand an ALU instruction can carry is answered identically by both
    stores**, supported subset or not: for ANY register that is neither an SGPR nor a VGPR and `RegCount`
    0 or 2 (the counts of `decoded_operand_counts` outside SMEM), `ReadOperand` gives the same value or
    the same fault in both stores whenever the special registers agree; `WriteOperand` faults alike and
    leaves them agreeing — except the one operand `exec_hi` with count 2 (emulator "not supported",
    timing writes EXEC; `operand_fault_disagreements`). -/
theorem alu_special_operand_agree (e : EmuRF) (t : TimingRF) (wi r k lane : Nat)
    (hS : isSReg r = false) (hV : isVReg r = false) (hk : k = 0 ∨ k = 2)
    (hag : e.vcc = (t.wf wi).vcc ∧ e.exec = (t.wf wi).exec ∧ e.scc = (t.wf wi).scc ∧ e.m0 = (t.wf wi).m0)
    (hwi : wi < t.wfs.size) :
    e.readOperand r k lane = t.readOperand wi r k lane ∧
    (¬ (r = R_EXECHI ∧ k = 2) → ∀ v,
      (e.writeOperand r k lane v).2 = (t.writeOperand wi r k lane v).2 ∧
      (e.writeOperand r k lane v).1.vcc = ((t.writeOperand wi r k lane v).1.wf wi).vcc ∧
      (e.writeOperand r k lane v).1.exec = ((t.writeOperand wi r k lane v).1.wf wi).exec ∧
      (e.writeOperand r k lane v).1.scc = ((t.writeOperand wi r k lane v).1.wf wi).scc ∧
      (e.writeOperand r k lane v).1.m0 = ((t.writeOperand wi r k lane v).1.wf wi).m0 ∧
      (e.writeOperand r k lane v).1.sfile = e.sfile ∧ (e.writeOperand r k lane v).1.vfile = e.vfile ∧
      (t.writeOperand wi r k lane v).1.sfile = t.sfile ∧ (t.writeOperand wi r k lane v).1.vfiles = t.vfiles) := by
  sorry

end C07
