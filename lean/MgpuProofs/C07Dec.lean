import MgpuProofs.C07DispDefs
import MgpuModel.C04
set_option linter.unusedVariables false
set_option linter.unusedSimpArgs false
/-! # C07 helper lemmas: which register operands the decoder (model of property C04) can build, and how
the two stores answer the ones the supported subset leaves out -/
namespace C07
open Gen

/-- the register operands of a decoded instruction: `(RegType, RegCount)` -/
def regOpnds (i : C04.Inst) : List (Nat × Nat) :=
  [i.src0, i.src1, i.src2, i.dst, i.sdst, i.addr, i.data, i.data1, i.base, i.offset].filterMap fun o =>
    match o with
    | some (.reg _ r k) => some (r, k)
    | _ => none

/-! ## which operands the decoder builds -/
namespace Dec
open C04

/-- a register operand's count is 0 -/
def Z0 : Opnd → Prop
  | .reg _ _ k => k = 0
  | _ => True
/-- … 0 or 2 -/
def Z02 : Opnd → Prop
  | .reg _ _ k => k = 0 ∨ k = 2
  | _ => True
/-- the class outside SMEM -/
def NSo : Opnd → Prop
  | .reg _ r k => k ≤ 4 ∧ (isVReg r = false → k = 0 ∨ k = 2)
  | _ => True
/-- the class of SMEM -/
def SMo : Opnd → Prop
  | .reg _ _ k => k = 0 ∨ k = 1 ∨ k = 2 ∨ k = 4 ∨ k = 8 ∨ k = 16
  | _ => True

def OkO (C : Opnd → Prop) : Option Opnd → Prop
  | some o => C o
  | none => True
@[simp] theorem OkO_some (C : Opnd → Prop) (o : Opnd) : OkO C (some o) = C o := rfl
@[simp] theorem OkO_none (C : Opnd → Prop) : OkO C none = True := rfl

def AllO (C : Opnd → Prop) (i : Inst) : Prop :=
  OkO C i.src0 ∧ OkO C i.src1 ∧ OkO C i.src2 ∧ OkO C i.dst ∧ OkO C i.sdst ∧ OkO C i.addr ∧ OkO C i.data ∧
  OkO C i.data1 ∧ OkO C i.base ∧ OkO C i.offset

theorem Z0.z02 {o : Opnd} (h : Z0 o) : Z02 o := by
  cases o <;> simp_all [Z0, Z02]
theorem Z02.ns {o : Opnd} (h : Z02 o) : NSo o := by
  cases o <;> simp_all [NSo, Z02] ; omega
theorem Z02.sm {o : Opnd} (h : Z02 o) : SMo o := by
  cases o <;> simp_all [SMo, Z02] ; omega

theorem ite_some {c : Prop} [Decidable c] {a : Opnd} {x : Option Opnd} {o : Opnd} (P : Opnd → Prop)
    (h : (if c then some a else x) = some o) (ha : P a) (hx : x = some o → P o) : P o := by
  by_cases hc : c
  · rw [if_pos hc] at h; cases h; exact ha
  · rw [if_neg hc] at h; exact hx h

theorem z0_getOperand {n : Nat} {o : Opnd} (h : getOperand n = some o) : Z0 o := by
  unfold getOperand at h
  repeat (refine ite_some Z0 h (by simp [Z0, sreg, vreg]) (fun h => ?_))
  cases h

theorem z02_getOperand {n : Nat} {o : Opnd} (h : getOperand n = some o) : Z02 o := (z0_getOperand h).z02
theorem z02_setCount2 (o : Opnd) : Z02 (o.setCount 2) := by cases o <;> simp [Opnd.setCount, Z02]
theorem z02_with64 {o : Opnd} (w : Nat) (h : Z02 o) : Z02 (with64 w o) := by
  unfold with64; split
  · exact z02_setCount2 o
  · exact h
theorem z02_setLit {o : Opnd} (l : Nat) (h : Z02 o) : Z02 (setLit o l) := by
  cases o <;> simp_all [setLit, Z02]
theorem z02_ite {c : Prop} [Decidable c] {a b : Opnd} (ha : Z02 a) (hb : Z02 b) : Z02 (if c then a else b) := by
  split <;> assumption
theorem z02_sreg0 (c i : Nat) : Z02 (sreg c i 0) := by simp [sreg, Z02]
theorem z02_vreg0 (c i : Nat) : Z02 (vreg c i 0) := by simp [vreg, Z02]

theorem eb8 (w lo hi : Nat) (h : hi - lo + 1 = 8) : extractBits w lo hi < 256 := by
  unfold extractBits; rw [h]; exact Nat.mod_lt _ (by decide)

theorem ns_vreg (c b k : Nat) (hb : b < 256) (hk : k ≤ 4) : NSo (vreg c b k) := by
  simp only [vreg, NSo]
  exact ⟨hk, fun h => by rw [isVReg_v b hb] at h; cases h⟩

/-- the blank instruction `decodeRow` starts from -/
def blank (n : String) (ft op : Nat) : Inst := { name := n, ft := ft, opcode := op }

def OGood (Q : Inst → Prop) : Outcome → Prop
  | .ok i => Q i
  | _ => True
def DGood (Q : Inst → Prop) : Dec4 → Prop
  | .done i => Q i
  | .more k => ∀ l, OGood Q (k l)
  | .err => True

/-- result of a decoder outside SMEM -/
def QN (ft : Nat) (i : Inst) : Prop := i.ft = ft ∧ AllO NSo i
def QS (ft : Nat) (i : Inst) : Prop := i.ft = ft ∧ AllO SMo i

macro "z02" : tactic => `(tactic|
  repeat (first
    | assumption
    | apply z02_with64
    | apply z02_setLit
    | apply z02_setCount2
    | apply z02_ite
    | apply z02_sreg0
    | apply z02_vreg0))

/-- close a goal `… ∧ NSo _ ∧ …` whose operands are all in the 0-or-2 class -/
macro "fin02" : tactic => `(tactic|
  (intros; (repeat' constructor) <;> first | (apply Z02.ns; z02) | omega | exact fun _ => Or.inl rfl))

theorem sop2_ok (n : String) (ft op w : Nat) : DGood (QN ft) (decodeSOP2 (blank n ft op) w) := by
  unfold decodeSOP2
  split
  · rename_i s0 s1 d h0 h1 hd
    have z0 := z02_getOperand h0
    have z1 := z02_getOperand h1
    have zd := z02_getOperand hd
    split <;> simp [DGood, OGood, QN, AllO, blank] <;> fin02
  · trivial

theorem sopc_ok (n : String) (ft op w : Nat) : DGood (QN ft) (decodeSOPC (blank n ft op) w) := by
  unfold decodeSOPC
  split
  · rename_i s0 s1 h0 h1
    have z0 := z02_getOperand h0
    have z1 := z02_getOperand h1
    split <;> simp [DGood, OGood, QN, AllO, blank] <;> fin02
  · trivial

theorem sop1_ok (n : String) (ft op w : Nat) (row : Row) : DGood (QN ft) (decodeSOP1 (blank n ft op) row w) := by
  unfold decodeSOP1
  split
  · rename_i s0 d h0 hd
    have z0 := z02_getOperand h0
    have zd := z02_getOperand hd
    simp only []
    split <;> simp [DGood, OGood, QN, AllO, blank] <;> fin02
  · trivial

theorem sopk_ok (n : String) (ft op w : Nat) : DGood (QN ft) (decodeSOPK (blank n ft op) w) := by
  unfold decodeSOPK
  split
  · rename_i d hd
    have zd := z02_getOperand hd
    split <;> simp [DGood, OGood, QN, AllO, blank] <;> fin02
  · trivial

theorem sopp_ok (n : String) (ft op w : Nat) : DGood (QN ft) (decodeSOPP (blank n ft op) w) := by
  unfold decodeSOPP
  simp only []
  split <;> simp [DGood, OGood, QN, AllO, blank]

theorem vop1_ok (n : String) (ft op w : Nat) (row : Row) : DGood (QN ft) (decodeVOP1 (blank n ft op) row w) := by
  unfold decodeVOP1
  simp only []
  split
  · rename_i s0 d h0 hd
    have z0 := z02_getOperand h0
    have zd : Z02 d := by
      split at hd <;> exact z02_getOperand hd
    split <;> simp [DGood, OGood, QN, AllO, blank] <;> fin02
  · trivial

theorem vopc_ok (n : String) (ft op w : Nat) (row : Row) : DGood (QN ft) (decodeVOPC (blank n ft op) row w) := by
  unfold decodeVOPC
  split
  · rename_i s0 h0
    have z0 := z02_getOperand h0
    simp only []
    split <;> simp [DGood, OGood, QN, AllO, blank] <;> fin02
  · trivial

theorem OGood_ite {Q : Inst → Prop} {c : Prop} [Decidable c] {a b : Outcome} (ha : OGood Q a) (hb : OGood Q b) :
    OGood Q (if c then a else b) := by split <;> assumption
theorem DGood_ite {Q : Inst → Prop} {c : Prop} [Decidable c] {a b : Dec4} (ha : DGood Q a) (hb : DGood Q b) :
    DGood Q (if c then a else b) := by split <;> assumption
theorem ite_le {c : Prop} [Decidable c] {a b m : Nat} (ha : a ≤ m) (hb : b ≤ m) : (if c then a else b) ≤ m := by
  split <;> assumption
theorem sm_ite {c : Prop} [Decidable c] {a b : Opnd} (ha : SMo a) (hb : SMo b) : SMo (if c then a else b) := by
  split <;> assumption
theorem oko_ite {C : Opnd → Prop} {c : Prop} [Decidable c] {a : Opnd} (ha : C a) :
    OkO C (if c then some a else none) := by split <;> simp [ha]

theorem vop2_ok (n : String) (ft op w : Nat) : DGood (QN ft) (decodeVOP2 (blank n ft op) w) := by
  unfold decodeVOP2
  dsimp only
  apply DGood_ite
  · show ∀ sd, OGood _ _
    intro sd
    repeat' (first | apply OGood_ite | exact trivial)
    simp [OGood, QN, AllO, blank]; fin02
  · cases h0 : getOperand (extractBits w 0 8) with
    | none => exact trivial
    | some s0 =>
      have z0 := z02_getOperand h0
      dsimp only
      repeat' (first | apply DGood_ite | exact trivial)
      all_goals (simp [DGood, OGood, QN, AllO, blank] <;> fin02)

theorem flat_ok (c : Bool) (n : String) (ft op lo hi : Nat) : OGood (QN ft) (decodeFLAT c (blank n ft op) lo hi) := by
  unfold decodeFLAT
  simp only [OGood, QN, AllO, blank, OkO_some, OkO_none, true_and, and_true]
  refine ⟨?_, ?_, ?_⟩ <;> apply ns_vreg <;> first | exact eb8 _ _ _ rfl | skip
  · repeat (first | apply ite_le | omega)
  · repeat (first | apply ite_le | omega)
  · repeat (first | apply ite_le | omega)

theorem rcw_le (w : Nat) : regCountOfWidth w ≤ 4 := by
  unfold regCountOfWidth; repeat (first | apply ite_le | omega)

theorem ds_ok (n : String) (ft op lo hi : Nat) (row : Row) : OGood (QN ft) (decodeDS (blank n ft op) row lo hi) := by
  unfold decodeDS
  simp only [OGood, QN, AllO, blank, OkO_some, OkO_none, true_and, and_true]
  refine ⟨?_, ?_, ?_, ?_⟩
  · exact oko_ite (ns_vreg _ _ _ (eb8 _ _ _ rfl) (rcw_le _))
  · exact ns_vreg _ _ _ (eb8 _ _ _ rfl) (by omega)
  · exact oko_ite (ns_vreg _ _ _ (eb8 _ _ _ rfl) (rcw_le _))
  · exact oko_ite (ns_vreg _ _ _ (eb8 _ _ _ rfl) (rcw_le _))

theorem sm_setCount (o : Opnd) (k : Nat) (h : k = 0 ∨ k = 1 ∨ k = 2 ∨ k = 4 ∨ k = 8 ∨ k = 16) : SMo (o.setCount k) := by
  cases o <;> simp [Opnd.setCount, SMo, h]

theorem smem_ok (c : Bool) (n : String) (ft op lo hi : Nat) : OGood (QS ft) (decodeSMEM c (blank n ft op) lo hi) := by
  unfold decodeSMEM
  dsimp only
  cases hd : getOperand (extractBits lo 6 12) with
  | none => exact trivial
  | some dt =>
    have z0 := z0_getOperand hd
    simp only [OGood, QS, AllO, blank, OkO_some, OkO_none, true_and, and_true]
    refine ⟨?_, ?_, ?_⟩
    · repeat (first | apply sm_ite | (apply sm_setCount; omega) | exact z0.z02.sm)
    · simp [sreg, SMo]
    · split <;> simp [sreg, SMo]

theorem vop3b_ok (n : String) (ft op lo hi : Nat) (row : Row) :
    OGood (QN ft) (decodeVOP3b (blank n ft op) row lo hi) := by
  unfold decodeVOP3b
  dsimp only
  have hdst : OkO NSo (if (blank n ft op).opcode > 255 then
      some (vreg (extractBits lo 0 7) (extractBits lo 0 7) (if row.dstW == 64 then 2 else 1)) else none) :=
    oko_ite (ns_vreg _ _ _ (eb8 _ _ _ rfl) (by split <;> omega))
  split
  · rename_i sd s0 s1 hsd h0 h1
    have zsd := z02_getOperand hsd
    have z0 := z02_getOperand h0
    have z1 := z02_getOperand h1
    apply OGood_ite
    · split
      · rename_i s2 h2
        have z2 := z02_getOperand h2
        simp only [OGood, QN, AllO, blank, OkO_some, OkO_none, true_and, and_true] at hdst ⊢
        refine ⟨?_, ?_, ?_, hdst, ?_⟩ <;> (apply Z02.ns; z02)
      · trivial
    · simp only [OGood, QN, AllO, blank, OkO_some, OkO_none, true_and, and_true] at hdst ⊢
      refine ⟨?_, ?_, hdst, ?_⟩ <;> (apply Z02.ns; z02)
  · trivial

theorem vop3a_ok (n : String) (ft op lo hi : Nat) (row : Row) :
    OGood (QN ft) (decodeVOP3a (blank n ft op) row lo hi) := by
  unfold decodeVOP3a
  dsimp only
  split
  · rename_i d s0 s1 hd h0 h1
    have zd : Z02 d := by
      split at hd
      · exact z02_getOperand hd
      · cases hd; exact z02_vreg0 _ _
    have z0 := z02_getOperand h0
    have z1 := z02_getOperand h1
    apply OGood_ite
    · split
      · rename_i s2 h2
        have z2 := z02_getOperand h2
        simp only [OGood, QN, AllO]
        split
        · simp [blank]; fin02
        · split
          · simp [blank]; fin02
          · simp [blank]; fin02
      · trivial
    · simp only [OGood, QN, AllO]
      split
      · simp [blank]; fin02
      · split
        · simp [blank]; fin02
        · simp [blank]; fin02
  · trivial

/-- the class of the statement -/
def Fin (i : Inst) : Prop := (i.ft ≠ FT_SMEM → AllO NSo i) ∧ (i.ft = FT_SMEM → AllO SMo i)

theorem OGood_mono {Q Q' : Inst → Prop} (h : ∀ i, Q i → Q' i) {o : Outcome} (ho : OGood Q o) : OGood Q' o := by
  cases o <;> simp_all [OGood]
theorem DGood_mono {Q Q' : Inst → Prop} (h : ∀ i, Q i → Q' i) {d : Dec4} (hd : DGood Q d) : DGood Q' d := by
  cases d with
  | done i => exact h i hd
  | more k => exact fun l => OGood_mono h (hd l)
  | err => trivial

theorem QN_fin {ft : Nat} (hft : ft ≠ FT_SMEM) (i : Inst) (h : QN ft i) : Fin i :=
  ⟨fun _ => h.2, fun e => absurd (h.1 ▸ e) hft⟩
theorem QS_fin (i : Inst) (h : QS FT_SMEM i) : Fin i :=
  ⟨fun ne => absurd h.1 ne, fun _ => h.2⟩

theorem dec4_ok (n : String) (ft op w : Nat) (row : Row) (d : Dec4) (h : dec4 (blank n ft op) row w = some d) :
    DGood Fin d := by
  unfold dec4 at h
  have hb : (blank n ft op).ft = ft := rfl
  rw [hb] at h
  by_cases c1 : ft = FT_SOP2
  · subst c1; simp at h; subst h; exact DGood_mono (QN_fin (by decide)) (sop2_ok ..)
  by_cases c2 : ft = FT_VOP2
  · subst c2; simp [FT_VOP2, FT_SOP2] at h; subst h; exact DGood_mono (QN_fin (by decide)) (vop2_ok ..)
  by_cases c3 : ft = FT_VOP1
  · subst c3; simp [FT_VOP1, FT_VOP2, FT_SOP2] at h; subst h; exact DGood_mono (QN_fin (by decide)) (vop1_ok ..)
  by_cases c4 : ft = FT_SOPP
  · subst c4; simp [FT_SOPP, FT_VOP1, FT_VOP2, FT_SOP2] at h; subst h; exact DGood_mono (QN_fin (by decide)) (sopp_ok ..)
  by_cases c5 : ft = FT_VOPC
  · subst c5; simp [FT_VOPC, FT_SOPP, FT_VOP1, FT_VOP2, FT_SOP2] at h; subst h
    exact DGood_mono (QN_fin (by decide)) (vopc_ok ..)
  by_cases c6 : ft = FT_SOPC
  · subst c6; simp [FT_SOPC, FT_VOPC, FT_SOPP, FT_VOP1, FT_VOP2, FT_SOP2] at h; subst h
    exact DGood_mono (QN_fin (by decide)) (sopc_ok ..)
  by_cases c7 : ft = FT_SOP1
  · subst c7; simp [FT_SOP1, FT_SOPC, FT_VOPC, FT_SOPP, FT_VOP1, FT_VOP2, FT_SOP2] at h; subst h
    exact DGood_mono (QN_fin (by decide)) (sop1_ok ..)
  by_cases c8 : ft = FT_SOPK
  · subst c8; simp [FT_SOPK, FT_SOP1, FT_SOPC, FT_VOPC, FT_SOPP, FT_VOP1, FT_VOP2, FT_SOP2] at h; subst h
    exact DGood_mono (QN_fin (by decide)) (sopk_ok ..)
  simp [c1, c2, c3, c4, c5, c6, c7, c8] at h

theorem dec8_ok (c : Bool) (n : String) (ft op lo hi : Nat) (row : Row) (o : Outcome)
    (h : dec8 c (blank n ft op) row lo hi = some o) : OGood Fin o := by
  unfold dec8 at h
  have hb : (blank n ft op).ft = ft := rfl
  rw [hb] at h
  by_cases c1 : ft = FT_SMEM
  · subst c1; simp at h; subst h; exact OGood_mono QS_fin (smem_ok ..)
  by_cases c2 : ft = FT_FLAT
  · subst c2; simp [FT_FLAT, FT_SMEM] at h; subst h; exact OGood_mono (QN_fin (by decide)) (flat_ok ..)
  by_cases c3 : ft = FT_VOP3a
  · subst c3; simp [FT_VOP3a, FT_FLAT, FT_SMEM] at h; subst h; exact OGood_mono (QN_fin (by decide)) (vop3a_ok ..)
  by_cases c4 : ft = FT_VOP3b
  · subst c4; simp [FT_VOP3b, FT_VOP3a, FT_FLAT, FT_SMEM] at h; subst h
    exact OGood_mono (QN_fin (by decide)) (vop3b_ok ..)
  by_cases c5 : ft = FT_DS
  · subst c5; simp [FT_DS, FT_VOP3b, FT_VOP3a, FT_FLAT, FT_SMEM] at h; subst h
    exact OGood_mono (QN_fin (by decide)) (ds_ok ..)
  simp [c1, c2, c3, c4, c5] at h

theorem Fin_setSize (i : Inst) (k : Nat) (h : Fin i) : Fin { i with size := k } := h

theorem OGood_setSize {o : Outcome} (k : Nat) (h : OGood Fin o) : OGood Fin (o.setSize k) := by
  cases o <;> simp_all [OGood, Outcome.setSize]
  exact Fin_setSize _ _ h

theorem decodeRow_ok (c : Bool) (f : Format) (row : Row) (w0 : Nat) (w1? : Option Nat) :
    OGood Fin (decodeRow c f row w0 w1?) := by
  unfold decodeRow
  dsimp only
  split
  · split
    · trivial
    · rename_i w1
      apply OGood_setSize
      cases h : dec8 c (blank row.name f.ft row.opcode) row w0 w1 with
      | none => simp [blank] at h ⊢; rw [h]; trivial
      | some o => simp [blank] at h ⊢; rw [h]; exact dec8_ok c _ _ _ _ _ _ _ h
  · cases h : dec4 (blank row.name f.ft row.opcode) row w0 with
    | none => simp only [blank] at h; rw [h]; trivial
    | some d =>
      have hd := dec4_ok _ _ _ _ _ _ h
      simp only [blank] at h; rw [h]
      cases d with
      | done i => exact Fin_setSize i 4 hd
      | err => trivial
      | more k =>
        dsimp only
        split
        · trivial
        · exact OGood_setSize 8 (hd _)

def regOf (o : Option Opnd) : Option (Nat × Nat) :=
  match o with
  | some (.reg _ r k) => some (r, k)
  | _ => none

theorem oko_reg {C : Opnd → Prop} {C' : Nat → Nat → Prop} (hC : ∀ c r k, C (.reg c r k) → C' r k)
    {o : Option Opnd} (h : OkO C o) {p : Nat × Nat} (hp : regOf o = some p) : C' p.1 p.2 := by
  cases o with
  | none => cases hp
  | some x =>
    cases x with
    | reg c r k => cases hp; exact hC c r k h
    | int _ _ => cases hp
    | float _ => cases hp
    | lit _ _ => cases hp

theorem allO_regOpnds {C : Opnd → Prop} {C' : Nat → Nat → Prop} (hC : ∀ c r k, C (.reg c r k) → C' r k)
    {i : Inst} (h : AllO C i) : ∀ p ∈ regOpnds i, C' p.1 p.2 := by
  intro p hp
  have hr : regOpnds i = [i.src0, i.src1, i.src2, i.dst, i.sdst, i.addr, i.data, i.data1, i.base, i.offset].filterMap regOf := rfl
  rw [hr, List.mem_filterMap] at hp
  obtain ⟨o, hmem, hp⟩ := hp
  obtain ⟨a1, a2, a3, a4, a5, a6, a7, a8, a9, a10⟩ := h
  simp only [List.mem_cons, List.not_mem_nil, or_false] at hmem
  rcases hmem with rfl | rfl | rfl | rfl | rfl | rfl | rfl | rfl | rfl | rfl
  · exact oko_reg hC a1 hp
  · exact oko_reg hC a2 hp
  · exact oko_reg hC a3 hp
  · exact oko_reg hC a4 hp
  · exact oko_reg hC a5 hp
  · exact oko_reg hC a6 hp
  · exact oko_reg hC a7 hp
  · exact oko_reg hC a8 hp
  · exact oko_reg hC a9 hp
  · exact oko_reg hC a10 hp

theorem decodeCore_ok (look : Nat → Nat → Option Row) (c : Bool) (w0 : Nat) (w1? : Option Nat) :
    OGood Fin (decodeCore look c w0 w1?) := by
  unfold decodeCore
  cases matchFormat w0 with
  | none => exact trivial
  | some f =>
    dsimp only
    cases look f.ft (extractBits w0 f.opLo f.opHi) with
    | none => exact trivial
    | some row => exact decodeRow_ok c f row w0 w1?

theorem decodeWith_ok (look : Nat → Nat → Option Row) (c : Bool) (buf : List Nat) :
    OGood Fin (decodeWith look c buf) := by
  unfold decodeWith
  split
  · exact trivial
  · exact decodeCore_ok ..

theorem decode_fin (c : Bool) (buf : List Nat) (i : Inst) (h : decode c buf = .ok i) : Fin i := by
  have := decodeWith_ok (lookUpArch c) c buf
  unfold decode at h
  rw [h] at this; exact this

end Dec


/-- **the `RegCount`s the decoder can produce.** Every register operand of every decodable instruction
    (any bytes, either architecture): outside SMEM at most 4 registers, and an operand that is not a VGPR
    (an SGPR or one of the special registers of `getOperand`) has `RegCount` 0 or 2; SMEM (`s_load_dword*`,
    `s_buffer_load_dword*`, stores): 0, 1, 2, 4, 8 or 16 — whatever SDATA names. -/
theorem decoded_operand_counts (c : Bool) (buf : List Nat) (i : C04.Inst) (h : C04.decode c buf = .ok i) :
    ∀ p ∈ regOpnds i,
      (i.ft ≠ FT_SMEM → p.2 ≤ 4 ∧ (isVReg p.1 = false → p.2 = 0 ∨ p.2 = 2)) ∧
      (i.ft = FT_SMEM → p.2 = 0 ∨ p.2 = 1 ∨ p.2 = 2 ∨ p.2 = 4 ∨ p.2 = 8 ∨ p.2 = 16) := by
  intro p hp
  have hf := Dec.decode_fin c buf i h
  exact ⟨fun ne => Dec.allO_regOpnds (C' := fun r k => k ≤ 4 ∧ (isVReg r = false → k = 0 ∨ k = 2))
            (fun _ _ _ h => h) (hf.1 ne) p hp,
         fun e => Dec.allO_regOpnds (C' := fun r k => k = 0 ∨ k = 1 ∨ k = 2 ∨ k = 4 ∨ k = 8 ∨ k = 16)
            (fun _ _ _ h => h) (hf.2 e) p hp⟩

/-- the instruction the bytes of `malformed_operand_decodable` decode to -/
def malformedInst : C04.Inst :=
  { name := "s_load_dwordx4", ft := 5, opcode := 2, size := 8,
    data := some (.reg 106 365 4), base := some (.reg 4 262 2), offset := some (.int 0 0), imm := true }
theorem malformed_decode :
    C04.decode false [0x82, 0x1a, 0x0a, 0xc0, 0, 0, 0, 0] = .ok malformedInst := by decide +kernel

/-- **a decodable instruction with an operand outside the supported subset**: the bytes
    `82 1a 0a c0 00 00 00 00` (`s_load_dwordx4` with SDATA = 106) decode to a data operand `vcc_lo` with
    `RegCount` 4 -/
theorem malformed_operand_decodable :
    ∃ i, C04.decode false [0x82, 0x1a, 0x0a, 0xc0, 0, 0, 0, 0] = .ok i ∧ i.data = some (.reg 106 R_VCCLO 4) ∧
      ¬ (⟨.vcclo, 4, 0⟩ : Acc).Supported 102 256 := by
  refine ⟨_, malformed_decode, rfl, by decide⟩

/-! ## the special registers outside the supported subset -/
namespace Dec
theorem regs_bytes_le8 : ∀ i ∈ regs.toList, i.bytes ≤ 8 := by decide +kernel
theorem byteSize_le8 (r : Nat) : byteSize r ≤ 8 := by
  unfold byteSize
  cases h : regs[r]? with
  | none => exact Nat.zero_le _
  | some i =>
    have : i ∈ regs := Array.mem_of_getElem? h
    exact regs_bytes_le8 i (Array.mem_toList_iff.mpr this)

theorem pad_toLE8 (x : Nat) (h : x < 2 ^ 64) : leNat (List.take 8 (toLE 8 x)) = x := by
  rw [List.take_of_length_le (by simp), leNat_toLE]; exact Nat.mod_eq_of_lt (by simpa using h)
theorem pad_toLE4 (x : Nat) (h : x < 2 ^ 32) : leNat (List.take 8 (copyInto 8 (toLE 4 x))) = x := by
  rw [List.take_of_length_le (by simp), copyInto, List.take_of_length_le (by simp), leNat_append_zeros, leNat_toLE]
  exact Nat.mod_eq_of_lt (by simpa using h)

theorem read_special_agree (e : EmuRF) (w : TWf) (t : TimingRF) (r k lane : Nat)
    (hS : isSReg r = false) (hV : isVReg r = false) (hk : k = 0 ∨ k = 2)
    (hag : e.vcc = w.vcc ∧ e.exec = w.exec ∧ e.scc = w.scc ∧ e.m0 = w.m0) (wo : Nat) :
    e.readRegOperand r k lane =
      (match t.readReg w r k lane wo with
       | .error f => .error f
       | .ok buf => .ok (leNat ((if buf.length < 8 then copyInto 8 buf else buf).take 8))) := by
  obtain ⟨h1, h2, h3, h4⟩ := hag
  have hvcc := pad_toLE8 w.vcc.toNat w.vcc.toNat_lt
  have hexec := pad_toLE8 w.exec.toNat w.exec.toNat_lt
  have hm0 := pad_toLE4 w.m0.toNat w.m0.toNat_lt
  have l1 := pad_toLE4 (lo32 w.vcc) (lo32_lt _)
  have l2 := pad_toLE4 (hi32 w.vcc) (hi32_lt _)
  have l3 := pad_toLE4 (lo32 w.exec) (lo32_lt _)
  have l4 := pad_toLE4 (hi32 w.exec) (hi32_lt _)
  unfold EmuRF.readRegOperand TimingRF.readReg
  simp only [hS, hV, Bool.false_eq_true, if_false, Bool.or_false]
  by_cases a1 : r = R_SCC
  · subst a1; simp [h3, copyInto, leNat, zeros]
  by_cases a2 : r = R_VCC
  · subst a2; simp [R_SCC, R_VCC, R_VCCLO, R_VCCHI, R_EXEC, R_EXECLO, R_EXECHI, R_M0, h1, hvcc]
  by_cases a3 : r = R_VCCLO
  · subst a3; rcases hk with rfl | rfl <;> simp [R_SCC, R_VCC, R_VCCLO, R_VCCHI, R_EXEC, R_EXECLO, R_EXECHI, R_M0, h1, hvcc, l1]
  by_cases a4 : r = R_VCCHI
  · subst a4; rcases hk with rfl | rfl <;> simp [R_SCC, R_VCC, R_VCCLO, R_VCCHI, R_EXEC, R_EXECLO, R_EXECHI, R_M0, h1, hvcc, l2]
  by_cases a5 : r = R_EXEC
  · subst a5; simp [R_SCC, R_VCC, R_VCCLO, R_VCCHI, R_EXEC, R_EXECLO, R_EXECHI, R_M0, h2, hexec]
  by_cases a6 : r = R_EXECLO
  · subst a6; rcases hk with rfl | rfl <;> simp [R_SCC, R_VCC, R_VCCLO, R_VCCHI, R_EXEC, R_EXECLO, R_EXECHI, R_M0, h2, hexec, l3]
  by_cases a7 : r = R_EXECHI
  · subst a7; rcases hk with rfl | rfl <;> simp [R_SCC, R_VCC, R_VCCLO, R_VCCHI, R_EXEC, R_EXECLO, R_EXECHI, R_M0, h2, hexec, l4]
  by_cases a8 : r = R_M0
  · subst a8; simp [R_SCC, R_VCC, R_VCCLO, R_VCCHI, R_EXEC, R_EXECLO, R_EXECHI, R_M0, h4, hm0]
  have hnb : ¬ numBytes r k > 64 := by
    have := byteSize_le8 r
    unfold numBytes; rcases hk with rfl | rfl <;> simp <;> omega
  simp [a1, a2, a3, a4, a5, a6, a7, a8, EmuRF.readReg, hS, hV, hnb]

/-- what "the two stores answer a write alike" means for the special registers -/
def WAgree (e : EmuRF) (t : TimingRF) (wi : Nat) (re : EmuRF × Option Fault) (rt : TimingRF × Option Fault) : Prop :=
  re.2 = rt.2 ∧ re.1.vcc = (rt.1.wf wi).vcc ∧ re.1.exec = (rt.1.wf wi).exec ∧ re.1.scc = (rt.1.wf wi).scc ∧
  re.1.m0 = (rt.1.wf wi).m0 ∧ re.1.sfile = e.sfile ∧ re.1.vfile = e.vfile ∧ rt.1.sfile = t.sfile ∧ rt.1.vfiles = t.vfiles

theorem wagree_refl (e : EmuRF) (t : TimingRF) (wi : Nat) (f : Option Fault)
    (hag : e.vcc = (t.wf wi).vcc ∧ e.exec = (t.wf wi).exec ∧ e.scc = (t.wf wi).scc ∧ e.m0 = (t.wf wi).m0) :
    WAgree e t wi (e, f) (t, f) := ⟨rfl, hag.1, hag.2.1, hag.2.2.1, hag.2.2.2, rfl, rfl, rfl, rfl⟩

theorem padTo8_of_le (d : List UInt8) (h : 8 ≤ d.length) : TimingRF.padTo8 d = d := by
  unfold TimingRF.padTo8; rw [if_pos h]

@[simp] theorem setWf_sfile (t : TimingRF) (wi : Nat) (w : TWf) : (t.setWf wi w).sfile = t.sfile := rfl
@[simp] theorem setWf_vfiles (t : TimingRF) (wi : Nat) (w : TWf) : (t.setWf wi w).vfiles = t.vfiles := rfl

theorem writeReg_special_agree (e : EmuRF) (t : TimingRF) (wi r k lane wo : Nat) (d : List UInt8)
    (hS : isSReg r = false) (hV : isVReg r = false) (hk : k = 0 ∨ k = 2)
    (hag : e.vcc = (t.wf wi).vcc ∧ e.exec = (t.wf wi).exec ∧ e.scc = (t.wf wi).scc ∧ e.m0 = (t.wf wi).m0)
    (hwi : wi < t.wfs.size) (hx : ¬ (r = R_EXECHI ∧ k = 2))
    (hd : d.length = numBytes r k) (hnb : numBytes r k ≤ 8) :
    WAgree e t wi (e.writeReg r k lane d) (t.writeReg wi r k lane wo d) := by
  have hw : t.wfs.getD wi default = t.wf wi := rfl
  obtain ⟨h1, h2, h3, h4⟩ := hag
  unfold EmuRF.writeReg TimingRF.writeReg
  simp only [hS, hV, Bool.false_eq_true, if_false, Bool.or_false, hw]
  by_cases a1 : r = R_SCC
  · subst a1
    cases d with
    | nil => simp [WAgree, h1, h2, h3, h4]
    | cons b bs => simp [WAgree, h1, h2, h3, h4, wf_setWf_same _ _ _ hwi]
  by_cases a2 : r = R_VCC
  · subst a2
    have hd8 : d.length = 8 := by
      rcases hk with rfl | rfl <;> simp [numBytes, R_VCC, bs_vcc] at hd hnb ⊢ <;> omega
    simp [R_SCC, R_VCC, R_VCCLO, R_VCCHI, R_EXEC, R_EXECLO, R_EXECHI, R_M0, TimingRF.write64, hd8, padTo8_of_le]
    cases hu : u64 d <;> simp [WAgree, h1, h2, h3, h4, wf_setWf_same _ _ _ hwi]
  by_cases a3 : r = R_VCCLO
  · subst a3
    rcases hk with rfl | rfl
    · have hd4 : d.length = 4 := by simpa [numBytes, R_VCCLO, bs_vcclo] using hd
      simp [R_SCC, R_VCC, R_VCCLO, R_VCCHI, R_EXEC, R_EXECLO, R_EXECHI, R_M0, TimingRF.write64, hd4, setLo]
      cases hu : u32 d <;> simp [WAgree, h1, h2, h3, h4, wf_setWf_same _ _ _ hwi]
      · simp [u32, hd4] at hu
    · have hd8 : d.length = 8 := by simpa [numBytes, R_VCCLO, bs_vcclo] using hd
      simp [R_SCC, R_VCC, R_VCCLO, R_VCCHI, R_EXEC, R_EXECLO, R_EXECHI, R_M0, TimingRF.write64, hd8, padTo8_of_le]
      cases hu : u64 d <;> simp [WAgree, h1, h2, h3, h4, wf_setWf_same _ _ _ hwi]
  by_cases a4 : r = R_VCCHI
  · subst a4
    rcases hk with rfl | rfl
    · have hd4 : d.length = 4 := by simpa [numBytes, R_VCCHI, bs_vcchi] using hd
      simp [R_SCC, R_VCC, R_VCCLO, R_VCCHI, R_EXEC, R_EXECLO, R_EXECHI, R_M0, TimingRF.write64, hd4, setHi]
      cases hu : u32 d <;> simp [WAgree, h1, h2, h3, h4, wf_setWf_same _ _ _ hwi]
      · simp [u32, hd4] at hu
      · exact UInt64.or_comm _ _
    · have hd8 : d.length = 8 := by simpa [numBytes, R_VCCHI, bs_vcchi] using hd
      simp [R_SCC, R_VCC, R_VCCLO, R_VCCHI, R_EXEC, R_EXECLO, R_EXECHI, R_M0, TimingRF.write64, hd8, padTo8_of_le]
      cases hu : u64 d <;> simp [WAgree, h1, h2, h3, h4, wf_setWf_same _ _ _ hwi]
  by_cases a5 : r = R_EXEC
  · subst a5
    have hd8 : d.length = 8 := by
      rcases hk with rfl | rfl <;> simp [numBytes, R_EXEC, bs_exec] at hd hnb ⊢ <;> omega
    simp [R_SCC, R_VCC, R_VCCLO, R_VCCHI, R_EXEC, R_EXECLO, R_EXECHI, R_M0, TimingRF.write64, hd8, padTo8_of_le]
    cases hu : u64 d <;> simp [WAgree, h1, h2, h3, h4, wf_setWf_same _ _ _ hwi]
  by_cases a6 : r = R_EXECLO
  · subst a6
    rcases hk with rfl | rfl
    · have hd4 : d.length = 4 := by simpa [numBytes, R_EXECLO, bs_execlo] using hd
      simp [R_SCC, R_VCC, R_VCCLO, R_VCCHI, R_EXEC, R_EXECLO, R_EXECHI, R_M0, TimingRF.write64, hd4, setLo]
      cases hu : u32 d <;> simp [WAgree, h1, h2, h3, h4, wf_setWf_same _ _ _ hwi]
      · simp [u32, hd4] at hu
    · have hd8 : d.length = 8 := by simpa [numBytes, R_EXECLO, bs_execlo] using hd
      simp [R_SCC, R_VCC, R_VCCLO, R_VCCHI, R_EXEC, R_EXECLO, R_EXECHI, R_M0, TimingRF.write64, hd8, padTo8_of_le]
      cases hu : u64 d <;> simp [WAgree, h1, h2, h3, h4, wf_setWf_same _ _ _ hwi]
  by_cases a7 : r = R_EXECHI
  · subst a7
    rcases hk with rfl | rfl
    · have hd4 : d.length = 4 := by simpa [numBytes, R_EXECHI, bs_exechi] using hd
      simp [R_SCC, R_VCC, R_VCCLO, R_VCCHI, R_EXEC, R_EXECLO, R_EXECHI, R_M0, TimingRF.write64, hd4, setHi]
      cases hu : u32 d <;> simp [WAgree, h1, h2, h3, h4, wf_setWf_same _ _ _ hwi]
      · simp [u32, hd4] at hu
      · exact UInt64.or_comm _ _
    · exact absurd ⟨rfl, rfl⟩ hx
  by_cases a8 : r = R_M0
  · subst a8
    simp [R_SCC, R_VCC, R_VCCLO, R_VCCHI, R_EXEC, R_EXECLO, R_EXECHI, R_M0]
    cases hu : u32 d <;> simp [WAgree, h1, h2, h3, h4, wf_setWf_same _ _ _ hwi]
  simp [a1, a2, a3, a4, a5, a6, a7, a8]
  exact wagree_refl e t wi _ ⟨h1, h2, h3, h4⟩

end Dec

/-- **every special-register operand an ALU instruction can carry is answered identically by both
    stores**, supported subset or not: for ANY register that is neither an SGPR nor a VGPR and `RegCount`
    0 or 2 (the counts of `decoded_operand_counts` outside SMEM), `ReadOperand` gives the same value or
    the same fault in both stores whenever the special registers agree; `WriteOperand` faults alike and
    leaves them agreeing — except the one operand `exec_hi` with count 2 (emulator "not supported",
    timing writes EXEC; `operand_fault_disagreements`). -/
theorem alu_special_operand_agree (e : EmuRF) (t : TimingRF) (wi r k lane : Nat)
    (hS : isSReg r = false) (hV : isVReg r = false) (hk : k = 0 ∨ k = 2)
    (hag : e.vcc = (t.wf wi).vcc ∧ e.exec = (t.wf wi).exec ∧ e.scc = (t.wf wi).scc ∧ e.m0 = (t.wf wi).m0)
    (hwi : wi < t.wfs.size) :
    e.readOperand r k lane = t.readOperand wi r k lane ∧
    (¬ (r = R_EXECHI ∧ k = 2) → ∀ v,
      (e.writeOperand r k lane v).2 = (t.writeOperand wi r k lane v).2 ∧
      (e.writeOperand r k lane v).1.vcc = ((t.writeOperand wi r k lane v).1.wf wi).vcc ∧
      (e.writeOperand r k lane v).1.exec = ((t.writeOperand wi r k lane v).1.wf wi).exec ∧
      (e.writeOperand r k lane v).1.scc = ((t.writeOperand wi r k lane v).1.wf wi).scc ∧
      (e.writeOperand r k lane v).1.m0 = ((t.writeOperand wi r k lane v).1.wf wi).m0 ∧
      (e.writeOperand r k lane v).1.sfile = e.sfile ∧ (e.writeOperand r k lane v).1.vfile = e.vfile ∧
      (t.writeOperand wi r k lane v).1.sfile = t.sfile ∧ (t.writeOperand wi r k lane v).1.vfiles = t.vfiles) := by
  refine ⟨?_, fun hx v => ?_⟩
  · exact Dec.read_special_agree e (t.wf wi) t r k lane hS hV hk hag _
  · show Dec.WAgree e t wi (e.writeOperand r k lane v) (t.writeOperand wi r k lane v)
    unfold EmuRF.writeOperand TimingRF.writeOperand
    by_cases hnb : numBytes r k > 8
    · simp only [hnb, if_true]; exact Dec.wagree_refl e t wi _ hag
    · simp only [hnb, if_false]
      exact Dec.writeReg_special_agree e t wi r k lane _ _ hS hV hk hag hwi hx (by simp; omega) (by omega)

end C07
