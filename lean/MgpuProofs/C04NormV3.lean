import MgpuProofs.C04Norm
/-! `norm_X` / `desc_X` for vop3a, vop3b -/
namespace C04
open Gen
set_option linter.unusedSimpArgs false
set_option linter.unusedVariables false

/-! ### small facts -/
theorem v3_a1 (w : Nat) : extractBits (clr w 13 14) 0 7 = extractBits w 0 7 := by ebclr
theorem v3_a2 (w : Nat) : extractBits (clr w 13 14) 8 10 = extractBits w 8 10 := by ebclr
theorem v3_a3 (w : Nat) : extractBits (clr w 13 14) 11 12 = extractBits w 11 12 := by ebclr
theorem v3_a4 (w : Nat) : extractBits (clr w 13 14) 15 15 = extractBits w 15 15 := by ebclr
theorem v3_b1 (w : Nat) : extractBits (clr w 11 14) 0 7 = extractBits w 0 7 := by ebclr
theorem v3_b2 (w : Nat) : extractBits (clr w 11 14) 8 10 = extractBits w 8 10 := by ebclr
theorem v3_b3 (w : Nat) : extractBits (clr w 11 14) 15 15 = extractBits w 15 15 := by ebclr
theorem v3_c1 (w : Nat) : extractBits (clr w 18 26) 0 8 = extractBits w 0 8 := by ebclr
theorem v3_c2 (w : Nat) : extractBits (clr w 18 26) 9 17 = extractBits w 9 17 := by ebclr
theorem v3_c3 (w : Nat) : extractBits (clr w 18 26) 27 28 = extractBits w 27 28 := by ebclr
theorem v3_c4 (w : Nat) : extractBits (clr w 18 26) 29 31 = extractBits w 29 31 := by ebclr
theorem v3_d1 (w : Nat) : extractBits (clr w 0 7) 8 14 = extractBits w 8 14 := by ebclr
theorem v3_d2 (w : Nat) : extractBits (clr w 0 7) 15 15 = extractBits w 15 15 := by ebclr

theorem v3_b2n (w : Nat) : b2n (extractBits w 15 15 != 0) = extractBits w 15 15 := by
  have := extractBits_lt w 15 15
  generalize extractBits w 15 15 = x at *
  have : x = 0 ∨ x = 1 := by omega
  rcases this with h | h <;> subst h <;> simp [b2n]

theorem v3_or_tab : ∀ a, a < 4 → ∀ b, b < 2 → (a ||| (b <<< 2)) / 4 = b := by decide

theorem v3_or (w0 w1 : Nat) :
    (extractBits w1 27 28 ||| (extractBits w0 14 14 <<< 2)) / 4 = extractBits w0 14 14 :=
  v3_or_tab _ (extractBits_lt w1 27 28) _ (extractBits_lt w0 14 14)

theorem v3_w1_full (w1 : Nat) (h1 : w1 < 2 ^ 32) :
    extractBits w1 29 31 * 2 ^ 29 + extractBits w1 27 28 * 2 ^ 27 + extractBits w1 18 26 * 2 ^ 18 +
      extractBits w1 9 17 * 2 ^ 9 + extractBits w1 0 8 = w1 := by
  unfold extractBits; omega

theorem v3_w1_clr (w1 : Nat) (h1 : w1 < 2 ^ 32) :
    extractBits w1 29 31 * 2 ^ 29 + extractBits w1 27 28 * 2 ^ 27 + 0 * 2 ^ 18 +
      extractBits w1 9 17 * 2 ^ 9 + extractBits w1 0 8 = clr w1 18 26 := by
  unfold clr extractBits; omega

theorem v3a_w0_944 (w0 : Nat) (hw0 : w0 < 2 ^ 32) (henc : w0 / 2 ^ 26 = 52) :
    3489660928 + extractBits w0 16 25 * 2 ^ 16 + extractBits w0 15 15 * 2 ^ 15 +
      (extractBits w0 11 13 + extractBits w0 14 14 * 8) * 2 ^ 11 + extractBits w0 8 10 * 2 ^ 8 +
      extractBits w0 0 7 = w0 := by
  unfold extractBits; omega

theorem v3a_w0_945 (w0 : Nat) (hw0 : w0 < 2 ^ 32) (henc : w0 / 2 ^ 26 = 52) :
    3489660928 + extractBits w0 16 25 * 2 ^ 16 + extractBits w0 15 15 * 2 ^ 15 +
      extractBits w0 11 12 * 2 ^ 11 + extractBits w0 8 10 * 2 ^ 8 +
      extractBits w0 0 7 = clr w0 13 14 := by
  unfold clr extractBits; omega

theorem v3a_w0_oth (w0 : Nat) (hw0 : w0 < 2 ^ 32) (henc : w0 / 2 ^ 26 = 52) :
    3489660928 + extractBits w0 16 25 * 2 ^ 16 + extractBits w0 15 15 * 2 ^ 15 +
      0 * 2 ^ 11 + extractBits w0 8 10 * 2 ^ 8 +
      extractBits w0 0 7 = clr w0 11 14 := by
  unfold clr extractBits; omega

theorem v3b_w0_full (w0 : Nat) (hw0 : w0 < 2 ^ 32) (henc : w0 / 2 ^ 26 = 52) :
    3489660928 + extractBits w0 16 25 * 2 ^ 16 + extractBits w0 15 15 * 2 ^ 15 +
      extractBits w0 8 14 * 2 ^ 8 + extractBits w0 0 7 = w0 := by
  unfold extractBits; omega

theorem v3b_w0_clr (w0 : Nat) (hw0 : w0 < 2 ^ 32) (henc : w0 / 2 ^ 26 = 52) :
    3489660928 + extractBits w0 16 25 * 2 ^ 16 + extractBits w0 15 15 * 2 ^ 15 +
      extractBits w0 8 14 * 2 ^ 8 + 0 = clr w0 0 7 := by
  unfold clr extractBits; omega

/-! ### VOP3a -/
theorem norm_vop3a (c : Bool) (f : Format) (row : Row) (w0 : Nat) (w1? : Option Nat)
    (hf : f.ft = FT_VOP3a) (hsz : f.size = 8) (hw0 : w0 < 2 ^ 32) (hw1 : ∀ w1, w1? = some w1 → w1 < 2 ^ 32) :
    decodeRow c f row (normRow c f.ft row w0 w1?).1 (normRow c f.ft row w0 w1?).2 = decodeRow c f row w0 w1? := by
  cases w1? with
  | none => simp [decodeRow, hsz, normRow, hf, FT_SMEM, FT_VOP3a, FT_VOP3b, FT_DS, FT_FLAT, FT_VOP2]
  | some w1 =>
    unfold decodeRow
    simp only [hsz, normRow, hf, FT_SMEM, FT_VOP3a, FT_VOP3b, FT_DS, FT_FLAT, FT_VOP2, FT_SOP2, Nat.reduceBEq, Bool.false_eq_true,
      if_false, BEq.rfl, if_true, Option.map_some, dec8, decodeVOP3a, Option.getD_some]
    cases hA : (row.opcode == 944) <;> cases hB : (945 ≤ row.opcode && row.opcode ≤ 946) <;>
      cases hS : (row.src2W != 0) <;>
      simp only [hA, hB, hS, Bool.false_eq_true, if_false, if_true,
        v3_a1, v3_a2, v3_a3, v3_a4, v3_b1, v3_b2, v3_b3, v3_c1, v3_c2, v3_c3, v3_c4]

theorem desc_vop3a (c : Bool) (f : Format) (row : Row) (w0 : Nat) (w1? : Option Nat) (i : Inst)
    (hf : f.ft = FT_VOP3a) (hsz : f.size = 8) (hw0 : w0 < 2 ^ 32) (hw1 : ∀ w1, w1? = some w1 → w1 < 2 ^ 32)
    (henc : w0 / 2 ^ 26 = 52) (hop : extractBits w0 16 25 = row.opcode)
    (h : decodeRow c f row w0 w1? = .ok i) :
    encWord (descOf c i) = (normRow c f.ft row w0 w1?).1 ∧ encSecond (descOf c i) = (normRow c f.ft row w0 w1?).2 := by
  cases w1? with
  | none => simp [decodeRow, hsz] at h
  | some w1 =>
    have h1 := hw1 w1 rfl
    unfold decodeRow at h
    simp only [hsz, hf, FT_SMEM, FT_VOP3a, FT_VOP3b, FT_DS, FT_FLAT, FT_VOP2, FT_SOP2, Nat.reduceBEq, Bool.false_eq_true,
      if_false, BEq.rfl, if_true, dec8, decodeVOP3a, Option.getD_some] at h
    cases hgd : (if row.opcode ≤ 255 then getOperand (extractBits w0 0 7)
        else some (vreg (extractBits w0 0 7) (extractBits w0 0 7) 0)) with
    | none => simp [hgd, Outcome.setSize] at h
    | some od =>
    have hdc : od.code = extractBits w0 0 7 := by
      by_cases hle : row.opcode ≤ 255
      · simp only [hle, if_true] at hgd
        exact getOperand_code (by have := extractBits_lt w0 0 7; omega) hgd
      · simp only [hle, if_false, Option.some.injEq] at hgd
        rw [← hgd]; rfl
    cases hg0 : getOperand (extractBits w1 0 8) with
    | none => simp [hgd, hg0, Outcome.setSize] at h
    | some o0 =>
    have h0c : o0.code = extractBits w1 0 8 :=
      getOperand_code (by have := extractBits_lt w1 0 8; omega) hg0
    cases hg1 : getOperand (extractBits w1 9 17) with
    | none => simp [hgd, hg0, hg1, Outcome.setSize] at h
    | some o1 =>
    have h1c : o1.code = extractBits w1 9 17 :=
      getOperand_code (by have := extractBits_lt w1 9 17; omega) hg1
    simp only [hgd, hg0, hg1] at h
    cases hS : (row.src2W != 0) with
    | false =>
      simp only [hS, Bool.false_eq_true, if_false] at h
      cases hA : (row.opcode == 944) <;> cases hB : (945 ≤ row.opcode && row.opcode ≤ 946) <;>
        simp only [hA, hB, Bool.false_eq_true, if_false, if_true, Outcome.setSize, Outcome.ok.injEq] at h <;>
        subst h <;> refine ⟨?_, ?_⟩ <;>
        simp only [descOf, encWord, encSecond, hiWord, normRow, hf, FT_SOP2, FT_SOPK, FT_SOP1, FT_SOPC, FT_SOPP, FT_SMEM, FT_VOP2, FT_VOP1, FT_VOPC,
          FT_VOP3a, FT_VOP3b, FT_FLAT, FT_DS, Nat.reduceBEq, Bool.false_eq_true, if_false, BEq.rfl, if_true, Bool.or_false, Bool.or_true,
          Bool.false_or, Bool.true_or, Option.map_some, Option.some.injEq, hA, hB, hS,
          v3_b2n, v3_or, ocode, with64_code, hdc, h0c, h1c] <;>
        first
          | with_reducible exact v3_w1_full w1 h1
          | with_reducible exact v3_w1_clr w1 h1
          | (rw [← hop]; first
              | with_reducible exact v3a_w0_944 w0 hw0 henc
              | with_reducible exact v3a_w0_945 w0 hw0 henc
              | with_reducible exact v3a_w0_oth w0 hw0 henc)
    | true =>
      simp only [hS, if_true] at h
      cases hg2 : getOperand (extractBits w1 18 26) with
      | none => simp [hg2, Outcome.setSize] at h
      | some o2 =>
      have h2c : o2.code = extractBits w1 18 26 :=
        getOperand_code (by have := extractBits_lt w1 18 26; omega) hg2
      simp only [hg2] at h
      cases hA : (row.opcode == 944) <;> cases hB : (945 ≤ row.opcode && row.opcode ≤ 946) <;>
        simp only [hA, hB, Bool.false_eq_true, if_false, if_true, Outcome.setSize, Outcome.ok.injEq] at h <;>
        subst h <;> refine ⟨?_, ?_⟩ <;>
        simp only [descOf, encWord, encSecond, hiWord, normRow, hf, FT_SOP2, FT_SOPK, FT_SOP1, FT_SOPC, FT_SOPP, FT_SMEM, FT_VOP2, FT_VOP1, FT_VOPC,
          FT_VOP3a, FT_VOP3b, FT_FLAT, FT_DS, Nat.reduceBEq, Bool.false_eq_true, if_false, BEq.rfl, if_true, Bool.or_false, Bool.or_true,
          Bool.false_or, Bool.true_or, Option.map_some, Option.some.injEq, hA, hB, hS,
          v3_b2n, v3_or, ocode, with64_code, hdc, h0c, h1c, h2c] <;>
        first
          | with_reducible exact v3_w1_full w1 h1
          | with_reducible exact v3_w1_clr w1 h1
          | (rw [← hop]; first
              | with_reducible exact v3a_w0_944 w0 hw0 henc
              | with_reducible exact v3a_w0_945 w0 hw0 henc
              | with_reducible exact v3a_w0_oth w0 hw0 henc)

theorem norm_vop3b (c : Bool) (f : Format) (row : Row) (w0 : Nat) (w1? : Option Nat)
    (hf : f.ft = FT_VOP3b) (hsz : f.size = 8) (hw0 : w0 < 2 ^ 32) (hw1 : ∀ w1, w1? = some w1 → w1 < 2 ^ 32) :
    decodeRow c f row (normRow c f.ft row w0 w1?).1 (normRow c f.ft row w0 w1?).2 = decodeRow c f row w0 w1? := by
  cases w1? with
  | none => simp [decodeRow, hsz, normRow, hf, FT_SMEM, FT_VOP3a, FT_VOP3b, FT_DS, FT_FLAT, FT_VOP2]
  | some w1 =>
    unfold decodeRow
    simp only [hsz, normRow, hf, FT_SMEM, FT_VOP3a, FT_VOP3b, FT_DS, FT_FLAT, FT_VOP2, FT_SOP2, Nat.reduceBEq, Bool.false_eq_true,
      if_false, BEq.rfl, if_true, Option.map_some, dec8, decodeVOP3b, Option.getD_some]
    by_cases hA : row.opcode > 255 <;> cases hS : (decide (row.src2W > 0)) <;>
      simp only [hA, hS, decide_true, decide_false, Bool.and_true, Bool.and_false, Bool.true_and, Bool.false_and,
        Bool.false_eq_true, if_false, if_true,
        v3_d1, v3_d2, v3_c1, v3_c2, v3_c3, v3_c4]

theorem desc_vop3b (c : Bool) (f : Format) (row : Row) (w0 : Nat) (w1? : Option Nat) (i : Inst)
    (hf : f.ft = FT_VOP3b) (hsz : f.size = 8) (hw0 : w0 < 2 ^ 32) (hw1 : ∀ w1, w1? = some w1 → w1 < 2 ^ 32)
    (henc : w0 / 2 ^ 26 = 52) (hop : extractBits w0 16 25 = row.opcode)
    (h : decodeRow c f row w0 w1? = .ok i) :
    encWord (descOf c i) = (normRow c f.ft row w0 w1?).1 ∧ encSecond (descOf c i) = (normRow c f.ft row w0 w1?).2 := by
  cases w1? with
  | none => simp [decodeRow, hsz] at h
  | some w1 =>
    have h1 := hw1 w1 rfl
    unfold decodeRow at h
    simp only [hsz, hf, FT_SMEM, FT_VOP3a, FT_VOP3b, FT_DS, FT_FLAT, FT_VOP2, FT_SOP2, Nat.reduceBEq, Bool.false_eq_true,
      if_false, BEq.rfl, if_true, dec8, decodeVOP3b, Option.getD_some] at h
    cases hgs : getOperand (extractBits w0 8 14) with
    | none => simp [hgs, Outcome.setSize] at h
    | some os =>
    have hsc : os.code = extractBits w0 8 14 :=
      getOperand_code (by have := extractBits_lt w0 8 14; omega) hgs
    cases hg0 : getOperand (extractBits w1 0 8) with
    | none => simp [hgs, hg0, Outcome.setSize] at h
    | some o0 =>
    have h0c : o0.code = extractBits w1 0 8 :=
      getOperand_code (by have := extractBits_lt w1 0 8; omega) hg0
    cases hg1 : getOperand (extractBits w1 9 17) with
    | none => simp [hgs, hg0, hg1, Outcome.setSize] at h
    | some o1 =>
    have h1c : o1.code = extractBits w1 9 17 :=
      getOperand_code (by have := extractBits_lt w1 9 17; omega) hg1
    simp only [hgs, hg0, hg1] at h
    by_cases hA : row.opcode > 255
    · cases hS : (decide (row.src2W > 0)) with
      | false =>
        simp only [hA, hS, decide_true, decide_false, Bool.and_true, Bool.and_false, Bool.true_and, Bool.false_and,
          Bool.false_eq_true, if_false, if_true, Outcome.setSize, Outcome.ok.injEq] at h
        subst h
        refine ⟨?_, ?_⟩ <;>
        simp only [descOf, encWord, encSecond, hiWord, normRow, hf, FT_SOP2, FT_SOPK, FT_SOP1, FT_SOPC, FT_SOPP, FT_SMEM, FT_VOP2, FT_VOP1, FT_VOPC,
          FT_VOP3a, FT_VOP3b, FT_FLAT, FT_DS, Nat.reduceBEq, Bool.false_eq_true, if_false, BEq.rfl, if_true, Bool.or_false, Bool.or_true,
          Bool.false_or, Bool.true_or, Option.map_some, Option.some.injEq, hA, hS,
          decide_true, decide_false, Bool.and_true, Bool.and_false, Bool.true_and, Bool.false_and,
          v3_b2n, ocode, with64_code, vreg_code, hsc, h0c, h1c] <;>
        first
          | with_reducible exact v3_w1_full w1 h1
          | with_reducible exact v3_w1_clr w1 h1
          | (rw [← hop]; first
              | with_reducible exact v3b_w0_full w0 hw0 henc
              | with_reducible exact v3b_w0_clr w0 hw0 henc)
      | true =>
        simp only [hA, hS, decide_true, decide_false, Bool.and_true, Bool.and_false, Bool.true_and, Bool.false_and,
          Bool.false_eq_true, if_false, if_true] at h
        cases hg2 : getOperand (extractBits w1 18 26) with
        | none => simp [hg2, Outcome.setSize] at h
        | some o2 =>
        have h2c : o2.code = extractBits w1 18 26 :=
          getOperand_code (by have := extractBits_lt w1 18 26; omega) hg2
        simp only [hg2, Outcome.setSize, Outcome.ok.injEq] at h
        subst h
        refine ⟨?_, ?_⟩ <;>
        simp only [descOf, encWord, encSecond, hiWord, normRow, hf, FT_SOP2, FT_SOPK, FT_SOP1, FT_SOPC, FT_SOPP, FT_SMEM, FT_VOP2, FT_VOP1, FT_VOPC,
          FT_VOP3a, FT_VOP3b, FT_FLAT, FT_DS, Nat.reduceBEq, Bool.false_eq_true, if_false, BEq.rfl, if_true, Bool.or_false, Bool.or_true,
          Bool.false_or, Bool.true_or, Option.map_some, Option.some.injEq, hA, hS,
          decide_true, decide_false, Bool.and_true, Bool.and_false, Bool.true_and, Bool.false_and,
          v3_b2n, ocode, with64_code, vreg_code, hsc, h0c, h1c, h2c] <;>
        first
          | with_reducible exact v3_w1_full w1 h1
          | with_reducible exact v3_w1_clr w1 h1
          | (rw [← hop]; first
              | with_reducible exact v3b_w0_full w0 hw0 henc
              | with_reducible exact v3b_w0_clr w0 hw0 henc)
    · simp only [hA, decide_true, decide_false, Bool.and_true, Bool.and_false, Bool.true_and, Bool.false_and,
        Bool.false_eq_true, if_false, if_true, Outcome.setSize, Outcome.ok.injEq] at h
      subst h
      refine ⟨?_, ?_⟩ <;>
      simp only [descOf, encWord, encSecond, hiWord, normRow, hf, FT_SOP2, FT_SOPK, FT_SOP1, FT_SOPC, FT_SOPP, FT_SMEM, FT_VOP2, FT_VOP1, FT_VOPC,
        FT_VOP3a, FT_VOP3b, FT_FLAT, FT_DS, Nat.reduceBEq, Bool.false_eq_true, if_false, BEq.rfl, if_true, Bool.or_false, Bool.or_true,
        Bool.false_or, Bool.true_or, Option.map_some, Option.some.injEq, hA,
        decide_true, decide_false, Bool.and_true, Bool.and_false, Bool.true_and, Bool.false_and,
        v3_b2n, ocode, with64_code, vreg_code, hsc, h0c, h1c] <;>
      first
        | with_reducible exact v3_w1_full w1 h1
        | with_reducible exact v3_w1_clr w1 h1
        | (rw [← hop]; first
            | with_reducible exact v3b_w0_full w0 hw0 henc
            | with_reducible exact v3b_w0_clr w0 hw0 henc)

end C04
