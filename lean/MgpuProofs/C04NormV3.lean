import MgpuProofs.C04Norm
/-! `norm_X` / `desc_X` for vop3a, vop3b -/
namespace C04
open Gen
set_option linter.unusedSimpArgs false
set_option linter.unusedVariables false

theorem norm_vop3a (c : Bool) (f : Format) (row : Row) (w0 : Nat) (w1? : Option Nat)
    (hf : f.ft = FT_VOP3a) (hsz : f.size = 8) (hw0 : w0 < 2 ^ 32) (hw1 : ∀ w1, w1? = some w1 → w1 < 2 ^ 32) :
    decodeRow c f row (normRow c f.ft row w0 w1?).1 (normRow c f.ft row w0 w1?).2 = decodeRow c f row w0 w1? := by
  sorry

theorem desc_vop3a (c : Bool) (f : Format) (row : Row) (w0 : Nat) (w1? : Option Nat) (i : Inst)
    (hf : f.ft = FT_VOP3a) (hsz : f.size = 8) (hw0 : w0 < 2 ^ 32) (hw1 : ∀ w1, w1? = some w1 → w1 < 2 ^ 32)
    (henc : w0 / 2 ^ 26 = 52) (hop : extractBits w0 16 25 = row.opcode)
    (h : decodeRow c f row w0 w1? = .ok i) :
    encWord (descOf c i) = (normRow c f.ft row w0 w1?).1 ∧ encSecond (descOf c i) = (normRow c f.ft row w0 w1?).2 := by
  sorry

theorem norm_vop3b (c : Bool) (f : Format) (row : Row) (w0 : Nat) (w1? : Option Nat)
    (hf : f.ft = FT_VOP3b) (hsz : f.size = 8) (hw0 : w0 < 2 ^ 32) (hw1 : ∀ w1, w1? = some w1 → w1 < 2 ^ 32) :
    decodeRow c f row (normRow c f.ft row w0 w1?).1 (normRow c f.ft row w0 w1?).2 = decodeRow c f row w0 w1? := by
  sorry

theorem desc_vop3b (c : Bool) (f : Format) (row : Row) (w0 : Nat) (w1? : Option Nat) (i : Inst)
    (hf : f.ft = FT_VOP3b) (hsz : f.size = 8) (hw0 : w0 < 2 ^ 32) (hw1 : ∀ w1, w1? = some w1 → w1 < 2 ^ 32)
    (henc : w0 / 2 ^ 26 = 52) (hop : extractBits w0 16 25 = row.opcode)
    (h : decodeRow c f row w0 w1? = .ok i) :
    encWord (descOf c i) = (normRow c f.ft row w0 w1?).1 ∧ encSecond (descOf c i) = (normRow c f.ft row w0 w1?).2 := by
  sorry

end C04
