import MgpuProofs.C11CpTr
/-! Invariants of the command processor: acknowledgement counting and the flush acceptor (`InvFlush`),
requests taken from the driver port (`InvPop`), answers (`InvRsp`). -/
namespace C11

attribute [local simp] filterMap_single CpEv.isFwd CpEv.isAck CpEv.cacheIdx? CpEv.flushStart? CpEv.flushDone?
  CpEv.popped? CpEv.clone? CpEv.fwdCid? CpEv.rsp? CpEv.doneOrig? CpEv.dropped

/-! ## `InvFlush` -/

structure InvFlush (e : CpEnv) : Prop where
  acks : e.s.numAck = e.s.cacheOut.length + e.atCaches.length + e.s.cacheIn.length
  spec : ∃ q, specRun e.s.nCaches {} e.s.log = some q ∧ q.waiting = e.s.numAck ∧
    (e.s.fault = none → (e.s.numAck = 0 → q.cur = none) ∧
      (0 < e.s.numAck → q.cur = e.s.curFlush ∧ q.cur.isSome = true ∧ q.asked.length = e.s.nCaches))

theorem InvFlush.of_eq {e e' : CpEnv} (h : InvFlush e) (h1 : e'.s.numAck = e.s.numAck)
    (h2 : e'.s.cacheOut.length + e'.atCaches.length + e'.s.cacheIn.length =
      e.s.cacheOut.length + e.atCaches.length + e.s.cacheIn.length)
    (h3 : e'.s.nCaches = e.s.nCaches) (h4 : e'.s.log = e.s.log) (h5 : e'.s.fault = e.s.fault)
    (h6 : e'.s.curFlush = e.s.curFlush) : InvFlush e' := by
  obtain ⟨a, b⟩ := h
  constructor
  · rw [h1, h2]; exact a
  · rw [h1, h3, h4, h5, h6]; exact b

theorem spec_flushAsk {n : Nat} {log : List CpEv} {q : FlushSpec} (f : Nat) {k : Nat}
    (hr : specRun n {} log = some q) (hc : q.cur = none) (hw : q.waiting = 0) (hk : k ≤ n) :
    specRun n {} (log ++ .flushStart f :: (List.range k).map CpEv.cacheReq) =
      some { cur := some f, waiting := k, asked := List.range k } := by
  rw [specRun_append, hr]
  simp only [Option.bind_some, specRun, specStep, hc, hw, and_self, if_true]
  have := specRun_cacheReqs n f k 0 0 (by omega)
  simp only [List.range_zero, Nat.zero_add] at this
  rw [← List.range_eq_range'] at this
  rw [this]

theorem InvFlush.init (n cin cdrv cdma ccache : Nat) : InvFlush (CpEnv.init n cin cdrv cdma ccache) :=
  ⟨rfl, {}, rfl, rfl, fun _ => ⟨fun _ => rfl, fun h => absurd h (Nat.lt_irrefl 0)⟩⟩

theorem InvFlush.tr {e e' : CpEnv} (h : InvFlush e) (t : CpTr e e') : InvFlush e' := by
  obtain ⟨ha, q, hq, hw, hg⟩ := h
  cases t with
  | flushFault m rest k hf hd hn hk hkn hcap =>
    have hq' := spec_flushAsk m.id hq ((hg hf).1 hn) (hw.trans hn) (Nat.le_of_lt hkn)
    refine ⟨?_, _, hq', rfl, ?_⟩
    · simp [Cp.flushAsk]; omega
    · intro h; cases h
  | flushOk m rest hf hd hn hk hpos =>
    have hq' := spec_flushAsk m.id hq ((hg hf).1 hn) (hw.trans hn) (Nat.le_refl _)
    refine ⟨?_, _, hq', rfl, ?_⟩
    · simp [Cp.flushAsk]; omega
    · intro _
      refine ⟨fun h0 => ?_, fun _ => ⟨rfl, rfl, by simp [Cp.flushAsk]⟩⟩
      have : e.s.nCaches = 0 := h0
      omega
  | flushZero m rest b hf hd hn hk hz hb =>
    refine ⟨?_, {}, ?_, ?_, ?_⟩
    · simpa using ha
    · show specRun e.s.nCaches {} (e.s.log ++ [.flushStart m.id, .flushDone m.id b]) = some {}
      rw [specRun_append, hq]
      simp [specRun, specStep, (hg hf).1 hn, hw.trans hn, hz]
    · exact hn.symm
    · intro _; exact ⟨fun _ => rfl, fun h => by have : 0 < e.s.numAck := h; omega⟩
  | copy m rest b hf hd hn hk hb =>
    refine ⟨by simpa [Cp.copyFwd] using ha, q, ?_, hw, hg⟩
    show specRun e.s.nCaches {} (e.s.log ++ [.fwd m.id e.s.nextCid m.kind b]) = some q
    rw [specRun_snoc hq]
    simp [specStep, (hg hf).1 hn, hw.trans hn]
  | done c rest o k b hf hd hl hb =>
    refine ⟨by simpa [Cp.copyDone] using ha, q, ?_, hw, hg⟩
    show specRun e.s.nCaches {} (e.s.log ++ [.done o c k b]) = some q
    rw [specRun_snoc hq]
    rfl
  | never c rest hf hd hH hD =>
    exact ⟨ha, q, hq, hw, fun h => by cases h⟩
  | ackDec x rest n' hf hd hn hz =>
    have hpos : 0 < e.s.numAck := by rw [ha, hd]; simp; omega
    have hn' := hn hpos
    refine ⟨?_, { q with waiting := q.waiting - 1 }, ?_, ?_, ?_⟩
    · simp only [CpEnv.withS_s, CpEnv.withS_atCaches]
      rw [hd] at ha; simp at ha; omega
    · show specRun e.s.nCaches {} (e.s.log ++ [.ack]) = _
      rw [specRun_snoc hq]
      simp [specStep, hw, hpos]
    · show q.waiting - 1 = n'
      omega
    · intro _
      refine ⟨fun h0 => absurd h0 hz, fun _ => (hg hf).2 hpos⟩
  | nilderef x rest n' hf hd hn hz hc =>
    have hpos : 0 < e.s.numAck := by rw [ha, hd]; simp; omega
    have hn' := hn hpos
    refine ⟨?_, { q with waiting := q.waiting - 1 }, ?_, ?_, ?_⟩
    · simp only [CpEnv.withS_s, CpEnv.withS_atCaches]
      rw [hd] at ha; simp at ha; omega
    · show specRun e.s.nCaches {} (e.s.log ++ [.ack]) = _
      rw [specRun_snoc hq]
      simp [specStep, hw, hpos]
    · show q.waiting - 1 = n'
      omega
    · intro h; cases h
  | ackFinal x rest n' f b hf hd hn hz hc hb =>
    have hpos : 0 < e.s.numAck := by rw [ha, hd]; simp; omega
    have hn' := hn hpos
    obtain ⟨g1, g2, g3⟩ := (hg hf).2 hpos
    refine ⟨?_, {}, ?_, rfl, ?_⟩
    · simp only [CpEnv.withS_s, CpEnv.withS_atCaches]
      rw [hd] at ha; simp at ha; omega
    · show specRun e.s.nCaches {} (e.s.log ++ [.ack, .flushDone f b]) = some {}
      rw [specRun_append, hq]
      have h1 : q.waiting = 1 := by omega
      simp [specRun, specStep, h1, g1, hc, g3]
    · intro _; exact ⟨fun _ => rfl, fun h => absurd h (Nat.lt_irrefl 0)⟩
  | req k h => exact InvFlush.of_eq ⟨ha, q, hq, hw, hg⟩ rfl rfl rfl rfl rfl rfl
  | takeDma k => exact InvFlush.of_eq ⟨ha, q, hq, hw, hg⟩ rfl rfl rfl rfl rfl rfl
  | takeCache k =>
    refine InvFlush.of_eq ⟨ha, q, hq, hw, hg⟩ rfl ?_ rfl rfl rfl rfl
    simp only [List.length_append, List.length_drop, List.length_take]; omega
  | takeDrv k => exact InvFlush.of_eq ⟨ha, q, hq, hw, hg⟩ rfl rfl rfl rfl rfl rfl
  | ackEnv j x hj =>
    refine InvFlush.of_eq ⟨ha, q, hq, hw, hg⟩ rfl ?_ rfl rfl rfl rfl
    simp only [List.length_append, List.length_eraseIdx, hj, if_true, List.length_singleton]; omega
  | rspEnv j c hj => exact InvFlush.of_eq ⟨ha, q, hq, hw, hg⟩ rfl rfl rfl rfl rfl rfl

/-! ## `InvPop`: the requests taken from the driver port -/

structure InvPop (e : CpEnv) : Prop where
  ids : e.sent.map (·.id) = List.range e.sent.length
  popped : ∃ r, e.sent = e.s.log.filterMap CpEv.popped? ++ r ∧ (e.s.fault = none → r = e.s.drvIn)

theorem InvPop.init (n cin cdrv cdma ccache : Nat) : InvPop (CpEnv.init n cin cdrv cdma ccache) :=
  ⟨rfl, [], rfl, fun _ => rfl⟩

theorem InvPop.of_eq {e e' : CpEnv} (h : InvPop e) (h1 : e'.sent = e.sent)
    (h2 : e'.s.log.filterMap CpEv.popped? = e.s.log.filterMap CpEv.popped?)
    (h3 : e'.s.fault = none → e.s.fault = none ∧ e'.s.drvIn = e.s.drvIn) : InvPop e' := by
  obtain ⟨a, r, b, c⟩ := h
  refine ⟨by rw [h1]; exact a, r, by rw [h1, h2]; exact b, fun hf => ?_⟩
  rw [(h3 hf).2]; exact c (h3 hf).1

theorem filterMap_popped_cacheReq (l : List Nat) : (l.map CpEv.cacheReq).filterMap CpEv.popped? = [] := by
  induction l with
  | nil => rfl
  | cons a l ih => simp [List.filterMap_cons]

theorem InvPop.tr {e e' : CpEnv} (h : InvPop e) (t : CpTr e e') : InvPop e' := by
  obtain ⟨ha, r, hr, hg⟩ := h
  have hm : ∀ m : CpMsg, m.kind = .flush → (⟨m.id, .flush⟩ : CpMsg) = m := by
    intro m hk; cases m; simp_all
  cases t with
  | flushFault m rest k hf hd hn hk hkn hcap =>
    refine ⟨ha, rest, ?_, fun h => by cases h⟩
    have := hg hf
    simp [Cp.flushAsk, List.filterMap_append, hr, this, hd, hm m hk]
  | flushOk m rest hf hd hn hk hpos =>
    refine ⟨ha, rest, ?_, fun _ => rfl⟩
    have := hg hf
    simp [Cp.flushAsk, List.filterMap_append, hr, this, hd, hm m hk]
  | flushZero m rest b hf hd hn hk hz hb =>
    refine ⟨ha, rest, ?_, fun _ => rfl⟩
    have := hg hf
    simp [List.filterMap_append, List.filterMap_cons, hr, this, hd, hm m hk]
  | copy m rest b hf hd hn hk hb =>
    refine ⟨ha, rest, ?_, fun _ => rfl⟩
    have := hg hf
    simp [Cp.copyFwd, List.filterMap_append, hr, this, hd]
  | done c rest o k b hf hd hl hb =>
    exact InvPop.of_eq ⟨ha, r, hr, hg⟩ rfl (by simp [Cp.copyDone, List.filterMap_append]) (fun h => ⟨h, rfl⟩)
  | never c rest hf hd hH hD =>
    exact InvPop.of_eq ⟨ha, r, hr, hg⟩ rfl rfl (fun h => by cases h)
  | ackDec x rest n' hf hd hn hz =>
    exact InvPop.of_eq ⟨ha, r, hr, hg⟩ rfl (by simp [List.filterMap_append]) (fun h => ⟨h, rfl⟩)
  | nilderef x rest n' hf hd hn hz hc =>
    exact InvPop.of_eq ⟨ha, r, hr, hg⟩ rfl (by simp [List.filterMap_append]) (fun h => by cases h)
  | ackFinal x rest n' f b hf hd hn hz hc hb =>
    exact InvPop.of_eq ⟨ha, r, hr, hg⟩ rfl (by simp [List.filterMap_append, List.filterMap_cons])
      (fun h => ⟨h, rfl⟩)
  | req k h =>
    refine ⟨?_, r ++ [⟨e.sent.length, k⟩], ?_, fun hf => ?_⟩
    · simp [List.range_succ, ha]
    · simp [hr, List.append_assoc]
    · have : e.s.fault = none := hf
      simp [hg this]
  | takeDma k => exact InvPop.of_eq ⟨ha, r, hr, hg⟩ rfl rfl (fun h => ⟨h, rfl⟩)
  | takeCache k => exact InvPop.of_eq ⟨ha, r, hr, hg⟩ rfl rfl (fun h => ⟨h, rfl⟩)
  | takeDrv k => exact InvPop.of_eq ⟨ha, r, hr, hg⟩ rfl rfl (fun h => ⟨h, rfl⟩)
  | ackEnv j x hj => exact InvPop.of_eq ⟨ha, r, hr, hg⟩ rfl rfl (fun h => ⟨h, rfl⟩)
  | rspEnv j c hj => exact InvPop.of_eq ⟨ha, r, hr, hg⟩ rfl rfl (fun h => ⟨h, rfl⟩)

/-- ids of the requests taken from the driver port are pairwise distinct -/
theorem InvPop.popped_nodup {e : CpEnv} (h : InvPop e) :
    ((e.s.log.filterMap CpEv.popped?).map (·.id)).Nodup := by
  obtain ⟨ha, r, hr, _⟩ := h
  have h1 : (e.sent.map (·.id)).Nodup := by rw [ha]; exact List.nodup_range
  rw [hr, List.map_append] at h1
  exact (List.nodup_append.1 h1).1

/-! ## `InvRsp`: the answers handed to ToDriver -/

structure InvRsp (e : CpEnv) : Prop where
  rsps : e.drained ++ e.s.drvOut = e.s.log.filterMap CpEv.rsp?

theorem InvRsp.init (n cin cdrv cdma ccache : Nat) : InvRsp (CpEnv.init n cin cdrv cdma ccache) := ⟨rfl⟩

theorem InvRsp.tr {e e' : CpEnv} (h : InvRsp e) (t : CpTr e e') : InvRsp e' := by
  obtain ⟨ha⟩ := h
  have hc : ∀ l : List Nat, (l.map CpEv.cacheReq).filterMap CpEv.rsp? = [] := by
    intro l
    induction l with
    | nil => rfl
    | cons a l ih => simp [List.filterMap_cons]
  constructor
  cases t with
  | flushFault m rest k hf hd hn hk hkn hcap =>
    simpa [Cp.flushAsk, List.filterMap_append, List.filterMap_cons, hc] using ha
  | flushOk m rest hf hd hn hk hpos =>
    simpa [Cp.flushAsk, List.filterMap_append, List.filterMap_cons, hc] using ha
  | flushZero m rest b hf hd hn hk hz hb =>
    have hm : (⟨m.id, .flush⟩ : CpMsg) = m := by cases m; simp_all
    cases b <;> simp [List.filterMap_append, List.filterMap_cons, ← ha, hm]
  | copy m rest b hf hd hn hk hb => simpa [Cp.copyFwd, List.filterMap_append] using ha
  | done c rest o k b hf hd hl hb =>
    cases b <;> simp [Cp.copyDone, List.filterMap_append, ← ha]
  | never c rest hf hd hH hD => exact ha
  | ackDec x rest n' hf hd hn hz => simpa [List.filterMap_append] using ha
  | nilderef x rest n' hf hd hn hz hc => simpa [List.filterMap_append] using ha
  | ackFinal x rest n' f b hf hd hn hz hc hb =>
    cases b <;> simp [List.filterMap_append, List.filterMap_cons, ← ha]
  | req k h => exact ha
  | takeDma k => exact ha
  | takeCache k => exact ha
  | takeDrv k =>
    show (e.drained ++ e.s.drvOut.take k) ++ e.s.drvOut.drop k = _
    rw [List.append_assoc, List.take_append_drop]; exact ha
  | ackEnv j x hj => exact ha
  | rspEnv j c hj => exact ha

end C11
