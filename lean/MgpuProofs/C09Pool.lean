import MgpuProofs.C09Pool2
/-! # C09 — the shared CU pool under the dispatchers: `Tick` preserves the invariant. -/
namespace C09

/-- the part of `dispatchNextWG` after the work-group was obtained: sending the `MapWGReq` -/
theorem tail_inv (b : Bool) (caps : List (List Nat)) (cp1 : CP) (i : Nat) (cur : Option DLoc)
    (h : CPInv b caps cp1) :
    CPInv b caps (match cur with
  | none => (cp1, false)
  | some dl =>
    if cp1.fault.isSome then (cp1, false) else
    if cp1.cuRoom = 0 then (cp1, false) else
    let d1 := cp1.disp i
    let id := cp1.nextReq
    let cp2 := ({ cp1 with cuRoom := cp1.cuRoom - 1, nextReq := id + 1 }).emit
                 (.map id dl.cu dl.launch dl.idx dl.locs)
    let cp3 := cp2.setDisp i { d1 with currWG := none, nd := d1.nd + 1,
                                       inflight := (id, dl) :: d1.inflight, cycleLeft := 0 }
    if dl.locs.length > 16 then ({ cp3 with fault := some "bounds" }, true) else (cp3, true)).1 := by
  cases cur with
  | none => exact h
  | some dl =>
    simp only []
    by_cases hf : cp1.fault.isSome = true
    · simp only [hf, if_true]; exact h
    · have hnone : cp1.fault = none := by cases hx : cp1.fault <;> simp_all
      simp only [hf]
      by_cases hr : cp1.cuRoom = 0
      · simp only [hr, if_true]; exact h
      · simp only [hr, if_false]
        by_cases hb : dl.locs.length > 16
        · simp only [hb, if_true]
          refine CPInv_congr b caps cp1 _ h rfl rfl ?_ (fun k hk => hk) (setDisp_frame _ i _ rfl rfl)
          show some "bounds" = some "twice" ↔ _
          rw [hnone]; simp
        · simp only [hb, if_false]
          exact CPInv_congr b caps cp1 _ h rfl rfl Iff.rfl (fun k hk => hk) (setDisp_frame _ i _ rfl rfl)

theorem dispatchNextWG_inv (b : Bool) (caps : List (List Nat)) (cp : CP) (i : Nat) (h : CPInv b caps cp) :
    CPInv b caps (dispatchNextWG cp i).1 := by
  unfold dispatchNextWG
  cases hcw : (cp.disp i).currWG with
  | some dl => simp only [hcw]; exact tail_inv b caps cp i (some dl) h
  | none =>
    simp only [hcw]
    by_cases hn : (cp.disp i).alg.hasNext = true
    · simp only [hn, if_true]
      have h1 := algNext_inv b caps cp i h hn
      have h2 : CPInv b caps ((algNext cp i).1.setDisp i
          { (algNext cp i).1.disp i with currWG := (algNext cp i).2 }) :=
        CPInv_congr b caps _ _ h1 rfl rfl Iff.rfl (fun k hk => hk) (setDisp_frame _ i _ rfl rfl)
      exact tail_inv b caps _ i _ h2
    · simp only [hn]; exact tail_inv b caps cp i none h

theorem dispatchLoop_inv (b : Bool) (caps : List (List Nat)) (i : Nat) : ∀ (n : Nat) (cp : CP),
    CPInv b caps cp → CPInv b caps (dispatchLoop i n cp).1 := by
  intro n
  induction n with
  | zero => intro cp h; exact h
  | succ n ih =>
    intro cp h
    have h1 := dispatchNextWG_inv b caps cp i h
    simp only [dispatchLoop]
    by_cases hc : (!(dispatchNextWG cp i).2 || decide (((dispatchNextWG cp i).1.disp i).cycleLeft > 0)
        || (dispatchNextWG cp i).1.fault.isSome) = true
    · simp only [hc, if_true]; exact h1
    · simp only [hc]; exact ih _ h1

theorem completeOne_inv (b : Bool) (caps : List (List Nat)) (cp : CP) (i id : Nat) (h : CPInv b caps cp)
    (hnt : cp.fault ≠ some "twice") :
    CPInv b caps (completeOne cp i id) ∧ (completeOne cp i id).fault ≠ some "twice" := by
  unfold completeOne
  cases hfind : List.find? (fun x => decide (x.1 = id)) (cp.disp i).inflight with
  | none => simp only [hfind]; exact ⟨h, hnt⟩
  | some xdl =>
    obtain ⟨x, dl⟩ := xdl
    simp only [hfind]
    cases hf : free (cp.pool.getD dl.cu default) dl.key with
    | none =>
      simp only []
      refine ⟨CPInv_frame b caps cp _ h (fun _ => h.pool hnt) (fun cu' hcu' e he => ⟨cu', hcu', he⟩) rfl
        (fun h' => by have h'' : some "notfound" = some "twice" := h'; simp at h'') (fun k hk => hk) (setDisp_frame _ i _ rfl rfl), ?_⟩
      intro h'
      have h'' : some "notfound" = some "twice" := h'
      simp at h''
    | some cu' =>
      simp only []
      refine ⟨CPInv_frame b caps cp _ h ?_ ?_ rfl (fun h' => h') (fun k hk => hk)
        (setDisp_frame _ i _ rfl rfl), hnt⟩
      · intro _
        have hp := h.pool hnt
        refine PoolInv_set caps cp.pool dl.cu cu' hp ?_
        intro hc
        have hget : cp.pool.getD dl.cu default = cp.pool[dl.cu] := by
          simp [List.getD_eq_getElem?_getD, hc]
        rw [hget] at hf
        exact free_preserves _ _ _ _ (hp.2 dl.cu hc) hf
      · intro cu'' hcu'' e he
        rcases List.mem_or_eq_of_mem_set hcu'' with hm | hm
        · exact ⟨cu'', hm, he⟩
        · subst hm
          have he' := free_resident _ _ _ hf e he
          by_cases hc : dl.cu < cp.pool.length
          · have hget : cp.pool.getD dl.cu default = cp.pool[dl.cu] := by
              simp [List.getD_eq_getElem?_getD, hc]
            rw [hget] at he'
            exact ⟨_, List.getElem_mem hc, he'⟩
          · have hget : cp.pool.getD dl.cu default = default := by
              simp only [List.getD_eq_getElem?_getD]
              rw [List.getElem?_eq_none (by omega)]; rfl
            rw [hget] at he'
            cases he'

theorem consume_inv (b : Bool) (caps : List (List Nat)) (i : Nat) : ∀ (ids : List Nat) (cp : CP),
    CPInv b caps cp → cp.fault ≠ some "twice" →
    CPInv b caps (consume i ids cp).1 ∧ (consume i ids cp).1.fault ≠ some "twice" := by
  intro ids
  induction ids with
  | nil => intro cp h hnt; exact ⟨h, hnt⟩
  | cons id ids ih =>
    intro cp h hnt
    simp only [consume]
    split
    · obtain ⟨h1, h2⟩ := completeOne_inv b caps cp i id h hnt
      exact ih _ h1 h2
    · exact ih cp h hnt

theorem procMsgs_inv (b : Bool) (caps : List (List Nat)) (i : Nat) : ∀ (n : Nat) (cp : CP),
    CPInv b caps cp → cp.fault ≠ some "twice" → CPInv b caps (procMsgs i n cp).1 := by
  intro n
  induction n with
  | zero => intro cp h _; exact h
  | succ n ih =>
    intro cp h hnt
    unfold procMsgs
    cases hcu : cp.cuIn with
    | nil => exact h
    | cons ids rest =>
      simp only []
      split
      · exact h
      · obtain ⟨h1, h2⟩ := consume_inv b caps i ids cp h hnt
        split
        · exact h1
        · split
          · exact ih _ (CPInv_congr b caps _ _ h1 rfl rfl Iff.rfl (fun k hk => hk) (fun j => ⟨rfl, rfl⟩)) h2
          · exact CPInv_congr b caps _ _ h1 rfl rfl Iff.rfl (fun k hk => hk) (fun j => ⟨rfl, rfl⟩)

/-- replace dispatcher `i` by `d'` (new kernel / restarted algorithm, same waiting work-group) -/
theorem CPInv_setDisp (b : Bool) (caps : List (List Nat)) (cp cp' : CP) (i : Nat) (d' : Disp)
    (h : CPInv b caps cp) (hpool : cp'.pool = cp.pool) (hnk : cp'.nextKey = cp.nextKey)
    (hf : cp'.fault = cp.fault) (hdrv : ∀ k ∈ cp'.drvIn, k ∈ cp.drvIn)
    (hd : ∀ j, cp'.disp j = if i = j ∧ i < cp.disps.length then d' else cp.disp j)
    (hok : DispOK d'.kern d'.alg) (hcw : d'.alg.currWG = (cp.disp i).alg.currWG) : CPInv b caps cp' := by
  have hcur : ∀ j, (cp'.disp j).alg.currWG = (cp.disp j).alg.currWG := by
    intro j; rw [hd j]
    split
    · rename_i hc; obtain ⟨rfl, _⟩ := hc; exact hcw
    · rfl
  exact {
    pool := by rw [hf, hpool]; exact h.pool
    disp := by
      intro j; rw [hd j]
      split
      · exact hok
      · exact h.disp j
    drv := fun k hk => h.drv k (hdrv k hk)
    noTwice := by rw [hf]; exact h.noTwice
    res := by rw [hpool, hnk]; exact h.res
    cur := by
      intro hb j key idx hc
      rw [hcur] at hc; rw [hpool, hnk]; exact h.cur hb j key idx hc
    distinct := by
      intro hb i' j' key idx idx' hne h1 h2
      rw [hcur] at h1 h2
      exact h.distinct hb i' j' key idx idx' hne h1 h2 }

theorem completeKernel_inv (b : Bool) (caps : List (List Nat)) (cp : CP) (i : Nat) (h : CPInv b caps cp)
    (hkc : kernelCompleted (cp.disp i) = true) : CPInv b caps (completeKernel cp i).1 := by
  unfold completeKernel
  cases hk : (cp.disp i).kern with
  | none => simp only [hk]; exact h
  | some k =>
    simp only [hk]
    by_cases hr : cp.drvRoom = 0
    · simp only [hr, if_true]; exact h
    · simp only [hr, if_false]
      have hd := h.disp i
      rw [hk] at hd
      obtain ⟨hak, hKO, hnd, hpos, hnone, hsome⟩ := hd
      have hhn : (cp.disp i).alg.hasNext = false := by
        simp only [kernelCompleted, Bool.and_eq_true, Bool.not_eq_true'] at hkc
        exact hkc.1.2
      have hge : ¬ (cp.disp i).alg.numDispatched < k.numWG := by
        simpa [Alg.hasNext, Alg.numWG, hak] using hhn
      have hcn : (cp.disp i).alg.currWG = none := by
        cases hc : (cp.disp i).alg.currWG with
        | none => rfl
        | some w =>
          obtain ⟨key, idx⟩ := w
          have := (hsome key idx hc).2
          omega
      refine CPInv_setDisp b caps cp _ i { cp.disp i with kern := none, prev := (cp.disp i).nd } h
        rfl rfl rfl (fun k hk => hk) (fun j => disp_setDisp _ i j _) ⟨hcn, hhn⟩ rfl

theorem dispTick_inv (b : Bool) (caps : List (List Nat)) (cp : CP) (i : Nat) (h : CPInv b caps cp) :
    CPInv b caps (dispTick cp i).1 := by
  have key : ∀ r1 : CP × Bool, CPInv b caps r1.1 →
      CPInv b caps (if r1.1.fault.isSome then r1 else
        let r2 := procMsgs i 8 r1.1
        (r2.1, r1.2 || r2.2)).1 := by
    intro r1 hr1
    by_cases hf : r1.1.fault.isSome = true
    · simp only [hf, if_true]; exact hr1
    · simp only [hf]
      apply procMsgs_inv b caps i 8 _ hr1
      intro h'; rw [h'] at hf; simp at hf
  unfold dispTick
  by_cases hc : (cp.disp i).cycleLeft > 0
  · simp only [hc, if_true]
    exact CPInv_congr b caps cp _ h rfl rfl Iff.rfl (fun k hk => hk) (setDisp_frame _ i _ rfl rfl)
  · simp only [hc, if_false]
    refine key _ ?_
    by_cases hks : (cp.disp i).kern.isSome = true
    · simp only [hks, if_true]
      by_cases hkc : kernelCompleted (cp.disp i) = true
      · simp only [hkc, if_true]; exact completeKernel_inv b caps cp i h hkc
      · simp only [hkc]; exact dispatchLoop_inv b caps i 8 cp h
    · simp only [hks]; exact h

theorem tickDispatchers_inv (b : Bool) (caps : List (List Nat)) : ∀ (is : List Nat) (cp : CP),
    CPInv b caps cp → CPInv b caps (tickDispatchers is cp).1 := by
  intro is
  induction is with
  | nil => intro cp h; exact h
  | cons i is ih =>
    intro cp h
    simp only [tickDispatchers]
    by_cases hf : cp.fault.isSome = true
    · simp only [hf, if_true]; exact h
    · simp only [hf]; exact ih _ (dispTick_inv b caps cp i h)

theorem handleLaunchOld_inv (b : Bool) (caps : List (List Nat)) (cp : CP) (h : CPInv b caps cp) :
    CPInv b caps (handleLaunchOld cp).1 := by
  unfold handleLaunchOld
  cases hdr : cp.drvIn with
  | nil => exact h
  | cons k rest =>
    simp only []
    cases hfa : findAvailable cp.disps with
    | none => exact h
    | some i =>
      simp only []
      unfold findAvailable at hfa
      rw [List.findIdx?_eq_some_iff_getElem] at hfa
      obtain ⟨hi, hp, _⟩ := hfa
      have hdi : cp.disp i = cp.disps[i] := by simp [CP.disp, List.getD_eq_getElem?_getD, hi]
      have hkn : (cp.disp i).kern = none := by
        rw [hdi]; cases hx : cp.disps[i].kern with
        | none => rfl
        | some _ => rw [hx] at hp; simp at hp
      have hd := h.disp i
      rw [hkn] at hd
      have hKO : KernOK k := h.drv k (by rw [hdr]; exact List.mem_cons_self)
      refine CPInv_setDisp b caps cp _ i (startDispatching cp.cfg (cp.disp i) k) h rfl rfl rfl ?_
        (fun j => disp_setDisp _ i j _) ?_ rfl
      · intro k' hk'; rw [hdr]; exact List.mem_cons_of_mem _ hk'
      · refine ⟨rfl, hKO, Nat.zero_le _, Nat.zero_le _, fun _ => rfl, ?_⟩
        intro key idx hc
        have : (cp.disp i).alg.currWG = some (key, idx) := hc
        rw [hd.1] at this; cases this

/-- raising the terminal fault "oversize" keeps the invariant (nothing else changes) -/
theorem CPInv_rejected (b : Bool) (caps : List (List Nat)) (cp : CP) (h : CPInv b caps cp)
    (hnt : cp.fault ≠ some "twice") : CPInv b caps cp.rejected :=
  ⟨fun _ => h.pool hnt, h.disp, h.drv, fun _ => by simp [CP.rejected], h.res, h.cur, h.distinct⟩

theorem handleLaunch_inv (b : Bool) (caps : List (List Nat)) (cp : CP) (h : CPInv b caps cp)
    (hnt : cp.fault ≠ some "twice") : CPInv b caps (handleLaunch cp).1 :=
  handleLaunch_ind cp (handleLaunchOld_inv b caps cp h) (CPInv_rejected b caps cp h hnt)

theorem handleLaunch_not_twice (cp : CP) (hnt : cp.fault ≠ some "twice") :
    (handleLaunch cp).1.fault ≠ some "twice" := by
  rcases handleLaunch_fault cp with e | e <;> rw [e]
  · exact hnt
  · simp

theorem cpTick_inv (b : Bool) (caps : List (List Nat)) (cp : CP) (h : CPInv b caps cp) :
    CPInv b caps (cpTick cp).1 := by
  have h1 := tickDispatchers_inv b caps (List.range cp.disps.length) cp h
  unfold cpTick
  by_cases hf : (tickDispatchers (List.range cp.disps.length) cp).1.fault.isSome = true
  · simp only [hf, if_true]; exact h1
  · simp only [hf]
    have hnt : (tickDispatchers (List.range cp.disps.length) cp).1.fault ≠ some "twice" := by
      intro e; rw [e] at hf; simp at hf
    exact handleLaunch_inv b caps _ (handleLaunch_inv b caps _ h1 hnt) (handleLaunch_not_twice _ hnt)

theorem step_inv (b : Bool) (caps : List (List Nat)) (cp : CP) (op : Op) (h : CPInv b caps cp)
    (hop : ∀ k, op = .launch k → KernOK k) : CPInv b caps (step cp op) := by
  cases op with
  | tick => exact cpTick_inv b caps cp h
  | launch k =>
    exact ⟨h.pool, h.disp, by
      intro k' hk'
      rcases List.mem_append.1 hk' with h' | h'
      · exact h.drv k' h'
      · simp only [List.mem_singleton] at h'; subst h'; exact hop _ rfl,
      h.noTwice, h.res, h.cur, h.distinct⟩
  | complete ids => exact ⟨h.pool, h.disp, h.drv, h.noTwice, h.res, h.cur, h.distinct⟩
  | cuRoom n => exact ⟨h.pool, h.disp, h.drv, h.noTwice, h.res, h.cur, h.distinct⟩
  | drvRoom n => exact ⟨h.pool, h.disp, h.drv, h.noTwice, h.res, h.cur, h.distinct⟩

theorem run_inv (b : Bool) (caps : List (List Nat)) : ∀ (ops : List Op) (cp : CP), CPInv b caps cp →
    (∀ k, .launch k ∈ ops → KernOK k) → CPInv b caps (run cp ops) := by
  intro ops
  induction ops with
  | nil => intro cp h _; exact h
  | cons op ops ih =>
    intro cp h hops
    show CPInv b caps (run (step cp op) ops)
    apply ih
    · exact step_inv b caps cp op h (fun k hk => hops k (by rw [hk]; exact List.mem_cons_self))
    · intro k hk; exact hops k (List.mem_cons_of_mem _ hk)

theorem mkCP_disp (cfg : Cfg) (nd : Nat) (pool : List CU) (j : Nat) : (mkCP cfg nd pool).disp j = default := by
  simp only [mkCP, CP.disp, List.getD_eq_getElem?_getD, List.getElem?_replicate]
  split <;> rfl

/-- the initial command processor satisfies the invariant; with nothing resident also the freshness part -/
theorem mkCP_inv (b : Bool) (caps : List (List Nat)) (cfg : Cfg) (nd : Nat) (pool : List CU)
    (hp : PoolInv caps pool) (hres : b = true → ∀ cu ∈ pool, cu.resident = []) :
    CPInv b caps (mkCP cfg nd pool) := by
  exact {
    pool := fun _ => hp
    disp := by intro j; rw [mkCP_disp]; exact ⟨rfl, rfl⟩
    drv := by intro k hk; cases hk
    noTwice := by intro _ h'; cases h'
    res := by
      intro hb cu hcu e he
      have : cu.resident = [] := hres hb cu hcu
      rw [this] at he; cases he
    cur := by intro hb j key idx hc; rw [mkCP_disp] at hc; cases hc
    distinct := by intro hb i j key idx idx' _ hc; rw [mkCP_disp] at hc; cases hc }

/-- along every interleaving of the dispatchers on the shared pool, with arbitrary completion messages
    and port back-pressure, every CU keeps the resource invariant — unless the run hit the Go panic
    "reserving a work-group twice" (excluded by `multi_dispatcher_safe` for a pool that starts empty) -/
theorem pool_inv_run (caps : List (List Nat)) (cfg : Cfg) (nd : Nat) (pool : List CU) (ops : List Op)
    (hp : PoolInv caps pool) (hops : ∀ k, .launch k ∈ ops → KernOK k)
    (hnt : (run (mkCP cfg nd pool) ops).fault ≠ some "twice") :
    PoolInv caps (run (mkCP cfg nd pool) ops).pool :=
  (run_inv false caps ops _ (mkCP_inv false caps cfg nd pool hp (fun h => by cases h)) hops).pool hnt

/-- starting with nothing resident, any number of dispatchers sharing the pool never reserve a
    work-group twice, and every CU keeps the resource invariant -/
theorem multi_dispatcher_safe (caps : List (List Nat)) (cfg : Cfg) (nd : Nat) (pool : List CU) (ops : List Op)
    (hempty : ∀ cu ∈ pool, cu.resident = []) (hp : PoolInv caps pool)
    (hops : ∀ k, .launch k ∈ ops → KernOK k) :
    let cp := run (mkCP cfg nd pool) ops
    PoolInv caps cp.pool ∧ cp.fault ≠ some "twice" := by
  intro cp
  have h := run_inv true caps ops _ (mkCP_inv true caps cfg nd pool hp (fun _ => hempty)) hops
  exact ⟨h.pool (h.noTwice rfl), h.noTwice rfl⟩

/-- a work-group location returned by `algorithm.Next` is recorded as resident on the chosen CU -/
theorem mapped_is_resident (b : Bool) (caps : List (List Nat)) (cp : CP) (i : Nat) (cp' : CP) (dl : DLoc)
    (h : CPInv b caps cp) (hft : cp.fault ≠ some "twice") (hn : (cp.disp i).alg.hasNext = true)
    (ha : algNext cp i = (cp', some dl)) :
    ∃ d, (dl.key, d, dl.locs) ∈ (cp'.pool.getD dl.cu default).resident := by
  have hd := h.disp i
  cases hk : (cp.disp i).kern with
  | none => rw [hk] at hd; have := hd.2; rw [this] at hn; cases hn
  | some k =>
    rw [hk] at hd
    obtain ⟨hak, hKO, hnd, hpos, hnone, hsome⟩ := hd
    have hlt : (cp.disp i).alg.numDispatched < k.numWG := by
      simpa [Alg.hasNext, Alg.numWG, hak] using hn
    have hp := h.pool hft
    unfold algNext at ha
    simp only [hak] at ha
    cases hc : (cp.disp i).alg.currWG with
    | none =>
      simp only [hc] at ha
      have hpn := hnone hc
      generalize ht : tryCUs cp.nextKey (k.dem (cp.disp i).alg.pos)
        (cuOrder cp.cfg.greedy cp.pool.length (cp.disp i).alg.nextCU) cp.pool = tr at ha
      obtain ⟨r, pool'⟩ := tr
      have spec := tryCUs_spec caps _ _ (nwf_pos k _ hKO (by omega)) _ cp.pool r pool' hp
        (fun c hc => mem_cuOrder _ _ _ c hc) ht
      cases r with
      | placed c locs =>
        simp only [Prod.mk.injEq, Option.some.injEq] at ha
        obtain ⟨rfl, rfl⟩ := ha
        exact ⟨_, spec.2.2.2.2 c locs rfl⟩
      | none => simp at ha
      | fault => simp at ha
    | some w =>
      obtain ⟨key, idx⟩ := w
      obtain ⟨hi1, hi2⟩ := hsome key idx hc
      simp only [hc] at ha
      generalize ht : tryCUs key (k.dem idx)
        (cuOrder cp.cfg.greedy cp.pool.length (cp.disp i).alg.nextCU) cp.pool = tr at ha
      obtain ⟨r, pool'⟩ := tr
      have spec := tryCUs_spec caps _ _ (nwf_pos k _ hKO (by omega)) _ cp.pool r pool' hp
        (fun c hc => mem_cuOrder _ _ _ c hc) ht
      cases r with
      | placed c locs =>
        simp only [Prod.mk.injEq, Option.some.injEq] at ha
        obtain ⟨rfl, rfl⟩ := ha
        exact ⟨_, spec.2.2.2.2 c locs rfl⟩
      | none => simp at ha
      | fault => simp at ha

/-- `RegisterCU` leaves nothing resident -/
theorem mkCU_resident (wf : List Nat) (s : Option Nat) (v : List (Option Nat)) (l : Option Nat) (cu : CU)
    (h : mkCU wf s v l = some cu) : cu.resident = [] := by
  unfold mkCU at h
  simp only [bind, Option.bind_eq_some_iff, pure, Option.some.injEq] at h
  obtain ⟨_, _, _, _, _, _, rfl⟩ := h
  rfl

/-- instance: one registered CU with a single SIMD, any number of dispatchers, any run -/
example (cu : CU) (h : mkCU [2] (some 32) [some 256] (some 512) = some cu) (cfg : Cfg) (nd : Nat)
    (ops : List Op) (hops : ∀ k, .launch k ∈ ops → KernOK k) :
    PoolInv [[2]] (run (mkCP cfg nd [cu]) ops).pool ∧ (run (mkCP cfg nd [cu]) ops).fault ≠ some "twice" := by
  have hinv : Inv [2] cu := mkCU_inv _ _ _ _ cu h rfl (by decide)
  have hp : PoolInv [[2]] [cu] := by
    refine ⟨rfl, ?_⟩
    intro c hc
    have : c = 0 := by simpa using hc
    subst this
    exact hinv
  have hres : ∀ cu' ∈ [cu], cu'.resident = [] := by
    intro cu' hcu'
    simp only [List.mem_singleton] at hcu'
    subst hcu'
    exact mkCU_resident _ _ _ _ _ h
  exact multi_dispatcher_safe [[2]] cfg nd [cu] ops hres hp hops

example : KernOK ⟨1, 128, 64, 16, 4, 256⟩ ∧ (⟨1, 128, 64, 16, 4, 256⟩ : Kern).numWG = 2 ∧
    1 ≤ (⟨1, 128, 64, 16, 4, 256⟩ : Kern).nwfOf 1 :=
  ⟨⟨by decide, by decide⟩, by decide, by decide⟩

/-- concrete run: the CU registered by `mkCU [2] (some 32) [some 256] (some 512)` (one VGPR unit), two
    dispatchers with one kernel each: one work-group becomes resident, the other dispatcher and the
    second work-group of the first kernel keep retrying with their own keys; no fault -/
example :
    mkCU [2] (some 32) [some 256] (some 512)
      = some { wfFree := [2], smask := .lim [0, 0], vmasks := [.lim [0]], lmask := .lim [0, 0],
               nextSIMD := 0, resident := [] } ∧
    let cp := run (mkCP ⟨false, 0, 0, 0, 0⟩ 2
        [{ wfFree := [2], smask := .lim [0, 0], vmasks := [.lim [0]], lmask := .lim [0, 0],
           nextSIMD := 0, resident := [] }])
      [.launch ⟨1, 128, 64, 16, 4, 256⟩, .launch ⟨2, 64, 64, 16, 4, 256⟩, .tick, .tick, .tick, .tick]
    cp.fault = none ∧ cp.pool.map (·.resident.length) = [1] ∧ cp.nextKey = 3 := by
  decide

end C09
