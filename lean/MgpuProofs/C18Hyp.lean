import MgpuProofs.Props.C18Mem
/-! Helper lemmas for C18: work-group arithmetic after the repaired ceiling (`(t + s - 1) / s`), the
flattened work-group id, and the degenerate platform `S = 0` (no page can be placed). Used by
`Props/C18Tie.lean` and `Props/C18Hyp.lean`. -/
namespace C18

/-! ### Work-group arithmetic -/

/-- `wg_all_allocated` without `0 < total` (the ceiling is 0 for an empty grid) -/
theorem wg_all_allocated' (total sumCU : Nat) (hc : 0 < sumCU) :
    total ≤ sumCU * wgPerCU total sumCU := by
  unfold wgPerCU
  have := Nat.div_add_mod (total + sumCU - 1) sumCU
  have hm := Nat.mod_lt (total + sumCU - 1) hc
  omega

theorem wgPerCU_zero (s : Nat) (hs : 0 < s) : wgPerCU 0 s = 0 := by
  unfold wgPerCU
  exact Nat.div_eq_of_lt (by omega)

theorem wgDist_zero : ∀ (cus : List Nat) (acc : Nat),
    wgDist 0 cus acc = List.replicate (cus.length + 1) acc := by
  intro cus
  induction cus with
  | nil => intro acc; rfl
  | cons c cs ih =>
    intro acc
    simp only [wgDist, Nat.mul_zero, Nat.add_zero, ih, List.length_cons, List.replicate_succ]

/-! ### The flattened work-group id `z·nx·ny + y·nx + x` -/

theorem flat_lt (nx ny nz x y z : Nat) (hx : x < nx) (hy : y < ny) (hz : z < nz) :
    z * nx * ny + y * nx + x < nx * ny * nz := by
  have h1 : y * nx + nx ≤ ny * nx := by
    have := Nat.mul_le_mul_right nx (show y + 1 ≤ ny from hy)
    rw [Nat.add_mul, Nat.one_mul] at this
    exact this
  have h2 : z * (nx * ny) + nx * ny ≤ nz * (nx * ny) := by
    have := Nat.mul_le_mul_right (nx * ny) (show z + 1 ≤ nz from hz)
    rw [Nat.add_mul, Nat.one_mul] at this
    exact this
  rw [Nat.mul_assoc z nx ny, Nat.mul_comm (nx * ny) nz]
  have : ny * nx = nx * ny := Nat.mul_comm _ _
  omega

theorem mul_add_inj (A a b r s : Nat) (hr : r < A) (hs : s < A) (h : a * A + r = b * A + s) :
    a = b ∧ r = s := by
  have h1 := mul_add_div_lt a A r hr
  have h2 := mul_add_div_lt b A s hs
  rw [h] at h1
  have hab : a = b := by omega
  subst hab
  exact ⟨rfl, by omega⟩

theorem flat_inj (nx ny x y z x' y' z' : Nat) (hx : x < nx) (hx' : x' < nx) (hy : y < ny) (hy' : y' < ny)
    (h : z * nx * ny + y * nx + x = z' * nx * ny + y' * nx + x') : x = x' ∧ y = y' ∧ z = z' := by
  have e : ∀ z y x : Nat, z * nx * ny + y * nx + x = z * (nx * ny) + (y * nx + x) := by
    intro z y x
    rw [Nat.mul_assoc, Nat.add_assoc]
  rw [e, e] at h
  have b : ∀ y x : Nat, x < nx → y < ny → y * nx + x < nx * ny := by
    intro y x hx hy
    have := Nat.mul_le_mul_right nx (show y + 1 ≤ ny from hy)
    rw [Nat.add_mul, Nat.one_mul, Nat.mul_comm ny nx] at this
    omega
  obtain ⟨hz, hr⟩ := mul_add_inj (nx * ny) z z' _ _ (b y x hx hy) (b y' x' hx' hy') h
  obtain ⟨hyy, hxx⟩ := mul_add_inj nx y y' x x' hx hx' hr
  exact ⟨hxx, hyy, hz⟩

/-! ### An empty page table: the run does not look at the bank size -/

theorem storeBytes_nil_pt (c c' : MemCfg) (g : Nat) (d : DRAM) (v : Nat) (bs : List Nat) :
    storeBytes c [] g d v bs = storeBytes c' [] g d v bs := by
  cases bs <;> rfl

theorem loadBytes_nil_pt (c c' : MemCfg) (g : Nat) (d : DRAM) (v len : Nat) :
    loadBytes c [] g d v len = loadBytes c' [] g d v len := by
  cases len <;> rfl

theorem memStep_nil_pt (c c' : MemCfg) (s : MSt) (a : Acc) : memStep c [] s a = memStep c' [] s a := by
  unfold memStep
  cases a with
  | store g v bs => simp only [storeBytes_nil_pt c c']
  | load g v len => simp only [loadBytes_nil_pt c c']

theorem runMem_nil_pt (c c' : MemCfg) (accs : List Acc) : runMem c [] accs = runMem c' [] accs := by
  unfold runMem
  have : memStep c [] = memStep c' [] := funext fun s => funext fun a => memStep_nil_pt c c' s a
  rw [this]

theorem accMapped_nil_pt (c c' : MemCfg) (a : Acc) : accMapped c [] a ↔ accMapped c' [] a := by
  cases a <;> exact Iff.rfl

/-- with bank size 0 every address is in "bank 0" (`a / 0 = 0`), so the bank hypothesis of a good
    placement cannot hold for any mapped page -/
theorem pt_nil_of_bank_zero (c : MemCfg) (pt : PageTable) (hP : 0 < c.P) (h0 : c.S = 0)
    (hb : ∀ vp pp, pt.lookup vp = some pp → ∀ off, off < c.P → 1 ≤ bank c.S (pp * c.P + off)) :
    pt = [] := by
  cases pt with
  | nil => rfl
  | cons e pt =>
    obtain ⟨k, x⟩ := e
    have := hb k x (by simp [List.lookup]) 0 hP
    rw [h0] at this
    simp [bank] at this

theorem goodPlacement_nil (c : MemCfg) : GoodPlacement c [] :=
  goodPlacement_of_list c [] (by simp) (fun e he => absurd he (by simp))

/-! ### The list form of the two placement hypotheses, separately -/

theorem inj_of_list (pt : PageTable) (hn : (pt.map (·.2)).Nodup) :
    ∀ vp1 vp2 pp, pt.lookup vp1 = some pp → pt.lookup vp2 = some pp → vp1 = vp2 :=
  fun v1 v2 pp h1 h2 =>
    fst_eq_of_nodup_snd pt hn v1 v2 pp (mem_of_lookup pt v1 pp h1) (mem_of_lookup pt v2 pp h2)

theorem forall_lookup_of_list (pt : PageTable) (Q : Nat → Prop) (hb : ∀ e ∈ pt, Q e.2) :
    ∀ vp pp, pt.lookup vp = some pp → Q pp :=
  fun vp pp h => hb (vp, pp) (mem_of_lookup pt vp pp h)

end C18
