import MgpuProofs.C20_Measure
/-! # C20 — the component lists keep the length the shape prescribes

`upd` beyond the end of a list would extend it; every tick only writes at indices that address an
existing component (`Ev.InRange`), so the five component lists keep their lengths `G`, `G`, `G*S`,
`G*S`, `G*S*C` along every run of in-range events. -/
namespace C20

/-- the component lists have exactly the length the shape says -/
structure Lens (s : Sys) : Prop where
  gpus : s.gpus.length = s.G
  l1 : s.l1.length = s.G
  sms : s.sms.length = s.G * s.S
  l2 : s.l2.length = s.G * s.S
  subs : s.subs.length = s.G * s.S * s.C

theorem length_upd_lt {α} [Inhabited α] (l : List α) (i : Nat) (v : α) (h : i < l.length) :
    (upd l i v).length = l.length := by
  induction l generalizing i with
  | nil => simp at h
  | cons x xs ih =>
    cases i with
    | zero => rfl
    | succ i =>
      have := ih i (by simpa using h)
      simp [upd, this]

theorem upd_get_self {α} [Inhabited α] (l : List α) (i : Nat) (h : i < l.length) :
    upd l i (get l i) = l := by
  induction l generalizing i with
  | nil => simp at h
  | cons x xs ih =>
    cases i with
    | zero => rfl
    | succ i =>
      have := ih i (by simpa using h)
      simp [upd, get, this]

theorem lens_init (legacy : Bool) (G S C : Nat) (trace : List Kernel) :
    Lens (init legacy G S C trace) := by
  constructor <;> simp [init]

/-- transport along a state with the same shape and the same list lengths -/
theorem Lens.of_eq {s t : Sys} (h : Lens s) (hG : t.G = s.G) (hS : t.S = s.S) (hC : t.C = s.C)
    (h1 : t.gpus.length = s.gpus.length) (h2 : t.l1.length = s.l1.length)
    (h3 : t.sms.length = s.sms.length) (h4 : t.l2.length = s.l2.length)
    (h5 : t.subs.length = s.subs.length) : Lens t := by
  constructor
  · rw [h1, hG]; exact h.gpus
  · rw [h2, hG]; exact h.l1
  · rw [h3, hG, hS]; exact h.sms
  · rw [h4, hG, hS]; exact h.l2
  · rw [h5, hG, hS, hC]; exact h.subs

theorem Lens.ite {b c : Sys} (p : Prop) [Decidable p] (hb : Lens b) (hc : Lens c) :
    Lens (if p then b else c) := by
  split <;> assumption

theorem lens_wakeGpu {s : Sys} {g : Nat} (h : Lens s) (hg : g < s.G) : Lens (wakeGpu s g) :=
  h.of_eq rfl rfl rfl (length_upd_lt _ _ _ (by rw [h.gpus]; exact hg)) rfl rfl rfl rfl

theorem lens_wakeSm {s : Sys} {m : Nat} (h : Lens s) (hm : m < s.G * s.S) : Lens (wakeSm s m) :=
  h.of_eq rfl rfl rfl rfl rfl (length_upd_lt _ _ _ (by rw [h.sms]; exact hm)) rfl rfl

theorem lens_wakeSub {s : Sys} {u : Nat} (h : Lens s) (hu : u < s.G * s.S * s.C) :
    Lens (wakeSub s u) :=
  h.of_eq rfl rfl rfl rfl rfl rfl rfl (length_upd_lt _ _ _ (by rw [h.subs]; exact hu))

/-- `wakeMany` keeps a property `P` that every single in-range wake keeps -/
theorem wakeMany_keeps (P : Sys → Prop) (wake : Sys → Nat → Sys) (f : Nat → Nat) (ks : List Nat)
    (hw : ∀ s k, k ∈ ks → P s → P (wake s (f k))) (s : Sys) (h : P s) :
    P (wakeMany wake f s ks) := by
  induction ks generalizing s with
  | nil => exact h
  | cons k ks ih =>
    exact ih (fun s k hk => hw s k (List.mem_cons_of_mem _ hk)) _
      (hw s k (List.mem_cons_self ..) h)

/-- `Lens` together with a fixed shape -/
def LensAt (G S C : Nat) (s : Sys) : Prop := Lens s ∧ s.G = G ∧ s.S = S ∧ s.C = C

theorem lens_wakeMany_gpu {s : Sys} (h : Lens s) (f : Nat → Nat) (ks : List Nat)
    (hf : ∀ k ∈ ks, f k < s.G) : Lens (wakeMany wakeGpu f s ks) := by
  refine (wakeMany_keeps (LensAt s.G s.S s.C) wakeGpu f ks ?_ s ⟨h, rfl, rfl, rfl⟩).1
  intro t k hk ht
  exact ⟨lens_wakeGpu ht.1 (by rw [ht.2.1]; exact hf k hk), ht.2⟩

theorem lens_wakeMany_sm {s : Sys} (h : Lens s) (f : Nat → Nat) (ks : List Nat)
    (hf : ∀ k ∈ ks, f k < s.G * s.S) : Lens (wakeMany wakeSm f s ks) := by
  refine (wakeMany_keeps (LensAt s.G s.S s.C) wakeSm f ks ?_ s ⟨h, rfl, rfl, rfl⟩).1
  intro t k hk ht
  exact ⟨lens_wakeSm ht.1 (by rw [ht.2.1, ht.2.2.1]; exact hf k hk), ht.2⟩

theorem lens_wakeMany_sub {s : Sys} (h : Lens s) (f : Nat → Nat) (ks : List Nat)
    (hf : ∀ k ∈ ks, f k < s.G * s.S * s.C) : Lens (wakeMany wakeSub f s ks) := by
  refine (wakeMany_keeps (LensAt s.G s.S s.C) wakeSub f ks ?_ s ⟨h, rfl, rfl, rfl⟩).1
  intro t k hk ht
  exact ⟨lens_wakeSub ht.1 (by rw [ht.2.1, ht.2.2.1, ht.2.2.2]; exact hf k hk), ht.2⟩

/-! ## index arithmetic -/

theorem idx_lt {a b n m : Nat} (ha : a < n) (hb : b < m) : a * m + b < n * m := by
  have h1 : (a + 1) * m ≤ n * m := Nat.mul_le_mul_right m ha
  rw [Nat.add_mul] at h1
  omega

theorem div_lt_of_lt {m G S : Nat} (h : m < G * S) : m / S < G := by
  rw [Nat.mul_comm] at h
  exact Nat.div_lt_of_lt_mul h

theorem range_lt {n k : Nat} (h : k ∈ List.range n) : k < n := List.mem_range.mp h

/-! ## the seven ticks -/

theorem lens_tickDriver (s : Sys) (h : Lens s) : Lens (tickDriver s) := by
  unfold tickDriver
  extract_lets d p s1
  have h1 : Lens s1 := h.of_eq rfl rfl rfl rfl rfl rfl rfl rfl
  apply Lens.ite
  · exact lens_wakeMany_gpu h1 _ _ (fun k hk => range_lt hk)
  · exact h1

theorem lens_tickGpu (s : Sys) (g : Nat) (h : Lens s) (hg : g < s.G) : Lens (tickGpu s g) := by
  unfold tickGpu
  extract_lets gp r d p2 d1 t p fin s1 s2
  have h1 : Lens s1 :=
    h.of_eq rfl rfl rfl (length_upd_lt _ _ _ (by rw [h.gpus]; exact hg))
      (length_upd_lt _ _ _ (by rw [h.l1]; exact hg)) rfl rfl rfl
  have h2 : Lens s2 := by
    apply Lens.ite
    · refine lens_wakeMany_gpu (s := { s1 with dAwake := true })
        (h1.of_eq rfl rfl rfl rfl rfl rfl rfl rfl) _ _ ?_
      intro k hk
      exact (Meas.mem_others hk).1
    · exact h1
  have e2 : s2.G = s.G ∧ s2.S = s.S := by
    have : Shape s s2 := by
      apply Shape.ite
      · apply Shape.wakeMany _ shape_wakeGpu
        exact ⟨rfl, rfl, rfl, rfl⟩
      · exact ⟨rfl, rfl, rfl, rfl⟩
    exact ⟨this.G, this.S⟩
  apply Lens.ite
  · refine lens_wakeMany_sm h2 _ _ ?_
    intro k hk
    rw [e2.1, e2.2]
    exact idx_lt hg (range_lt hk)
  · exact h2

theorem lens_tickSm (s : Sys) (m : Nat) (h : Lens s) (hm : m < s.G * s.S) :
    Lens (tickSm s m) := by
  unfold tickSm
  extract_lets g j sm lg r d p2 d1 t p fin s1 s2
  have hg : g < s.G := div_lt_of_lt hm
  have hS : 0 < s.S := by
    apply Nat.pos_of_ne_zero
    intro h0
    rw [h0] at hm
    simp at hm
  have h1 : Lens s1 :=
    h.of_eq rfl rfl rfl rfl (length_upd_lt _ _ _ (by rw [h.l1]; exact hg))
      (length_upd_lt _ _ _ (by rw [h.sms]; exact hm))
      (length_upd_lt _ _ _ (by rw [h.l2]; exact hm)) rfl
  have hsh : Shape s s2 := by
    apply Shape.ite
    · apply Shape.wakeMany _ shape_wakeSm
      exact ⟨rfl, rfl, rfl, rfl⟩
    · exact ⟨rfl, rfl, rfl, rfl⟩
  have h2 : Lens s2 := by
    apply Lens.ite
    · refine lens_wakeMany_sm (lens_wakeGpu h1 hg) _ _ ?_
      intro k hk
      exact idx_lt hg (Meas.mem_others hk).1
    · exact h1
  apply Lens.ite
  · refine lens_wakeMany_sub h2 _ _ ?_
    intro k hk
    rw [hsh.G, hsh.S, hsh.C]
    exact idx_lt hm (range_lt hk)
  · exact h2

theorem lens_tickSub (s : Sys) (u : Nat) (h : Lens s) (hu : u < s.G * s.S * s.C) :
    Lens (tickSub s u) := by
  unfold tickSub
  extract_lets m j sc lm r q
  have hm : m < s.G * s.S := div_lt_of_lt hu
  split
  · exact h.of_eq rfl rfl rfl rfl rfl rfl (length_upd_lt _ _ _ (by rw [h.l2]; exact hm))
      (length_upd_lt _ _ _ (by rw [h.subs]; exact hu))
  · dsimp only
    have h1 : ∀ (x : Level Warp) (y : Sub),
        Lens { s with l2 := upd s.l2 m x, subs := upd s.subs u y } := fun x y =>
      h.of_eq rfl rfl rfl rfl rfl rfl (length_upd_lt _ _ _ (by rw [h.l2]; exact hm))
        (length_upd_lt _ _ _ (by rw [h.subs]; exact hu))
    apply Lens.ite
    · refine lens_wakeMany_sub (lens_wakeSm (h1 _ _) hm) _ _ ?_
      intro k hk
      exact idx_lt hm (Meas.mem_others hk).1
    · exact h1 _ _

/-! ## who a connection tick wakes

`wakeChi` collects destinations taken from the parent's outgoing buffer and child port numbers
`≤ l.n`; they address existing children as soon as the buffer only holds in-range destinations
(`LInv1.outLt`) and `l.n` is the real child count (`LInv1.hn`).  Without this a stray destination
would make `wakeMany` extend the component list. -/

theorem fwdDown_woken_mem {α : Type} (pOut : List (Nat × α)) (cIn : List (List α)) :
    ∀ j ∈ (Level.fwdDown pOut cIn).2.2.1, ∃ p ∈ pOut, p.1 = j := by
  induction pOut generalizing cIn with
  | nil => intro j hj; simp [Level.fwdDown] at hj
  | cons p rest ih =>
    obtain ⟨i, u⟩ := p
    unfold Level.fwdDown
    simp only
    split
    · intro j hj; cases hj
    · intro j hj
      split at hj
      · rcases List.mem_cons.1 hj with hj | hj
        · exact ⟨(i, u), List.mem_cons_self .., hj.symm⟩
        · obtain ⟨p, hp, e⟩ := ih _ j hj
          exact ⟨p, List.mem_cons_of_mem _ hp, e⟩
      · obtain ⟨p, hp, e⟩ := ih _ j hj
        exact ⟨p, List.mem_cons_of_mem _ hp, e⟩

theorem connTick_wakeChi_lt {α : Type} {l : Level α} {n : Nat} (hn : l.n = n)
    (ho : ∀ p ∈ l.pOut, p.1 < n) : ∀ j ∈ l.connTick.wakeChi, j < n := by
  rw [connTick_eq]
  refine (connFold_induct' l (fun o => (∀ p ∈ o.l.pOut, p.1 < n) ∧ (∀ j ∈ o.wakeChi, j < n))
    ⟨ho, fun j hj => by cases hj⟩ ?_).2
  intro o p hp ⟨h1, h2⟩
  cases p with
  | zero =>
    refine ⟨fun x hx => h1 x (fwdDown_subset _ _ x hx), ?_⟩
    intro j hj
    rcases List.mem_append.1 hj with hj | hj
    · exact h2 j hj
    · obtain ⟨q, hq, e⟩ := fwdDown_woken_mem _ _ j hj
      rw [← e]; exact h1 q hq
  | succ k =>
    refine ⟨h1, ?_⟩
    intro j hj
    simp only [Level.fwdPort] at hj
    split at hj
    · rcases List.mem_append.1 hj with hj | hj
      · exact h2 j hj
      · rw [List.mem_singleton.1 hj, ← hn]; omega
    · exact h2 j hj

theorem lens_tickConn0 (s : Sys) (h : Lens s) (hi : Inv1 s) : Lens (tickConn0 s) := by
  unfold tickConn0
  extract_lets o s1
  have h1 : Lens s1 := h.of_eq rfl rfl rfl rfl rfl rfl rfl rfl
  exact lens_wakeMany_gpu h1 _ _ (connTick_wakeChi_lt hi.lv0.hn hi.lv0.outLt)

theorem lens_tickConn1 (s : Sys) (g : Nat) (h : Lens s) (hi : Inv1 s) (hg : g < s.G) :
    Lens (tickConn1 s g) := by
  unfold tickConn1
  extract_lets o s1 s2
  have h1 : Lens s1 :=
    h.of_eq rfl rfl rfl rfl (length_upd_lt _ _ _ (by rw [h.l1]; exact hg)) rfl rfl rfl
  have h2 : Lens s2 := Lens.ite _ (lens_wakeGpu h1 hg) h1
  have hsh : Shape s s2 := Shape.ite _ ⟨rfl, rfl, rfl, rfl⟩ ⟨rfl, rfl, rfl, rfl⟩
  refine lens_wakeMany_sm h2 _ _ ?_
  intro k hk
  rw [hsh.G, hsh.S]
  exact idx_lt hg (connTick_wakeChi_lt (hi.lv1 g hg).hn (hi.lv1 g hg).outLt k hk)

theorem lens_tickConn2 (s : Sys) (m : Nat) (h : Lens s) (hi : Inv1 s) (hm : m < s.G * s.S) :
    Lens (tickConn2 s m) := by
  unfold tickConn2
  extract_lets o s1 s2
  have h1 : Lens s1 :=
    h.of_eq rfl rfl rfl rfl rfl rfl (length_upd_lt _ _ _ (by rw [h.l2]; exact hm)) rfl
  have h2 : Lens s2 := Lens.ite _ (lens_wakeSm h1 hm) h1
  have hsh : Shape s s2 := Shape.ite _ ⟨rfl, rfl, rfl, rfl⟩ ⟨rfl, rfl, rfl, rfl⟩
  refine lens_wakeMany_sub h2 _ _ ?_
  intro k hk
  rw [hsh.G, hsh.S, hsh.C]
  exact idx_lt hm (connTick_wakeChi_lt (hi.lv2 m hm).hn (hi.lv2 m hm).outLt k hk)

/-- One in-range event keeps the lengths.  `Inv1` is needed for the connection events: it bounds the
    children a connection tick wakes (`Lens` alone does not — a destination `≥ n` sitting in a
    parent's outgoing buffer makes `tickConn0` extend `gpus`). -/
theorem lens_step (s : Sys) (e : Ev) (h : Lens s) (hi : Inv1 s) (he : e.InRange s.G s.S s.C) :
    Lens (step s e) := by
  cases e with
  | drv => exact lens_tickDriver s h
  | gpu g => exact lens_tickGpu s g h he
  | sm m => exact lens_tickSm s m h he
  | sub u => exact lens_tickSub s u h he
  | c0 => exact lens_tickConn0 s h hi
  | c1 g => exact lens_tickConn1 s g h hi he
  | c2 m => exact lens_tickConn2 s m h hi he

theorem lens_run_gen (s : Sys) (evs : List Ev) (hl : s.legacy = false)
    (he : ∀ e ∈ evs, e.InRange s.G s.S s.C) (hi : Inv1 s) (h : Lens s) : Lens (run s evs) := by
  induction evs generalizing s with
  | nil => exact h
  | cons e evs ih =>
    have hsh := shape_step s e
    have he0 := he e (List.mem_cons_self ..)
    refine ih (step s e) (hsh.legacy.trans hl) ?_ (inv1_step s e hl he0 hi) (lens_step s e h hi he0)
    intro e' he'
    rw [hsh.G, hsh.S, hsh.C]
    exact he e' (List.mem_cons_of_mem _ he')

theorem lens_run (G S C : Nat) (trace : List Kernel) (evs : List Ev)
    (he : ∀ e ∈ evs, e.InRange G S C) : Lens (run (init false G S C trace) evs) :=
  lens_run_gen _ evs rfl he (inv1_init G S C trace) (lens_init false G S C trace)

end C20
