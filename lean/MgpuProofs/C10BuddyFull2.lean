import MgpuProofs.C10BuddyFull1
/-!
Buddy allocator, histories with frees — part 2: addresses and bit indices of nodes, the concrete predicates
`FreeN`/`SplitN`/`MergeN` on a `State`, the invariant `FInv`, and the safety consequence
(`NoLiveInFree ∧ FreeDisjoint`).
-/
namespace C10.Buddy

/-- address of the node `(l, k)` -/
def addr (base F l k : Nat) : Nat := base + k * szl (4096 * 2 ^ F) l

/-- bit index of the node `(l, k)` -/
def ix (l k : Nat) : Nat := 2 ^ l + k - 1

theorem ix_inj {l k l' k' : Nat} (hk : k < 2 ^ l) (hk' : k' < 2 ^ l') (h : ix l k = ix l' k') : l = l' ∧ k = k' := by
  unfold ix at h
  have p1 := Nat.pow_pos (n := l) (show 0 < 2 by decide)
  have p2 := Nat.pow_pos (n := l') (show 0 < 2 by decide)
  rcases Nat.lt_trichotomy l l' with hh | hh | hh
  · have := Nat.pow_le_pow_right (show 0 < 2 by decide) (show l + 1 ≤ l' from hh)
    rw [pow_succ2] at this
    omega
  · subst hh
    exact ⟨rfl, by omega⟩
  · have := Nat.pow_le_pow_right (show 0 < 2 by decide) (show l' + 1 ≤ l from hh)
    rw [pow_succ2] at this
    omega

theorem szl_succ {F l : Nat} (h : l + 1 ≤ F) : szl (4096 * 2 ^ F) l = 2 * szl (4096 * 2 ^ F) (l + 1) := by
  rw [szl_mul (Nat.le_succ l) h]
  simp [Nat.mul_comm]

theorem addr_inj {base F l k k' : Nat} (hl : l ≤ F) (h : addr base F l k = addr base F l k') : k = k' := by
  unfold addr at h
  have := szl_pos hl
  exact Nat.eq_of_mul_eq_mul_right (show 0 < szl (4096 * 2 ^ F) l by omega) (Nat.add_left_cancel h)

theorem addr_child {base F l k : Nat} (hl : l + 1 ≤ F) : addr base F (l + 1) (2 * k) = addr base F l k := by
  unfold addr
  rw [szl_succ hl, Nat.mul_comm 2 k, Nat.mul_assoc]

theorem addr_desc {base F l k : Nat} : ∀ (d : Nat), l + d ≤ F → addr base F (l + d) (k * 2 ^ d) = addr base F l k := by
  intro d
  induction d with
  | zero => intro _; simp
  | succ d ih =>
    intro h
    rw [← ih (by omega), ← addr_child (l := l + d) (by omega), Nat.pow_succ]
    congr 1
    rw [Nat.mul_comm 2, Nat.mul_assoc]

theorem usub_of_le {a b : Nat} (h : b ≤ a) : usub a b = a - b := by
  unfold usub
  rw [if_pos h]

theorem idxIn_self {base F l k : Nat} (hl : l ≤ F) : idxIn base (4096 * 2 ^ F) (addr base F l k) l = k := by
  unfold idxIn addr
  rw [usub_of_le (by omega), Nat.add_sub_cancel_left]
  have := szl_pos hl
  exact Nat.mul_div_cancel _ (by omega)

theorem index_self {base F l k : Nat} (hl : l ≤ F) :
    indexOfBlock base (4096 * 2 ^ F) (addr base F l k) l = ix l k := by
  unfold indexOfBlock ix
  rw [idxIn_self hl]

theorem index_parent {base F l k : Nat} (hl : l + 1 ≤ F) :
    indexOfBlock base (4096 * 2 ^ F) (addr base F (l + 1) k) l = ix l (k / 2) := by
  unfold indexOfBlock ix idxIn addr
  rw [usub_of_le (by omega), Nat.add_sub_cancel_left, szl_succ hl]
  have := szl_pos hl
  rw [Nat.mul_div_mul_right _ _ (by omega)]

theorem buddy_addr {base F l k : Nat} (hl : l ≤ F) :
    buddyOf base (4096 * 2 ^ F) (addr base F l k) l = addr base F l (bud k) := by
  unfold buddyOf bud
  rw [idxIn_self hl]
  have := szl_pos hl
  split
  · unfold addr
    rw [Nat.add_mul k 1, Nat.one_mul]
    omega
  · rename_i hm
    obtain ⟨j, rfl⟩ : ∃ j, k = j + 1 := ⟨k - 1, by omega⟩
    unfold addr
    rw [Nat.add_sub_cancel, Nat.add_mul j 1, Nat.one_mul, usub_of_le (by omega)]
    omega

/-- the parent, as the lower of a block and its buddy -/
theorem min_buddy_addr {base F l k : Nat} (hl : l + 1 ≤ F) :
    (if addr base F (l + 1) (bud k) < addr base F (l + 1) k then addr base F (l + 1) (bud k) else addr base F (l + 1) k)
      = addr base F l (k / 2) := by
  have := szl_pos hl
  rw [← addr_child hl]
  unfold bud
  rcases Nat.mod_two_eq_zero_or_one k with hm | hm
  · rw [if_pos hm, show 2 * (k / 2) = k by omega]
    unfold addr
    rw [Nat.add_mul k 1, Nat.one_mul, if_neg (by omega)]
  · rw [if_neg (show ¬ k % 2 = 0 by omega), show 2 * (k / 2) = k - 1 by omega]
    obtain ⟨j, rfl⟩ : ∃ j, k = j + 1 := ⟨k - 1, by omega⟩
    unfold addr
    rw [Nat.add_sub_cancel, Nat.add_mul j 1, Nat.one_mul, if_pos (by omega)]

/-! ## `toggle` is xor on membership -/

theorem mem_toggle {bits : List Nat} (hn : bits.Nodup) (i j : Nat) :
    j ∈ toggle bits i ↔ if j = i then i ∉ bits else j ∈ bits := by
  unfold toggle
  by_cases hi : i ∈ bits
  · rw [if_pos hi, hn.mem_erase_iff]
    by_cases hj : j = i
    · simp [hj, hi]
    · simp [hj]
  · rw [if_neg hi, List.mem_cons]
    by_cases hj : j = i
    · simp [hj, hi]
    · simp [hj]

theorem toggle_nodup {bits : List Nat} (hn : bits.Nodup) (i : Nat) : (toggle bits i).Nodup := by
  unfold toggle
  split
  · exact hn.erase _
  · rename_i hi
    exact List.nodup_cons.mpr ⟨hi, hn⟩

/-! ## the predicates on a state -/

def FreeN (F : Nat) (s : State) (l k : Nat) : Prop := addr s.base F l k ∈ lvl s.free l
def SplitN (F : Nat) (s : State) (l k : Nat) : Prop := l < F ∧ ix l k ∈ s.split
def MergeN (s : State) (l k : Nat) : Prop := ix l k ∈ s.merge

theorem splitN_toggle {F : Nat} {s s' : State} {l k l' k' : Nat} (hs : s'.split = toggle s.split (ix l k))
    (hn : s.split.Nodup) (hl : l < F) (hk : k < 2 ^ l) (hk' : k' < 2 ^ l') :
    SplitN F s' l' k' ↔ if l' = l ∧ k' = k then ¬ SplitN F s l' k' else SplitN F s l' k' := by
  unfold SplitN
  rw [hs, mem_toggle hn]
  by_cases hc : l' = l ∧ k' = k
  · obtain ⟨rfl, rfl⟩ := hc
    simp [hl]
  · have : ix l' k' ≠ ix l k := fun e => hc (ix_inj hk' hk e)
    rw [if_neg this, if_neg hc]

theorem mergeN_toggle {s s' : State} {l k l' k' : Nat} (hs : s'.merge = toggle s.merge (ix l k))
    (hn : s.merge.Nodup) (hk : k < 2 ^ l) (hk' : k' < 2 ^ l') :
    MergeN s' l' k' ↔ if l' = l ∧ k' = k then ¬ MergeN s l' k' else MergeN s l' k' := by
  unfold MergeN
  rw [hs, mem_toggle hn]
  by_cases hc : l' = l ∧ k' = k
  · obtain ⟨rfl, rfl⟩ := hc
    simp
  · have : ix l' k' ≠ ix l k := fun e => hc (ix_inj hk' hk e)
    rw [if_neg this, if_neg hc]

theorem freeN_set {F : Nat} {s s' : State} {l : Nat} {x : List Nat} (hb : s'.base = s.base)
    (hf : s'.free = setLvl s.free l x) (hl : l < s.free.length) (l' k' : Nat) :
    FreeN F s' l' k' ↔ if l' = l then addr s.base F l k' ∈ x else FreeN F s l' k' := by
  unfold FreeN
  rw [hb, hf, lvl_setLvl]
  by_cases hc : l' = l
  · subst hc
    simp [hl]
  · have : ¬ (l = l' ∧ l < s.free.length) := fun h => hc h.1.symm
    rw [if_neg this, if_neg hc]

theorem freeN_push {F : Nat} {s s' : State} {l k : Nat} (hb : s'.base = s.base)
    (hf : s'.free = setLvl s.free l (lvl s.free l ++ [addr s.base F l k])) (hl : l < s.free.length) (hlF : l ≤ F)
    (l' k' : Nat) : FreeN F s' l' k' ↔ FreeN F s l' k' ∨ (l' = l ∧ k' = k) := by
  rw [freeN_set hb hf hl]
  by_cases hc : l' = l
  · subst hc
    rw [if_pos rfl, List.mem_append, List.mem_singleton]
    unfold FreeN
    constructor
    · rintro (h | h)
      · exact Or.inl h
      · exact Or.inr ⟨rfl, addr_inj hlF h⟩
    · rintro (h | ⟨-, h⟩)
      · exact Or.inl h
      · exact Or.inr (by rw [h])
  · rw [if_neg hc]
    simp [hc]

theorem freeN_erase {F : Nat} {s s' : State} {l k : Nat} (hb : s'.base = s.base)
    (hf : s'.free = setLvl s.free l ((lvl s.free l).erase (addr s.base F l k))) (hl : l < s.free.length) (hlF : l ≤ F)
    (hn : (lvl s.free l).Nodup) (l' k' : Nat) : FreeN F s' l' k' ↔ FreeN F s l' k' ∧ ¬ (l' = l ∧ k' = k) := by
  rw [freeN_set hb hf hl]
  by_cases hc : l' = l
  · subst hc
    rw [if_pos rfl, hn.mem_erase_iff]
    unfold FreeN
    constructor
    · rintro ⟨h1, h2⟩
      exact ⟨h2, fun h => h1 (by rw [h.2])⟩
    · rintro ⟨h1, h2⟩
      exact ⟨fun e => h2 ⟨rfl, addr_inj hlF e⟩, h1⟩
  · rw [if_neg hc]
    simp [hc]

/-! ## the invariant -/

structure FInv (F : Nat) (s : State) : Prop where
  hsize : s.size = 4096 * 2 ^ F
  hlen : s.free.length = F + 1
  fnode : ∀ l a, a ∈ lvl s.free l → ∃ k, k < 2 ^ l ∧ a = addr s.base F l k
  fnodup : ∀ l, (lvl s.free l).Nodup
  snodup : s.split.Nodup
  mnodup : s.merge.Nodup
  tree : AInv F (FreeN F s) (SplitN F s) (MergeN s)
  D : ∀ p id, (p, id) ∈ s.track → ∃ l k num, l ≤ F ∧ k < 2 ^ l ∧ s.trk[id]? = some (addr s.base F l k, num) ∧
        Used (FreeN F s) (SplitN F s) l k ∧ addr s.base F l k ≤ p ∧ p < addr s.base F l k + szl (4096 * 2 ^ F) l
  Dinj : ∀ p1 id1 p2 id2 a n1 n2, (p1, id1) ∈ s.track → (p2, id2) ∈ s.track → s.trk[id1]? = some (a, n1) →
        s.trk[id2]? = some (a, n2) → id1 = id2
  Dcnt : ∀ id ia num, s.trk[id]? = some (ia, num) → (s.track.filter (fun e => e.2 == id)).length ≤ num

theorem FInv.level_le {F : Nat} {s : State} (h : FInv F s) {l a : Nat} (ha : a ∈ lvl s.free l) : l ≤ F := by
  rcases Nat.lt_or_ge l (F + 1) with hl | hl
  · omega
  · rw [lvl_of_length_le (by rw [h.hlen]; exact hl)] at ha
    cases ha

/-- no tracked page lies inside the node -/
def NoTrk (F : Nat) (s : State) (l k : Nat) : Prop :=
  ∀ p id, (p, id) ∈ s.track → ¬ (addr s.base F l k ≤ p ∧ p < addr s.base F l k + szl (4096 * 2 ^ F) l)

/-! ## leaves are pairwise disjoint -/

theorem overlap_div {base F l k l' k' p : Nat} (hll : l ≤ l') (hl' : l' ≤ F)
    (h1 : addr base F l k ≤ p) (h2 : p < addr base F l k + szl (4096 * 2 ^ F) l)
    (h1' : addr base F l' k' ≤ p) (h2' : p < addr base F l' k' + szl (4096 * 2 ^ F) l') :
    k' / 2 ^ (l' - l) = k := by
  unfold addr at h1 h2 h1' h2'
  rw [szl_mul hll hl'] at h1 h2
  have hp := szl_pos hl'
  generalize szl (4096 * 2 ^ F) l' = S at *
  generalize 2 ^ (l' - l) = D at *
  apply Nat.div_eq_of_lt_le
  · have : (k * D) * S < (k' + 1) * S := by
      rw [Nat.mul_assoc, Nat.mul_comm D S, Nat.succ_mul]
      omega
    have := Nat.lt_of_mul_lt_mul_right this
    omega
  · have : k' * S < ((k + 1) * D) * S := by
      rw [Nat.mul_assoc, Nat.mul_comm D S, Nat.succ_mul (n := k)]
      omega
    exact Nat.lt_of_mul_lt_mul_right this

theorem leaf_overlap_le {F : Nat} {Fr Sp Mg : Nat → Nat → Prop} (h : AInv F Fr Sp Mg) {base l k l' k' p : Nat}
    (hll : l ≤ l') (hl' : l' ≤ F) (hk' : k' < 2 ^ l') (hns : ¬ Sp l k) (hex' : Ex Sp l' k')
    (h1 : addr base F l k ≤ p) (h2 : p < addr base F l k + szl (4096 * 2 ^ F) l)
    (h1' : addr base F l' k' ≤ p) (h2' : p < addr base F l' k' + szl (4096 * 2 ^ F) l') : l = l' ∧ k = k' := by
  have hd := overlap_div hll hl' h1 h2 h1' h2'
  rcases Nat.lt_or_ge l l' with hlt | hge
  · exfalso
    obtain ⟨d, rfl⟩ : ∃ d, l' = l + (d + 1) := ⟨l' - l - 1, by omega⟩
    have := h.anc d l k' hl' hk' hex'
    rw [show l + (d + 1) - l = d + 1 by omega] at hd
    rw [hd] at this
    exact hns this
  · have e : l = l' := by omega
    subst e
    simp at hd
    exact ⟨rfl, hd.symm⟩

/-- two existing non-split nodes that share an address are the same node -/
theorem leaf_overlap {F : Nat} {Fr Sp Mg : Nat → Nat → Prop} (h : AInv F Fr Sp Mg) {base l k l' k' p : Nat}
    (hl : l ≤ F) (hk : k < 2 ^ l) (hl' : l' ≤ F) (hk' : k' < 2 ^ l')
    (hex : Ex Sp l k) (hns : ¬ Sp l k) (hex' : Ex Sp l' k') (hns' : ¬ Sp l' k')
    (h1 : addr base F l k ≤ p) (h2 : p < addr base F l k + szl (4096 * 2 ^ F) l)
    (h1' : addr base F l' k' ≤ p) (h2' : p < addr base F l' k' + szl (4096 * 2 ^ F) l') : l = l' ∧ k = k' := by
  rcases Nat.le_total l l' with hll | hll
  · exact leaf_overlap_le h hll hl' hk' hns hex' h1 h2 h1' h2'
  · obtain ⟨e1, e2⟩ := leaf_overlap_le h hll hl hk hns' hex h1' h2' h1 h2
    exact ⟨e1.symm, e2.symm⟩

/-! ## safety -/

theorem FInv.safe {F : Nat} {s : State} (h : FInv F s) (live : List Nat)
    (hlive : ∀ p ∈ live, ∃ id, (p, id) ∈ s.track) : NoLiveInFree s live ∧ FreeDisjoint s := by
  refine ⟨?_, fun l _ => h.fnodup l, ?_⟩
  · intro p hp l _ a ha hin
    obtain ⟨id, hid⟩ := hlive p hp
    obtain ⟨l', k', num, hl', hk', -, ⟨uex, uns, unf⟩, g1, g2⟩ := h.D p id hid
    obtain ⟨k, hk, rfl⟩ := h.fnode l a ha
    have hl := h.level_le ha
    obtain ⟨fex, fns⟩ := h.tree.A l k hl hk ha
    unfold inBlock at hin
    rw [h.hsize] at hin
    obtain ⟨e1, e2⟩ := leaf_overlap h.tree hl hk hl' hk' fex fns uex uns hin.1 hin.2 g1 g2
    subst e1; subst e2
    exact unf ha
  · intro l _ l' _ a ha a' ha' hne
    obtain ⟨k, hk, rfl⟩ := h.fnode l a ha
    obtain ⟨k', hk', rfl⟩ := h.fnode l' a' ha'
    have hl := h.level_le ha
    have hl' := h.level_le ha'
    obtain ⟨fex, fns⟩ := h.tree.A l k hl hk ha
    obtain ⟨fex', fns'⟩ := h.tree.A l' k' hl' hk' ha'
    rw [h.hsize]
    have p1 := szl_pos hl
    have p2 := szl_pos hl'
    rcases Nat.le_total (addr s.base F l k) (addr s.base F l' k') with hle | hle
    · rcases Nat.lt_or_ge (addr s.base F l' k') (addr s.base F l k + szl (4096 * 2 ^ F) l) with hlt | hge
      · exfalso
        obtain ⟨e1, e2⟩ := leaf_overlap h.tree hl hk hl' hk' fex fns fex' fns' hle hlt (Nat.le_refl _) (by omega)
        subst e1; subst e2
        simp at hne
      · exact Or.inl hge
    · rcases Nat.lt_or_ge (addr s.base F l k) (addr s.base F l' k' + szl (4096 * 2 ^ F) l') with hlt | hge
      · exfalso
        obtain ⟨e1, e2⟩ := leaf_overlap h.tree hl hk hl' hk' fex fns fex' fns' (Nat.le_refl _) (by omega) hle hlt
        subst e1; subst e2
        simp at hne
      · exact Or.inr hge

end C10.Buddy
