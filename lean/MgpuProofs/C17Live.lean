import MgpuProofs.C17Sem
/-! C17 liveness, part 1: a weight for every in-flight request (the number of ticks it still needs when nothing
is in its way), the domination relation between weighted chains, and the pipeline / delay-queue phases. -/
namespace C17

/-! ### weighted lists -/

abbrev WL := List (Req × Nat)

/-- same requests in the same order, no weight larger -/
inductive Dom : WL → WL → Prop
  | nil : Dom [] []
  | cons {r : Req} {w w' : Nat} {l l' : WL} : w' ≤ w → Dom l l' → Dom ((r, w) :: l) ((r, w') :: l')

theorem Dom.refl : ∀ l : WL, Dom l l
  | [] => .nil
  | (_, _) :: l => .cons (Nat.le_refl _) (Dom.refl l)

theorem Dom.trans {a b d : WL} (h1 : Dom a b) (h2 : Dom b d) : Dom a d := by
  induction h1 generalizing d with
  | nil => exact h2
  | cons hw _ ih =>
    cases h2 with
    | cons hw' h2' => exact .cons (Nat.le_trans hw' hw) (ih h2')

theorem Dom.append {a a' b b' : WL} (h1 : Dom a a') (h2 : Dom b b') : Dom (a ++ b) (a' ++ b') := by
  induction h1 with
  | nil => exact h2
  | cons hw _ ih => exact .cons hw ih

theorem Dom.length {a b : WL} (h : Dom a b) : a.length = b.length := by
  induction h with
  | nil => rfl
  | cons _ _ ih => simp [ih]

theorem Dom.nil_right {a b : WL} (h : Dom a b) (ha : a = []) : b = [] := by
  cases h with
  | nil => rfl
  | cons _ _ => cases ha

/-- weight of the first element (0 for the empty list) -/
def hd : WL → Nat
  | [] => 0
  | a :: _ => a.2

/-- the first element got strictly lighter -/
def Strict (old new : WL) : Prop := old ≠ [] → hd new < hd old

theorem Dom.hd_le {a b : WL} (h : Dom a b) : hd b ≤ hd a := by
  cases h with
  | nil => exact Nat.le_refl _
  | cons hw _ => exact hw

theorem Strict.trans_dom {a b d : WL} (h1 : Strict a b) (h2 : Dom b d) : Strict a d :=
  fun hne => Nat.lt_of_le_of_lt h2.hd_le (h1 hne)

theorem Strict.dom_trans {a b d : WL} (h1 : Dom a b) (h2 : Strict b d) : Strict a d := by
  intro hne
  have hb : b ≠ [] := by
    intro hb; subst hb
    have := h1.length; simp at this; exact hne this
  exact Nat.lt_of_lt_of_le (h2 hb) h1.hd_le

theorem hd_append (a b : WL) (h : a ≠ []) : hd (a ++ b) = hd a := by
  cases a with
  | nil => exact absurd rfl h
  | cons x t => rfl

theorem Strict.append {a a' : WL} (b b' : WL) (hd' : Dom a a') (h : Strict a a') (hne : a ≠ []) :
    Strict (a ++ b) (a' ++ b') := by
  intro _
  have hne' : a' ≠ [] := by
    intro h'; subst h'
    have := hd'.length; simp at this; exact hne this
  rw [hd_append _ _ hne, hd_append _ _ hne']
  exact h hne

/-- sum of the weights up to and including request `r`; `none` when `r` is not in the list -/
def costTo (r : Req) : WL → Option Nat
  | [] => none
  | (q, w) :: rest => if q = r then some w else (costTo r rest).map (w + ·)

theorem costTo_none_iff (r : Req) (l : WL) : costTo r l = none ↔ r ∉ l.map (·.1) := by
  induction l with
  | nil => simp [costTo]
  | cons a l ih =>
    obtain ⟨q, w⟩ := a
    simp only [costTo, List.map_cons, List.mem_cons, not_or]
    by_cases hq : q = r
    · simp [hq]
    · simp only [hq, if_false, Option.map_eq_none_iff, ih]
      constructor
      · intro h; exact ⟨fun e => hq e.symm, h⟩
      · intro h; exact h.2

theorem Dom.cost_le {a b : WL} (h : Dom a b) (r : Req) :
    (costTo r a = none → costTo r b = none) ∧
    (∀ m, costTo r a = some m → ∃ m', costTo r b = some m' ∧ m' ≤ m) := by
  induction h with
  | nil => simp [C17.costTo]
  | @cons q w w' l l' hw _ ih =>
    simp only [C17.costTo]
    by_cases hq : q = r
    · simp only [hq, if_true]
      exact ⟨fun h => (by cases h), fun m hm => ⟨w', rfl, by cases hm; exact hw⟩⟩
    · simp only [hq, if_false]
      constructor
      · intro hn
        rw [Option.map_eq_none_iff] at hn ⊢
        exact ih.1 hn
      · intro m hm
        rw [Option.map_eq_some_iff] at hm
        obtain ⟨m0, hm0, rfl⟩ := hm
        obtain ⟨m1, hm1, hle⟩ := ih.2 m0 hm0
        exact ⟨w' + m1, by rw [hm1]; rfl, by omega⟩

/-- when in addition the first element got lighter, every prefix sum got smaller -/
theorem Dom.cost_lt {a b : WL} (h : Dom a b) (hs : Strict a b) (r : Req) (m : Nat)
    (hm : costTo r a = some m) : ∃ m', costTo r b = some m' ∧ m' < m := by
  cases h with
  | nil => simp [C17.costTo] at hm
  | @cons q w w' l l' hw hl =>
    have hlt : w' < w := hs (by simp)
    simp only [C17.costTo] at hm ⊢
    by_cases hq : q = r
    · simp only [hq, if_true] at hm ⊢
      cases hm; exact ⟨w', rfl, hlt⟩
    · simp only [hq, if_false] at hm ⊢
      rw [Option.map_eq_some_iff] at hm
      obtain ⟨m0, hm0, rfl⟩ := hm
      obtain ⟨m1, hm1, hle⟩ := (hl.cost_le r).2 m0 hm0
      exact ⟨w' + m1, by rw [hm1]; rfl, by omega⟩

/-- dropping a prefix (answered requests): the cost of the others shrinks, strictly when something was dropped -/
theorem costTo_drop (r : Req) : ∀ (j : Nat) (l : WL), (l.map (·.1)).Nodup → (∀ a ∈ l, 1 ≤ a.2) →
    (costTo r l = none → costTo r (l.drop j) = none) ∧
    (∀ m, costTo r l = some m → costTo r (l.drop j) = none ∨
      ∃ m', costTo r (l.drop j) = some m' ∧ m' ≤ m ∧ (1 ≤ j → m' < m)) := by
  intro j
  induction j with
  | zero =>
    intro l _ _
    simp only [List.drop_zero]
    exact ⟨id, fun m hm => Or.inr ⟨m, hm, Nat.le_refl _, fun h => absurd h (by omega)⟩⟩
  | succ j ih =>
    intro l hnd hpos
    cases l with
    | nil => simp [costTo]
    | cons a l =>
      obtain ⟨q, w⟩ := a
      have hnd0 : (q :: l.map (·.1)).Nodup := by simpa using hnd
      have hnd' : (l.map (·.1)).Nodup := (List.nodup_cons.1 hnd0).2
      have hq' : q ∉ l.map (·.1) := (List.nodup_cons.1 hnd0).1
      have hpos' : ∀ a ∈ l, 1 ≤ a.2 := fun a ha => hpos a (by simp [ha])
      have hw : 1 ≤ w := hpos (q, w) (by simp)
      obtain ⟨i1, i2⟩ := ih l hnd' hpos'
      simp only [List.drop_succ_cons, costTo]
      by_cases hq : q = r
      · subst hq
        simp only [if_true]
        have hn : costTo q l = none := (costTo_none_iff q l).2 hq'
        exact ⟨fun h => (by cases h), fun m _ => Or.inl (i1 hn)⟩
      · simp only [hq, if_false]
        constructor
        · intro hn
          rw [Option.map_eq_none_iff] at hn
          exact i1 hn
        · intro m hm
          rw [Option.map_eq_some_iff] at hm
          obtain ⟨m0, hm0, rfl⟩ := hm
          rcases i2 m0 hm0 with h | ⟨m', h1, h2, _⟩
          · exact Or.inl h
          · exact Or.inr ⟨m', h1, by omega, fun _ => by omega⟩

/-! ### weights -/

/-- ticks one pipeline stage takes (`cyclePerStage`, at least 1) -/
def stageCost (c : Cfg) : Nat := (c.lat - 1) + 1

/-- items of a lane with their weights; `j` = distance of the first listed stage from the exit.
An item with `left` cycles to go in stage `j` needs `left + j·stageCost + 2` ticks when nothing is in its way
(… then one tick into the post-pipeline buffer, one tick to be answered). -/
def wLane (c : Cfg) : Nat → Lane → WL
  | _, [] => []
  | j, none :: rest => wLane c (j + 1) rest
  | j, some (it, left) :: rest => (it.req, left + j * stageCost c + 2) :: wLane c (j + 1) rest

/-- weight of an item that has just entered a pipeline of `c.depth` stages -/
def wEntry (c : Cfg) : Nat := c.depth * stageCost c + 1

def wPost (l : List Item) : WL := l.map fun it => (it.req, 1)
def wDq (c : Cfg) (l : List (Item × Nat)) : WL := l.map fun d => (d.1.req, max d.2 1 + wEntry c)
def wPend (c : Cfg) : Nat := max c.miss 1 + wEntry c + 1

@[simp] theorem wLane_nil (c : Cfg) (j : Nat) : wLane c j [] = [] := rfl
@[simp] theorem wLane_none (c : Cfg) (j : Nat) (l : Lane) : wLane c j (none :: l) = wLane c (j + 1) l := rfl
@[simp] theorem wLane_some (c : Cfg) (j : Nat) (x : Item × Nat) (l : Lane) :
    wLane c j (some x :: l) = (x.1.req, x.2 + j * stageCost c + 2) :: wLane c (j + 1) l := rfl

theorem wLane_reqs (c : Cfg) : ∀ (l : Lane) (j : Nat), (wLane c j l).map (·.1) = (laneItems l).map (·.req) := by
  intro l
  induction l with
  | nil => intro j; rfl
  | cons s l ih =>
    intro j
    cases s with
    | none => simp [ih]
    | some x => simp [ih]

theorem wLane_pos (c : Cfg) : ∀ (l : Lane) (j : Nat), ∀ a ∈ wLane c j l, 1 ≤ a.2 := by
  intro l
  induction l with
  | nil => intro j a h; simp at h
  | cons s l ih =>
    intro j a h
    cases s with
    | none => exact ih (j + 1) a (by simpa using h)
    | some x =>
      simp only [wLane_some, List.mem_cons] at h
      rcases h with rfl | h
      · simp
      · exact ih (j + 1) a h

/-! ### `advance` and `tickLane` -/

theorem advance_some_head (lat : Nat) (x : Item × Nat) (rest : Lane) :
    ∃ t, advance lat (some x) rest = some x :: t := by
  cases rest with
  | nil => exact ⟨[], rfl⟩
  | cons b rest =>
    cases b with
    | none => exact ⟨_, rfl⟩
    | some p =>
      obtain ⟨it, left⟩ := p
      simp only [advance]
      split
      · exact ⟨_, rfl⟩
      · exact ⟨_, rfl⟩

theorem advance_length (lat : Nat) (rest : Lane) : ∀ a, (advance lat a rest).length = rest.length + 1 := by
  induction rest with
  | nil => intro a; rfl
  | cons b rest ih =>
    intro a
    cases b with
    | none => simp [advance, ih]
    | some p =>
      obtain ⟨it, left⟩ := p
      simp only [advance]
      split
      · simp [ih]
      · cases a <;> simp [ih]

theorem advance_dom (c : Cfg) (rest : Lane) : ∀ (a : Stage) (j : Nat),
    Dom (wLane c j (a :: rest)) (wLane c j (advance c.lat a rest)) := by
  induction rest with
  | nil => intro a j; exact Dom.refl _
  | cons b rest ih =>
    intro a j
    have pre : ∀ (x y : Lane), Dom (wLane c (j + 1) x) (wLane c (j + 1) y) →
        Dom (wLane c j (a :: x)) (wLane c j (a :: y)) := by
      intro x y h
      cases a with
      | none => simpa using h
      | some p => simpa using Dom.cons (Nat.le_refl _) h
    cases b with
    | none =>
      simp only [advance]
      exact pre _ _ (ih none (j + 1))
    | some p =>
      obtain ⟨it, left⟩ := p
      simp only [advance]
      split
      · rename_i hl
        apply pre
        refine Dom.trans ?_ (ih (some (it, left - 1)) (j + 1))
        simp only [wLane_some]
        exact Dom.cons (by omega) (Dom.refl _)
      · rename_i hl
        have hl0 : left = 0 := by omega
        subst hl0
        cases a with
        | none =>
          simp only [wLane_none, wLane_some]
          refine Dom.cons ?_ ?_
          · simp only [stageCost, Nat.add_mul]; omega
          · simpa using ih none (j + 1)
        | some q =>
          apply pre
          exact ih (some (it, 0)) (j + 1)

/-- with a free stage in front, the first item of the lane gets strictly closer to the exit -/
theorem advance_strict (c : Cfg) (rest : Lane) : ∀ (j : Nat),
    Strict (wLane c j (none :: rest)) (wLane c j (advance c.lat none rest)) := by
  induction rest with
  | nil => intro j h; simp at h
  | cons b rest ih =>
    intro j
    cases b with
    | none =>
      simp only [advance, wLane_none]
      have := ih (j + 1)
      simpa using this
    | some p =>
      obtain ⟨it, left⟩ := p
      intro _
      simp only [advance]
      split
      · rename_i hl
        obtain ⟨t, ht⟩ := advance_some_head c.lat (it, left - 1) rest
        simp only [wLane_none, ht, wLane_some, hd]
        omega
      · rename_i hl
        simp only [wLane_none, wLane_some, hd, stageCost, Nat.add_mul]
        omega

theorem tickLane_length (c : Cfg) (post : List Item) (l : Lane) : (tickLane c post l).2.length = l.length := by
  cases l with
  | nil => rfl
  | cons e rest =>
    cases e with
    | none => simp [tickLane, advance_length]
    | some p =>
      obtain ⟨it, left⟩ := p
      simp only [tickLane]
      split
      · simp [advance_length]
      · split <;> simp [advance_length]

theorem tickLane_dom (c : Cfg) (post : List Item) (l : Lane) :
    Dom (wPost post ++ wLane c 0 l) (wPost (tickLane c post l).1 ++ wLane c 0 (tickLane c post l).2) := by
  cases l with
  | nil => exact Dom.refl _
  | cons e rest =>
    cases e with
    | none =>
      simp only [tickLane]
      exact Dom.append (Dom.refl _) (advance_dom c rest none 0)
    | some p =>
      obtain ⟨it, left⟩ := p
      simp only [tickLane]
      split
      · apply Dom.append (Dom.refl _)
        refine Dom.trans ?_ (advance_dom c rest (some (it, left - 1)) 0)
        simp only [wLane_some]
        exact Dom.cons (by omega) (Dom.refl _)
      · split
        · simp only [wPost, List.map_append, List.map_cons, List.map_nil, List.append_assoc, wLane_some]
          apply Dom.append (Dom.refl _)
          simp only [List.cons_append, List.nil_append]
          refine Dom.cons (by omega) ?_
          simpa using advance_dom c rest none 0
        · exact Dom.append (Dom.refl _) (advance_dom c rest (some (it, left)) 0)

/-- with an empty post-pipeline buffer (capacity ≥ 1) the first item of the lane makes a step -/
theorem tickLane_strict (c : Cfg) (hp : 0 < c.post) (l : Lane) :
    Strict (wPost [] ++ wLane c 0 l) (wPost (tickLane c [] l).1 ++ wLane c 0 (tickLane c [] l).2) := by
  cases l with
  | nil => intro h; simp [wPost] at h
  | cons e rest =>
    cases e with
    | none =>
      simp only [tickLane, wPost, List.map_nil, List.nil_append]
      exact advance_strict c rest 0
    | some p =>
      obtain ⟨it, left⟩ := p
      intro _
      simp only [tickLane]
      split
      · obtain ⟨t, ht⟩ := advance_some_head c.lat (it, left - 1) rest
        simp only [wPost, List.map_nil, List.nil_append, ht, wLane_some, hd]
        omega
      · simp only [List.length_nil, hp, if_true, wPost, List.map_nil, List.nil_append, List.map_cons,
          List.cons_append, wLane_some, hd]
        omega

/-! ### `acceptLane`, delay queue -/

theorem acceptLane_w (c : Cfg) (x : Item × Nat) : ∀ (l l' : Lane) (j : Nat), acceptLane x l = some l' →
    wLane c j l' = wLane c j l ++ [(x.1.req, x.2 + (j + l.length - 1) * stageCost c + 2)] ∧
    l'.length = l.length := by
  intro l
  induction l with
  | nil => intro l' j h; simp [acceptLane] at h
  | cons s rest ih =>
    intro l' j h
    cases rest with
    | nil =>
      simp only [acceptLane] at h
      split at h
      · cases s with
        | none => cases h; simp
        | some _ => simp at *
      · simp at h
    | cons s2 rest2 =>
      simp only [acceptLane, Option.map_eq_some_iff] at h
      obtain ⟨l2, h2, rfl⟩ := h
      obtain ⟨i1, i2⟩ := ih l2 (j + 1) (by simpa [acceptLane] using h2)
      have e : j + 1 + (s2 :: rest2).length - 1 = j + (s :: s2 :: rest2).length - 1 := by
        simp only [List.length_cons]; omega
      rw [e] at i1
      refine ⟨?_, by simp [i2]⟩
      cases s with
      | none => simp only [wLane_none]; exact i1
      | some y => simp only [wLane_some, i1, List.cons_append]

/-- a lane without items accepts -/
theorem acceptLane_free (x : Item × Nat) : ∀ (l : Lane), laneItems l = [] → l ≠ [] → ∃ l', acceptLane x l = some l' := by
  intro l
  induction l with
  | nil => intro _ h; exact absurd rfl h
  | cons s rest ih =>
    intro hi _
    cases s with
    | some y => simp at hi
    | none =>
      cases rest with
      | nil => exact ⟨[some x], by simp [acceptLane]⟩
      | cons s2 rest2 =>
        obtain ⟨l2, h2⟩ := ih (by simpa using hi) (by simp)
        exact ⟨none :: l2, by simp only [acceptLane] at h2 ⊢; rw [h2]; rfl⟩

theorem entry_weight (c : Cfg) (n len : Nat) (h1 : 0 < len) (h2 : len ≤ c.depth) :
    (c.lat - 1) + (0 + len - 1) * stageCost c + 2 < max n 1 + wEntry c := by
  have e1 : (0 + len - 1) * stageCost c + stageCost c = len * stageCost c := by
    rw [← Nat.succ_mul]; congr 1; omega
  have e2 : len * stageCost c ≤ c.depth * stageCost c := Nat.mul_le_mul_right _ h2
  simp only [wEntry]
  simp only [stageCost] at *
  omega

theorem acceptLane_ne_nil (x : Item × Nat) (l l' : Lane) (h : acceptLane x l = some l') : 0 < l.length := by
  cases l with
  | nil => simp [acceptLane] at h
  | cons _ _ => simp

theorem delayGo_dom (c : Cfg) (dq : List (Item × Nat)) : ∀ (l : Lane) (rem : List (Item × Nat)), l.length ≤ c.depth →
    ∃ l', (delayGo c dq [l] rem).1 = [l'] ∧ l'.length = l.length ∧
      Dom (wLane c 0 l ++ wDq c rem ++ wDq c dq) (wLane c 0 l' ++ wDq c (delayGo c dq [l] rem).2) := by
  induction dq with
  | nil => intro l rem _; exact ⟨l, rfl, rfl, by simpa [delayGo, wDq] using Dom.refl _⟩
  | cons d rest ih =>
    intro l rem hlen
    obtain ⟨it, n⟩ := d
    have stay : ∃ l', (delayGo c rest [l] (rem ++ [(it, n - 1)])).1 = [l'] ∧ l'.length = l.length ∧
        Dom (wLane c 0 l ++ wDq c rem ++ wDq c ((it, n) :: rest))
          (wLane c 0 l' ++ wDq c (delayGo c rest [l] (rem ++ [(it, n - 1)])).2) := by
      obtain ⟨l', h1, h2, h3⟩ := ih l (rem ++ [(it, n - 1)]) hlen
      refine ⟨l', h1, h2, Dom.trans ?_ h3⟩
      simp only [wDq, List.map_append, List.map_cons, List.map_nil, List.append_assoc]
      apply Dom.append (Dom.refl _)
      apply Dom.append (Dom.refl _)
      exact Dom.cons (by omega) (Dom.refl _)
    simp only [delayGo]
    split
    · rename_i hc
      rw [acceptLanes_single]
      cases ha : acceptLane (it, c.lat - 1) l with
      | none => simpa using stay
      | some l2 =>
        have hr : rem = [] := by simpa using hc.2
        subst hr
        obtain ⟨hw, hl2⟩ := acceptLane_w c (it, c.lat - 1) l l2 0 ha
        obtain ⟨l', h1, h2, h3⟩ := ih l2 [] (by omega)
        refine ⟨l', by simpa using h1, by omega, Dom.trans ?_ (by simpa using h3)⟩
        rw [hw]
        simp only [wDq, List.map_nil, List.append_nil, List.map_cons, List.append_assoc]
        apply Dom.append (Dom.refl _)
        exact Dom.cons (Nat.le_of_lt (entry_weight c n l.length (acceptLane_ne_nil _ _ _ ha) hlen)) (Dom.refl _)
    · exact stay

/-- with the pipeline empty, the first waiting item of the delay queue makes a step -/
theorem delayGo_strict (c : Cfg) (dq : List (Item × Nat)) (l : Lane) (hl : l.length = c.depth) (hd0 : 0 < c.depth)
    (hfree : laneItems l = []) :
    ∃ l', (delayGo c dq [l] []).1 = [l'] ∧
      Strict (wLane c 0 l ++ wDq c [] ++ wDq c dq) (wLane c 0 l' ++ wDq c (delayGo c dq [l] []).2) := by
  have hw0 : wLane c 0 l = [] := by
    have := wLane_reqs c l 0
    rw [hfree] at this
    simpa using this
  cases dq with
  | nil => exact ⟨l, rfl, fun h => by simp [hw0, wDq] at h⟩
  | cons d rest =>
    obtain ⟨it, n⟩ := d
    simp only [delayGo]
    split
    · rename_i hc
      rw [acceptLanes_single]
      obtain ⟨l2, ha⟩ := acceptLane_free (it, c.lat - 1) l hfree (by intro h; subst h; simp at hl; omega)
      rw [ha]
      obtain ⟨hw, hl2⟩ := acceptLane_w c (it, c.lat - 1) l l2 0 ha
      obtain ⟨l', h1, h2, h3⟩ := delayGo_dom c rest l2 [] (by omega)
      refine ⟨l', by simpa using h1, Strict.trans_dom ?_ (by simpa using h3)⟩
      intro _
      rw [hw, hw0]
      simp only [wDq, List.map_nil, List.append_nil, List.map_cons, List.nil_append, List.cons_append, hd]
      exact entry_weight c n l.length (by omega) (by omega)
    · rename_i hc
      obtain ⟨l', h1, h2, h3⟩ := delayGo_dom c rest l ([] ++ [(it, n - 1)]) (by omega)
      refine ⟨l', h1, Strict.trans_dom ?_ h3⟩
      intro _
      rw [hw0]
      simp only [wDq, List.map_nil, List.append_nil, List.map_cons, List.nil_append, List.cons_append, hd]
      simp only [List.isEmpty_nil, and_true] at hc
      omega

/-! ### one bank -/

def wBank (c : Cfg) (b : Bank) : WL := wPost b.post ++ b.lanes.flatMap (wLane c 0) ++ wDq c b.dq

theorem wBank_reqs (c : Cfg) (b : Bank) : (wBank c b).map (·.1) = (bItems b).map (·.req) := by
  have h2 : (b.lanes.flatMap (wLane c 0)).map (·.1) = (b.lanes.flatMap laneItems).map (·.req) := by
    induction b.lanes with
    | nil => rfl
    | cons l ls ih => simp only [List.flatMap_cons, List.map_append, ih, wLane_reqs c l 0]
  simp only [wBank, bItems, List.map_append, h2]
  simp [wPost, wDq, Function.comp_def]

theorem wBank_pos (c : Cfg) (b : Bank) : ∀ a ∈ wBank c b, 1 ≤ a.2 := by
  intro a ha
  simp only [wBank, List.mem_append, wPost, wDq, List.mem_map, List.mem_flatMap] at ha
  rcases ha with (⟨it, _, rfl⟩ | ⟨l, _, h⟩) | ⟨d, _, rfl⟩
  · simp
  · exact wLane_pos c l 0 a h
  · simp only; omega

/-- lanes of a bank have the configured depth -/
def LenOk (c : Cfg) (b : Bank) : Prop := ∀ l ∈ b.lanes, l.length = c.depth

theorem pipe_w (c : Cfg) (b : Bank) (h : W1 b) (hl : LenOk c b) :
    Dom (wBank c b) (wBank c (tickBankPipe c b)) ∧ LenOk c (tickBankPipe c b) ∧
    (0 < c.post → b.post = [] → Strict (wPost b.post ++ b.lanes.flatMap (wLane c 0))
        (wPost (tickBankPipe c b).post ++ (tickBankPipe c b).lanes.flatMap (wLane c 0))) := by
  obtain ⟨l, hl1⟩ := h
  refine ⟨?_, ?_, ?_⟩
  · simp only [wBank, tickBankPipe, hl1, tickLanes, List.flatMap_cons, List.flatMap_nil, List.append_nil]
    exact Dom.append (tickLane_dom c b.post l) (Dom.refl _)
  · intro l' hl'
    simp only [tickBankPipe, hl1, tickLanes, List.mem_singleton] at hl'
    subst hl'
    rw [tickLane_length]; exact hl l (by simp [hl1])
  · intro hp hpost
    simp only [tickBankPipe, hl1, tickLanes, List.flatMap_cons, List.flatMap_nil, List.append_nil, hpost]
    exact tickLane_strict c hp l

theorem delay_w (c : Cfg) (b : Bank) (h : W1 b) (hl : LenOk c b) :
    Dom (wBank c b) (wBank c (tickBankDelay c b)) ∧ LenOk c (tickBankDelay c b) ∧
    (0 < c.depth → b.post = [] → b.lanes.flatMap laneItems = [] → Strict (wBank c b) (wBank c (tickBankDelay c b))) := by
  obtain ⟨l, hl1⟩ := h
  have hlen : l.length = c.depth := hl l (by simp [hl1])
  obtain ⟨l', h1, h2, h3⟩ := delayGo_dom c b.dq l [] (by omega)
  refine ⟨?_, ?_, ?_⟩
  · simp only [wBank, tickBankDelay, hl1, h1, List.flatMap_cons, List.flatMap_nil, List.append_nil, List.append_assoc]
    apply Dom.append (Dom.refl _)
    simpa [wDq] using h3
  · intro l2 hl2
    simp only [tickBankDelay, hl1, h1, List.mem_singleton] at hl2
    subst hl2; omega
  · intro hd0 hpost hfree
    have hfree' : laneItems l = [] := by simpa [hl1] using hfree
    obtain ⟨l2, g1, g2⟩ := delayGo_strict c b.dq l hlen hd0 hfree'
    simp only [wBank, tickBankDelay, hl1, g1, List.flatMap_cons, List.flatMap_nil, List.append_nil, hpost, wPost,
      List.map_nil, List.nil_append]
    simpa [wDq] using g2

/-! ### dispatchPending -/

theorem wPend_gt (c : Cfg) (len : Nat) (h1 : 0 < len) (h2 : len ≤ c.depth) :
    (c.lat - 1) + (0 + len - 1) * stageCost c + 2 < wPend c := by
  have := entry_weight c c.miss len h1 h2
  simp only [wPend]; omega

/-- a dispatched request joins the tail of its bank with a weight below the weight it had while pending -/
theorem dispatchBank_w (c : Cfg) (r : Req) (b b' : Bank) (h : W1 b) (hl : LenOk c b) (hd0 : ¬ rowMode c → b.dq = [])
    (hb : dispatchBank c r b = some b') :
    (∃ w, wBank c b' = wBank c b ++ [(r, w)] ∧ w < wPend c) ∧ LenOk c b' := by
  obtain ⟨l, hl1⟩ := h
  have hlen : l.length = c.depth := hl l (by simp [hl1])
  have acc : ∀ l2 lr, b.dq = [] → acceptLane (fresh r, c.lat - 1) l = some l2 →
      (∃ w, wBank c { b with lanes := [l2], lastRow := lr } = wBank c b ++ [(r, w)] ∧ w < wPend c) ∧
        LenOk c { b with lanes := [l2], lastRow := lr } := by
    intro l2 lr hdq ha
    obtain ⟨hw, hl2⟩ := acceptLane_w c (fresh r, c.lat - 1) l l2 0 ha
    refine ⟨⟨_, ?_, wPend_gt c l.length (acceptLane_ne_nil _ _ _ ha) (by omega)⟩, ?_⟩
    · simp only [wBank, hl1, List.flatMap_cons, List.flatMap_nil, List.append_nil, hw, hdq, wDq, List.map_nil]
      simp [fresh]
    · intro x hx; simp only [List.mem_singleton] at hx; subst hx; omega
  have toq : ∀ n lr, n ≤ c.miss →
      (∃ w, wBank c { b with dq := b.dq ++ [(fresh r, n)], lastRow := lr } = wBank c b ++ [(r, w)] ∧ w < wPend c) ∧
        LenOk c { b with dq := b.dq ++ [(fresh r, n)], lastRow := lr } := by
    intro n lr hn
    refine ⟨⟨max n 1 + wEntry c, ?_, by simp only [wPend]; omega⟩, hl⟩
    simp [wBank, wDq, fresh]
  unfold dispatchBank at hb
  by_cases hrm : c.row > 0 ∧ c.miss > 0
  · rw [if_pos hrm] at hb
    dsimp only at hb
    by_cases hrow : b.lastRow = some (rowOf c r.addr)
    · rw [if_pos hrow] at hb
      by_cases hdq : b.dq.isEmpty = true
      · have hdq' : b.dq = [] := by simpa using hdq
        rw [if_pos hdq, hl1, acceptLanes_single] at hb
        cases ha : acceptLane (fresh r, c.lat - 1) l with
        | none =>
          rw [ha] at hb; simp only [Option.map_none, Option.some.injEq] at hb; subst hb
          rw [← hl1]; exact toq 0 _ (by omega)
        | some l2 =>
          rw [ha] at hb; simp only [Option.map_some, Option.some.injEq] at hb; subst hb
          exact acc l2 _ hdq' ha
      · rw [if_neg hdq] at hb; simp only [Option.some.injEq] at hb; subst hb
        exact toq 0 _ (by omega)
    · rw [if_neg hrow] at hb; simp only [Option.some.injEq] at hb; subst hb
      exact toq c.miss _ (Nat.le_refl _)
  · have hdq := hd0 hrm
    rw [if_neg hrm, hl1, acceptLanes_single] at hb
    cases ha : acceptLane (fresh r, c.lat - 1) l with
    | none => rw [ha] at hb; simp at hb
    | some l2 =>
      rw [ha] at hb; simp only [Option.map_some, Option.some.injEq] at hb; subst hb
      exact acc l2 _ hdq ha

/-- an empty bank takes any request -/
theorem dispatchBank_empty (c : Cfg) (r : Req) (b : Bank) (h : W1 b) (hl : LenOk c b) (hd0 : 0 < c.depth)
    (he : wBank c b = []) : ∃ b', dispatchBank c r b = some b' := by
  obtain ⟨l, hl1⟩ := h
  have hlen : l.length = c.depth := hl l (by simp [hl1])
  have hfree : laneItems l = [] := by
    have := congrArg (List.map (·.1)) he
    rw [wBank_reqs] at this
    have h3 : b.post = [] ∧ laneItems l = [] ∧ b.dq = [] := by simpa [bItems, hl1] using this
    exact h3.2.1
  obtain ⟨l2, ha⟩ := acceptLane_free (fresh r, c.lat - 1) l hfree (by intro h; subst h; simp at hlen; omega)
  unfold dispatchBank
  split
  · dsimp only
    split
    · split
      · rw [hl1, acceptLanes_single, ha]; exact ⟨_, rfl⟩
      · exact ⟨_, rfl⟩
    · exact ⟨_, rfl⟩
  · rw [hl1, acceptLanes_single, ha]; exact ⟨_, rfl⟩

def wBankAt (c : Cfg) (bs : List Bank) (k : Nat) : WL := match bs[k]? with
  | some b => wBank c b
  | none => []

def wPendL (c : Cfg) (k : Nat) (l : List Req) : WL := (l.filter (inB c k)).map fun r => (r, wPend c)
def wTopL (c : Cfg) (k : Nat) (l : List Req) : WL := (l.filter (inB c k)).map fun r => (r, wPend c + 1)

@[simp] theorem wPendL_append (c : Cfg) (k : Nat) (a b : List Req) : wPendL c k (a ++ b) = wPendL c k a ++ wPendL c k b := by
  simp [wPendL]
@[simp] theorem wPendL_nil (c : Cfg) (k : Nat) : wPendL c k [] = [] := rfl

theorem wPendL_cons (c : Cfg) (k : Nat) (r : Req) (l : List Req) :
    wPendL c k (r :: l) = if inB c k r then (r, wPend c) :: wPendL c k l else wPendL c k l := by
  simp only [wPendL, List.filter_cons]; split <;> rfl

def LenAll (c : Cfg) (bs : List Bank) : Prop := ∀ b ∈ bs, LenOk c b

theorem dispatchOne_w (c : Cfg) (k : Nat) (st : List Bank × List Req) (r : Req) (hw : WF c st.1) (hl : LenAll c st.1)
    (hn : Nrem c st) :
    LenAll c (dispatchOne c st r).1 ∧
    ∀ X, Dom (wBankAt c st.1 k ++ wPendL c k (st.2 ++ r :: X))
      (wBankAt c (dispatchOne c st r).1 k ++ wPendL c k ((dispatchOne c st r).2 ++ X)) := by
  cases hlook : st.1[bankOf c r.addr]? with
  | none =>
    have e : dispatchOne c st r = (st.1, st.2 ++ [r]) := by simp [dispatchOne, hlook]
    rw [e]
    exact ⟨hl, fun X => by simpa using Dom.refl _⟩
  | some b =>
    have hbm := List.mem_of_getElem? hlook
    obtain ⟨hw1, hdq⟩ := hw b hbm
    cases hd : dispatchBank c r b with
    | none =>
      have e : dispatchOne c st r = (st.1, st.2 ++ [r]) := by simp [dispatchOne, hlook, hd]
      rw [e]
      exact ⟨hl, fun X => by simpa using Dom.refl _⟩
    | some b' =>
      have e : dispatchOne c st r = (st.1.set (bankOf c r.addr) b', st.2) := by simp [dispatchOne, hlook, hd]
      rw [e]
      obtain ⟨⟨w, hwb, hwlt⟩, hl'⟩ := dispatchBank_w c r b b' hw1 (hl b hbm) hdq hd
      have hne : ∀ r' ∈ st.2, bankOf c r'.addr ≠ bankOf c r.addr := by
        intro r' hr' he
        have := hn r' hr' b (by rw [he]; exact hlook) r
        rw [hd] at this; cases this
      refine ⟨?_, ?_⟩
      · intro x hx
        rcases List.mem_or_eq_of_mem_set hx with hx | rfl
        · exact hl x hx
        · exact hl'
      · intro X
        simp only
        by_cases hk : bankOf c r.addr = k
        · subst hk
          have hlt : bankOf c r.addr < st.1.length := (List.getElem?_eq_some_iff.1 hlook).1
          have hf : wPendL c (bankOf c r.addr) st.2 = [] := by
            simp only [wPendL, List.map_eq_nil_iff, List.filter_eq_nil_iff]
            intro r' hr'; simpa [inB] using hne r' hr'
          have hin : inB c (bankOf c r.addr) r = true := by simp [inB]
          simp only [wBankAt, List.getElem?_set_self hlt, hlook, hwb, wPendL_append, hf, wPendL_cons, hin, if_true,
            List.nil_append, List.append_assoc]
          apply Dom.append (Dom.refl _)
          exact Dom.cons (Nat.le_of_lt hwlt) (Dom.refl _)
        · have : inB c k r = false := by simp [inB, hk]
          simp only [wBankAt, List.getElem?_set_ne hk, wPendL_append, wPendL_cons, this]
          exact Dom.refl _

theorem dispatch_fold_w (c : Cfg) (k : Nat) : ∀ (todo : List Req) (st : List Bank × List Req),
    WF c st.1 → LenAll c st.1 → Nrem c st →
    LenAll c (todo.foldl (dispatchOne c) st).1 ∧
    Dom (wBankAt c st.1 k ++ wPendL c k (st.2 ++ todo))
      (wBankAt c (todo.foldl (dispatchOne c) st).1 k ++ wPendL c k (todo.foldl (dispatchOne c) st).2) := by
  intro todo
  induction todo with
  | nil => intro st _ hl _; exact ⟨hl, by simpa using Dom.refl _⟩
  | cons r rest ih =>
    intro st hw hl hn
    obtain ⟨hw', hn', _⟩ := dispatchOne_step c k st r hw hn
    obtain ⟨hl', hd⟩ := dispatchOne_w c k st r hw hl hn
    obtain ⟨hl'', hd''⟩ := ih _ hw' hl' hn'
    exact ⟨hl'', Dom.trans (hd rest) hd''⟩

end C17
