import MgpuProofs.C01MapDefs
import MgpuProofs.C01CopyFinal
/-! # C01 — element-wise ("map") kernels: from one wavefront to the whole dispatch

`C01MapDefs.lean` states what a per-kernel symbolic execution has to deliver (`WaveRun`).  This file lifts
any `WaveRun` to the dispatch, generically in the program `P`, its length `nInst`, and the stored dword
`val`: the work-groups the grid builder produces, the single wavefront each of them forms, its initial
registers (`wave0_sees`), the per-wavefront write description (`wave_spec`), the fold over the work-groups
(`runE_effect`) and the read-out of the final memory (`map_final`, `map_run`).  It is the generalisation of
`C01CopyGrid.lean` / `C01CopyFinal.lean` (which do this for the driver's `copyKernel`). -/
set_option linter.unusedSimpArgs false
set_option linter.unusedVariables false
set_option maxRecDepth 100000
namespace C01.Emu.Map
open C03V

/-! ## the initial registers of a wavefront -/

theorem sgprInit_disp (c : Cfg) (ka pk : List Nat) (k : Nat) :
    sgprInit (disp c ka pk) (k, 0, 0) =
      [(4, c.pa % two32), (5, c.pa / two32 % two32), (6, c.ka % two32), (7, c.ka / two32 % two32), (8, k % two32)] := rfl

theorem wave0_rs (c : Cfg) (ka pk : List Nat) (k s i : Nat) :
    (wave0 c ka pk k s).st.rs i = if i = 8 then k % two32 else if i = 7 then c.ka / two32 % two32 else if i = 6 then c.ka % two32
      else if i = 5 then c.pa / two32 % two32 else if i = 4 then c.pa % two32 else 0 := by
  unfold St.rs wave0 initWave
  simp only [sgprInit_disp, List.foldl_cons, List.foldl_nil]
  rw [getD_setIfInBounds, getD_setIfInBounds, getD_setIfInBounds, getD_setIfInBounds, getD_setIfInBounds]
  simp only [Array.size_setIfInBounds, Array.size_replicate]
  by_cases h8 : i = 8
  · subst h8; simp
  by_cases h7 : i = 7
  · subst h7; simp
  by_cases h6 : i = 6
  · subst h6; simp
  by_cases h5 : i = 5
  · subst h5; simp
  by_cases h4 : i = 4
  · subst h4; simp
  have e8 : ¬ 8 = i := fun e => h8 e.symm
  have e7 : ¬ 7 = i := fun e => h7 e.symm
  have e6 : ¬ 6 = i := fun e => h6 e.symm
  have e5 : ¬ 5 = i := fun e => h5 e.symm
  have e4 : ¬ 4 = i := fun e => h4 e.symm
  simp only [h8, h7, h6, h5, h4, e8, e7, e6, e5, e4, false_and, if_false]
  rw [Array.getD_eq_getD_getElem?, Array.getElem?_replicate]
  split <;> rfl

theorem wave0_pc (c : Cfg) (ka pk : List Nat) (k s : Nat) : (wave0 c ka pk k s).st.pc = c.co := Nat.add_zero _
theorem wave0_exec (c : Cfg) (ka pk : List Nat) (k s : Nat) : (wave0 c ka pk k s).st.exec = 2 ^ s - 1 := rfl
theorem wave0_completed (c : Cfg) (ka pk : List Nat) (k s : Nat) : (wave0 c ka pk k s).completed = false := rfl

theorem wave0_rv0 (c : Cfg) (ka pk : List Nat) (k s lane : Nat) (hl : lane < 64) :
    (wave0 c ka pk k s).st.rv 0 lane = lane := by
  unfold wave0
  rw [Copy.initWave_rv0 _ _ _ lane hl]
  show (C08.laneRegs false 0 (C08.decodeId 64 1 (0 + lane))).1 = lane
  simp only [C08.laneRegs, C08.decodeId, Bool.false_eq_true, if_false]
  omega

/-- the state a wavefront of work-group `k` starts in, running on memory `m` and LDS `l`, as a `View` -/
theorem wave0_sees (c : Cfg) (ka pk : List Nat) (k s : Nat) (m l : Mem)
    (hpa : c.pa < 2 ^ 64) (hka : c.ka < 2 ^ 64) (hk : k < 2 ^ 32) :
    ∃ V : View, Sees { (wave0 c ka pk k s).st with mem := m, lds := l } V ∧ V.pc = c.co ∧ V.exec = 2 ^ s - 1 ∧
      V.rs 4 = c.pa % 2 ^ 32 ∧ V.rs 5 = c.pa / 2 ^ 32 ∧ V.rs 6 = c.ka % 2 ^ 32 ∧ V.rs 7 = c.ka / 2 ^ 32 ∧ V.rs 8 = k ∧
      (∀ lane, lane < 64 → V.rv 0 lane = lane) ∧ V.mem = get m := by
  have hpc := wave0_pc c ka pk k s
  have hexec := wave0_exec c ka pk k s
  have hssz : (wave0 c ka pk k s).st.s.size = 128 := Copy.initWave_ssz _ _ _
  have hvsz : (wave0 c ka pk k s).st.v.size = 16384 := Copy.initWave_vsz _ _ _
  have hrs := wave0_rs c ka pk k s
  have hrv0 := wave0_rv0 c ka pk k s
  generalize wave0 c ka pk k s = w at hpc hexec hssz hvsz hrs hrv0 ⊢
  refine ⟨{ pc := c.co, exec := 2 ^ s - 1, vcc := w.st.vcc, rs := w.st.rs, rv := w.st.rv, mem := get m },
    ⟨hssz, hvsz, hpc, hexec, rfl, fun _ _ => rfl, fun _ _ _ _ => rfl, fun _ => rfl⟩,
    rfl, rfl, ?_, ?_, ?_, ?_, ?_, ?_, rfl⟩
  · show w.st.rs 4 = _
    rw [hrs]; rfl
  · show w.st.rs 5 = _
    rw [hrs]
    simp only [show ¬ (5 : Nat) = 8 by decide, show ¬ (5 : Nat) = 7 by decide, show ¬ (5 : Nat) = 6 by decide, if_false, if_true]
    exact Nat.mod_eq_of_lt (by unfold two32; omega)
  · show w.st.rs 6 = _
    rw [hrs]; rfl
  · show w.st.rs 7 = _
    rw [hrs]
    simp only [show ¬ (7 : Nat) = 8 by decide, if_false, if_true]
    exact Nat.mod_eq_of_lt (by unfold two32; omega)
  · show w.st.rs 8 = _
    rw [hrs]
    simp only [if_true]
    exact Nat.mod_eq_of_lt (by unfold two32; omega)
  · exact hrv0

/-! ## the lanes that store, and where -/

theorem execMask_bit (c : Cfg) (n msk l : Nat) (hl : l < 64) :
    (execMask c n msk).testBit l = (msk.testBit l && decide (c.lo + 64 * n + l < c.lim)) := by
  unfold execMask
  rw [Nat.testBit_and, Copy.testBit_mask]
  simp only [hl, decide_true, Bool.true_and]
  cases msk.testBit l <;> simp

/-- lanes of the wavefront that store: enabled and in range -/
theorem mem_exec_lanes (c : Cfg) (k s l : Nat) (hs : s ≤ 64) :
    l ∈ lanesOf (execMask c k (2 ^ s - 1)) ↔ l < s ∧ c.lo + 64 * k + l < c.lim := by
  rw [mem_lanesOf]
  constructor
  · rintro ⟨hl, hb⟩
    rw [execMask_bit c k _ l hl, Copy.testBit_low] at hb
    simpa using hb
  · rintro ⟨h1, h2⟩
    have hl : l < 64 := by omega
    refine ⟨hl, ?_⟩
    rw [execMask_bit c k _ l hl, Copy.testBit_low]
    simp [h1, h2]

/-- a lane that stores handles an element of the written range -/
theorem lane_elem (c : Cfg) (k s l : Nat) (hkG : 64 * k + s ≤ c.G) (h1 : l < s) (h2 : c.lo + 64 * k + l < c.lim) :
    c.lo ≤ c.lo + 64 * k + l ∧ c.lo + 64 * k + l < c.lo + c.K := by
  unfold Cfg.K
  omega

theorem wavePairs_keys (c : Cfg) (val : (Nat → Nat) → Nat → Nat) (m : Nat → Nat) (k s : Nat) (hs : s ≤ 64)
    (hkG : 64 * k + s ≤ c.G) (p : Nat × Nat) (h : p ∈ wavePairs c val m k (2 ^ s - 1)) : c.inDst p.1 := by
  unfold wavePairs at h
  obtain ⟨l, hl, hp⟩ := List.mem_flatMap.mp h
  obtain ⟨h1, h2⟩ := (mem_exec_lanes c k s l hs).mp hl
  obtain ⟨h3, h4⟩ := Copy.storePairs_keys _ _ p hp
  obtain ⟨h5, h6⟩ := lane_elem c k s l hkG h1 h2
  unfold Cfg.inDst
  constructor <;> omega

theorem wavePairs_congr (c : Cfg) (val : (Nat → Nat) → Nat → Nat)
    (hstable : ∀ f m : Nat → Nat, Agree c f m → ∀ e, c.lo ≤ e → e < c.lo + c.K → val m e = val f e)
    (f0 m : Nat → Nat) (hag : Agree c f0 m) (k s : Nat) (hs : s ≤ 64) (hkG : 64 * k + s ≤ c.G) :
    wavePairs c val m k (2 ^ s - 1) = wavePairs c val f0 k (2 ^ s - 1) := by
  unfold wavePairs
  apply flatMap_congr'
  intro l hl
  obtain ⟨h1, h2⟩ := (mem_exec_lanes c k s l hs).mp hl
  obtain ⟨h5, h6⟩ := lane_elem c k s l hkG h1 h2
  rw [hstable f0 m hag _ h5 h6]

theorem fuel_bound (lo k s G : Nat) (h : 64 * k + s ≤ G) (hs : 1 ≤ s) (hG : lo + G + 63 ≤ 2 ^ 31) :
    lo + 64 * k + 64 ≤ 2 ^ 31 ∧ k < 2 ^ 32 := by omega

/-! ## one wavefront -/

/-- the wavefront of work-group `k` (row of `s` items) has a write description -/
theorem wave_spec (P : Program) (nInst : Nat) (val : (Nat → Nat) → Nat → Nat) (c : Cfg) (Pre : (Nat → Nat) → Prop)
    (hrun : WaveRun P nInst val c Pre)
    (hstable : ∀ f m : Nat → Nat, Agree c f m → ∀ e, c.lo ≤ e → e < c.lo + c.K → val m e = val f e)
    (hG31 : c.lo + c.G + 63 ≤ 2 ^ 31) (hpa : c.pa < 2 ^ 64) (hka : c.ka < 2 ^ 64)
    (f0 : Nat → Nat) (hpre : Pre f0) (ka pk : List Nat) (k s : Nat)
    (hs1 : 1 ≤ s) (hs64 : s ≤ 64) (hkG : 64 * k + s ≤ c.G) (fuel : Nat) :
    WaveSpec P c.co (fuel + nInst) (Ok c f0) (wave0 c ka pk k s) (wavePairs c val f0 k (2 ^ s - 1)) := by
  intro m l hok
  obtain ⟨hn, hk32⟩ := fuel_bound c.lo k s c.G hkG hs1 hG31
  obtain ⟨V, hV, hpc, hexec, h4, h5, h6, h7, h8, hv0, hmem⟩ := wave0_sees c ka pk k s m l hpa hka hk32
  have hag : Agree c f0 V.mem := by rw [hmem]; exact hok
  obtain ⟨st', hrun', hmem'⟩ := hrun f0 hpre k (2 ^ s - 1) hn (Copy.low_mask_lt s hs64)
    (by
      intro lane hl hb
      rw [Copy.testBit_low] at hb
      have : lane < s := by simpa using hb
      omega)
    _ V hV hpc hexec h4 h5 h6 h7 h8 hv0 hag fuel
  have hget : get st'.mem = applyWrites (wavePairs c val f0 k (2 ^ s - 1)) (get m) := by
    funext a
    have := hmem' a
    rw [wavePairs_congr c val hstable f0 V.mem hag k s hs64 hkG, hmem] at this
    exact this
  refine ⟨Wave.mk { st' with mem := [], lds := [] } (Ctl.endpgm == Ctl.endpgm) (Ctl.endpgm == Ctl.barrier),
    st'.mem, st'.lds, ?_, ?_, hget, ?_⟩
  · unfold runWave
    rw [wave0_completed, hrun']
    rfl
  · rfl
  · intro a ha
    show get st'.mem a = f0 a
    rw [hget, Copy.applyWrites_not_key _ _ _
      (fun p hp e => ha (by rw [← e]; exact wavePairs_keys c val f0 k s hs64 hkG p hp))]
    exact hok a ha

/-- a write description of a wavefront that still has to run needs fuel -/
theorem waveSpec_fuel_pos (P : Program) (base fuel : Nat) (Ok : Mem → Prop) (w : Wave) (wr : List (Nat × Nat))
    (h : WaveSpec P base fuel Ok w wr) (hc : w.completed = false) (m : Mem) (hok : Ok m) : fuel ≠ 0 := by
  intro h0
  subst h0
  obtain ⟨w', m', l', hr, _⟩ := h m [] hok
  unfold runWave at hr
  rw [hc] at hr
  simp [runWf] at hr

/-! ## one work-group, all work-groups -/

theorem wavesOf_disp (c : Cfg) (ka pk : List Nat) (k s : Nat) (h1 : 1 ≤ s) (h2 : s ≤ 64) :
    wavesOf (disp c ka pk) ⟨(k, 0, 0), (s, 1, 1)⟩ = [wave0 c ka pk k s] := by
  unfold wavesOf
  show (C08.formWfs 64 1 (C08.spawn (s, 1, 1))).map _ = _
  rw [Copy.formWfs_row s h1 h2]
  rfl

/-- all byte writes of the dispatch, work-group by work-group -/
def allPairs (c : Cfg) (val : (Nat → Nat) → Nat → Nat) (f0 : Nat → Nat) : List (Nat × Nat) :=
  (List.range (C08.nwg c.G 64)).flatMap fun k => wavePairs c val f0 k (2 ^ Copy.rowSize c.G k - 1)

/-- work-group `k` of the dispatch -/
theorem wg_step (P : Program) (nInst : Nat) (val : (Nat → Nat) → Nat → Nat) (c : Cfg) (Pre : (Nat → Nat) → Prop)
    (hrun : WaveRun P nInst val c Pre)
    (hstable : ∀ f m : Nat → Nat, Agree c f m → ∀ e, c.lo ≤ e → e < c.lo + c.K → val m e = val f e)
    (hG : 0 < c.G) (hG31 : c.lo + c.G + 63 ≤ 2 ^ 31) (hpa : c.pa < 2 ^ 64) (hka : c.ka < 2 ^ 64)
    (f0 : Nat → Nat) (hpre : Pre f0) (ka pk : List Nat) (fuel r k : Nat) (hk : k < C08.nwg c.G 64)
    (mm : Mem) (hok : Ok c f0 mm) :
    ∃ m', runWG P c.co (fuel + nInst) (r + 1)
        (wavesOf (disp c ka pk) ⟨(k, 0, 0), (min (c.G - k * 64) 64, 1, 1)⟩) mm [] = .ok m' ∧
      get m' = applyWrites (wavePairs c val f0 k (2 ^ Copy.rowSize c.G k - 1)) (get mm) ∧ Ok c f0 m' := by
  obtain ⟨h1, h2, h3⟩ := Copy.rowSize_ok c.G k hG hk
  show ∃ m', runWG P c.co (fuel + nInst) (r + 1)
    (wavesOf (disp c ka pk) ⟨(k, 0, 0), (Copy.rowSize c.G k, 1, 1)⟩) mm [] = _ ∧ _
  rw [wavesOf_disp c ka pk k _ h1 h2]
  obtain ⟨m', hr, hg, hok'⟩ := runWG_effect P c.co (fuel + nInst) r (Ok c f0)
    (fun _ => wavePairs c val f0 k (2 ^ Copy.rowSize c.G k - 1)) [wave0 c ka pk k (Copy.rowSize c.G k)]
    (by
      intro w hw
      rw [List.mem_singleton] at hw
      subst hw
      exact wave_spec P nInst val c Pre hrun hstable hG31 hpa hka f0 hpre ka pk k _ h1 h2 h3 fuel)
    mm [] hok
  refine ⟨m', hr, ?_, hok'⟩
  rw [hg]
  simp only [List.flatMap_cons, List.flatMap_nil, List.append_nil]

/-- the whole dispatch: the emulator succeeds and the final memory is the launch image with all the
    wavefronts' writes applied -/
theorem runE_effect (P : Program) (nInst : Nat) (val : (Nat → Nat) → Nat → Nat) (c : Cfg) (Pre : (Nat → Nat) → Prop)
    (hrun : WaveRun P nInst val c Pre)
    (hstable : ∀ f m : Nat → Nat, Agree c f m → ∀ e, c.lo ≤ e → e < c.lo + c.K → val m e = val f e)
    (hG : 0 < c.G) (hG31 : c.lo + c.G + 63 ≤ 2 ^ 31) (hpa : c.pa < 2 ^ 64) (hka : c.ka < 2 ^ 64)
    (ka pk : List Nat) (m : Mem) (fuel : Nat)
    (hpre : Pre (get (install c.pa pk (install c.ka ka m)))) :
    ∃ m', runE P (disp c ka pk) (fuel + nInst) m = .ok m' ∧
      get m' = applyWrites (allPairs c val (get (install c.pa pk (install c.ka ka m))))
        (get (install c.pa pk (install c.ka ka m))) := by
  generalize hm0 : install c.pa pk (install c.ka ka m) = m0 at hpre ⊢
  have hok0 : Ok c (get m0) m0 := fun a _ => rfl
  obtain ⟨r, hr⟩ : ∃ r, fuel + nInst = r + 1 := by
    have h0 : 0 < C08.nwg c.G 64 := (C08.lt_nwg c.G 64 0 hG (by decide)).mpr (by omega)
    obtain ⟨h1, h2, h3⟩ := Copy.rowSize_ok c.G 0 hG h0
    have hne := waveSpec_fuel_pos P c.co (fuel + nInst) (Ok c (get m0)) _ _
      (wave_spec P nInst val c Pre hrun hstable hG31 hpa hka (get m0) hpre ka pk 0 _ h1 h2 h3 fuel)
      (wave0_completed c ka pk 0 _) m0 hok0
    exact ⟨fuel + nInst - 1, by omega⟩
  unfold runE
  show ∃ m', (wgList (Copy.geo c.G)).foldlM _ (install c.pa pk (install c.ka ka m)) = _ ∧ _
  rw [hm0, Copy.wgList_geo c.G hG]
  obtain ⟨m', hf, hg, _⟩ := Copy.foldlM_effect
    (fun m wg => runWG P (disp c ka pk).kernelObject (fuel + nInst) (fuel + nInst) (wavesOf (disp c ka pk) wg) m [])
    (Ok c (get m0)) (fun wg => wavePairs c val (get m0) wg.id.1 (2 ^ wg.sz.1 - 1))
    ((List.range (C08.nwg c.G 64)).map fun k => ⟨(k, 0, 0), (min (c.G - k * 64) 64, 1, 1)⟩)
    (by
      intro wg hwg mm hok
      obtain ⟨k, hk, rfl⟩ := List.mem_map.mp hwg
      have hk' := List.mem_range.mp hk
      have h := wg_step P nInst val c Pre hrun hstable hG hG31 hpa hka (get m0) hpre ka pk fuel r k hk' mm hok
      rw [← hr] at h
      exact h)
    m0 hok0
  refine ⟨m', hf, ?_⟩
  rw [hg, List.flatMap_map]
  rfl

/-! ## which bytes are written -/

theorem allPairs_mem (c : Cfg) (val : (Nat → Nat) → Nat → Nat) (hG : 0 < c.G) (f0 : Nat → Nat) (p : Nat × Nat) :
    p ∈ allPairs c val f0 ↔
      ∃ e, c.lo ≤ e ∧ e < c.lo + c.K ∧ p ∈ storePairs (c.dst + 4 * e) (val f0 e) := by
  unfold allPairs
  constructor
  · intro h
    obtain ⟨k, hk, hp⟩ := List.mem_flatMap.mp h
    have hk' := List.mem_range.mp hk
    obtain ⟨h1, h2, h3⟩ := Copy.rowSize_ok c.G k hG hk'
    unfold wavePairs at hp
    obtain ⟨l, hl, hp'⟩ := List.mem_flatMap.mp hp
    obtain ⟨h4, h5⟩ := (mem_exec_lanes c k _ l h2).mp hl
    obtain ⟨h6, h7⟩ := lane_elem c k _ l h3 h4 h5
    exact ⟨c.lo + 64 * k + l, h6, h7, hp'⟩
  · rintro ⟨e, he1, he2, hp⟩
    have hgG : e - c.lo < c.G := by unfold Cfg.K at he2; omega
    have hgN : e < c.lim := by unfold Cfg.K at he2; omega
    obtain ⟨k, x, hk, hx, hkx⟩ := Copy.grid_point c.G (e - c.lo) hG hgG
    have he : e = c.lo + 64 * k + x := by omega
    subst he
    obtain ⟨h1, h2, h3⟩ := Copy.rowSize_ok c.G k hG hk
    apply List.mem_flatMap.mpr
    refine ⟨k, List.mem_range.mpr hk, ?_⟩
    unfold wavePairs
    apply List.mem_flatMap.mpr
    exact ⟨x, (mem_exec_lanes c k _ x h2).mpr ⟨hx, hgN⟩, hp⟩

theorem byteOf_0 (x : Nat) : byteOf x 0 = x % 256 := by
  unfold byteOf
  simp only [Nat.reduceMul, Nat.reducePow]
  omega

theorem byteOf_1 (x : Nat) : byteOf x 1 = x / 256 % 256 := by
  unfold byteOf
  simp only [Nat.reduceMul, Nat.reducePow]
  omega

theorem byteOf_2 (x : Nat) : byteOf x 2 = x / 65536 % 256 := by
  unfold byteOf
  simp only [Nat.reduceMul, Nat.reducePow]
  omega

theorem byteOf_3 (x : Nat) : byteOf x 3 = x / 16777216 % 256 := by
  unfold byteOf
  simp only [Nat.reduceMul, Nat.reducePow]
  omega

/-- the four pairs of a dword store are its four bytes, little-endian -/
theorem mem_storePairs (D x : Nat) (p : Nat × Nat) :
    p ∈ storePairs D x ↔ ∃ j, j < 4 ∧ p = (D + j, byteOf x j) := by
  unfold storePairs
  rw [← byteOf_0 x, ← byteOf_1 x, ← byteOf_2 x, ← byteOf_3 x]
  simp only [List.mem_cons, List.mem_nil_iff, or_false]
  constructor
  · rintro (rfl | rfl | rfl | rfl)
    · exact ⟨0, by decide, rfl⟩
    · exact ⟨1, by decide, rfl⟩
    · exact ⟨2, by decide, rfl⟩
    · exact ⟨3, by decide, rfl⟩
  · rintro ⟨j, hj, rfl⟩
    have : j = 0 ∨ j = 1 ∨ j = 2 ∨ j = 3 := by omega
    rcases this with rfl | rfl | rfl | rfl <;> simp

theorem win_unique (D e e' j j' : Nat) (hj : j < 4) (hj' : j' < 4) (h : D + 4 * e' + j' = D + 4 * e + j) :
    e' = e ∧ j' = j := by omega

/-- a written byte: byte `j` of the dword of its element -/
theorem result_in (c : Cfg) (val : (Nat → Nat) → Nat → Nat) (hG : 0 < c.G) (f0 : Nat → Nat) (e : Nat)
    (he1 : c.lo ≤ e) (he2 : e < c.lo + c.K) (j : Nat) (hj : j < 4) :
    applyWrites (allPairs c val f0) f0 (c.dst + 4 * e + j) = byteOf (val f0 e) j := by
  rw [Copy.applyWrites_consistent (allPairs c val f0) (c.dst + 4 * e + j) (byteOf (val f0 e) j) ?_ f0, if_pos]
  · exact ⟨(c.dst + 4 * e + j, byteOf (val f0 e) j),
      (allPairs_mem c val hG f0 _).mpr ⟨e, he1, he2, (mem_storePairs _ _ _).mpr ⟨j, hj, rfl⟩⟩, rfl⟩
  · intro p hp hpa
    obtain ⟨e', _, _, hps⟩ := (allPairs_mem c val hG f0 p).mp hp
    obtain ⟨j', hj', rfl⟩ := (mem_storePairs _ _ _).mp hps
    obtain ⟨rfl, rfl⟩ := win_unique c.dst e e' j j' hj hj' hpa
    rfl

/-- every other byte keeps its value -/
theorem result_out (c : Cfg) (val : (Nat → Nat) → Nat → Nat) (hG : 0 < c.G) (f0 : Nat → Nat) (a : Nat)
    (ha : ¬ c.inDst a) : applyWrites (allPairs c val f0) f0 a = f0 a := by
  apply Copy.applyWrites_not_key
  intro p hp e
  apply ha
  obtain ⟨e', h1, h2, hps⟩ := (allPairs_mem c val hG f0 p).mp hp
  obtain ⟨h3, h4⟩ := Copy.storePairs_keys _ _ p hps
  unfold Cfg.inDst
  constructor <;> omega

/-! ## the whole dispatch -/

/-- **whole dispatch of a map kernel.**  Given the per-wavefront symbolic execution `hrun` and the stability
    of the stored values under the kernel's own writes (`hstable`: the kernel does not read what it writes),
    the emulator terminates without fault; element `e` of the written range holds the dword `val f0 e`
    (`f0` = the launch image), every byte outside the range is unchanged. -/
theorem map_final (P : Program) (nInst : Nat) (val : (Nat → Nat) → Nat → Nat) (c : Cfg) (Pre : (Nat → Nat) → Prop)
    (hrun : WaveRun P nInst val c Pre)
    (hstable : ∀ f m : Nat → Nat, Agree c f m → ∀ e, c.lo ≤ e → e < c.lo + c.K → val m e = val f e)
    (hG : 0 < c.G) (hG31 : c.lo + c.G + 63 ≤ 2 ^ 31) (hpa : c.pa < 2 ^ 64) (hka : c.ka < 2 ^ 64)
    (ka pk : List Nat) (m : Mem) (fuel : Nat)
    (hpre : Pre (get (install c.pa pk (install c.ka ka m)))) :
    ∃ m', runE P (disp c ka pk) (fuel + nInst) m = .ok m' ∧
      (∀ e, c.lo ≤ e → e < c.lo + c.K → ∀ j, j < 4 →
        get m' (c.dst + 4 * e + j) = byteOf (val (get (install c.pa pk (install c.ka ka m))) e) j) ∧
      (∀ a, ¬ c.inDst a → get m' a = get (install c.pa pk (install c.ka ka m)) a) := by
  obtain ⟨m', hr, hget⟩ := runE_effect P nInst val c Pre hrun hstable hG hG31 hpa hka ka pk m fuel hpre
  refine ⟨m', hr, ?_, ?_⟩
  · intro e he1 he2 j hj
    rw [hget]
    exact result_in c val hG _ e he1 he2 j hj
  · intro a ha
    rw [hget]
    exact result_out c val hG _ a ha

/-- the same for `Emu.run` (the function the correspondence cases execute) -/
theorem map_run (P : Program) (nInst : Nat) (val : (Nat → Nat) → Nat → Nat) (c : Cfg) (Pre : (Nat → Nat) → Prop)
    (hrun : WaveRun P nInst val c Pre)
    (hstable : ∀ f m : Nat → Nat, Agree c f m → ∀ e, c.lo ≤ e → e < c.lo + c.K → val m e = val f e)
    (hG : 0 < c.G) (hG31 : c.lo + c.G + 63 ≤ 2 ^ 31) (hpa : c.pa < 2 ^ 64) (hka : c.ka < 2 ^ 64)
    (hn : nInst ≤ defaultFuel) (ka pk : List Nat) (m : Mem)
    (hpre : Pre (get (install c.pa pk (install c.ka ka m)))) :
    (∀ e, c.lo ≤ e → e < c.lo + c.K → ∀ j, j < 4 →
      get (run P (disp c ka pk) m) (c.dst + 4 * e + j) =
        byteOf (val (get (install c.pa pk (install c.ka ka m))) e) j) ∧
    (∀ a, ¬ c.inDst a → get (run P (disp c ka pk) m) a = get (install c.pa pk (install c.ka ka m)) a) := by
  obtain ⟨m', hr, h1, h2⟩ :=
    map_final P nInst val c Pre hrun hstable hG hG31 hpa hka ka pk m (defaultFuel - nInst) hpre
  have hfuel : defaultFuel = defaultFuel - nInst + nInst := by omega
  have hrun' : run P (disp c ka pk) m = m' := by
    unfold run
    rw [hfuel, hr]
  rw [hrun']
  exact ⟨h1, h2⟩

end C01.Emu.Map
