import MgpuProofs.C03VConfOps
/-! # C03 (vector half) — bit-field extraction: the four Go variants (`v_bfe_u32`, `v_bfe_i32` of both ALUs)
equal the ISA functions `bfeU` / `bfeI`

Bit-level characterisations: bit `j` of `bfeU a o w` is bit `O + j` of `a` for `j < W`, 0 above; bit `j` of
`bfeI a o w` is bit `O + min j (W-1)` of the sign-extended `a` (`C03S.sbit`), 0 for an empty field — with
`O = o[4:0]`, `W = w[4:0]`.  Each Go variant (special case `offset + width < 32`, sign test by and-ing
`1 << (width-1)` or by shifting, fill with `0xffffffff << width` or `~mask`) is shown to have the same bits. -/
namespace C03V.Conf
open C03V C03V.I
set_option linter.unusedSimpArgs false

theorem and31_lt (x : W) : (x &&& 31#32).toNat < 32 := by
  rw [C03S.and31_toNat']; exact Nat.mod_lt _ (by decide)

theorem beq_zero_iff (w : W) : (w == 0#32) = decide (w.toNat = 0) := by
  apply Bool.eq_iff_iff.mpr
  simp only [beq_iff_eq, decide_eq_true_eq]
  constructor
  · intro h; rw [h]; rfl
  · intro h; exact BitVec.eq_of_toNat_eq (by simpa using h)

theorem getLsbD_ushr_mask (a : W) (O Wd j : Nat) (hj : j < 32) :
    ((a >>> O) &&& (1#32 <<< Wd - 1#32)).getLsbD j = (a.getLsbD (O + j) && decide (j < Wd)) := by
  simp only [BitVec.getLsbD_and, BitVec.getLsbD_ushiftRight, C03S.getLsbD_mask, hj, decide_true, Bool.true_and]

theorem getLsbD_sshr_mask (a : W) (O Wd j : Nat) (hj : j < 32) :
    ((a.sshiftRight O) &&& (1#32 <<< Wd - 1#32)).getLsbD j = (C03S.sbit a (O + j) && decide (j < Wd)) := by
  simp only [BitVec.getLsbD_and, C03S.getLsbD_sshr32 a O j hj, C03S.getLsbD_mask, hj, decide_true, Bool.true_and]

/-! ## unsigned -/

/-- meaning of `bfeU` bit by bit -/
theorem getLsbD_bfeU (a o w : W) (j : Nat) (hj : j < 32) :
    (bfeU a o w).getLsbD j
      = (a.getLsbD ((o &&& 31#32).toNat + j) && decide (j < (w &&& 31#32).toNat)) := by
  simp only [bfeU, maskW, BitVec.ushiftRight_eq', getLsbD_ushr_mask _ _ _ _ hj]

theorem bfeU_gcn3_core (a o' w' : W) (ho : o'.toNat < 32) (hw : w'.toNat < 32) (j : Nat) (hj : j < 32) :
    (if (w' == 0#32) = true then BitVec.setWidth 32 0#64
     else if (o' + w').ult 32#32 = true then a >>> o'.toNat &&& (1#32 <<< w'.toNat - 1#32)
     else a >>> o'.toNat).getLsbD j = (a.getLsbD (o'.toNat + j) && decide (j < w'.toNat)) := by
  have hsum : (o' + w').toNat = o'.toNat + w'.toNat := by
    simp only [BitVec.toNat_add]; omega
  rw [beq_zero_iff]
  by_cases h0 : w'.toNat = 0
  · simp [h0]
  · simp only [h0, decide_false, Bool.false_eq_true, if_false]
    by_cases h1 : o'.toNat + w'.toNat < 32
    · have : (o' + w').ult 32#32 = true := by simp [BitVec.ult, hsum, h1]
      simp only [this, if_true, getLsbD_ushr_mask _ _ _ _ hj]
    · have : (o' + w').ult 32#32 = false := by simp [BitVec.ult, hsum]; omega
      simp only [this, Bool.false_eq_true, if_false, BitVec.getLsbD_ushiftRight]
      by_cases hjw : j < w'.toNat
      · simp [hjw]
      · simp [hjw, BitVec.getLsbD_of_ge a (o'.toNat + j) (by omega)]

/-- GCN3 `v_bfe_u32`: masks only when `offset + width < 32` -/
theorem bfeU_gcn3 (a o w : W) :
    (if ((w &&& 31#32) == 0#32) = true then BitVec.setWidth 32 0#64
     else if ((o &&& 31#32) + (w &&& 31#32)).ult 32#32 = true then
       a >>> (o &&& 31#32).toNat &&& (1#32 <<< (w &&& 31#32).toNat - 1#32)
     else a >>> (o &&& 31#32).toNat) = bfeU a o w := by
  apply BitVec.eq_of_getLsbD_eq
  intro j hj
  rw [bfeU_gcn3_core a _ _ (and31_lt o) (and31_lt w) j hj, getLsbD_bfeU a o w j hj]

/-- CDNA3 `v_bfe_u32`: the `width >= 32` branch is dead (width is masked to 5 bits) -/
theorem bfeU_cdna3 (a o w : W) :
    (if ((w &&& 31#32) == 0#32) = true then 0#32
     else if (32#32).ule (w &&& 31#32) = true then a >>> (o &&& 31#32).toNat
     else a >>> (o &&& 31#32).toNat &&& (1#32 <<< (w &&& 31#32).toNat - 1#32)) = bfeU a o w := by
  have hw := and31_lt w
  have hdead : (32#32).ule (w &&& 31#32) = false := by
    simp only [BitVec.ule, BitVec.toNat_ofNat, decide_eq_false_iff_not]; omega
  apply BitVec.eq_of_getLsbD_eq
  intro j hj
  rw [getLsbD_bfeU a o w j hj, beq_zero_iff]
  simp only [hdead, Bool.false_eq_true, if_false]
  by_cases h0 : (w &&& 31#32).toNat = 0
  · simp [h0]
  · simp only [h0, decide_false, Bool.false_eq_true, if_false, getLsbD_ushr_mask _ _ _ _ hj]

/-! ## signed -/

/-- meaning of `bfeI` bit by bit: bit `min j (W-1)` of the field of the sign-extended source -/
theorem getLsbD_bfeI (a o w : W) (j : Nat) (hj : j < 32) :
    (bfeI a o w).getLsbD j
      = (decide (0 < (w &&& 31#32).toNat) &&
          C03S.sbit a ((o &&& 31#32).toNat + min j ((w &&& 31#32).toNat - 1))) := by
  simp only [bfeI, maskW]
  generalize (o &&& 31#32).toNat = O
  generalize hWd : (w &&& 31#32).toNat = Wd
  have hW : Wd < 32 := by rw [← hWd]; exact and31_lt w
  by_cases h0 : Wd = 0
  · subst h0; simp
  · have hpos : 0 < Wd := by omega
    have hb : (Wd == 0) = false := by simp [h0]
    simp only [hb, Bool.false_eq_true, if_false, hpos, decide_true, Bool.true_and]
    have hsign : ((a.sshiftRight O) &&& (1#32 <<< Wd - 1#32)).getLsbD (Wd - 1) = C03S.sbit a (O + (Wd - 1)) := by
      rw [getLsbD_sshr_mask a O Wd (Wd - 1) (by omega)]
      have : Wd - 1 < Wd := by omega
      simp [this]
    simp only [hsign]
    by_cases hjw : j < Wd
    · have hm : min j (Wd - 1) = j := by omega
      rw [hm]
      cases hs : C03S.sbit a (O + (Wd - 1)) <;>
        simp only [Bool.false_eq_true, if_false, if_true, BitVec.getLsbD_or, BitVec.getLsbD_not,
          getLsbD_sshr_mask a O Wd j hj, C03S.getLsbD_mask, hj, hjw, decide_true, Bool.and_true, Bool.true_and,
          Bool.not_true, Bool.or_false]
    · have hm : min j (Wd - 1) = Wd - 1 := by omega
      rw [hm]
      cases hs : C03S.sbit a (O + (Wd - 1)) <;>
        simp only [Bool.false_eq_true, if_false, if_true, BitVec.getLsbD_or, BitVec.getLsbD_not,
          getLsbD_sshr_mask a O Wd j hj, C03S.getLsbD_mask, hj, hjw, decide_true, decide_false, Bool.and_false,
          Bool.and_true, Bool.true_and, Bool.not_false, Bool.or_true, Bool.false_or]

theorem sub_one_and31 (w : W) (h : 0 < (w &&& 31#32).toNat) :
    ((w &&& 31#32) - 1#32).toNat = (w &&& 31#32).toNat - 1 := C03S.sub_one_toNat32 _ h

theorem shr_and_one32 (x : W) (k : Nat) : (((x >>> k) &&& 1#32) == 1#32) = x.getLsbD k := by
  have h1 : (1#32) = BitVec.twoPow 32 0 := by decide
  rw [h1, BitVec.and_twoPow, BitVec.getLsbD_ushiftRight, Nat.add_zero]
  cases x.getLsbD k
  · simp; decide
  · simp

theorem getLsbD_fill (Wd j : Nat) (hj : j < 32) : (4294967295#32 <<< Wd).getLsbD j = decide (Wd ≤ j) := by
  have : (4294967295#32) = BitVec.allOnes 32 := by decide
  rw [this, BitVec.getLsbD_shiftLeft, BitVec.getLsbD_allOnes]
  by_cases h : j < Wd
  · simp [h, hj] <;> omega
  · simp [h, hj] <;> omega

theorem bfeI_gcn3_core (a : W) (o' w' : W) (ho : o'.toNat < 32) (hw : w'.toNat < 32) (j : Nat) (hj : j < 32) :
    (if (w' == 0#32) = true then BitVec.setWidth 32 0#64
     else if (o' + w').ult 32#32 = true then
       (if (a >>> o'.toNat &&& (1#32 <<< w'.toNat - 1#32) &&& 1#32 <<< (w' - 1#32).toNat != 0#32) = true then
          a >>> o'.toNat &&& (1#32 <<< w'.toNat - 1#32) ||| 4294967295#32 <<< w'.toNat
        else a >>> o'.toNat &&& (1#32 <<< w'.toNat - 1#32))
     else a.sshiftRight o'.toNat).getLsbD j
      = (decide (0 < w'.toNat) && C03S.sbit a (o'.toNat + min j (w'.toNat - 1))) := by
  have hsum : (o' + w').toNat = o'.toNat + w'.toNat := by
    simp only [BitVec.toNat_add]; omega
  rw [beq_zero_iff]
  by_cases h0 : w'.toNat = 0
  · simp [h0]
  · have hpos : 0 < w'.toNat := by omega
    simp only [h0, decide_false, Bool.false_eq_true, if_false, hpos, decide_true, Bool.true_and]
    by_cases h1 : o'.toNat + w'.toNat < 32
    · have hc : (o' + w').ult 32#32 = true := by simp [BitVec.ult, hsum, h1]
      simp only [hc, if_true]
      rw [C03S.sub_one_toNat32 w' hpos, C03S.and_onebit _ _ (by omega), getLsbD_ushr_mask a _ _ _ (by omega)]
      have hlt : w'.toNat - 1 < w'.toNat := by omega
      simp only [hlt, decide_true, Bool.and_true]
      by_cases hjw : j < w'.toNat
      · have hm : min j (w'.toNat - 1) = j := by omega
        have hs : C03S.sbit a (o'.toNat + j) = a.getLsbD (o'.toNat + j) := C03S.sbit_lt a _ (by omega)
        rw [hm, hs]
        cases a.getLsbD (o'.toNat + (w'.toNat - 1)) <;>
          simp only [Bool.false_eq_true, if_false, if_true, BitVec.getLsbD_or, getLsbD_ushr_mask a _ _ _ hj,
            getLsbD_fill _ _ hj, hjw, decide_true, Bool.and_true, show ¬ w'.toNat ≤ j by omega, decide_false,
            Bool.or_false]
      · have hm : min j (w'.toNat - 1) = w'.toNat - 1 := by omega
        have hs : C03S.sbit a (o'.toNat + (w'.toNat - 1)) = a.getLsbD (o'.toNat + (w'.toNat - 1)) :=
          C03S.sbit_lt a _ (by omega)
        rw [hm, hs]
        cases a.getLsbD (o'.toNat + (w'.toNat - 1)) <;>
          simp only [Bool.false_eq_true, if_false, if_true, BitVec.getLsbD_or, getLsbD_ushr_mask a _ _ _ hj,
            getLsbD_fill _ _ hj, hjw, decide_false, Bool.and_false, show w'.toNat ≤ j by omega, decide_true,
            Bool.or_true, Bool.false_or]
    · have hc : (o' + w').ult 32#32 = false := by simp [BitVec.ult, hsum]; omega
      simp only [hc, Bool.false_eq_true, if_false, C03S.getLsbD_sshr32 a _ j hj]
      by_cases hjw : j < w'.toNat
      · have hm : min j (w'.toNat - 1) = j := by omega
        rw [hm]
      · have hm : min j (w'.toNat - 1) = w'.toNat - 1 := by omega
        rw [hm, C03S.sbit_ge31 a _ (by omega), C03S.sbit_ge31 a _ (by omega)]

/-- GCN3 `v_bfe_i32`: unsigned extract + sign fill when `offset + width < 32`, plain arithmetic shift otherwise -/
theorem bfeI_gcn3 (a o w : W) :
    (if ((w &&& 31#32) == 0#32) = true then BitVec.setWidth 32 0#64
     else if ((o &&& 31#32) + (w &&& 31#32)).ult 32#32 = true then
       (if (a >>> (o &&& 31#32).toNat &&& (1#32 <<< (w &&& 31#32).toNat - 1#32) &&&
              1#32 <<< ((w &&& 31#32) - 1#32).toNat != 0#32) = true then
          a >>> (o &&& 31#32).toNat &&& (1#32 <<< (w &&& 31#32).toNat - 1#32) |||
            4294967295#32 <<< (w &&& 31#32).toNat
        else a >>> (o &&& 31#32).toNat &&& (1#32 <<< (w &&& 31#32).toNat - 1#32))
     else a.sshiftRight (o &&& 31#32).toNat) = bfeI a o w := by
  apply BitVec.eq_of_getLsbD_eq
  intro j hj
  rw [bfeI_gcn3_core a _ _ (and31_lt o) (and31_lt w) j hj, getLsbD_bfeI a o w j hj]

/-- CDNA3 `v_bfe_i32`: arithmetic shift, mask, sign test by shifting, fill with `~mask` -/
theorem bfeI_cdna3 (a o w : W) :
    (if ((w &&& 31#32) == 0#32) = true then 0#32
     else if (w &&& 31#32).ult 32#32 = true then
       (if ((a.sshiftRight (o &&& 31#32).toNat &&& (1#32 <<< (w &&& 31#32).toNat - 1#32)) >>>
              ((w &&& 31#32) - 1#32).toNat &&& 1#32 == 1#32) = true then
          a.sshiftRight (o &&& 31#32).toNat &&& (1#32 <<< (w &&& 31#32).toNat - 1#32) |||
            ~~~(1#32 <<< (w &&& 31#32).toNat - 1#32)
        else a.sshiftRight (o &&& 31#32).toNat &&& (1#32 <<< (w &&& 31#32).toNat - 1#32))
     else a.sshiftRight (o &&& 31#32).toNat) = bfeI a o w := by
  have hw := and31_lt w
  have hlive : (w &&& 31#32).ult 32#32 = true := by
    simp only [BitVec.ult, BitVec.toNat_ofNat, decide_eq_true_eq]; omega
  simp only [hlive, if_true, shr_and_one32, bfeI, maskW]
  rw [beq_zero_iff]
  by_cases h0 : (w &&& 31#32).toNat = 0
  · simp [h0]
  · have hpos : 0 < (w &&& 31#32).toNat := by omega
    have hb : ((w &&& 31#32).toNat == 0) = false := beq_eq_false_iff_ne.mpr h0
    simp only [h0, decide_false, Bool.false_eq_true, if_false, hb, sub_one_and31 w hpos]
    rfl

end C03V.Conf
