import MgpuProofs.C18SysCount
/-! C18 system level, part 4: in the closed system no channel of any engine ever panics.

The engine panics on an ill-typed message (`badtype`), an address outside the remote table
(`bounds`) and a reply for which no transaction exists (`notfound`). With requesters that issue
well-formed requests, a network and responders that only answer what they received, none of them
can happen: the first two by a plain membership invariant (`NodeOk`), the third by the
conservation law `SInv` (a reply in an incoming buffer is a token of a table entry). -/
namespace C18

structure ChOk (route : Nat → Option Nat) (c : Chan) : Prop where
  nofault : c.fault = none
  reqIn : ∀ q ∈ c.reqIn, q.pl ≠ Payload.bad ∧ (route (addrOf q.pl)).isSome = true
  reqOut : ∀ o ∈ c.reqOut, o.pl ≠ Payload.bad
  rspIn : ∀ r ∈ c.rspIn, r.bad = false
  rspCnt : ∀ f, (c.rspIn.map (·.rspTo)).count f ≤ (txF c).count f

theorem extract_some_of_mem {fid : Nat} : ∀ {l : List Tx}, fid ∈ l.map (·.fid) →
    ∃ t r, extract fid l = some (t, r) := by
  intro l
  induction l with
  | nil => intro h; simp at h
  | cons x xs ih =>
    intro h
    unfold extract
    by_cases hx : x.fid = fid
    · simp [hx]
    · simp only [hx, if_false]
      simp only [List.map_cons, List.mem_cons] at h
      rcases h with h | h
      · exact absurd h.symm hx
      · obtain ⟨t, r, he⟩ := ih h
        rw [he]; exact ⟨_, _, rfl⟩

theorem chOk_fwdStep (route : Nat → Option Nat) (cap : Nat) (c : Chan) (h : ChOk route c) :
    ChOk route (fwdStep route cap c).1 := by
  unfold fwdStep
  split
  · exact h
  · next r rest hin =>
    have hr := h.reqIn r (by rw [hin]; exact List.mem_cons_self)
    split
    · next hb => exact absurd hb hr.1
    · split
      · next hn => rw [hn] at hr; simp at hr
      · next dst hdst =>
        split
        · constructor
          · exact h.nofault
          · intro q hq; exact h.reqIn q (by rw [hin]; exact List.mem_cons_of_mem _ hq)
          · intro o ho
            simp only [List.mem_append, List.mem_singleton] at ho
            rcases ho with ho | rfl
            · exact h.reqOut o ho
            · simp only [clonePl_id]; exact hr.1
          · exact h.rspIn
          · intro f
            have := h.rspCnt f
            simp only [txF, List.map_append, List.count_append] at this ⊢
            omega
        · exact h

theorem chOk_rspStep (route : Nat → Option Nat) (cap : Nat) (c : Chan) (h : ChOk route c) :
    ChOk route (rspStep cap c).1 := by
  unfold rspStep
  split
  · exact h
  · next r rest hin =>
    have hb := h.rspIn r (by rw [hin]; exact List.mem_cons_self)
    split
    · next hbad => rw [hb] at hbad; cases hbad
    · have hpos : r.rspTo ∈ c.tx.map (·.fid) := by
        have := h.rspCnt r.rspTo
        simp only [hin, List.map_cons, List.count_cons, beq_self_eq_true, if_true, txF] at this
        exact List.count_pos_iff.mp (by omega)
      obtain ⟨t, tx', he⟩ := extract_some_of_mem hpos
      rw [he]
      simp only
      split
      · have hp := extract_perm he
        constructor
        · exact h.nofault
        · exact h.reqIn
        · exact h.reqOut
        · intro x hx; exact h.rspIn x (by rw [hin]; exact List.mem_cons_of_mem _ hx)
        · intro f
          have := h.rspCnt f
          have h1 := (hp.1.map (·.fid)).count_eq f
          simp only [hin, txF, List.map_cons, List.count_cons, hp.2] at this h1 ⊢
          omega
      · exact h

theorem chOk_l1Loop (route : Nat → Option Nat) (cap : Nat) :
    ∀ (n : Nat) (c : Chan) (p : Bool), ChOk route c → ChOk route (l1Loop route cap n c p).1 := by
  intro n
  induction n with
  | zero => intro c p h; exact h
  | succ n ih =>
    intro c p h
    unfold l1Loop
    split
    · exact h
    · simp only
      split
      · exact ih _ _ (chOk_fwdStep route cap c h)
      · exact chOk_fwdStep route cap c h

def StOk (c : Cfg) (s : St) : Prop := ChOk (routeOut c) s.io ∧ ChOk (routeIn c) s.oi

theorem stOk_dataPhase (c : Cfg) (s : St) (h : StOk c s) : StOk c (dataPhase c s).1 := by
  unfold dataPhase
  simp only
  apply pres_iter (StOk c) _ (pres_guard (StOk c) _ ?_)
  · apply pres_iter (StOk c) _ (pres_guard (StOk c) _ ?_)
    · apply pres_iter (StOk c) _ (pres_guard (StOk c) _ ?_)
      · apply pres_iter (StOk c) _ (pres_guard (StOk c) _ ?_) _ _ h
        intro t ht
        unfold fromL1
        split
        · exact ht
        · exact ⟨chOk_l1Loop _ _ _ _ _ ht.1, ht.2⟩
      · intro t ht; exact ⟨ht.1, chOk_rspStep _ _ _ ht.2⟩
    · intro t ht; exact ⟨ht.1, chOk_fwdStep _ _ _ ht.2⟩
  · intro t ht; exact ⟨chOk_rspStep _ _ _ ht.1, ht.2⟩

theorem stOk_tick (c : Cfg) (s : St) (h : StOk c s) : StOk c (tick c s).1 := by
  unfold tick
  simp only
  apply stOk_dataPhase
  have := ctrlPhase_io c s
  unfold StOk
  rw [this.1, this.2]
  exact h

/-- the part of `ChOk` that the environment maintains by itself -/
structure ChOk0 (route : Nat → Option Nat) (c : Chan) : Prop where
  nofault : c.fault = none
  reqIn : ∀ q ∈ c.reqIn, q.pl ≠ Payload.bad ∧ (route (addrOf q.pl)).isSome = true
  reqOut : ∀ o ∈ c.reqOut, o.pl ≠ Payload.bad
  rspIn : ∀ r ∈ c.rspIn, r.bad = false

structure NodeOk (A : Node) : Prop where
  io : ChOk0 (routeOut A.cfg) A.s.io
  oi : ChOk0 (routeIn A.cfg) A.s.oi
  rin : ∀ x, (routeIn A.cfg x).isSome = true

structure SOk (y : Sys) : Prop where
  node : ∀ (b : Nat) (B : Node), y.nodes[b]? = some B → NodeOk B
  netQ : ∀ m ∈ y.netQ, m.c.pl ≠ Payload.bad

/-- a well-formed move: a request is well-typed and its address is in the remote table -/
def WFOp (y : Sys) : SOp → Prop
  | .issue a _ pl => ∀ A, y.nodes[a]? = some A → pl ≠ Payload.bad ∧ (routeOut A.cfg (addrOf pl)).isSome = true
  | _ => True

def WFRun : Sys → List SOp → Prop
  | _, [] => True
  | y, o :: os => WFOp y o ∧ WFRun (sstep y o) os

theorem routeIn_total (c : Cfg) (h : 0 < c.isz ∧ 0 < c.k) (x : Nat) : (routeIn c x).isSome = true := by
  unfold routeIn
  split
  · rfl
  · have : ¬ (c.isz = 0 ∨ c.k = 0) := by omega
    simp [this]

theorem sok_init (cfgs : List Cfg) (hc : ∀ c ∈ cfgs, 0 < c.isz ∧ 0 < c.k) : SOk (initSys cfgs) := by
  constructor
  · intro b B hb
    simp only [initSys, List.getElem?_map, Option.map_eq_some_iff] at hb
    obtain ⟨c, hc', rfl⟩ := hb
    have hmem : c ∈ cfgs := List.mem_of_getElem? hc'
    exact ⟨⟨rfl, by simp, by simp, by simp⟩, ⟨rfl, by simp, by simp, by simp⟩, routeIn_total c (hc c hmem)⟩
  · intro m hm; simp [initSys] at hm

/-- `ChOk0` + the conservation law = `ChOk` -/
theorem stOk_of (y : Sys) (hs : SInv y) (a : Nat) (A : Node) (hA : y.nodes[a]? = some A) (hk : NodeOk A) :
    StOk A.cfg A.s := by
  constructor
  · refine ⟨hk.io.nofault, hk.io.reqIn, hk.io.reqOut, hk.io.rspIn, fun f => ?_⟩
    have := hs.g a A hA f
    simp only [dnF, List.count_append] at this
    omega
  · refine ⟨hk.oi.nofault, hk.oi.reqIn, hk.oi.reqOut, hk.oi.rspIn, fun f => ?_⟩
    have := (hs.node a A hA).l2 f
    simp only [dnF, List.count_append] at this
    omega

theorem sok_node_set {y : Sys} {i : Nat} {nd' : Node} {ns : List Node}
    (h : ∀ (b : Nat) (B : Node), y.nodes[b]? = some B → NodeOk B) (hn : NodeOk nd') (hs : ns = y.nodes.set i nd') :
    ∀ (b : Nat) (B : Node), ns[b]? = some B → NodeOk B := by
  intro b B hb
  subst hs
  rcases getElem?_set' hb with ⟨_, rfl, _⟩ | ⟨_, h2⟩
  · exact hn
  · exact h b B h2

theorem mem_tail' {α} {l : List α} {x : α} (h : x ∈ l.tail) : x ∈ l := List.mem_of_mem_tail h

theorem sok_step (y : Sys) (o : SOp) (hs : SInv y) (h : SOk y) (hw : WFOp y o) : SOk (sstep y o) := by
  cases o with
  | issue a src pl =>
    simp only [sstep]
    split
    · exact h
    · next A hA =>
      split
      · next hsp =>
        have hk := h.node a A hA
        have hwf := hw A hA
        refine ⟨sok_node_set h.node ?_ rfl, h.netQ⟩
        refine ⟨⟨?_, ?_, ?_, ?_⟩, hk.oi, hk.rin⟩
        · simp only [step, deliverReq, hsp, if_true]; exact hk.io.nofault
        · intro q hq
          simp only [step, deliverReq, hsp, if_true, List.mem_append, List.mem_singleton] at hq
          rcases hq with hq | rfl
          · exact hk.io.reqIn q hq
          · exact hwf
        · simp only [step, deliverReq, hsp, if_true]; exact hk.io.reqOut
        · simp only [step, deliverReq, hsp, if_true]; exact hk.io.rspIn
      · exact h
  | ctl a k =>
    simp only [sstep]
    split
    · exact h
    · next A hA =>
      have hk := h.node a A hA
      have hc := step_ctl_io A.cfg A.s k
      refine ⟨sok_node_set h.node ?_ rfl, h.netQ⟩
      constructor
      · show ChOk0 (routeOut A.cfg) (step A.cfg A.s (.ctl k)).io
        rw [hc.1]; exact hk.io
      · show ChOk0 (routeIn A.cfg) (step A.cfg A.s (.ctl k)).oi
        rw [hc.2]; exact hk.oi
      · exact hk.rin
  | tick a =>
    simp only [sstep]
    split
    · exact h
    · next A hA =>
      have hk := h.node a A hA
      have ht := stOk_tick A.cfg A.s (stOk_of y hs a A hA hk)
      refine ⟨sok_node_set h.node ?_ rfl, h.netQ⟩
      exact ⟨⟨ht.1.nofault, ht.1.reqIn, ht.1.reqOut, ht.1.rspIn⟩,
             ⟨ht.2.nofault, ht.2.reqIn, ht.2.reqOut, ht.2.rspIn⟩, hk.rin⟩
  | sendQ a =>
    simp only [sstep]
    split
    · exact h
    · next A hA =>
      split
      · exact h
      · next q rest hq =>
        have hk := h.node a A hA
        constructor
        · refine sok_node_set h.node ?_ rfl
          refine ⟨⟨hk.io.nofault, hk.io.reqIn, ?_, hk.io.rspIn⟩, hk.oi, hk.rin⟩
          intro o ho
          exact hk.io.reqOut o (mem_tail' ho)
        · intro m hm
          simp only [List.mem_append, List.mem_singleton] at hm
          rcases hm with hm | rfl
          · exact h.netQ m hm
          · exact hk.io.reqOut q (by rw [hq]; exact List.mem_cons_self)
  | delivQ j =>
    simp only [sstep]
    split
    · exact h
    · next m hm =>
      split
      · exact h
      · next B hB =>
        split
        · next hsp =>
          have hk := h.node _ B hB
          constructor
          · refine sok_node_set h.node ?_ rfl
            refine ⟨hk.io, ⟨?_, ?_, ?_, ?_⟩, hk.rin⟩
            · simp only [step, deliverReq, hsp, if_true]; exact hk.oi.nofault
            · intro q hq
              simp only [step, deliverReq, hsp, if_true, List.mem_append, List.mem_singleton] at hq
              rcases hq with hq | rfl
              · exact hk.oi.reqIn q hq
              · exact ⟨h.netQ m (List.mem_of_getElem? hm), hk.rin _⟩
            · simp only [step, deliverReq, hsp, if_true]; exact hk.oi.reqOut
            · simp only [step, deliverReq, hsp, if_true]; exact hk.oi.rspIn
          · intro x hx
            exact h.netQ x (mem_eraseIdx' hx)
        · exact h
  | l2take b =>
    simp only [sstep]
    split
    · exact h
    · next B hB =>
      split
      · exact h
      · next q rest hq =>
        have hk := h.node b B hB
        refine ⟨sok_node_set h.node ?_ rfl, h.netQ⟩
        refine ⟨hk.io, ⟨hk.oi.nofault, hk.oi.reqIn, ?_, hk.oi.rspIn⟩, hk.rin⟩
        intro o ho
        exact hk.oi.reqOut o (mem_tail' ho)
  | l2ans b j d =>
    simp only [sstep]
    split
    · exact h
    · next B hB =>
      split
      · exact h
      · next q hq =>
        split
        · next hsp =>
          have hk := h.node b B hB
          refine ⟨sok_node_set h.node ?_ rfl, h.netQ⟩
          refine ⟨hk.io, ⟨?_, ?_, ?_, ?_⟩, hk.rin⟩
          · simp only [step, deliverRsp, hsp, if_true]; exact hk.oi.nofault
          · simp only [step, deliverRsp, hsp, if_true]; exact hk.oi.reqIn
          · simp only [step, deliverRsp, hsp, if_true]; exact hk.oi.reqOut
          · intro r hr
            simp only [step, deliverRsp, hsp, if_true, List.mem_append, List.mem_singleton] at hr
            rcases hr with hr | rfl
            · exact hk.oi.rspIn r hr
            · rfl
        · exact h
  | sendR b =>
    simp only [sstep]
    split
    · exact h
    · next B hB =>
      split
      · exact h
      · next o rest ho =>
        split
        · exact h
        · next nm r ht =>
          have hk := h.node b B hB
          refine ⟨sok_node_set h.node ?_ rfl, h.netQ⟩
          exact ⟨hk.io, ⟨hk.oi.nofault, hk.oi.reqIn, hk.oi.reqOut, hk.oi.rspIn⟩, hk.rin⟩
  | delivR j =>
    simp only [sstep]
    split
    · exact h
    · next m hm =>
      split
      · exact h
      · next A hA =>
        split
        · next hsp =>
          have hk := h.node _ A hA
          refine ⟨sok_node_set h.node ?_ rfl, h.netQ⟩
          refine ⟨⟨?_, ?_, ?_, ?_⟩, hk.oi, hk.rin⟩
          · simp only [step, deliverRsp, hsp, if_true]; exact hk.io.nofault
          · simp only [step, deliverRsp, hsp, if_true]; exact hk.io.reqIn
          · simp only [step, deliverRsp, hsp, if_true]; exact hk.io.reqOut
          · intro r hr
            simp only [step, deliverRsp, hsp, if_true, List.mem_append, List.mem_singleton] at hr
            rcases hr with hr | rfl
            · exact hk.io.rspIn r hr
            · rfl
        · exact h
  | l1take a =>
    simp only [sstep]
    split
    · exact h
    · next A hA =>
      split
      · exact h
      · next o rest ho =>
        have hk := h.node a A hA
        refine ⟨sok_node_set h.node ?_ rfl, h.netQ⟩
        exact ⟨⟨hk.io.nofault, hk.io.reqIn, hk.io.reqOut, hk.io.rspIn⟩, hk.oi, hk.rin⟩
  | ctake a =>
    simp only [sstep]
    split
    · exact h
    · next A hA =>
      split
      · exact h
      · next x rest hx =>
        have hk := h.node a A hA
        refine ⟨sok_node_set h.node ?_ rfl, h.netQ⟩
        exact ⟨hk.io, hk.oi, hk.rin⟩

theorem sok_run : ∀ (ops : List SOp) (y : Sys), SInv y → SOk y → WFRun y ops →
    SInv (srun y ops) ∧ SOk (srun y ops) := by
  intro ops
  induction ops with
  | nil => intro y h1 h2 _; exact ⟨h1, h2⟩
  | cons o os ih =>
    intro y h1 h2 hw
    exact ih _ (sinv_step y o h1) (sok_step y o h1 h2 hw.1) hw.2

end C18
