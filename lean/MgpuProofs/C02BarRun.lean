import MgpuProofs.C02BarInv
/-! C02 (barriers) — helper lemmas, part 4: the work-group invariant over `wgrun`, indexed by the current
barrier phase (`GRel`), its preservation by every `wgstep` (ordinary events, arrival at the barrier,
events of waiting wavefronts, the release of all waiting wavefronts = the start of the next phase), and
what it gives when the work-group has finished. -/
namespace C02.Bar
open C02.Wf

/-- phase-indexed ownership: in phase `k`, what wavefront `i` may write no other wavefront owns, and a
    wavefront owns what it may write -/
structure OwnOK (own wown : Nat → Nat → Nat → Bool) : Prop where
  sep : ∀ k i j, i ≠ j → ∀ a, wown k i a = true → own k j a = false
  sub : ∀ k j a, wown k j a = true → own k j a = true

/-- the program of wavefront `j` in phase `k`: the same code, the phase's ownership -/
def Pk (P : Prog) (own wown : Nat → Nat → Nat → Bool) (k j : Nat) : Prog := withOwn P (own k j) (wown k j)

/-- the hypothesis on one wavefront's segment of phase `k`, run alone from the memory `m` at the start
    of the phase: it ends within `hfuel` instructions, passes the hazard check under the phase's
    ownership, and is drained whenever it reaches a barrier -/
def wfOKb (g : WG) (P : Prog) (own wown : Nat → Nat → Nat → Bool) (hfuel k : Nat) (m : Mem) (j : Nat) (w : EWf) : Bool :=
  w.E.done || (hazardFreeRun (Pk P own wown k j) hfuel ({ w.E with mem := m }, {}) &&
    drainedRun (Pk P own wown k j) g.bars hfuel ({ w.E with mem := m }, {}))

/-- the hypothesis for every phase the emulator's `runWG` goes through (at most `r` of them), each
    phase started from the emulator's own state at that point -/
def phasesOK (g : WG) (P : Prog) (own wown : Nat → Nat → Nat → Bool) (fuel hfuel : Nat) :
    Nat → Nat → List EWf → Mem → Bool
  | 0, _, _, _ => true
  | r + 1, k, ws, m =>
    ecompleted ws ||
    ((ws.mapIdx fun j w => wfOKb g P own wown hfuel k m j w).all id &&
      match eround g fuel g.Ps ws m with
      | none => true
      | some x => phasesOK g P own wown fuel hfuel r (k + 1) (eresolve x.1) x.2)

section
variable {g : WG} {P : Prog} {own wown : Nat → Nat → Nat → Bool} {n : Nat} {fuel hfuel : Nat}

theorem phasesOK_next {r k : Nat} {ws : List EWf} {m : Mem} {res : List EWf × Mem}
    (hok : phasesOK g P own wown fuel hfuel r k ws m = true) (hnc : ecompleted ws = false)
    (hrun : ewgRun g fuel r ws m = some res) :
    (∀ (j : Nat) (we : EWf), ws[j]? = some we → we.E.done = false →
      hazardFreeRun (Pk P own wown k j) hfuel ({ we.E with mem := m }, {}) = true ∧
      drainedRun (Pk P own wown k j) g.bars hfuel ({ we.E with mem := m }, {}) = true) ∧
    ∃ r' x, r = r' + 1 ∧ eround g fuel g.Ps ws m = some x ∧
      ewgRun g fuel r' (eresolve x.1) x.2 = some res ∧
      phasesOK g P own wown fuel hfuel r' (k + 1) (eresolve x.1) x.2 = true := by
  obtain ⟨r', x, rfl, hx, hrun'⟩ := ewgRun_unroll g fuel r ws m res hnc hrun
  simp only [phasesOK, hnc, Bool.false_or, Bool.and_eq_true, hx] at hok
  refine ⟨?_, r', x, rfl, hx, hrun', hok.2⟩
  intro j we hj hd
  have h1 := (all_iff_getElem? _ _).mp hok.1 j (wfOKb g P own wown hfuel k m j we)
    (by rw [List.getElem?_mapIdx, hj]; rfl)
  simp only [id, wfOKb, Bool.or_eq_true, Bool.and_eq_true] at h1
  rcases h1 with h1 | h1
  · rw [hd] at h1; cases h1
  · exact h1

theorem not_completed_of_active {ws : List EWf} {j : Nat} {we : EWf} (hj : ws[j]? = some we)
    (hd : we.E.done = false) : ecompleted ws = false := by
  cases h : ecompleted ws with
  | false => rfl
  | true =>
    have := ((ecompleted_iff ws).mp h j we hj).1
    rw [hd] at this; cases this

/-! ## the work-group invariant -/

/-- the state of the work-group on the timing side in phase `k`, against the emulator's wavefronts `wsk`
    and memory `mk` at the start of that phase -/
structure GRel (g : WG) (P : Prog) (own wown : Nat → Nat → Nat → Bool) (n k : Nat) (wsk : List EWf) (mk : Mem)
    (W : WState) : Prop where
  lenc : W.c.length = n
  lenp : W.parked.length = n
  lenw : wsk.length = n
  shared : ∀ s ∈ W.c, ∀ s' ∈ W.c, s.mem = s'.mem
  rel : ∀ (j : Nat) (T : TState) (we : EWf), W.c[j]? = some T → wsk[j]? = some we →
    WRel g (Pk P own wown k j) we mk (W.parked.getD j false) T
  /-- the shared memory has not changed outside what the running wavefronts may write in this phase -/
  mem : ∀ T ∈ W.c, ∀ a, (∀ (j : Nat) (we : EWf), wsk[j]? = some we → we.E.done = false → wown k j a = false) →
    T.mem a = mk a
  nobar : ∀ (j : Nat) (we : EWf), wsk[j]? = some we → we.atBar = false

theorem setMemAll_eq_self (m : Mem) : ∀ (c : List TState), (∀ t ∈ c, t.mem = m) → setMemAll m c = c := by
  intro c
  induction c with
  | nil => intro _; rfl
  | cons t ts ih =>
    intro h
    have ht := h t (List.mem_cons_self ..)
    have := ih (fun t' ht' => h t' (List.mem_cons_of_mem _ ht'))
    unfold setMemAll at this ⊢
    rw [List.map_cons, this]
    congr 1
    cases t
    simp only at ht
    subst ht
    rfl

theorem lt_of_getElem?_some {α : Type} {l : List α} {j : Nat} {x : α} (h : l[j]? = some x) : j < l.length := by
  rcases Nat.lt_or_ge j l.length with h' | h'
  · exact h'
  · simp [List.getElem?_eq_none h'] at h

/-- one wavefront changes (and with it possibly the shared memory, inside what it may write) -/
theorem grel_update (hP : P.WF) (hown : OwnOK own wown) {k : Nat} {wsk : List EWf} {mk : Mem} {W : WState}
    (h : GRel g P own wown n k wsk mk W) (w : Nat) (s s' : TState) (we : EWf) (ps' : List Bool)
    (hs : W.c[w]? = some s) (hwe : wsk[w]? = some we) (hlen : ps'.length = n)
    (hps : ∀ j, j ≠ w → ps'.getD j false = W.parked.getD j false)
    (hrel : WRel g (Pk P own wown k w) we mk (ps'.getD w false) s')
    (hmem : ∀ a, s'.mem a ≠ s.mem a → we.E.done = false ∧ wown k w a = true) :
    GRel g P own wown n k wsk mk { c := setMemAll s'.mem (W.c.set w s'), parked := ps' } := by
  have hw : w < W.c.length := lt_of_getElem?_some hs
  have hsm : s ∈ W.c := List.mem_of_getElem? hs
  refine ⟨by simp [setMemAll, h.lenc], hlen, h.lenw, ?_, ?_, ?_, h.nobar⟩
  · intro t ht t' ht'
    simp only [setMemAll, List.mem_map] at ht ht'
    obtain ⟨_, _, rfl⟩ := ht
    obtain ⟨_, _, rfl⟩ := ht'
    rfl
  · intro j T we' hT hwe'
    simp only at hT ⊢
    rw [getElem?_setMemAll'] at hT
    by_cases hjw : w = j
    · subst hjw
      rw [List.getElem?_set, if_pos rfl, if_pos hw] at hT
      simp only [Option.map_some, Option.some.injEq] at hT
      subst hT
      rw [hwe] at hwe'; cases hwe'
      exact hrel
    · rw [List.getElem?_set_ne hjw] at hT
      cases hcj : W.c[j]? with
      | none => simp [hcj] at hT
      | some sj =>
        simp only [hcj, Option.map_some, Option.some.injEq] at hT
        subst hT
        rw [hps j (fun e => hjw e.symm)]
        apply wrel_mem_change (withOwn_wf hP _ _) (h.rel j sj we' hcj hwe')
        intro a ha
        rw [h.shared sj (List.mem_of_getElem? hcj) s hsm]
        by_cases heq : s'.mem a = s.mem a
        · exact heq
        · have := hown.sep k w j hjw a (hmem a heq).2
          have ha' : own k j a = true := ha
          rw [ha'] at this; cases this
  · intro T hT a ha
    simp only [setMemAll, List.mem_map] at hT
    obtain ⟨_, _, rfl⟩ := hT
    show s'.mem a = mk a
    by_cases heq : s'.mem a = s.mem a
    · rw [heq]; exact h.mem s hsm a ha
    · obtain ⟨hd, hw'⟩ := hmem a heq
      rw [ha w we hwe hd] at hw'; cases hw'

/-! ## the end of a phase -/

theorem eround_alone0 (g : WG) (fuel hfuel : Nat) (o wo : Nat → Nat → Bool) (hsep : SepO o wo)
    (Ps : List Prog) (ws : List EWf) (m : Mem) (ws' : List EWf) (m' : Mem)
    (h : eround g fuel Ps ws m = some (ws', m')) (hlen : Ps.length = ws.length) (hP : ∀ P ∈ Ps, P.WF)
    (hhaz : ∀ (j : Nat) (P : Prog) (w : EWf), Ps[j]? = some P → ws[j]? = some w → w.E.done = false →
      hazardFreeRun (withOwn P (o j) (wo j)) hfuel ({ w.E with mem := m }, {}) = true) :
    ws'.length = ws.length ∧
    (∀ a, (∀ (j : Nat) (w : EWf), ws[j]? = some w → w.E.done = false → wo j a = false) → m' a = m a) ∧
    ∀ (j : Nat) (P : Prog) (w : EWf), Ps[j]? = some P → ws[j]? = some w →
      (w.E.done = true → ws'[j]? = some w) ∧
      (w.E.done = false → ∃ (Eseq : EState) (n : Nat) (Ealone : EState) (H : HState),
        ws'[j]? = some { E := Eseq, atBar := g.bars (Eseq.trace.getLastD 0) } ∧
        ehrun (withOwn P (o j) (wo j)) n ({ w.E with mem := m }, {}) = some (Ealone, H) ∧
        Ealone.done = true ∧ EEq (o j) Eseq Ealone ∧ ∀ a, o j a = true → m' a = Ealone.mem a) := by
  have := eround_alone g fuel hfuel o wo hsep m Ps ws 0 m ws' m' h hlen hP (fun _ _ _ _ _ _ => rfl)
    (by simpa only [Nat.zero_add] using hhaz)
  simpa only [Nat.zero_add] using this

/-- what is known about one wavefront when the whole work-group has stopped -/
structure EndWf (P : Prog) (T : TState) (pk : Bool) (we' : EWf) : Prop where
  edone : we'.E.done = true
  atBar : we'.atBar = pk
  ph : T.ph = .done
  vq : T.vq = []
  sq : T.sq = []
  regs : T.regs = we'.E.regs
  trace : T.trace = we'.E.trace
  park : pk = true → T.vm = 0 ∧ T.lgkm = 0 ∧ T.toIssue = none ∧
    (∀ k' (h : k' < T.ib.length), T.ib[k'] = P.imem (T.ibStart + k')) ∧
    ∃ i, T.cur = some i ∧ we'.E.pc = pcAdd T.pc i.size

theorem getElem?_replicate_some {α : Type} {m j : Nat} {a b : α} (h : (List.replicate m a)[j]? = some b) : b = a := by
  rw [List.getElem?_replicate] at h
  split at h
  · cases h; rfl
  · cases h

theorem phase_end (hP : P.WF) (hown : OwnOK own wown) (hPs : g.Ps = List.replicate n P)
    {k : Nat} {wsk : List EWf} {mk : Mem} {W : WState}
    (h : GRel g P own wown n k wsk mk W) (hall : allStopped W.c = true)
    (hhaz : ∀ (j : Nat) (we : EWf), wsk[j]? = some we → we.E.done = false →
      hazardFreeRun (Pk P own wown k j) hfuel ({ we.E with mem := mk }, {}) = true)
    (x : List EWf × Mem) (hx : eround g fuel g.Ps wsk mk = some x) :
    x.1.length = n ∧ (∀ T ∈ W.c, ∀ a, T.mem a = x.2 a) ∧
    ∀ (j : Nat) (T : TState), W.c[j]? = some T →
      ∃ we', x.1[j]? = some we' ∧ EndWf P T (W.parked.getD j false) we' := by
  rw [allStopped_iff] at hall
  obtain ⟨xw, xm⟩ := x
  have hPj : ∀ (j : Nat) (Q : Prog), g.Ps[j]? = some Q → Q = P := by
    intro j Q hj; rw [hPs] at hj; exact getElem?_replicate_some hj
  obtain ⟨hl, hframe, hper⟩ := eround_alone0 g fuel hfuel (own k) (wown k) (hown.sep k) g.Ps wsk mk xw xm hx
    (by rw [hPs, List.length_replicate, h.lenw])
    (by intro Q hQ; rw [hPs] at hQ; rw [List.eq_of_mem_replicate hQ]; exact hP)
    (by intro j Q we hjQ hj hd; rw [hPj j Q hjQ]; exact hhaz j we hj hd)
  -- per wavefront
  have hwf : ∀ (j : Nat) (T : TState), W.c[j]? = some T →
      ∃ we', xw[j]? = some we' ∧ EndWf P T (W.parked.getD j false) we' ∧
        ∀ (we : EWf), wsk[j]? = some we → we.E.done = false → ∀ a, own k j a = true → xm a = T.mem a := by
    intro j T hT
    have hjn : j < n := by rw [← h.lenc]; exact lt_of_getElem?_some hT
    obtain ⟨wej, hjw⟩ : ∃ wej, wsk[j]? = some wej :=
      ⟨_, List.getElem?_eq_getElem (by rw [h.lenw]; exact hjn)⟩
    have hjP : g.Ps[j]? = some P := by rw [hPs, List.getElem?_replicate, if_pos hjn]
    have hph := hall j T hT
    have hrel := h.rel j T _ hT hjw
    obtain ⟨hp1, hp2⟩ := hper j P _ hjP hjw
    cases hd : wej.E.done with
    | true =>
      obtain ⟨hpk, _, hv, hs, hr, htr⟩ := hrel.1 hd
      refine ⟨wej, hp1 hd, ⟨hd, by rw [hpk]; exact h.nobar j _ hjw, hph, hv, hs, hr, htr, ?_⟩, ?_⟩
      · intro hp; rw [hpk] at hp; cases hp
      · intro we hwe hd'
        rw [hjw] at hwe; cases hwe
        rw [hd] at hd'; cases hd'
    | false =>
      obtain ⟨nn, E, H, hrun, hinv, hx1, hx2⟩ := hrel.2 hd
      obtain ⟨Eseq, n2, Ealone, H2, hxj, hrun2, hd2, heq, hmem⟩ := hp2 hd
      have hp := hinv.p
      rw [hph] at hp
      simp only [InvP] at hp
      obtain ⟨hdE, htr, hv, hs⟩ := hp
      have hEE : E = Ealone :=
        erun_done_unique _ nn n2 _ E Ealone (ehrun_erun _ nn _ _ hrun) hdE (ehrun_erun _ n2 _ _ hrun2) hd2
      subst hEE
      have hregs : T.regs = E.regs := by
        funext r
        symm
        apply hinv.r.r1
        intro p hp
        rw [hv, hs] at hp
        cases hp
      refine ⟨_, hxj, ⟨by show Eseq.done = true; rw [heq.done]; exact hdE, ?_, hph, hv, hs,
        by show T.regs = Eseq.regs; rw [heq.regs]; exact hregs,
        by show T.trace = Eseq.trace; rw [heq.trace]; exact htr, ?_⟩, ?_⟩
      · show g.bars (Eseq.trace.getLastD 0) = W.parked.getD j false
        rw [heq.trace, ← htr]
        cases hpk : W.parked.getD j false with
        | true => exact (hx1 hpk).2.1
        | false => exact hx2 hpk hph
      · intro hpk
        obtain ⟨_, _, i, hcur, hpc⟩ := hx1 hpk
        refine ⟨by rw [hinv.c.cvm, hv]; rfl, by rw [hinv.c.clgkm, hv, hs]; rfl,
          toIssue_none_of_not_ready hinv (by rw [hph]; decide), hinv.f.ibok, i, hcur, ?_⟩
        show Eseq.pc = _
        rw [heq.pc]; exact hpc
      · intro we hwe _ a ha
        rw [hmem a ha]
        apply hinv.m.m1 a ha
        intro p hp
        rw [hv] at hp
        cases hp
  refine ⟨by rw [hl, h.lenw], ?_, fun j T hT => by
    obtain ⟨we', h1, h2, _⟩ := hwf j T hT
    exact ⟨we', h1, h2⟩⟩
  -- the shared memory equals the emulator's memory after the pass, everywhere
  intro T hT a
  show T.mem a = xm a
  by_cases hex : ∃ (j : Nat) (we : EWf), wsk[j]? = some we ∧ we.E.done = false ∧ wown k j a = true
  · obtain ⟨j, we, hj, hd, hwo⟩ := hex
    have hjn : j < W.c.length := by rw [h.lenc, ← h.lenw]; exact lt_of_getElem?_some hj
    obtain ⟨Tj, hTj⟩ : ∃ Tj, W.c[j]? = some Tj := ⟨_, List.getElem?_eq_getElem hjn⟩
    obtain ⟨_, _, _, hm⟩ := hwf j _ hTj
    rw [hm we hj hd a (hown.sub k j a hwo)]
    rw [h.shared T hT _ (List.mem_of_getElem? hTj)]
  · rw [h.mem T hT a, hframe a]
    · intro j we hj hd
      cases hw : wown k j a with
      | false => rfl
      | true => exact absurd ⟨j, we, hj, hd, hw⟩ hex
    · intro j we hj hd
      cases hw : wown k j a with
      | false => rfl
      | true => exact absurd ⟨j, we, hj, hd, hw⟩ hex

/-! ## the release: the next phase begins -/

theorem releaseAll_get {c : List TState} {ps : List Bool} {c2 : List TState} (hr : releaseAll c ps = some c2)
    {j : Nat} {t2 : TState} (hj : c2[j]? = some t2) :
    ∃ t, c[j]? = some t ∧ (if ps.getD j false then releaseOne t else some t) = some t2 := by
  obtain ⟨hl, hspec⟩ := releaseAll_spec c ps c2 hr
  have hjl : j < c.length := by rw [← hl]; exact lt_of_getElem?_some hj
  refine ⟨c[j], List.getElem?_eq_getElem hjl, ?_⟩
  rw [hspec j c[j] (List.getElem?_eq_getElem hjl), hj]

theorem grel_release {k : Nat} {wsk : List EWf} {mk : Mem} {W : WState}
    (h : GRel g P own wown n k wsk mk W) (x : List EWf × Mem)
    (hxl : x.1.length = n) (hxm : ∀ T ∈ W.c, ∀ a, T.mem a = x.2 a)
    (hend : ∀ (j : Nat) (T : TState), W.c[j]? = some T →
      ∃ we', x.1[j]? = some we' ∧ EndWf P T (W.parked.getD j false) we')
    (c2 : List TState) (hr : releaseAll W.c W.parked = some c2) :
    GRel g P own wown n (k + 1) (eresolve x.1) x.2 { c := c2, parked := unparkAll W.parked } := by
  have hl := (releaseAll_spec _ _ c2 hr).1
  have hmem2 : ∀ T2 ∈ c2, ∀ a, T2.mem a = x.2 a := by
    intro T2 hT2 a
    obtain ⟨j, hj⟩ := List.mem_iff_getElem?.mp hT2
    obtain ⟨t, ht, hif⟩ := releaseAll_get hr hj
    have htm := hxm t (List.mem_of_getElem? ht) a
    split at hif
    · obtain ⟨i, _, ha⟩ := releaseOne_eq hif
      obtain ⟨st, ib, _, rfl⟩ := advance_eq _ _ _ ha
      exact htm
    · cases hif; exact htm
  refine ⟨by rw [hl, h.lenc], by simp [unparkAll, h.lenp], by simp [eresolve, hxl], ?_, ?_, ?_, ?_⟩
  · intro s hs s' hs'
    funext a
    rw [hmem2 s hs a, hmem2 s' hs' a]
  · intro j T2 we2 hT2 hwe2
    simp only at hT2 ⊢
    rw [unparkAll_getD]
    obtain ⟨T, hT, hif⟩ := releaseAll_get hr hT2
    obtain ⟨we', hwe', he⟩ := hend j T hT
    rw [eresolve_getElem?, hwe'] at hwe2
    simp only [Option.map_some, Option.some.injEq] at hwe2
    cases hpk : W.parked.getD j false with
    | false =>
      rw [hpk] at hif he
      simp only [Bool.false_eq_true, if_false, Option.some.injEq] at hif
      subst hif
      rw [he.atBar] at hwe2
      simp only [Bool.false_eq_true, if_false] at hwe2
      subst hwe2
      exact ⟨fun _ => ⟨rfl, he.ph, he.vq, he.sq, he.regs, he.trace⟩,
        fun hd => (by rw [he.edone] at hd; cases hd)⟩
    | true =>
      rw [hpk] at hif he
      simp only [if_true] at hif
      rw [he.atBar] at hwe2
      simp only [if_true] at hwe2
      subst hwe2
      obtain ⟨hvm, hlg, hti, hib, i, hcur, hpc⟩ := he.park rfl
      obtain ⟨i', hcur', ha⟩ := releaseOne_eq hif
      rw [hcur] at hcur'; cases hcur'
      refine ⟨fun hd => (by cases hd), fun _ => ⟨0, _, {}, rfl, ?_, fun hp => (by cases hp), ?_⟩⟩
      · apply inv_restart (own (k + 1) j) (wown (k + 1) j) ha he.vq he.sq hvm hlg hib hti
        · exact hpc
        · exact he.trace.symm
        · rfl
        · exact he.regs.symm
        · intro a _
          exact (hxm T (List.mem_of_getElem? hT) a).symm
      · intro _ hd
        rw [advance_ph ha] at hd; cases hd
  · intro T2 hT2 a _
    exact hmem2 T2 hT2 a
  · intro j we2 hwe2
    rw [eresolve_getElem?] at hwe2
    cases hx : x.1[j]? with
    | none => simp [hx] at hwe2
    | some we' =>
      simp only [hx, Option.map_some, Option.some.injEq] at hwe2
      cases hb : we'.atBar with
      | true => rw [hb] at hwe2; simp only [if_true] at hwe2; subst hwe2; rfl
      | false => rw [hb] at hwe2; simp only [Bool.false_eq_true, if_false] at hwe2; subst hwe2; exact hb

/-! ## the invariant of a run -/

/-- the timing side is in some phase `k` in the relation with the emulator at the start of that phase,
    from where the emulator's `runWG` reaches its final result `res` within `r` more rounds, all of
    which meet the hypotheses -/
def Top (g : WG) (P : Prog) (own wown : Nat → Nat → Nat → Bool) (n fuel hfuel : Nat) (res : List EWf × Mem)
    (W : WState) : Prop :=
  ∃ (k r : Nat) (wsk : List EWf) (mk : Mem), GRel g P own wown n k wsk mk W ∧
    phasesOK g P own wown fuel hfuel r k wsk mk = true ∧ ewgRun g fuel r wsk mk = some res

theorem top_release (hP : P.WF) (hown : OwnOK own wown) (hPs : g.Ps = List.replicate n P)
    {res : List EWf × Mem} {k r : Nat} {wsk : List EWf} {mk : Mem} {W : WState}
    (h : GRel g P own wown n k wsk mk W)
    (hok : phasesOK g P own wown fuel hfuel r k wsk mk = true) (hrun : ewgRun g fuel r wsk mk = some res)
    (hall : allStopped W.c = true) (hex : ∃ j, W.parked.getD j false = true)
    (c2 : List TState) (hr : releaseAll W.c W.parked = some c2) :
    Top g P own wown n fuel hfuel res { c := c2, parked := unparkAll W.parked } := by
  obtain ⟨j, hj⟩ := hex
  have hjn : j < n := by
    rw [← h.lenp]
    rw [getD_false_eq_true] at hj
    exact lt_of_getElem?_some hj
  obtain ⟨T, hT⟩ : ∃ T, W.c[j]? = some T := ⟨_, List.getElem?_eq_getElem (by rw [h.lenc]; exact hjn)⟩
  obtain ⟨we, hwe⟩ : ∃ we, wsk[j]? = some we := ⟨_, List.getElem?_eq_getElem (by rw [h.lenw]; exact hjn)⟩
  have hact : we.E.done = false := by
    cases hd : we.E.done with
    | false => rfl
    | true =>
      have := ((h.rel j T we hT hwe).1 hd).1
      rw [hj] at this; cases this
  obtain ⟨hhaz, r', x, _, hx, hrun', hok'⟩ := phasesOK_next hok (not_completed_of_active hwe hact) hrun
  obtain ⟨hxl, hxm, hend⟩ := phase_end hP hown hPs h hall (fun j we hj hd => (hhaz j we hj hd).1) x hx
  exact ⟨k + 1, r', eresolve x.1, x.2, grel_release h x hxl hxm hend c2 hr, hok', hrun'⟩

theorem top_step (hP : P.WF) (hown : OwnOK own wown) (hPs : g.Ps = List.replicate n P)
    (gate : TState → Inst → Bool) {res : List EWf × Mem} {W W' : WState} (we : Nat × Ev)
    (h : Top g P own wown n fuel hfuel res W) (hs : wgstep g gate W we = some W') :
    Top g P own wown n fuel hfuel res W' := by
  obtain ⟨k, r, wsk, mk, hG, hok, hrun⟩ := h
  obtain ⟨w, e⟩ := we
  unfold wgstep at hs
  simp only at hs
  split at hs
  · cases hs
  · rename_i hne
    have hne' : isEnv e = false := by simpa using hne
    split at hs
    · rename_i s Pw hcw hPw
      have hPw' : Pw = P := by rw [hPs] at hPw; exact getElem?_replicate_some hPw
      subst hPw'
      have hwn : w < n := by rw [← hG.lenc]; exact lt_of_getElem?_some hcw
      obtain ⟨wew, hwew⟩ : ∃ wew, wsk[w]? = some wew :=
        ⟨_, List.getElem?_eq_getElem (by rw [hG.lenw]; exact hwn)⟩
      have hrelw := hG.rel w s wew hcw hwew
      have hhazw : wew.E.done = false →
          hazardFreeRun (Pk Pw own wown k w) hfuel ({ wew.E with mem := mk }, {}) = true ∧
          drainedRun (Pk Pw own wown k w) g.bars hfuel ({ wew.E with mem := mk }, {}) = true :=
        fun hd => (phasesOK_next hok (not_completed_of_active hwew hd) hrun).1 w wew hwew hd
      split at hs
      · -- an event of a wavefront waiting at the barrier
        rename_i hpk
        split at hs
        · cases hs
        · rename_i s' hst
          cases hs
          rw [hpk] at hrelw
          obtain ⟨hrel', hm⟩ := wrel_parkedStep g (own k w) (wown k w) gate wew mk hrelw hst
          refine ⟨k, r, wsk, mk, ?_, hok, hrun⟩
          apply grel_update hP hown hG w s s' wew W.parked hcw hwew hG.lenp (fun _ _ => rfl)
          · rw [hpk]; exact hrel'
          · intro a ha; rw [hm] at ha; exact absurd rfl ha
      · rename_i hpk
        have hpk' : W.parked.getD w false = false := by simpa using hpk
        rw [hpk'] at hrelw
        split at hs
        · -- evalSBarrier: the wavefront arrives at the barrier
          rename_i hc
          have hrel' := wrel_park g hfuel wew mk hhazw hrelw hc.2.1 hc.2.2
          have hp1 : (W.parked.set w true).getD w false = true := by
            rw [List.getD_eq_getElem?_getD, List.getElem?_set, if_pos rfl, if_pos (by rw [hG.lenp]; exact hwn)]
            rfl
          have hc1 : W.c.set w { s with ph := .done } =
              setMemAll s.mem (W.c.set w { s with ph := .done }) := by
            symm
            apply setMemAll_eq_self
            intro t ht
            rcases List.mem_or_eq_of_mem_set ht with h' | h'
            · exact hG.shared t h' s (List.mem_of_getElem? hcw)
            · rw [h']
          have hG1 : GRel g Pw own wown n k wsk mk
              { c := W.c.set w { s with ph := .done }, parked := W.parked.set w true } := by
            rw [hc1]
            apply grel_update hP hown hG w s { s with ph := .done } wew (W.parked.set w true) hcw hwew
              (by simp [hG.lenp])
            · intro j hjw
              rw [List.getD_eq_getElem?_getD, List.getElem?_set_ne (fun e => hjw e.symm),
                ← List.getD_eq_getElem?_getD]
            · rw [hp1]; exact hrel'
            · intro a ha; exact absurd rfl ha
          split at hs
          · rename_i hall
            split at hs
            · cases hs
            · rename_i c2 hr
              cases hs
              exact top_release hP hown hPs hG1 hok hrun hall ⟨w, hp1⟩ c2 hr
          · cases hs
            exact ⟨k, r, wsk, mk, hG1, hok, hrun⟩
        · rename_i hnb
          split at hs
          · cases hs
          · rename_i s' hst
            obtain ⟨hrel', hm⟩ := wrel_tstep g hP (own k w) (wown k w) gate hfuel wew mk
              (fun hd => (hhazw hd).1) hrelw hst hne' hnb
            have hG1 : GRel g Pw own wown n k wsk mk
                { c := setMemAll s'.mem (W.c.set w s'), parked := W.parked } := by
              apply grel_update hP hown hG w s s' wew W.parked hcw hwew hG.lenp (fun _ _ => rfl)
              · rw [hpk']; exact hrel'
              · exact hm
            split at hs
            · rename_i hc
              split at hs
              · cases hs
              · rename_i c2 hr
                cases hs
                obtain ⟨j, b, hj, hb⟩ := (any_iff_getElem? _ _).mp hc.2.2.2
                have hb' : b = true := hb
                subst hb'
                exact top_release hP hown hPs hG1 hok hrun hc.2.2.1
                  ⟨j, (getD_false_eq_true _ _).mpr hj⟩ c2 hr
            · cases hs
              exact ⟨k, r, wsk, mk, hG1, hok, hrun⟩
    · cases hs

theorem top_run (hP : P.WF) (hown : OwnOK own wown) (hPs : g.Ps = List.replicate n P)
    (gate : TState → Inst → Bool) {res : List EWf × Mem} : ∀ (evs : List (Nat × Ev)) (W W' : WState),
    Top g P own wown n fuel hfuel res W → wgrun g gate W evs = some W' →
    Top g P own wown n fuel hfuel res W' := by
  intro evs
  induction evs with
  | nil => intro W W' h hr; simp only [wgrun] at hr; cases hr; exact h
  | cons e es ih =>
    intro W W' h hr
    simp only [wgrun] at hr
    cases hs : wgstep g gate W e with
    | none => simp [hs] at hr
    | some W1 =>
      simp only [hs] at hr
      exact ih W1 W' (top_step hP hown hPs gate e h hs) hr

theorem grel_init (inits : List (Nat × RF)) (m0 : Mem) (hlen : inits.length = n) :
    GRel g P own wown n 0 (einitW inits m0) m0 (winit inits m0) := by
  refine ⟨by simp [winit, hlen], by simp [winit, hlen], by simp [einitW, hlen], ?_, ?_, ?_, ?_⟩
  · intro s hs s' hs'
    simp only [winit, List.mem_map] at hs hs'
    obtain ⟨_, _, rfl⟩ := hs
    obtain ⟨_, _, rfl⟩ := hs'
    rfl
  · intro j T we hT hwe
    simp only [winit, einitW, List.getElem?_map] at hT hwe
    have hpk : (winit inits m0).parked.getD j false = false := by
      simp only [winit]
      rw [List.getD_eq_getElem?_getD, List.getElem?_map]
      cases inits[j]? <;> rfl
    rw [hpk]
    cases hi : inits[j]? with
    | none => simp [hi] at hT
    | some pr =>
      simp only [hi, Option.map_some, Option.some.injEq] at hT hwe
      subst hT hwe
      refine ⟨fun hd => (by cases hd), fun _ => ?_⟩
      obtain ⟨nn, E, H, hrun, hinv⟩ := sim_init (P := Pk P own wown 0 j) pr.1 pr.2 m0
      exact ⟨nn, E, H, hrun, hinv, fun hp => (by cases hp), fun _ hd => (by cases hd)⟩
  · intro T hT a _
    simp only [winit, List.mem_map] at hT
    obtain ⟨_, _, rfl⟩ := hT
    rfl
  · intro j we hwe
    simp only [einitW, List.getElem?_map] at hwe
    cases hi : inits[j]? with
    | none => simp [hi] at hwe
    | some pr =>
      simp only [hi, Option.map_some, Option.some.injEq] at hwe
      subst hwe
      rfl

/-- when every wavefront has ended, the emulator has ended too, with the same registers, instruction
    sequences and memory -/
theorem top_final (hP : P.WF) (hown : OwnOK own wown) (hPs : g.Ps = List.replicate n P)
    {res : List EWf × Mem} {W : WState} (h : Top g P own wown n fuel hfuel res W)
    (hfin : W.finished = true) (j : Nat) (T : TState) (hT : W.c[j]? = some T) :
    ∃ we, res.1[j]? = some we ∧ T.regs = we.E.regs ∧ T.trace = we.E.trace ∧ ∀ a, T.mem a = res.2 a := by
  obtain ⟨k, r, wsk, mk, hG, hok, hrun⟩ := h
  unfold WState.finished at hfin
  simp only [Bool.and_eq_true, Bool.not_eq_true'] at hfin
  obtain ⟨hall, hnp⟩ := hfin
  have hnpk : ∀ j, W.parked.getD j false = false := by
    intro j
    cases hp : W.parked.getD j false with
    | false => rfl
    | true =>
      have : W.parked.any id = true :=
        (any_iff_getElem? _ _).mpr ⟨j, true, (getD_false_eq_true _ _).mp hp, rfl⟩
      rw [hnp] at this; cases this
  have hjn : j < n := by rw [← hG.lenc]; exact lt_of_getElem?_some hT
  cases hc : ecompleted wsk with
  | true =>
    rw [ewgRun_of_completed g fuel r wsk mk hc] at hrun
    cases hrun
    obtain ⟨we, hwe⟩ : ∃ we, wsk[j]? = some we := ⟨_, List.getElem?_eq_getElem (by rw [hG.lenw]; exact hjn)⟩
    have hd := ((ecompleted_iff wsk).mp hc j we hwe).1
    obtain ⟨_, _, _, _, hr, htr⟩ := (hG.rel j T we hT hwe).1 hd
    refine ⟨we, hwe, hr, htr, ?_⟩
    intro a
    apply hG.mem T (List.mem_of_getElem? hT) a
    intro j' we' hj' hd'
    have := ((ecompleted_iff wsk).mp hc j' we' hj').1
    rw [hd'] at this; cases this
  | false =>
    obtain ⟨hhaz, r', x, _, hx, hrun', _⟩ := phasesOK_next hok hc hrun
    obtain ⟨hxl, hxm, hend⟩ := phase_end hP hown hPs hG hall (fun j we hj hd => (hhaz j we hj hd).1) x hx
    have hcomp : ecompleted x.1 = true := by
      rw [ecompleted_iff]
      intro j' we' hj'
      have hj'n : j' < W.c.length := by rw [hG.lenc, ← hxl]; exact lt_of_getElem?_some hj'
      obtain ⟨we2, hwe2, he⟩ := hend j' _ (List.getElem?_eq_getElem hj'n)
      rw [hj'] at hwe2; cases hwe2
      exact ⟨he.edone, by rw [he.atBar]; exact hnpk j'⟩
    have hres : eresolve x.1 = x.1 := by
      apply List.ext_getElem?
      intro j'
      rw [eresolve_getElem?]
      cases hj' : x.1[j']? with
      | none => rfl
      | some we' =>
        have := ((ecompleted_iff x.1).mp hcomp j' we' hj').2
        simp [this]
    rw [hres, ewgRun_of_completed g fuel r' x.1 x.2 hcomp] at hrun'
    cases hrun'
    obtain ⟨we', hwe', he⟩ := hend j T hT
    exact ⟨we', hwe', he.regs, he.trace, hxm T (List.mem_of_getElem? hT)⟩

/-- the hypotheses of the work-group theorem, packaged: well-formed code shared by the `n` wavefronts,
    phase-indexed ownership that separates the wavefronts in every phase, and for every phase the
    emulator goes through (started from the emulator's own state at the beginning of that phase) every
    running wavefront's segment passes the hazard check and is drained at its barrier (`phasesOK`,
    decidable) -/
structure PhaseOK (g : WG) (P : Prog) (n : Nat) (own wown : Nat → Nat → Nat → Bool) (fuel hfuel rounds : Nat)
    (inits : List (Nat × RF)) (m0 : Mem) : Prop where
  wf : P.WF
  same : g.Ps = List.replicate n P
  len : inits.length = n
  sep : ∀ k i j, i ≠ j → ∀ a, wown k i a = true → own k j a = false
  sub : ∀ k j a, wown k j a = true → own k j a = true
  phases : phasesOK g P own wown fuel hfuel rounds 0 (einitW inits m0) m0 = true

end
end C02.Bar
