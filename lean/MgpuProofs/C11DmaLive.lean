import MgpuProofs.C11DmaTx
/-! # C11 helper: liveness of the DMA engine — a measure every productive move decreases, absence of
deadlock (when no received copy is empty), termination under every fair schedule. -/
namespace C11

deriving instance DecidableEq for CpReq, MemReq, Coll, Dma, Env

/-! ## the measure -/

/-- remaining work of a copy request waiting in the CP port: `5·pieces + 3` once parsed, one more before -/
def dmaW (log2 : Nat) (r : CpReq) : Nat :=
  5 * (splitBy (2 ^ log2) (Nat.pow_pos (by decide)) r.addr r.len).length + 4

/-- the engine's part of the measure: a transaction 5 (toSendToMem) → 4 (ToMem's outgoing buffer) →
    3 (at the memory, counted in `dmaMeasure`) → 2 (answer in ToMem's incoming buffer) → 0 (parsed); a
    collection 3 until its completion is emitted; a completion 2 (toSendToCP) → 1 (ToCP port) → 0 (drained) -/
def Dma.meas (s : Dma) : Nat :=
  (s.cpIn.map (dmaW s.log2)).sum + 5 * s.toMem.length + 4 * s.memOut.length + 2 * s.memIn.length +
  3 * s.processing.length + 2 * s.toCP.length + s.cpOut.length

def dmaMeasure (e : Env) : Nat := e.s.meas + 3 * e.outstanding.length

/-- a stage of the tick: nothing changed and no progress reported, or progress and the measure dropped -/
def DStage (s : Dma) (r : Dma × Bool) : Prop := r = (s, false) ∨ (r.2 = true ∧ r.1.meas < s.meas)

theorem DStage.le {s : Dma} {r : Dma × Bool} (h : DStage s r) : r.1.meas ≤ s.meas := by
  rcases h with h | h
  · rw [h]; exact Nat.le_refl _
  · exact Nat.le_of_lt h.2

theorem DStage.fix {s : Dma} {r : Dma × Bool} (h : DStage s r) (hle : s.meas ≤ r.1.meas) : r = (s, false) := by
  rcases h with h | h
  · exact h
  · omega

theorem sendCP_stage (s : Dma) : DStage s s.sendCP := by
  unfold Dma.sendCP
  cases h : s.toCP with
  | nil => exact .inl rfl
  | cons r rest =>
    right
    refine ⟨rfl, ?_⟩
    simp [Dma.meas, h]
    omega

theorem sendMem_stage (s : Dma) : DStage s s.sendMem := by
  unfold Dma.sendMem
  cases h : s.toMem with
  | nil => exact .inl rfl
  | cons r rest =>
    simp only
    split
    · right
      refine ⟨rfl, ?_⟩
      simp [Dma.meas, h]
      omega
    · exact .inl rfl

theorem length_subReqs (s : Dma) (r : CpReq) :
    (subReqs s r).length = (splitBy (2 ^ s.log2) (Nat.pow_pos (by decide)) r.addr r.len).length := by
  unfold subReqs; rw [List.length_map, List.length_zipIdx]

theorem parseFromCP_stage (s : Dma) : DStage s s.parseFromCP := by
  rcases parseFromCP_cases s with ⟨e, _⟩ | ⟨r, rest, hcp, _, e⟩
  · exact .inl e
  · right
    rw [e]
    refine ⟨rfl, ?_⟩
    have := length_subReqs s r
    simp [Dma.meas, hcp, dmaW]
    omega

theorem parseFromMem_stage (s : Dma) : DStage s s.parseFromMem := by
  rcases parseFromMem_cases s with ⟨_, e⟩ | ⟨id, rest, hm, hc⟩
  · exact .inl e
  · right
    rcases hc with ⟨_, e⟩ | ⟨_, _, e⟩ | ⟨_, c', _, _, e⟩ | ⟨_, c', hd, _, e⟩
    · rw [e]; refine ⟨rfl, ?_⟩; simp [Dma.meas, hm]
    · rw [e]; refine ⟨rfl, ?_⟩; simp [Dma.meas, hm]
    · rw [e]; refine ⟨rfl, ?_⟩; simp [Dma.meas, hm]
    · rw [e]; refine ⟨rfl, ?_⟩
      obtain ⟨c, hc, hin, hc'⟩ := (decAll_spec s.processing id).2.2 c' hd
      have hlt : ((s.processing.map (decOne id)).filter (·.sup.id != c'.sup.id)).length <
          (s.processing.map (decOne id)).length := by
        rw [List.length_filter_lt_length_iff_exists]
        refine ⟨decOne id c, List.mem_map_of_mem hc, ?_⟩
        rw [decOne_sup, hc']; simp
      rw [List.length_map] at hlt
      simp [Dma.meas, hm]
      omega

/-! ## the tick -/

theorem Dma.tick_fst (s : Dma) (hf : s.fault = none) :
    s.tick.1 = if s.sendCP.1.sendMem.1.parseFromMem.1.fault.isSome then s.sendCP.1.sendMem.1.parseFromMem.1
               else s.sendCP.1.sendMem.1.parseFromMem.1.parseFromCP.1 := by
  unfold Dma.tick
  simp only [hf, Option.isSome_none, Bool.false_eq_true, if_false]
  split <;> rfl

theorem Dma.tick_fst_fault (s : Dma) (hf : s.fault.isSome = true) : s.tick.1 = s := by
  unfold Dma.tick; simp [hf]

/-- a tick leaves the engine as it is or decreases its measure -/
theorem dma_tick_meas (s : Dma) : s.tick.1 = s ∨ s.tick.1.meas < s.meas := by
  cases hf : s.fault with
  | some x => left; exact Dma.tick_fst_fault s (by simp [hf])
  | none =>
    have h1 := sendCP_stage s
    have h2 := sendMem_stage s.sendCP.1
    have h3 := parseFromMem_stage s.sendCP.1.sendMem.1
    have h4 := parseFromCP_stage s.sendCP.1.sendMem.1.parseFromMem.1
    rw [Dma.tick_fst s hf]
    by_cases hall : s.sendCP = (s, false) ∧ s.sendCP.1.sendMem = (s.sendCP.1, false) ∧
        s.sendCP.1.sendMem.1.parseFromMem = (s.sendCP.1.sendMem.1, false) ∧
        s.sendCP.1.sendMem.1.parseFromMem.1.parseFromCP = (s.sendCP.1.sendMem.1.parseFromMem.1, false)
    · left
      obtain ⟨a, b, c, d⟩ := hall
      rw [d, c, b, a]; simp
    · right
      have l1 := h1.le; have l2 := h2.le; have l3 := h3.le; have l4 := h4.le
      have hstrict : s.sendCP.1.sendMem.1.parseFromMem.1.meas < s.meas ∨
          (s.sendCP.1.sendMem.1.parseFromMem.1.parseFromCP.1.meas < s.meas ∧
           s.sendCP = (s, false) ∧ s.sendCP.1.sendMem = (s.sendCP.1, false) ∧
           s.sendCP.1.sendMem.1.parseFromMem = (s.sendCP.1.sendMem.1, false)) := by
        rcases h1 with a | a
        · rcases h2 with b | b
          · rcases h3 with c | c
            · rcases h4 with d | d
              · exact absurd ⟨a, b, c, d⟩ hall
              · right; exact ⟨by omega, a, b, c⟩
            · left; omega
          · left; omega
        · left; omega
      split
      · rename_i hflt
        rcases hstrict with h | ⟨_, a, b, c⟩
        · exact h
        · -- no stage moved, so no fault can have appeared
          rw [c, b, a] at hflt
          simp [hf] at hflt
      · rcases hstrict with h | ⟨h, _⟩
        · omega
        · exact h

/-- a tick that leaves the engine (without fault) as it is: none of its four stages could move -/
theorem dma_tick_fix {s : Dma} (hf : s.fault = none) (h : s.tick.1 = s) :
    s.sendCP = (s, false) ∧ s.sendMem = (s, false) ∧ s.parseFromMem = (s, false) ∧ s.parseFromCP = (s, false) := by
  have h1 := sendCP_stage s
  have h2 := sendMem_stage s.sendCP.1
  have h3 := parseFromMem_stage s.sendCP.1.sendMem.1
  have h4 := parseFromCP_stage s.sendCP.1.sendMem.1.parseFromMem.1
  have l1 := h1.le; have l2 := h2.le; have l3 := h3.le; have l4 := h4.le
  rw [Dma.tick_fst s hf] at h
  have hm : s.meas ≤ s.sendCP.1.sendMem.1.parseFromMem.1.meas := by
    split at h
    · rw [h]; exact Nat.le_refl _
    · have := congrArg Dma.meas h; omega
  have f1 := h1.fix (by omega)
  have g1 : s.sendCP.1 = s := by rw [f1]
  rw [g1] at h2 h3 h4 l2 l3 l4 hm h
  have f2 := h2.fix (by omega)
  have g2 : s.sendMem.1 = s := by rw [f2]
  rw [g2] at h3 h4 l3 l4 hm h
  have f3 := h3.fix (by omega)
  have g3 : s.parseFromMem.1 = s := by rw [f3]
  rw [g3] at h4 l4 h
  simp only [hf, Option.isSome_none, Bool.false_eq_true, if_false] at h
  have f4 := h4.fix (by rw [h]; exact Nat.le_refl _)
  exact ⟨f1, f2, f3, f4⟩

/-! ## the environment moves: a no-op (for the stated reason), or the measure drops -/

/-- moves that feed the engine from outside: a new copy request, an injected (bogus) response -/
def EnvOp.isInput : EnvOp → Bool
  | .copy .. => true
  | .inject _ => true
  | _ => false

theorem dstep_tick (e : Env) : e.step .tick = e ∨ dmaMeasure (e.step .tick) < dmaMeasure e := by
  rcases dma_tick_meas e.s with h | h
  · left
    show { e with s := e.s.tick.1 } = e
    rw [h]
  · right
    show e.s.tick.1.meas + 3 * e.outstanding.length < e.s.meas + 3 * e.outstanding.length
    omega

theorem dstep_take (e : Env) (k : Nat) :
    ((k = 0 ∨ e.s.memOut = []) ∧ e.step (.take k) = e) ∨ dmaMeasure (e.step (.take k)) < dmaMeasure e := by
  by_cases h : k = 0 ∨ e.s.memOut = []
  · left
    refine ⟨h, ?_⟩
    have h1 : e.s.memOut.take k = [] := by rcases h with h | h <;> simp [h]
    have h2 : e.s.memOut.drop k = e.s.memOut := by rcases h with h | h <;> simp [h]
    simp only [Env.step, h1, h2, List.append_nil]
  · right
    have hk : 1 ≤ k := by omega
    have hl : 1 ≤ e.s.memOut.length := by
      cases hd : e.s.memOut with
      | nil => exact absurd (.inr hd) h
      | cons a l => simp
    simp only [Env.step, dmaMeasure, Dma.meas, List.length_append, List.length_take, List.length_drop]
    omega

theorem dstep_drain (e : Env) :
    (e.s.cpOut = [] ∧ e.step .drain = e) ∨ dmaMeasure (e.step .drain) < dmaMeasure e := by
  cases h : e.s.cpOut with
  | nil =>
    left
    refine ⟨rfl, ?_⟩
    simp only [Env.step, h, List.append_nil]
    have : e.s = { e.s with cpOut := [] } := by rw [← h]
    rw [← this]
  | cons a l =>
    right
    simp only [Env.step, dmaMeasure, Dma.meas, h, List.length_cons, List.length_nil]
    omega

theorem dstep_respond (e : Env) (j : Nat) :
    ((e.s.memCap ≤ e.s.memIn.length ∨ e.outstanding = []) ∧ e.step (.respond j) = e) ∨
    dmaMeasure (e.step (.respond j)) < dmaMeasure e := by
  unfold Env.step
  simp only
  split
  · rename_i h; exact .inl ⟨.inl h, rfl⟩
  · split
    · rename_i hn
      left
      refine ⟨.inr ?_, rfl⟩
      cases ho : e.outstanding with
      | nil => rfl
      | cons a l =>
        exfalso
        have hj : j % e.outstanding.length < e.outstanding.length := Nat.mod_lt _ (by rw [ho]; simp)
        rw [List.getElem?_eq_getElem hj] at hn
        cases hn
    · rename_i r hr
      right
      obtain ⟨hlt, _⟩ := List.getElem?_eq_some_iff.1 hr
      simp only [dmaMeasure, Dma.meas, List.length_append, List.length_eraseIdx, hlt, if_true, List.length_singleton]
      omega

/-- every move other than a new copy request / an injected response leaves the state as it is or
    decreases the measure -/
theorem dstep_prog (e : Env) (op : EnvOp) (hop : op.isInput = false) :
    e.step op = e ∨ dmaMeasure (e.step op) < dmaMeasure e := by
  cases op with
  | copy k a l => cases hop
  | inject id => cases hop
  | tick => exact dstep_tick e
  | take k => exact (dstep_take e k).imp (fun h => h.2) id
  | respond j => exact (dstep_respond e j).imp (fun h => h.2) id
  | drain => exact (dstep_drain e).imp (fun h => h.2) id

/-! ## the liveness invariant: every pending transaction is in flight, every copy id is accounted for,
a collection of a non-empty copy still waits for a transaction -/

theorem splitBy_pos (unit : Nat) (hu : 0 < unit) (addr len : Nat) (h : 0 < len) :
    0 < (splitBy unit hu addr len).length := by
  rw [splitBy]
  simp [Nat.ne_of_gt h]

structure LInv (s : Dma) (o : List MemReq) (n : Nat) (cps : List CpReq) : Prop where
  pendfl : ∀ x ∈ pendIds s, x ∈ fl s o
  cover : ∀ x, x < n → x ∈ s.completed ++ procIds s ++ s.cpIn.map (·.id)
  cpin : ∀ r ∈ s.cpIn, r ∈ cps
  pos : (∀ r ∈ cps, 0 < r.len) → ∀ c ∈ s.processing, 0 < c.count

theorem LInv.congr {s s' : Dma} {o o' : List MemReq} {n : Nat} {cps : List CpReq} (h : LInv s o n cps)
    (hp : s'.pending = s.pending) (hfl : ∀ x ∈ fl s o, x ∈ fl s' o') (hc : s'.completed = s.completed)
    (hpr : s'.processing = s.processing) (hi : s'.cpIn = s.cpIn) : LInv s' o' n cps := by
  have e1 : pendIds s' = pendIds s := by simp [pendIds, hp]
  have e2 : procIds s' = procIds s := by simp [procIds, hpr]
  constructor
  · rw [e1]; exact fun x hx => hfl x (h.pendfl x hx)
  · rw [hc, e2, hi]; exact h.cover
  · rw [hi]; exact h.cpin
  · rw [hpr]; exact h.pos

theorem LInv.sendCP {s : Dma} {o : List MemReq} {n : Nat} {cps : List CpReq} (h : LInv s o n cps) :
    LInv s.sendCP.1 o n cps := by
  unfold Dma.sendCP
  cases s.toCP with
  | nil => exact h
  | cons r rest => exact h.congr rfl (fun x hx => hx) rfl rfl rfl

theorem LInv.sendMem {s : Dma} {o : List MemReq} {n : Nat} {cps : List CpReq} (h : LInv s o n cps) :
    LInv s.sendMem.1 o n cps := by
  unfold Dma.sendMem
  cases ht : s.toMem with
  | nil => exact h
  | cons r rest =>
    simp only
    split
    · refine h.congr rfl ?_ rfl rfl rfl
      intro x hx
      have hp : (fl { s with toMem := rest, memOut := s.memOut ++ [r] } o).Perm (fl s o) := by
        apply List.perm_iff_count.2
        intro a
        simp only [fl, ht, List.map_cons, List.map_append, List.map_nil, List.count_append, List.count_cons,
          List.count_nil]
        omega
      exact hp.mem_iff.2 hx
    · exact h

theorem LInv.parseFromCP {s : Dma} {o : List MemReq} {n : Nat} {cps : List CpReq} (h : LInv s o n cps) :
    LInv s.parseFromCP.1 o n cps := by
  rcases parseFromCP_cases s with ⟨e, _⟩ | ⟨r, rest, hcp, hlt, e⟩
  · rw [e]; exact h
  · rw [e]
    constructor
    · intro x hx
      simp only [pendIds, List.map_append, List.mem_append] at hx
      rcases hx with hx | hx
      · have := h.pendfl x hx
        simp only [fl, List.map_append, List.mem_append] at this ⊢
        rcases this with ((a | a) | a) | a
        · exact .inl (.inl (.inl (.inl a)))
        · exact .inl (.inl (.inr a))
        · exact .inl (.inr a)
        · exact .inr a
      · simp only [fl, List.map_append, List.mem_append]
        exact .inl (.inl (.inl (.inr hx)))
    · intro x hx
      have := h.cover x hx
      rw [hcp] at this
      simpa [procIds, List.append_assoc] using this
    · intro q hq
      exact h.cpin q (by rw [hcp]; exact List.mem_cons_of_mem _ hq)
    · intro hpos c hc
      simp only [List.mem_append, List.mem_singleton] at hc
      rcases hc with hc | rfl
      · exact h.pos hpos c hc
      · simp only
        have hr : 0 < r.len := hpos r (h.cpin r (by rw [hcp]; exact List.mem_cons_self))
        have := splitBy_pos (2 ^ s.log2) (Nat.pow_pos (by decide)) r.addr r.len hr
        rw [length_subReqs]
        omega

theorem LInv.parseFromMem {s : Dma} {o : List MemReq} {n nc : Nat} {d : List Nat} {cps : List CpReq}
    (h : LInv s o n cps) (hf : FInv s o) (hd : DInv s nc d) : LInv s.parseFromMem.1 o n cps := by
  rcases parseFromMem_cases s with ⟨_, e⟩ | ⟨id, rest, hm, hc⟩
  · rw [e]; exact h
  · have hidp : id ∈ pendIds s := hf.sub id (by simp [fl, hm])
    -- the part shared by the two "response parsed" branches
    have hpend : ∀ s' : Dma, s'.toMem = s.toMem → s'.memOut = s.memOut → s'.memIn = rest →
        s'.pending = s.pending.filter (·.id != id) → ∀ x ∈ pendIds s', x ∈ fl s' o := by
      intro s' h1 h2 h3 h4 x hx
      have hpe : pendIds s' = (pendIds s).filter (· != id) := by
        rw [← pendIds_filter, ← h4]; rfl
      rw [hpe, mem_filter_ne] at hx
      have := h.pendfl x hx.1
      simp only [fl, h1, h2, h3, hm, List.mem_append, List.mem_cons] at this ⊢
      rcases this with a | a | a
      · exact .inl a
      · exact absurd a hx.2
      · exact .inr a
    rcases hc with ⟨hn, e⟩ | ⟨hid, hnone, _⟩ | ⟨hid, c', hd', hcnt, e⟩ | ⟨hid, c', hd', hcnt, e⟩
    · exact absurd hidp hn
    · exfalso
      obtain ⟨c0, h0, hin⟩ := hd.coll_exists hid
      exact (decAll_spec s.processing id).2.1 hnone c0 h0 hin
    · obtain ⟨c0, h0, hin, hcc, hs⟩ := hd.decAll_some hd'
      have huniq : ∀ c1 ∈ s.processing, id ∈ c1.subs → c1 = c0 := by
        intro c1 hc1 hx1
        rcases pairwise_mem' hd.subs_disj hc1 h0 with e | r | r
        · exact e
        · exact absurd hin (r id hx1)
        · exact absurd hx1 (r id hin)
      rw [e]
      constructor
      · exact hpend _ rfl rfl rfl rfl
      · intro x hx
        have := h.cover x hx
        show x ∈ s.completed ++ (s.processing.map (decOne id)).map (·.sup.id) ++ s.cpIn.map (·.id)
        rw [procIds_map_decOne]; exact this
      · exact h.cpin
      · intro hpos c hc
        obtain ⟨c1, hc1, rfl⟩ := mem_map_decOne hc
        by_cases hin1 : id ∈ c1.subs
        · have := huniq c1 hc1 hin1
          subst this
          have hp := h.pos hpos c1 hc1
          have : (decOne id c1).count = c1.count - 1 := by simp [decOne, hin1]
          rw [this]; omega
        · have : (decOne id c1).count = c1.count := by simp [decOne, hin1]
          rw [this]; exact h.pos hpos c1 hc1
    · obtain ⟨c0, h0, hin, hcc, hs⟩ := hd.decAll_some hd'
      have huniq : ∀ c1 ∈ s.processing, id ∈ c1.subs → c1 = c0 := by
        intro c1 hc1 hx1
        rcases pairwise_mem' hd.subs_disj hc1 h0 with e | r | r
        · exact e
        · exact absurd hin (r id hx1)
        · exact absurd hx1 (r id hin)
      rw [e]
      constructor
      · exact hpend _ rfl rfl rfl rfl
      · intro x hx
        have := h.cover x hx
        show x ∈ s.completed ++ [c'.sup.id] ++
          ((s.processing.map (decOne id)).filter (·.sup.id != c'.sup.id)).map (·.sup.id) ++ s.cpIn.map (·.id)
        rw [procIds_filter_decOne]
        simp only [List.mem_append, List.mem_singleton, List.mem_filter, bne_iff_ne, ne_eq] at this ⊢
        rcases this with (a | a) | a
        · exact .inl (.inl (.inl a))
        · by_cases hx' : x = c'.sup.id
          · exact .inl (.inl (.inr hx'))
          · exact .inl (.inr ⟨a, hx'⟩)
        · exact .inr a
      · exact h.cpin
      · intro hpos c hc
        obtain ⟨hc, hne⟩ := List.mem_filter.1 hc
        obtain ⟨c1, hc1, rfl⟩ := mem_map_decOne hc
        by_cases hin1 : id ∈ c1.subs
        · have := huniq c1 hc1 hin1
          subst this
          rw [decOne_sup, hs] at hne
          simp at hne
        · have : (decOne id c1).count = c1.count := by simp [decOne, hin1]
          rw [this]; exact h.pos hpos c1 hc1

theorem sendCP_fault (s : Dma) : s.sendCP.1.fault = s.fault := by
  unfold Dma.sendCP; cases s.toCP <;> rfl

theorem sendMem_fault (s : Dma) : s.sendMem.1.fault = s.fault := by
  unfold Dma.sendMem
  cases s.toMem with
  | nil => rfl
  | cons r rest => simp only; split <;> rfl

/-- without fault and with every in-flight id pending, the tick runs all four stages -/
theorem tick_fst_flow {s : Dma} {o : List MemReq} {nc : Nat} {d : List Nat} (hf : FInv s o) (hd : DInv s nc d)
    (hn : s.fault = none) : s.tick.1 = s.sendCP.1.sendMem.1.parseFromMem.1.parseFromCP.1 := by
  have h3 := (hf.sendCP.sendMem.parseFromMem hd.sendCP.sendMem).2
  rw [sendMem_fault, sendCP_fault, hn] at h3
  rw [Dma.tick_fst s hn, h3]; rfl

theorem LInv.tick {s : Dma} {o : List MemReq} {n nc : Nat} {d : List Nat} {cps : List CpReq}
    (h : LInv s o n cps) (hf : FInv s o) (hd : DInv s nc d) (hn : s.fault = none) : LInv s.tick.1 o n cps := by
  rw [tick_fst_flow hf hd hn]
  exact (h.sendCP.sendMem.parseFromMem hf.sendCP.sendMem hd.sendCP.sendMem).parseFromCP

/-! ## the environment level -/

/-- everything known about a state reachable without injected responses -/
structure Env.Live (e : Env) : Prop where
  inv : e.Inv
  flow : e.Flow
  tx : e.TxInv
  l : LInv e.s e.outstanding e.nextCp e.cps

theorem mem_eraseIdx_or {α} {l : List α} {k : Nat} {r x : α} (hr : l[k]? = some r) (hx : x ∈ l) :
    x = r ∨ x ∈ l.eraseIdx k := by
  obtain ⟨i, hi, rfl⟩ := List.getElem_of_mem hx
  by_cases hik : i = k
  · left
    subst hik
    rw [List.getElem?_eq_getElem hi] at hr
    simpa using hr
  · right
    rw [List.mem_eraseIdx_iff_getElem?]
    exact ⟨i, hik, List.getElem?_eq_getElem hi⟩

theorem Env.Live.step {e : Env} (h : e.Live) (op : EnvOp) (hop : op.isInject = false) : (e.step op).Live := by
  refine ⟨h.inv.step op, h.flow.step h.inv op hop, h.tx.step op, ?_⟩
  have hl := h.l
  cases op with
  | inject id => cases hop
  | copy k a l =>
    constructor
    · exact hl.pendfl
    · intro x hx
      show x ∈ e.s.completed ++ procIds e.s ++ (e.s.cpIn ++ [({ id := e.nextCp, kind := k, addr := a, len := l } : CpReq)]).map (·.id)
      by_cases hlt : x < e.nextCp
      · have := hl.cover x hlt
        simp only [List.map_append, List.mem_append] at this ⊢
        rcases this with (a | a) | a
        · exact .inl (.inl a)
        · exact .inl (.inr a)
        · exact .inr (.inl a)
      · have : x = e.nextCp := by
          have : x < e.nextCp + 1 := hx
          omega
        subst this
        simp
    · intro r hr
      show r ∈ e.cps ++ [_]
      have hr' : r ∈ e.s.cpIn ++ [({ id := e.nextCp, kind := k, addr := a, len := l } : CpReq)] := hr
      rcases List.mem_append.1 hr' with a | a
      · exact List.mem_append_left _ (hl.cpin r a)
      · exact List.mem_append_right _ a
    · intro hpos
      exact hl.pos (fun r hr => hpos r (List.mem_append_left _ hr))
  | tick => exact hl.tick h.flow.f h.inv.d h.flow.nofault
  | take k =>
    refine hl.congr rfl ?_ rfl rfl rfl
    intro x hx
    have hm : e.s.memOut.map (·.id) = (e.s.memOut.take k).map (·.id) ++ (e.s.memOut.drop k).map (·.id) := by
      rw [← List.map_append, List.take_append_drop]
    simp only [fl, Env.step, List.map_append, hm, List.mem_append] at hx ⊢
    rcases hx with ((a | (a | a)) | a) | a
    · exact .inl (.inl (.inl a))
    · exact .inl (.inr (.inr a))
    · exact .inl (.inl (.inr a))
    · exact .inl (.inr (.inl a))
    · exact .inr a
  | respond j =>
    unfold Env.step
    simp only
    split
    · exact hl
    · split
      · exact hl
      · rename_i r hr
        refine hl.congr rfl ?_ rfl rfl rfl
        intro x hx
        simp only [fl, List.mem_append, List.mem_map, List.mem_singleton] at hx ⊢
        rcases hx with ((a | a) | ⟨q, hq, rfl⟩) | a
        · exact .inl (.inl (.inl a))
        · exact .inl (.inl (.inr a))
        · rcases mem_eraseIdx_or hr hq with rfl | hq'
          · exact .inr (.inr rfl)
          · exact .inl (.inr ⟨q, hq', rfl⟩)
        · exact .inr (.inl a)
  | drain => exact hl.congr rfl (fun x hx => hx) rfl rfl rfl

theorem Env.init_live (log2 maxReq memCap : Nat) : (Env.init log2 maxReq memCap).Live := by
  refine ⟨Env.init_inv .., Env.init_flow .., Env.init_tx .., ?_⟩
  constructor
  · intro x hx; simp [pendIds, Env.init] at hx
  · intro x hx; simp [Env.init] at hx
  · intro r hr; simp [Env.init] at hr
  · intro _ c hc; simp [Env.init] at hc

theorem Env.run_live {e : Env} (h : e.Live) (ops : List EnvOp) (hops : ∀ op ∈ ops, op.isInject = false) :
    (e.run ops).Live := by
  induction ops generalizing e with
  | nil => exact h
  | cons op ops ih =>
    exact ih (h.step op (hops op List.mem_cons_self)) (fun o ho => hops o (List.mem_cons_of_mem _ ho))

/-! ## quiet states -/

/-- nothing queued, in processing, in flight or waiting to be collected -/
def Env.quiet (e : Env) : Prop :=
  e.s.cpIn = [] ∧ e.s.processing = [] ∧ e.s.toMem = [] ∧ e.s.memOut = [] ∧ e.outstanding = [] ∧
  e.s.memIn = [] ∧ e.s.pending = [] ∧ e.s.toCP = [] ∧ e.s.cpOut = []

instance (e : Env) : Decidable e.quiet := by unfold Env.quiet; infer_instance

/-- quiet: every received copy completed and was collected exactly once -/
theorem Env.Live.quiet_perm {e : Env} (h : e.Live) (hq : e.quiet) : e.drained.Perm (e.cps.map (·.id)) := by
  obtain ⟨q1, q2, _, _, _, _, _, q8, q9⟩ := hq
  have hem := h.inv.d.emitted
  rw [q8, q9, List.append_nil, List.append_nil] at hem
  have hnd : e.drained.Nodup := by
    rw [← hem]; exact (List.nodup_append.1 (List.nodup_append.1 h.inv.d.ids_nodup).1).1
  rw [h.inv.cps_ids, List.perm_ext_iff_of_nodup hnd List.nodup_range]
  intro x
  rw [List.mem_range]
  constructor
  · intro hx
    exact h.inv.d.ids_lt x (by rw [hem]; exact List.mem_append_left _ (List.mem_append_left _ hx))
  · intro hx
    have := h.l.cover x hx
    rw [hem] at this
    simpa [procIds, q1, q2] using this

theorem sendCP_nil {s : Dma} (h : s.toCP = []) : s.sendCP = (s, false) := by
  unfold Dma.sendCP; rw [h]

theorem sendMem_nil {s : Dma} (h : s.toMem = []) : s.sendMem = (s, false) := by
  unfold Dma.sendMem; rw [h]

theorem parseFromMem_nil {s : Dma} (h : s.memIn = []) : s.parseFromMem = (s, false) := by
  unfold Dma.parseFromMem; rw [h]

theorem parseFromCP_nil {s : Dma} (h : s.cpIn = []) : s.parseFromCP = (s, false) := by
  unfold Dma.parseFromCP; rw [h]; split <;> rfl

/-- a tick changes nothing when the four queues the stages read are empty, or when a stage is blocked -/
theorem dma_tick_idle {s : Dma} (h1 : s.sendCP = (s, false)) (h2 : s.sendMem = (s, false))
    (h3 : s.parseFromMem = (s, false)) (h4 : s.parseFromCP = (s, false)) : s.tick.1 = s := by
  cases hf : s.fault with
  | some x => exact Dma.tick_fst_fault s (by simp [hf])
  | none =>
    rw [Dma.tick_fst s hf, h1]
    simp only
    rw [h2]
    simp only
    rw [h3]
    simp only [hf, Option.isSome_none, Bool.false_eq_true, if_false]
    rw [h4]

/-- a state in which the tick is idle, and nothing can be taken, answered or drained, is a fixed point of
    every move that does not feed the engine -/
theorem dma_stuck_step {e : Env} (ht : e.s.tick.1 = e.s) (h1 : e.s.memOut = []) (h2 : e.outstanding = [])
    (h3 : e.s.cpOut = []) (op : EnvOp) (hop : op.isInput = false) : e.step op = e := by
  cases op with
  | copy k a l => cases hop
  | inject id => cases hop
  | tick => show { e with s := e.s.tick.1 } = e; rw [ht]
  | take k =>
    rcases dstep_take e k with h | h
    · exact h.2
    · simp only [Env.step, dmaMeasure, Dma.meas, h1] at h; simp at h
  | respond j =>
    rcases dstep_respond e j with h | h
    · exact h.2
    · exfalso
      unfold Env.step at h
      simp only [h2] at h
      split at h
      · exact Nat.lt_irrefl _ h
      · simp at h
  | drain =>
    rcases dstep_drain e with h | h
    · exact h.2
    · simp only [Env.step, dmaMeasure, Dma.meas, h3] at h; simp at h

theorem quiet_dstep {e : Env} (hq : e.quiet) (op : EnvOp) (hop : op.isInput = false) : e.step op = e := by
  obtain ⟨q1, _, q3, q4, q5, q6, _, q8, q9⟩ := hq
  exact dma_stuck_step (dma_tick_idle (sendCP_nil q8) (sendMem_nil q3) (parseFromMem_nil q6) (parseFromCP_nil q1))
    q4 q5 q9 op hop

/-! ## no deadlock -/

/-- A state reachable without injected responses, all of whose received copies are non-empty, in which
    no move changes anything, is quiet. -/
theorem dma_no_deadlock_core {e : Env} (h : e.Live) (hlen : ∀ r ∈ e.cps, 0 < r.len) (hmax : 1 ≤ e.s.maxReq)
    (hcap : 1 ≤ e.s.memCap) (ht : e.s.tick.1 = e.s) (h1 : e.s.memOut = [])
    (h2 : e.s.memCap ≤ e.s.memIn.length ∨ e.outstanding = []) (h3 : e.s.cpOut = []) : e.quiet := by
  obtain ⟨f1, f2, f3, f4⟩ := dma_tick_fix h.flow.nofault ht
  have d1 : e.s.toCP = [] := by
    cases hc : e.s.toCP with
    | nil => rfl
    | cons r rest =>
      have : e.s.sendCP.2 = true := by unfold Dma.sendCP; rw [hc]
      rw [f1] at this; cases this
  have d2 : e.s.toMem = [] := by
    cases hc : e.s.toMem with
    | nil => rfl
    | cons r rest =>
      have : e.s.sendMem.2 = true := by
        unfold Dma.sendMem; rw [hc]; simp only
        rw [if_pos (by rw [h1]; exact hcap)]
      rw [f2] at this; cases this
  have d3 : e.s.memIn = [] := by
    rcases parseFromMem_cases e.s with ⟨a, _⟩ | ⟨id, rest, _, hc⟩
    · exact a
    · exfalso
      have : e.s.parseFromMem.2 = true := by
        rcases hc with ⟨_, e'⟩ | ⟨_, _, e'⟩ | ⟨_, _, _, _, e'⟩ | ⟨_, _, _, _, e'⟩ <;> rw [e']
      rw [f3] at this; cases this
  have d4 : e.outstanding = [] := by
    rcases h2 with a | a
    · rw [d3] at a; simp at a; omega
    · exact a
  have d5 : e.s.pending = [] := by
    cases hp : e.s.pending with
    | nil => rfl
    | cons q rest =>
      have := h.l.pendfl q.id (by simp [pendIds, hp])
      simp [fl, d2, h1, d4, d3] at this
  have d6 : e.s.processing = [] := by
    cases hp : e.s.processing with
    | nil => rfl
    | cons c rest =>
      have hc : c ∈ e.s.processing := by rw [hp]; exact List.mem_cons_self
      have hpos := h.l.pos hlen c hc
      have hcnt := h.inv.d.count_eq c hc
      have : pendIds e.s = [] := by simp [pendIds, d5]
      have hnil : c.subs.filter (fun x => decide (x ∈ pendIds e.s)) = [] := by
        rw [this]; exact List.filter_eq_nil_iff.2 (fun x _ => by simp)
      rw [hnil] at hcnt
      simp at hcnt
      omega
  have d7 : e.s.cpIn = [] := by
    rcases parseFromCP_cases e.s with ⟨_, a | a⟩ | ⟨r, rest, _, _, e'⟩
    · rw [d6] at a; simp at a; omega
    · exact a
    · rw [f4] at e'
      have := congrArg Prod.snd e'
      cases this
  exact ⟨d7, d6, d2, h1, d4, d3, d5, d1, h3⟩

/-! ## configuration and received copies are constant -/

theorem sendCP_cfg (s : Dma) : s.sendCP.1.maxReq = s.maxReq ∧ s.sendCP.1.memCap = s.memCap := by
  unfold Dma.sendCP; cases s.toCP <;> exact ⟨rfl, rfl⟩

theorem sendMem_cfg (s : Dma) : s.sendMem.1.maxReq = s.maxReq ∧ s.sendMem.1.memCap = s.memCap := by
  unfold Dma.sendMem
  cases s.toMem with
  | nil => exact ⟨rfl, rfl⟩
  | cons r rest => simp only; split <;> exact ⟨rfl, rfl⟩

theorem parseFromMem_cfg (s : Dma) : s.parseFromMem.1.maxReq = s.maxReq ∧ s.parseFromMem.1.memCap = s.memCap := by
  rcases parseFromMem_cases s with ⟨_, e⟩ | ⟨id, rest, _, hc⟩
  · rw [e]; exact ⟨rfl, rfl⟩
  · rcases hc with ⟨_, e⟩ | ⟨_, _, e⟩ | ⟨_, _, _, _, e⟩ | ⟨_, _, _, _, e⟩ <;> rw [e] <;> exact ⟨rfl, rfl⟩

theorem parseFromCP_cfg (s : Dma) : s.parseFromCP.1.maxReq = s.maxReq ∧ s.parseFromCP.1.memCap = s.memCap := by
  rcases parseFromCP_cases s with ⟨e, _⟩ | ⟨r, rest, _, _, e⟩ <;> rw [e] <;> exact ⟨rfl, rfl⟩

theorem tick_cfg (s : Dma) : s.tick.1.maxReq = s.maxReq ∧ s.tick.1.memCap = s.memCap := by
  have a := sendCP_cfg s
  have b := sendMem_cfg s.sendCP.1
  have c := parseFromMem_cfg s.sendCP.1.sendMem.1
  have d := parseFromCP_cfg s.sendCP.1.sendMem.1.parseFromMem.1
  cases hf : s.fault with
  | some x => rw [Dma.tick_fst_fault s (by simp [hf])]; exact ⟨rfl, rfl⟩
  | none =>
    rw [Dma.tick_fst s hf]
    split
    · exact ⟨c.1.trans (b.1.trans a.1), c.2.trans (b.2.trans a.2)⟩
    · exact ⟨d.1.trans (c.1.trans (b.1.trans a.1)), d.2.trans (c.2.trans (b.2.trans a.2))⟩

theorem dstep_cfg (e : Env) (op : EnvOp) :
    (e.step op).s.maxReq = e.s.maxReq ∧ (e.step op).s.memCap = e.s.memCap := by
  cases op with
  | tick => exact tick_cfg e.s
  | respond j =>
    unfold Env.step; simp only
    split
    · exact ⟨rfl, rfl⟩
    · split <;> exact ⟨rfl, rfl⟩
  | _ => exact ⟨rfl, rfl⟩

theorem dstep_cps (e : Env) (op : EnvOp) (hop : op.isInput = false) : (e.step op).cps = e.cps := by
  cases op with
  | copy k a l => cases hop
  | respond j =>
    unfold Env.step; simp only
    split
    · rfl
    · split <;> rfl
  | _ => rfl

theorem run_cfg (e : Env) (ops : List EnvOp) :
    (e.run ops).s.maxReq = e.s.maxReq ∧ (e.run ops).s.memCap = e.s.memCap := by
  induction ops generalizing e with
  | nil => exact ⟨rfl, rfl⟩
  | cons op ops ih =>
    have a := ih (e.step op)
    have b := dstep_cfg e op
    exact ⟨a.1.trans b.1, a.2.trans b.2⟩

theorem isInject_of_isInput {op : EnvOp} (h : op.isInput = false) : op.isInject = false := by
  cases op <;> first | rfl | cases h

/-! ## infinite schedules -/

/-- the state after the first `i` moves of the infinite schedule `σ` -/
def dmaRunSched (e : Env) (σ : Nat → EnvOp) : Nat → Env
  | 0 => e
  | i + 1 => (dmaRunSched e σ i).step (σ i)

/-- A fair schedule that feeds nothing new into the engine: again and again the engine ticks, the
    memory side takes at least one transaction (if there is one), answers some outstanding transaction
    (if there is one; which one is arbitrary), and the CP side collects the completions. -/
def DmaFair (σ : Nat → EnvOp) : Prop :=
  (∀ i, (σ i).isInput = false) ∧
  ∀ i, (∃ j, i ≤ j ∧ σ j = .tick) ∧ (∃ j, i ≤ j ∧ ∃ k, 1 ≤ k ∧ σ j = .take k) ∧
    (∃ j, i ≤ j ∧ ∃ x, σ j = .respond x) ∧ (∃ j, i ≤ j ∧ σ j = .drain)

theorem dmaRunSched_succ (e : Env) (σ : Nat → EnvOp) (i : Nat) :
    dmaRunSched e σ (i + 1) = (dmaRunSched e σ i).step (σ i) := rfl

theorem dmaRunSched_eq_run (e : Env) (σ : Nat → EnvOp) (i : Nat) :
    dmaRunSched e σ i = e.run ((List.range i).map σ) := by
  induction i with
  | zero => rfl
  | succ i ih =>
    rw [List.range_succ, List.map_append, Env.run, List.foldl_append]
    show (dmaRunSched e σ i).step (σ i) = _
    rw [ih]; rfl

theorem dmaRunSched_live {e : Env} (h : e.Live) {σ : Nat → EnvOp} (hσ : ∀ i, (σ i).isInput = false) (i : Nat) :
    (dmaRunSched e σ i).Live := by
  induction i with
  | zero => exact h
  | succ i ih => exact ih.step _ (isInject_of_isInput (hσ i))

theorem dmaRunSched_cps (e : Env) {σ : Nat → EnvOp} (hσ : ∀ i, (σ i).isInput = false) (i : Nat) :
    (dmaRunSched e σ i).cps = e.cps := by
  induction i with
  | zero => rfl
  | succ i ih => exact (dstep_cps _ _ (hσ i)).trans ih

theorem dmaRunSched_cfg (e : Env) (σ : Nat → EnvOp) (i : Nat) :
    (dmaRunSched e σ i).s.maxReq = e.s.maxReq ∧ (dmaRunSched e σ i).s.memCap = e.s.memCap := by
  rw [dmaRunSched_eq_run]; exact run_cfg e _

/-- once quiet, quiet for ever (nothing new is fed in) -/
theorem dmaRunSched_quiet_const {e : Env} {σ : Nat → EnvOp} (hσ : ∀ i, (σ i).isInput = false) {N : Nat}
    (hq : (dmaRunSched e σ N).quiet) : ∀ d, dmaRunSched e σ (N + d) = dmaRunSched e σ N := by
  intro d
  induction d with
  | zero => rfl
  | succ d ih =>
    rw [← Nat.add_assoc, dmaRunSched_succ, ih]
    exact quiet_dstep hq _ (hσ _)

/-- on a fair schedule: quiet now, or the measure drops later -/
theorem dma_fair_quiet_or_drop {e : Env} {σ : Nat → EnvOp} (hσ : DmaFair σ) (h : e.Live)
    (hlen : ∀ r ∈ e.cps, 0 < r.len) (hmax : 1 ≤ e.s.maxReq) (hcap : 1 ≤ e.s.memCap) (i : Nat) :
    (dmaRunSched e σ i).quiet ∨
    ∃ j, i ≤ j ∧ dmaMeasure (dmaRunSched e σ j) < dmaMeasure (dmaRunSched e σ i) := by
  by_cases hex : ∃ j, i ≤ j ∧ dmaMeasure (dmaRunSched e σ j) < dmaMeasure (dmaRunSched e σ i)
  · exact .inr hex
  · left
    have hconst : ∀ d, dmaRunSched e σ (i + d) = dmaRunSched e σ i := by
      intro d
      induction d with
      | zero => rfl
      | succ d ih =>
        have hp := dstep_prog (dmaRunSched e σ (i + d)) (σ (i + d)) (hσ.1 _)
        rw [← dmaRunSched_succ] at hp
        rcases hp with hp | hp
        · exact hp.trans ih
        · rw [ih] at hp
          exact absurd ⟨i + d + 1, by omega, hp⟩ hex
    have hc : ∀ j, i ≤ j → dmaRunSched e σ j = dmaRunSched e σ i := by
      intro j hj
      have := hconst (j - i)
      rwa [show i + (j - i) = j by omega] at this
    have hnoop : ∀ j, i ≤ j → (dmaRunSched e σ i).step (σ j) = dmaRunSched e σ i := by
      intro j hj
      have h1 := dmaRunSched_succ e σ j
      rw [hc j hj, hc (j + 1) (by omega)] at h1
      exact h1.symm
    have irr : ∀ {x : Env}, x = dmaRunSched e σ i → ¬ dmaMeasure x < dmaMeasure (dmaRunSched e σ i) := by
      intro x hx; rw [hx]; exact Nat.lt_irrefl _
    obtain ⟨⟨j1, l1, s1⟩, ⟨j2, l2, k2, hk2, s2⟩, ⟨j3, l3, x3, s3⟩, ⟨j4, l4, s4⟩⟩ := hσ.2 i
    have n1 := hnoop j1 l1; rw [s1] at n1
    have n2 := hnoop j2 l2; rw [s2] at n2
    have n3 := hnoop j3 l3; rw [s3] at n3
    have n4 := hnoop j4 l4; rw [s4] at n4
    have hcfg := dmaRunSched_cfg e σ i
    refine dma_no_deadlock_core (dmaRunSched_live h hσ.1 i) (by rw [dmaRunSched_cps e hσ.1]; exact hlen)
      (by rw [hcfg.1]; exact hmax) (by rw [hcfg.2]; exact hcap) ?_ ?_ ?_ ?_
    · exact congrArg Env.s n1
    · rcases dstep_take (dmaRunSched e σ i) k2 with ⟨a | a, _⟩ | a
      · omega
      · exact a
      · exact absurd a (irr n2)
    · rcases dstep_respond (dmaRunSched e σ i) x3 with ⟨a, _⟩ | a
      · exact a
      · exact absurd a (irr n3)
    · rcases dstep_drain (dmaRunSched e σ i) with ⟨a, _⟩ | a
      · exact a
      · exact absurd a (irr n4)

/-- on a fair schedule a quiet state is reached -/
theorem dma_fair_reaches_quiet {e : Env} {σ : Nat → EnvOp} (hσ : DmaFair σ) (h : e.Live)
    (hlen : ∀ r ∈ e.cps, 0 < r.len) (hmax : 1 ≤ e.s.maxReq) (hcap : 1 ≤ e.s.memCap) :
    ∀ m i, dmaMeasure (dmaRunSched e σ i) ≤ m → ∃ N, i ≤ N ∧ (dmaRunSched e σ N).quiet := by
  intro m
  induction m with
  | zero =>
    intro i hm
    rcases dma_fair_quiet_or_drop hσ h hlen hmax hcap i with a | ⟨j, _, hj⟩
    · exact ⟨i, Nat.le_refl _, a⟩
    · omega
  | succ m ih =>
    intro i hm
    rcases dma_fair_quiet_or_drop hσ h hlen hmax hcap i with a | ⟨j, hij, hj⟩
    · exact ⟨i, Nat.le_refl _, a⟩
    · obtain ⟨N, hN, hq⟩ := ih j (by omega)
      exact ⟨N, by omega, hq⟩

/-- the full conclusion from a `Live` start state -/
theorem dma_live_fair_complete {e : Env} {σ : Nat → EnvOp} (hσ : DmaFair σ) (h : e.Live)
    (hlen : ∀ r ∈ e.cps, 0 < r.len) (hmax : 1 ≤ e.s.maxReq) (hcap : 1 ≤ e.s.memCap) :
    ∃ N, ∀ M, N ≤ M → (dmaRunSched e σ M).quiet ∧ (dmaRunSched e σ M).s.fault = none ∧
      (dmaRunSched e σ M).cps = e.cps ∧ (dmaRunSched e σ M).drained.Perm (e.cps.map (·.id)) := by
  obtain ⟨N, _, hq⟩ := dma_fair_reaches_quiet hσ h hlen hmax hcap _ 0 (Nat.le_refl _)
  refine ⟨N, fun M hM => ?_⟩
  have hc := dmaRunSched_quiet_const hσ.1 hq (M - N)
  rw [show N + (M - N) = M by omega] at hc
  have hl := dmaRunSched_live h hσ.1 M
  have hq' : (dmaRunSched e σ M).quiet := by rw [hc]; exact hq
  refine ⟨hq', hl.flow.nofault, dmaRunSched_cps e hσ.1 M, ?_⟩
  have := hl.quiet_perm hq'
  rwa [dmaRunSched_cps e hσ.1 M] at this

/-! ## the number of productive moves is bounded by the measure -/

/-- number of moves of the run that change the state -/
def dmaProductive (e : Env) : List EnvOp → Nat
  | [] => 0
  | op :: rest => (if e.step op = e then 0 else 1) + dmaProductive (e.step op) rest

theorem dma_productive_le (l : List EnvOp) (hl : ∀ op ∈ l, op.isInput = false) (e : Env) :
    dmaProductive e l ≤ dmaMeasure e := by
  induction l generalizing e with
  | nil => exact Nat.zero_le _
  | cons op l ih =>
    have ih' := ih (fun o ho => hl o (List.mem_cons_of_mem _ ho)) (e.step op)
    rcases dstep_prog e op (hl op List.mem_cons_self) with h | h
    · simp only [dmaProductive, h, if_true, Nat.zero_add]
      rw [h] at ih'; exact ih'
    · simp only [dmaProductive]
      split <;> omega

/-! ## a fair schedule -/

/-- round robin: tick, the memory takes one transaction, answers the oldest outstanding one, the CP side
    collects the completions -/
def dmaRoundRobin (i : Nat) : EnvOp :=
  match i % 4 with
  | 0 => .tick
  | 1 => .take 1
  | 2 => .respond 0
  | _ => .drain

theorem dmaRoundRobin_at (i r : Nat) : dmaRoundRobin (4 * i + r) = dmaRoundRobin r := by
  unfold dmaRoundRobin
  rw [Nat.mul_add_mod]

theorem dmaRoundRobin_fair : DmaFair dmaRoundRobin := by
  constructor
  · intro i
    unfold dmaRoundRobin
    split <;> rfl
  · intro i
    refine ⟨⟨4 * i + 0, by omega, ?_⟩, ⟨4 * i + 1, by omega, 1, Nat.le_refl _, ?_⟩,
      ⟨4 * i + 2, by omega, 0, ?_⟩, ⟨4 * i + 3, by omega, ?_⟩⟩ <;>
    (rw [dmaRoundRobin_at]; rfl)

/-! ## states that wait for ever -/

theorem dmaRunSched_stuck {e : Env} (ht : e.s.tick.1 = e.s) (h1 : e.s.memOut = []) (h2 : e.outstanding = [])
    (h3 : e.s.cpOut = []) {σ : Nat → EnvOp} (hσ : ∀ i, (σ i).isInput = false) :
    ∀ M, dmaRunSched e σ M = e := by
  intro M
  induction M with
  | zero => rfl
  | succ M ih =>
    rw [dmaRunSched_succ, ih]
    exact dma_stuck_step ht h1 h2 h3 _ (hσ M)

/-! ## statements for `Live` states, as used by the property theorems -/

theorem init_run_live (log2 maxReq memCap : Nat) (ops : List EnvOp) (hops : ∀ op ∈ ops, op.isInject = false) :
    ((Env.init log2 maxReq memCap).run ops).Live :=
  Env.run_live (Env.init_live log2 maxReq memCap) ops hops

theorem init_run_cfg (log2 maxReq memCap : Nat) (ops : List EnvOp) :
    ((Env.init log2 maxReq memCap).run ops).s.maxReq = maxReq ∧
    ((Env.init log2 maxReq memCap).run ops).s.memCap = memCap :=
  run_cfg (Env.init log2 maxReq memCap) ops

/-- a `Live` state in which none of the four kinds of move changes anything is quiet -/
theorem dma_no_deadlock_live {e : Env} (h : e.Live) (hlen : ∀ r ∈ e.cps, 0 < r.len) (hmax : 1 ≤ e.s.maxReq)
    (hcap : 1 ≤ e.s.memCap) (n1 : e.step .tick = e) (n2 : e.step (.take 1) = e) (n3 : e.step (.respond 0) = e)
    (n4 : e.step .drain = e) : e.quiet := by
  have irr : ∀ {x : Env}, x = e → ¬ dmaMeasure x < dmaMeasure e := by
    intro x hx; rw [hx]; exact Nat.lt_irrefl _
  refine dma_no_deadlock_core h hlen hmax hcap (congrArg Env.s n1) ?_ ?_ ?_
  · rcases dstep_take e 1 with ⟨a | a, _⟩ | a
    · omega
    · exact a
    · exact absurd a (irr n2)
  · rcases dstep_respond e 0 with ⟨a, _⟩ | a
    · exact a
    · exact absurd a (irr n3)
  · rcases dstep_drain e with ⟨a, _⟩ | a
    · exact a
    · exact absurd a (irr n4)

end C11
