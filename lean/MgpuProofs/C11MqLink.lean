import MgpuProofs.C11MqInv
/-! Facts about every reachable state of the multi-queue copy model that link the driver to its
environment (used when the driver model is composed with the CP and the DMA engine): what the GPU
side has taken was created by the driver, what it holds it has taken, every answer is for a request
it had taken; the requests of a completed command. -/
namespace C11

/-! ## the ghost list `created` only grows, answers only move from the port to `answered` -/

/-- what a stage of the tick may do to `created`, `answered` and the answers waiting in the port -/
structure MqGrow (s s' : Mq) : Prop where
  created : ∃ l, s'.created = s.created ++ l
  ans : ∀ x, x ∈ s'.answered ++ s'.portIn → x ∈ s.answered ++ s.portIn

theorem MqGrow.refl (s : Mq) : MqGrow s s := ⟨⟨[], (List.append_nil _).symm⟩, fun _ h => h⟩

/-- a stage that touches neither `created` nor `answered` nor the answers in the port -/
theorem MqGrow.of_eq {s s' : Mq} (hc : s'.created = s.created) (ha : s'.answered = s.answered)
    (hp : s'.portIn = s.portIn) : MqGrow s s' :=
  ⟨⟨[], by rw [hc, List.append_nil]⟩, fun x hx => by rw [ha, hp] at hx; exact hx⟩

theorem MqGrow.trans {s s1 s2 : Mq} (h1 : MqGrow s s1) (h2 : MqGrow s1 s2) : MqGrow s s2 := by
  obtain ⟨l1, e1⟩ := h1.created
  obtain ⟨l2, e2⟩ := h2.created
  exact ⟨⟨l1 ++ l2, by rw [e2, e1, List.append_assoc]⟩, fun x hx => h1.ans x (h2.ans x hx)⟩

theorem Mq.sendToGPUs_grow (s : Mq) : MqGrow s s.sendToGPUs.1 := by
  rcases s.sendToGPUs_cases with ⟨e, _⟩ | ⟨r, rest, _, _, e⟩ <;> rw [e] <;> exact MqGrow.of_eq rfl rfl rfl

theorem Mq.delay_grow (s : Mq) : MqGrow s s.delay.1 := by
  rcases s.delay_cases with ⟨_, e⟩ | ⟨_, e⟩ | ⟨_, e⟩ <;> rw [e] <;> exact MqGrow.of_eq rfl rfl rfl

theorem Mq.response_grow (s : Mq) : MqGrow s s.response.1 := by
  rcases s.response_cases with ⟨_, e⟩ | ⟨id, rest, _, _, e⟩ | ⟨id, rest, qs', c, hpi, _, e⟩
  · rw [e]; exact MqGrow.refl s
  · rw [e]; exact MqGrow.of_eq rfl rfl rfl
  · rw [e]
    refine ⟨⟨[], (List.append_nil _).symm⟩, fun x hx => ?_⟩
    change x ∈ (s.answered ++ [id]) ++ rest at hx
    rw [hpi]
    simp only [List.mem_append, List.mem_cons, List.not_mem_nil, or_false] at hx ⊢
    rcases hx with (hx | hx) | hx
    · exact .inl hx
    · exact .inr (.inl hx)
    · exact .inr (.inr hx)

theorem Mq.start_grow (s : Mq) (qi : Nat) (q : MqQueue) : MqGrow s (s.start qi q).1 := by
  rcases s.start_cases qi q with ⟨_, e⟩ | ⟨c, rest, _, _, _, e⟩ | ⟨c, rest, _, _, _, e⟩
  · rw [e]; exact MqGrow.refl s
  · rw [e]; exact ⟨⟨mqNewReqs s qi q.done c, rfl⟩, fun _ h => h⟩
  · rw [e]; exact MqGrow.of_eq rfl rfl rfl

theorem mqStartAll_grow : ∀ (qs : List MqQueue) (s : Mq) (qi : Nat), MqGrow s (mqStartAll s qi qs).1
  | [], s, _ => MqGrow.refl s
  | q :: rest, s, qi => (s.start_grow qi q).trans (mqStartAll_grow rest (s.start qi q).1 (qi + 1))

theorem Mq.startAll_grow (s : Mq) : MqGrow s s.startAll.1 := by
  have h := mqStartAll_grow s.queues s 0
  exact ⟨h.created, h.ans⟩

theorem Mq.tick_grow (s : Mq) : MqGrow s s.tick.1 := by
  have h3 := (s.sendToGPUs_grow.trans s.sendToGPUs.1.delay_grow).trans s.sendToGPUs.1.delay.1.response_grow
  unfold Mq.tick
  split
  · exact MqGrow.refl s
  · simp only
    split
    · exact h3
    · exact h3.trans (Mq.startAll_grow _)

/-- `created` only grows, whatever the move -/
theorem MqEnv.step_created (e : MqEnv) (op : MqOp) : ∃ l, (e.step op).1.s.created = e.s.created ++ l := by
  cases op with
  | enq qi c =>
    simp only [MqEnv.step]
    split <;> exact ⟨[], (List.append_nil _).symm⟩
  | tick => exact e.s.tick_grow.created
  | take k => exact ⟨[], (List.append_nil _).symm⟩
  | rsp j =>
    simp only [MqEnv.step]
    split
    · exact ⟨[], (List.append_nil _).symm⟩
    · split <;> exact ⟨[], (List.append_nil _).symm⟩

/-! ## the link invariant -/

/-- what the GPU side took was created; what it holds it took; every answer is for a request it took -/
structure MqEnv.Link (e : MqEnv) : Prop where
  seen : ∀ r ∈ e.seen, r ∈ e.s.created
  out : ∀ r ∈ e.outstanding, r ∈ e.seen
  ans : ∀ x ∈ e.s.answered ++ e.s.portIn, ∃ r ∈ e.seen, r.id = x

theorem MqEnv.Link.init (g a b n : Nat) (warm : Bool) : (MqEnv.init g a b n warm).Link :=
  ⟨fun r hr => (by cases hr), fun r hr => (by cases hr), fun x hx => (by cases hx)⟩

theorem MqEnv.Link.step {g a b n : Nat} {e : MqEnv} (hi : e.Inv g a b n) (h : e.Link) (op : MqOp) :
    (e.step op).1.Link := by
  cases op with
  | enq qi c =>
    simp only [MqEnv.step]
    split
    · exact ⟨h.seen, h.out, h.ans⟩
    · exact h
  | tick =>
    have hg := e.s.tick_grow
    obtain ⟨l, hl⟩ := hg.created
    refine ⟨fun r hr => ?_, h.out, fun x hx => h.ans x (hg.ans x hx)⟩
    show r ∈ e.s.tick.1.created
    rw [hl]
    exact List.mem_append_left _ (h.seen r hr)
  | take k =>
    refine ⟨fun r hr => ?_, fun r hr => ?_, fun x hx => ?_⟩
    · change r ∈ e.seen ++ e.s.portOut.take k at hr
      show r ∈ e.s.created
      rcases List.mem_append.1 hr with hr | hr
      · exact h.seen r hr
      · apply hi.fl.objs r
        simp only [List.mem_append]
        exact .inl (.inr (List.mem_of_mem_take hr))
    · change r ∈ e.outstanding ++ e.s.portOut.take k at hr
      show r ∈ e.seen ++ e.s.portOut.take k
      rcases List.mem_append.1 hr with hr | hr
      · exact List.mem_append_left _ (h.out r hr)
      · exact List.mem_append_right _ hr
    · obtain ⟨r, hr, e1⟩ := h.ans x hx
      exact ⟨r, List.mem_append_left _ hr, e1⟩
  | rsp j =>
    simp only [MqEnv.step]
    split
    · exact h
    · split
      · exact h
      · rename_i r hr
        have hrm : r ∈ e.outstanding := List.mem_of_getElem? hr
        refine ⟨h.seen, fun r' hr' => h.out r' (mq_mem_eraseIdx hr'), fun x hx => ?_⟩
        change x ∈ e.s.answered ++ (e.s.portIn ++ [r.id]) at hx
        rw [← List.append_assoc] at hx
        rcases List.mem_append.1 hx with hx | hx
        · exact h.ans x hx
        · rw [List.mem_singleton] at hx
          exact ⟨r, h.out r hrm, hx.symm⟩

theorem MqEnv.Link.run {g a b n : Nat} : ∀ (ops : List MqOp) {e : MqEnv}, e.Inv g a b n → e.Link → (e.run ops).Link
  | [], _, _, h => h
  | op :: rest, _, hi, h => MqEnv.Link.run rest (hi.step op) (h.step hi op)

theorem reachMq_link (g a b n : Nat) (warm : Bool) (ops : List MqOp) : (reachMq g a b n warm ops).Link :=
  MqEnv.Link.run ops (MqEnv.Inv.init g a b n warm) (MqEnv.Link.init g a b n warm)

/-! ## the facts, for every reachable state -/

/-- (A) everything the GPU side ever took from the port was created by the driver -/
theorem mq_seen_created (g a b n : Nat) (warm : Bool) (ops : List MqOp) :
    ∀ r ∈ (reachMq g a b n warm ops).seen, r ∈ (reachMq g a b n warm ops).s.created :=
  (reachMq_link g a b n warm ops).seen

/-- (B) what the GPU side holds it has taken from the port -/
theorem mq_outstanding_seen (g a b n : Nat) (warm : Bool) (ops : List MqOp) :
    ∀ r ∈ (reachMq g a b n warm ops).outstanding, r ∈ (reachMq g a b n warm ops).seen :=
  (reachMq_link g a b n warm ops).out

/-- (C) every answer fed into the GPU port (processed or still waiting) is for a request the GPU side
    had taken -/
theorem mq_answers_were_taken (g a b n : Nat) (warm : Bool) (ops : List MqOp) :
    ∀ x ∈ (reachMq g a b n warm ops).s.answered ++ (reachMq g a b n warm ops).s.portIn,
      ∃ r ∈ (reachMq g a b n warm ops).seen, r.id = x :=
  (reachMq_link g a b n warm ops).ans

/-- `created` only grows under every move from a reachable state (indeed from any state) -/
theorem mq_created_grows (g a b n : Nat) (warm : Bool) (ops : List MqOp) (op : MqOp) :
    ∃ l, ((reachMq g a b n warm ops).step op).1.s.created = (reachMq g a b n warm ops).s.created ++ l :=
  (reachMq g a b n warm ops).step_created op

/-- (D) every request created for a completed command has been answered -/
theorem mq_completed_reqs_answered (g a b n : Nat) (warm : Bool) (ops : List MqOp) (qi seq : Nat) :
    (qi, seq) ∈ (reachMq g a b n warm ops).s.completed →
    ∀ r ∈ (reachMq g a b n warm ops).reqsOf qi seq, r.id ∈ (reachMq g a b n warm ops).s.answered :=
  fun hc => ((reachMq_inv g a b n warm ops).completed_spec hc).1

/-- request ids are never reused -/
theorem mq_created_ids_nodup (g a b n : Nat) (warm : Bool) (ops : List MqOp) :
    ((reachMq g a b n warm ops).s.created.map (·.id)).Nodup :=
  (reachMq_inv g a b n warm ops).ids_nodup

/-- the requests of a completed command: exactly what the command wants, in order; each was created
    and is tagged with the command's queue and sequence number -/
theorem mq_reqsOf_spec (g a b n : Nat) (warm : Bool) (ops : List MqOp) (qi seq : Nat) (c : MqCmd) :
    (qi, seq) ∈ (reachMq g a b n warm ops).s.completed →
    ((reachMq g a b n warm ops).enqOf qi)[seq]? = some c →
    ((reachMq g a b n warm ops).reqsOf qi seq).map (fun r => (r.kind, r.idx)) = mqWantReqs g c ∧
    ∀ r ∈ (reachMq g a b n warm ops).reqsOf qi seq,
      r ∈ (reachMq g a b n warm ops).s.created ∧ r.q = qi ∧ r.seq = seq := by
  intro hc hcmd
  have h := reachMq_inv g a b n warm ops
  have hlt : qi < (reachMq g a b n warm ops).s.queues.length := h.q.comp_lt _ hc
  have hq := List.getElem?_eq_getElem hlt
  have hseq : seq < ((reachMq g a b n warm ops).s.queues[qi]).done := by
    have : seq ∈ ((reachMq g a b n warm ops).s.completed.filter (·.1 = qi)).map (·.2) := by
      simp only [List.mem_map, List.mem_filter, decide_eq_true_eq]
      exact ⟨(qi, seq), ⟨hc, rfl⟩, rfl⟩
    rw [h.q.comp_range qi _ hq] at this
    exact List.mem_range.1 this
  refine ⟨h.q.want qi _ hq seq c hcmd (by omega), fun r hr => ?_⟩
  unfold MqEnv.reqsOf at hr
  simp only [List.mem_filter, decide_eq_true_eq] at hr
  exact ⟨hr.1, hr.2.1, hr.2.2⟩

end C11
