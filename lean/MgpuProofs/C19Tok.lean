import MgpuModel.C19World
import MgpuProofs.C19Mem
/-! Helper lemmas for C19 (closed system): what every stage of `tick` does to the controller, as
    one structure update each; the chunk tokens that travel through the system. -/
namespace C19

@[simp] theorem unit_eq : unit = 64 := rfl

/-! ### the send loops -/

theorem sendLoop_full {α β : Type} (f : α → β) (cap : Nat) (xs : List α) (out : List β)
    (h : ¬ out.length < cap) : sendLoop f cap out xs = (out, xs) := by
  induction xs with
  | nil => rfl
  | cons x xs ih => simp [sendLoop, h, ih]

/-- the loop sends a prefix and keeps the rest -/
theorem sendLoop_spec {α β : Type} (f : α → β) (cap : Nat) (xs : List α) : ∀ out : List β,
    ∃ sent kept, xs = sent ++ kept ∧ sendLoop f cap out xs = (out ++ sent.map f, kept) ∧
      (out.length < cap → xs ≠ [] → sent ≠ []) := by
  induction xs with
  | nil => intro out; exact ⟨[], [], rfl, by simp [sendLoop], by simp⟩
  | cons x xs ih =>
    intro out
    by_cases h : out.length < cap
    · obtain ⟨sent, kept, h1, h2, _⟩ := ih (out ++ [f x])
      refine ⟨x :: sent, kept, by simp [h1], ?_, by simp⟩
      simp [sendLoop, h, h2]
    · exact ⟨[], x :: xs, rfl, by simp [sendLoop_full f cap _ _ h], fun h' => absurd h' h⟩

/-! ### the stages as structure updates -/

theorem sendPull_spec (q : Pmc) (hno : ∀ r ∈ q.toPull, r.dst ≠ q.self) :
    ∃ sent kept, q.toPull = sent ++ kept ∧
      (sendPull q).1 = { q with remOut := q.remOut ++ sent.map RMsg.req, toPull := kept } ∧
      ((sendPull q).2 = true ↔ sent ≠ []) ∧ (q.remOut = [] → q.toPull ≠ [] → sent ≠ []) := by
  unfold sendPull
  by_cases h0 : q.toPull.isEmpty = true
  · refine ⟨[], [], by simpa using h0, ?_, by simp [h0], ?_⟩
    · have : q.toPull = [] := by simpa using h0
      cases q; simp_all
    · intro _ h; simp at h0; exact absurd h0 h
  · have hany : (q.toPull.any fun r => r.dst == q.self) = false := by
      cases h : q.toPull.any fun r => r.dst == q.self with
      | false => rfl
      | true =>
        obtain ⟨r, hr, hd⟩ := List.any_eq_true.mp h
        exact absurd (by simpa using hd) (hno r hr)
    obtain ⟨sent, kept, h1, h2, h3⟩ := sendLoop_spec RMsg.req 1 q.toPull q.remOut
    refine ⟨sent, kept, h1, ?_, ?_, ?_⟩
    · simp [h0, hany, h2]
    · simp only [h0, hany, h2]
      simp [h1]
      cases sent <;> simp
    · intro hr hp; exact h3 (by simp [hr]) hp

theorem sendRead_spec (q : Pmc) :
    ∃ sent kept, q.toRead = sent ++ kept ∧
      (sendRead q).1 = { q with memOut := q.memOut ++ sent, toRead := kept } ∧
      ((sendRead q).2 = true ↔ sent ≠ []) ∧ (q.memOut = [] → q.toRead ≠ [] → sent ≠ []) := by
  unfold sendRead
  by_cases h0 : q.toRead.isEmpty = true
  · refine ⟨[], [], by simpa using h0, ?_, by simp [h0], ?_⟩
    · have : q.toRead = [] := by simpa using h0
      cases q; simp_all
    · intro _ h; simp at h0; exact absurd h0 h
  · obtain ⟨sent, kept, h1, h2, h3⟩ := sendLoop_spec (id : MReq → MReq) 1 q.toRead q.memOut
    refine ⟨sent, kept, h1, ?_, ?_, ?_⟩
    · simp [h0, h2]
    · simp only [h0, h2]
      simp [h1]
      cases sent <;> simp
    · intro hr hp; exact h3 (by simp [hr]) hp

theorem sendWrite_spec (q : Pmc) :
    ∃ sent kept, q.writeReqs = sent ++ kept ∧
      (sendWrite q).1 = { q with memOut := q.memOut ++ sent, writeReqs := kept } ∧
      ((sendWrite q).2 = true ↔ sent ≠ []) ∧ (q.memOut = [] → q.writeReqs ≠ [] → sent ≠ []) := by
  unfold sendWrite
  by_cases h0 : q.writeReqs.isEmpty = true
  · refine ⟨[], [], by simpa using h0, ?_, by simp [h0], ?_⟩
    · have : q.writeReqs = [] := by simpa using h0
      cases q; simp_all
    · intro _ h; simp at h0; exact absurd h0 h
  · obtain ⟨sent, kept, h1, h2, h3⟩ := sendLoop_spec (id : MReq → MReq) 1 q.writeReqs q.memOut
    refine ⟨sent, kept, h1, ?_, ?_, ?_⟩
    · simp [h0, h2]
    · simp only [h0, h2]
      simp [h1]
      cases sent <;> simp
    · intro hr hp; exact h3 (by simp [hr]) hp

theorem sendRsp_spec (q : Pmc) (hno : ∀ r ∈ q.toRsp, r.dst ≠ none) :
    ∃ sent kept, q.toRsp = sent ++ kept ∧
      (sendRsp q).1 = { q with remOut := q.remOut ++ sent.map RMsg.rsp, toRsp := kept } ∧
      ((sendRsp q).2 = true ↔ sent ≠ []) ∧ (q.remOut = [] → q.toRsp ≠ [] → sent ≠ []) := by
  unfold sendRsp
  by_cases h0 : q.toRsp.isEmpty = true
  · refine ⟨[], [], by simpa using h0, ?_, by simp [h0], ?_⟩
    · have : q.toRsp = [] := by simpa using h0
      cases q; simp_all
    · intro _ h; simp at h0; exact absurd h0 h
  · have hany : (q.toRsp.any fun r => r.dst.isNone) = false := by
      cases h : q.toRsp.any fun r => r.dst.isNone with
      | false => rfl
      | true =>
        obtain ⟨r, hr, hd⟩ := List.any_eq_true.mp h
        exact absurd (by simpa using hd) (hno r hr)
    obtain ⟨sent, kept, h1, h2, h3⟩ := sendLoop_spec RMsg.rsp 1 q.toRsp q.remOut
    refine ⟨sent, kept, h1, ?_, ?_, ?_⟩
    · simp [h0, hany, h2]
    · simp only [h0, hany, h2]
      simp [h1]
      cases sent <;> simp
    · intro hr hp; exact h3 (by simp [hr]) hp

theorem startMigration_spec {q : Pmc} {r : MigReq} (hc : q.cur = some r) (hh : q.handling = false) :
    startMigration q = ({ q with
          pending := (↑(r.size / unit) : Int),
          toPull := q.toPull ++ (mkPulls q.self r.peer r.rd r.wr q.nid (r.size / unit)).map (·.1),
          map := q.map ++ (mkPulls q.self r.peer r.rd r.wr q.nid (r.size / unit)).map (fun x => (x.1.id, x.2)),
          nid := q.nid + r.size / unit, handling := true, dones := 0,
          plog := q.plog ++ mkPulls q.self r.peer r.rd r.wr q.nid (r.size / unit) }, true) := by
  unfold startMigration
  simp [hc, hh]

theorem startMigration_idle {q : Pmc} (h : q.cur = none ∨ q.handling = true) : startMigration q = (q, false) := by
  unfold startMigration
  rcases h with h | h
  · simp [h]
  · cases hc : q.cur <;> simp [h]

/-! ### chunk tokens -/

/-- what travels for one 64-byte chunk of a migration: the read request (as pull request or memory
    read), the data (as memory response or pull response), the write request, the write-done -/
inductive Tok
  | rd (id addr size : Nat)
  | dt (id : Nat) (data : List Nat)
  | wr (addr : Nat) (data : List Nat)
  | dn
  | bad
deriving DecidableEq, Repr

def tReq (r : PullReq) : Tok := .rd r.id r.addr r.size
def tRsp (r : PullRsp) : Tok := .dt r.id r.data

/-- remote-port outgoing buffer, requester role / owner role -/
def outReq : RMsg → List Tok
  | .req r => [tReq r]
  | .rsp _ => []
  | .junk _ => [.bad]
def outRsp : RMsg → List Tok
  | .rsp r => [tRsp r]
  | _ => []
/-- remote-port incoming buffer, requester role / owner role -/
def inRsp : RMsg → List Tok
  | .rsp r => [tRsp r]
  | .req _ => []
  | .junk _ => [.bad]
def inReq : RMsg → List Tok
  | .req r => [tReq r]
  | _ => []
/-- memory requests: writes belong to the controller's own migration, reads to the peer's -/
def moWr : MReq → List Tok
  | .write _ a d => [.wr a d]
  | .read .. => []
def moRd : MReq → List Tok
  | .read i a n => [.rd i a n]
  | .write .. => []
def tWr : MReq → Tok
  | .write _ a d => .wr a d
  | .read .. => .bad
def tRd : MReq → Tok
  | .read i a n => .rd i a n
  | .write .. => .bad
/-- memory responses -/
def miDn : MRsp → List Tok
  | .done _ => [.dn]
  | .data .. => []
  | .junk => [.bad]
def miDt : MRsp → List Tok
  | .data i d => [.dt i d]
  | _ => []

/-- the chunk tokens a controller holds for its own migration -/
def reqSide (x : Pmc) : List Tok :=
  x.toPull.map tReq ++ x.remOut.flatMap outReq ++ x.remIn.flatMap inRsp ++ x.recvData.map tRsp ++
  x.writeReqs.map tWr ++ x.memOut.flatMap moWr ++ x.memIn.flatMap miDn ++
  (match x.wdone with | some _ => [Tok.dn] | none => [])

/-- the chunk tokens a controller holds for the peer's migration -/
def ownSide (x : Pmc) : List Tok :=
  x.remIn.flatMap inReq ++ x.curPull.map tReq ++ x.toRead.map tRd ++ x.memOut.flatMap moRd ++
  x.memIn.flatMap miDt ++ x.dataReady.map (fun e => Tok.dt e.1 e.2) ++ x.toRsp.map tRsp ++
  x.remOut.flatMap outRsp

/-- the tokens of requester `p` in the network -/
def netTok (p : Nat) : RMsg → List Tok
  | .req r => if r.src = p then [tReq r] else []
  | .rsp r => if r.dst = some p then [tRsp r] else []
  | .junk _ => [.bad]

/-- everything one direction of migration (requester `p`, owner `1-p`) consists of -/
structure DirV where
  p : Nat
  rq : Pmc
  ow : Pmc
  net : List RMsg
  mqR : List MReq
  mqO : List MReq
  mrR : List MRsp
  mrO : List MRsp
  memR : Mem
  memO : Mem
  cq : List CMsg

/-- controller 0 requests, controller 1 owns -/
def Sys.v0 (s : Sys) : DirV := ⟨0, s.p0, s.p1, s.net, s.mq0, s.mq1, s.mr0, s.mr1, s.m0, s.m1, s.cq0⟩
/-- controller 1 requests, controller 0 owns -/
def Sys.v1 (s : Sys) : DirV := ⟨1, s.p1, s.p0, s.net, s.mq1, s.mq0, s.mr1, s.mr0, s.m1, s.m0, s.cq1⟩

/-- all chunk tokens of one direction -/
def toks (v : DirV) : List Tok :=
  reqSide v.rq ++ ownSide v.ow ++ v.net.flatMap (netTok v.p) ++ v.mqO.flatMap moRd ++
  v.mqR.flatMap moWr ++ v.mrO.flatMap miDt ++ v.mrR.flatMap miDn

/-- ids carried by the read and data tokens -/
def idA : Tok → List Nat
  | .rd i _ _ => [i]
  | .dt i _ => [i]
  | _ => []

def idsA (T : List Tok) : List Nat := T.flatMap idA

end C19
