import MgpuProofs.C09CUEmuRun
/-! # C09, emulation compute unit — a MapWGReq in the (capacity-1) incoming buffer always has a
Tick pending, so every accepted request is eventually taken -/
namespace C09.CUSide

structure KInv (s : Emu) : Prop where
  cap : s.incap ≤ 1
  t_tick : ∀ t ∈ s.ticks, s.now ≤ t
  at_pending : ∀ n, s.tickAt = some n → s.now < n → n ∈ s.ticks
  in_tick : s.inbuf ≠ [] → s.ticks ≠ []
  in_len : s.inbuf.length ≤ 1

theorem kinv_init (P outcap : Nat) : KInv (einit P 1 outcap) := by
  constructor <;> simp [einit]

/-- `TickLater` leaves a tick pending, whatever is in the buffers -/
theorem kinv_tickLater' {s : Emu} (hcap : s.incap ≤ 1) (ht : ∀ t ∈ s.ticks, s.now ≤ t)
    (hat : ∀ n, s.tickAt = some n → s.now < n → n ∈ s.ticks) (hlen : s.inbuf.length ≤ 1) :
    KInv (tickLater s) := by
  unfold tickLater
  dsimp only
  cases hta : s.tickAt with
  | none =>
    simp only
    refine ⟨hcap, ?_, ?_, fun _ => by simp, hlen⟩
    · intro t htt
      rcases List.mem_append.mp htt with htt | htt
      · exact ht t htt
      · simp at htt; show s.now ≤ t; omega
    · intro n hn _
      simp only [Option.some.injEq] at hn
      subst hn; simp
  | some n =>
    simp only
    by_cases hle : s.now + 1 ≤ n
    · rw [if_pos hle]
      have hmem := hat n hta (by omega)
      exact ⟨hcap, ht, hat, fun _ => List.ne_nil_of_mem hmem, hlen⟩
    · rw [if_neg hle]
      refine ⟨hcap, ?_, ?_, fun _ => by simp, hlen⟩
      · intro t htt
        rcases List.mem_append.mp htt with htt | htt
        · exact ht t htt
        · simp at htt; show s.now ≤ t; omega
      · intro m hm _
        simp only [Option.some.injEq] at hm
        subst hm; simp

theorem kinv_tickLater {s : Emu} (h : KInv s) : KInv (tickLater s) :=
  kinv_tickLater' h.cap h.t_tick h.at_pending h.in_len

/-- buffers change, ticks and clock do not -/
theorem kinv_frame {s s' : Emu} (h : KInv s) (h1 : s'.incap = s.incap) (h2 : s'.now = s.now)
    (h3 : s'.tickAt = s.tickAt) (h4 : s'.ticks = s.ticks) (h5 : s'.inbuf = s.inbuf) : KInv s' := by
  refine ⟨by rw [h1]; exact h.cap, by rw [h2, h4]; exact h.t_tick, ?_, by rw [h5, h4]; exact h.in_tick,
    by rw [h5]; exact h.in_len⟩
  intro n hn hlt
  rw [h3] at hn; rw [h2] at hlt; rw [h4]
  exact h.at_pending n hn hlt

/-- the clock moves to the time of a minimal pending event -/
theorem kinv_advance {s : Emu} (h : KInv s) (t : Nat) (hle : s.now ≤ t) (hm : minOK s t = true) :
    KInv { s with now := t } := by
  obtain ⟨m1, _, _⟩ := (minOK_iff s t).mp hm
  refine ⟨h.cap, m1, ?_, h.in_tick, h.in_len⟩
  intro n hn hlt
  have : t < n := hlt
  exact h.at_pending n hn (by omega)

theorem kinv_step {s : Emu} (h : KInv s) (hI : ETime s) (o : EOp) (hok : Legal s o) : KInv (estep s o) := by
  cases o with
  | deliver id =>
    show KInv (deliver s id).1
    unfold deliver
    split
    · exact h
    · rename_i hfull
      have hemp : s.inbuf = [] := by
        have := h.cap
        have : s.inbuf.length = 0 := by omega
        exact List.eq_nil_of_length_eq_zero this
      dsimp only
      rw [if_pos hemp]
      exact kinv_tickLater' (s := { s with inbuf := s.inbuf ++ [id] }) h.cap h.t_tick h.at_pending
        (by simp [hemp])
  | fill =>
    show KInv (fill s).1
    unfold fill
    split
    · exact h
    · exact kinv_frame h rfl rfl rfl rfl rfl
  | take =>
    show KInv (take s).1
    unfold take
    split
    · exact h
    · dsimp only
      have h' : KInv { s with out := ‹List (List Nat)› } := kinv_frame h rfl rfl rfl rfl rfl
      split
      · exact kinv_tickLater h'
      · exact h'
  | tick t =>
    obtain ⟨hmem, hm⟩ := hok
    have hle := h.t_tick t hmem
    have h1 := kinv_advance h t hle hm
    show KInv (procMap { s with ticks := s.ticks.erase t, now := t })
    have hnd : ∀ n, s.tickAt = some n → t < n → n ∈ s.ticks.erase t := by
      intro n hn hlt
      have := h1.at_pending n hn hlt
      exact (List.mem_erase_of_ne (by omega)).mpr this
    unfold procMap
    dsimp only
    split
    · rename_i hin
      refine ⟨h.cap, fun x hx => h1.t_tick x (List.mem_of_mem_erase hx), hnd, ?_, h.in_len⟩
      intro hc; exact absurd hin hc
    · rename_i id rest hin
      have hrest : rest = [] := by
        have := h.in_len
        have hin' : s.inbuf = id :: rest := hin
        rw [hin'] at this
        simp at this
        exact this
      subst hrest
      by_cases hc : s.nextTick ≤ t
      · simp only [hc, if_true]
        exact ⟨h.cap, fun x hx => h1.t_tick x (List.mem_of_mem_erase hx), hnd, fun hc' => absurd rfl hc', by simp⟩
      · simp only [hc, if_false]
        exact ⟨h.cap, fun x hx => h1.t_tick x (List.mem_of_mem_erase hx), hnd, fun hc' => absurd rfl hc', by simp⟩
  | emu t =>
    obtain ⟨hmem, hm⟩ := hok
    have h1 := kinv_advance h t (hI.t_emu t hmem) hm
    show KInv (runEmu { s with emus := s.emus.erase t, now := t })
    unfold runEmu
    exact kinv_frame h1 rfl rfl rfl rfl rfl
  | wgc t id =>
    obtain ⟨hmem, hm⟩ := hok
    have h1 := kinv_advance h t (hI.t_wgc _ hmem) hm
    show KInv (wgComplete { s with wgcs := s.wgcs.erase (t, id), now := t } id)
    unfold wgComplete
    obtain ⟨r1, r2, r3⟩ := wgRecord_port { s with wgcs := s.wgcs.erase (t, id), now := t } id
    obtain ⟨_, q2, _, _, _, q6, _⟩ := wgRecord_time { s with wgcs := s.wgcs.erase (t, id), now := t } id
    obtain ⟨f1, f2, f3⟩ := wgFlush_port (wgRecord { s with wgcs := s.wgcs.erase (t, id), now := t } id) id
    obtain ⟨_, g2, _, _, _, g6, _⟩ := wgFlush_time (wgRecord { s with wgcs := s.wgcs.erase (t, id), now := t } id) id
    exact kinv_frame h1 (f1.trans r1) (g2.trans q2) (f2.trans r2) (g6.trans q6) (f3.trans r3)

theorem kinv_run {s : Emu} (h : KInv s) (hI : ETime s) :
    ∀ (ops : List EOp), RunOk EOkNoH s ops → KInv (erun s ops) := by
  intro ops
  induction ops generalizing s with
  | nil => intro _; exact h
  | cons o os ih =>
    intro hr
    exact ih (kinv_step h hI o (eokNoH_legal hr.1)) (etime_step hI o (eokNoH_legal hr.1)) hr.2

end C09.CUSide
