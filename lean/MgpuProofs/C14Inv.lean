import MgpuProofs.C14Basic
/-! # C14 — the invariant of the scheduler's internal-instruction logic (repaired code) -/
namespace C14

/-- a wavefront that may legitimately sit in `internalExecuting` -/
def Good (w : Wf) : Prop := w.state = .running ∨ (w.state = .atBarrier ∧ w.op = 10)

/-- ghost relation: barriers issued vs. barriers passed -/
def W (w : Wf) : Prop :=
  (w.state = .running → (w.op = 10 → w.arr = w.bar + 1) ∧ (w.op ≠ 10 → w.arr = w.bar)) ∧
  (w.state = .ready → w.arr = w.bar) ∧
  (w.state = .atBarrier → w.arr = w.bar + 1)

/-- loop invariant of `EvaluateInternalInst`: `s.exec` is `newExecuting`, `rem` the entries of the
    old list still to visit (they may contain wavefronts released earlier in the round) -/
structure LInv (s : State) (rem : List Nat) : Prop where
  ids : s.wfs.Pairwise (fun a b => a.id ≠ b.id)
  nofault : s.fault = false
  execSt : ∀ w ∈ s.wfs, w.id ∈ s.exec → Good w
  remSt : ∀ w ∈ s.wfs, w.id ∈ rem → Good w ∨ w.state = .ready
  nodup : (s.exec ++ rem).Nodup
  ghost : ∀ w ∈ s.wfs, W w
  bars : ∀ u ∈ s.wfs, ∀ v ∈ s.wfs, u.wg = v.wg → v.state ≠ .completed → u.bar ≤ v.bar

/-- the invariant between events -/
def Inv (s : State) : Prop := LInv s []

theorem LInv.congr {s s' : State} {rem : List Nat} (h : LInv s rem) (h1 : s'.wfs = s.wfs)
    (h2 : s'.exec = s.exec) (h3 : s'.fault = s.fault) : LInv s' rem := by
  constructor
  · rw [h1]; exact h.ids
  · rw [h3]; exact h.nofault
  · rw [h1, h2]; exact h.execSt
  · rw [h1]; exact h.remSt
  · rw [h2]; exact h.nodup
  · rw [h1]; exact h.ghost
  · rw [h1]; exact h.bars

theorem LInv.drop {s : State} {i : Nat} {rem : List Nat} (h : LInv s (i :: rem)) : LInv s rem := by
  constructor
  · exact h.ids
  · exact h.nofault
  · exact h.execSt
  · intro w hw hr; exact h.remSt w hw (List.mem_cons_of_mem _ hr)
  · have := h.nodup
    exact this.sublist (List.Sublist.append (List.Sublist.refl _) (List.sublist_cons_self _ _))
  · exact h.ghost
  · exact h.bars

theorem uniq {wfs : List Wf} (h : wfs.Pairwise (fun a b => a.id ≠ b.id)) {a b : Wf}
    (ha : a ∈ wfs) (hb : b ∈ wfs) (e : a.id = b.id) : a = b := by
  induction wfs with
  | nil => cases ha
  | cons x xs ih =>
    rw [List.pairwise_cons] at h
    rcases List.mem_cons.mp ha with rfl | ha'
    · rcases List.mem_cons.mp hb with rfl | hb'
      · rfl
      · exact absurd e (h.1 b hb')
    · rcases List.mem_cons.mp hb with rfl | hb'
      · exact absurd e.symm (h.1 a ha')
      · exact ih h.2 ha' hb'

theorem ids_map {wfs : List Wf} (h : wfs.Pairwise (fun a b => a.id ≠ b.id)) (F : Wf → Wf)
    (hF : ∀ v, (F v).id = v.id) : (wfs.map F).Pairwise (fun a b => a.id ≠ b.id) := by
  apply List.Pairwise.map F _ h
  intro a b hab
  rw [hF, hF]; exact hab

theorem wgOf_map (wfs : List Wf) (F : Wf → Wf) (hid : ∀ v, (F v).id = v.id) (hwg : ∀ v, (F v).wg = v.wg)
    (j : Nat) : wgOf (wfs.map F) j = wgOf wfs j := by
  unfold wgOf getWf
  induction wfs with
  | nil => rfl
  | cons x xs ih =>
    simp only [List.map_cons, List.find?_cons, hid]
    split
    · simp [hwg]
    · exact ih

theorem wgOf_of_mem {wfs : List Wf} (h : wfs.Pairwise (fun a b => a.id ≠ b.id)) {v : Wf} (hv : v ∈ wfs) :
    wgOf wfs v.id = some v.wg := by
  unfold wgOf getWf
  induction wfs with
  | nil => cases hv
  | cons x xs ih =>
    rw [List.pairwise_cons] at h
    simp only [List.find?_cons]
    rcases List.mem_cons.mp hv with rfl | hv'
    · simp
    · have : x.id ≠ v.id := h.1 v hv'
      have : (x.id == v.id) = false := by simpa using this
      rw [this]
      exact ih h.2 hv'

theorem nodup_head_not_mem {a : List Nat} {i : Nat} {r : List Nat} (h : (a ++ i :: r).Nodup) :
    i ∉ a ∧ i ∉ r := by
  rw [List.nodup_append] at h
  obtain ⟨_, h2, h3⟩ := h
  rw [List.nodup_cons] at h2
  refine ⟨?_, h2.1⟩
  intro hi
  exact h3 i hi i (List.mem_cons_self) rfl

/-- one wavefront (the one being evaluated) changes, nobody is released -/
theorem LInv_upd {s : State} {i : Nat} {rem : List Nat} {w : Wf} (f : Wf → Wf) (keep : Bool)
    (h : LInv s (i :: rem)) (hw : w ∈ s.wfs) (hi : w.id = i)
    (hid : ∀ v, (f v).id = v.id) (hwg : ∀ v, (f v).wg = v.wg) (hbar : ∀ v, (f v).bar = v.bar)
    (hW : W (f w)) (hkeep : keep = true → Good (f w)) (hnc : w.state ≠ .completed)
    (s' : State) (h1 : s'.wfs = updWf s.wfs i f)
    (h2 : s'.exec = if keep then s.exec ++ [i] else s.exec) (h3 : s'.fault = s.fault) :
    LInv s' rem := by
  have hnd := nodup_head_not_mem h.nodup
  have hFid : ∀ v : Wf, (if v.id = i then f v else v).id = v.id := by
    intro v; split
    · exact hid v
    · rfl
  constructor
  · rw [h1]; exact ids_map h.ids _ hFid
  · rw [h3]; exact h.nofault
  · intro v' hv' hex
    rw [h1] at hv'
    obtain ⟨v, hv, rfl⟩ := mem_updWf.mp hv'
    rw [hFid] at hex
    rw [h2] at hex
    by_cases hvi : v.id = i
    · have : v = w := uniq h.ids hv hw (hvi.trans hi.symm)
      subst this
      rw [if_pos hvi]
      cases keep with
      | true => exact hkeep rfl
      | false => simp only [Bool.false_eq_true, if_false] at hex; exact absurd (hvi ▸ hex) hnd.1
    · rw [if_neg hvi]
      apply h.execSt v hv
      cases keep with
      | true =>
        simp only [if_true, List.mem_append, List.mem_singleton] at hex
        rcases hex with hex | hex
        · exact hex
        · exact absurd hex hvi
      | false => simpa using hex
  · intro v' hv' hr
    rw [h1] at hv'
    obtain ⟨v, hv, rfl⟩ := mem_updWf.mp hv'
    rw [hFid] at hr
    have hvi : v.id ≠ i := fun e => hnd.2 (e ▸ hr)
    rw [if_neg hvi]
    exact h.remSt v hv (List.mem_cons_of_mem _ hr)
  · rw [h2]
    cases keep with
    | true =>
      simp only [if_true, List.append_assoc, List.singleton_append]
      exact h.nodup
    | false =>
      simp only [Bool.false_eq_true, if_false]
      exact h.nodup.sublist (List.Sublist.append (List.Sublist.refl _) (List.sublist_cons_self _ _))
  · intro v' hv'
    rw [h1] at hv'
    obtain ⟨v, hv, rfl⟩ := mem_updWf.mp hv'
    by_cases hvi : v.id = i
    · have : v = w := uniq h.ids hv hw (hvi.trans hi.symm)
      subst this
      rw [if_pos hvi]; exact hW
    · rw [if_neg hvi]; exact h.ghost v hv
  · intro u' hu' v' hv' hg hc
    rw [h1] at hu' hv'
    obtain ⟨u, hu, rfl⟩ := mem_updWf.mp hu'
    obtain ⟨v, hv, rfl⟩ := mem_updWf.mp hv'
    have hFwg : ∀ v : Wf, (if v.id = i then f v else v).wg = v.wg := by
      intro v; split
      · exact hwg v
      · rfl
    have hFbar : ∀ v : Wf, (if v.id = i then f v else v).bar = v.bar := by
      intro v; split
      · exact hbar v
      · rfl
    rw [hFwg, hFwg] at hg
    rw [hFbar, hFbar]
    apply h.bars u hu v hv hg
    by_cases hvi : v.id = i
    · have : v = w := uniq h.ids hv hw (hvi.trans hi.symm)
      subst this; exact hnc
    · rw [if_neg hvi] at hc; exact hc

/-- what a barrier pass of group `g` does to the wavefronts; with `fin` the wavefront `i` is the
    one whose `s_endpgm` triggered the pass and it is completed afterwards -/
def passF (fin : Bool) (g i : Nat) (v : Wf) : Wf :=
  if fin = true ∧ v.id = i then complete (release g v) else release g v

theorem passF_id (fin : Bool) (g i : Nat) (v : Wf) : (passF fin g i v).id = v.id := by
  unfold passF; split <;> simp [release_id]
theorem passF_wg (fin : Bool) (g i : Nat) (v : Wf) : (passF fin g i v).wg = v.wg := by
  unfold passF; split <;> simp [release_wg]

theorem LInv_pass {s : State} {rem : List Nat} (fin : Bool) (g i : Nat) (h : LInv s rem)
    (hall : ∀ v ∈ s.wfs, v.wg = g → (fin = true ∧ v.id = i) ∨ v.state = .atBarrier ∨ v.state = .completed)
    (hex : fin = true → i ∉ s.exec ∧ i ∉ rem)
    (s' : State) (h1 : s'.wfs = s.wfs.map (passF fin g i))
    (h2 : s'.exec = s.exec.filter (fun j => wgOf s'.wfs j != some g)) (h3 : s'.fault = s.fault) :
    LInv s' rem := by
  have hids' : s'.wfs.Pairwise (fun a b => a.id ≠ b.id) := by
    rw [h1]; exact ids_map h.ids _ (passF_id fin g i)
  have hwgOf : ∀ j, wgOf s'.wfs j = wgOf s.wfs j := by
    intro j; rw [h1]; exact wgOf_map _ _ (passF_id fin g i) (passF_wg fin g i) j
  constructor
  · exact hids'
  · rw [h3]; exact h.nofault
  · intro v' hv' hin
    rw [h1] at hv'
    obtain ⟨v, hv, rfl⟩ := List.mem_map.mp hv'
    rw [passF_id] at hin
    rw [h2, List.mem_filter] at hin
    obtain ⟨hin, hne⟩ := hin
    rw [hwgOf, wgOf_of_mem h.ids hv] at hne
    have hvg : v.wg ≠ g := by simpa using hne
    have hnfin : ¬ (fin = true ∧ v.id = i) := fun hf => (hex hf.1).1 (hf.2 ▸ hin)
    unfold passF
    rw [if_neg hnfin, release_miss g v (Or.inl hvg)]
    exact h.execSt v hv hin
  · intro v' hv' hr
    rw [h1] at hv'
    obtain ⟨v, hv, rfl⟩ := List.mem_map.mp hv'
    rw [passF_id] at hr
    have hnfin : ¬ (fin = true ∧ v.id = i) := fun hf => (hex hf.1).2 (hf.2 ▸ hr)
    unfold passF
    rw [if_neg hnfin]
    by_cases hvg : v.wg = g
    · rcases hall v hv hvg with hf | hb | hc
      · exact absurd hf hnfin
      · right; exact (release_hit g v hvg (by rw [hb]; decide)).1
      · rcases h.remSt v hv hr with hgood | hrd
        · rcases hgood with hg | hg
          · rw [hc] at hg; cases hg
          · rw [hc] at hg; cases hg.1
        · rw [hc] at hrd; cases hrd
    · rw [release_miss g v (Or.inl hvg)]; exact h.remSt v hv hr
  · rw [h2]
    exact h.nodup.sublist (List.Sublist.append (List.filter_sublist) (List.Sublist.refl _))
  · intro v' hv'
    rw [h1] at hv'
    obtain ⟨v, hv, rfl⟩ := List.mem_map.mp hv'
    unfold passF
    split
    · refine ⟨?_, ?_, ?_⟩ <;> (intro hh; simp at hh)
    · rename_i hnfin
      by_cases hvg : v.wg = g
      · by_cases hc : v.state = .completed
        · rw [release_miss g v (Or.inr hc)]; exact h.ghost v hv
        · rcases hall v hv hvg with hf | hb | hc'
          · exact absurd hf hnfin
          · obtain ⟨r1, r2, _⟩ := release_hit g v hvg hc
            have := (h.ghost v hv).2.2 hb
            refine ⟨?_, ?_, ?_⟩
            · intro hh; rw [r1] at hh; cases hh
            · intro _; rw [release_arr, r2]; exact this
            · intro hh; rw [r1] at hh; cases hh
          · exact absurd hc' hc
      · rw [release_miss g v (Or.inl hvg)]; exact h.ghost v hv
  · intro u' hu' v' hv' hg hc
    rw [h1] at hu' hv'
    obtain ⟨u, hu, rfl⟩ := List.mem_map.mp hu'
    obtain ⟨v, hv, rfl⟩ := List.mem_map.mp hv'
    rw [passF_wg, passF_wg] at hg
    have hubar : (passF fin g i u).bar ≤ u.bar + 1 ∧ (u.wg ≠ g → (passF fin g i u).bar = u.bar) := by
      unfold passF release
      split <;> split <;> simp_all [complete, setReady]
    have hvnc : v.state ≠ .completed ∧ (passF fin g i v) = release g v := by
      unfold passF at hc ⊢
      split
      · rename_i hf; rw [if_pos hf] at hc; simp at hc
      · rename_i hf; rw [if_neg hf] at hc
        refine ⟨?_, rfl⟩
        intro hcc; rw [release_miss g v (Or.inr hcc)] at hc; exact hc hcc
    have hold := h.bars u hu v hv hg hvnc.1
    rw [hvnc.2]
    by_cases hvg : v.wg = g
    · rw [(release_hit g v hvg hvnc.1).2.1]; omega
    · rw [release_miss g v (Or.inl hvg), hubar.2 (by rw [hg]; exact hvg)]; exact hold

end C14
