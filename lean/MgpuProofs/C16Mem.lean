import MgpuProofs.C16Count
/-! # C16 — provenance invariant: where every transaction, in-flight entry, forwarded request and
answer comes from -/
namespace C16

/-- the ghost logs of `s` are contained in those of `s'` -/
structure Grow (s s' : St) : Prop where
  recv : ∀ x ∈ s.received, x ∈ s'.received
  fwd : ∀ x ∈ s.forwarded, x ∈ s'.forwarded
  ans : ∀ x ∈ s.answered, x ∈ s'.answered
  asked : ∀ x ∈ s.asked, x ∈ s'.asked
  tdel : ∀ x ∈ s.tdel, x ∈ s'.tdel
  mdel : ∀ x ∈ s.mdel, x ∈ s'.mdel

macro "grow_tac" : tactic =>
  `(tactic| (refine ⟨?_, ?_, ?_, ?_, ?_, ?_⟩ <;>
      first | exact fun x hx => hx | exact fun x hx => List.mem_cons_of_mem _ hx))

def TxOk (c : Cfg) (s : St) (t : Tx) : Prop :=
  t.reqs ≠ [] ∧ t.treq ∈ s.asked ∧ pageId c.lg t.treq.vpage = t.treq.vpage ∧
  (∀ a ∈ t.reqs, a.pid = t.treq.pid ∧ pageId c.lg a.vaddr = t.treq.vpage ∧ (a, s.epoch) ∈ s.received) ∧
  (∀ p, t.page = some p → (⟨t.treq.tid, p⟩ : TRsp) ∈ s.tdel)

/-- a forwarded request is the faithful translation of an access that was received, under a
    page that the translation service returned for a lookup of that access's own PID and page -/
def FwdOk (c : Cfg) (s : St) (l : FwdLog) : Prop :=
  (l.top, l.epoch) ∈ s.received ∧ l.breq.pl = l.top.pl ∧
  ∃ q ∈ s.asked, q.pid = l.top.pid ∧ q.vpage = pageId c.lg l.top.vaddr ∧
    ∃ r ∈ s.tdel, r.rspTo = q.tid ∧ l.breq.paddr = r.paddr + l.top.vaddr % 2 ^ c.lg

def AnsOk (s : St) (x : AnsLog) : Prop :=
  (x.top, x.epoch) ∈ s.received ∧ x.rsp.rspTo = x.top.id ∧
  (∃ l ∈ s.forwarded, l.top = x.top ∧ l.breq.bid = x.bid ∧ l.epoch = x.epoch) ∧
  ∃ m ∈ s.mdel, m.rspTo = x.bid ∧ m.data = x.rsp.data

def InflOk (s : St) (f : Fwd) : Prop :=
  (f.top, s.epoch) ∈ s.received ∧ ∃ l ∈ s.forwarded, l.top = f.top ∧ l.breq = f.breq ∧ l.epoch = s.epoch

structure MInv (c : Cfg) (s : St) : Prop where
  tx : ∀ t ∈ s.txs, TxOk c s t
  infl : ∀ f ∈ s.infl, InflOk s f
  fwd : ∀ l ∈ s.forwarded, FwdOk c s l
  ans : ∀ x ∈ s.answered, AnsOk s x
  trIn : ∀ r ∈ s.trIn, r ∈ s.tdel
  botIn : ∀ r ∈ s.botIn, r ∈ s.mdel
  botOut : ∀ b ∈ s.botOut, ∃ l ∈ s.forwarded, l.breq = b
  topOut : ∀ u ∈ s.topOut, ∃ x ∈ s.answered, x.rsp = u
  trOut : ∀ q ∈ s.trOut, q ∈ s.asked

theorem TxOk.mono {c : Cfg} {s s' : St} {t : Tx} (g : Grow s s') (he : s'.epoch = s.epoch)
    (h : TxOk c s t) : TxOk c s' t := by
  obtain ⟨h1, h2, h3, h4, h5⟩ := h
  refine ⟨h1, g.asked _ h2, h3, ?_, fun p hp => g.tdel _ (h5 p hp)⟩
  intro a ha
  obtain ⟨k1, k2, k3⟩ := h4 a ha
  exact ⟨k1, k2, he ▸ g.recv _ k3⟩

theorem FwdOk.mono {c : Cfg} {s s' : St} {l : FwdLog} (g : Grow s s') (h : FwdOk c s l) : FwdOk c s' l := by
  obtain ⟨h1, h2, q, hq, h3, h4, r, hr, h5, h6⟩ := h
  exact ⟨g.recv _ h1, h2, q, g.asked _ hq, h3, h4, r, g.tdel _ hr, h5, h6⟩

theorem AnsOk.mono {s s' : St} {x : AnsLog} (g : Grow s s') (h : AnsOk s x) : AnsOk s' x := by
  obtain ⟨h1, h2, ⟨l, hl, h3⟩, m, hm, h4⟩ := h
  exact ⟨g.recv _ h1, h2, ⟨l, g.fwd _ hl, h3⟩, m, g.mdel _ hm, h4⟩

theorem InflOk.mono {s s' : St} {f : Fwd} (g : Grow s s') (he : s'.epoch = s.epoch)
    (h : InflOk s f) : InflOk s' f := by
  obtain ⟨h1, l, hl, h2, h3, h4⟩ := h
  exact ⟨he ▸ g.recv _ h1, l, g.fwd _ hl, h2, h3, he ▸ h4⟩

/-- transfer of the whole invariant to a state whose logs grew and whose epoch is unchanged,
    given the parts that are not log-monotone -/
theorem MInv.transfer {c : Cfg} {s s' : St} (h : MInv c s) (g : Grow s s') (he : s'.epoch = s.epoch)
    (htx : ∀ t ∈ s'.txs, t ∈ s.txs ∨ TxOk c s' t)
    (hinfl : ∀ f ∈ s'.infl, f ∈ s.infl ∨ InflOk s' f)
    (hfwd : ∀ l ∈ s'.forwarded, l ∈ s.forwarded ∨ FwdOk c s' l)
    (hans : ∀ x ∈ s'.answered, x ∈ s.answered ∨ AnsOk s' x)
    (htr : ∀ r ∈ s'.trIn, r ∈ s.trIn ∨ r ∈ s'.tdel)
    (hbi : ∀ r ∈ s'.botIn, r ∈ s.botIn ∨ r ∈ s'.mdel)
    (hbo : ∀ b ∈ s'.botOut, b ∈ s.botOut ∨ ∃ l ∈ s'.forwarded, l.breq = b)
    (hto : ∀ u ∈ s'.topOut, u ∈ s.topOut ∨ ∃ x ∈ s'.answered, x.rsp = u)
    (hq : ∀ q ∈ s'.trOut, q ∈ s.trOut ∨ q ∈ s'.asked) : MInv c s' := by
  refine ⟨?_, ?_, ?_, ?_, ?_, ?_, ?_, ?_, ?_⟩
  · intro t ht; rcases htx t ht with h1 | h1
    · exact (h.tx t h1).mono g he
    · exact h1
  · intro f hf; rcases hinfl f hf with h1 | h1
    · exact (h.infl f h1).mono g he
    · exact h1
  · intro l hl; rcases hfwd l hl with h1 | h1
    · exact (h.fwd l h1).mono g
    · exact h1
  · intro x hx; rcases hans x hx with h1 | h1
    · exact (h.ans x h1).mono g
    · exact h1
  · intro r hr; rcases htr r hr with h1 | h1
    · exact g.tdel _ (h.trIn r h1)
    · exact h1
  · intro r hr; rcases hbi r hr with h1 | h1
    · exact g.mdel _ (h.botIn r h1)
    · exact h1
  · intro b hb; rcases hbo b hb with h1 | h1
    · obtain ⟨l, hl, h2⟩ := h.botOut b h1; exact ⟨l, g.fwd _ hl, h2⟩
    · exact h1
  · intro u hu; rcases hto u hu with h1 | h1
    · obtain ⟨x, hx, h2⟩ := h.topOut u h1; exact ⟨x, g.ans _ hx, h2⟩
    · exact h1
  · intro q hq'; rcases hq q hq' with h1 | h1
    · exact g.asked _ (h.trOut q h1)
    · exact h1

end C16

namespace C16

theorem translate_minv (c : Cfg) (s : St) (h : MInv c s) : MInv c (translate c s).1 := by
  unfold translate
  split
  · exact h
  · rename_i a rest htop
    split
    · rename_i txs' hco
      refine h.transfer (by grow_tac) rfl ?_ (fun _ hx => Or.inl hx) (fun _ hx => Or.inl hx)
        (fun _ hx => Or.inl hx) (fun _ hx => Or.inl hx) (fun _ hx => Or.inl hx) (fun _ hx => Or.inl hx)
        (fun _ hx => Or.inl hx) (fun _ hx => Or.inl hx)
      intro t' ht'
      rcases coalesce_mem _ _ _ _ hco t' ht' with h1 | ⟨t, ht, ⟨_, hc2, hc3⟩, rfl⟩
      · exact Or.inl h1
      · right
        obtain ⟨k1, k2, k3, k4, k5⟩ := h.tx t ht
        refine ⟨by simp, k2, k3, ?_, k5⟩
        intro a' ha'
        simp only [List.mem_append, List.mem_singleton] at ha'
        rcases ha' with ha' | rfl
        · obtain ⟨m1, m2, m3⟩ := k4 a' ha'
          exact ⟨m1, m2, List.mem_cons_of_mem _ m3⟩
        · refine ⟨?_, by rw [← hc2, k3], List.mem_cons_self ..⟩
          cases hr : t.reqs with
          | nil => exact absurd hr k1
          | cons b bs =>
            simp [hr] at hc3
            have := (k4 b (by simp [hr])).1
            show a'.pid = t.treq.pid
            omega
    · split
      · refine h.transfer (by grow_tac) rfl ?_ (fun _ hx => Or.inl hx) (fun _ hx => Or.inl hx)
          (fun _ hx => Or.inl hx) (fun _ hx => Or.inl hx) (fun _ hx => Or.inl hx) (fun _ hx => Or.inl hx)
          (fun _ hx => Or.inl hx) ?_
        · intro t' ht'
          simp only [List.mem_append, List.mem_singleton] at ht'
          rcases ht' with h1 | rfl
          · exact Or.inl h1
          · right
            refine ⟨by simp, List.mem_cons_self .., pageId_idem _ _, ?_, by simp⟩
            intro a' ha'
            simp only [List.mem_singleton] at ha'
            subst ha'
            exact ⟨rfl, rfl, List.mem_cons_self ..⟩
        · intro q hq
          simp only [List.mem_append, List.mem_singleton] at hq
          rcases hq with h1 | rfl
          · exact Or.inl h1
          · exact Or.inr (List.mem_cons_self ..)
      · exact h

/-- a successful bottom-port send keeps the invariant, provided the request sent is justified -/
theorem emit_minv (c : Cfg) (s : St) (a : Acc) (p : Nat) (txs' : List Tx) (h : MInv c s)
    (htx : ∀ t ∈ txs', TxOk c s t)
    (ha : (a, s.epoch) ∈ s.received)
    (hq : ∃ q ∈ s.asked, q.pid = a.pid ∧ q.vpage = pageId c.lg a.vaddr ∧
      ∃ r ∈ s.tdel, r.rspTo = q.tid ∧ r.paddr = p) : MInv c (emit c s a p txs') := by
  have g : Grow s (emit c s a p txs') := by unfold emit; grow_tac
  have hnew : FwdOk c (emit c s a p txs') ⟨a, mkBReq c.lg s.nextB a p, s.epoch⟩ := by
    obtain ⟨q, hq1, hq2, hq3, r, hr1, hr2, hr3⟩ := hq
    exact ⟨g.recv _ ha, rfl, q, g.asked _ hq1, hq2, hq3, r, g.tdel _ hr1, hr2, by simp [mkBReq, hr3]⟩
  refine h.transfer g rfl ?_ ?_ ?_ (fun _ hx => Or.inl hx) (fun _ hx => Or.inl hx)
    (fun _ hx => Or.inl hx) ?_ (fun _ hx => Or.inl hx) (fun _ hx => Or.inl hx)
  · intro t ht
    exact Or.inr ((htx t ht).mono g rfl)
  · intro f hf
    simp only [emit, List.mem_append, List.mem_singleton] at hf
    rcases hf with h1 | rfl
    · exact Or.inl h1
    · exact Or.inr ⟨g.recv _ ha, ⟨a, mkBReq c.lg s.nextB a p, s.epoch⟩, by simp [emit], rfl, rfl, rfl⟩
  · intro l hl
    simp only [emit, List.mem_cons] at hl
    rcases hl with rfl | h1
    · exact Or.inr hnew
    · exact Or.inl h1
  · intro b hb
    simp only [emit, List.mem_append, List.mem_singleton] at hb
    rcases hb with h1 | rfl
    · exact Or.inl h1
    · exact Or.inr ⟨⟨a, mkBReq c.lg s.nextB a p, s.epoch⟩, by simp [emit], rfl⟩

theorem TxOk.tail {c : Cfg} {s : St} {t : Tx} (h : TxOk c s t) (hne : t.reqs.tail ≠ []) :
    TxOk c s { t with reqs := t.reqs.tail } := by
  obtain ⟨_, k2, k3, k4, k5⟩ := h
  exact ⟨hne, k2, k3, fun a ha => k4 a (List.mem_of_mem_tail ha), k5⟩

theorem parseTranslation_minv (c : Cfg) (s : St) (h : MInv c s) : MInv c (parseTranslation c s).1 := by
  unfold parseTranslation
  split
  · rename_i t txs' hp
    obtain ⟨ht, _, h3, _⟩ := popFirst_spec _ _ _ _ hp
    have hok := h.tx t ht
    split
    · rename_i a rs p hr hpg
      split
      · apply emit_minv c s a p txs' h
        · intro t' ht'
          rcases h3 t' ht' with h1 | ⟨rfl, hne⟩
          · exact h.tx t' h1
          · exact hok.tail hne
        · exact (hok.2.2.2.1 a (by simp [hr])).2.2
        · obtain ⟨_, k2, k3, k4, k5⟩ := hok
          obtain ⟨m1, m2, _⟩ := k4 a (by simp [hr])
          exact ⟨t.treq, k2, m1.symm, m2.symm, ⟨t.treq.tid, p⟩, k5 p hpg, rfl, rfl⟩
      · exact h
    · exact h
  · split
    · exact h
    · rename_i r rest htr
      have hr : r ∈ s.tdel := h.trIn r (by simp [htr])
      have hrest : ∀ x ∈ rest, x ∈ s.trIn := fun x hx => by simp [htr, hx]
      -- the state after recording the reply
      have hs1 : MInv c { s with txs := markFirst (hasTid r.rspTo) r.paddr s.txs } := by
        refine h.transfer (by grow_tac) rfl ?_ (fun _ hx => Or.inl hx) (fun _ hx => Or.inl hx)
          (fun _ hx => Or.inl hx) (fun _ hx => Or.inl hx) (fun _ hx => Or.inl hx) (fun _ hx => Or.inl hx)
          (fun _ hx => Or.inl hx) (fun _ hx => Or.inl hx)
        intro t' ht'
        rcases markFirst_mem _ _ _ t' ht' with h1 | ⟨t, ht, hpt, rfl⟩
        · exact Or.inl h1
        · right
          obtain ⟨k1, k2, k3, k4, _⟩ := h.tx t ht
          refine ⟨k1, k2, k3, k4, ?_⟩
          intro p hp
          simp only [Option.some.injEq] at hp
          subst hp
          have : t.treq.tid = r.rspTo := by simpa [hasTid] using hpt
          rw [this]; exact hr
      split
      · exact h.transfer (by grow_tac) rfl (fun _ hx => Or.inl hx) (fun _ hx => Or.inl hx)
          (fun _ hx => Or.inl hx) (fun _ hx => Or.inl hx) (fun x hx => Or.inl (hrest x hx))
          (fun _ hx => Or.inl hx) (fun _ hx => Or.inl hx) (fun _ hx => Or.inl hx) (fun _ hx => Or.inl hx)
      · rename_i t txs' hp
        obtain ⟨ht, hpt, h3, _⟩ := popFirst_spec _ _ _ _ hp
        have hok := hs1.tx t ht
        split
        · exact hs1
        · rename_i a rs hreq
          split
          · have hm := emit_minv c { s with txs := markFirst (hasTid r.rspTo) r.paddr s.txs } a r.paddr txs' hs1
              (by
                intro t' ht'
                rcases h3 t' ht' with h1 | ⟨rfl, hne⟩
                · exact hs1.tx t' h1
                · exact hok.tail hne)
              ((hok.2.2.2.1 a (by simp [hreq])).2.2)
              (by
                obtain ⟨_, k2, k3, k4, k5⟩ := hok
                obtain ⟨m1, m2, _⟩ := k4 a (by simp [hreq])
                have : t.treq.tid = r.rspTo := by simpa [hasTid] using hpt
                exact ⟨t.treq, k2, m1.symm, m2.symm, r, hr, this.symm, rfl⟩)
            exact hm.transfer (by grow_tac) rfl (fun _ hx => Or.inl hx) (fun _ hx => Or.inl hx)
              (fun _ hx => Or.inl hx) (fun _ hx => Or.inl hx) (fun x hx => Or.inl (hrest x hx))
              (fun _ hx => Or.inl hx) (fun _ hx => Or.inl hx) (fun _ hx => Or.inl hx) (fun _ hx => Or.inl hx)
          · exact hs1

theorem respond_minv (c : Cfg) (s : St) (h : MInv c s) : MInv c (respond c s).1 := by
  unfold respond
  split
  · exact h
  · rename_i r rest hb
    have hr : r ∈ s.mdel := h.botIn r (by simp [hb])
    have hrest : ∀ x ∈ rest, x ∈ s.botIn := fun x hx => by simp [hb, hx]
    split
    · exact h.transfer (by grow_tac) rfl (fun _ hx => Or.inl hx) (fun _ hx => Or.inl hx)
        (fun _ hx => Or.inl hx) (fun _ hx => Or.inl hx) (fun _ hx => Or.inl hx)
        (fun x hx => Or.inl (hrest x hx)) (fun _ hx => Or.inl hx) (fun _ hx => Or.inl hx) (fun _ hx => Or.inl hx)
    · rename_i f infl' hx
      obtain ⟨hf, hbid, hsub, _⟩ := extract_spec _ _ _ _ hx
      obtain ⟨k1, l, hl, k2, k3, k4⟩ := h.infl f hf
      split
      · refine h.transfer (by grow_tac) rfl (fun _ hx => Or.inl hx) (fun g hg => Or.inl (hsub g hg))
          (fun _ hx => Or.inl hx) ?_ (fun _ hx => Or.inl hx)
          (fun x hx => Or.inl (hrest x hx)) (fun _ hx => Or.inl hx) ?_ (fun _ hx => Or.inl hx)
        · intro x hx
          simp only [List.mem_cons] at hx
          rcases hx with rfl | h1
          · exact Or.inr ⟨k1, rfl, ⟨l, hl, k2, by rw [k3], k4⟩, r, hr, hbid.symm, rfl⟩
          · exact Or.inl h1
        · intro u hu
          simp only [List.mem_append, List.mem_singleton] at hu
          rcases hu with h1 | rfl
          · exact Or.inl h1
          · exact Or.inr ⟨_, List.mem_cons_self .., rfl⟩
      · exact h

theorem handleCtrl_minv (c : Cfg) (s : St) (h : MInv c s) : MInv c (handleCtrl s).1 := by
  unfold handleCtrl
  split
  · exact h
  · split
    · exact ⟨by simp, by simp, fun l hl => (h.fwd l hl).mono (by grow_tac),
        fun x hx => (h.ans x hx).mono (by grow_tac), h.trIn, h.botIn, h.botOut, h.topOut, h.trOut⟩
    · exact h
  · split
    · exact ⟨fun t ht => (h.tx t ht).mono (by grow_tac) rfl, fun f hf => (h.infl f hf).mono (by grow_tac) rfl,
        fun l hl => (h.fwd l hl).mono (by grow_tac), fun x hx => (h.ans x hx).mono (by grow_tac),
        by simp, by simp, h.botOut, h.topOut, h.trOut⟩
    · exact h
  · exact h.transfer (by grow_tac) rfl (fun _ hx => Or.inl hx) (fun _ hx => Or.inl hx)
      (fun _ hx => Or.inl hx) (fun _ hx => Or.inl hx) (fun _ hx => Or.inl hx) (fun _ hx => Or.inl hx)
      (fun _ hx => Or.inl hx) (fun _ hx => Or.inl hx) (fun _ hx => Or.inl hx)

theorem tick_minv (c : Cfg) (s : St) (h : MInv c s) : MInv c (tick c s).1 :=
  tick_pres c (respond_minv c) (parseTranslation_minv c) (translate_minv c) (handleCtrl_minv c) s h

theorem step_minv (c : Cfg) (s : St) (o : Op) (h : MInv c s) : MInv c (step c s o) := by
  have keep : ∀ s', Grow s s' → s'.epoch = s.epoch → s'.txs = s.txs → s'.infl = s.infl →
      s'.forwarded = s.forwarded → s'.answered = s.answered →
      (∀ r ∈ s'.trIn, r ∈ s.trIn ∨ r ∈ s'.tdel) → (∀ r ∈ s'.botIn, r ∈ s.botIn ∨ r ∈ s'.mdel) →
      (∀ b ∈ s'.botOut, b ∈ s.botOut) → (∀ u ∈ s'.topOut, u ∈ s.topOut) → (∀ q ∈ s'.trOut, q ∈ s.trOut) →
      MInv c s' := by
    intro s' g he e1 e2 e3 e4 h5 h6 h7 h8 h9
    exact h.transfer g he (fun t ht => Or.inl (e1 ▸ ht)) (fun t ht => Or.inl (e2 ▸ ht))
      (fun t ht => Or.inl (e3 ▸ ht)) (fun t ht => Or.inl (e4 ▸ ht)) h5 h6
      (fun b hb => Or.inl (h7 b hb)) (fun b hb => Or.inl (h8 b hb)) (fun b hb => Or.inl (h9 b hb))
  cases o with
  | tick => exact tick_minv c s h
  | access pid va pl =>
    simp only [step]
    split <;> exact keep _ (by grow_tac) rfl rfl rfl rfl rfl (fun _ hx => Or.inl hx) (fun _ hx => Or.inl hx)
      (fun _ hx => hx) (fun _ hx => hx) (fun _ hx => hx)
  | trsp r =>
    simp only [step]
    split
    · refine keep _ (by grow_tac) rfl rfl rfl rfl rfl ?_ (fun _ hx => Or.inl hx)
        (fun _ hx => hx) (fun _ hx => hx) (fun _ hx => hx)
      intro x hx
      simp only [List.mem_append, List.mem_singleton] at hx
      rcases hx with h1 | rfl
      · exact Or.inl h1
      · exact Or.inr (List.mem_cons_self ..)
    · exact h
  | brsp r =>
    simp only [step]
    split
    · refine keep _ (by grow_tac) rfl rfl rfl rfl rfl (fun _ hx => Or.inl hx) ?_
        (fun _ hx => hx) (fun _ hx => hx) (fun _ hx => hx)
      intro x hx
      simp only [List.mem_append, List.mem_singleton] at hx
      rcases hx with h1 | rfl
      · exact Or.inl h1
      · exact Or.inr (List.mem_cons_self ..)
    · exact h
  | drainTop =>
    exact keep _ (by grow_tac) rfl rfl rfl rfl rfl (fun _ hx => Or.inl hx) (fun _ hx => Or.inl hx)
      (fun _ hx => hx) (fun _ hx => List.mem_of_mem_tail hx) (fun _ hx => hx)
  | drainBot =>
    exact keep _ (by grow_tac) rfl rfl rfl rfl rfl (fun _ hx => Or.inl hx) (fun _ hx => Or.inl hx)
      (fun _ hx => List.mem_of_mem_tail hx) (fun _ hx => hx) (fun _ hx => hx)
  | drainTr =>
    exact keep _ (by grow_tac) rfl rfl rfl rfl rfl (fun _ hx => Or.inl hx) (fun _ hx => Or.inl hx)
      (fun _ hx => hx) (fun _ hx => hx) (fun _ hx => List.mem_of_mem_tail hx)
  | drainCtl =>
    exact keep _ (by grow_tac) rfl rfl rfl rfl rfl (fun _ hx => Or.inl hx) (fun _ hx => Or.inl hx)
      (fun _ hx => hx) (fun _ hx => hx) (fun _ hx => hx)
  | ctl k =>
    simp only [step]
    split
    · exact keep _ (by grow_tac) rfl rfl rfl rfl rfl (fun _ hx => Or.inl hx) (fun _ hx => Or.inl hx)
        (fun _ hx => hx) (fun _ hx => hx) (fun _ hx => hx)
    · exact h

theorem minv_init (c : Cfg) : MInv c {} :=
  ⟨by simp, by simp, by simp, by simp, by simp, by simp, by simp, by simp, by simp⟩

theorem run_minv (c : Cfg) (ops : List Op) : MInv c (run c ops) :=
  run_pres c (step_minv c) ops {} (minv_init c)

theorem eq_of_count_le_one {α : Type} (f : α → Nat) : ∀ (l : List α), (∀ i, (l.map f).count i ≤ 1) →
    ∀ x ∈ l, ∀ y ∈ l, f x = f y → x = y := by
  intro l
  induction l with
  | nil => intro _ x hx; simp at hx
  | cons a l ih =>
    intro h x hx y hy hxy
    have hl : ∀ i, (l.map f).count i ≤ 1 := by
      intro i; have := h i; simp [List.count_cons] at this; omega
    have hno : ∀ z ∈ l, f a ≠ f z := by
      intro z hz he
      have h1 := h (f a)
      have h2 : 0 < (l.map f).count (f a) := List.count_pos_iff.mpr (he ▸ List.mem_map_of_mem hz)
      simp [List.count_cons] at h1; omega
    simp only [List.mem_cons] at hx hy
    rcases hx with rfl | hx <;> rcases hy with rfl | hy
    · rfl
    · exact absurd hxy (hno y hy)
    · exact absurd hxy.symm (hno x hx)
    · exact ih hl x hx y hy hxy


end C16
