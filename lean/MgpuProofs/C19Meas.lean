import MgpuProofs.C19Tok
/-! Helper lemmas for C19 (progress): every stage of `tick` does not increase the weight of what the
    controller holds, and decreases it when it reports progress. -/
namespace C19

@[simp] theorem sumW_nil {α : Type} (f : α → Nat) : sumW f [] = 0 := rfl
@[simp] theorem sumW_cons {α : Type} (f : α → Nat) (x : α) (l : List α) : sumW f (x :: l) = f x + sumW f l := by
  simp [sumW]
@[simp] theorem sumW_append {α : Type} (f : α → Nat) (a b : List α) : sumW f (a ++ b) = sumW f a + sumW f b := by
  simp [sumW, List.sum_append]

theorem sumW_map_const {α β : Type} (f : β → Nat) (g : α → β) (c : Nat) (l : List α) (h : ∀ x, f (g x) = c) :
    sumW f (l.map g) = c * l.length := by
  induction l with
  | nil => simp
  | cons x l ih => simp [ih, h, Nat.mul_succ]; omega

theorem sumW_eraseIdx {α : Type} (f : α → Nat) (l : List α) (k : Nat) (m : α) (h : l[k]? = some m) :
    sumW f l = f m + sumW f (l.eraseIdx k) := by
  induction l generalizing k with
  | nil => simp at h
  | cons x l ih =>
    cases k with
    | zero => simp at h; subst h; simp
    | succ k =>
      simp only [List.getElem?_cons_succ] at h
      simp only [List.eraseIdx_cons_succ, sumW_cons, ih k h]
      omega

/-- what a stage does to the weight -/
def Dec (f : Pmc → Pmc × Bool) (q : Pmc) : Prop :=
  pmcMeasure (f q).1 ≤ pmcMeasure q ∧ ((f q).2 = true → pmcMeasure (f q).1 < pmcMeasure q)

theorem dec_sendPull (q : Pmc) : Dec sendPull q := by
  unfold Dec sendPull
  by_cases h0 : q.toPull.isEmpty = true
  · simp [h0]
  · by_cases hany : (q.toPull.any fun r => r.dst == q.self) = true
    · simp [h0, hany, pmcMeasure]
    · obtain ⟨sent, kept, h1, h2, _⟩ := sendLoop_spec RMsg.req 1 q.toPull q.remOut
      have e := sumW_map_const wRemOut RMsg.req 22 sent (fun _ => rfl)
      simp only [h0, hany, h2, Bool.false_eq_true, if_false]
      simp only [pmcMeasure, sumW_append, e, h1, List.length_append]
      refine ⟨by omega, fun hlt => ?_⟩
      have : 0 < sent.length := by simpa using hlt
      omega

theorem dec_sendRsp (q : Pmc) : Dec sendRsp q := by
  unfold Dec sendRsp
  by_cases h0 : q.toRsp.isEmpty = true
  · simp [h0]
  · by_cases hany : (q.toRsp.any fun r => r.dst.isNone) = true
    · simp [h0, hany, pmcMeasure]
    · obtain ⟨sent, kept, h1, h2, _⟩ := sendLoop_spec RMsg.rsp 1 q.toRsp q.remOut
      have e := sumW_map_const wRemOut RMsg.rsp 11 sent (fun _ => rfl)
      simp only [h0, hany, h2, Bool.false_eq_true, if_false]
      simp only [pmcMeasure, sumW_append, e, h1, List.length_append]
      refine ⟨by omega, fun hlt => ?_⟩
      have : 0 < sent.length := by simpa using hlt
      omega

theorem sumW_id_map {α : Type} (f : α → Nat) (l : List α) : sumW f (l.map id) = sumW f l := by simp

theorem sumW_succ (f : MReq → Nat) (l : List MReq) : sumW (fun m => f m + 1) l = sumW f l + l.length := by
  induction l with
  | nil => simp
  | cons x l ih => simp [ih]; omega

theorem dec_sendRead (q : Pmc) : Dec sendRead q := by
  unfold Dec sendRead
  by_cases h0 : q.toRead.isEmpty = true
  · simp [h0]
  · obtain ⟨sent, kept, h1, h2, _⟩ := sendLoop_spec (id : MReq → MReq) 1 q.toRead q.memOut
    simp only [h0, h2, Bool.false_eq_true, if_false]
    simp only [pmcMeasure, sumW_append, h1, List.length_append, List.map_id, sumW_succ]
    refine ⟨by omega, fun hlt => ?_⟩
    have : 0 < sent.length := by simpa using hlt
    omega

theorem dec_sendWrite (q : Pmc) : Dec sendWrite q := by
  unfold Dec sendWrite
  by_cases h0 : q.writeReqs.isEmpty = true
  · simp [h0]
  · obtain ⟨sent, kept, h1, h2, _⟩ := sendLoop_spec (id : MReq → MReq) 1 q.writeReqs q.memOut
    simp only [h0, h2, Bool.false_eq_true, if_false]
    simp only [pmcMeasure, sumW_append, h1, List.length_append, List.map_id, sumW_succ]
    refine ⟨by omega, fun hlt => ?_⟩
    have : 0 < sent.length := by simpa using hlt
    omega

theorem dec_sendComplete (q : Pmc) : Dec sendComplete q := by
  unfold Dec sendComplete
  cases hc : q.toCtrl with
  | none => simp
  | some c =>
    simp only
    split
    · simp only [pmcMeasure, hc, List.length_append, List.length_singleton]
      cases q.cur <;> simp <;> split <;> omega
    · simp

theorem dec_fromOutside (q : Pmc) : Dec fromOutside q := by
  unfold Dec fromOutside
  split
  · simp
  · rename_i r rest hin
    simp only [pmcMeasure, hin, sumW_cons, wRemIn, List.length_append, List.length_singleton]
    omega
  · rename_i r rest hin
    simp only [pmcMeasure, hin, sumW_cons, wRemIn, List.length_append, List.length_singleton]
    omega
  · simp [pmcMeasure]

theorem dec_fromCtrl (q : Pmc) : Dec fromCtrl q := by
  unfold Dec fromCtrl
  split
  · simp
  · rename_i hh
    have hh' : q.handling = false := by simpa using hh
    split
    · simp
    · rename_i r rest hin
      simp only [pmcMeasure, hin, sumW_cons, wCtl, hh']
      cases q.cur <;> simp <;> omega
    · rename_i rest hin
      simp only [pmcMeasure, hin, sumW_cons, wCtl]
      simp

theorem dec_fromMem (q : Pmc) : Dec fromMem q := by
  unfold Dec fromMem
  split
  · simp
  · rename_i i d rest hin
    simp only [pmcMeasure, hin, sumW_cons, wMemIn, List.length_append, List.length_singleton]
    omega
  · rename_i i rest hin
    simp only [pmcMeasure, hin, sumW_cons, wMemIn]
    cases q.wdone <;> simp <;> omega
  · rename_i rest hin
    simp only [pmcMeasure, hin, sumW_cons, wMemIn]
    simp

theorem dec_startMigration (q : Pmc) : Dec startMigration q := by
  unfold Dec
  cases hc : q.cur with
  | none => rw [startMigration_idle (Or.inl hc)]; simp
  | some r =>
    cases hh : q.handling with
    | true => rw [startMigration_idle (Or.inr hh)]; simp
    | false =>
      rw [startMigration_spec hc hh]
      simp only [pmcMeasure, hc, hh, List.length_append, List.length_map, mkPulls_length, wReq]
      simp
      omega

theorem dec_readPage (q : Pmc) : Dec readPage q := by
  unfold Dec readPage
  split
  · simp
  · rename_i hne
    have hpos : 0 < q.curPull.length := by
      cases h : q.curPull with
      | nil => simp [h] at hne
      | cons _ _ => simp
    have e : sumW (fun m => wMemOut m + 1) (q.curPull.map fun r => MReq.read r.id r.addr r.size) =
        18 * q.curPull.length := sumW_map_const _ _ 18 _ (fun _ => rfl)
    simp only [pmcMeasure, sumW_append, e, List.length_nil]
    omega

theorem dec_dataReadyRsp (q : Pmc) : Dec dataReadyRsp q := by
  unfold Dec dataReadyRsp
  split
  · simp
  · rename_i hne
    have hpos : 0 < q.dataReady.length := by
      cases h : q.dataReady with
      | nil => simp [h] at hne
      | cons _ _ => simp
    simp only [pmcMeasure, List.length_append, List.length_map, List.length_nil]
    omega

/-- the loop of `processDataPullRsp` turns at most every response into a write request and touches
    nothing else the measure looks at -/
theorem loop_measure (rs : List PullRsp) : ∀ q : Pmc,
    pmcMeasure { pullRspLoop q rs with recvData := [] } ≤ pmcMeasure { q with recvData := [] } + 7 * rs.length := by
  induction rs with
  | nil => intro q; simp [pullRspLoop]
  | cons x xs ih =>
    intro q
    unfold pullRspLoop
    split
    · simp only [pmcMeasure]; simp
    · rename_i a ha
      have := ih { q with writeReqs := q.writeReqs ++ [MReq.write (fresh q) a x.data],
                          map := q.map.filter (fun e => e.1 != x.id), nid := q.nid + 1,
                          wlog := q.wlog ++ [(x.id, a, x.data)] }
      refine Nat.le_trans this ?_
      simp only [pmcMeasure, sumW_append, sumW_cons, sumW_nil, wMemOut, List.length_cons]
      omega

theorem dec_pullRsp (q : Pmc) : Dec pullRsp q := by
  unfold Dec pullRsp
  split
  · simp
  · rename_i hne
    have hpos : 0 < q.recvData.length := by
      cases h : q.recvData with
      | nil => simp [h] at hne
      | cons _ _ => simp
    have := loop_measure q.recvData q
    have e : pmcMeasure q = pmcMeasure { q with recvData := [] } + 8 * q.recvData.length := by
      simp only [pmcMeasure, List.length_nil]; omega
    have key : pmcMeasure { pullRspLoop q q.recvData with recvData := [] } < pmcMeasure q := by omega
    exact ⟨Nat.le_of_lt key, fun _ => key⟩

theorem dec_writeDone (q : Pmc) : Dec writeDone q := by
  unfold Dec writeDone
  cases hw : q.wdone with
  | none => simp
  | some w =>
    simp only
    split
    · simp only [pmcMeasure, hw]; simp
    · split
      · cases hc : q.cur with
        | none => simp only [pmcMeasure, hw, hc]; simp
        | some r =>
          simp only [pmcMeasure, hw, hc]
          cases q.toCtrl <;> cases q.handling <;> simp [wReq] <;> omega
      · simp only [pmcMeasure, hw]; simp

theorem stage_dec (M : Nat) (f : Pmc → Pmc × Bool) (hf : ∀ q, Dec f q) (x : Pmc × Bool)
    (hx : pmcMeasure x.1 ≤ M ∧ (x.2 = true → pmcMeasure x.1 < M)) :
    pmcMeasure (stage f x).1 ≤ M ∧ ((stage f x).2 = true → pmcMeasure (stage f x).1 < M) := by
  unfold stage
  split
  · exact hx
  · obtain ⟨d1, d2⟩ := hf x.1
    refine ⟨Nat.le_trans d1 hx.1, fun h => ?_⟩
    simp only [Bool.or_eq_true] at h
    rcases h with h | h
    · exact Nat.lt_of_lt_of_le (d2 h) hx.1
    · exact Nat.lt_of_le_of_lt d1 (hx.2 h)

/-- a tick never increases the weight of what the controller holds and decreases it whenever it
    reports progress -/
theorem tick_measure (q : Pmc) :
    pmcMeasure (tick q).1 ≤ pmcMeasure q ∧ ((tick q).2 = true → pmcMeasure (tick q).1 < pmcMeasure q) := by
  unfold tick
  have g0 : pmcMeasure (q, false).1 ≤ pmcMeasure q ∧ ((q, false).2 = true → pmcMeasure (q, false).1 < pmcMeasure q) :=
    ⟨Nat.le_refl _, fun h => by cases h⟩
  have g1 := stage_dec _ sendPull dec_sendPull _ g0
  have g2 := stage_dec _ sendRead dec_sendRead _ g1
  have g3 := stage_dec _ sendComplete dec_sendComplete _ g2
  have g4 := stage_dec _ sendRsp dec_sendRsp _ g3
  have g5 := stage_dec _ sendWrite dec_sendWrite _ g4
  have g6 := stage_dec _ fromOutside dec_fromOutside _ g5
  have g7 := stage_dec _ fromCtrl dec_fromCtrl _ g6
  have g8 := stage_dec _ fromMem dec_fromMem _ g7
  have g9 := stage_dec _ startMigration dec_startMigration _ g8
  have g10 := stage_dec _ readPage dec_readPage _ g9
  have g11 := stage_dec _ dataReadyRsp dec_dataReadyRsp _ g10
  have g12 := stage_dec _ pullRsp dec_pullRsp _ g11
  exact stage_dec _ writeDone dec_writeDone _ g12

end C19
