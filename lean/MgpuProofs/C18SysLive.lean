import MgpuProofs.C18SysOk
import MgpuProofs.C18Live
/-! C18 system level, part 5: progress measure of the closed system.

`sysMu` weighs every message by the number of hops it still has to make
(inside port 13 > clone buffer 12 > network 11 > outside port 10 > clone buffer 9 > L2 pool 8 >
reply buffer 7 > answer buffer 6 > network 5 > reply buffer 4 > answer buffer 3), plus the control
messages. Every move except a new request / control command either leaves the state literally
unchanged or strictly decreases `sysMu` (`step_mono`); `En y o` says when move `o` does something. -/
namespace C18

def nodeMu (nd : Node) : Nat := mu nd.s + 8 * nd.l2.length
def sysMu (y : Sys) : Nat := (y.nodes.map nodeMu).sum + 11 * y.netQ.length + 5 * y.netR.length

theorem sum_map_set {α} (f : α → Nat) : ∀ {l : List α} {i : Nat} {x : α}, l[i]? = some x →
    ∀ x', ((l.set i x').map f).sum + f x = (l.map f).sum + f x' := by
  intro l
  induction l with
  | nil => intro i x h; simp at h
  | cons y ys ih =>
    intro i x h x'
    cases i with
    | zero =>
      simp only [List.getElem?_cons_zero, Option.some.injEq] at h
      subst h
      simp only [List.set_cons_zero, List.map_cons, List.sum_cons]
      omega
    | succ i =>
      simp only [List.getElem?_cons_succ] at h
      have := ih h x'
      simp only [List.set_cons_succ, List.map_cons, List.sum_cons]
      omega

theorem set_self {α} : ∀ {l : List α} {i : Nat} {x : α}, l[i]? = some x → l.set i x = l := by
  intro l
  induction l with
  | nil => intro i x _; rfl
  | cons y ys ih =>
    intro i x h
    cases i with
    | zero =>
      simp only [List.getElem?_cons_zero, Option.some.injEq] at h
      subst h; rfl
    | succ i =>
      simp only [List.getElem?_cons_succ] at h
      simp only [List.set_cons_succ, ih h]

theorem sysMu_lt_of {y : Sys} {i : Nat} {A nd' : Node} {q' : List NReq} {r' : List NRsp}
    (hA : y.nodes[i]? = some A)
    (h : nodeMu nd' + 11 * q'.length + 5 * r'.length < nodeMu A + 11 * y.netQ.length + 5 * y.netR.length) :
    sysMu { nodes := y.nodes.set i nd', netQ := q', netR := r' } < sysMu y := by
  have := sum_map_set nodeMu hA nd'
  simp only [sysMu]
  omega

def isInput : SOp → Bool
  | .issue _ _ _ => true
  | .ctl _ _ => true
  | _ => false

/-- move `o` changes the state -/
def En (y : Sys) : SOp → Prop
  | .issue _ _ _ => False
  | .ctl _ _ => False
  | .tick a => ∃ A, y.nodes[a]? = some A ∧ (tick A.cfg A.s).1 ≠ A.s
  | .sendQ a => ∃ A, y.nodes[a]? = some A ∧ A.s.io.reqOut ≠ []
  | .delivQ j => ∃ m B, y.netQ[j]? = some m ∧ y.nodes[m.c.dst]? = some B ∧ B.s.oi.reqIn.length < B.cfg.cap
  | .l2take b => ∃ B, y.nodes[b]? = some B ∧ B.s.oi.reqOut ≠ []
  | .l2ans b j _ => ∃ B q, y.nodes[b]? = some B ∧ B.l2[j]? = some q ∧ B.s.oi.rspIn.length < B.cfg.cap
  | .sendR b => ∃ B o rest nm r, y.nodes[b]? = some B ∧ B.s.oi.rspOut = o :: rest ∧
      takeName o.rspTo B.names = some (nm, r)
  | .delivR j => ∃ m A, y.netR[j]? = some m ∧ y.nodes[m.dst]? = some A ∧ A.s.io.rspIn.length < A.cfg.cap
  | .l1take a => ∃ A, y.nodes[a]? = some A ∧ A.s.io.rspOut ≠ []
  | .ctake a => ∃ A, y.nodes[a]? = some A ∧ A.s.ctOut ≠ []

theorem en_lt (y : Sys) (o : SOp) (h : En y o) : sysMu (sstep y o) < sysMu y := by
  cases o with
  | issue a src pl => exact absurd h id
  | ctl a k => exact absurd h id
  | tick a =>
    obtain ⟨A, hA, hne⟩ := h
    simp only [sstep, hA, setNode]
    refine sysMu_lt_of hA ?_
    have := tick_mu_lt A.cfg A.s hne
    simp only [nodeMu, step]
    omega
  | sendQ a =>
    obtain ⟨A, hA, hne⟩ := h
    cases hq : A.s.io.reqOut with
    | nil => exact absurd hq hne
    | cons q rest =>
      simp only [sstep, hA, hq]
      refine sysMu_lt_of hA ?_
      have := mu_takeFwdI A.cfg A.s hne
      simp only [nodeMu, List.length_append, List.length_cons, List.length_nil]
      omega
  | delivQ j =>
    obtain ⟨m, B, hm, hB, hsp⟩ := h
    simp only [sstep, hm, hB, hsp, if_true]
    refine sysMu_lt_of hB ?_
    have := mu_reqO B.cfg B.s m.frm m.c.pl hsp
    have := length_eraseIdx' hm
    simp only [nodeMu]
    omega
  | l2take b =>
    obtain ⟨B, hB, hne⟩ := h
    cases hq : B.s.oi.reqOut with
    | nil => exact absurd hq hne
    | cons q rest =>
      simp only [sstep, hB, hq, setNode]
      refine sysMu_lt_of hB ?_
      have := mu_takeFwdO B.cfg B.s hne
      simp only [nodeMu, List.length_append, List.length_cons, List.length_nil]
      omega
  | l2ans b j d =>
    obtain ⟨B, q, hB, hq, hsp⟩ := h
    simp only [sstep, hB, hq, hsp, if_true, setNode]
    refine sysMu_lt_of hB ?_
    have := mu_rspO B.cfg B.s ⟨q.fid, d, false⟩ hsp
    have := length_eraseIdx' hq
    simp only [nodeMu]
    omega
  | sendR b =>
    obtain ⟨B, o, rest, nm, r, hB, ho, ht⟩ := h
    simp only [sstep, hB, ho, ht]
    refine sysMu_lt_of hB ?_
    have := mu_takeAnsO B.cfg B.s (by rw [ho]; exact List.cons_ne_nil _ _)
    simp only [nodeMu, List.length_append, List.length_cons, List.length_nil]
    omega
  | delivR j =>
    obtain ⟨m, A, hm, hA, hsp⟩ := h
    simp only [sstep, hm, hA, hsp, if_true]
    refine sysMu_lt_of hA ?_
    have := mu_rspI A.cfg A.s ⟨m.fid, m.data, false⟩ hsp
    have := length_eraseIdx' hm
    simp only [nodeMu]
    omega
  | l1take a =>
    obtain ⟨A, hA, hne⟩ := h
    cases hq : A.s.io.rspOut with
    | nil => exact absurd hq hne
    | cons q rest =>
      simp only [sstep, hA, hq, setNode]
      refine sysMu_lt_of hA ?_
      have := mu_takeAnsI A.cfg A.s hne
      simp only [nodeMu]
      omega
  | ctake a =>
    obtain ⟨A, hA, hne⟩ := h
    cases hq : A.s.ctOut with
    | nil => exact absurd hq hne
    | cons q rest =>
      simp only [sstep, hA, hq, setNode]
      refine sysMu_lt_of hA ?_
      have := mu_takeCtl A.cfg A.s hne
      simp only [nodeMu]
      omega

theorem not_en (y : Sys) (o : SOp) (hi : isInput o = false) (h : ¬ En y o) : sstep y o = y := by
  cases o with
  | issue a src pl => cases hi
  | ctl a k => cases hi
  | tick a =>
    simp only [sstep]
    split
    · rfl
    · next A hA =>
      have he : (tick A.cfg A.s).1 = A.s := Classical.byContradiction fun hne => h ⟨A, hA, hne⟩
      have : ({ A with s := step A.cfg A.s .tick } : Node) = A := by
        show ({ A with s := (tick A.cfg A.s).1 } : Node) = A
        rw [he]
      rw [this]
      simp only [setNode, set_self hA]
  | sendQ a =>
    simp only [sstep]
    split
    · rfl
    · next A hA =>
      split
      · rfl
      · next q rest hq => exact absurd ⟨A, hA, by rw [hq]; exact List.cons_ne_nil _ _⟩ h
  | delivQ j =>
    simp only [sstep]
    split
    · rfl
    · next m hm =>
      split
      · rfl
      · next B hB =>
        split
        · next hsp => exact absurd ⟨m, B, hm, hB, hsp⟩ h
        · rfl
  | l2take b =>
    simp only [sstep]
    split
    · rfl
    · next B hB =>
      split
      · rfl
      · next q rest hq => exact absurd ⟨B, hB, by rw [hq]; exact List.cons_ne_nil _ _⟩ h
  | l2ans b j d =>
    simp only [sstep]
    split
    · rfl
    · next B hB =>
      split
      · rfl
      · next q hq =>
        split
        · next hsp => exact absurd ⟨B, q, hB, hq, hsp⟩ h
        · rfl
  | sendR b =>
    simp only [sstep]
    split
    · rfl
    · next B hB =>
      split
      · rfl
      · next o rest ho =>
        split
        · rfl
        · next nm r ht => exact absurd ⟨B, o, rest, nm, r, hB, ho, ht⟩ h
  | delivR j =>
    simp only [sstep]
    split
    · rfl
    · next m hm =>
      split
      · rfl
      · next A hA =>
        split
        · next hsp => exact absurd ⟨m, A, hm, hA, hsp⟩ h
        · rfl
  | l1take a =>
    simp only [sstep]
    split
    · rfl
    · next A hA =>
      split
      · rfl
      · next q rest hq => exact absurd ⟨A, hA, by rw [hq]; exact List.cons_ne_nil _ _⟩ h
  | ctake a =>
    simp only [sstep]
    split
    · rfl
    · next A hA =>
      split
      · rfl
      · next q rest hq => exact absurd ⟨A, hA, by rw [hq]; exact List.cons_ne_nil _ _⟩ h

/-- every move of the network, the responders, the takers and the engines either does nothing or
    strictly decreases the measure -/
theorem step_mono (y : Sys) (o : SOp) (hi : isInput o = false) :
    sstep y o = y ∨ sysMu (sstep y o) < sysMu y := by
  by_cases h : En y o
  · exact Or.inr (en_lt y o h)
  · exact Or.inl (not_en y o hi h)

end C18
