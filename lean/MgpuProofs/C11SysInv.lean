import MgpuProofs.C11SysProj
/-! # C11 helper: link invariants of the closed copy system -/
namespace C11

theorem getElem?_append_some {α} {l : List α} {i : Nat} {x : α} (h : l[i]? = some x) (l' : List α) :
    (l ++ l')[i]? = some x := by
  have hlt : i < l.length := by
    apply Decidable.byContradiction; intro hn
    rw [List.getElem?_eq_none (by omega)] at h; cases h
  rw [List.getElem?_append_left hlt]; exact h

/-! ## the memory performs what it answers (K3) -/

structure Sys.MemInv (s : Sys) : Prop where
  /-- every transaction handed to the memory is either still outstanding there or was performed, once -/
  perm : (s.mlog.map (·.id) ++ s.dma.outstanding.map (·.id)).Perm (s.dma.seen.map (·.id))
  /-- a performed transaction is one the DMA engine issued: same id, address, direction, owner -/
  cont : ∀ t ∈ s.mlog, ∃ q ∈ s.dma.seen, q.id = t.id ∧ q.addr = t.addr ∧ q.write = t.write ∧
    q.owner = t.owner ∧ (t.write = false → t.bytes.length = q.len) ∧ q.len = t.len
  /-- what is outstanding at the memory was handed to it -/
  outs : ∀ q ∈ s.dma.outstanding, q ∈ s.dma.seen

/-- moves other than the memory's leave the log and the memory's transaction lists alone -/
theorem Sys.step_mem_frame (s : Sys) (op : SysOp) (h1 : ∀ k, op ≠ .memTake k) (h2 : ∀ j, op ≠ .memDo j) :
    (s.step op).1.mlog = s.mlog ∧ (s.step op).1.dma.seen = s.dma.seen ∧
    (s.step op).1.dma.outstanding = s.dma.outstanding := by
  cases op with
  | memTake k => exact absurd rfl (h1 k)
  | memDo j => exact absurd rfl (h2 j)
  | _ =>
    simp only [Sys.step]
    repeat' (first
      | exact trivial
      | rfl
      | constructor
      | split)

theorem SMem.read_length (m : SMem) (a n : Nat) : (m.read a n).length = n := by simp [SMem.read]

theorem Sys.MemInv.step {s : Sys} (h : s.MemInv) (op : SysOp) : (s.step op).1.MemInv := by
  by_cases h1 : ∃ k, op = .memTake k
  · obtain ⟨k, rfl⟩ := h1
    simp only [Sys.step]
    refine ⟨?_, ?_, ?_⟩
    · show (s.mlog.map (·.id) ++ (s.dma.outstanding ++ s.dma.s.memOut.take k).map (·.id)).Perm
        ((s.dma.seen ++ s.dma.s.memOut.take k).map (·.id))
      rw [List.map_append, List.map_append, ← List.append_assoc]
      exact h.perm.append_right _
    · intro t ht
      obtain ⟨q, hq, r⟩ := h.cont t ht
      exact ⟨q, List.mem_append_left _ hq, r⟩
    · intro q hq
      show q ∈ s.dma.seen ++ s.dma.s.memOut.take k
      rcases List.mem_append.1 hq with hq | hq
      · exact List.mem_append_left _ (h.outs q hq)
      · exact List.mem_append_right _ hq
  by_cases h2 : ∃ j, op = .memDo j
  · obtain ⟨j, rfl⟩ := h2
    simp only [Sys.step]
    split
    · exact h
    · split
      · exact h
      · split
        · exact h
        · rename_i r hr
          split
          · exact h
          · rename_i p hp
            have hfull : ¬ s.dma.s.memIn.length ≥ s.dma.s.memCap := by assumption
            have hstep : s.dma.step (.respond j) =
                { s.dma with s := { s.dma.s with memIn := s.dma.s.memIn ++ [r.id] },
                             outstanding := s.dma.outstanding.eraseIdx (j % s.dma.outstanding.length) } := by
              simp only [Env.step, hfull, if_false, hr]
            obtain ⟨hlt, hget⟩ := List.getElem?_eq_some_iff.1 hr
            have hmem : r ∈ s.dma.outstanding := hget ▸ List.getElem_mem hlt
            have ho : s.dma.outstanding.map (·.id) =
                (s.dma.outstanding.take (j % s.dma.outstanding.length)).map (·.id) ++
                  r.id :: (s.dma.outstanding.drop (j % s.dma.outstanding.length + 1)).map (·.id) := by
              rw [← List.map_cons (f := fun q : MemReq => q.id), ← List.map_append, ← hget,
                List.getElem_cons_drop, List.take_append_drop]
            have hperm : ∀ (ml : List MemTx), ml.map (·.id) = s.mlog.map (·.id) ++ [r.id] →
                (ml.map (·.id) ++ (s.dma.outstanding.eraseIdx (j % s.dma.outstanding.length)).map (·.id)).Perm
                  (s.dma.seen.map (·.id)) := by
              intro ml hml
              refine List.Perm.trans ?_ h.perm
              apply List.perm_iff_count.2
              intro a
              rw [hml, ho]
              simp only [List.eraseIdx_eq_take_drop_succ, List.map_append, List.count_append, List.count_cons,
                List.count_nil]
              omega
            have hsub : ∀ q ∈ s.dma.outstanding.eraseIdx (j % s.dma.outstanding.length), q ∈ s.dma.seen :=
              fun q hq => h.outs q (List.mem_of_mem_eraseIdx hq)
            split
            · refine ⟨?_, ?_, ?_⟩
              · rw [hstep]; exact hperm _ (by simp)
              · intro t ht
                rw [hstep]
                rcases List.mem_append.1 ht with ht | ht
                · exact h.cont t ht
                · simp only [List.mem_singleton] at ht
                  subst ht
                  exact ⟨r, h.outs r hmem, rfl, rfl, by simp_all, rfl, fun hw => by simp_all, rfl⟩
              · rw [hstep]; exact hsub
            · refine ⟨?_, ?_, ?_⟩
              · rw [hstep]; exact hperm _ (by simp)
              · intro t ht
                rw [hstep]
                rcases List.mem_append.1 ht with ht | ht
                · exact h.cont t ht
                · simp only [List.mem_singleton] at ht
                  subst ht
                  refine ⟨r, h.outs r hmem, rfl, rfl, ?_, rfl, fun _ => SMem.read_length _ _ _, rfl⟩
                  simp_all
              · rw [hstep]; exact hsub
  · obtain ⟨e1, e2, e3⟩ := s.step_mem_frame op (fun k hk => h1 ⟨k, hk⟩) (fun j hj => h2 ⟨j, hj⟩)
    exact ⟨by rw [e1, e2, e3]; exact h.perm, by rw [e1, e2]; exact h.cont, by rw [e2, e3]; exact h.outs⟩

theorem Sys.MemInv.init (c : SysCfg) : (Sys.init c).MemInv :=
  ⟨List.Perm.refl _, fun t h => (by cases h), fun q h => (by cases h)⟩

/-! ## component frame lemmas -/

theorem CpEnv.step_link_frame (e : CpEnv) (op : CpOp) (h : ∀ k, op ≠ .takeDma k) (h' : ∀ j, op ≠ .rsp j) :
    (e.step op).1.dmaSeen = e.dmaSeen ∧ (e.step op).1.answered = e.answered := by
  cases op with
  | takeDma k => exact absurd rfl (h k)
  | rsp j => exact absurd rfl (h' j)
  | _ =>
    simp only [CpEnv.step]
    repeat' (first
      | exact trivial
      | rfl
      | constructor
      | split)

theorem MqEnv.step_seen (e : MqEnv) (op : MqOp) : ∃ l, (e.step op).1.seen = e.seen ++ l := by
  cases op with
  | take k => exact ⟨_, rfl⟩
  | _ =>
    simp only [MqEnv.step]
    repeat' (first
      | exact ⟨[], (List.append_nil _).symm⟩
      | split)

theorem Env.step_link_frame (e : Env) (op : EnvOp) (h : ∀ k a l, op ≠ .copy k a l) (h' : op ≠ .drain) :
    (e.step op).cps = e.cps ∧ (e.step op).nextCp = e.nextCp ∧ (e.step op).drained = e.drained := by
  cases op with
  | copy k a l => exact absurd rfl (h k a l)
  | drain => exact absurd rfl h'
  | _ =>
    simp only [Env.step]
    repeat' (first
      | exact trivial
      | rfl
      | constructor
      | split)

/-- an answer of the DMA side is accepted: clone `j` leaves `atDma`, its id is recorded -/
theorem CpEnv.step_rsp_ok (e : CpEnv) (j : Nat) (x : CpClone) (hx : e.atDma[j]? = some x)
    (hfull : ¬ e.s.dmaIn.length ≥ e.s.capIn) :
    (e.step (.rsp j)).1.answered = e.answered ++ [x.cid] ∧ (e.step (.rsp j)).1.dmaSeen = e.dmaSeen := by
  have hjlt : j < e.atDma.length := by
    apply Decidable.byContradiction; intro hn
    rw [List.getElem?_eq_none (by omega)] at hx; cases hx
  cases ha : e.atDma with
  | nil => rw [ha] at hjlt; cases hjlt
  | cons y ys =>
    rw [ha] at hx hjlt
    have hm : j % (ys.length + 1) = j := Nat.mod_eq_of_lt hjlt
    simp [CpEnv.step, ha, hfull, hm, hx]

theorem findIdx?_spec {α} (p : α → Bool) : ∀ (l : List α) (j : Nat), findIdx? p l = some j →
    ∃ x, l[j]? = some x ∧ p x = true
  | [], j, h => by simp [findIdx?] at h
  | x :: xs, j, h => by
    unfold findIdx? at h
    split at h
    · cases h; exact ⟨x, rfl, by assumption⟩
    · cases hr : findIdx? p xs with
      | none => rw [hr] at h; cases h
      | some k =>
        rw [hr] at h
        simp only [Option.map_some, Option.some.injEq] at h
        subst h
        obtain ⟨y, hy, hp⟩ := findIdx?_spec p xs k hr
        exact ⟨y, by simpa using hy, hp⟩

/-! ## payload links (K2, K4) -/

theorem Sys.cmdOf_mono {s s' : Sys} {l : List SysCmd} (h : s'.cmds = s.cmds ++ l) {q seq : Nat} {c : SysCmd}
    (hc : s.cmdOf q seq = some c) : s'.cmdOf q seq = some c := by
  unfold Sys.cmdOf at hc ⊢
  rw [h, List.filter_append]
  exact getElem?_append_some hc _

theorem Sys.pieceOf_mono {s s' : Sys} {l : List SysCmd} (h : s'.cmds = s.cmds ++ l) {r : MqReq} {p : Piece}
    (hp : s.pieceOf r = some p) : s'.pieceOf r = some p := by
  unfold Sys.pieceOf at hp ⊢
  split at hp
  · cases hp
  · rename_i hk
    rw [if_neg hk]
    cases hc : s.cmdOf r.q r.seq with
    | none => rw [hc] at hp; cases hp
    | some c =>
      rw [hc] at hp
      rw [Sys.cmdOf_mono h hc]
      exact hp

structure Sys.LinkInv (s : Sys) : Prop where
  len : s.dma.cps.length = s.cp.dmaSeen.length
  next : s.dma.nextCp = s.dma.cps.length
  /-- the `c`-th copy request of the DMA engine is the `c`-th clone taken from the command processor
      and carries the page piece of the driver request behind that clone -/
  pay : ∀ (c : Nat) (r : CpReq), s.dma.cps[c]? = some r → ∃ (cl : CpClone) (rq : MqReq) (p : Piece), s.cp.dmaSeen[c]? = some cl ∧
    s.mq.seen[cl.orig]? = some rq ∧ s.pieceOf rq = some p ∧
    r = { id := c, kind := mqKindToDma p.cmd.kind, addr := p.pa, len := p.len }
  /-- the DMA answers the command processor has received, then those on the wire = the DMA engine's
      completions, in order -/
  wire : s.cp.answered ++ s.wire = s.dma.drained

theorem Sys.LinkInv.mono {s s' : Sys} (h : s.LinkInv) (e1 : s'.dma.cps = s.dma.cps)
    (e2 : s'.dma.nextCp = s.dma.nextCp) (e3 : s'.dma.drained = s.dma.drained)
    (e4 : s'.cp.dmaSeen = s.cp.dmaSeen) (e5 : s'.cp.answered = s.cp.answered) (e6 : s'.wire = s.wire)
    (e7 : ∃ l, s'.mq.seen = s.mq.seen ++ l) (e8 : ∃ l, s'.cmds = s.cmds ++ l) : s'.LinkInv := by
  obtain ⟨l7, e7⟩ := e7
  obtain ⟨l8, e8⟩ := e8
  refine ⟨by rw [e1, e4]; exact h.len, by rw [e1, e2]; exact h.next, ?_, by rw [e5, e6, e3]; exact h.wire⟩
  intro c r hr
  rw [e1] at hr
  obtain ⟨cl, rq, p, h1, h2, h3, h4⟩ := h.pay c r hr
  exact ⟨cl, rq, p, by rw [e4]; exact h1, by rw [e7]; exact getElem?_append_some h2 _,
    Sys.pieceOf_mono e8 h3, h4⟩

theorem Sys.LinkInv.init (c : SysCfg) : (Sys.init c).LinkInv :=
  ⟨rfl, rfl, fun c r h => (by simp [Sys.init, Env.init] at h), rfl⟩

theorem Sys.LinkInv.step {s : Sys} (h : s.LinkInv) (op : SysOp) : (s.step op).1.LinkInv := by
  have nil_app : ∀ {α} (l : List α), ∃ l', l = l ++ l' := fun l => ⟨[], (List.append_nil l).symm⟩
  cases op with
  | enq q h2d addr len salt =>
    simp only [Sys.step]
    split
    · exact h
    · split
      · exact h.mono rfl rfl rfl rfl rfl rfl (MqEnv.step_seen _ _) ⟨_, rfl⟩
      · exact h
  | drvTick => exact h.mono rfl rfl rfl rfl rfl rfl (MqEnv.step_seen _ _) (nil_app _)
  | toCp =>
    simp only [Sys.step]
    split
    · exact h
    · split
      · have f := CpEnv.step_link_frame s.cp (.req (mqKindToCp ‹MqReq›.kind)) (by intro k hk; cases hk) (by intro k hk; cases hk)
        exact h.mono rfl rfl rfl f.1 f.2 rfl (MqEnv.step_seen _ _) (nil_app _)
      · exact h
  | cpTick =>
    have f := CpEnv.step_link_frame s.cp .tick (by intro k hk; cases hk) (by intro k hk; cases hk)
    exact h.mono rfl rfl rfl f.1 f.2 rfl (nil_app _) (nil_app _)
  | cacheTake k =>
    have f := CpEnv.step_link_frame s.cp (.takeCache k) (by intro k hk; cases hk) (by intro k hk; cases hk)
    exact h.mono rfl rfl rfl f.1 f.2 rfl (nil_app _) (nil_app _)
  | cacheAck j =>
    simp only [Sys.step]
    have f := CpEnv.step_link_frame s.cp (.ack j) (by intro k hk; cases hk) (by intro k hk; cases hk)
    split
    · exact h
    · split
      · exact h
      · exact h.mono rfl rfl rfl f.1 f.2 rfl (nil_app _) (nil_app _)
  | toDma =>
    simp only [Sys.step]
    split
    · exact h
    · rename_i cl rest hout
      split
      · exact h
      · rename_i p hp
        obtain ⟨rq, hrq, hpc⟩ := Option.bind_eq_some_iff.1 hp
        have hseen : (s.cp.step (.takeDma 1)).1.dmaSeen = s.cp.dmaSeen ++ [cl] := by
          simp [CpEnv.step, hout]
        have hans : (s.cp.step (.takeDma 1)).1.answered = s.cp.answered := rfl
        refine ⟨?_, ?_, ?_, ?_⟩
        · show (s.dma.cps ++ [_]).length = (s.cp.step (.takeDma 1)).1.dmaSeen.length
          rw [hseen, List.length_append, List.length_append, h.len]; rfl
        · show s.dma.nextCp + 1 = (s.dma.cps ++ [_]).length
          rw [List.length_append, h.next]; rfl
        · intro c r hr
          change (s.dma.cps ++ [_])[c]? = some r at hr
          by_cases hc : c < s.dma.cps.length
          · rw [List.getElem?_append_left hc] at hr
            obtain ⟨cl', rq', p', h1, h2, h3, h4⟩ := h.pay c r hr
            exact ⟨cl', rq', p', by rw [hseen]; exact getElem?_append_some h1 _, h2, h3, h4⟩
          · rw [List.getElem?_append_right (by omega)] at hr
            have hc0 : c - s.dma.cps.length = 0 := by
              apply Decidable.byContradiction; intro hne
              rw [List.getElem?_eq_none (by simp; omega)] at hr; cases hr
            rw [hc0] at hr
            simp only [List.getElem?_cons_zero, Option.some.injEq] at hr
            have hceq : c = s.dma.cps.length := by omega
            refine ⟨cl, rq, p, ?_, hrq, hpc, ?_⟩
            · rw [hseen, hceq, h.len, List.getElem?_append_right (Nat.le_refl _)]; simp
            · rw [← hr, hceq, ← h.next]
        · show (s.cp.step (.takeDma 1)).1.answered ++ s.wire = s.dma.drained
          rw [hans]; exact h.wire
  | dmaTick =>
    have f := Env.step_link_frame s.dma .tick (by intro k a l hk; cases hk) (by intro hk; cases hk)
    exact h.mono f.1 f.2.1 f.2.2 rfl rfl rfl (nil_app _) (nil_app _)
  | memTake k =>
    have f := Env.step_link_frame s.dma (.take k) (by intro k a l hk; cases hk) (by intro hk; cases hk)
    exact h.mono f.1 f.2.1 f.2.2 rfl rfl rfl (nil_app _) (nil_app _)
  | memDo j =>
    have f := Env.step_link_frame s.dma (.respond j) (by intro k a l hk; cases hk) (by intro hk; cases hk)
    simp only [Sys.step]
    repeat' (first
      | exact h
      | exact h.mono f.1 f.2.1 f.2.2 rfl rfl rfl (nil_app _) (nil_app _)
      | split)
  | dmaOut =>
    refine ⟨h.len, h.next, ?_, ?_⟩
    · intro c r hr
      obtain ⟨cl', rq', p', h1, h2, h3, h4⟩ := h.pay c r hr
      exact ⟨cl', rq', p', h1, h2, h3, h4⟩
    · show s.cp.answered ++ (s.wire ++ s.dma.s.cpOut) = s.dma.drained ++ s.dma.s.cpOut
      rw [← List.append_assoc, h.wire]
  | toCpRsp =>
    simp only [Sys.step]
    split
    · exact h
    · rename_i c rest hw
      split
      · exact h
      · rename_i j hj
        split
        · exact h
        · rename_i hfull
          obtain ⟨x, hx, hpx⟩ := findIdx?_spec _ _ _ hj
          obtain ⟨hans, hseen⟩ := CpEnv.step_rsp_ok s.cp j x hx hfull
          have hcid : x.cid = c := by simpa using hpx
          refine ⟨by show s.dma.cps.length = _; rw [hseen]; exact h.len, h.next, ?_, ?_⟩
          · intro c' r hr
            obtain ⟨cl', rq', p', h1, h2, h3, h4⟩ := h.pay c' r hr
            exact ⟨cl', rq', p', by show (s.cp.step (.rsp j)).1.dmaSeen[c']? = _; rw [hseen]; exact h1, h2, h3, h4⟩
          · show (s.cp.step (.rsp j)).1.answered ++ rest = s.dma.drained
            rw [hans, hcid, ← h.wire, hw]; simp
  | toDrv =>
    simp only [Sys.step]
    have f := CpEnv.step_link_frame s.cp (.takeDrv 1) (by intro k hk; cases hk) (by intro k hk; cases hk)
    repeat' (first
      | exact h
      | exact h.mono rfl rfl rfl f.1 f.2 rfl (MqEnv.step_seen _ _) (nil_app _)
      | split)
  | kwrite i a v => exact h.mono rfl rfl rfl rfl rfl rfl (nil_app _) (nil_app _)

theorem Sys.MemInv.run : ∀ (ops : List SysOp) {s : Sys}, s.MemInv → (s.run ops).MemInv
  | [], _, h => h
  | op :: rest, _, h => Sys.MemInv.run rest (h.step op)

theorem Sys.LinkInv.run : ∀ (ops : List SysOp) {s : Sys}, s.LinkInv → (s.run ops).LinkInv
  | [], _, h => h
  | op :: rest, _, h => Sys.LinkInv.run rest (h.step op)

/-! ## the bytes of a transaction (data links) -/

theorem CpEnv.step_dmaSeen (e : CpEnv) (op : CpOp) : ∃ l, (e.step op).1.dmaSeen = e.dmaSeen ++ l := by
  cases op with
  | takeDma k => exact ⟨_, rfl⟩
  | _ =>
    simp only [CpEnv.step]
    repeat' (first
      | exact ⟨[], (List.append_nil _).symm⟩
      | split)

theorem CpEnv.run_dmaSeen : ∀ (l : List CpOp) (e : CpEnv), ∃ l', (e.run l).dmaSeen = e.dmaSeen ++ l'
  | [], e => ⟨[], (List.append_nil _).symm⟩
  | op :: rest, e => by
    obtain ⟨l1, h1⟩ := e.step_dmaSeen op
    obtain ⟨l2, h2⟩ := CpEnv.run_dmaSeen rest (e.step op).1
    exact ⟨l1 ++ l2, by show ((e.step op).1.run rest).dmaSeen = _; rw [h2, h1, List.append_assoc]⟩

theorem MqEnv.run_seen : ∀ (l : List MqOp) (e : MqEnv), ∃ l', (e.run l).seen = e.seen ++ l'
  | [], e => ⟨[], (List.append_nil _).symm⟩
  | op :: rest, e => by
    obtain ⟨l1, h1⟩ := e.step_seen op
    obtain ⟨l2, h2⟩ := MqEnv.run_seen rest (e.step op).1
    exact ⟨l1 ++ l2, by show ((e.step op).1.run rest).seen = _; rw [h2, h1, List.append_assoc]⟩

theorem Sys.step_cmds_host (s : Sys) (op : SysOp) :
    (∃ l, (s.step op).1.cmds = s.cmds ++ l) ∧ (∃ l, (s.step op).1.host = l ++ s.host) := by
  cases op <;> simp only [Sys.step] <;>
    repeat' (first
      | exact ⟨⟨[], (List.append_nil _).symm⟩, ⟨[], rfl⟩⟩
      | exact ⟨⟨_, rfl⟩, ⟨[], rfl⟩⟩
      | exact ⟨⟨[], (List.append_nil _).symm⟩, ⟨_, rfl⟩⟩
      | split)

theorem Sys.step_mlog (s : Sys) (op : SysOp) (h : ∀ j, op ≠ .memDo j) : (s.step op).1.mlog = s.mlog := by
  cases op with
  | memDo j => exact absurd rfl (h j)
  | _ =>
    simp only [Sys.step]
    repeat' (first
      | rfl
      | split)

theorem Sys.reqOfDma_mono {s s' : Sys} (h1 : ∃ l, s'.cp.dmaSeen = s.cp.dmaSeen ++ l)
    (h2 : ∃ l, s'.mq.seen = s.mq.seen ++ l) {c : Nat} {rq : MqReq} (h : s.reqOfDma c = some rq) :
    s'.reqOfDma c = some rq := by
  obtain ⟨l1, h1⟩ := h1
  obtain ⟨l2, h2⟩ := h2
  unfold Sys.reqOfDma Sys.reqOfCp at h ⊢
  cases hc : s.cp.dmaSeen[c]? with
  | none => rw [hc] at h; cases h
  | some cl =>
    rw [hc] at h
    rw [h1, getElem?_append_some hc, h2]
    exact getElem?_append_some h _

structure Sys.DataInv (s : Sys) : Prop where
  /-- a performed write carries the bytes of its command's host buffer at the offset of the
      transaction inside the page piece; the bytes a performed read observed are in the host buffer
      of its command at that offset -/
  data : ∀ t ∈ s.mlog, ∃ (rq : MqReq) (p : Piece), s.reqOfDma t.owner = some rq ∧ s.pieceOf rq = some p ∧
    (t.write = true → t.bytes = (p.cmd.data.drop (p.off + (t.addr - p.pa))).take t.len) ∧
    (t.write = false → ∀ i x, t.bytes[i]? = some x →
      (p.cmd.q, p.seq, p.off + (t.addr - p.pa) + i, x) ∈ s.host)

theorem Sys.DataInv.init (c : SysCfg) : (Sys.init c).DataInv := ⟨fun t h => (by cases h)⟩

theorem Sys.DataInv.step {s : Sys} (h : s.DataInv) (op : SysOp) : (s.step op).1.DataInv := by
  have grow1 : ∃ l, (s.step op).1.cp.dmaSeen = s.cp.dmaSeen ++ l := by
    obtain ⟨l, hl⟩ := s.step_cp op; rw [hl]; exact CpEnv.run_dmaSeen l s.cp
  have grow2 : ∃ l, (s.step op).1.mq.seen = s.mq.seen ++ l := by
    obtain ⟨l, hl⟩ := s.step_mq op; rw [hl]; exact MqEnv.run_seen l s.mq
  obtain ⟨grow3, ⟨lh, grow4⟩⟩ := s.step_cmds_host op
  have old : ∀ t ∈ s.mlog, ∃ (rq : MqReq) (p : Piece), (s.step op).1.reqOfDma t.owner = some rq ∧
      (s.step op).1.pieceOf rq = some p ∧
      (t.write = true → t.bytes = (p.cmd.data.drop (p.off + (t.addr - p.pa))).take t.len) ∧
      (t.write = false → ∀ i x, t.bytes[i]? = some x →
        (p.cmd.q, p.seq, p.off + (t.addr - p.pa) + i, x) ∈ (s.step op).1.host) := by
    intro t ht
    obtain ⟨rq, p, a1, a2, a3, a4⟩ := h.data t ht
    obtain ⟨l3, grow3⟩ := grow3
    refine ⟨rq, p, Sys.reqOfDma_mono grow1 grow2 a1, Sys.pieceOf_mono grow3 a2, a3, ?_⟩
    intro hw i x hx
    rw [grow4]; exact List.mem_append_right _ (a4 hw i x hx)
  by_cases hdo : ∃ j, op = .memDo j
  · obtain ⟨j, rfl⟩ := hdo
    revert old
    simp only [Sys.step]
    split
    · intro _; exact h
    · split
      · intro _; exact h
      · split
        · intro _; exact h
        · rename_i r hr
          split
          · intro _; exact h
          · rename_i p hp
            obtain ⟨rq, hrq, hpc⟩ := Option.bind_eq_some_iff.1 hp
            split
            · intro old
              refine ⟨fun t ht => ?_⟩
              rcases List.mem_append.1 ht with ht | ht
              · exact old t ht
              · simp only [List.mem_singleton] at ht
                subst ht
                exact ⟨rq, p, hrq, hpc, fun _ => rfl, fun hw => by simp at hw⟩
            · intro old
              refine ⟨fun t ht => ?_⟩
              rcases List.mem_append.1 ht with ht | ht
              · exact old t ht
              · simp only [List.mem_singleton] at ht
                subst ht
                refine ⟨rq, p, hrq, hpc, fun hw => by simp at hw, fun _ i x hx => ?_⟩
                apply List.mem_append_left
                rw [List.mem_reverse, List.mem_map]
                exact ⟨(x, i), List.mem_zipIdx_iff_getElem?.2 hx, rfl⟩
  · have hm : (s.step op).1.mlog = s.mlog := s.step_mlog op (fun j hj => hdo ⟨j, hj⟩)
    exact ⟨fun t ht => old t (hm ▸ ht)⟩

theorem Sys.DataInv.run : ∀ (ops : List SysOp) {s : Sys}, s.DataInv → (s.run ops).DataInv
  | [], _, h => h
  | op :: rest, _, h => Sys.DataInv.run rest (h.step op)

end C11
