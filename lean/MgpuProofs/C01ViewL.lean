import MgpuProofs.C01Insts
import MgpuProofs.C01LdsFrame
import MgpuProofs.C01BarEx2
/-! # C01 — the symbolic-execution view with an LDS component

`SeesL st V L`: the wavefront state is described by the `View` `V` (as before) and its LDS content by `L`.
* `SeesL.lift`: every existing per-class step lemma (conclusion `∃ st', step … = .ok (st', c) ∧ Sees st' V'`) carries
  over unchanged for a non-DS instruction — the LDS description stays `L` (`step_lds_frame`).
* `step_ds_write16`: the LDS write of the shipped kernel, `ds_write2_b64 vA, v[D:D+1], v[E:E+1] offset1:1`, as a view
  transformer: registers and memory as before, PC + 8, LDS content changed by the 16 bytes per active lane that the
  VIEW's registers give (`viewPairs16`).
* `step_barrier_view`: `S_BARRIER` stops the wavefront with everything but the PC unchanged. -/
set_option linter.unusedSimpArgs false
set_option maxRecDepth 100000
namespace C01
namespace Emu
open C03V

structure SeesL (st : St) (V : View) (L : Nat → Nat) : Prop where
  sees : Sees st V
  lds : ∀ a, st.rlds a = L a

/-- a non-DS instruction: the old step lemma, and the LDS description is kept -/
theorem SeesL.lift {st : St} {V V' : View} {L : Nat → Nat} (h : SeesL st V L) (P : Program) (hP : P.cdna3 = false)
    (base k : Nat) (hpc : V.pc = base + k) (ft op sz : Nat) (hd : DecV ((P.code.drop k).take 8) ft op sz)
    (hnd : field (leWord (((P.code.drop k).take 8).take sz) 0) 26 31 ≠ 0x36) (c : Ctl)
    (hstep : ∃ st', step P base st = .ok (st', c) ∧ Sees st' V') :
    ∃ st', step P base st = .ok (st', c) ∧ SeesL st' V' L := by
  obtain ⟨st', hs, hv⟩ := hstep
  refine ⟨st', hs, hv, fun a => ?_⟩
  have hl := step_lds_frame P hP base k st st' c (h.sees.pc.trans hpc) ft op sz hd hnd hs
  unfold St.rlds
  rw [hl]
  exact h.lds a

/-- the 16 bytes per active lane, read off the view -/
def viewPairs16 (V : View) (A D E : Nat) : List (Nat × Nat) :=
  (lanesOf V.exec).flatMap fun l =>
    bytePairs (I.ds2Addr (V.rv A l) 0 (8 * 1)) 8 (V.rv D l + V.rv (D + 1) l * 2 ^ 32) ++
    bytePairs (I.ds2Addr (V.rv A l) 1 (8 * 1)) 8 (V.rv E l + V.rv (E + 1) l * 2 ^ 32)

theorem ldsPairs16_view {st : St} {V : View} (h : Sees st V) (A D E : Nat) (hA : A < 256) (hD : D + 1 < 256) (hE : E + 1 < 256) :
    ldsPairs16 st A D E = viewPairs16 V A D E := by
  unfold ldsPairs16 viewPairs16
  rw [activeLanes_eq, h.exec]
  apply flatMap_congr'
  intro l hl
  have hl64 : l < 64 := ((mem_lanesOf _ _).mp hl).1
  show bytePairs (I.ds2Addr (st.rv A l) 0 (8 * 1)) 8 (st.rvN D l 2) ++ bytePairs (I.ds2Addr (st.rv A l) 1 (8 * 1)) 8 (st.rvN E l 2) = _
  rw [rvN2, rvN2, h.rv A l hA hl64, h.rv D l (by omega) hl64, h.rv (D + 1) l hD hl64, h.rv E l (by omega) hl64,
    h.rv (E + 1) l hE hl64]

/-- `ds_write2_b64 vA, v[D:D+1], v[E:E+1] offset1:1` -/
theorem step_ds_write16 (P : Program) (hP : P.cdna3 = false) (base k A D E : Nat) (hA : A < 256) (hD : D + 1 < 256)
    (hE : E + 1 < 256) (hd : DecV ((P.code.drop k).take 8) 12 78 8) (name : String)
    (hex : ∀ st, exec false st (((P.code.drop k).take 8).take 8) = some (name, dsWrite16 st A D E))
    (st : St) (V : View) (L : Nat → Nat) (h : SeesL st V L) (hpc : V.pc = base + k) :
    ∃ st', step P base st = .ok (st', .next) ∧
      SeesL st' { V with pc := base + k + 8 } (applyWrites (viewPairs16 V A D E) L) := by
  have hpc' : st.pc = base + k := h.sees.pc.trans hpc
  have hs := step_vec P hP base k st hpc' 12 78 8 hd (by omega) name _ (hex _)
  rw [dsWrite16_eq] at hs
  obtain ⟨L', hL, hg⟩ := applyWrs_lds (ldsPairs16 { st with pc := base + k + 8 } A D E) { st with pc := base + k + 8 }
  rw [hL] at hs
  have h1 : Sees { st with pc := base + k + 8 } { V with pc := base + k + 8 } := h.sees.setPc _
  refine ⟨_, hs, ⟨h1.ssz, h1.vsz, h1.pc, h1.exec, h1.vcc, h1.rs, h1.rv, h1.mem⟩, fun a => ?_⟩
  show get L' a = _
  rw [hg, ldsPairs16_view h1 A D E hA hD hE]
  have : get ({ st with pc := base + k + 8 } : St).lds = L := funext h.lds
  rw [this]
  rfl

/-! ## the LDS read of the shipped kernel -/

/-- little-endian value of `n` LDS bytes at `a` -/
def rdL (L : Nat → Nat) (a n : Nat) : Nat := leNat ((List.range n).map fun i => L (a + i))

/-- the VGPR cells lane `l` receives from `ds_read2_b64 v[D:D+3], vA offset1:1`, read off the view and `L` -/
def readCells16 (V : View) (L : Nat → Nat) (A D l : Nat) : List Wr :=
  wrVN D l (8 / 4) (rdL L (I.ds2Addr (V.rv A l) 0 (8 * 1)) 8) ++
  wrVN (D + 8 / 4) l (8 / 4) (rdL L (I.ds2Addr (V.rv A l) 1 (8 * 1)) 8)

theorem mem_wrVN (r l n x : Nat) (w : Wr) (hw : w ∈ wrVN r l n x) : ∃ r', w.1 = Cell.v r' l := by
  unfold wrVN at hw
  obtain ⟨i, _, rfl⟩ := List.mem_map.mp hw
  exact ⟨_, rfl⟩

theorem mem_readCells16 (V : View) (L : Nat → Nat) (A D l : Nat) (w : Wr) (hw : w ∈ readCells16 V L A D l) :
    ∃ r', w.1 = Cell.v r' l := by
  unfold readCells16 at hw
  rcases List.mem_append.mp hw with h | h
  · exact mem_wrVN _ _ _ _ w h
  · exact mem_wrVN _ _ _ _ w h

/-- `ds_read2_b64 v[D:D+3], vA offset1:1`: the four destination VGPRs of every active lane receive the 16 LDS bytes at
    `VGPR[A]` (value of register `r`, lane `l` afterwards: the last matching cell of `readCells16`), everything else,
    the LDS included, unchanged -/
theorem step_ds_read16 (P : Program) (hP : P.cdna3 = false) (base k A D : Nat) (hA : A < 256)
    (hd : DecV ((P.code.drop k).take 8) 12 119 8) (name : String)
    (hex : ∀ st, exec false st (((P.code.drop k).take 8).take 8) = some (name, dsRead16 st A D))
    (st : St) (V : View) (L : Nat → Nat) (h : SeesL st V L) (hpc : V.pc = base + k) :
    ∃ st', step P base st = .ok (st', .next) ∧
      SeesL st'
        { V with pc := base + k + 8,
                 rv := fun r l => if V.exec.testBit l = true then sel (isV (r * 64 + l)) (readCells16 V L A D l) (V.rv r l)
                                  else V.rv r l } L := by
  have hpc' : st.pc = base + k := h.sees.pc.trans hpc
  refine ⟨_, step_vec P hP base k st hpc' 12 119 8 hd (by omega) name _ (hex _), ?_⟩
  generalize hst1 : ({ st with pc := base + k + 8 } : St) = st1
  have h1 : Sees st1 { V with pc := base + k + 8 } := by rw [← hst1]; exact h.sees.setPc _
  have hlds1 : st1.rlds = L := by rw [← hst1]; exact funext h.lds
  have hws : dsRead16 st1 A D = (lanesOf V.exec).flatMap (readCells16 V L A D) := by
    unfold dsRead16
    rw [activeLanes_eq, h1.exec]
    apply flatMap_congr'
    intro l hl
    have hl64 : l < 64 := ((mem_lanesOf _ _).mp hl).1
    unfold readCells16 St.ldsRead rdL
    rw [hlds1, h1.rv A l hA hl64]
  rw [hws]
  have hcell : ∀ w ∈ (lanesOf V.exec).flatMap (readCells16 V L A D), ∃ r' l', l' < 64 ∧ w.1 = Cell.v r' l' := by
    intro w hw
    obtain ⟨l, hl, hwl⟩ := List.mem_flatMap.mp hw
    obtain ⟨r', hr'⟩ := mem_readCells16 V L A D l w hwl
    exact ⟨r', l, ((mem_lanesOf _ _).mp hl).1, hr'⟩
  have blind : ∀ (p : Cell → Bool), (∀ r l, p (.v r l) = false) → ∀ d,
      sel p ((lanesOf V.exec).flatMap (readCells16 V L A D)) d = d := by
    intro p hp d
    apply sel_none
    intro w hw
    obtain ⟨r', l', _, hl⟩ := hcell w hw
    rw [hl, hp]
  have hml := mem_applyWrs_of_none st1 ((lanesOf V.exec).flatMap (readCells16 V L A D)) (by
    intro w hw
    obtain ⟨r', l', _, hl⟩ := hcell w hw
    rw [hl])
  refine ⟨⟨by rw [size_s_applyWrs]; exact h1.ssz, by rw [size_v_applyWrs]; exact h1.vsz, ?_, ?_, ?_, ?_, ?_, ?_⟩, ?_⟩
  · rw [pc_applyWrs, blind _ (fun _ _ => rfl)]; exact h1.pc
  · rw [exec_applyWrs, blind _ (fun _ _ => rfl)]; exact h1.exec
  · rw [vcc_applyWrs, blind _ (fun _ _ => rfl)]; exact h1.vcc
  · intro j hj
    rw [rs_applyWrs _ _ _ (by rw [h1.ssz]; exact hj), blind _ (fun _ _ => rfl)]
    exact h1.rs j hj
  · intro r l hr hl
    rw [rv_applyWrs _ _ _ _ (by rw [h1.vsz]; omega)]
    rw [sel_flatMap_single (isV (r * 64 + l)) (readCells16 V L A D) l (lanesOf V.exec) _ (lanesOf_nodup _) (by
      intro l' hl' hne w hw
      obtain ⟨r', hr'⟩ := mem_readCells16 V L A D l' w hw
      rw [hr']
      have := ((mem_lanesOf _ _).mp hl').1
      simp only [isV, beq_eq_false_iff_ne, ne_eq]
      omega)]
    show _ = if V.exec.testBit l = true then sel (isV (r * 64 + l)) (readCells16 V L A D l) (V.rv r l) else V.rv r l
    rw [h1.rv r l hr hl]
    by_cases hx : V.exec.testBit l = true
    · rw [if_pos ((mem_lanesOf _ _).mpr ⟨hl, hx⟩), if_pos hx]
    · rw [if_neg (fun hc => hx ((mem_lanesOf _ _).mp hc).2), if_neg hx]
  · intro x
    show (applyWrs st1 _).rmem x = _
    unfold St.rmem
    rw [hml.1]
    exact h1.mem x
  · intro a
    show (applyWrs st1 _).rlds a = _
    unfold St.rlds
    rw [hml.2]
    show st1.rlds a = L a
    rw [hlds1]

/-- `S_BARRIER` -/
theorem step_barrier_view (P : Program) (hP : P.cdna3 = false) (base k : Nat)
    (hd : DecV ((P.code.drop k).take 8) 4 10 4) (st : St) (V : View) (L : Nat → Nat) (h : SeesL st V L)
    (hpc : V.pc = base + k) :
    ∃ st', step P base st = .ok (st', .barrier) ∧ SeesL st' { V with pc := base + k + 4 } L :=
  ⟨_, step_barrier P hP base k st (h.sees.pc.trans hpc) hd, h.sees.setPc _, h.lds⟩

end Emu
end C01
