import MgpuProofs.C20_Cons3
/-! # C20 — warp conservation: warps received by SMs + warps pending above the SMs is constant -/
namespace C20

def QWf (l0 : Level Kernel) (l1 : List (Level Block)) (sms : List Smx) : Nat :=
  sum (sms.map (·.warps)) + (l0.weight warpsOfKernel + sum (l1.map (Level.weight List.length)))

def QW (s : Sys) : Nat := receivedWarps s + pendingWarps s

theorem QW_eq (s : Sys) : QW s = QWf s.l0 s.l1 s.sms := rfl

theorem QW_wakeGpu (s : Sys) (g : Nat) : QW (wakeGpu s g) = QW s := rfl
theorem QW_wakeSub (s : Sys) (u : Nat) : QW (wakeSub s u) = QW s := rfl
theorem QW_wakeSm (s : Sys) (m : Nat) : QW (wakeSm s m) = QW s := by
  have := sum_upd (fun c : Smx => c.warps) rfl s.sms m { get s.sms m with awake := true }
  simp only [QW_eq, QWf, wakeSm] at this ⊢
  omega

theorem QW_wakeMany (wake : Sys → Nat → Sys) (h : ∀ s k, QW (wake s k) = QW s) (f : Nat → Nat) (s : Sys) (ks : List Nat) :
    QW (wakeMany wake f s ks) = QW s := by
  unfold wakeMany
  induction ks generalizing s with
  | nil => rfl
  | cons k ks ih => simp only [List.foldl_cons]; rw [ih, h]

theorem QW_wakeManyGpu (f : Nat → Nat) (s : Sys) (ks : List Nat) : QW (wakeMany wakeGpu f s ks) = QW s := QW_wakeMany _ QW_wakeGpu _ _ _
theorem QW_wakeManySm (f : Nat → Nat) (s : Sys) (ks : List Nat) : QW (wakeMany wakeSm f s ks) = QW s := QW_wakeMany _ QW_wakeSm _ _ _
theorem QW_wakeManySub (f : Nat → Nat) (s : Sys) (ks : List Nat) : QW (wakeMany wakeSub f s ks) = QW s := QW_wakeMany _ QW_wakeSub _ _ _

theorem QW_ite (c : Bool) (a b : Sys) (x : Nat) (ha : QW a = x) (hb : QW b = x) : QW (if c = true then a else b) = x := by
  split <;> assumption

theorem QW_tickDriver (s : Sys) : QW (tickDriver s) = QW s := by
  unfold tickDriver
  simp only
  split
  · rw [QW_wakeManyGpu]; simp only [QW_eq, QWf, Level.weight_procUp, Level.weight_dispatch]
  · simp only [QW_eq, QWf, Level.weight_procUp, Level.weight_dispatch]

theorem QW_tickConn0 (s : Sys) : QW (tickConn0 s) = QW s := by
  unfold tickConn0
  simp only
  rw [QW_wakeManyGpu]
  simp only [QW_eq, QWf, Level.weight_connTick]

theorem QW_tickConn1 (s : Sys) (g : Nat) : QW (tickConn1 s g) = QW s := by
  unfold tickConn1
  simp only
  rw [QW_wakeManySm]
  have h := sum_upd (Level.weight (List.length : Block → Nat)) rfl s.l1 g (get s.l1 g).connTick.l
  rw [Level.weight_connTick] at h
  split
  · rw [QW_wakeGpu]; simp only [QW_eq, QWf]; omega
  · simp only [QW_eq, QWf]; omega

theorem QW_tickConn2 (s : Sys) (m : Nat) : QW (tickConn2 s m) = QW s := by
  unfold tickConn2
  simp only
  rw [QW_wakeManySub]
  split
  · rw [QW_wakeSm]; rfl
  · rfl

theorem QW_tickSub (s : Sys) (u : Nat) : QW (tickSub s u) = QW s := by
  unfold tickSub
  simp only
  split
  · rfl
  · split
    · rw [QW_wakeManySub, QW_wakeSm]; rfl
    · rfl

/-- frame for an SM tick: the GPU's layer loses a block of `k` warps, the SM's counter gains `k` -/
theorem QW_sm (s : Sys) (g m k : Nat) (lg : Level Block) (l2 : List (Level Warp)) (c : Smx)
    (h : lg.weight List.length + k = (get s.l1 g).weight List.length) (hc : c.warps = (get s.sms m).warps + k) :
    QW { s with l1 := upd s.l1 g lg, l2 := l2, sms := upd s.sms m c } = QW s := by
  have h1 := sum_upd (Level.weight (List.length : Block → Nat)) rfl s.l1 g lg
  have h2 := sum_upd (fun c : Smx => c.warps) rfl s.sms m c
  simp only [QW_eq, QWf] at h1 h2 ⊢
  omega

theorem QW_tickSm (s : Sys) (m : Nat) : QW (tickSm s m) = QW s := by
  unfold tickSm
  simp only
  by_cases hf : (get s.sms m).fin = 0
  · simp only [hf, ite_true]
    cases hct : (get s.l1 (m / s.S)).childTake (m % s.S) with
    | none =>
      simp only []
      repeat' (first | apply QW_ite | rw [QW_wakeManySub] | rw [QW_wakeManySm] | rw [QW_wakeGpu])
      all_goals exact QW_sm _ _ _ 0 _ _ _ rfl rfl
    | some x =>
      obtain ⟨b, lg', wf⟩ := x
      have hw := Level.weight_childTake List.length _ _ _ _ _ hct
      simp only []
      repeat' (first | apply QW_ite | rw [QW_wakeManySub] | rw [QW_wakeManySm] | rw [QW_wakeGpu])
      all_goals exact QW_sm _ _ _ b.length _ _ _ hw rfl
  · simp only [hf, ite_false]
    cases hcs : (get s.l1 (m / s.S)).childSend (m % s.S) with
    | none =>
      simp only []
      cases hct : (get s.l1 (m / s.S)).childTake (m % s.S) with
      | none =>
        simp only []
        repeat' (first | apply QW_ite | rw [QW_wakeManySub] | rw [QW_wakeManySm] | rw [QW_wakeGpu])
        all_goals exact QW_sm _ _ _ 0 _ _ _ rfl rfl
      | some x =>
        obtain ⟨b, lg', wf⟩ := x
        have hw := Level.weight_childTake List.length _ _ _ _ _ hct
        simp only []
        repeat' (first | apply QW_ite | rw [QW_wakeManySub] | rw [QW_wakeManySm] | rw [QW_wakeGpu])
        all_goals exact QW_sm _ _ _ b.length _ _ _ hw rfl
    | some l' =>
      have hs := Level.weight_childSend List.length _ _ _ hcs
      simp only []
      cases hct : l'.childTake (m % s.S) with
      | none =>
        simp only []
        repeat' (first | apply QW_ite | rw [QW_wakeManySub] | rw [QW_wakeManySm] | rw [QW_wakeGpu])
        all_goals exact QW_sm _ _ _ 0 _ _ _ (by omega) rfl
      | some x =>
        obtain ⟨b, lg', wf⟩ := x
        have hw := Level.weight_childTake List.length _ _ _ _ _ hct
        simp only []
        repeat' (first | apply QW_ite | rw [QW_wakeManySub] | rw [QW_wakeManySm] | rw [QW_wakeGpu])
        all_goals exact QW_sm _ _ _ b.length _ _ _ (by omega) rfl

theorem QW_gpu (s : Sys) (g : Nat) (l0 : Level Kernel) (lg : Level Block) (gpus : List Gpu) (b : Bool)
    (h : l0.weight warpsOfKernel + lg.weight List.length = s.l0.weight warpsOfKernel + (get s.l1 g).weight List.length) :
    QW { s with l0 := l0, l1 := upd s.l1 g lg, gpus := gpus, dAwake := b } = QW s := by
  have h1 := sum_upd (Level.weight (List.length : Block → Nat)) rfl s.l1 g lg
  simp only [QW_eq, QWf] at h1 ⊢
  omega

theorem QW_tickGpu (s : Sys) (g : Nat) : QW (tickGpu s g) = QW s := by
  unfold tickGpu
  simp only
  by_cases hf : (get s.gpus g).fin = 0
  · simp only [hf, ite_true]
    cases hct : s.l0.childTake g with
    | none =>
      try simp only []
      repeat' (first | apply QW_ite | rw [QW_wakeManySm] | rw [QW_wakeManyGpu])
      all_goals (apply QW_gpu; simp only [Level.weight_procUp, Level.weight_dispatch])
    | some x =>
      obtain ⟨b, lg', wf⟩ := x
      have hw := Level.weight_childTake warpsOfKernel _ _ _ _ _ hct
      try simp only []
      repeat' (first | apply QW_ite | rw [QW_wakeManySm] | rw [QW_wakeManyGpu])
      all_goals (apply QW_gpu; simp only [Level.weight_procUp, weight_accept, Level.weight_dispatch, warpsOfKernel] at hw ⊢; omega)
  · simp only [hf, ite_false]
    cases hcs : s.l0.childSend g with
    | none =>
      try simp only []
      cases hct : s.l0.childTake g with
      | none =>
        try simp only []
        repeat' (first | apply QW_ite | rw [QW_wakeManySm] | rw [QW_wakeManyGpu])
        all_goals (apply QW_gpu; simp only [Level.weight_procUp, Level.weight_dispatch])
      | some x =>
        obtain ⟨b, lg', wf⟩ := x
        have hw := Level.weight_childTake warpsOfKernel _ _ _ _ _ hct
        try simp only []
        repeat' (first | apply QW_ite | rw [QW_wakeManySm] | rw [QW_wakeManyGpu])
        all_goals (apply QW_gpu; simp only [Level.weight_procUp, weight_accept, Level.weight_dispatch, warpsOfKernel] at hw ⊢; omega)
    | some l' =>
      have hs := Level.weight_childSend warpsOfKernel _ _ _ hcs
      try simp only []
      cases hct : l'.childTake g with
      | none =>
        try simp only []
        repeat' (first | apply QW_ite | rw [QW_wakeManySm] | rw [QW_wakeManyGpu])
        all_goals (apply QW_gpu; simp only [Level.weight_procUp, Level.weight_dispatch]; omega)
      | some x =>
        obtain ⟨b, lg', wf⟩ := x
        have hw := Level.weight_childTake warpsOfKernel _ _ _ _ _ hct
        try simp only []
        repeat' (first | apply QW_ite | rw [QW_wakeManySm] | rw [QW_wakeManyGpu])
        all_goals (apply QW_gpu; simp only [Level.weight_procUp, weight_accept, Level.weight_dispatch, warpsOfKernel] at hw hs ⊢; omega)

theorem QW_step (s : Sys) (e : Ev) : QW (step s e) = QW s := by
  cases e with
  | drv => exact QW_tickDriver s
  | gpu g => exact QW_tickGpu s g
  | sm m => exact QW_tickSm s m
  | sub u => exact QW_tickSub s u
  | c0 => exact QW_tickConn0 s
  | c1 g => exact QW_tickConn1 s g
  | c2 m => exact QW_tickConn2 s m

theorem QW_run (s : Sys) (evs : List Ev) : QW (run s evs) = QW s := by
  unfold run
  induction evs generalizing s with
  | nil => rfl
  | cons e es ih => simp only [List.foldl_cons]; rw [ih, QW_step]

theorem QW_init (legacy : Bool) (G S C : Nat) (trace : List Kernel) :
    QW (init legacy G S C trace) = warpsOfTrace trace := by
  simp [QW_eq, QWf, init, Level.sum_replicate_zero, Level.weight, mkLevel, warpsOfTrace]

end C20
