import MgpuProofs.C17WLive4
/-! C17, liveness for every width, part 5: every request of `inOrder` — measure `position · potBound + headPot`. -/
namespace C17
namespace WLive
open WBnd

/-- one tick of the component, bank `k`: `inOrder` loses a prefix `done` (all answered) and gains new entries at the end;
if nothing was answered the measure of the oldest request dropped by one when the port accepted -/
theorem tick_order (c : Cfg) (hd0 : 0 < c.depth) (hp0 : 0 < c.post) (s : WState) (h : InvW c s)
    (hg : AllGood c s.banks) (k : Nat) (b : WBank) (hb : s.banks[k]? = some b) (hnf : (tickFlagsW c s).2 = none) :
    ∃ done rest t b3, (tickW c s).banks[k]? = some b3 ∧ b.order = done ++ rest ∧ b3.order = rest ++ t ∧
      (∀ r ∈ done, r ∈ (tickW c s).resp.map (·.req)) ∧
      (done = [] → b.order ≠ [] →
        headPot c b3 + (if acceptsW c s k = true then 1 else 0) ≤ headPot c b) := by
  have hmem := List.mem_of_getElem? hb
  have hgb : Good c b := hg b hmem
  have hcore := (h.ok b hmem).core
  have hnd : b.order.Nodup := (List.nodup_append.1 (orderW_nodup c s h k b hb)).1
  obtain ⟨F, b3, ⟨⟨log, out, resp, pg, hFeq⟩, hFf, hFr⟩, hget, hacc, hb3⟩ := tickW_bank c s h k b hb hnf
  have hacs : acceptsW c s k = !hasC F.bank := by unfold acceptsW; rw [hget]
  have hgF : Good c F.bank := by rw [hFeq]; exact finalizeBankW_good c _ b log out resp pg hgb
  have hrel := finalizeBankW_rel c (b.order.length + b.post.length + 1) b log out resp pg hcore hnd
  rw [← hFeq] at hrel
  obtain ⟨cm, done, _, _, e3, e4⟩ := hrel.ex
  have hg2 := tickBankPipeW_good c _ hgF
  obtain ⟨_, _, _, ⟨t, o3⟩, _, _⟩ := accStar_spec c hd0 hacc hg2
  have o3' : b3.order = F.bank.order ++ t := o3
  refine ⟨done, F.bank.order, t, b3, hb3, e4.symm, o3', ?_, ?_⟩
  · intro r hr
    apply hFr
    rw [e3]
    exact List.mem_append_right _ hr
  · intro hdn hne
    subst hdn
    simp only [List.nil_append] at e4
    cases hord : b.order with
    | nil => exact absurd hord hne
    | cons o' os =>
      have hsame : F.bank.order = o' :: os := by rw [e4, hord]
      by_cases hout : outOfPipe b o'
      · have hout1 : outOfPipe F.bank o' := by
          rw [hFeq] at hsame ⊢
          exact fin_stays_out c _ b log out resp pg o' os hord hout hsame
        obtain ⟨_, _, a3⟩ := headPot_stays c hd0 F.bank b3 o' os hgF hsame hout1 hacc
        have hrefused : acceptsW c s k = false := by
          cases hx : acceptsW c s k with
          | false => rfl
          | true =>
            exfalso
            rw [hacs] at hx
            have hx' : hasC F.bank = false := by simpa using hx
            rw [hFeq] at hx' hFf hsame
            have := fin_out_of_pipe c _ b log out resp pg o' os hord hout (by omega) hFf hx'
            rw [hsame] at this
            simp only [List.length_cons] at this
            omega
        rw [a3, hrefused]
        have := headPot_pos c b o' os hord
        simpa using this
      · have hin1 : o' ∉ b.early.map (·.req) := fun x => hout (Or.inr x)
        have hin2 : o' ∉ b.post.map (·.req) := fun x => hout (Or.inl x)
        have hwork : 0 < laneWork c b.lanes := by
          have h1 : o' ∈ (wItems b).map (·.req) := by
            apply hcore.perm.mem_iff.2; rw [hord]; exact List.mem_cons_self
          obtain ⟨it, hit, hreq⟩ := List.mem_map.1 h1
          unfold wItems at hit
          rcases List.mem_append.1 hit with hit | hit
          · rcases List.mem_append.1 hit with hit | hit
            · exact absurd (List.mem_map.2 ⟨it, hit, hreq⟩) hin2
            · exact laneWork_pos c b.lanes it hit
          · exact absurd (List.mem_map.2 ⟨it, hit, hreq⟩) hin1
        have hfu : b.post.length ≤ b.order.length + b.post.length + 1 := by omega
        have hstep : headPot c b3 < headPot c b := by
          rw [hFeq] at hacc
          exact headPot_step c hd0 hp0 b b3 log out resp pg _ o' os hgb hord hout hwork hfu hacc
        split <;> omega

/-- the measure of a request of `inOrder`: its position times the bound for one oldest request, plus the measure of the
current oldest request -/
def ordPot (c : Cfg) (b : WBank) (pre : List Req) : Nat := pre.length * potBound c + headPot c b

/-- where request `x` is in bank `k`'s `inOrder` -/
def InOrderAt (s : WState) (k : Nat) (x : Req) (b : WBank) (pre suf : List Req) : Prop :=
  s.banks[k]? = some b ∧ b.order = pre ++ x :: suf

theorem tick_inorder (c : Cfg) (hd0 : 0 < c.depth) (hp0 : 0 < c.post) (s : WState) (h : InvW c s)
    (hg : AllGood c s.banks) (hcy : AllCyc c s.banks) (k : Nat) (x : Req) (b : WBank) (pre suf : List Req)
    (hx : InOrderAt s k x b pre suf) (hnf : (tickFlagsW c s).2 = none) :
    x ∈ (tickW c s).resp.map (·.req) ∨
    ∃ b3 pre' suf', InOrderAt (tickW c s) k x b3 pre' suf' ∧
      ordPot c b3 pre' + (if acceptsW c s k = true then 1 else 0) ≤ ordPot c b pre := by
  obtain ⟨hb, hord⟩ := hx
  obtain ⟨done, rest, t, b3, hb3, e1, e2, hdone, hpot⟩ := tick_order c hd0 hp0 s h hg k b hb hnf
  have hg3 : Good c b3 := tickW_good c s hg b3 (List.mem_of_getElem? hb3)
  have hc3 : CycOk c b3 := tickW_cyc c s hcy b3 (List.mem_of_getElem? hb3)
  have hB := headPot_le c b3 hg3 hc3
  rw [hord] at e1
  -- `done ++ rest = pre ++ x :: suf`
  rcases List.append_eq_append_iff.1 e1 with ⟨a', ha1, ha2⟩ | ⟨c', hc1, hc2⟩
  · -- done = pre ++ a', x :: suf = a' ++ rest
    cases a' with
    | nil =>
      -- done = pre, rest = x :: suf
      simp only [List.append_nil, List.nil_append] at ha1 ha2
      right
      refine ⟨b3, [], suf ++ t, ⟨hb3, by rw [e2, ← ha2]; simp⟩, ?_⟩
      unfold ordPot
      cases hpre : pre with
      | nil =>
        have := hpot (by rw [ha1, hpre]) (by rw [hord]; simp)
        simpa using this
      | cons p ps =>
        have hpos : 1 ≤ headPot c b := by
          rw [hpre] at hord
          exact headPot_pos c b p (ps ++ x :: suf) (by rw [hord]; rfl)
        simp only [List.length_nil, Nat.zero_mul, Nat.zero_add, List.length_cons, Nat.succ_mul]
        split <;> omega
    | cons y ys =>
      left
      simp only [List.cons_append, List.cons.injEq] at ha2
      apply hdone
      rw [ha1, ha2.1]
      simp
  · -- pre = done ++ c', rest = c' ++ x :: suf
    right
    refine ⟨b3, c', suf ++ t, ⟨hb3, by rw [e2, hc2]; simp⟩, ?_⟩
    unfold ordPot
    cases hdn : done with
    | nil =>
      have := hpot hdn (by rw [hord]; simp)
      rw [hc1, hdn]
      simp only [List.nil_append]
      omega
    | cons d ds =>
      have hpos : 1 ≤ headPot c b := headPot_pos c b d (ds ++ rest) (by rw [hord, e1, hdn]; rfl)
      rw [hc1, hdn]
      simp only [List.length_append, List.length_cons, Nat.add_mul, Nat.succ_mul]
      split <;> omega

theorem inorder_fold (c : Cfg) (hd0 : 0 < c.depth) (hp0 : 0 < c.post) (k : Nat) (x : Req) :
    ∀ (ops : List Op) (s : WState), InvW c s → AllGood c s.banks → AllCyc c s.banks → noPanicW c s ops = true →
    (x ∈ s.resp.map (·.req) ∨
      ∃ b pre suf, InOrderAt s k x b pre suf ∧ ordPot c b pre ≤ acceptingTicksW c k s ops) →
    x ∈ (ops.foldl (stepW c) s).resp.map (·.req) := by
  intro ops
  induction ops with
  | nil =>
    intro s _ _ _ _ h
    rcases h with h | ⟨b, pre, suf, ⟨hb, hord⟩, h2⟩
    · exact h
    · exfalso
      have : 1 ≤ headPot c b := by
        cases pre with
        | nil => exact headPot_pos c b x suf hord
        | cons p ps => exact headPot_pos c b p (ps ++ x :: suf) hord
      unfold ordPot at h2
      simp only [acceptingTicksW] at h2
      omega
  | cons op ops ih =>
    intro s hi hg hcy hnp h
    simp only [List.foldl_cons]
    have hi' := step_invW c s op hi
    have hg' := stepW_good c s op hg
    have hcy' := stepW_cyc c s op hcy
    cases op with
    | tick =>
      simp only [noPanicW, Bool.and_eq_true, Option.isNone_iff_eq_none] at hnp
      apply ih _ hi' hg' hcy' hnp.2
      rcases h with h | ⟨b, pre, suf, hx, h2⟩
      · left; exact stepW_resp_mono c s .tick hi x h
      · rcases tick_inorder c hd0 hp0 s hi hg hcy k x b pre suf hx hnp.1 with ht | ⟨b3, pre', suf', t1, t2⟩
        · left; exact ht
        · right
          refine ⟨b3, pre', suf', t1, ?_⟩
          simp only [acceptingTicksW] at h2
          show ordPot c b3 pre' ≤ acceptingTicksW c k (tickW c s) ops
          omega
    | deliver kd a l d m =>
      simp only [noPanicW] at hnp
      apply ih _ hi' hg' hcy' hnp
      rcases h with h | ⟨b, pre, suf, ⟨hb, hord⟩, h2⟩
      · left; exact stepW_resp_mono c s _ hi x h
      · right
        have hbk := stepW_banks_of_not_tick c s (.deliver kd a l d m) (by simp)
        simp only [acceptingTicksW] at h2
        exact ⟨b, pre, suf, ⟨by rw [hbk]; exact hb, hord⟩, h2⟩
    | out n =>
      simp only [noPanicW] at hnp
      apply ih _ hi' hg' hcy' hnp
      rcases h with h | ⟨b, pre, suf, ⟨hb, hord⟩, h2⟩
      · left; exact stepW_resp_mono c s _ hi x h
      · right
        have hbk := stepW_banks_of_not_tick c s (.out n) (by simp)
        simp only [acceptingTicksW] at h2
        exact ⟨b, pre, suf, ⟨by rw [hbk]; exact hb, hord⟩, h2⟩

end WLive
end C17
