import MgpuProofs.C02Lemmas
/-! C02: FLAT load / store equivalence lemmas. -/
namespace C02

theorem mem_accesses {act : List (Nat × Nat)} {cnt : Nat} {x : Acc} (h : x ∈ accesses act cnt) :
    ∃ p ∈ act, x.lane = p.1 ∧ x.j < cnt ∧ x.addr = p.2 + 4 * x.j := by
  simp only [accesses, List.mem_flatMap, List.mem_map, List.mem_range] at h
  obtain ⟨p, hp, j, hj, rfl⟩ := h
  exact ⟨p, hp, rfl, hj, rfl⟩

theorem mem_active {exec : Nat} {addr : Nat → Nat} {p : Nat × Nat} (h : p ∈ active exec addr) :
    p.2 = addr p.1 ∧ p.1 < 64 ∧ exec.testBit p.1 = true := by
  simp only [active, List.mem_map, List.mem_filter, List.mem_range] at h
  obtain ⟨i, ⟨hi, hb⟩, rfl⟩ := h
  exact ⟨rfl, hi, hb⟩

/-- an access of an active lane is determined by (lane, register index) -/
theorem acc_addr {exec cnt : Nat} {addr : Nat → Nat} {x : Acc}
    (h : x ∈ accesses (active exec addr) cnt) : x.addr = addr x.lane + 4 * x.j := by
  obtain ⟨p, hp, hl, _, ha⟩ := mem_accesses h
  rw [ha, hl, (mem_active hp).1]

theorem valOf_congr (k : LKind) (g g' : Nat → Nat) (h : ∀ i, i < k.width → g i = g' i) :
    valOf k g = valOf k g' := by
  cases k <;> simp only [valOf, LKind.width] at * <;>
    first
      | rw [h 0 (by omega), h 1 (by omega), h 2 (by omega), h 3 (by omega)]
      | rw [h 0 (by omega), h 1 (by omega)]
      | rw [h 0 (by omega)]

theorem lineData_getD (m : Nat → Nat) (ls ln j : Nat) (hj : j < ls) :
    (lineData m ls ln).getD j 0 = m (ln + j) := by
  simp [lineData, List.getD, hj]

theorem noStraddle_of (k : LKind) (ls : Nat) (accs : List Acc) (h : loadStraddles k ls accs = false) :
    ∀ x ∈ accs, x.addr % ls + k.width ≤ ls := by
  intro x hx
  simp only [loadStraddles, List.any_eq_false] at h
  have := h x hx
  simp only [decide_eq_true_eq] at this
  omega

/-- the register writes of the response for line `ln` = the emulator's writes whose dword lies in `ln` -/
theorem retW_eq_filter (k : LKind) (dst ls : Nat) (m : Nat → Nat) (accs : List Acc) (ln : Nat)
    (hns : loadStraddles k ls accs = false) :
    retW valOf k dst ls m ln (txnLanes ls accs ln) =
      (emuLoadW k dst ls m accs).filter (fun w => w.key = ln) := by
  unfold retW txnLanes emuLoadW
  rw [List.filter_map]
  apply List.map_congr_left
  intro x hx
  have hm := List.mem_filter.mp hx
  have hln : lineOf ls x.addr = ln := by simpa using hm.2
  have hw := noStraddle_of k ls accs hns x hm.1
  have hv : valOf k (fun i => (lineData m ls ln).getD (x.addr % ls + i) 0) =
      valOf k (fun i => m (x.addr + i)) := by
    apply valOf_congr
    intro i hi
    rw [lineData_getD m ls ln _ (by omega)]
    have := lineOf_add_mod ls x.addr
    rw [hln] at this
    congr 1
    omega
  simp only [hv, hln]

theorem timingLoad_eq_grouped (k : LKind) (dst ls : Nat) (m : Nat → Nat) (accs : List Acc)
    (ord : List Nat) (rf : St) (hns : loadStraddles k ls accs = false) :
    timingLoad k dst ls m accs ord rf = grouped (emuLoadW k dst ls m accs) ord rf := by
  unfold timingLoad timingLoadG grouped
  congr 1
  funext rf ln
  rw [retW_eq_filter k dst ls m accs ln hns]

/-! stores -/

theorem mem_storeW {ls bw cnt : Nat} {act : List (Nat × Nat)} {data : Nat → Nat → Nat} {w : Wr}
    (h : w ∈ storeW ls bw cnt act data) :
    ∃ x ∈ accesses act cnt, ∃ b, b < bw ∧ w.key = lineOf ls x.addr ∧ w.cell = (0, x.addr + b) := by
  simp only [storeW, List.mem_flatMap, List.mem_map, List.mem_range] at h
  obtain ⟨x, hx, b, hb, rfl⟩ := h
  exact ⟨x, hx, b, hb, rfl, rfl⟩

theorem store_key_of_cell {ls bw cnt : Nat} {act : List (Nat × Nat)} {data : Nat → Nat → Nat} (hls : 0 < ls)
    (hns : storeStraddles ls bw cnt act = false) {w : Wr} (h : w ∈ storeW ls bw cnt act data) :
    w.key = lineOf ls w.cell.2 := by
  obtain ⟨x, hx, b, hb, hk, hc⟩ := mem_storeW h
  simp only [storeStraddles, List.any_eq_false] at hns
  have := hns x hx
  simp only [decide_eq_true_eq] at this
  rw [hk, hc]
  exact (lineOf_add ls x.addr b hls (by omega)).symm

/-! dirty masks -/

theorem lastW_foldl_some (ws : List Wr) (c : Nat × Nat) : ∀ (acc : Option Nat) (v : Nat),
    ws.foldl (fun acc w => if c = w.cell then some w.val else acc) acc = some v →
    acc = some v ∨ ∃ w ∈ ws, w.cell = c := by
  induction ws with
  | nil => intro acc v h; exact Or.inl h
  | cons w ws ih =>
    intro acc v h
    simp only [List.foldl_cons] at h
    rcases ih _ v h with h' | ⟨w', hw', hc⟩
    · by_cases hcw : c = w.cell
      · exact Or.inr ⟨w, List.mem_cons_self .., hcw.symm⟩
      · rw [if_neg hcw] at h'; exact Or.inl h'
    · exact Or.inr ⟨w', List.mem_cons_of_mem _ hw', hc⟩

theorem lastW_some_mem (ws : List Wr) (c : Nat × Nat) (v : Nat) (h : lastW ws c = some v) :
    ∃ w ∈ ws, w.cell = c := by
  rcases lastW_foldl_some ws c none v h with h' | h'
  · cases h'
  · exact h'

theorem lastW_foldl_isSome (ws : List Wr) (c : Nat × Nat) : ∀ (acc : Option Nat),
    (acc.isSome = true ∨ ∃ w ∈ ws, w.cell = c) →
    (ws.foldl (fun acc w => if c = w.cell then some w.val else acc) acc).isSome = true := by
  induction ws with
  | nil =>
    intro acc h
    rcases h with h | ⟨w, hw, _⟩
    · exact h
    · simp at hw
  | cons w ws ih =>
    intro acc h
    simp only [List.foldl_cons]
    apply ih
    by_cases hcw : c = w.cell
    · exact Or.inl (by simp [hcw])
    · rw [if_neg hcw]
      rcases h with h | ⟨w', hw', hc⟩
      · exact Or.inl h
      · rcases List.mem_cons.mp hw' with rfl | hw''
        · exact absurd hc.symm hcw
        · exact Or.inr ⟨w', hw'', hc⟩

end C02
