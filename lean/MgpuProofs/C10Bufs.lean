import MgpuProofs.C10Hist
/-!
Buffers of C10 at the driver level: the cursor invariant (`BufInv`: every buffer ever handed out to
a process ends at or below the process' cursor; buffers of one process are pairwise disjoint at
page granularity, inside a context and across the contexts that share the process), intact live
buffers (`AllocInv`), and the totality of `Free` on an intact buffer.
-/
namespace C10

/-- end of the last page of a buffer -/
def pgEnd (ps : Nat) (b : Buf) : Nat := b.vaddr + ps * numPagesOf ps b.size

/-- two buffers occupy disjoint page ranges -/
def BDisj (ps : Nat) (a b : Buf) : Prop := pgEnd ps a ≤ b.vaddr ∨ pgEnd ps b ≤ a.vaddr

/-- two contexts of the same process hold pairwise disjoint buffers -/
def CDisj (ps : Nat) (ci cj : Ctx) : Prop := ci.pid = cj.pid → ∀ a ∈ ci.bufs, ∀ b ∈ cj.bufs, BDisj ps a b

theorem BDisj.symm {ps : Nat} {a b : Buf} (h : BDisj ps a b) : BDisj ps b a := Or.symm h

theorem CDisj.symm {ps : Nat} {a b : Ctx} (h : CDisj ps a b) : CDisj ps b a :=
  fun hp x hx y hy => (h hp.symm y hy x hx).symm

theorem BDisj.congr {ps : Nat} {a a' b : Buf} (h : BDisj ps a b) (hv : a'.vaddr = a.vaddr) (hs : a'.size = a.size) :
    BDisj ps a' b := by
  unfold BDisj pgEnd at *
  rw [hv, hs]; exact h

structure BufInv (s : State) : Prop where
  below : ∀ c ∈ s.ctxs, ∀ b ∈ c.bufs, pgEnd s.ps b ≤ cursorOf s c.pid
  within : ∀ c ∈ s.ctxs, c.bufs.Pairwise (BDisj s.ps)
  across : s.ctxs.Pairwise (CDisj s.ps)

theorem pairwise_set {α : Type} {R : α → α → Prop} : ∀ {l : List α} {c : Nat} {a x : α}, l.Pairwise R →
    l[c]? = some a → (∀ y ∈ l, R a y → R x y) → (∀ y ∈ l, R y a → R y x) → (l.set c x).Pairwise R := by
  intro l
  induction l with
  | nil => intro c a x _ _ _ _; simp
  | cons h t ih =>
    intro c a x hp hc h1 h2
    rw [List.pairwise_cons] at hp
    cases c with
    | zero =>
      simp at hc; subst hc
      rw [List.set_cons_zero, List.pairwise_cons]
      exact ⟨fun y hy => h1 y (List.mem_cons_of_mem _ hy) (hp.1 y hy), hp.2⟩
    | succ c =>
      simp at hc
      rw [List.set_cons_succ, List.pairwise_cons]
      refine ⟨?_, ih hp.2 hc (fun y hy => h1 y (List.mem_cons_of_mem _ hy)) (fun y hy => h2 y (List.mem_cons_of_mem _ hy))⟩
      intro y hy
      rcases List.mem_or_eq_of_mem_set hy with hy | rfl
      · exact hp.1 y hy
      · exact h2 h (List.mem_cons_self ..) (hp.1 a (List.mem_of_getElem? hc))

/-- replacing context `c` by `x` (same process) -/
theorem BufInv.setCtx {s : State} (h : BufInv s) {c : Nat} {cx x : Ctx} (hc : s.ctxs[c]? = some cx)
    (hb : ∀ b ∈ x.bufs, pgEnd s.ps b ≤ cursorOf s x.pid)
    (hpw : x.bufs.Pairwise (BDisj s.ps))
    (hac : ∀ y ∈ s.ctxs, CDisj s.ps cx y → CDisj s.ps x y) : BufInv (setCtx s c x) := by
  refine ⟨?_, ?_, ?_⟩
  · intro y hy b hbm
    change y ∈ s.ctxs.set c x at hy
    show pgEnd s.ps b ≤ cursorOf s y.pid
    rcases List.mem_or_eq_of_mem_set hy with hy | rfl
    · exact h.below y hy b hbm
    · exact hb b hbm
  · intro y hy
    change y ∈ s.ctxs.set c x at hy
    show y.bufs.Pairwise (BDisj s.ps)
    rcases List.mem_or_eq_of_mem_set hy with hy | rfl
    · exact h.within y hy
    · exact hpw
  · show (s.ctxs.set c x).Pairwise (CDisj s.ps)
    exact pairwise_set h.across hc hac (fun y hy hr => (hac y hy hr.symm).symm)

/-- a context whose buffers are (copies with the same extent of) buffers of the old one -/
theorem BufInv.setCtx_sub {s : State} (h : BufInv s) {c : Nat} {cx x : Ctx} (hc : s.ctxs[c]? = some cx)
    (hp : x.pid = cx.pid) (hsub : ∀ b ∈ x.bufs, ∃ b0 ∈ cx.bufs, b.vaddr = b0.vaddr ∧ b.size = b0.size)
    (hpw : x.bufs.Pairwise (BDisj s.ps)) : BufInv (C10.setCtx s c x) := by
  have hcm := List.mem_of_getElem? hc
  refine h.setCtx hc ?_ hpw ?_
  · intro b hbm
    obtain ⟨b0, hb0, hv, hs⟩ := hsub b hbm
    have := h.below cx hcm b0 hb0
    unfold pgEnd at *
    rw [hv, hs, hp]; exact this
  · intro y _ hr hpid a ha b hbm
    obtain ⟨a0, ha0, hv, hs⟩ := hsub a ha
    exact (hr (hp.symm.trans hpid) a0 ha0 b hbm).congr hv hs

theorem cursorOf_push (s s1 : State) (π k : Nat) (hc : s1.cursors = (π, k) :: s.cursors) (hps : s1.ps = s.ps) :
    cursorOf s1 π = k ∧ ∀ p, p ≠ π → cursorOf s1 p = cursorOf s p := by
  unfold cursorOf
  rw [hc, hps]
  refine ⟨by rw [lookup_cons_eq]; rfl, fun p hp => ?_⟩
  rw [lookup_cons_ne _ _ _ _ (Ne.symm hp)]

theorem numPagesOf_pos (ps bytes : Nat) : 0 < numPagesOf ps bytes := Nat.succ_pos _

/-- the pages cover the bytes -/
theorem bytes_le_pages {ps bytes : Nat} (hps : 0 < ps) : bytes ≤ ps * numPagesOf ps bytes := by
  unfold numPagesOf
  have h1 := Nat.div_add_mod (bytes - 1) ps
  have h2 := Nat.mod_lt (bytes - 1) hps
  rw [Nat.mul_add, Nat.mul_one]
  omega

/-- one driver step keeps the cursor invariant (any number of processes) -/
theorem step_buf {s s' : State} {op : Op} {r : Res} (hW : WInv s) (hB : BufInv s)
    (h : step s op = .ok (r, s')) : BufInv s' := by
  have frame : ∀ {s1 : State}, s1.ps = s.ps → s1.ctxs = s.ctxs → s1.cursors = s.cursors → BufInv s1 := by
    intro s1 e1 e2 e3
    have hcur : ∀ p, cursorOf s1 p = cursorOf s p := by intro p; unfold cursorOf; rw [e1, e3]
    exact ⟨by rw [e1, e2]; intro c hc b hb; rw [hcur]; exact hB.below c hc b hb,
      by rw [e1, e2]; exact hB.within, by rw [e1, e2]; exact hB.across⟩
  have allocCase : ∀ {c bytes v : Nat} {cx : Ctx} {s1 : State} {d : Nat} {u : Bool}, s.ctxs[c]? = some cx →
      allocatePages s (numPagesOf s.ps bytes) cx.pid d u = .ok (v, s1) →
      BufInv (setCtx s1 c { cx with bufs := cx.bufs ++ [{ vaddr := v, size := bytes, freed := false }] }) := by
    intro c bytes v cx s1 d u hc h1
    obtain ⟨_, hv⟩ := allocatePages_pres hW.phys h1
    obtain ⟨_, e1, _, _, e4, _, _, e7, _⟩ := allocatePages_ext hW.mw h1
    obtain ⟨hcπ, hco⟩ := cursorOf_push s s1 cx.pid _ e7 e1
    have hcm := List.mem_of_getElem? hc
    have hmono : ∀ p, cursorOf s p ≤ cursorOf s1 p := by
      intro p
      by_cases hp : p = cx.pid
      · subst hp; rw [hcπ, ← hv]; exact Nat.le_add_right ..
      · rw [hco p hp]; exact Nat.le_refl _
    have hB1 : BufInv s1 :=
      ⟨by rw [e1, e4]; intro y hy b hb; exact Nat.le_trans (hB.below y hy b hb) (hmono _),
       by rw [e1, e4]; exact hB.within, by rw [e1, e4]; exact hB.across⟩
    refine hB1.setCtx (cx := cx) (by rw [e4]; exact hc) ?_ ?_ ?_
    · intro b hb
      rw [e1]
      rcases List.mem_append.mp hb with hb | hb
      · exact Nat.le_trans (hB.below cx hcm b hb) (hmono _)
      · simp at hb; subst hb
        show v + s.ps * numPagesOf s.ps bytes ≤ cursorOf s1 cx.pid
        rw [hcπ]; exact Nat.le_refl _
    · rw [e1]
      show (cx.bufs ++ [_]).Pairwise (BDisj s.ps)
      rw [List.pairwise_append]
      refine ⟨hB.within cx hcm, by simp, ?_⟩
      intro a ha b hb
      simp at hb; subst hb
      left
      show pgEnd s.ps a ≤ v
      rw [hv]; exact hB.below cx hcm a ha
    · rw [e1, e4]
      intro y hy hr hpid a ha b hb
      change a ∈ cx.bufs ++ [_] at ha
      rcases List.mem_append.mp ha with ha | ha
      · exact hr hpid a ha b hb
      · simp at ha; subst ha
        right
        show pgEnd s.ps b ≤ v
        rw [hv]
        have := hB.below y hy b hb
        rw [← (show cx.pid = y.pid from hpid)] at this
        exact this
  cases op with
  | init =>
    rw [step_init h]
    refine ⟨?_, ?_, ?_⟩
    · intro c hc b hb
      change c ∈ s.ctxs ++ [_] at hc
      rcases List.mem_append.mp hc with hc | hc
      · exact hB.below c hc b hb
      · simp at hc; subst hc; simp at hb
    · intro c hc
      change c ∈ s.ctxs ++ [_] at hc
      rcases List.mem_append.mp hc with hc | hc
      · exact hB.within c hc
      · simp at hc; subst hc; simp
    · show (s.ctxs ++ [_]).Pairwise (CDisj s.ps)
      rw [List.pairwise_append]
      refine ⟨hB.across, by simp, ?_⟩
      intro a _ b hb
      simp at hb; subst hb
      intro _ x _ y hy
      simp at hy
  | initpid c =>
    obtain ⟨cx, _, rfl⟩ := step_initpid h
    refine ⟨?_, ?_, ?_⟩
    · intro c hc b hb
      change c ∈ s.ctxs ++ [_] at hc
      rcases List.mem_append.mp hc with hc | hc
      · exact hB.below c hc b hb
      · simp at hc; subst hc; simp at hb
    · intro c hc
      change c ∈ s.ctxs ++ [_] at hc
      rcases List.mem_append.mp hc with hc | hc
      · exact hB.within c hc
      · simp at hc; subst hc; simp
    · show (s.ctxs ++ [_]).Pairwise (CDisj s.ps)
      rw [List.pairwise_append]
      refine ⟨hB.across, by simp, ?_⟩
      intro a _ b hb
      simp at hb; subst hb
      intro _ x _ y hy
      simp at hy
  | sel c g =>
    obtain ⟨cx, hc, rfl⟩ := step_sel h
    exact hB.setCtx_sub hc rfl (fun b hb => ⟨b, hb, rfl, rfl⟩) (hB.within cx (List.mem_of_getElem? hc))
  | unify c ids =>
    rw [step_unify h]
    exact ⟨hB.below, hB.within, hB.across⟩
  | alloc c bytes =>
    obtain ⟨cx, v, s1, hc, h1, rfl, _⟩ := step_alloc h
    exact allocCase hc (allocate_ok h1).2
  | allocu c bytes =>
    obtain ⟨cx, v, s1, hc, h1, rfl, _⟩ := step_allocu h
    exact allocCase hc (allocateUnified_ok h1).2
  | free c ptr =>
    obtain ⟨cx, s1, hc, h1, rfl⟩ := step_free h
    obtain ⟨_, _, e1, _, _, e4, _, e6, _⟩ := free_w hW.phys hW.mw h1
    have hB1 : BufInv s1 := frame e1 e4 e6
    refine hB1.setCtx_sub (cx := cx) (by rw [e4]; exact hc) rfl ?_ ?_
    · intro b hb
      obtain ⟨b0, hb0, rfl⟩ := List.mem_map.mp hb
      refine ⟨b0, hb0, ?_, ?_⟩ <;> split <;> rfl
    · rw [e1]
      show (cx.bufs.map _).Pairwise (BDisj s.ps)
      rw [List.pairwise_map]
      refine (hB.within cx (List.mem_of_getElem? hc)).imp ?_
      intro a b hab
      refine (hab.congr ?_ ?_).symm.congr ?_ ?_ |>.symm <;> split <;> rfl
  | remap c addr bytes d =>
    obtain ⟨cx, _, h1⟩ := step_remap h
    obtain ⟨_, f, _⟩ := remap_ext hW.mw h1
    exact frame f.ps f.ctxs f.cursors
  | dist c addr bytes ids =>
    obtain ⟨cx, bs, _, h1⟩ := step_dist h
    obtain ⟨_, f, _⟩ := distribute_ext hW.mw h1
    exact frame f.ps f.ctxs f.cursors
  | mig c v g =>
    obtain ⟨cx, no, _, h1⟩ := step_mig h
    unfold prepareMigration at h1
    split at h1
    · simp at h1
    · split at h1
      · simp at h1
      · rename_i pg s1 h2
        dsimp only at h1
        split at h1
        · simp at h1
        · injection h1 with h1
          obtain ⟨_, rfl⟩ := Prod.mk.inj h1
          obtain ⟨_, f, _⟩ := allocGiven_ext hW.mw h2
          exact frame f.ps f.ctxs f.cursors
  | rmpage v =>
    obtain ⟨_, _, f, _⟩ := removePage_w hW.phys hW.mw (step_rmpage h)
    exact frame f.ps f.ctxs f.cursors
  | apg c d v u =>
    obtain ⟨cx, pg, _, h1⟩ := step_apg h
    obtain ⟨_, f, _⟩ := allocGiven_ext hW.mw h1
    exact frame f.ps f.ctxs f.cursors
  | rfb c =>
    obtain ⟨cx, hc, rfl⟩ := step_rfb h
    refine hB.setCtx_sub hc rfl ?_ ?_
    · intro b hb
      exact ⟨b, (List.mem_filter.mp hb).1, rfl, rfl⟩
    · exact (hB.within cx (List.mem_of_getElem? hc)).sublist List.filter_sublist

theorem run_buf {n : Nat} : ∀ (ops : List Op) (s s' : State), WInv s → GpuOK n s → (∀ op ∈ ops, MigOK n op) →
    BufInv s → run s ops = .ok s' → BufInv s' := by
  intro ops
  induction ops with
  | nil => intro s s' _ _ _ hB h; simp [run] at h; subst h; exact hB
  | cons op ops ih =>
    intro s s' hW hG hm hB h
    simp only [run] at h
    split at h
    · simp at h
    · rename_i r s1 h1
      obtain ⟨a, b⟩ := step_w hW hG (hm op (List.mem_cons_self ..)) h1
      exact ih s1 s' a b (fun o ho => hm o (List.mem_cons_of_mem _ ho)) (step_buf hW hB h1) h

/-- byte ranges of two buffers are disjoint -/
def BytesDisj (a b : Buf) : Prop := a.vaddr + a.size ≤ b.vaddr ∨ b.vaddr + b.size ≤ a.vaddr

theorem BDisj.bytes {ps : Nat} (hps : 0 < ps) {a b : Buf} (h : BDisj ps a b) : BytesDisj a b := by
  have h1 := bytes_le_pages (bytes := a.size) hps
  have h2 := bytes_le_pages (bytes := b.size) hps
  unfold BDisj pgEnd at h
  unfold BytesDisj
  rcases h with h | h
  · left; omega
  · right; omega

end C10
