import MgpuModel.C17
/-! Helper lemmas for C17: a width-1 bank is a FIFO (items never reorder between dispatch and commit). -/
namespace C17

def laneItems (l : Lane) : List Item := l.filterMap (fun s => s.map (·.1))

@[simp] theorem laneItems_nil : laneItems [] = [] := rfl
@[simp] theorem laneItems_none (l : Lane) : laneItems (none :: l) = laneItems l := by simp [laneItems]
@[simp] theorem laneItems_some (x : Item × Nat) (l : Lane) : laneItems (some x :: l) = x.1 :: laneItems l := by
  simp [laneItems]

theorem advance_items (lat : Nat) (rest : Lane) : ∀ a, laneItems (advance lat a rest) = laneItems (a :: rest) := by
  induction rest with
  | nil => intro a; simp [advance]
  | cons b rest ih =>
    intro a
    cases b with
    | none => cases a <;> simp [advance, ih]
    | some p =>
      obtain ⟨it, left⟩ := p
      simp only [advance]
      split
      · cases a <;> simp [ih]
      · cases a <;> simp [ih]

theorem tickLane_items (c : Cfg) (post : List Item) (l : Lane) :
    (tickLane c post l).1 ++ laneItems (tickLane c post l).2 = post ++ laneItems l := by
  cases l with
  | nil => simp [tickLane]
  | cons e rest =>
    cases e with
    | none => simp [tickLane, advance_items]
    | some p =>
      obtain ⟨it, left⟩ := p
      simp only [tickLane]
      split
      · simp [advance_items]
      · split <;> simp [advance_items]

theorem acceptLane_items (x : Item × Nat) (l : Lane) : ∀ l', acceptLane x l = some l' → laneItems l' = laneItems l ++ [x.1] := by
  induction l with
  | nil => intro l' h; simp [acceptLane] at h
  | cons s rest ih =>
    intro l' h
    cases rest with
    | nil =>
      simp only [acceptLane] at h
      split at h
      · cases s with
        | none => cases h; simp
        | some _ => simp at *
      · simp at h
    | cons s2 rest2 =>
      simp only [acceptLane, Option.map_eq_some_iff] at h
      obtain ⟨l2, h2, rfl⟩ := h
      have := ih l2 (by simpa [acceptLane] using h2)
      cases s <;> simp [this]

theorem acceptLane_none_indep (x y : Item × Nat) (l : Lane) : acceptLane x l = none → acceptLane y l = none := by
  induction l with
  | nil => intro _; simp [acceptLane]
  | cons s rest ih =>
    cases rest with
    | nil =>
      simp only [acceptLane]
      split <;> simp
    | cons s2 rest2 =>
      simp only [acceptLane, Option.map_eq_none_iff]
      exact ih

theorem acceptLanes_single (x : Item × Nat) (l : Lane) :
    acceptLanes x [l] = (acceptLane x l).map (fun l' => [l']) := by
  simp only [acceptLanes]
  cases acceptLane x l <;> simp

def bItems (b : Bank) : List Item := b.post ++ b.lanes.flatMap laneItems ++ b.dq.map (·.1)

/-- width 1 -/
def W1 (b : Bank) : Prop := ∃ l, b.lanes = [l]

theorem pipe_items (c : Cfg) (b : Bank) (h : W1 b) : bItems (tickBankPipe c b) = bItems b ∧ W1 (tickBankPipe c b) := by
  obtain ⟨l, hl⟩ := h
  have := tickLane_items c b.post l
  constructor
  · simp only [bItems, tickBankPipe, hl, tickLanes, List.flatMap_cons, List.flatMap_nil, List.append_nil]
    rw [this]
  · exact ⟨(tickLane c b.post l).2, by simp [tickBankPipe, hl, tickLanes]⟩

theorem delayGo_items (c : Cfg) (dq : List (Item × Nat)) : ∀ (l : Lane) (rem : List (Item × Nat)),
    ∃ l', (delayGo c dq [l] rem).1 = [l'] ∧
      laneItems l' ++ (delayGo c dq [l] rem).2.map (·.1) = laneItems l ++ rem.map (·.1) ++ dq.map (·.1) := by
  induction dq with
  | nil => intro l rem; exact ⟨l, by simp [delayGo]⟩
  | cons d rest ih =>
    intro l rem
    obtain ⟨it, n⟩ := d
    simp only [delayGo]
    split
    · rename_i hc
      rw [acceptLanes_single]
      cases ha : acceptLane (it, c.lat - 1) l with
      | none =>
        obtain ⟨l', h1, h2⟩ := ih l (rem ++ [(it, n - 1)])
        exact ⟨l', by simpa using h1, by simp at h2 ⊢; rw [h2]⟩
      | some l2 =>
        have hi := acceptLane_items _ _ _ ha
        have hr : rem = [] := by simpa using hc.2
        subst hr
        obtain ⟨l', h1, h2⟩ := ih l2 []
        exact ⟨l', by simpa using h1, by simp at h2 ⊢; rw [h2, hi]; simp⟩
    · obtain ⟨l', h1, h2⟩ := ih l (rem ++ [(it, n - 1)])
      exact ⟨l', h1, by simp at h2 ⊢; rw [h2]⟩

theorem delay_items (c : Cfg) (b : Bank) (h : W1 b) : bItems (tickBankDelay c b) = bItems b ∧ W1 (tickBankDelay c b) := by
  obtain ⟨l, hl⟩ := h
  obtain ⟨l', h1, h2⟩ := delayGo_items c b.dq l []
  constructor
  · simp only [bItems, tickBankDelay, hl, h1, List.flatMap_cons, List.flatMap_nil, List.append_nil, List.append_assoc]
    rw [h2]; simp
  · exact ⟨l', by simp [tickBankDelay, hl, h1]⟩

theorem delay_dq_nil (c : Cfg) (b : Bank) (h : b.dq = []) : (tickBankDelay c b).dq = [] := by
  simp [tickBankDelay, h, delayGo]

def rowMode (c : Cfg) : Prop := c.row > 0 ∧ c.miss > 0
instance (c : Cfg) : Decidable (rowMode c) := by unfold rowMode; infer_instance

/-- a dispatched request is appended at the tail of its bank's chain -/
theorem dispatchBank_items (c : Cfg) (r : Req) (b b' : Bank) (h : W1 b) (hd : ¬ rowMode c → b.dq = [])
    (hb : dispatchBank c r b = some b') :
    bItems b' = bItems b ++ [fresh r] ∧ W1 b' ∧ (¬ rowMode c → b'.dq = []) := by
  obtain ⟨l, hl⟩ := h
  unfold dispatchBank at hb
  by_cases hrm : c.row > 0 ∧ c.miss > 0
  · have hrm' : rowMode c := hrm
    rw [if_pos hrm] at hb
    dsimp only at hb
    by_cases hrow : b.lastRow = some (rowOf c r.addr)
    · rw [if_pos hrow] at hb
      by_cases hdq : b.dq.isEmpty = true
      · have hdq' : b.dq = [] := by simpa using hdq
        rw [if_pos hdq, hl, acceptLanes_single] at hb
        cases ha : acceptLane (fresh r, c.lat - 1) l with
        | none =>
          rw [ha] at hb; simp at hb; subst hb
          exact ⟨by simp [bItems, hl, hdq'], ⟨l, rfl⟩, fun h => absurd hrm' h⟩
        | some l2 =>
          rw [ha] at hb; simp at hb; subst hb
          have hi := acceptLane_items _ _ _ ha
          exact ⟨by simp [bItems, hl, hdq', hi], ⟨l2, rfl⟩, fun h => absurd hrm' h⟩
      · rw [if_neg hdq] at hb; simp at hb; subst hb
        exact ⟨by simp [bItems], ⟨l, hl⟩, fun h => absurd hrm' h⟩
    · rw [if_neg hrow] at hb; simp at hb; subst hb
      exact ⟨by simp [bItems], ⟨l, hl⟩, fun h => absurd hrm' h⟩
  · have hdq := hd hrm
    rw [if_neg hrm, hl, acceptLanes_single] at hb
    cases ha : acceptLane (fresh r, c.lat - 1) l with
    | none => rw [ha] at hb; simp at hb
    | some l2 =>
      rw [ha] at hb; simp at hb; subst hb
      have hi := acceptLane_items _ _ _ ha
      exact ⟨by simp [bItems, hl, hdq, hi], ⟨l2, rfl⟩, fun _ => hdq⟩

/-- whether a bank refuses a request does not depend on the request, and only happens without row tracking -/
theorem dispatchBank_none (c : Cfg) (r r' : Req) (b : Bank) (h : W1 b) (hb : dispatchBank c r b = none) :
    ¬ rowMode c ∧ dispatchBank c r' b = none := by
  obtain ⟨l, hl⟩ := h
  unfold dispatchBank at hb
  by_cases hrm : c.row > 0 ∧ c.miss > 0
  · rw [if_pos hrm] at hb
    dsimp only at hb
    exfalso
    by_cases hrow : b.lastRow = some (rowOf c r.addr)
    · rw [if_pos hrow] at hb
      by_cases hdq : b.dq.isEmpty = true
      · rw [if_pos hdq] at hb
        cases ha : acceptLanes (fresh r, c.lat - 1) b.lanes <;> rw [ha] at hb <;> simp at hb
      · rw [if_neg hdq] at hb; simp at hb
    · rw [if_neg hrow] at hb; simp at hb
  · refine ⟨hrm, ?_⟩
    unfold dispatchBank
    rw [if_neg hrm] at hb ⊢
    rw [hl, acceptLanes_single] at hb ⊢
    cases ha : acceptLane (fresh r, c.lat - 1) l with
    | none => rw [acceptLane_none_indep _ (fresh r', c.lat - 1) _ ha]; simp
    | some l2 => rw [ha] at hb; simp at hb

end C17
