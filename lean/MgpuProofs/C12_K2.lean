import MgpuProofs.C12_K
/-! Helper lemmas for the gate-level view of C12.K (`macroStepK`): every macro move of the
    schedule-forcing harness for k application threads is a finite sequence of `K.step`s. -/
namespace C12
namespace K

/-- `s'` is reached from `s` by some finite schedule of atomic steps -/
def IsRun (s s' : St) : Prop := ∃ ts, runSched s ts = some s'

theorem runSched_append (ts us : List Th) : ∀ (s s1 s2 : St), runSched s ts = some s1 →
    runSched s1 us = some s2 → runSched s (ts ++ us) = some s2 := by
  induction ts with
  | nil => intro s s1 s2 h1 h2; simp [runSched] at h1; subst h1; simpa using h2
  | cons t ts ih =>
    intro s s1 s2 h1 h2
    simp only [runSched, List.cons_append] at h1 ⊢
    cases hstep : step s t with
    | none => simp [hstep] at h1
    | some s3 => simp only [hstep] at h1 ⊢; exact ih s3 s1 s2 h1 h2

theorem IsRun.refl (s : St) : IsRun s s := ⟨[], rfl⟩

theorem IsRun.trans {s s1 s2 : St} (h1 : IsRun s s1) (h2 : IsRun s1 s2) : IsRun s s2 := by
  obtain ⟨ts, h1⟩ := h1
  obtain ⟨us, h2⟩ := h2
  exact ⟨ts ++ us, runSched_append ts us s s1 s2 h1 h2⟩

theorem IsRun.of_step {s s' : St} (t : Th) (h : step s t = some s') : IsRun s s' :=
  ⟨[t], by simp [runSched, h]⟩

theorem tryStep_isRun (s : St) (t : Th) : IsRun s (tryStep s t) := by
  unfold tryStep
  cases h : step s t with
  | none => exact IsRun.refl s
  | some s' => exact IsRun.of_step t h

theorem settleE_isRun (n : Nat) : ∀ s : St, IsRun s (settleE n s) := by
  induction n with
  | zero => intro s; exact IsRun.refl s
  | succ n ih =>
    intro s
    unfold settleE
    split
    · exact IsRun.refl s
    · cases h : step s .eng with
      | none => exact IsRun.refl s
      | some s' => exact IsRun.trans (IsRun.of_step .eng h) (ih s')

theorem serveK_isRun (g : GSt) : IsRun g.st (serveK g).st := by
  unfold serveK
  split
  · split
    · exact IsRun.refl _
    · split
      · exact tryStep_isRun _ _
      · exact IsRun.refl _
  · exact IsRun.refl _

theorem macroApp_isRun (g g' : GSt) (j : Nat) (h : macroApp g j = some g') : IsRun g.st g'.st := by
  unfold macroApp at h
  split at h
  · simp at h
  · cases hs : step g.st (.app j) with
    | none => simp [hs] at h
    | some s1 =>
      simp only [hs] at h
      split at h
      · injection h with h; subst h
        exact IsRun.trans (IsRun.of_step _ hs) (tryStep_isRun _ _)
      · split at h <;> (injection h with h; subst h; exact IsRun.of_step _ hs)

theorem macroStepK_isRun (g g' : GSt) (role : String) (h : macroStepK g role = some g') :
    IsRun g.st g'.st := by
  unfold macroStepK at h
  split at h
  · cases hs : step g.st .async with
    | none => simp [hs] at h
    | some s1 =>
      simp only [hs, Option.map_some] at h
      injection h with h; subst h
      exact IsRun.trans (IsRun.of_step _ hs) (serveK_isRun { g with st := s1 })
  · split at h
    · cases hs : step g.st .eng with
      | none => simp [hs] at h
      | some s1 =>
        simp only [hs, Option.map_some] at h
        injection h with h; subst h
        exact IsRun.trans (IsRun.of_step _ hs) (settleE_isRun _ _)
    · split at h
      · exact macroApp_isRun g g' _ h
      · simp at h

theorem reach_of_runSched (ts : List Th) : ∀ (s s' : St), Reach s → runSched s ts = some s' → Reach s' := by
  induction ts with
  | nil => intro s s' h0 hr; simp [runSched] at hr; subst hr; exact h0
  | cons t ts ih =>
    intro s s' h0 hr
    simp only [runSched] at hr
    cases hstep : step s t with
    | none => simp [hstep] at hr
    | some s1 => simp only [hstep] at hr; exact ih s1 s' (Reach.step t h0 hstep) hr

theorem reach_of_isRun {s s' : St} (h0 : Reach s) (h : IsRun s s') : Reach s' := by
  obtain ⟨ts, h⟩ := h
  exact reach_of_runSched ts s s' h0 h

theorem finalK_reach (roles : List String) : ∀ g : GSt, Reach g.st → Reach (finalK g roles).st := by
  induction roles with
  | nil => intro g h; exact h
  | cons w ws ih =>
    intro g h
    unfold finalK
    cases hm : macroStepK g w with
    | none => exact ih g h
    | some g' => exact ih g' (reach_of_isRun h (macroStepK_isRun g g' w hm))

end K
end C12
