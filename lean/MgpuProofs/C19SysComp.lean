import MgpuProofs.C19SysDefs
/-! # C19 — the closed system: the component moves (`takeG`, `ackG`) and the port moves of one GPU
    keep the shape `GS` / `GIdle` and decrease the measure `gmeas` -/
namespace C19
namespace SY
open CP (Cp Cls K Sub Cmd Ans)

/-! ## lists -/

theorem toks_nil (k : K) (tag : Nat) : toks k tag [] = [] := rfl
theorem toks_cons (k : K) (tag i : Nat) (l : List Nat) : toks k tag (i :: l) = ⟨k, i, tag⟩ :: toks k tag l := rfl
theorem toks_append (k : K) (tag : Nat) (a b : List Nat) : toks k tag (a ++ b) = toks k tag a ++ toks k tag b := by
  simp [toks]
theorem toks_length (k : K) (tag : Nat) (l : List Nat) : (toks k tag l).length = l.length := by simp [toks]
theorem toks_eq_nil {k : K} {tag : Nat} {l : List Nat} : toks k tag l = [] ↔ l = [] := by simp [toks]

theorem eraseIdx_map' {α β : Type} (f : α → β) : ∀ (l : List α) (n : Nat), (l.map f).eraseIdx n = (l.eraseIdx n).map f
  | [], _ => rfl
  | _ :: _, 0 => rfl
  | a :: l, n + 1 => by simp [List.eraseIdx, eraseIdx_map' f l n]

theorem toks_eraseIdx (k : K) (tag : Nat) (l : List Nat) (n : Nat) :
    (toks k tag l).eraseIdx n = toks k tag (l.eraseIdx n) := eraseIdx_map' _ l n

theorem toks_getElem? (k : K) (tag : Nat) (l : List Nat) (n : Nat) :
    (toks k tag l)[n]? = (l[n]?).map fun i => ⟨k, i, tag⟩ := by simp [toks]

/-- the `n`-th element in front of the rest is a permutation -/
theorem perm_cons_eraseIdx' {α : Type} : ∀ (l : List α) (n : Nat) (a : α), l[n]? = some a → (a :: l.eraseIdx n).Perm l
  | [], _, _, h => by simp at h
  | b :: l, 0, a, h => by
    simp at h; subst h; exact List.Perm.refl _
  | b :: l, n + 1, a, h => by
    have h' : l[n]? = some a := by simpa using h
    have ih := perm_cons_eraseIdx' l n a h'
    show (a :: b :: l.eraseIdx n).Perm (b :: l)
    exact (List.Perm.swap b a _).trans (List.Perm.cons b ih)

/-- a token moves from the head of `O` to the end of `P` -/
theorem perm_take {i : Nat} {O P I C L : List Nat} (h : ((i :: O) ++ P ++ I ++ C).Perm L) :
    (O ++ (P ++ [i]) ++ I ++ C).Perm L := by
  refine List.Perm.trans ?_ h
  have e : O ++ (P ++ [i]) ++ I ++ C = (O ++ P) ++ i :: (I ++ C) := by simp
  have e' : (i :: O) ++ P ++ I ++ C = i :: ((O ++ P) ++ (I ++ C)) := by simp
  rw [e, e']; exact List.perm_middle

/-- a token moves from position `n` of `P` to the end of `I` -/
theorem perm_ack {i n : Nat} {O P I C L : List Nat} (hn : P[n]? = some i) (h : (O ++ P ++ I ++ C).Perm L) :
    (O ++ P.eraseIdx n ++ (I ++ [i]) ++ C).Perm L := by
  refine List.Perm.trans ?_ h
  have hp := perm_cons_eraseIdx' P n i hn
  have e : O ++ P.eraseIdx n ++ (I ++ [i]) ++ C = (O ++ P.eraseIdx n ++ I) ++ i :: C := by simp
  have e' : O ++ P ++ I ++ C = O ++ (P ++ (I ++ C)) := by simp
  rw [e, e']
  refine List.perm_middle.trans ?_
  have e2 : i :: (O ++ P.eraseIdx n ++ I ++ C) = (i :: O) ++ (P.eraseIdx n ++ (I ++ C)) := by simp
  rw [e2]
  refine (List.perm_middle (a := i) (l₁ := O) (l₂ := P.eraseIdx n ++ (I ++ C))).symm.trans ?_
  refine List.Perm.append_left O ?_
  show ((i :: P.eraseIdx n) ++ (I ++ C)).Perm (P ++ (I ++ C))
  exact List.Perm.append_right _ hp

theorem mem_filter_ne {i i0 : Nat} {l : List Nat} : i ∈ l.filter (· != i0) ↔ i ∈ l ∧ i ≠ i0 := by
  simp [List.mem_filter]

/-! ## the component orders are duplicate-free -/

theorem mem_seg {a n i : Nat} : i ∈ CP.seg a n ↔ a ≤ i ∧ i < a + n := by
  simp only [CP.seg, List.mem_map, List.mem_range]
  constructor
  · rintro ⟨j, hj, rfl⟩; omega
  · rintro ⟨h1, h2⟩; exact ⟨i - a, by omega, by omega⟩

theorem nodup_seg (a n : Nat) : (CP.seg a n).Nodup := by
  unfold CP.seg List.Nodup
  rw [List.pairwise_map]
  refine List.Pairwise.imp ?_ (List.nodup_range (n := n))
  intro x y hxy h; exact hxy (by omega)

theorem length_seg (a n : Nat) : (CP.seg a n).length = n := by simp [CP.seg]

theorem nodup_ordReset (c : Cp) : c.ordReset.Nodup := by
  unfold Cp.ordReset
  simp only [List.nodup_append, nodup_seg, List.mem_append, mem_seg, true_and]
  refine ⟨⟨?_, ?_⟩, ?_⟩ <;> intros <;> omega

theorem nodup_ordRestart (c : Cp) : c.ordRestart.Nodup := by
  unfold Cp.ordRestart
  simp only [List.nodup_append, nodup_seg, List.mem_append, mem_seg, true_and]
  refine ⟨⟨?_, ?_⟩, ?_⟩ <;> intros <;> omega

theorem length_ordReset (c : Cp) : c.ordReset.length = c.nCache := by
  simp [Cp.ordReset, Cp.nCache, length_seg]; omega

theorem length_ordRestart (c : Cp) : c.ordRestart.length = c.nCache := by
  simp [Cp.ordRestart, Cp.nCache, length_seg]; omega

theorem mem_ordReset {c : Cp} {i : Nat} : i ∈ c.ordReset ↔ i < c.nCache := by
  simp only [Cp.ordReset, Cp.nCache, List.mem_append, mem_seg]; omega

theorem mem_ordRestart {c : Cp} {i : Nat} : i ∈ c.ordRestart ↔ i < c.nCache := by
  simp only [Cp.ordRestart, Cp.nCache, List.mem_append, mem_seg]; omega

theorem nodup_ordOf (c : Cp) (cl : Cls) (k : K) : (ordOf c cl k).Nodup := by
  cases cl <;> cases k <;>
    first
      | exact List.nodup_range
      | exact nodup_ordReset c
      | exact nodup_ordRestart c
      | (show ([0] : List Nat).Nodup; simp)

theorem length_ordOf (c : Cp) (cl : Cls) (k : K) (h : cl ≠ .pmc) : (ordOf c cl k).length = sizeOf c cl := by
  cases cl <;> cases k <;>
    first
      | exact absurd rfl h
      | exact List.length_range
      | exact length_ordReset c
      | exact length_ordRestart c
      | rfl

theorem mem_ordOf {c : Cp} {cl : Cls} {k : K} {i : Nat} (h : cl ≠ .pmc) : i ∈ ordOf c cl k ↔ i < sizeOf c cl := by
  cases cl <;> cases k <;>
    first
      | exact absurd rfl h
      | exact List.mem_range
      | exact mem_ordReset
      | exact mem_ordRestart
      | (show i ∈ ([0] : List Nat) ↔ i < 1; simp)

theorem sizeOf_le_capIn {c : Cp} (hc : CfgOK c) (cl : Cls) : sizeOf c cl ≤ c.capIn := by
  have := hc.capIn
  cases cl <;> simp only [sizeOf] <;> omega

/-! ## buffers of the command processor -/

theorem out_setOut (c : Cp) (cl : Cls) (l : List Sub) : (c.setOut cl l).out cl = l := by cases cl <;> rfl
theorem inn_setIn (c : Cp) (cl : Cls) (l : List Sub) : (c.setIn cl l).inn cl = l := by cases cl <;> rfl

theorem setOut_ne {c : Cp} {cl : Cls} {y : Sub} {rest : List Sub} (h : c.out cl = y :: rest) : c.setOut cl rest ≠ c := by
  intro e
  have := congrArg (fun s => (Cp.out s cl).length) e
  simp [out_setOut, h] at this

theorem setIn_ne (c : Cp) (cl : Cls) (y : Sub) : c.setIn cl (c.inn cl ++ [y]) ≠ c := by
  intro e
  have := congrArg (fun s => (Cp.inn s cl).length) e
  simp [inn_setIn] at this

theorem sameCfg_refl (c : Cp) : SameCfg c c := by simp [SameCfg]
theorem sameCfg_setOut (c : Cp) (cl : Cls) (l : List Sub) : SameCfg c (c.setOut cl l) := by
  cases cl <;> simp [SameCfg, Cp.setOut]
theorem sameCfg_setIn (c : Cp) (cl : Cls) (l : List Sub) : SameCfg c (c.setIn cl l) := by
  cases cl <;> simp [SameCfg, Cp.setIn]

theorem curShoot_setOut (c : Cp) (cl : Cls) (l : List Sub) : (c.setOut cl l).curShoot = c.curShoot := by cases cl <;> rfl
theorem curShoot_setIn (c : Cp) (cl : Cls) (l : List Sub) : (c.setIn cl l).curShoot = c.curShoot := by cases cl <;> rfl
theorem capIn_setIn (c : Cp) (cl : Cls) (l : List Sub) : (c.setIn cl l).capIn = c.capIn := by cases cl <;> rfl
theorem ordOf_setOut (c : Cp) (cl : Cls) (l : List Sub) (cl' : Cls) (k : K) :
    ordOf (c.setOut cl l) cl' k = ordOf c cl' k := by cases cl <;> rfl
theorem ordOf_setIn (c : Cp) (cl : Cls) (l : List Sub) (cl' : Cls) (k : K) :
    ordOf (c.setIn cl l) cl' k = ordOf c cl' k := by cases cl <;> rfl
theorem qFull_setOut (c : Cp) (cl : Cls) (l : List Sub) (rq gq : Bool) (cl' : Cls) (i : Nat) :
    qFull (c.setOut cl l) rq gq cl' i = qFull c rq gq cl' i := by cases cl <;> rfl
theorem qFull_setIn (c : Cp) (cl : Cls) (l : List Sub) (rq gq : Bool) (cl' : Cls) (i : Nat) :
    qFull (c.setIn cl l) rq gq cl' i = qFull c rq gq cl' i := by cases cl <;> rfl
theorem pot_setOut (c : Cp) (cl : Cls) (l : List Sub) : pot (c.setOut cl l) = pot c := by cases cl <;> rfl
theorem pot_setIn (c : Cp) (cl : Cls) (l : List Sub) : pot (c.setIn cl l) = pot c := by cases cl <;> rfl

/-! ## `setTok`, `baseX` -/

theorem out_setTok (b : Cp) (cl : Cls) (k : K) (o i : List Sub) (n : Nat) : (setTok b cl k o i n).out cl = o := by
  cases cl <;> cases k <;> rfl
theorem inn_setTok (b : Cp) (cl : Cls) (k : K) (o i : List Sub) (n : Nat) : (setTok b cl k o i n).inn cl = i := by
  cases cl <;> cases k <;> rfl
theorem out_setTok_ne (b : Cp) {cl cl' : Cls} (k : K) (o i : List Sub) (n : Nat) (h : cl' ≠ cl) :
    (setTok b cl k o i n).out cl' = b.out cl' := by
  cases cl <;> cases k <;> cases cl' <;> first | rfl | exact absurd rfl h
theorem setOut_setTok (b : Cp) (cl : Cls) (k : K) (o i : List Sub) (n : Nat) (o' : List Sub) :
    (setTok b cl k o i n).setOut cl o' = setTok b cl k o' i n := by
  cases cl <;> cases k <;> rfl
theorem setIn_setTok (b : Cp) (cl : Cls) (k : K) (o i : List Sub) (n : Nat) (i' : List Sub) :
    (setTok b cl k o i n).setIn cl i' = setTok b cl k o i' n := by
  cases cl <;> cases k <;> rfl
theorem base_setTok (b : Cp) (cl : Cls) (k : K) (o i : List Sub) (n : Nat) : base (setTok b cl k o i n) = base b := by
  cases cl <;> cases k <;> rfl
theorem baseX_setTok (x : Cmd) (b : Cp) (cl : Cls) (k : K) (o i : List Sub) (n : Nat) :
    baseX x (setTok b cl k o i n) = baseX x b := by
  cases x <;> simp only [baseX, base_setTok]
theorem baseX_idem (x : Cmd) (c : Cp) : baseX x (baseX x c) = baseX x c := by cases x <;> rfl
theorem out_baseX (x : Cmd) (c : Cp) (cl : Cls) : (baseX x c).out cl = [] := by cases x <;> cases cl <;> rfl
theorem drvOut_setTok (b : Cp) (cl : Cls) (k : K) (o i : List Sub) (n : Nat) : (setTok b cl k o i n).drvOut = b.drvOut := by
  cases cl <;> cases k <;> rfl
theorem drvIn_setTok (b : Cp) (cl : Cls) (k : K) (o i : List Sub) (n : Nat) : (setTok b cl k o i n).drvIn = b.drvIn := by
  cases cl <;> cases k <;> rfl
theorem drvOut_baseX (x : Cmd) (c : Cp) : (baseX x c).drvOut = [] := by cases x <;> rfl
theorem drvIn_baseX (x : Cmd) (c : Cp) : (baseX x c).drvIn = [] := by cases x <;> rfl

theorem chain_ne_pmc {x : Cmd} {cl : Cls} {k : K} (h : (cl, k) ∈ chain x) : cl ≠ .pmc := by
  intro e; subst e; cases x <;> simp [chain] at h
theorem chain_ne_junk {x : Cmd} {cl : Cls} {k : K} (h : (cl, k) ∈ chain x) : k ≠ .junk := by
  intro e; subst e; cases x <;> simp [chain] at h

/-- facts read off a token shape -/
theorem tok_out {c b : Cp} {cl : Cls} {k : K} {o i : List Sub} {n : Nat} (h : c = setTok b cl k o i n) : c.out cl = o := by
  subst h; exact out_setTok ..
theorem tok_inn {c b : Cp} {cl : Cls} {k : K} {o i : List Sub} {n : Nat} (h : c = setTok b cl k o i n) : c.inn cl = i := by
  subst h; exact inn_setTok ..
theorem tok_out_ne {c : Cp} {x : Cmd} {cl cl' : Cls} {k : K} {o i : List Sub} {n : Nat}
    (h : c = setTok (baseX x c) cl k o i n) (hne : cl' ≠ cl) : c.out cl' = [] := by
  rw [h, out_setTok_ne _ _ _ _ _ hne, out_baseX]
theorem tok_drvOut {c : Cp} {x : Cmd} {cl : Cls} {k : K} {o i : List Sub} {n : Nat}
    (h : c = setTok (baseX x c) cl k o i n) : c.drvOut = [] := by
  rw [h, drvOut_setTok, drvOut_baseX]
theorem tok_drvIn {c : Cp} {x : Cmd} {cl : Cls} {k : K} {o i : List Sub} {n : Nat}
    (h : c = setTok (baseX x c) cl k o i n) : c.drvIn = [] := by
  rw [h, drvIn_setTok, drvIn_baseX]
theorem tok_pmcOut {c : Cp} {x : Cmd} {cl : Cls} {k : K} {o i : List Sub} {n : Nat}
    (h : c = setTok (baseX x c) cl k o i n) (hne : cl ≠ .pmc) : c.pmcOut = [] :=
  tok_out_ne (cl' := .pmc) h (fun e => hne e.symm)

theorem tok_cp_setOut {x : Cmd} {c : Cp} {cl : Cls} {k : K} {o i : List Sub} {n : Nat}
    (h : c = setTok (baseX x c) cl k o i n) (o' : List Sub) (n' : Nat) (hn : n' = n) :
    c.setOut cl o' = setTok (baseX x (c.setOut cl o')) cl k o' i n' := by
  have e : c.setOut cl o' = setTok (baseX x c) cl k o' i n := by
    rw [← setOut_setTok (o := o), ← h]
  rw [e, baseX_setTok, baseX_idem, hn]

theorem tok_cp_setIn {x : Cmd} {c : Cp} {cl : Cls} {k : K} {o i : List Sub} {n : Nat}
    (h : c = setTok (baseX x c) cl k o i n) (i' : List Sub) (n' : Nat) (hn : n' = n) :
    c.setIn cl i' = setTok (baseX x (c.setIn cl i')) cl k o i' n' := by
  have e : c.setIn cl i' = setTok (baseX x c) cl k o i' n := by
    rw [← setIn_setTok (i := i), ← h]
  rw [e, baseX_setTok, baseX_idem, hn]

/-! ## the components -/

theorem pend_setPend (m : Comps) {cl : Cls} (l : List Sub) (h : cl ≠ .pmc) : (m.setPend cl l).pend cl = l := by
  cases cl <;> first | rfl | exact absurd rfl h
theorem pend_setPend_ne (m : Comps) {cl cl' : Cls} (l : List Sub) (h : cl' ≠ cl) : (m.setPend cl l).pend cl' = m.pend cl' := by
  cases cl <;> cases cl' <;> first | rfl | exact absurd rfl h
theorem quiet_setPend (m : Comps) (cl cl' : Cls) (l : List Sub) : (m.setPend cl l).quiet cl' = m.quiet cl' := by
  cases cl <;> rfl
theorem pend_setQuiet (m : Comps) (cl cl' : Cls) (l : List Nat) : (m.setQuiet cl l).pend cl' = m.pend cl' := by
  cases cl <;> rfl
theorem quiet_setQuiet (m : Comps) {cl : Cls} (l : List Nat) (h : cl ≠ .pmc) : (m.setQuiet cl l).quiet cl = l := by
  cases cl <;> first | rfl | exact absurd rfl h
theorem quiet_setQuiet_ne (m : Comps) {cl cl' : Cls} (l : List Nat) (h : cl' ≠ cl) : (m.setQuiet cl l).quiet cl' = m.quiet cl' := by
  cases cl <;> cases cl' <;> first | rfl | exact absurd rfl h

theorem pend_quietOff (m : Comps) (cl cl' : Cls) (y : Sub) : (quietOff m cl y).pend cl' = m.pend cl' := by
  unfold quietOff; split <;> first | rfl | exact pend_setQuiet ..
theorem pend_quietOn (m : Comps) (cl cl' : Cls) (y : Sub) : (quietOn m cl y).pend cl' = m.pend cl' := by
  unfold quietOn; split <;> first | rfl | exact pend_setQuiet ..
theorem quiet_quietOff_ne (m : Comps) {cl cl' : Cls} (y : Sub) (h : cl' ≠ cl) : (quietOff m cl y).quiet cl' = m.quiet cl' := by
  unfold quietOff; split <;> first | rfl | exact quiet_setQuiet_ne _ _ h
theorem quiet_quietOn_ne (m : Comps) {cl cl' : Cls} (y : Sub) (h : cl' ≠ cl) : (quietOn m cl y).quiet cl' = m.quiet cl' := by
  unfold quietOn; split <;> first | rfl | exact quiet_setQuiet_ne _ _ h
theorem quiet_quietOff (m : Comps) {cl : Cls} (y : Sub) (h : cl ≠ .pmc) :
    (quietOff m cl y).quiet cl = if y.k = .restart then (m.quiet cl).filter (· != y.i) else m.quiet cl := by
  unfold quietOff; split
  · next e => rw [if_pos e, quiet_setQuiet _ _ h]
  · next e => rw [if_neg (by intro e'; exact e e')]
theorem quiet_quietOn (m : Comps) {cl : Cls} (y : Sub) (h : cl ≠ .pmc) :
    (quietOn m cl y).quiet cl = if y.k = .flush then y.i :: m.quiet cl else m.quiet cl := by
  unfold quietOn; split
  · next e => rw [if_pos e, quiet_setQuiet _ _ h]
  · next e => rw [if_neg (by intro e'; exact e e')]

theorem pend_of_pendEmpty {m : Comps} (h : PendEmpty m) (cl : Cls) : m.pend cl = [] := by
  obtain ⟨h1, h2, h3, h4, h5⟩ := h
  cases cl <;> first | assumption | rfl

/-! ## a component takes a sub-request -/

theorem gtok_take {x : Cmd} {cl : Cls} {k : K} {rq gq : Bool} {c : Cp} {m : Comps} {i0 : Nat} {O P I C : List Nat}
    (h : GTok x cl k rq gq c m (i0 :: O) P I C) :
    GTok x cl k rq gq (c.setOut cl (toks k (tagOf x cl k) O))
      (quietOff (m.setPend cl (m.pend cl ++ [⟨k, i0, tagOf x cl k⟩])) cl ⟨k, i0, tagOf x cl k⟩) O (P ++ [i0]) I C := by
  have hne : cl ≠ .pmc := chain_ne_pmc h.ch
  have hnd : (i0 :: O ++ P ++ I ++ C).Nodup := (h.perm.nodup_iff).2 (nodup_ordOf c cl k)
  have hi0 : i0 ∉ O := by
    have : (i0 :: (O ++ P ++ I ++ C)).Nodup := by simpa using hnd
    have := (List.nodup_cons.1 this).1
    intro hm; exact this (by simp [hm])
  refine ⟨h.ch, ?_, ?_, ?_, ?_, ?_, ?_, ?_, ?_⟩
  · exact tok_cp_setOut h.cp _ _ (by simp; omega)
  · intro id e; rw [curShoot_setOut]; exact h.cs id e
  · rw [pend_quietOff, pend_setPend _ _ hne, h.pend, toks_append]; rfl
  · intro cl' hne'; rw [pend_quietOff, pend_setPend_ne _ _ hne', h.pe cl' hne']
  · rw [ordOf_setOut]; exact perm_take h.perm
  · have := h.ne; simp at this ⊢; omega
  · intro i
    rw [quiet_quietOff _ _ hne, quiet_setPend]
    have hq := h.qa i
    by_cases hk : k = .flush
    · subst hk; simpa using hq
    · rw [if_neg hk] at hq
      have hk' : k = .restart := by
        have := chain_ne_junk h.ch
        cases k <;> simp_all
      subst hk'
      simp only [if_true, mem_filter_ne, hq]
      simp only [if_neg hk, List.mem_cons]
      constructor
      · rintro ⟨h1 | h1, h2⟩
        · exact absurd h1 h2
        · exact h1
      · intro h1; exact ⟨Or.inr h1, fun e => hi0 (e ▸ h1)⟩
  · intro cl' i hne'
    rw [quiet_quietOff_ne _ _ hne', quiet_setPend, qFull_setOut]; exact h.qo cl' i hne'

theorem gs_take {x : Cmd} {loc : BLoc} {rq gq : Bool} {c : Cp} {m : Comps} {cl : Cls} {y : Sub} {rest : List Sub}
    (h : GS x loc rq gq c m) (hne : cl ≠ .pmc) (ho : c.out cl = y :: rest) :
    GS x loc rq gq (c.setOut cl rest) (quietOff (m.setPend cl (m.pend cl ++ [y])) cl y) := by
  obtain ⟨hp, h⟩ := h
  cases loc with
  | tok cl0 k =>
    obtain ⟨O, P, I, C, g⟩ := h
    by_cases e : cl = cl0
    · subst e
      rw [tok_out g.cp] at ho
      cases O with
      | nil => simp [toks] at ho
      | cons i0 O =>
        rw [toks_cons] at ho
        injection ho with h1 h2
        subst h1 h2
        exact ⟨hp, O, P ++ [i0], I, C, gtok_take g⟩
    · rw [tok_out_ne g.cp e] at ho; cases ho
  | cmd =>
    have hnil : c.out cl = [] := by rw [h.1]; cases cl <;> first | rfl | exact absurd rfl hne
    rw [hnil] at ho; cases ho
  | pmcOut =>
    obtain ⟨⟨id, _, h1⟩, _⟩ := h
    have hnil : c.out cl = [] := by rw [h1]; cases cl <;> first | rfl | exact absurd rfl hne
    rw [hnil] at ho; cases ho
  | pmcWait =>
    have hnil : c.out cl = [] := by rw [h.2.1]; cases cl <;> first | rfl | exact absurd rfl hne
    rw [hnil] at ho; cases ho
  | pmcIn =>
    have hnil : c.out cl = [] := by rw [h.2.1]; cases cl <;> first | rfl | exact absurd rfl hne
    rw [hnil] at ho; cases ho
  | ans =>
    have hnil : c.out cl = [] := by rw [h.1]; cases cl <;> first | rfl | exact absurd rfl hne
    rw [hnil] at ho; cases ho

/-! ## a sub-request is acknowledged -/

theorem gtok_room {x : Cmd} {cl : Cls} {k : K} {rq gq : Bool} {c : Cp} {m : Comps} {O P I C : List Nat}
    (hc : CfgOK c) (h : GTok x cl k rq gq c m O P I C) (hP : 0 < P.length) : (c.inn cl).length < c.capIn := by
  have hne : cl ≠ .pmc := chain_ne_pmc h.ch
  have h1 := h.perm.length_eq
  rw [length_ordOf c cl k hne] at h1
  have h2 := sizeOf_le_capIn hc cl
  rw [tok_inn h.cp, toks_length]
  simp at h1; omega

theorem gtok_ack {x : Cmd} {cl : Cls} {k : K} {rq gq : Bool} {c : Cp} {m : Comps} {i0 n : Nat} {O P I C : List Nat}
    (h : GTok x cl k rq gq c m O P I C) (hn : P[n]? = some i0) :
    GTok x cl k rq gq (c.setIn cl (c.inn cl ++ [⟨k, i0, 0⟩]))
      (quietOn (m.setPend cl ((m.pend cl).eraseIdx n)) cl ⟨k, i0, tagOf x cl k⟩) O (P.eraseIdx n) (I ++ [i0]) C := by
  have hne : cl ≠ .pmc := chain_ne_pmc h.ch
  have hlt : n < P.length := by
    rcases Nat.lt_or_ge n P.length with h1 | h1
    · exact h1
    · rw [List.getElem?_eq_none h1] at hn; cases hn
  refine ⟨h.ch, ?_, ?_, ?_, ?_, ?_, ?_, ?_, ?_⟩
  · rw [tok_inn h.cp]
    have := tok_cp_setIn h.cp (toks k 0 I ++ [⟨k, i0, 0⟩]) (O.length + (P.eraseIdx n).length + (I ++ [i0]).length)
      (by rw [List.length_eraseIdx_of_lt hlt]; simp; omega)
    rw [toks_append]; exact this
  · intro id e; rw [curShoot_setIn]; exact h.cs id e
  · rw [pend_quietOn, pend_setPend _ _ hne, h.pend, toks_eraseIdx]
  · intro cl' hne'; rw [pend_quietOn, pend_setPend_ne _ _ hne', h.pe cl' hne']
  · rw [ordOf_setIn]; exact perm_ack hn h.perm
  · simp; omega
  · intro i
    rw [quiet_quietOn _ _ hne, quiet_setPend]
    have hq := h.qa i
    by_cases hk : k = .flush
    · subst hk
      simp only [if_true, List.mem_cons, hq, List.mem_append]
      simp only [List.mem_nil_iff, or_false]
      constructor
      · rintro (h1 | h1 | h1)
        · exact Or.inl (Or.inr h1)
        · exact Or.inl (Or.inl h1)
        · exact Or.inr h1
      · rintro ((h1 | h1) | h1)
        · exact Or.inr (Or.inl h1)
        · exact Or.inl h1
        · exact Or.inr (Or.inr h1)
    · simp only [if_neg hk] at hq ⊢; exact hq
  · intro cl' i hne'
    rw [quiet_quietOn_ne _ _ hne', quiet_setPend, qFull_setIn]; exact h.qo cl' i hne'

theorem gs_ack {x : Cmd} {loc : BLoc} {rq gq : Bool} {c : Cp} {m : Comps} {cl : Cls} {n : Nat} {y : Sub}
    (hc : CfgOK c) (h : GS x loc rq gq c m) (hy : (m.pend cl)[n]? = some y) :
    (c.inn cl).length < c.capIn ∧
    GS x loc rq gq (c.setIn cl (c.inn cl ++ [⟨y.k, y.i, 0⟩])) (quietOn (m.setPend cl ((m.pend cl).eraseIdx n)) cl y) := by
  obtain ⟨hp, h⟩ := h
  cases loc with
  | tok cl0 k =>
    obtain ⟨O, P, I, C, g⟩ := h
    by_cases e : cl = cl0
    · subst e
      rw [g.pend, toks_getElem?] at hy
      cases hP : P[n]? with
      | none => rw [hP] at hy; cases hy
      | some i0 =>
        rw [hP] at hy
        have hy' : y = ⟨k, i0, tagOf x cl k⟩ := by simpa using hy.symm
        subst hy'
        have hlt : 0 < P.length := by
          cases P with
          | nil => simp at hP
          | cons _ _ => simp
        exact ⟨gtok_room hc g hlt, hp, O, P.eraseIdx n, I ++ [i0], C, gtok_ack g hP⟩
    · rw [g.pe cl e] at hy; simp at hy
  | cmd => rw [pend_of_pendEmpty h.2.1] at hy; simp at hy
  | pmcOut => rw [pend_of_pendEmpty h.2.1] at hy; simp at hy
  | pmcWait => rw [pend_of_pendEmpty h.2.2.1] at hy; simp at hy
  | pmcIn => rw [pend_of_pendEmpty h.2.2.1] at hy; simp at hy
  | ans => rw [pend_of_pendEmpty h.2.1] at hy; simp at hy

/-! ## the measure -/

theorem wCmd_setOut (c : Cp) (cl : Cls) (l : List Sub) (wm : Nat → Nat) : wCmd (c.setOut cl l) wm = wCmd c wm := by
  cases cl <;> rfl
theorem wCmd_setIn (c : Cp) (cl : Cls) (l : List Sub) (wm : Nat → Nat) : wCmd (c.setIn cl l) wm = wCmd c wm := by
  cases cl <;> rfl

theorem gmeas_take (wm : Nat → Nat) (c : Cp) (m : Comps) {cl : Cls} {y : Sub} {rest : List Sub}
    (hne : cl ≠ .pmc) (ho : c.out cl = y :: rest) :
    gmeas wm (c.setOut cl rest) (quietOff (m.setPend cl (m.pend cl ++ [y])) cl y) + 1 = gmeas wm c m := by
  unfold gmeas
  rw [pot_setOut, wCmd_setOut]
  cases cl <;> first
    | exact absurd rfl hne
    | (simp only [Cp.out] at ho
       cases hk : y.k <;>
         simp [wTok, Cp.setOut, Comps.setPend, Comps.pend, quietOff, hk, Comps.setQuiet, Comps.quiet, ho] <;>
         omega)

theorem gmeas_ack (wm : Nat → Nat) (c : Cp) (m : Comps) {cl : Cls} {n : Nat} {y z : Sub}
    (hy : (m.pend cl)[n]? = some y) :
    gmeas wm (c.setIn cl (c.inn cl ++ [z])) (quietOn (m.setPend cl ((m.pend cl).eraseIdx n)) cl y) + 1 = gmeas wm c m := by
  have hlt : n < (m.pend cl).length := by
    rcases Nat.lt_or_ge n (m.pend cl).length with h1 | h1
    · exact h1
    · rw [List.getElem?_eq_none h1] at hy; cases hy
  have hl := List.length_eraseIdx_of_lt hlt
  unfold gmeas
  rw [pot_setIn, wCmd_setIn]
  cases cl <;> first
    | (simp [Comps.pend] at hy; done)
    | (simp only [Comps.pend] at hl hlt
       cases hk : y.k <;>
         simp [wTok, Cp.setIn, Cp.inn, Comps.setPend, Comps.pend, quietOn, hk, Comps.setQuiet, Comps.quiet, hl] <;>
         omega)

/-! ## `takeG`, `ackG` unfolded -/

theorem takeG_pmc (c : Cp) (m : Comps) : takeG c m .pmc = (c, m) := by simp [takeG]
theorem takeG_nil {c : Cp} {cl : Cls} (m : Comps) (h : c.out cl = []) : takeG c m cl = (c, m) := by
  unfold takeG; split
  · rfl
  · rw [h]
theorem takeG_cons {c : Cp} {cl : Cls} {y : Sub} {rest : List Sub} (m : Comps) (hne : cl ≠ .pmc) (h : c.out cl = y :: rest) :
    takeG c m cl = (c.setOut cl rest, quietOff (m.setPend cl (m.pend cl ++ [y])) cl y) := by
  unfold takeG; rw [if_neg hne, h]
theorem ackG_none {m : Comps} {cl : Cls} {j : Nat} (c : Cp) (h : (m.pend cl)[j % (m.pend cl).length]? = none) :
    ackG c m cl j = (c, m) := by
  unfold ackG; simp only [h]
theorem ackG_some {c : Cp} {m : Comps} {cl : Cls} {j : Nat} {y : Sub} (h : (m.pend cl)[j % (m.pend cl).length]? = some y)
    (hr : (c.inn cl).length < c.capIn) :
    ackG c m cl j = (c.setIn cl (c.inn cl ++ [⟨y.k, y.i, 0⟩]),
      quietOn (m.setPend cl ((m.pend cl).eraseIdx (j % (m.pend cl).length))) cl y) := by
  unfold ackG; simp only [h, hr, if_true]
theorem ackG_full {c : Cp} {m : Comps} {cl : Cls} {j : Nat} {y : Sub} (h : (m.pend cl)[j % (m.pend cl).length]? = some y)
    (hr : ¬ (c.inn cl).length < c.capIn) : ackG c m cl j = (c, m) := by
  unfold ackG; simp only [h, hr, if_false]

/-- read a field off a shape equation -/
theorem fld {α : Type} {c c' : Cp} (f : Cp → α) (h : c = c') {v : α} (hv : f c' = v) : f c = v := h ▸ hv

/-! ## the statements -/

theorem sameCfg_takeG (c : Cp) (m : Comps) (cl : Cls) : SameCfg c (takeG c m cl).1 := by
  by_cases hpmc : cl = .pmc
  · subst hpmc; rw [takeG_pmc]; exact sameCfg_refl c
  · rcases ho : c.out cl with _ | ⟨y, rest⟩
    · rw [takeG_nil m ho]; exact sameCfg_refl c
    · rw [takeG_cons m hpmc ho]; exact sameCfg_setOut ..

theorem sameCfg_ackG (c : Cp) (m : Comps) (cl : Cls) (j : Nat) : SameCfg c (ackG c m cl j).1 := by
  rcases hy : (m.pend cl)[j % (m.pend cl).length]? with _ | y
  · rw [ackG_none c hy]; exact sameCfg_refl c
  · by_cases hr : (c.inn cl).length < c.capIn
    · rw [ackG_some hy hr]; exact sameCfg_setIn ..
    · rw [ackG_full hy hr]; exact sameCfg_refl c

/-- nothing to take / acknowledge at an idle GPU -/
theorem idle_takeG {rq gq : Bool} {c : Cp} {m : Comps} (h : GIdle rq gq c m) (cl : Cls) : takeG c m cl = (c, m) := by
  apply takeG_nil
  rw [h.cp]; cases cl <;> rfl
theorem idle_ackG {rq gq : Bool} {c : Cp} {m : Comps} (h : GIdle rq gq c m) (cl : Cls) (j : Nat) : ackG c m cl j = (c, m) := by
  apply ackG_none
  rw [pend_of_pendEmpty h.pe]; rfl

/-- a component taking a sub-request keeps the shape (same location); the measure decreases unless
    nothing was taken -/
theorem busy_takeG {x : Cmd} {loc : BLoc} {rq gq : Bool} {c : Cp} {m : Comps} (wm : Nat → Nat) (cl : Cls)
    (hc : CfgOK c) (h : GS x loc rq gq c m) :
    GS x loc rq gq (takeG c m cl).1 (takeG c m cl).2 ∧
    (takeG c m cl = (c, m) ∨ gmeas wm (takeG c m cl).1 (takeG c m cl).2 < gmeas wm c m) ∧
    (cl ≠ .pmc → c.out cl ≠ [] → takeG c m cl ≠ (c, m)) := by
  have _ := hc
  by_cases hpmc : cl = .pmc
  · subst hpmc; rw [takeG_pmc]; exact ⟨h, Or.inl rfl, fun h' => absurd rfl h'⟩
  · rcases ho : c.out cl with _ | ⟨y, rest⟩
    · rw [takeG_nil m ho]; exact ⟨h, Or.inl rfl, fun _ h' => absurd rfl h'⟩
    · rw [takeG_cons m hpmc ho]
      refine ⟨gs_take h hpmc ho, Or.inr ?_, fun _ _ e => setOut_ne ho (congrArg Prod.fst e)⟩
      exact Nat.lt_of_lt_of_eq (Nat.lt_add_one _) (gmeas_take wm c m hpmc ho)

/-- an acknowledgement keeps the shape (same location); there is always room for it -/
theorem busy_ackG {x : Cmd} {loc : BLoc} {rq gq : Bool} {c : Cp} {m : Comps} (wm : Nat → Nat) (cl : Cls) (j : Nat)
    (hc : CfgOK c) (h : GS x loc rq gq c m) :
    GS x loc rq gq (ackG c m cl j).1 (ackG c m cl j).2 ∧
    (ackG c m cl j = (c, m) ∨ gmeas wm (ackG c m cl j).1 (ackG c m cl j).2 < gmeas wm c m) ∧
    (m.pend cl ≠ [] → ackG c m cl j ≠ (c, m)) := by
  rcases hy : (m.pend cl)[j % (m.pend cl).length]? with _ | y
  · rw [ackG_none c hy]
    refine ⟨h, Or.inl rfl, fun hne => ?_⟩
    exfalso
    have h1 : j % (m.pend cl).length < (m.pend cl).length := Nat.mod_lt _ (List.length_pos_iff.2 hne)
    rw [List.getElem?_eq_none_iff] at hy
    omega
  · obtain ⟨hr, hg⟩ := gs_ack hc h hy
    rw [ackG_some hy hr]
    refine ⟨hg, Or.inr ?_, fun _ e => setIn_ne _ _ _ (congrArg Prod.fst e)⟩
    exact Nat.lt_of_lt_of_eq (Nat.lt_add_one _) (gmeas_ack wm c m (z := CP.Sub.mk y.k y.i 0) hy)

/-- the command arrives at an idle GPU -/
theorem idle_recv {x : Cmd} {rq gq : Bool} {c : Cp} {m : Comps} (hc : CfgOK c) (h : GIdle rq gq c m) (hp : Pre x rq gq) :
    c.drvIn.length < c.capIn ∧ GS x .cmd rq gq { c with drvIn := c.drvIn ++ [x] } m := by
  have hd : c.drvIn = [] := fld Cp.drvIn h.cp rfl
  refine ⟨by rw [hd]; have := hc.capIn; simp; omega, hp, ?_, h.pe, h.qs⟩
  conv => lhs; rw [h.cp]
  rfl

/-- only a GPU whose command has been served holds an answer; taking it leaves the GPU idle with the flags after the command -/
theorem busy_drvOut {x : Cmd} {loc : BLoc} {rq gq : Bool} {c : Cp} {m : Comps} (h : GS x loc rq gq c m) :
    (c.drvOut = [] ∧ loc ≠ .ans) ∨
    (loc = .ans ∧ c.drvOut = [ansOf x] ∧ GIdle (after x rq gq).1 (after x rq gq).2 { c with drvOut := [] } m) := by
  obtain ⟨hp, h⟩ := h
  cases loc with
  | cmd => left; exact ⟨fld Cp.drvOut h.1 rfl, by simp⟩
  | tok cl k => obtain ⟨O, P, I, C, g⟩ := h; left; exact ⟨tok_drvOut g.cp, by simp⟩
  | pmcOut => obtain ⟨⟨id, _, h1⟩, _⟩ := h; left; exact ⟨fld Cp.drvOut h1 rfl, by simp⟩
  | pmcWait => left; exact ⟨fld Cp.drvOut h.2.1 rfl, by simp⟩
  | pmcIn => left; exact ⟨fld Cp.drvOut h.2.1 rfl, by simp⟩
  | ans =>
    right
    refine ⟨rfl, fld Cp.drvOut h.1 rfl, ?_, h.2.1, h.2.2⟩
    conv => lhs; rw [h.1]
    rfl

theorem idle_drvOut {rq gq : Bool} {c : Cp} {m : Comps} (h : GIdle rq gq c m) : c.drvOut = [] ∧ c.pmcOut = [] ∧ c.drvIn = [] := by
  exact ⟨fld Cp.drvOut h.cp rfl, fld Cp.pmcOut h.cp rfl, fld Cp.drvIn h.cp rfl⟩

/-- the PMC port: a request waits there exactly in location `pmcOut`; taking it gives `pmcWait` -/
theorem busy_pmcOut {x : Cmd} {loc : BLoc} {rq gq : Bool} {c : Cp} {m : Comps} (h : GS x loc rq gq c m) :
    (c.pmcOut = [] ∧ loc ≠ .pmcOut) ∨
    (loc = .pmcOut ∧ ∃ id, x = .mig id ∧ c.pmcOut = [⟨.flush, 0, id⟩] ∧ GS x .pmcWait rq gq { c with pmcOut := [] } m) := by
  obtain ⟨hp, h⟩ := h
  cases loc with
  | cmd => left; exact ⟨fld Cp.pmcOut h.1 rfl, by simp⟩
  | tok cl k => obtain ⟨O, P, I, C, g⟩ := h; left; exact ⟨tok_pmcOut g.cp (chain_ne_pmc g.ch), by simp⟩
  | pmcOut =>
    obtain ⟨⟨id, hx, h1⟩, hpe, hqs⟩ := h
    right
    refine ⟨rfl, id, hx, fld Cp.pmcOut h1 rfl, hp, ⟨id, hx⟩, ?_, hpe, hqs⟩
    conv => lhs; rw [h1]
    rfl
  | pmcWait => left; exact ⟨fld Cp.pmcOut h.2.1 rfl, by simp⟩
  | pmcIn => left; exact ⟨fld Cp.pmcOut h.2.1 rfl, by simp⟩
  | ans => left; exact ⟨fld Cp.pmcOut h.1 rfl, by simp⟩

/-- the completion arrives: `pmcWait` becomes `pmcIn` -/
theorem busy_pmcBack {x : Cmd} {rq gq : Bool} {c : Cp} {m : Comps} (hc : CfgOK c) (h : GS x .pmcWait rq gq c m) :
    c.pmcIn.length < c.capIn ∧ GS x .pmcIn rq gq { c with pmcIn := c.pmcIn ++ [⟨.flush, 0, 0⟩] } m := by
  obtain ⟨hp, hx, h1, hpe, hqs⟩ := h
  have hd : c.pmcIn = [] := fld Cp.pmcIn h1 rfl
  refine ⟨by rw [hd]; have := hc.capIn; simp; omega, hp, hx, ?_, hpe, hqs⟩
  conv => lhs; rw [h1]
  rfl

/-- measure bookkeeping of these moves -/
theorem gmeas_recv (wm : Nat → Nat) (c : Cp) (m : Comps) (x : Cmd) :
    gmeas wm { c with drvIn := c.drvIn ++ [x] } m = gmeas wm c m + wCmd c wm x := by
  have h1 : pot { c with drvIn := c.drvIn ++ [x] } = pot c := rfl
  have h2 : wCmd { c with drvIn := c.drvIn ++ [x] } wm = wCmd c wm := rfl
  unfold gmeas
  rw [h1, h2]
  simp only [List.map_append, List.sum_append, List.map_cons, List.map_nil, List.sum_cons, List.sum_nil]
  omega
theorem gmeas_drvOut (wm : Nat → Nat) (c : Cp) (m : Comps) (a : Ans) (rest : List Ans) (h : c.drvOut = a :: rest) :
    gmeas wm { c with drvOut := rest } m + 2 = gmeas wm c m := by
  have h1 : pot { c with drvOut := rest } = pot c := rfl
  have h2 : wCmd { c with drvOut := rest } wm = wCmd c wm := rfl
  unfold gmeas
  rw [h1, h2, h]
  simp only [List.length_cons]
  omega
theorem gmeas_pmcOut (wm : Nat → Nat) (c : Cp) (m : Comps) (x : Sub) (rest : List Sub) (h : c.pmcOut = x :: rest) :
    gmeas wm { c with pmcOut := rest } m + wm x.tag = gmeas wm c m := by
  have h1 : pot { c with pmcOut := rest } = pot c := rfl
  have h2 : wCmd { c with pmcOut := rest } wm = wCmd c wm := rfl
  unfold gmeas
  rw [h1, h2, h]
  simp only [List.map_cons, List.sum_cons]
  omega
theorem gmeas_pmcIn (wm : Nat → Nat) (c : Cp) (m : Comps) (x : Sub) :
    gmeas wm { c with pmcIn := c.pmcIn ++ [x] } m = gmeas wm c m + 3 := by
  have h1 : pot { c with pmcIn := c.pmcIn ++ [x] } = pot c := rfl
  have h2 : wCmd { c with pmcIn := c.pmcIn ++ [x] } wm = wCmd c wm := rfl
  unfold gmeas
  rw [h1, h2]
  simp only [List.length_append, List.length_cons, List.length_nil]
  omega

theorem qs_quiet {rq gq : Bool} {c : Cp} {m : Comps} (h : QS c m rq gq) :
    (rq = true → 0 ∈ m.qRdma) ∧ (gq = true → (∀ i, i < c.nCU → i ∈ m.qCU) ∧ (∀ i, i < c.nAT → i ∈ m.qAT) ∧
      (∀ i, i < c.nCache → i ∈ m.qCache) ∧ (∀ i, i < c.nTLB → i ∈ m.qTLB)) :=
  ⟨fun hr => (h .rdma 0).2 (show rq = true ∧ 0 = 0 from ⟨hr, rfl⟩),
   fun hg => ⟨fun i hi => (h .cu i).2 (show gq = true ∧ i < c.nCU from ⟨hg, hi⟩),
              fun i hi => (h .at i).2 (show gq = true ∧ i < c.nAT from ⟨hg, hi⟩),
              fun i hi => (h .cache i).2 (show gq = true ∧ i < c.nCache from ⟨hg, hi⟩),
              fun i hi => (h .tlb i).2 (show gq = true ∧ i < c.nTLB from ⟨hg, hi⟩)⟩⟩

/-- the quiet sets read off a shape: an idle GPU with both flags set has every component quiet -/
theorem idle_quiet {rq gq : Bool} {c : Cp} {m : Comps} (h : GIdle rq gq c m) :
    (rq = true → 0 ∈ m.qRdma) ∧ (gq = true → (∀ i, i < c.nCU → i ∈ m.qCU) ∧ (∀ i, i < c.nAT → i ∈ m.qAT) ∧
      (∀ i, i < c.nCache → i ∈ m.qCache) ∧ (∀ i, i < c.nTLB → i ∈ m.qTLB)) := qs_quiet h.qs
/-- … and so has a GPU that serves a migrate command (at any location) -/
theorem mig_quiet {id : Nat} {loc : BLoc} {rq gq : Bool} {c : Cp} {m : Comps} (h : GS (.mig id) loc rq gq c m) :
    (rq = true → 0 ∈ m.qRdma) ∧ (gq = true → (∀ i, i < c.nCU → i ∈ m.qCU) ∧ (∀ i, i < c.nAT → i ∈ m.qAT) ∧
      (∀ i, i < c.nCache → i ∈ m.qCache) ∧ (∀ i, i < c.nTLB → i ∈ m.qTLB)) := by
  obtain ⟨hp, h⟩ := h
  cases loc with
  | cmd => exact qs_quiet h.2.2
  | tok cl k => obtain ⟨O, P, I, C, g⟩ := h; have := g.ch; simp [chain] at this
  | pmcOut => exact qs_quiet h.2.2
  | pmcWait => exact qs_quiet h.2.2.2
  | pmcIn => exact qs_quiet h.2.2.2
  | ans => exact qs_quiet h.2.2

end SY
end C19
