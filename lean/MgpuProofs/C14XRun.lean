import MgpuProofs.C14XFlush
import MgpuProofs.C14XSamp
/-! # C14 — the combined invariant along every run of the compute-unit machine -/
namespace C14

theorem XInit_XInv {x : XState} (h : XInit x) : XInv x where
  inv := Init_Inv h.base
  ns := (Init_NS h.base).1
  rng := (Init_NS h.base).2
  cinv := ⟨by rw [h.sent]; exact List.nodup_nil, by intro g hg; rw [h.sent] at hg; cases hg⟩
  dinv := Init_DInv h.base
  pool := fun w hw _ => h.pool w hw
  sinv := XInit_SInv h

theorem xstep_XInv {c : Cfg} (hA : c.fixA = true) (hB : c.fixB = true) {x : XState} {o : XOp} (h : XInv x)
    (hl : xlegal x o = true) : XInv (xstep c x o).1 := by
  cases o with
  | base o =>
    have hl' : legal x.s o = true := hl
    have hn := step_NS hA hB h.inv ⟨h.ns, h.rng⟩ hl'
    exact
      { inv := step_Inv hA hB h.inv hl'
        ns := hn.1
        rng := hn.2
        cinv := step_CInv hA hB h.inv h.cinv hl'
        dinv := step_DInv hA hB h.inv h.dinv hl'
        pool := step_PoolInv h.inv h.pool hl'
        sinv := SInv_frame h.sinv (step_sent_from c x.s o) (fun g hg => step_sent_mono c x.s o hg)
          (step_wg_from c x.s o) }
  | flush =>
    have hn := flush_NS ⟨h.ns, h.rng⟩
    exact
      { inv := flush_Inv h.inv h.rng
        ns := hn.1
        rng := hn.2
        cinv := flush_CInv h.cinv
        dinv := flush_DInv h.dinv
        pool := flush_PoolInv h.pool
        sinv := SInv_frame (s' := schedFlush x.s) h.sinv (fun g hg => Or.inl hg) (fun g hg => hg)
          (by
            intro u' hu'
            simp only [schedFlush, List.mem_map] at hu'
            obtain ⟨u, hu, rfl⟩ := hu'
            exact ⟨u, hu, flushWf_wg u⟩) }
  | fire i =>
    have hi : i ∈ x.evq := by simpa [xlegal] using hl
    have hc : x.evq.contains i = true := hl
    have e : (xstep c x (.fire i)).1 = (fireS c x i).1 := by
      simp only [xstep, hc, if_true]
    rw [e]
    obtain ⟨f1, f2, _, f4⟩ := fire_frame c x i
    exact
      { inv := LInv.congr h.inv f1 f2 f4
        ns := NS_congr h.ns f1
        rng := Rng_congr h.rng f1
        cinv := fire_CInv h.sinv h.cinv hi
        dinv := fire_DInv h.dinv
        pool := xfl_PoolInv_congr h.pool f1
        sinv := fire_SInv h.sinv hi }

theorem xrun_XInv {c : Cfg} (hA : c.fixA = true) (hB : c.fixB = true) (ops : List XOp) {x : XState} (h : XInv x)
    (hl : xlegalRun c x ops = true) : XInv (xrun c x ops) := by
  unfold xrun
  induction ops generalizing x with
  | nil => exact h
  | cons o ops ih =>
    simp only [xlegalRun, Bool.and_eq_true] at hl
    exact ih (xstep_XInv hA hB h hl.1) hl.2

theorem xrun_append (c : Cfg) (x : XState) (a b : List XOp) : xrun c x (a ++ b) = xrun c (xrun c x a) b := by
  unfold xrun; rw [List.foldl_append]

/-- the scheduler component of a run of base events is the scheduler's run -/
theorem xrun_base (c : Cfg) (ops : List Op) (x : XState) :
    (xrun c x (ops.map XOp.base)).s = run c x.s ops ∧ (xrun c x (ops.map XOp.base)).sw = x.sw ∧
    (xrun c x (ops.map XOp.base)).evq = x.evq := by
  unfold xrun run
  induction ops generalizing x with
  | nil => exact ⟨rfl, rfl, rfl⟩
  | cons o ops ih =>
    simp only [List.map_cons, List.foldl_cons]
    have := ih (x := (xstep c x (.base o)).1)
    exact this

theorem xlegalRun_base (c : Cfg) (ops : List Op) (x : XState) :
    xlegalRun c x (ops.map XOp.base) = legalRun c x.s ops := by
  induction ops generalizing x with
  | nil => rfl
  | cons o ops ih =>
    simp only [List.map_cons, xlegalRun, legalRun]
    rw [ih]
    rfl

end C14
