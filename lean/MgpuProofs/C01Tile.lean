import MgpuProofs.C01Bar
/-! # C01 — one tile of `matrixTranspose` through LDS (amdappsdk/matrixtranspose, 16x16 work-items, 4x4 floats each)

The data movement of one work-group of the shipped kernel (native/MatrixTranspose_Kernels.cl), as byte-write
descriptions of its four wavefronts in the two phases around the `S_BARRIER`:

```
 phase 1   block[liy*64 + lix + 16 r]            = input[ix + iy*wiWidth*4 + r*wiWidth]       r = 0..3   (float4 units)
 phase 2   v_r = block[lix*64 + liy + 16 r]
           output[ix' + iy'*wiHeight*4 + c*wiHeight] = (v_0[c], v_1[c], v_2[c], v_3[c])       c = 0..3
 with ix = gix*16 + lix, iy = giy*16 + liy, ix' = giy*16 + lix, iy' = gix*16 + liy
```

`lds_content`: after phase 1 of ALL four wavefronts the LDS holds the 64x64-float input tile row by row.
`tile_algebra`: applying the phase-2 writes (which read that LDS content) to any memory puts the TRANSPOSED tile
into the output matrix — float (R, C) of the output tile = float (C, R) of the input tile, byte for byte — and
changes no other byte.  Both for every tile position, matrix width / height, addresses and memory content. -/
set_option linter.unusedSimpArgs false
set_option linter.unusedVariables false
namespace C01
namespace Emu
namespace TT

/-! ## `applyWrites` look-ups (local copies of the helpers of C01CopyGrid, to keep this file light) -/

theorem aw_not_key (ps : List (Nat × Nat)) (f : Nat → Nat) (a : Nat) (h : ∀ p ∈ ps, p.1 ≠ a) :
    applyWrites ps f a = f a := by
  induction ps generalizing f with
  | nil => rfl
  | cons p ps ih =>
    show applyWrites ps (fun x => if x = p.1 then p.2 else f x) a = f a
    rw [ih _ (fun q hq => h q (List.mem_cons_of_mem _ hq))]
    have : ¬ a = p.1 := fun e => h p (List.mem_cons_self ..) e.symm
    simp [this]

theorem aw_consistent (ps : List (Nat × Nat)) (a v : Nat) (hall : ∀ p ∈ ps, p.1 = a → p.2 = v) :
    ∀ f, applyWrites ps f a = if (∃ p ∈ ps, p.1 = a) then v else f a := by
  induction ps with
  | nil => intro f; simp [applyWrites]
  | cons p ps ih =>
    intro f
    show applyWrites ps (fun x => if x = p.1 then p.2 else f x) a = _
    rw [ih (fun q hq => hall q (List.mem_cons_of_mem _ hq))]
    by_cases hex : ∃ q ∈ ps, q.1 = a
    · have : ∃ q ∈ p :: ps, q.1 = a := by
        obtain ⟨q, hq, e⟩ := hex
        exact ⟨q, List.mem_cons_of_mem _ hq, e⟩
      rw [if_pos hex, if_pos this]
    · rw [if_neg hex]
      by_cases hp : p.1 = a
      · have : ∃ q ∈ p :: ps, q.1 = a := ⟨p, List.mem_cons_self .., hp⟩
        rw [if_pos this]
        simp only [hp, if_true]
        exact hall p (List.mem_cons_self ..) hp
      · have : ¬ ∃ q ∈ p :: ps, q.1 = a := by
          rintro ⟨q, hq, e⟩
          rcases List.mem_cons.mp hq with rfl | hq'
          · exact hp e
          · exact hex ⟨q, hq', e⟩
        rw [if_neg this]
        have : ¬ a = p.1 := fun e => hp e.symm
        simp [this]

/-- a write that is there and unambiguous decides the look-up -/
theorem aw_hit (ps : List (Nat × Nat)) (f : Nat → Nat) (a v : Nat) (hall : ∀ p ∈ ps, p.1 = a → p.2 = v)
    (hex : ∃ p ∈ ps, p.1 = a) : applyWrites ps f a = v := by
  rw [aw_consistent ps a v hall f, if_pos hex]

/-! ## the tile -/

/-- one work-group of the launch: matrix addresses, `wiWidth` / `wiHeight` (float4 per row of the input /
    output matrix) and the block coordinates `gix`, `giy` the kernel computes from the work-group id -/
structure Tile where
  inp : Nat
  out : Nat
  W : Nat
  H : Nat
  gix : Nat
  giy : Nat

/-- the tile lies inside the rows of both matrices (the admissible sizes: width a multiple of 64) -/
def Tile.Fits (T : Tile) : Prop := T.gix * 16 + 16 ≤ T.W ∧ T.giy * 16 + 16 ≤ T.H

/-- byte address of float4 column `q` in row `ρ` of the input tile (`index_in + r*wiWidth`, ρ = 4 liy + r) -/
def Tile.inF4 (T : Tile) (ρ q : Nat) : Nat := T.inp + 16 * (T.gix * 16 + q + T.W * (T.giy * 64 + ρ))
/-- byte address of float4 column `q` in row `R` of the output tile (`index_out + c*wiHeight`, R = 4 liy + c) -/
def Tile.outF4 (T : Tile) (R q : Nat) : Nat := T.out + 16 * (T.giy * 16 + q + T.H * (T.gix * 64 + R))

/-- byte address of float (row, col) of the input / output tile -/
def Tile.inAddr (T : Tile) (ρ κ : Nat) : Nat := T.inF4 ρ (κ / 4) + 4 * (κ % 4)
def Tile.outAddr (T : Tile) (R C : Nat) : Nat := T.outF4 R (C / 4) + 4 * (C % 4)

/-- phase 1 of one work-item: four float4 rows of the input into LDS -/
def lwLane (T : Tile) (f0 : Nat → Nat) (lix liy : Nat) : List (Nat × Nat) :=
  (List.range 4).flatMap fun r => (List.range 16).map fun j =>
    (16 * (liy * 64 + lix + 16 * r) + j, f0 (T.inF4 (4 * liy + r) lix + j))

/-- phase 2 of one work-item: four float4 from LDS, component `c` of each gathered into output row `c` -/
def wrLane (T : Tile) (L : Nat → Nat) (lix liy : Nat) : List (Nat × Nat) :=
  (List.range 4).flatMap fun c => (List.range 4).flatMap fun r => (List.range 4).map fun b =>
    (T.outF4 (4 * liy + c) lix + 4 * r + b, L (16 * (lix * 64 + liy + 16 * r) + 4 * c + b))

/-- wavefront `k` of the 16x16 work-group: lanes are the flattened ids `64 k + ℓ`, `lix = id % 16`, `liy = id / 16` -/
def lwWave (T : Tile) (f0 : Nat → Nat) (k : Nat) : List (Nat × Nat) :=
  (List.range 64).flatMap fun l => lwLane T f0 ((64 * k + l) % 16) ((64 * k + l) / 16)
def wrWave (T : Tile) (L : Nat → Nat) (k : Nat) : List (Nat × Nat) :=
  (List.range 64).flatMap fun l => wrLane T L ((64 * k + l) % 16) ((64 * k + l) / 16)

def lwAll (T : Tile) (f0 : Nat → Nat) : List (Nat × Nat) := (List.range 4).flatMap (lwWave T f0)
def wrAll (T : Tile) (L : Nat → Nat) : List (Nat × Nat) := (List.range 4).flatMap (wrWave T L)

theorem mem_lwAll (T : Tile) (f0 : Nat → Nat) (p : Nat × Nat) :
    p ∈ lwAll T f0 ↔ ∃ lix liy r j, lix < 16 ∧ liy < 16 ∧ r < 4 ∧ j < 16 ∧
      p = (16 * (liy * 64 + lix + 16 * r) + j, f0 (T.inF4 (4 * liy + r) lix + j)) := by
  unfold lwAll lwWave lwLane
  simp only [List.mem_flatMap, List.mem_range, List.mem_map]
  constructor
  · rintro ⟨k, hk, l, hl, r, hr, j, hj, e⟩
    exact ⟨(64 * k + l) % 16, (64 * k + l) / 16, r, j, Nat.mod_lt _ (by omega), by omega, hr, hj, e.symm⟩
  · rintro ⟨lix, liy, r, j, h1, h2, hr, hj, e⟩
    refine ⟨(16 * liy + lix) / 64, by omega, (16 * liy + lix) % 64, Nat.mod_lt _ (by omega), r, hr, j, hj, ?_⟩
    have e1 : 64 * ((16 * liy + lix) / 64) + (16 * liy + lix) % 64 = 16 * liy + lix := Nat.div_add_mod _ _
    have e2 : (16 * liy + lix) % 16 = lix := by omega
    have e3 : (16 * liy + lix) / 16 = liy := by omega
    rw [e1, e2, e3]
    exact e.symm

theorem mem_wrAll (T : Tile) (L : Nat → Nat) (p : Nat × Nat) :
    p ∈ wrAll T L ↔ ∃ lix liy c r b, lix < 16 ∧ liy < 16 ∧ c < 4 ∧ r < 4 ∧ b < 4 ∧
      p = (T.outF4 (4 * liy + c) lix + 4 * r + b, L (16 * (lix * 64 + liy + 16 * r) + 4 * c + b)) := by
  unfold wrAll wrWave wrLane
  simp only [List.mem_flatMap, List.mem_range, List.mem_map]
  constructor
  · rintro ⟨k, hk, l, hl, c, hc, r, hr, b, hb, e⟩
    exact ⟨(64 * k + l) % 16, (64 * k + l) / 16, c, r, b, Nat.mod_lt _ (by omega), by omega, hc, hr, hb, e.symm⟩
  · rintro ⟨lix, liy, c, r, b, h1, h2, hc, hr, hb, e⟩
    refine ⟨(16 * liy + lix) / 64, by omega, (16 * liy + lix) % 64, Nat.mod_lt _ (by omega), c, hc, r, hr, b, hb, ?_⟩
    have e1 : 64 * ((16 * liy + lix) / 64) + (16 * liy + lix) % 64 = 16 * liy + lix := Nat.div_add_mod _ _
    have e2 : (16 * liy + lix) % 16 = lix := by omega
    have e3 : (16 * liy + lix) / 16 = liy := by omega
    rw [e1, e2, e3]
    exact e.symm

/-- **LDS after phase 1**: whatever it held before, the LDS holds the input tile row by row (row ρ of 64 floats
    = 16 float4 at LDS float4 index 16 ρ + q) once all four wavefronts have reached the barrier -/
theorem lds_content (T : Tile) (f0 L0 : Nat → Nat) (ρ q j : Nat) (hρ : ρ < 64) (hq : q < 16) (hj : j < 16) :
    applyWrites (lwAll T f0) L0 (16 * (16 * ρ + q) + j) = f0 (T.inF4 ρ q + j) := by
  apply aw_hit
  · intro p hp hk
    obtain ⟨lix, liy, r, j', h1, h2, hr, hj', e⟩ := (mem_lwAll T f0 p).mp hp
    rw [e] at hk ⊢
    simp only at hk ⊢
    have a1 : j' = j := by omega
    have a2 : lix = q := by omega
    have a3 : 4 * liy + r = ρ := by omega
    rw [a1, a2, a3]
  · refine ⟨_, (mem_lwAll T f0 _).mpr ⟨q, ρ / 4, ρ % 4, j, hq, by omega, by omega, hj, rfl⟩, ?_⟩
    show 16 * (ρ / 4 * 64 + q + 16 * (ρ % 4)) + j = 16 * (16 * ρ + q) + j
    omega

/-- Euclidean uniqueness with a variable divisor -/
theorem div_unique (H a a' X X' : Nat) (ha : a < H) (ha' : a' < H) (h : a + H * X = a' + H * X') : a = a' ∧ X = X' := by
  have h1 : (a + H * X) / H = X := by
    rw [Nat.add_mul_div_left _ _ (by omega : 0 < H), Nat.div_eq_of_lt ha, Nat.zero_add]
  have h2 : (a' + H * X') / H = X' := by
    rw [Nat.add_mul_div_left _ _ (by omega : 0 < H), Nat.div_eq_of_lt ha', Nat.zero_add]
  have hx : X = X' := by rw [← h1, ← h2, h]
  subst hx
  exact ⟨Nat.add_right_cancel h, rfl⟩

/-- **one tile transposed**: the phase-2 writes of the four wavefronts, reading the LDS content phase 1 left,
    put float (C, R) of the input tile at float (R, C) of the output tile, and touch no byte outside the
    output tile -/
theorem tile_algebra (T : Tile) (hT : T.Fits) (f0 L0 g : Nat → Nat) :
    let g' := applyWrites (wrAll T (applyWrites (lwAll T f0) L0)) g
    (∀ R C b, R < 64 → C < 64 → b < 4 → g' (T.outAddr R C + b) = f0 (T.inAddr C R + b)) ∧
    (∀ a, (∀ R C b, R < 64 → C < 64 → b < 4 → a ≠ T.outAddr R C + b) → g' a = g a) := by
  intro g'
  constructor
  · intro R C b hR hC hb
    show applyWrites _ g _ = _
    apply aw_hit
    · intro p hp hk
      obtain ⟨lix, liy, c, r, b', h1, h2, hc, hr, hb', e⟩ := (mem_wrAll T _ p).mp hp
      rw [e] at hk ⊢
      simp only [Tile.outAddr, Tile.outF4] at hk
      simp only
      -- split the key: float4 index and byte inside
      have hk' : (T.giy * 16 + lix) + T.H * (T.gix * 64 + (4 * liy + c)) =
          (T.giy * 16 + C / 4) + T.H * (T.gix * 64 + R) ∧ 4 * r + b' = 4 * (C % 4) + b := by omega
      obtain ⟨e1, e2⟩ := div_unique T.H _ _ _ _ (by have := hT.2; omega) (by have := hT.2; omega) hk'.1
      have a1 : lix = C / 4 := by omega
      have a2 : 4 * liy + c = R := by omega
      have a3 : r = C % 4 := by omega
      have a4 : b' = b := by omega
      rw [a4, a3, a1]
      have hl := lds_content T f0 L0 (4 * (C / 4) + C % 4) liy (4 * c + b) (by omega) h2 (by omega)
      have ek : 16 * (C / 4 * 64 + liy + 16 * (C % 4)) + 4 * c + b = 16 * (16 * (4 * (C / 4) + C % 4) + liy) + (4 * c + b) := by
        omega
      rw [ek, hl]
      have e5 : 4 * (C / 4) + C % 4 = C := by omega
      rw [e5]
      unfold Tile.inAddr
      have e6 : liy = R / 4 := by omega
      have e7 : c = R % 4 := by omega
      rw [e6, e7, Nat.add_assoc]
    · refine ⟨_, (mem_wrAll T _ _).mpr ⟨C / 4, R / 4, R % 4, C % 4, b, by omega, by omega, by omega, by omega, hb, rfl⟩, ?_⟩
      show T.outF4 (4 * (R / 4) + R % 4) (C / 4) + 4 * (C % 4) + b = T.outAddr R C + b
      have : 4 * (R / 4) + R % 4 = R := by omega
      rw [this]
      rfl
  · intro a ha
    show applyWrites _ g a = g a
    apply aw_not_key
    intro p hp hk
    obtain ⟨lix, liy, c, r, b, h1, h2, hc, hr, hb, e⟩ := (mem_wrAll T _ p).mp hp
    rw [e] at hk
    simp only at hk
    refine ha (4 * liy + c) (4 * lix + r) b (by omega) (by omega) hb ?_
    rw [← hk]
    unfold Tile.outAddr
    have e1 : (4 * lix + r) / 4 = lix := by omega
    have e2 : (4 * lix + r) % 4 = r := by omega
    rw [e1, e2]

/-! ## the whole grid at the description level

The benchmark launches `(width/4, width/4, 1) / (16, 16, 1)` on a square matrix: `nb = width/64` blocks per side,
`wiWidth = wiHeight = 16 nb`; work-group `(a, b)` (the `n`-th of the grid builder, `a = n % nb`, `b = n / nb`) moves
input block (row `a`, column `(a + b) % nb`) to output block (row `(a + b) % nb`, column `a`). -/

/-- what a phase-2 write of a work-group is: a byte of an output float, with the byte of the mirrored input float -/
theorem wrAll_values (T : Tile) (f0 L0 : Nat → Nat) (p : Nat × Nat)
    (hp : p ∈ wrAll T (applyWrites (lwAll T f0) L0)) :
    ∃ R C b, R < 64 ∧ C < 64 ∧ b < 4 ∧ p = (T.outAddr R C + b, f0 (T.inAddr C R + b)) := by
  obtain ⟨lix, liy, c, r, b, h1, h2, hc, hr, hb, e⟩ := (mem_wrAll T _ p).mp hp
  refine ⟨4 * liy + c, 4 * lix + r, b, by omega, by omega, hb, ?_⟩
  rw [e]
  have hl := lds_content T f0 L0 (4 * lix + r) liy (4 * c + b) (by omega) h2 (by omega)
  have ek : 16 * (lix * 64 + liy + 16 * r) + 4 * c + b = 16 * (16 * (4 * lix + r) + liy) + (4 * c + b) := by omega
  rw [ek, hl]
  unfold Tile.outAddr Tile.inAddr
  have e1 : (4 * lix + r) / 4 = lix := by omega
  have e2 : (4 * lix + r) % 4 = r := by omega
  have e3 : (4 * liy + c) / 4 = liy := by omega
  have e4 : (4 * liy + c) % 4 = c := by omega
  rw [e1, e2, e3, e4, Nat.add_assoc (T.inF4 (4 * lix + r) liy)]

/-- every byte of the output tile is written -/
theorem wrAll_covers (T : Tile) (L : Nat → Nat) (R C b : Nat) (hR : R < 64) (hC : C < 64) (hb : b < 4) :
    ∃ p ∈ wrAll T L, p.1 = T.outAddr R C + b := by
  refine ⟨_, (mem_wrAll T _ _).mpr ⟨C / 4, R / 4, R % 4, C % 4, b, by omega, by omega, by omega, by omega, hb, rfl⟩, ?_⟩
  show T.outF4 (4 * (R / 4) + R % 4) (C / 4) + 4 * (C % 4) + b = T.outAddr R C + b
  have : 4 * (R / 4) + R % 4 = R := by omega
  rw [this]
  rfl

/-- the tile of the `n`-th work-group of a launch on a square matrix with `nb` blocks per side -/
def gridTile (inp out nb n : Nat) : Tile :=
  ⟨inp, out, 16 * nb, 16 * nb, (n % nb + n / nb) % nb, n % nb⟩

theorem gridTile_fits (inp out nb n : Nat) (hnb : 0 < nb) : (gridTile inp out nb n).Fits := by
  have h1 : (n % nb + n / nb) % nb < nb := Nat.mod_lt _ hnb
  have h2 : n % nb < nb := Nat.mod_lt _ hnb
  constructor
  · show (n % nb + n / nb) % nb * 16 + 16 ≤ 16 * nb
    omega
  · show n % nb * 16 + 16 ≤ 16 * nb
    omega

/-- tile-local → matrix coordinates (row-major floats, row length `64 nb`) -/
theorem outAddr_global (inp out nb n R C : Nat) :
    (gridTile inp out nb n).outAddr R C =
      out + 4 * (64 * nb * (((n % nb + n / nb) % nb) * 64 + R) + ((n % nb) * 64 + C)) := by
  show out + 16 * (n % nb * 16 + C / 4 + 16 * nb * ((n % nb + n / nb) % nb * 64 + R)) + 4 * (C % 4) = _
  generalize (n % nb + n / nb) % nb * 64 + R = X
  have e1 : 16 * nb * X = 16 * (nb * X) := Nat.mul_assoc _ _ _
  have e2 : 64 * nb * X = 64 * (nb * X) := Nat.mul_assoc _ _ _
  rw [e1, e2]
  omega

theorem inAddr_global (inp out nb n ρ κ : Nat) :
    (gridTile inp out nb n).inAddr ρ κ =
      inp + 4 * (64 * nb * ((n % nb) * 64 + ρ) + (((n % nb + n / nb) % nb) * 64 + κ)) := by
  show inp + 16 * ((n % nb + n / nb) % nb * 16 + κ / 4 + 16 * nb * (n % nb * 64 + ρ)) + 4 * (κ % 4) = _
  generalize n % nb * 64 + ρ = X
  have e1 : 16 * nb * X = 16 * (nb * X) := Nat.mul_assoc _ _ _
  have e2 : 64 * nb * X = 64 * (nb * X) := Nat.mul_assoc _ _ _
  rw [e1, e2]
  omega

/-- the phase-2 writes of all work-groups, in the order of the grid builder -/
def gridWrites (inp out nb : Nat) (f0 L0 : Nat → Nat) : List (Nat × Nat) :=
  (List.range (nb * nb)).flatMap fun n =>
    wrAll (gridTile inp out nb n) (applyWrites (lwAll (gridTile inp out nb n) f0) L0)

/-- which work-group handles output block (row `gx`, column `a`) -/
theorem block_owner (nb a gx : Nat) (ha : a < nb) (hg : gx < nb) :
    ∃ n, n < nb * nb ∧ n % nb = a ∧ (n % nb + n / nb) % nb = gx := by
  have hnb : 0 < nb := by omega
  refine ⟨((gx + nb - a) % nb) * nb + a, ?_, ?_, ?_⟩
  · have h1 : (gx + nb - a) % nb < nb := Nat.mod_lt _ hnb
    have h2 : ((gx + nb - a) % nb + 1) * nb ≤ nb * nb := Nat.mul_le_mul_right _ h1
    rw [Nat.add_mul, Nat.one_mul] at h2
    omega
  · rw [Nat.mul_comm, Nat.mul_add_mod, Nat.mod_eq_of_lt ha]
  · have e1 : ((gx + nb - a) % nb * nb + a) % nb = a := by
      rw [Nat.mul_comm, Nat.mul_add_mod, Nat.mod_eq_of_lt ha]
    have e2 : ((gx + nb - a) % nb * nb + a) / nb = (gx + nb - a) % nb := by
      rw [Nat.mul_comm, Nat.mul_add_div hnb, Nat.div_eq_of_lt ha, Nat.add_zero]
    rw [e1, e2]
    by_cases h : a ≤ gx
    · have e3 : (gx + nb - a) % nb = gx - a := by
        rw [show gx + nb - a = (gx - a) + nb by omega, Nat.add_mod_right, Nat.mod_eq_of_lt (by omega)]
      rw [e3, show a + (gx - a) = gx by omega, Nat.mod_eq_of_lt hg]
    · have e3 : (gx + nb - a) % nb = gx + nb - a := Nat.mod_eq_of_lt (by omega)
      rw [e3, show a + (gx + nb - a) = gx + nb by omega, Nat.add_mod_right, Nat.mod_eq_of_lt hg]

/-- **the whole matrix transposed** (description level): the phase-2 writes of all `nb²` work-groups put float
    (Cg, Rg) of the input matrix at float (Rg, Cg) of the output matrix, and change nothing outside the output
    matrix -/
theorem grid_algebra (inp out nb : Nat) (hnb : 0 < nb) (f0 L0 g : Nat → Nat) :
    let g' := applyWrites (gridWrites inp out nb f0 L0) g
    (∀ Rg Cg b, Rg < 64 * nb → Cg < 64 * nb → b < 4 →
      g' (out + 4 * (64 * nb * Rg + Cg) + b) = f0 (inp + 4 * (64 * nb * Cg + Rg) + b)) ∧
    (∀ a, (a < out ∨ out + 4 * (64 * nb * (64 * nb)) ≤ a) → g' a = g a) := by
  intro g'
  -- a write of work-group n, in matrix coordinates
  have hval : ∀ p ∈ gridWrites inp out nb f0 L0, ∃ X Y b, X < 64 * nb ∧ Y < 64 * nb ∧ b < 4 ∧
      p = (out + 4 * (64 * nb * X + Y) + b, f0 (inp + 4 * (64 * nb * Y + X) + b)) := by
    intro p hp
    obtain ⟨n, _, hpn⟩ := List.mem_flatMap.mp hp
    obtain ⟨R, C, b, hR, hC, hb, e⟩ := wrAll_values _ f0 L0 p hpn
    have h1 : (n % nb + n / nb) % nb < nb := Nat.mod_lt _ hnb
    have h2 : n % nb < nb := Nat.mod_lt _ hnb
    refine ⟨(n % nb + n / nb) % nb * 64 + R, n % nb * 64 + C, b, by omega, by omega, hb, ?_⟩
    rw [e, outAddr_global, inAddr_global]
  constructor
  · intro Rg Cg b hR hC hb
    show applyWrites _ g _ = _
    apply aw_hit
    · intro p hp hk
      obtain ⟨X, Y, b', hX, hY, hb', e⟩ := hval p hp
      rw [e] at hk ⊢
      simp only at hk ⊢
      have hk' : Y + 64 * nb * X = Cg + 64 * nb * Rg ∧ b' = b := by omega
      obtain ⟨e1, e2⟩ := div_unique (64 * nb) Y Cg X Rg hY hC hk'.1
      rw [e1, e2, hk'.2]
    · obtain ⟨n, hn, hn1, hn2⟩ := block_owner nb (Cg / 64) (Rg / 64) (by omega) (by omega)
      obtain ⟨p, hp, hp1⟩ := wrAll_covers (gridTile inp out nb n)
        (applyWrites (lwAll (gridTile inp out nb n) f0) L0) (Rg % 64) (Cg % 64) b (by omega) (by omega) hb
      refine ⟨p, List.mem_flatMap.mpr ⟨n, List.mem_range.mpr hn, hp⟩, ?_⟩
      rw [hp1, outAddr_global, hn2, hn1]
      have e1 : Rg / 64 * 64 + Rg % 64 = Rg := by omega
      have e2 : Cg / 64 * 64 + Cg % 64 = Cg := by omega
      rw [e1, e2]
  · intro a ha
    show applyWrites _ g a = g a
    apply aw_not_key
    intro p hp hk
    obtain ⟨X, Y, b, hX, hY, hb, e⟩ := hval p hp
    rw [e] at hk
    simp only at hk
    have h3 : 64 * nb * (X + 1) ≤ 64 * nb * (64 * nb) := Nat.mul_le_mul_left _ hX
    rw [Nat.mul_add, Nat.mul_one] at h3
    omega

/-- the work-group level statement: a 16x16 work-group whose four wavefronts have the phase descriptions of the
    kernel (`lwAll`, `wrAll`) leaves, after the two rounds of `runWG`, the transposed tile in the output matrix
    and every other byte of memory as it was -/
theorem tile_transposed (T : Tile) (hT : T.Fits) (f0 L0 : Nat → Nat)
    (P : Program) (base fuel rounds : Nat) (Ok : Mem → Prop)
    (lw wr : Wave → List (Nat × Nat)) (Q : Wave → Wave → Prop) (ws : List Wave) (hne : ws ≠ [])
    (hlw : ws.flatMap lw = lwAll T f0)
    (hwr : ws.flatMap wr = wrAll T (applyWrites (lwAll T f0) L0))
    (h1 : ∀ w ∈ ws, Phase1 P base fuel Ok w (lw w) (Q w))
    (h2 : ∀ w ∈ ws, ∀ w1, Q w w1 → w1.completed = false →
      Phase2 P base fuel Ok (applyWrites (lwAll T f0) L0) { w1 with atBarrier := false } (wr w))
    (m l : Mem) (hok : Ok m) (hl : get l = L0) :
    ∃ m', runWG P base fuel (rounds + 2) ws m l = .ok m' ∧ Ok m' ∧
      (∀ R C b, R < 64 → C < 64 → b < 4 → get m' (T.outAddr R C + b) = f0 (T.inAddr C R + b)) ∧
      (∀ a, (∀ R C b, R < 64 → C < 64 → b < 4 → a ≠ T.outAddr R C + b) → get m' a = get m a) := by
  obtain ⟨m', hr, hg, hok'⟩ := runWG_barrier_round P base fuel rounds Ok L0 lw wr Q ws hne h1
    (by rw [hlw]; exact h2) m l hok hl
  refine ⟨m', hr, hok', ?_⟩
  rw [hg, hwr]
  exact tile_algebra T hT f0 L0 (get m)

end TT
end Emu
end C01
