import MgpuProofs.C02BarLemmas
/-! C02 (barriers) — helper lemmas, part 5: the phase order of a work-group, a safety property of
`wgstep` alone (no hypothesis on the program). A ghost counts, next to an accepted run, how many barriers
each wavefront has arrived at; the invariant says that all unfinished wavefronts have PASSED the same
number of barriers. -/
namespace C02.Bar
open C02.Wf

/-- the event is the arrival of its wavefront at a barrier (`evalSBarrier`) -/
def isArrival (g : WG) (W : WState) (we : Nat × Ev) : Bool :=
  match W.c[we.1]? with
  | some s => !W.parked.getD we.1 false && decide (we.2 = .complete) && decide (s.ph = .issued) && isBar g s
  | none => false

def bump (arr : Nat → Nat) (w : Nat) : Nat → Nat := fun j => if j = w then arr j + 1 else arr j

/-- ghost: `wgrun`, and next to it the number of barriers each wavefront has arrived at -/
def wgrunA (g : WG) (gate : TState → Inst → Bool) : WState × (Nat → Nat) → List (Nat × Ev) → Option (WState × (Nat → Nat))
  | X, [] => some X
  | X, e :: es =>
    match wgstep g gate X.1 e with
    | none => none
    | some W' => wgrunA g gate (W', if isArrival g X.1 e then bump X.2 e.1 else X.2) es

/-- the ghost does not change the run -/
theorem wgrunA_fst (g : WG) (gate : TState → Inst → Bool) : ∀ (evs : List (Nat × Ev)) (X : WState × (Nat → Nat)),
    (wgrunA g gate X evs).map (·.1) = wgrun g gate X.1 evs := by
  intro evs
  induction evs with
  | nil => intro X; rfl
  | cons e es ih =>
    intro X
    simp only [wgrunA, wgrun]
    cases wgstep g gate X.1 e with
    | none => rfl
    | some W' => exact ih _

/-- a wavefront whose phase is `.done` stays there under `tstep` -/
theorem tstep_done_stays {P : Prog} {gate} {s s' : TState} {e : Ev} (hph : s.ph = .done)
    (h : tstep P gate s e = some s') : s'.ph = .done := by
  cases e with
  | env a v => simp only [tstep] at h; split at h <;> cases h; exact hph
  | fetch => simp only [tstep] at h; split at h <;> cases h; exact hph
  | fetchRet =>
    simp only [tstep] at h
    split at h
    · cases h
    · split at h <;> cases h <;> exact hph
  | resync => simp only [tstep] at h; split at h <;> cases h; exact hph
  | decode =>
    simp only [tstep] at h
    split at h
    · cases h
    · split at h
      · split at h <;> cases h; exact hph
      · cases h
  | issue =>
    simp only [tstep] at h
    split at h
    · cases h
    · split at h
      · rename_i hc; rw [hph] at hc; exact absurd hc.1 (by decide)
      · cases h
  | exec =>
    simp only [tstep] at h
    split at h
    · cases h
    · split at h
      · rename_i hc; rw [hph] at hc; cases hc
      · cases h
  | complete =>
    simp only [tstep] at h
    split at h
    · cases h
    · rename_i i _
      cases hk : i.kind <;> simp only [hk] at h
      · split at h
        · rename_i hc; rw [hph] at hc; cases hc
        · cases h
      · split at h
        · rename_i hc; rw [hph] at hc; cases hc
        · cases h
      · cases h
      · cases h
      · cases h
      · split at h
        · rename_i hc; rw [hph] at hc; exact absurd hc.1 (by decide)
        · cases h
      · split at h
        · rename_i hc; rw [hph] at hc; cases hc
        · cases h
      · split at h
        · rename_i hc; rw [hph] at hc; exact absurd hc.1 (by decide)
        · cases h
  | serveV k =>
    simp only [tstep] at h
    split at h
    · cases h
    · split at h
      · cases h
      · split at h <;> cases h <;> exact hph
  | serveS k =>
    simp only [tstep] at h
    split at h
    · cases h
    · split at h <;> cases h; exact hph
  | retV =>
    simp only [tstep] at h
    split at h
    · cases h
    · split at h <;> cases h; exact hph
  | retS k =>
    simp only [tstep] at h
    split at h
    · cases h
    · split at h <;> cases h; exact hph

/-- barriers passed = barriers arrived at, minus the one the wavefront is waiting at -/
def passed (W : WState) (arr : Nat → Nat) (j : Nat) : Nat := arr j - (if W.parked.getD j false then 1 else 0)

/-- every wavefront has passed at most `K` barriers, every unfinished one exactly `K` -/
structure OrdInv (W : WState) (arr : Nat → Nat) (K : Nat) : Prop where
  pos : ∀ j, W.parked.getD j false = true → 1 ≤ arr j
  le : ∀ (j : Nat) (T : TState), W.c[j]? = some T → passed W arr j ≤ K
  eq : ∀ (j : Nat) (T : TState), W.c[j]? = some T → ¬ (T.ph = .done ∧ W.parked.getD j false = false) →
    passed W arr j = K

theorem releaseAll_get' {c : List TState} {ps : List Bool} {c2 : List TState} (hr : releaseAll c ps = some c2)
    {j : Nat} {t2 : TState} (hj : c2[j]? = some t2) :
    ∃ t, c[j]? = some t ∧ (if ps.getD j false then releaseOne t else some t) = some t2 := by
  obtain ⟨hl, hspec⟩ := releaseAll_spec c ps c2 hr
  have hjl : j < c.length := by
    rw [← hl]
    rcases Nat.lt_or_ge j c2.length with h' | h'
    · exact h'
    · simp [List.getElem?_eq_none h'] at hj
  refine ⟨c[j], List.getElem?_eq_getElem hjl, ?_⟩
  rw [hspec j c[j] (List.getElem?_eq_getElem hjl), hj]

theorem ord_release {W : WState} {arr : Nat → Nat} {K : Nat} (h : OrdInv W arr K) (hall : allStopped W.c = true)
    (c2 : List TState) (hr : releaseAll W.c W.parked = some c2) :
    OrdInv { c := c2, parked := unparkAll W.parked } arr (K + 1) := by
  rw [allStopped_iff] at hall
  have key : ∀ (j : Nat) (T2 : TState), c2[j]? = some T2 →
      arr j ≤ K + 1 ∧ (¬ (T2.ph = .done) → arr j = K + 1) := by
    intro j T2 hj
    obtain ⟨T, hT, hif⟩ := releaseAll_get' hr hj
    cases hpk : W.parked.getD j false with
    | true =>
      have h1 := h.eq j T hT (fun hc => by rw [hpk] at hc; cases hc.2)
      have h2 := h.pos j hpk
      unfold passed at h1
      rw [hpk] at h1
      simp only [if_true] at h1
      exact ⟨by omega, fun _ => by omega⟩
    | false =>
      have h1 := h.le j T hT
      unfold passed at h1
      rw [hpk] at h1 hif
      simp only [Bool.false_eq_true, if_false, Option.some.injEq] at h1 hif
      subst hif
      exact ⟨by omega, fun hc => absurd (hall j T hT) hc⟩
  refine ⟨fun j hp => (by rw [unparkAll_getD] at hp; cases hp), ?_, ?_⟩
  · intro j T2 hj
    unfold passed
    simp only [unparkAll_getD, Bool.false_eq_true, if_false]
    exact (key j T2 hj).1
  · intro j T2 hj hu
    unfold passed
    simp only [unparkAll_getD, Bool.false_eq_true, if_false]
    apply (key j T2 hj).2
    intro hd
    exact hu ⟨hd, unparkAll_getD _ _⟩

theorem ord_update {W : WState} {arr : Nat → Nat} {K : Nat} (h : OrdInv W arr K) (w : Nat) (s s' : TState) (m : Mem)
    (hs : W.c[w]? = some s) (hfin : s.ph = .done → s'.ph = .done) :
    OrdInv { W with c := setMemAll m (W.c.set w s') } arr K := by
  have hw : w < W.c.length := by
    rcases Nat.lt_or_ge w W.c.length with h' | h'
    · exact h'
    · simp [List.getElem?_eq_none h'] at hs
  refine ⟨h.pos, ?_, ?_⟩
  · intro j T hj
    simp only at hj
    rw [getElem?_setMemAll'] at hj
    by_cases hjw : w = j
    · subst hjw; exact h.le w s hs
    · rw [List.getElem?_set_ne hjw] at hj
      cases hc : W.c[j]? with
      | none => simp [hc] at hj
      | some t => exact h.le j t hc
  · intro j T hj hu
    simp only at hj hu
    rw [getElem?_setMemAll'] at hj
    by_cases hjw : w = j
    · subst hjw
      rw [List.getElem?_set, if_pos rfl, if_pos hw] at hj
      simp only [Option.map_some, Option.some.injEq] at hj
      subst hj
      exact h.eq w s hs (fun hc => hu ⟨hfin hc.1, hc.2⟩)
    · rw [List.getElem?_set_ne hjw] at hj
      cases hc : W.c[j]? with
      | none => simp [hc] at hj
      | some t =>
        simp only [hc, Option.map_some, Option.some.injEq] at hj
        subst hj
        exact h.eq j t hc hu

theorem ord_park {W : WState} {arr : Nat → Nat} {K : Nat} (h : OrdInv W arr K) (hW : WOK W) (w : Nat) (s : TState)
    (hs : W.c[w]? = some s) (hph : s.ph = .issued) (hnp : W.parked.getD w false = false) :
    OrdInv (parkAt W w s) (bump arr w) K := by
  have hw : w < W.c.length := by
    rcases Nat.lt_or_ge w W.c.length with h' | h'
    · exact h'
    · simp [List.getElem?_eq_none h'] at hs
  have hpw : (W.parked.set w true).getD w false = true := by
    rw [List.getD_eq_getElem?_getD, List.getElem?_set, if_pos rfl, if_pos (by rw [hW.len]; exact hw)]
    rfl
  have hpj : ∀ j, w ≠ j → (W.parked.set w true).getD j false = W.parked.getD j false := by
    intro j hjw
    rw [List.getD_eq_getElem?_getD, List.getElem?_set_ne hjw, ← List.getD_eq_getElem?_getD]
  have hKw : arr w = K := by
    have := h.eq w s hs (fun hc => by rw [hph] at hc; cases hc.1)
    unfold passed at this
    rw [hnp] at this
    simpa using this
  have pw : passed (parkAt W w s) (bump arr w) w = K := by
    unfold passed parkAt bump
    simp only [hpw, if_true]
    omega
  have pj : ∀ j, w ≠ j → passed (parkAt W w s) (bump arr w) j = passed W arr j := by
    intro j hjw
    unfold passed parkAt bump
    simp only [hpj j hjw, if_neg (fun e : j = w => hjw e.symm)]
  refine ⟨?_, ?_, ?_⟩
  · intro j hp
    simp only [parkAt] at hp
    by_cases hjw : w = j
    · subst hjw; unfold bump; simp
    · rw [hpj j hjw] at hp
      unfold bump
      rw [if_neg (fun e : j = w => hjw e.symm)]
      exact h.pos j hp
  · intro j T hj
    by_cases hjw : w = j
    · subst hjw; rw [pw]; exact Nat.le_refl _
    · rw [pj j hjw]
      simp only [parkAt] at hj
      rw [List.getElem?_set_ne hjw] at hj
      exact h.le j T hj
  · intro j T hj hu
    by_cases hjw : w = j
    · subst hjw; exact pw
    · rw [pj j hjw]
      simp only [parkAt] at hj hu
      rw [List.getElem?_set_ne hjw] at hj
      rw [hpj j hjw] at hu
      exact h.eq j T hj hu

/-- one step of the instrumented run preserves the invariant (for some number of passes) -/
theorem ord_step (g : WG) (gate : TState → Inst → Bool) {W W' : WState} {arr : Nat → Nat} (we : Nat × Ev)
    (hW : WOK W) (h : ∃ K, OrdInv W arr K) (hs : wgstep g gate W we = some W') :
    ∃ K, OrdInv W' (if isArrival g W we then bump arr we.1 else arr) K := by
  obtain ⟨K, h⟩ := h
  obtain ⟨w, e⟩ := we
  unfold wgstep at hs
  simp only at hs
  split at hs
  · cases hs
  · split at hs
    · rename_i s P hcw hPw
      split at hs
      · -- waiting at the barrier
        rename_i hpk
        have hna : isArrival g W (w, e) = false := by
          unfold isArrival; simp only [hcw, hpk]; rfl
        rw [hna]
        split at hs
        · cases hs
        · rename_i s' hst
          cases hs
          exact ⟨K, ord_update h w s s' s'.mem hcw (fun _ => by rw [(parkedStep_fields hst).1]; exact hW.pdone w s hcw hpk)⟩
      · rename_i hpk
        have hpk' : W.parked.getD w false = false := by simpa using hpk
        split at hs
        · -- arrival at the barrier
          rename_i hc
          have hia : isArrival g W (w, e) = true := by
            unfold isArrival; simp only [hcw, hpk', hc.1, hc.2.1, hc.2.2]; rfl
          rw [hia]
          have hp := ord_park h hW w s hcw hc.2.1 hpk'
          simp only [parkAt] at hp
          split at hs
          · rename_i hall
            split at hs
            · cases hs
            · rename_i c2 hr
              cases hs
              exact ⟨K + 1, ord_release hp hall c2 hr⟩
          · cases hs
            exact ⟨K, hp⟩
        · rename_i hnb
          have hna : isArrival g W (w, e) = false := by
            unfold isArrival
            simp only [hcw, hpk']
            cases hb : (decide (e = .complete) && decide (s.ph = .issued) && isBar g s) with
            | false => simp [Bool.and_assoc] at hb ⊢; simpa [Bool.and_assoc] using hb
            | true =>
              simp only [Bool.and_eq_true, decide_eq_true_eq] at hb
              exact absurd ⟨hb.1.1, hb.1.2, hb.2⟩ hnb
          rw [hna]
          split at hs
          · cases hs
          · rename_i s' hst
            have hu := ord_update h w s s' s'.mem hcw (fun hd => tstep_done_stays hd hst)
            split at hs
            · rename_i hc
              split at hs
              · cases hs
              · rename_i c2 hr
                cases hs
                exact ⟨K + 1, ord_release hu hc.2.2.1 c2 hr⟩
            · cases hs
              exact ⟨K, hu⟩
    · cases hs

theorem ord_run (g : WG) (gate : TState → Inst → Bool) : ∀ (evs : List (Nat × Ev)) (X X' : WState × (Nat → Nat)),
    WOK X.1 → (∃ K, OrdInv X.1 X.2 K) → wgrunA g gate X evs = some X' → ∃ K, OrdInv X'.1 X'.2 K := by
  intro evs
  induction evs with
  | nil => intro X X' _ h hr; simp only [wgrunA] at hr; cases hr; exact h
  | cons e es ih =>
    intro X X' hW h hr
    simp only [wgrunA] at hr
    cases hs : wgstep g gate X.1 e with
    | none => simp [hs] at hr
    | some W1 =>
      simp only [hs] at hr
      exact ih _ X' (wok_step g gate e hW hs) (ord_step g gate e hW h hs) hr

theorem ord_init (inits : List (Nat × RF)) (m0 : Mem) : OrdInv (winit inits m0) (fun _ => 0) 0 := by
  have hp : ∀ j, (winit inits m0).parked.getD j false = false := by
    intro j
    simp only [winit]
    rw [List.getD_eq_getElem?_getD, List.getElem?_map]
    cases inits[j]? <;> rfl
  refine ⟨fun j h => (by rw [hp] at h; cases h), ?_, ?_⟩
  · intro j T _; unfold passed; simp
  · intro j T _ _; unfold passed; simp

end C02.Bar
