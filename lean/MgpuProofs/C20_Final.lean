import MgpuProofs.C20_InvDefs
/-! # C20 — a quiescent state that satisfies both invariants is finished -/
namespace C20

/-- `Σ_{j<n} f j` -/
def sumTo : Nat → (Nat → Nat) → Nat
  | 0, _ => 0
  | n + 1, f => sumTo n f + f n

theorem sumTo_count_nil (n : Nat) : sumTo n (fun j => ([] : List Nat).count j) = 0 := by
  induction n with
  | zero => rfl
  | succ n ih =>
    show sumTo n (fun j => ([] : List Nat).count j) + ([] : List Nat).count n = 0
    rw [ih]; simp

theorem sumTo_count_cons (x : Nat) (xs : List Nat) (m : Nat) :
    sumTo m (fun j => (x :: xs).count j) = sumTo m (fun j => xs.count j) + (if x < m then 1 else 0) := by
  induction m with
  | zero => simp [sumTo]
  | succ m ihm =>
    show sumTo m (fun j => (x :: xs).count j) + (x :: xs).count m
        = sumTo m (fun j => xs.count j) + xs.count m + (if x < m + 1 then 1 else 0)
    rw [ihm, List.count_cons]
    by_cases h1 : x = m
    · subst h1; simp; omega
    · have hne : ¬ (x == m) = true := by simpa using h1
      simp only [hne]
      by_cases h2 : x < m
      · have : x < m + 1 := by omega
        simp [h2, this]; omega
      · have : ¬ x < m + 1 := by omega
        simp [h2, this]

theorem length_eq_sumTo_count (l : List Nat) (n : Nat) (hlt : ∀ j ∈ l, j < n) :
    l.length = sumTo n (fun j => l.count j) := by
  induction l with
  | nil => rw [sumTo_count_nil]; rfl
  | cons x xs ih =>
    have hx : x < n := hlt x (List.mem_cons_self)
    have ih' := ih (fun j hj => hlt j (List.mem_cons_of_mem _ hj))
    rw [sumTo_count_cons]
    simp only [List.length_cons, hx, ite_true]
    omega

theorem sumTo_const_one (n : Nat) (f : Nat → Nat) (h : ∀ j, j < n → f j = 1) : sumTo n f = n := by
  induction n with
  | zero => rfl
  | succ n ih => simp only [sumTo]; rw [ih (fun j hj => h j (by omega)), h n (by omega)]

/-- a list of indices below `n` that contains each of them exactly once has length `n` -/
theorem free_full' (l : List Nat) (n : Nat) (hlt : ∀ j ∈ l, j < n) (h : ∀ j, j < n → l.count j = 1) :
    l.length = n := by
  rw [length_eq_sumTo_count l n hlt, sumTo_const_one n _ h]

/-- One layer: parent, connection and all children asleep, children internally idle ⇒ the layer is idle. -/
theorem level_quiet {α : Type} (l : Level α) (n : Nat) (b : Nat → Nat) (pa : Bool) (ca : Nat → Bool)
    (cf : Nat → Nat) (i1 : LInv1 l n b) (i2 : LInv2 l n pa ca cf) (hn : 1 ≤ n)
    (hpa : pa = false) (hca : ∀ j, j < n → ca j = false) (hconn : l.connAwake = false)
    (hb : ∀ j, j < n → cf j = 0 → b j = 0) :
    levelIdle l = true ∧ l.unfin = 0 ∧ ∀ j, j < n → cf j = 0 := by
  -- 1. parent's incoming buffer is empty
  have hpIn : l.pIn = [] := by
    by_cases h : l.pIn = []
    · exact h
    · have := i2.parIn h; rw [hpa] at this; cases this
  -- 2. children's incoming buffers are empty
  have hcIn : ∀ j, j < n → get l.cIn j = [] := by
    intro j hj
    by_cases h : get l.cIn j = []
    · exact h
    · have := i2.chiIn j hj h; rw [hca j hj] at this; cases this
  -- 3. the sleeping connection has every port blocked
  have hblk : ∀ p, p ≤ n → portBlocked l p := by
    rcases i2.conn with h | h
    · rw [hconn] at h; cases h
    · exact h
  have hcOut : ∀ j, j < n → get l.cOut j = 0 := by
    intro j hj
    have := hblk (j + 1) (by omega)
    simp only [portBlocked, hpIn, List.length_nil, cap] at this
    omega
  have hpOut : l.pOut = [] := by
    cases hp : l.pOut with
    | nil => rfl
    | cons p rest =>
      obtain ⟨j, u⟩ := p
      have hj : j < n := i1.outLt (j, u) (by rw [hp]; exact List.mem_cons_self)
      have := hblk 0 (by omega)
      simp only [portBlocked] at this
      have := this j u rest hp
      rw [hcIn j hj] at this
      simp [cap] at this
  -- 4. no child has an unsent completion
  have hcf : ∀ j, j < n → cf j = 0 := by
    intro j hj
    by_cases h : cf j = 0
    · exact h
    · rcases i2.chiFin j hj (by omega) with h' | h'
      · rw [hca j hj] at h'; cases h'
      · rw [hcOut j hj] at h'; simp [cap] at h'
  -- 5. every child is in the free list exactly once
  have hfree : ∀ j, j < n → l.free.count j = 1 := by
    intro j hj
    have := i1.occ1 j hj
    simp only [occ, hpOut, hpIn, hcIn j hj, hcOut j hj, hb j hj (hcf j hj), List.map_nil, List.count_nil,
      List.length_nil, Nat.add_zero] at this
    exact this
  have hlen : l.free.length = n := free_full' l.free n i1.freeLt hfree
  have hfne : l.free ≠ [] := by
    intro h; rw [h] at hlen; simp at hlen; omega
  -- 6. nothing undispatched, nothing unfinished
  have hund : l.undisp = [] := by
    by_cases h : l.undisp = []
    · exact h
    · rcases i2.disp h hfne with h' | h'
      · rw [hpa] at h'; cases h'
      · rw [hpOut] at h'; simp [cap] at h'
  have hunf : l.unfin = 0 := by
    have := i1.counted
    rw [hlen, hund] at this
    simp at this
    omega
  refine ⟨?_, hunf, hcf⟩
  simp only [levelIdle, hund, hunf, hlen, i1.hn, hpOut, hpIn, List.isEmpty_nil, beq_self_eq_true, Bool.and_true,
    Bool.true_and, List.all_eq_true, List.mem_range]
  intro j hj
  simp [hcIn j hj, hcOut j hj]

/-- what `allAsleep` says, component by component -/
theorem allAsleep_iff (s : Sys) (h : allAsleep s = true) :
    s.dAwake = false ∧ s.l0.connAwake = false ∧
    (∀ g, g < s.G → (get s.gpus g).awake = false ∧ (get s.l1 g).connAwake = false) ∧
    (∀ m, m < s.G * s.S → (get s.sms m).awake = false ∧ (get s.l2 m).connAwake = false) ∧
    (∀ u, u < s.G * s.S * s.C → (get s.subs u).awake = false) := by
  simp only [allAsleep, allEvs, List.all_eq_true, List.mem_append, List.mem_cons, List.mem_map,
    List.mem_range, Bool.not_eq_true'] at h
  refine ⟨?_, ?_, ?_, ?_, ?_⟩
  · exact h .drv (by simp)
  · exact h .c0 (by simp)
  · intro g hg
    exact ⟨h (.gpu g) (by simp [hg]), h (.c1 g) (by simp [hg])⟩
  · intro m hm
    exact ⟨h (.sm m) (by simp [hm]), h (.c2 m) (by simp [hm])⟩
  · intro u hu
    exact h (.sub u) (by simp [hu])

theorem idx1 {G S g k : Nat} (hg : g < G) (hk : k < S) : g * S + k < G * S := by
  calc g * S + k < g * S + S := by omega
    _ = (g + 1) * S := by rw [Nat.add_mul, Nat.one_mul]
    _ ≤ G * S := Nat.mul_le_mul_right _ hg

theorem idx2 {G S C m j : Nat} (hm : m < G * S) (hj : j < C) : m * C + j < G * S * C := by
  calc m * C + j < m * C + C := by omega
    _ = (m + 1) * C := by rw [Nat.add_mul, Nat.one_mul]
    _ ≤ G * S * C := Nat.mul_le_mul_right _ hm

/-- **No stuck state unless finished**: a state that satisfies the accounting and the wake-up
    invariant and in which nothing is scheduled is a finished state. -/
theorem stuck_finished (s : Sys) (i1 : Inv1 s) (i2 : Inv2 s) (hG : 1 ≤ s.G) (hS : 1 ≤ s.S) (hC : 1 ≤ s.C)
    (ha : allAsleep s = true) : finished s = true := by
  obtain ⟨hd, hc0, hgp, hsm, hsu⟩ := allAsleep_iff s ha
  -- layer 2: SM → sub-cores
  have L2 : ∀ m, m < s.G * s.S →
      levelIdle (get s.l2 m) = true ∧ (get s.l2 m).unfin = 0 ∧
      ∀ j, j < s.C → (get s.subs (m * s.C + j)).fin = 0 := by
    intro m hm
    apply level_quiet _ _ _ _ _ _ (i1.lv2 m hm) (i2.w2 m hm) hC (hsm m hm).1
    · intro j hj; exact hsu _ (idx2 hm hj)
    · exact (hsm m hm).2
    · intro j hj hf
      have hu := idx2 hm hj
      have hrem : (get s.subs (m * s.C + j)).rem = 0 := by
        by_cases h : (get s.subs (m * s.C + j)).rem = 0
        · exact h
        · have := i2.run _ hu (by omega); rw [hsu _ hu] at this; cases this
      simp only [busy2, subBusy, hrem, ite_true]
      simpa using hf
  -- layer 1: GPU → SMs
  have L1 : ∀ g, g < s.G →
      levelIdle (get s.l1 g) = true ∧ (get s.l1 g).unfin = 0 ∧
      ∀ k, k < s.S → (get s.sms (g * s.S + k)).fin = 0 := by
    intro g hg
    apply level_quiet _ _ _ _ _ _ (i1.lv1 g hg) (i2.w1 g hg) hS (hgp g hg).1
    · intro k hk; exact (hsm _ (idx1 hg hk)).1
    · exact (hgp g hg).2
    · intro k hk hf
      have hm : g * s.S + k < s.G * s.S := idx1 hg hk
      simp only [busy1, parBusy, (L2 _ hm).2.1, ite_true]
      simpa using hf
  -- layer 0: driver → GPUs
  have L0 : levelIdle s.l0 = true ∧ s.l0.unfin = 0 ∧ ∀ g, g < s.G → (get s.gpus g).fin = 0 := by
    apply level_quiet _ _ _ _ _ _ i1.lv0 i2.w0 hG hd
    · intro g hg; exact (hgp g hg).1
    · exact hc0
    · intro g hg hf
      simp only [busy0, parBusy, (L1 g hg).2.1, ite_true]
      simpa using hf
  simp only [finished, L0.1, Bool.true_and, Bool.and_eq_true, List.all_eq_true, List.mem_range, beq_iff_eq]
  refine ⟨⟨?_, ?_⟩, ?_⟩
  · intro g hg; exact ⟨(L1 g hg).1, L0.2.2 g hg⟩
  · intro m hm
    refine ⟨(L2 m hm).1, ?_⟩
    have hS0 : 0 < s.S := hS
    have hg : m / s.S < s.G := (Nat.div_lt_iff_lt_mul hS0).2 hm
    have := (L1 (m / s.S) hg).2.2 (m % s.S) (Nat.mod_lt _ hS0)
    rwa [Nat.div_add_mod' m s.S] at this
  · intro u hu
    have hC0 : 0 < s.C := hC
    have hm : u / s.C < s.G * s.S := (Nat.div_lt_iff_lt_mul hC0).2 hu
    have hfin := (L2 (u / s.C) hm).2.2 (u % s.C) (Nat.mod_lt _ hC0)
    rw [Nat.div_add_mod' u s.C] at hfin
    refine ⟨?_, hfin⟩
    by_cases h : (get s.subs u).rem = 0
    · exact h
    · have := i2.run _ hu (by omega); rw [hsu _ hu] at this; cases this

end C20
