import MgpuModel.C08
import MgpuProofs.C08PartInv
import MgpuProofs.C08ResInv
/-! # C08 — fairness between compute units in the partition algorithm (helper lemmas)

The loop of `Next` starts at `nextPartition` and visits every CU once; after a dispatch to CU `i`
the next call starts at `i + 1`. A CU with a free slot and groups of its own partition left is
therefore reached before the rotation pointer passes it: every call dispatches, and each dispatch
to another CU moves the pointer strictly closer. -/
namespace C08

/-- partition `j` still has a group of its own to offer -/
def hasOwnP (P : PState) (j : Nat) : Prop :=
  P.disp.getD j 0 < P.per ∧ ((P.cur.getD j none).isSome ∨ P.rem.getD j [] ≠ [])

def hasOwn (s : RState) (j : Nat) : Prop := hasOwnP s.p j

/-- CU `j` has a free slot and its partition has own work -/
def Eligible (s : RState) (j : Nat) : Prop := j < s.p.cur.size ∧ 0 < s.free.getD j 0 ∧ hasOwn s j

/-- how many CUs the rotation visits before it reaches `j` -/
def rdist (s : RState) (j : Nat) : Nat := (j + s.p.cur.size - s.p.next % s.p.cur.size) % s.p.cur.size

instance (P : PState) (j : Nat) : Decidable (hasOwnP P j) := by unfold hasOwnP; exact inferInstance
instance (s : RState) (j : Nat) : Decidable (hasOwn s j) := by unfold hasOwn; exact inferInstance
instance (s : RState) (j : Nat) : Decidable (Eligible s j) := by unfold Eligible; exact inferInstance

/-! ## modular arithmetic of the rotation -/

theorem mod_add_small (a d n : Nat) (ha : a < n) (hd : d < n) :
    (a + d) % n = if a + d < n then a + d else a + d - n := by
  split
  · rename_i h; exact Nat.mod_eq_of_lt h
  · rename_i h
    rw [Nat.mod_eq_sub_mod (by omega)]
    exact Nat.mod_eq_of_lt (by omega)

theorem shift_mod (x d n : Nat) : (x + d) % n = (x % n + d) % n := by
  rw [Nat.mod_add_mod]

/-- `rdist` is the index at which the loop is at CU `j` -/
theorem rdist_spec (n nx j : Nat) (hj : j < n) : ((j + n - nx % n) % n + nx) % n = j := by
  have hn : 0 < n := by omega
  have hm := Nat.mod_lt nx hn
  have e1 : (j + n - nx % n) % n = if nx % n ≤ j then j - nx % n else j + n - nx % n := by
    split
    · rename_i h
      have : j + n - nx % n = (j - nx % n) + n := by omega
      rw [this, Nat.add_mod_right]
      exact Nat.mod_eq_of_lt (by omega)
    · rename_i h
      exact Nat.mod_eq_of_lt (by omega)
  rw [e1]
  have hdm := Nat.div_add_mod nx n
  split
  · rename_i h
    have e : j - nx % n + nx = j + n * (nx / n) := by omega
    rw [e, Nat.add_mul_mod_self_left, Nat.mod_eq_of_lt hj]
  · rename_i h
    have e : j + n - nx % n + nx = j + n * (nx / n + 1) := by rw [Nat.mul_add, Nat.mul_one]; omega
    rw [e, Nat.add_mul_mod_self_left, Nat.mod_eq_of_lt hj]

/-- two different loop indices are at different CUs -/
theorem rot_inj (n nx a b : Nat) (hab : a < b) (hb : b < n) : (a + nx) % n ≠ (b + nx) % n := by
  have hn : 0 < n := by omega
  have e : (b + nx) % n = ((a + nx) % n + (b - a)) % n := by
    rw [← shift_mod]; congr 1; omega
  have ha := Nat.mod_lt (a + nx) hn
  rw [e, mod_add_small _ _ n ha (by omega)]
  split <;> omega

/-- after a dispatch at loop index `a < d0` the pointer is `d0 - a - 1` CUs before `j` -/
theorem rdist_after (n nx a d0 : Nat) (had : a < d0) (hd : d0 < n) :
    ((d0 + nx) % n + n - ((a + nx) % n + 1) % n) % n = d0 - a - 1 := by
  have hn : 0 < n := by omega
  have e : (d0 + nx) % n = ((a + nx) % n + (d0 - a)) % n := by
    rw [← shift_mod]; congr 1; omega
  have ha := Nat.mod_lt (a + nx) hn
  generalize (a + nx) % n = x at e ha
  rw [e, mod_add_small _ _ n ha (by omega)]
  have e2 : (x + 1) % n = if x + 1 < n then x + 1 else 0 := by
    split
    · rename_i h; exact Nat.mod_eq_of_lt h
    · rename_i h
      have : x + 1 = n := by omega
      rw [this, Nat.mod_self]
  rw [e2]
  split <;> split
  · rename_i h1 h2
    have : x + (d0 - a) + n - (x + 1) = (d0 - a - 1) + n := by omega
    rw [this, Nat.add_mod_right]; exact Nat.mod_eq_of_lt (by omega)
  · rename_i h1 h2
    omega
  · rename_i h1 h2
    have : x + (d0 - a) - n + n - (x + 1) = d0 - a - 1 := by omega
    rw [this]; exact Nat.mod_eq_of_lt (by omega)
  · rename_i h1 h2
    have : x + (d0 - a) - n + n - 0 = (d0 - a - 1) + n := by omega
    rw [this, Nat.add_mod_right]; exact Nat.mod_eq_of_lt (by omega)

/-! ## the loop reaches an eligible CU -/

/-- what iterations at other CUs leave alone -/
structure Same (j : Nat) (P Q : PState) : Prop where
  disp : Q.disp = P.disp
  next : Q.next = P.next
  nd : Q.nd = P.nd
  per : Q.per = P.per
  numWG : Q.numWG = P.numWG
  size : Q.cur.size = P.cur.size
  curj : Q.cur.getD j none = P.cur.getD j none
  remj : Q.rem.getD j [] = P.rem.getD j []

theorem Same.refl (j : Nat) (P : PState) : Same j P P := ⟨rfl, rfl, rfl, rfl, rfl, rfl, rfl, rfl⟩

theorem Same.trans {j : Nat} {P Q R : PState} (a : Same j P Q) (b : Same j Q R) : Same j P R :=
  ⟨b.disp.trans a.disp, b.next.trans a.next, b.nd.trans a.nd, b.per.trans a.per, b.numWG.trans a.numWG,
   b.size.trans a.size, b.curj.trans a.curj, b.remj.trans a.remj⟩

theorem pNextWG_same (P : PState) (i j : Nat) (hij : i ≠ j) : Same j P (pNextWG P i).1 := by
  unfold pNextWG
  split
  · split
    · split
      · exact Same.refl j P
      · exact Same.refl j P
    · exact Same.refl j P
  · split
    · exact Same.refl j P
    · split
      · exact Same.refl j P
      · refine ⟨rfl, rfl, rfl, rfl, rfl, by simp, ?_, ?_⟩
        · simp only [getD_set]; rw [if_neg (fun h => hij h.1)]
        · simp only [getD_set]; rw [if_neg (fun h => hij h.1)]

/-- a partition with own work offers one of its own groups -/
theorem pNextWG_own (P : PState) (j : Nat) (h : hasOwnP P j) :
    ∃ wg, (pNextWG P j).2 = some (wg, j) ∧ (pNextWG P j).1.cur.size = P.cur.size := by
  obtain ⟨hd, hw⟩ := h
  unfold pNextWG
  rw [if_neg (by omega)]
  cases hc : P.cur.getD j none with
  | some wg => exact ⟨wg, rfl, rfl⟩
  | none =>
    rw [hc] at hw
    simp only [Option.isSome_none, Bool.false_eq_true, false_or] at hw
    cases hr : P.rem.getD j [] with
    | nil => exact absurd hr hw
    | cons wg r => exact ⟨wg, rfl, by simp⟩

theorem hasOwnP_same (j : Nat) (P Q : PState) (h : Same j P Q) (ho : hasOwnP P j) : hasOwnP Q j := by
  unfold hasOwnP at ho ⊢
  rw [h.disp, h.per, h.curj, h.remj]
  exact ho

/-- the loop of `Next`, started at or before the index `d0` at which it is at CU `j`, dispatches
    at some index `≤ d0`; the rotation pointer ends right behind the CU served -/
theorem goF_reaches (n : Nat) (ok : Nat → Bool) (j nx d0 : Nat) (hd0 : d0 < n) (hj : (d0 + nx) % n = j)
    (hokj : ok j = true) (P0 : PState) (hnx : P0.next = nx) (hsz : P0.cur.size = n) (ho : hasOwnP P0 j) :
    ∀ (k idx : Nat) (P : PState) (seen : List Bool), Same j P0 P → idx ≤ d0 → k + idx = n →
    ∃ a wg, idx ≤ a ∧ a ≤ d0 ∧ (pNextF.go n ok k idx P seen).2.2 = some ((a + nx) % n, wg) ∧
      (pNextF.go n ok k idx P seen).1.next = (a + nx) % n + 1 ∧
      (pNextF.go n ok k idx P seen).1.cur.size = n := by
  intro k
  induction k with
  | zero => intro idx P seen _ h1 h2; omega
  | succ k ih =>
    intro idx P seen hs h1 h2
    rw [goF_succ]
    have hPn : P.next = nx := by rw [hs.next, hnx]
    rw [hPn]
    by_cases hidx : idx = d0
    · subst hidx
      rw [hj]
      obtain ⟨wg, e, esz⟩ := pNextWG_own P j (hasOwnP_same j P0 P hs ho)
      generalize pNextWG P j = r at e esz
      obtain ⟨P1, o⟩ := r
      simp only at e esz
      subst e
      simp only [hokj, if_true]
      refine ⟨idx, wg, Nat.le_refl _, Nat.le_refl _, by rw [hj], by rw [hj], ?_⟩
      simp only [Array.size_setIfInBounds]
      rw [esz, hs.size, hsz]
    · have hne : (idx + nx) % n ≠ j := by
        rw [← hj]; exact rot_inj n nx idx d0 (by omega) hd0
      have hs1 := hs.trans (pNextWG_same P ((idx + nx) % n) j hne)
      generalize pNextWG P ((idx + nx) % n) = r at hs1
      obtain ⟨P1, o⟩ := r
      simp only at hs1
      cases o with
      | none =>
        simp only
        obtain ⟨a, wg, ha1, ha2, rest⟩ := ih (idx + 1) P1 seen hs1 (by omega) (by omega)
        exact ⟨a, wg, by omega, ha2, rest⟩
      | some p =>
        obtain ⟨wg, from_⟩ := p
        simp only
        cases hok : ok ((idx + nx) % n) with
        | true =>
          simp only [if_true]
          refine ⟨idx, wg, Nat.le_refl _, by omega, rfl, rfl, ?_⟩
          simp only [Array.size_setIfInBounds]
          rw [hs1.size, hsz]
        | false =>
          simp only [Bool.false_eq_true, if_false]
          obtain ⟨a, wg', ha1, ha2, rest⟩ := ih (idx + 1) P1 (seen ++ [true]) hs1 (by omega) (by omega)
          exact ⟨a, wg', by omega, ha2, rest⟩

/-! ## one call, and runs -/

theorem rdist_lt (s : RState) (j : Nat) (hj : j < s.p.cur.size) : rdist s j < s.p.cur.size :=
  Nat.mod_lt _ (by omega)

/-- one call of `Next` in a state where CU `j` is eligible -/
theorem fair_step (s : RState) (hnd : s.p.nd < s.p.numWG) (j : Nat) (he : Eligible s j) :
    ∃ i wg, (rStep s .next).2 = some (i, wg) ∧
      (i = j ∨ (rdist (rStep s .next).1 j < rdist s j ∧
        (Eligible (rStep s .next).1 j ∨ ¬ hasOwn (rStep s .next).1 j))) := by
  obtain ⟨hj, hfree, ho⟩ := he
  have hd0 := rdist_lt s j hj
  have hspec : (rdist s j + s.p.next) % s.p.cur.size = j := rdist_spec _ _ _ hj
  obtain ⟨a, wg, _, ha, e1, e2, e3⟩ := goF_reaches s.p.cur.size (fun i => decide (0 < s.free.getD i 0)) j s.p.next
    (rdist s j) hd0 hspec (by simpa using hfree) s.p rfl rfl ho s.p.cur.size 0 s.p [] (Same.refl j s.p)
    (Nat.zero_le _) (by omega)
  rw [rStep_next]
  unfold pNextF
  rw [if_neg (by omega)]
  generalize pNextF.go s.p.cur.size (fun i => decide (0 < s.free.getD i 0)) s.p.cur.size 0 s.p [] = r at e1 e2 e3
  obtain ⟨p', seen, o⟩ := r
  simp only at e1 e2 e3
  subst e1
  refine ⟨_, wg, rfl, ?_⟩
  by_cases had : a = rdist s j
  · left; rw [had]; exact hspec
  · right
    have hlt : a < rdist s j := by omega
    have hne : (a + s.p.next) % s.p.cur.size ≠ j := by
      rw [← hspec]; exact rot_inj _ _ _ _ hlt hd0
    constructor
    · show (j + p'.cur.size - p'.next % p'.cur.size) % p'.cur.size < rdist s j
      rw [e2, e3]
      have := rdist_after s.p.cur.size s.p.next a (rdist s j) hlt hd0
      rw [hspec] at this
      rw [this]; omega
    · by_cases hown : hasOwn ⟨p', s.free.setIfInBounds ((a + s.p.next) % s.p.cur.size) (s.free.getD ((a + s.p.next) % s.p.cur.size) 0 - 1),
          s.res.setIfInBounds ((a + s.p.next) % s.p.cur.size) (s.res.getD ((a + s.p.next) % s.p.cur.size) [] ++ [wg])⟩ j
      · left
        refine ⟨by simp only [e3]; exact hj, ?_, hown⟩
        simp only [getD_set]
        rw [if_neg (fun h => hne h.1)]
        exact hfree
      · right; exact hown

/-- completions do not hurt: an eligible CU stays eligible and the pointer does not move -/
theorem fair_free (s : RState) (j cu k : Nat) (he : Eligible s j) :
    Eligible (rStep s (.free cu k)).1 j ∧ rdist (rStep s (.free cu k)).1 j = rdist s j ∧
    (rStep s (.free cu k)).2 = none := by
  obtain ⟨hj, hfree, ho⟩ := he
  rw [rStep_free]
  split
  · refine ⟨⟨hj, ?_, ho⟩, rfl, rfl⟩
    simp only [getD_set]
    split
    · omega
    · exact hfree
  · exact ⟨⟨hj, hfree, ho⟩, rfl, rfl⟩

theorem rRun_cons_snd (op : ROp) (ops : List ROp) (s : RState) :
    (rRun (op :: ops) s).2 = (match (rStep s op).2 with | none => [] | some d => [d]) ++ (rRun ops (rStep s op).1).2 := by
  rw [rRun]
  generalize rStep s op = r
  obtain ⟨s1, o⟩ := r
  cases o <;> rfl

/-- what a run needs for the fairness argument: own work implies outstanding work-groups -/
def Live (s : RState) : Prop := ∀ i, hasOwn s i → s.p.nd < s.p.numWG

/-- run level: within `rdist s j + 1` calls CU `j` is served, unless its own work ran out -/
theorem no_starvation_aux : ∀ (ops : List ROp) (s : RState) (j : Nat), Eligible s j →
    (∀ pre, pre <+: ops → Live (rRun pre s).1) → rdist s j < nexts ops →
    (∃ d ∈ (rRun ops s).2, d.1 = j) ∨ (∃ pre, pre <+: ops ∧ ¬ hasOwn (rRun pre s).1 j) := by
  intro ops
  induction ops with
  | nil => intro s j _ _ hk; simp [nexts] at hk
  | cons op ops ih =>
    intro s j he hlive hk
    have hlive' : ∀ pre, pre <+: ops → Live (rRun pre (rStep s op).1).1 := by
      intro pre hp
      have := hlive (op :: pre) (List.cons_prefix_cons.mpr ⟨rfl, hp⟩)
      rw [rRun_cons_fst] at this
      exact this
    have lift : (∃ d ∈ (rRun ops (rStep s op).1).2, d.1 = j) ∨
        (∃ pre, pre <+: ops ∧ ¬ hasOwn (rRun pre (rStep s op).1).1 j) →
        (∃ d ∈ (rRun (op :: ops) s).2, d.1 = j) ∨ (∃ pre, pre <+: (op :: ops) ∧ ¬ hasOwn (rRun pre s).1 j) := by
      intro h
      rcases h with ⟨d, hd, e⟩ | ⟨pre, hp, hno⟩
      · left
        refine ⟨d, ?_, e⟩
        rw [rRun_cons_snd]
        exact List.mem_append_right _ hd
      · right
        refine ⟨op :: pre, List.cons_prefix_cons.mpr ⟨rfl, hp⟩, ?_⟩
        rw [rRun_cons_fst]; exact hno
    cases op with
    | next =>
      have hnd : s.p.nd < s.p.numWG := by
        have := hlive [] (List.nil_prefix)
        exact this j he.2.2
      obtain ⟨i, wg, e, hcase⟩ := fair_step s hnd j he
      rw [nexts_cons_next] at hk
      rcases hcase with rfl | ⟨hlt, hel | hno⟩
      · left
        refine ⟨(i, wg), ?_, rfl⟩
        rw [rRun_cons_snd, e]
        simp
      · exact lift (ih _ j hel hlive' (by omega))
      · right
        refine ⟨[.next], List.cons_prefix_cons.mpr ⟨rfl, List.nil_prefix⟩, ?_⟩
        rw [rRun_cons_fst]
        exact hno
    | free cu k =>
      obtain ⟨hel, hd, _⟩ := fair_free s j cu k he
      rw [nexts_cons_free] at hk
      exact lift (ih _ j hel hlive' (by rw [hd]; exact hk))

end C08
