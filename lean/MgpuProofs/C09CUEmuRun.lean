import MgpuProofs.C09CUEmuWgc
/-! # C09, emulation compute unit — runs -/
namespace C09.CUSide

/-- fresh ids and time order (any tie-break), WITHOUT the whole-second hypothesis -/
def EOkNoH (s : Emu) : EOp → Prop
  | .deliver id => id ∉ s.got ∧ id ∉ s.inbuf
  | o => Legal s o

/-- fresh ids, events fired in ANY order (only pending events fire), no MapWGReq taken at a whole second -/
def EOkAnyOrder (s : Emu) : EOp → Prop
  | .deliver id => id ∉ s.got ∧ id ∉ s.inbuf
  | .tick t => t ∈ s.ticks ∧ (s.inbuf ≠ [] → ¬ s.P ∣ t)
  | .emu t => t ∈ s.emus
  | .wgc t id => (t, id) ∈ s.wgcs
  | _ => True

instance (s : Emu) (o : EOp) : Decidable (EOk s o) := by
  cases o <;> simp only [EOk] <;> infer_instance
instance (s : Emu) (o : EOp) : Decidable (EOkNoH s o) := by
  cases o <;> simp only [EOkNoH] <;> infer_instance
instance (s : Emu) (o : EOp) : Decidable (EOkAnyOrder s o) := by
  cases o <;> simp only [EOkAnyOrder] <;> infer_instance

/-- every op of the run is allowed in the state it is applied to -/
def RunOk (ok : Emu → EOp → Prop) : Emu → List EOp → Prop
  | _, [] => True
  | s, o :: os => ok s o ∧ RunOk ok (estep s o) os

instance (ok : Emu → EOp → Prop) [∀ s o, Decidable (ok s o)] : ∀ (s : Emu) (ops : List EOp), Decidable (RunOk ok s ops)
  | _, [] => isTrue trivial
  | s, o :: os =>
    have := instDecidableRunOk ok (estep s o) os
    inferInstanceAs (Decidable (ok s o ∧ RunOk ok (estep s o) os))

theorem einv_run {s : Emu} (h : EInv s) : ∀ (ops : List EOp), RunOk EOk s ops → EInv (erun s ops) := by
  intro ops
  induction ops generalizing s with
  | nil => intro _; exact h
  | cons o os ih =>
    intro hr
    exact ih (einv_step h o hr.1) hr.2

/-- what holds when nothing is left to fire -/
theorem einv_quiescent {s : Emu} (h : EInv s) (he : s.emus = []) (hw : s.wgcs = []) :
    s.queue = [] ∧ s.wfs = [] ∧ s.finished = [] ∧ ∀ x ∈ s.got, x ∈ flat s := by
  have hq : s.queue = [] := by
    false_or_by_contra
    rename_i hc
    exact h.q_emu hc he
  have hwf : s.wfs = [] := by
    apply List.eq_nil_iff_forall_not_mem.mpr
    intro x hx
    rcases h.wfs_cov x hx with h1 | h1
    · rw [hq] at h1; cases h1
    · unfold wids at h1; rw [hw] at h1; cases h1
  have hf : s.finished = [] := by
    false_or_by_contra
    rename_i hc
    rcases h.fin_cov hc with h1 | ⟨p, hp, _⟩
    · exact h1 hwf
    · rw [hw] at hp; cases hp
  refine ⟨hq, hwf, hf, ?_⟩
  intro x hx
  rcases h.got_cov x hx with h1 | h1 | h1
  · rw [hwf] at h1; cases h1
  · rw [hf] at h1; cases h1
  · exact h1

/-! ### without any order: only "no unknown id" survives -/

structure OInv (s : Emu) : Prop where
  q_got : ∀ x ∈ s.queue, x ∈ s.got
  fin_got : ∀ x ∈ s.finished, x ∈ s.got
  wid_got : ∀ p ∈ s.wgcs, p.2 ∈ s.got
  sent_got : ∀ x ∈ flat s, x ∈ s.got

theorem oinv_tickLater {s : Emu} (h : OInv s) : OInv (tickLater s) := by
  unfold tickLater
  dsimp only
  split
  · split
    · exact h
    · exact ⟨h.q_got, h.fin_got, h.wid_got, h.sent_got⟩
  · exact ⟨h.q_got, h.fin_got, h.wid_got, h.sent_got⟩

theorem oinv_step {s : Emu} (h : OInv s) (o : EOp) (hok : EOkAnyOrder s o) : OInv (estep s o) := by
  cases o with
  | deliver id =>
    show OInv (deliver s id).1
    unfold deliver
    split
    · exact h
    · dsimp only
      split
      · exact oinv_tickLater ⟨h.q_got, h.fin_got, h.wid_got, h.sent_got⟩
      · exact ⟨h.q_got, h.fin_got, h.wid_got, h.sent_got⟩
  | fill =>
    show OInv (fill s).1
    unfold fill
    split
    · exact h
    · exact ⟨h.q_got, h.fin_got, h.wid_got, h.sent_got⟩
  | take =>
    show OInv (take s).1
    unfold take
    split
    · exact h
    · dsimp only
      split
      · exact oinv_tickLater ⟨h.q_got, h.fin_got, h.wid_got, h.sent_got⟩
      · exact ⟨h.q_got, h.fin_got, h.wid_got, h.sent_got⟩
  | tick t =>
    show OInv (procMap { s with ticks := s.ticks.erase t, now := t })
    unfold procMap
    dsimp only
    split
    · exact ⟨h.q_got, h.fin_got, h.wid_got, h.sent_got⟩
    · rename_i id rest _
      have key : ∀ s' : Emu, s'.queue = s.queue ++ [id] → s'.finished = s.finished → s'.wgcs = s.wgcs →
          s'.sent = s.sent → s'.got = s.got ++ [id] → OInv s' := by
        intro s' e1 e2 e3 e4 e5
        refine ⟨?_, ?_, ?_, ?_⟩
        · intro x hx
          rw [e5]; rw [e1] at hx
          rcases List.mem_append.mp hx with hx | hx
          · exact List.mem_append_left _ (h.q_got x hx)
          · exact List.mem_append_right _ hx
        · intro x hx; rw [e5]; rw [e2] at hx; exact List.mem_append_left _ (h.fin_got x hx)
        · intro p hp; rw [e5]; rw [e3] at hp; exact List.mem_append_left _ (h.wid_got p hp)
        · intro x hx
          unfold flat at hx
          rw [e5]; rw [e4] at hx; exact List.mem_append_left _ (h.sent_got x hx)
      by_cases hc : s.nextTick ≤ t
      · simp only [hc, if_true]; exact key _ rfl rfl rfl rfl rfl
      · simp only [hc, if_false]; exact key _ rfl rfl rfl rfl rfl
  | emu t =>
    show OInv (runEmu { s with emus := s.emus.erase t, now := t })
    unfold runEmu
    refine ⟨(by intro x hx; cases hx), h.fin_got, ?_, h.sent_got⟩
    intro p hp
    rcases List.mem_append.mp hp with hp | hp
    · exact h.wid_got p hp
    · obtain ⟨x, hx, rfl⟩ := List.mem_map.mp hp
      exact h.q_got x hx
  | wgc t id =>
    have hid : id ∈ s.got := h.wid_got _ hok
    have hfin : ∀ x ∈ (if id ∈ s.finished then s.finished else s.finished ++ [id]), x ∈ s.got := by
      intro x hx
      split at hx
      · exact h.fin_got x hx
      · rcases List.mem_append.mp hx with hx | hx
        · exact h.fin_got x hx
        · simp at hx; rw [hx]; exact hid
    have hw : ∀ p ∈ s.wgcs.erase (t, id), p.2 ∈ s.got := fun p hp => h.wid_got p (List.mem_of_mem_erase hp)
    show OInv (wgComplete { s with wgcs := s.wgcs.erase (t, id), now := t } id)
    unfold wgComplete
    dsimp only
    split
    · exact ⟨h.q_got, hfin, hw, h.sent_got⟩
    · split
      · refine ⟨h.q_got, (by intro x hx; cases hx), hw, ?_⟩
        intro x hx
        have : x ∈ flat s ∨ x ∈ (if id ∈ s.finished then s.finished else s.finished ++ [id]) := by
          simpa [flat] using hx
        rcases this with hx | hx
        · exact h.sent_got x hx
        · exact hfin x hx
      · refine ⟨h.q_got, hfin, ?_, h.sent_got⟩
        intro p hp
        rcases List.mem_append.mp hp with hp | hp
        · exact hw p hp
        · simp at hp; rw [hp]; exact hid

theorem oinv_run {s : Emu} (h : OInv s) : ∀ (ops : List EOp), RunOk EOkAnyOrder s ops → OInv (erun s ops) := by
  intro ops
  induction ops generalizing s with
  | nil => intro _; exact h
  | cons o os ih =>
    intro hr
    exact ih (oinv_step h o hr.1) hr.2

end C09.CUSide
