import MgpuProofs.C09CUEmuWgc
/-! # C09, emulation compute unit — runs -/
namespace C09.CUSide

/-- the bookkeeping invariant along any run with fresh ids in which only pending
    WGCompleteEvents fire (any order) -/
theorem ninv_run {s : Emu} (h : NInv s) : ∀ (ops : List EOp), RunOk EOkLoose s ops → NInv (erun s ops) := by
  intro ops
  induction ops generalizing s with
  | nil => intro _; exact h
  | cons o os ih =>
    intro hr
    exact ih (ninv_step h o hr.1) hr.2

/-- the time invariant along any run of a time-ordered engine (any tie-break, no hypothesis on
    whole seconds) -/
theorem etime_run {s : Emu} (h : ETime s) : ∀ (ops : List EOp), RunOk EOkNoH s ops → ETime (erun s ops) := by
  intro ops
  induction ops generalizing s with
  | nil => intro _; exact h
  | cons o os ih =>
    intro hr
    exact ih (etime_step h o (eokNoH_legal hr.1)) hr.2

/-- whatever the event order: no completion event pending and nothing queued ⇒ every request
    taken is in a message and the bookkeeping is empty -/
theorem ninv_quiescent {s : Emu} (h : NInv s) (hw : s.wgcs = []) (hq : s.queue = []) :
    s.wfs = [] ∧ s.finished = [] ∧ ∀ x ∈ s.got, x ∈ flat s := by
  have hwf : s.wfs = [] := by
    apply List.eq_nil_iff_forall_not_mem.mpr
    intro x hx
    rcases h.core.wfs_cov x hx with h1 | h1
    · rw [hq] at h1; cases h1
    · unfold wids at h1; rw [hw] at h1; cases h1
  have hf : s.finished = [] := by
    false_or_by_contra
    rename_i hc
    rcases h.fin_cov hc with h1 | h1
    · exact h1 hwf
    · exact h1 hw
  refine ⟨hwf, hf, ?_⟩
  intro x hx
  rcases h.core.got_cov x hx with h1 | h1 | h1
  · rw [hwf] at h1; cases h1
  · rw [hf] at h1; cases h1
  · exact h1

/-- time-ordered engine: no emulation and no completion event pending ⇒ nothing is queued either -/
theorem einv_quiescent {s : Emu} (h : NInv s) (hT : ETime s) (he : s.emus = []) (hw : s.wgcs = []) :
    s.queue = [] ∧ s.wfs = [] ∧ s.finished = [] ∧ ∀ x ∈ s.got, x ∈ flat s := by
  have hq : s.queue = [] := by
    false_or_by_contra
    rename_i hc
    exact hT.q_emu hc he
  exact ⟨hq, ninv_quiescent h hw hq⟩

end C09.CUSide
