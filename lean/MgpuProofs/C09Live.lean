import MgpuProofs.C09Once2
/-! # C09 — progress lemmas for the dispatcher tick: every enabled action fires, and a tick without
    progress means the dispatcher waits for something an Akita wake-up resolves. -/
namespace C09

/-! ## logs are only extended by `MapWGReq` / kernel responses -/

theorem completeOne_log (cp : CP) (i id : Nat) : (completeOne cp i id).log = cp.log := by
  unfold completeOne
  cases hf : (cp.disp i).inflight.find? (·.1 = id) with
  | none => simp only [hf]
  | some e =>
    obtain ⟨x, dl⟩ := e
    simp only [hf]
    cases free (cp.pool.getD dl.cu default) dl.key <;> rfl

theorem consume_log (i : Nat) : ∀ (ids : List Nat) (cp : CP), (consume i ids cp).1.log = cp.log := by
  intro ids
  induction ids with
  | nil => intro cp; rfl
  | cons id ids ih =>
    intro cp
    simp only [consume]
    split
    · rw [ih, completeOne_log]
    · exact ih cp

theorem procMsgs_log (i : Nat) : ∀ (n : Nat) (cp : CP), (procMsgs i n cp).1.log = cp.log := by
  intro n
  induction n with
  | zero => intro cp; rfl
  | succ n ih =>
    intro cp
    unfold procMsgs
    cases hcu : cp.cuIn with
    | nil => rfl
    | cons ids rest =>
      simp only []
      have h1 := consume_log i ids cp
      split
      · rfl
      · split
        · exact h1
        · split
          · rw [ih]; exact h1
          · exact h1

/-! ## B2: a completed kernel is answered as soon as the driver-facing port has room -/

theorem completeKernel_fires (cp : CP) (i : Nat) (k : Kern) (hk : (cp.disp i).kern = some k)
    (hr : 0 < cp.drvRoom) :
    (completeKernel cp i).2 = true ∧ (completeKernel cp i).1.log = .rsp k.id :: cp.log ∧
    (completeKernel cp i).1.fault = cp.fault := by
  unfold completeKernel
  have hne : ¬ cp.drvRoom = 0 := by omega
  simp [hk, hne, CP.emit, CP.setDisp]

theorem completed_kernel_is_answered (cp : CP) (i : Nat) (k : Kern)
    (hc : (cp.disp i).cycleLeft = 0) (hk : (cp.disp i).kern = some k)
    (hkc : kernelCompleted (cp.disp i) = true) (hr : 0 < cp.drvRoom) :
    (dispTick cp i).2 = true ∧ (dispTick cp i).1.log = .rsp k.id :: cp.log := by
  obtain ⟨f1, f2, _⟩ := completeKernel_fires cp i k hk hr
  unfold dispTick
  have hc0 : ¬ (cp.disp i).cycleLeft > 0 := by omega
  have hks : (cp.disp i).kern.isSome = true := by rw [hk]; rfl
  simp only [hc0, if_false, hks, hkc, if_true]
  by_cases hf : (completeKernel cp i).1.fault.isSome = true
  · simp only [hf, if_true]; exact ⟨f1, f2⟩
  · simp only [hf, Bool.false_eq_true, if_false]
    refine ⟨by rw [f1]; rfl, ?_⟩
    rw [procMsgs_log]; exact f2

/-! ## B3: a placed / admitted work-group is sent as soon as the CU-facing port has room -/

theorem tail_fires (cp1 : CP) (i : Nat) (dl : DLoc) (hf : cp1.fault = none) (hr : 0 < cp1.cuRoom) :
    (tailF cp1 i (some dl)).2 = true ∧
    (tailF cp1 i (some dl)).1.log = .map cp1.nextReq dl.cu dl.launch dl.idx dl.locs :: cp1.log := by
  unfold tailF
  have hne : ¬ cp1.cuRoom = 0 := by omega
  simp only [hf, Option.isSome_none, hne, if_false]
  by_cases hb : dl.locs.length > 16
  · simp only [hb, if_true]; exact ⟨rfl, rfl⟩
  · simp only [hb, if_false]; exact ⟨rfl, rfl⟩

/-- retry after back-pressure succeeds as soon as the port has room -/
theorem placed_group_is_sent (cp : CP) (i : Nat) (dl : DLoc) (hf : cp.fault = none)
    (hcw : (cp.disp i).currWG = some dl) (hr : 0 < cp.cuRoom) :
    (dispatchNextWG cp i).2 = true ∧
    (dispatchNextWG cp i).1.log = .map cp.nextReq dl.cu dl.launch dl.idx dl.locs :: cp.log := by
  rw [dispatchNextWG_eq, pre_some cp i dl hcw]
  exact tail_fires cp i dl hf hr

theorem algNext_cuRoom (cp : CP) (i : Nat) : (algNext cp i).1.cuRoom = cp.cuRoom := by
  cases hak : (cp.disp i).alg.kern with
  | none => rw [algNext_kern_none cp i hak]
  | some k =>
    unfold algNext
    simp only [hak]
    cases hc : (cp.disp i).alg.currWG with
    | none =>
      simp only []
      rcases ht : tryCUs cp.nextKey (k.dem (cp.disp i).alg.pos)
        (cuOrder cp.cfg.greedy cp.pool.length (cp.disp i).alg.nextCU) cp.pool with ⟨r, pool'⟩
      cases r <;> rfl
    | some w =>
      simp only []
      rcases ht : tryCUs w.1 (k.dem w.2)
        (cuOrder cp.cfg.greedy cp.pool.length (cp.disp i).alg.nextCU) cp.pool with ⟨r, pool'⟩
      cases r <;> rfl

/-- a work-group admitted by some CU in this very call is sent in the same call -/
theorem admitted_group_is_sent (cp : CP) (i : Nat) (cp1 : CP) (dl : DLoc)
    (hcw : (cp.disp i).currWG = none) (hn : (cp.disp i).alg.hasNext = true)
    (ha : algNext cp i = (cp1, some dl)) (hf : cp1.fault = none) (hr : 0 < cp.cuRoom) :
    (dispatchNextWG cp i).2 = true ∧
    (dispatchNextWG cp i).1.log = .map cp.nextReq dl.cu dl.launch dl.idx dl.locs :: cp.log := by
  rw [dispatchNextWG_eq, pre_none_yes cp i hcw hn]
  obtain ⟨a', _, hnr, hlog, _, _⟩ := algNext_shape cp i
  have hcr := algNext_cuRoom cp i
  rw [ha] at hnr hlog hcr ⊢
  simp only at hnr hlog hcr ⊢
  have := tail_fires (cp1.setDisp i { cp1.disp i with currWG := some dl }) i dl hf (by
    show 0 < cp1.cuRoom; omega)
  refine ⟨this.1, ?_⟩
  rw [this.2]
  show Ev.map cp1.nextReq dl.cu dl.launch dl.idx dl.locs :: cp1.log = _
  rw [hnr, hlog]

/-! ## B1: pending overhead counts down -/

theorem overhead_counts_down (cp : CP) (i c : Nat) (h : (cp.disp i).cycleLeft = c + 1) :
    dispTick cp i = (cp.setDisp i { cp.disp i with cycleLeft := c }, true) := by
  unfold dispTick
  have hpos : (cp.disp i).cycleLeft > 0 := by omega
  rw [if_pos hpos]
  simp only [h, Nat.add_sub_cancel]

/-! ## A (step form): the response is sent only after the whole grid was mapped -/

theorem rsp_only_after_grid_mapped_step (cp : CP) (i : Nat) (k : Kern) (p : List Nat) (cp' : CP)
    (hdc : DCI cp) (hg : GI cp p) (hk : (cp.disp i).kern = some k)
    (hkc : kernelCompleted (cp.disp i) = true) (h : completeKernel cp i = (cp', true)) :
    mapsOf cp'.log k.id = List.range k.numWG ∧ rspCount cp'.log k.id = 1 := by
  have hlog : cp'.log = .rsp k.id :: cp.log := by
    unfold completeKernel at h
    simp only [hk] at h
    by_cases hr : cp.drvRoom = 0
    · simp [hr] at h
    · simp only [hr, if_false, Prod.mk.injEq, and_true] at h
      subst h; rfl
  obtain ⟨r1, _, _, _⟩ := rsp_only_when_complete cp i k hdc hk hkc
  obtain ⟨b1, b2⟩ := hg.busy i k hk
  rw [hlog, mapsOf_cons_rsp, rspCount_cons_rsp, if_pos rfl, b1, b2, r1]
  exact ⟨rfl, rfl⟩

/-! ## B5: a tick without progress means the dispatcher is waiting -/

theorem tail_false_reason (cp1 : CP) (i : Nat) (cur : Option DLoc) (h : (tailF cp1 i cur).2 = false) :
    cur = none ∨ cp1.fault.isSome = true ∨ cp1.cuRoom = 0 := by
  cases cur with
  | none => exact Or.inl rfl
  | some dl =>
    by_cases hf : cp1.fault.isSome = true
    · exact Or.inr (Or.inl hf)
    · by_cases hr : cp1.cuRoom = 0
      · exact Or.inr (Or.inr hr)
      · exfalso
        have hnone : cp1.fault = none := by cases hx : cp1.fault <;> simp_all
        have := (tail_fires cp1 i dl hnone (by omega)).1
        rw [this] at h; cases h

theorem dispatchNextWG_false (cp : CP) (i : Nat) (hdc : DCI cp) (h : (dispatchNextWG cp i).2 = false) :
    (dispatchNextWG cp i).1.log = cp.log ∧
    (((dispatchNextWG cp i).1.disp i).currWG = none ∨ (dispatchNextWG cp i).1.fault.isSome = true ∨
      (dispatchNextWG cp i).1.cuRoom = 0) := by
  rw [dispatchNextWG_eq] at h ⊢
  obtain ⟨_, h2, _, hlog, _, _⟩ := pre_spec cp i hdc
  have s1 := (tail_spec (pre cp i).1 i (pre cp i).2).1 h
  rw [s1]
  refine ⟨hlog, ?_⟩
  rcases tail_false_reason _ i _ h with h' | h' | h'
  · left; rw [h2]; exact h'
  · right; left; exact h'
  · right; right; exact h'

theorem dispatchLoop_false (i n : Nat) (cp : CP) (h : (dispatchLoop i (n + 1) cp).2 = false) :
    dispatchLoop i (n + 1) cp = dispatchNextWG cp i := by
  simp only [dispatchLoop] at h ⊢
  by_cases hc : (!(dispatchNextWG cp i).2 || decide (((dispatchNextWG cp i).1.disp i).cycleLeft > 0)
      || (dispatchNextWG cp i).1.fault.isSome) = true
  · simp only [hc, if_true]
  · simp only [hc] at h; simp at h

theorem procMsgs_nil (i n : Nat) (cp : CP) (hcu : cp.cuIn = []) : procMsgs i (n + 1) cp = (cp, false) := by
  unfold procMsgs; simp only [hcu]

theorem procMsgs_not_mine (i n : Nat) (cp : CP) (ids : List Nat) (rest : List (List Nat))
    (hcu : cp.cuIn = ids :: rest)
    (hv : (ids.any fun id => (cp.disp i).inflight.any (·.1 = id)) = false) :
    procMsgs i (n + 1) cp = (cp, false) := by
  unfold procMsgs; simp only [hcu, hv]; rfl

/-- a head message that names one of the dispatcher's in-flight requests is processed -/
theorem procMsgs_mine (i n : Nat) (cp : CP) (ids : List Nat) (rest : List (List Nat))
    (hcu : cp.cuIn = ids :: rest)
    (hv : (ids.any fun id => (cp.disp i).inflight.any (·.1 = id)) = true) :
    (procMsgs i (n + 1) cp).2 = true := by
  unfold procMsgs; simp only [hcu, hv]
  split
  · rename_i h; simp at h
  · split
    · rfl
    · split <;> rfl

theorem procMsgs_false (i n : Nat) (cp : CP) (h : (procMsgs i (n + 1) cp).2 = false) :
    (procMsgs i (n + 1) cp).1 = cp ∧
    (cp.cuIn = [] ∨ ∃ ids rest, cp.cuIn = ids :: rest ∧
      ∀ id ∈ ids, ¬ (cp.disp i).inflight.any (·.1 = id) = true) := by
  cases hcu : cp.cuIn with
  | nil => rw [procMsgs_nil i n cp hcu]; exact ⟨rfl, Or.inl rfl⟩
  | cons ids rest =>
    cases hv : (ids.any fun id => (cp.disp i).inflight.any (·.1 = id)) with
    | true => rw [procMsgs_mine i n cp ids rest hcu hv] at h; cases h
    | false =>
      rw [procMsgs_not_mine i n cp ids rest hcu hv]
      refine ⟨rfl, Or.inr ⟨ids, rest, rfl, ?_⟩⟩
      intro id hid hc
      have : (ids.any fun id => (cp.disp i).inflight.any (·.1 = id)) = true :=
        List.any_eq_true.2 ⟨id, hid, hc⟩
      rw [hv] at this; cases this

/-- a dispatcher tick that reports no progress: no overhead is pending and nothing was emitted; the
    dispatcher is idle, or its answer waits for room on the driver-facing port, or no work-group could be
    sent (nothing placed / admitted, or the CU-facing port is full, or a fault stopped it); and — unless
    a fault stopped the tick — the head completion message, if any, is not for this dispatcher -/
theorem quiescent_is_waiting (cp : CP) (i : Nat) (cp' : CP) (hdc : DCI cp)
    (h : dispTick cp i = (cp', false)) :
    (cp.disp i).cycleLeft = 0 ∧ cp'.log = cp.log ∧
    ((cp.disp i).kern = none ∨ ∃ k, (cp.disp i).kern = some k ∧
      ((kernelCompleted (cp.disp i) = true ∧ cp.drvRoom = 0 ∧ cp' = cp) ∨
       (kernelCompleted (cp.disp i) = false ∧
         ((cp'.disp i).currWG = none ∨ cp'.fault.isSome = true ∨ cp'.cuRoom = 0)))) ∧
    (cp'.fault.isSome = false → cp'.cuIn = [] ∨ ∃ ids rest, cp'.cuIn = ids :: rest ∧
      ∀ id ∈ ids, ¬ (cp'.disp i).inflight.any (·.1 = id) = true) := by
  unfold dispTick at h
  by_cases hc : (cp.disp i).cycleLeft > 0
  · simp only [hc, if_true, Prod.mk.injEq] at h; simp at h
  · simp only [hc, if_false] at h
    have hc0 : (cp.disp i).cycleLeft = 0 := by omega
    generalize hr1 : (if (cp.disp i).kern.isSome = true then
        if kernelCompleted (cp.disp i) = true then completeKernel cp i else dispatchLoop i 8 cp
      else (cp, false)) = r1 at h
    -- what the tick tail tells about r1
    have hr : r1.1 = cp' ∧ r1.2 = false ∧
        (cp'.fault.isSome = false → cp'.cuIn = [] ∨ ∃ ids rest, cp'.cuIn = ids :: rest ∧
          ∀ id ∈ ids, ¬ (cp'.disp i).inflight.any (·.1 = id) = true) := by
      by_cases hf : r1.1.fault.isSome = true
      · simp only [hf, if_true] at h
        rw [h]
        refine ⟨rfl, rfl, ?_⟩
        intro hf'; rw [h] at hf; simp only at hf; rw [hf] at hf'; cases hf'
      · simp only [hf, Bool.false_eq_true, if_false, Prod.mk.injEq, Bool.or_eq_false_iff] at h
        obtain ⟨h1, h2, h3⟩ := h
        obtain ⟨p1, p2⟩ := procMsgs_false i 7 r1.1 h3
        rw [p1] at h1
        subst h1
        exact ⟨rfl, h2, fun _ => p2⟩
    obtain ⟨e1, e2, e3⟩ := hr
    cases hk : (cp.disp i).kern with
    | none =>
      simp only [hk, Option.isSome_none, Bool.false_eq_true, if_false] at hr1
      subst hr1
      simp only at e1
      subst e1
      exact ⟨hc0, rfl, Or.inl rfl, e3⟩
    | some k =>
      simp only [hk, Option.isSome_some, if_true] at hr1
      by_cases hkc : kernelCompleted (cp.disp i) = true
      · simp only [hkc, if_true] at hr1
        subst hr1
        have hcp : cp' = cp := by
          rw [← e1]; exact completeKernel_false cp i _ (Prod.ext rfl e2)
        have hdr : cp.drvRoom = 0 := by
          by_cases hd : cp.drvRoom = 0
          · exact hd
          · have := (completeKernel_fires cp i k hk (by omega)).1
            rw [this] at e2; cases e2
        refine ⟨hc0, by rw [hcp], Or.inr ⟨k, rfl, Or.inl ⟨hkc, hdr, hcp⟩⟩, e3⟩
      · simp only [hkc, Bool.false_eq_true, if_false] at hr1
        subst hr1
        have hl := dispatchLoop_false i 7 cp e2
        rw [hl] at e1 e2
        obtain ⟨q1, q2⟩ := dispatchNextWG_false cp i hdc e2
        rw [e1] at q1 q2
        have hkc' : kernelCompleted (cp.disp i) = false := by
          cases hx : kernelCompleted (cp.disp i) with
          | true => exact absurd hx hkc
          | false => rfl
        exact ⟨hc0, q1, Or.inr ⟨k, rfl, Or.inr ⟨hkc', q2⟩⟩, e3⟩

/-! ## B4: every own request id of the head completion message is consumed -/

theorem setDisp_inflight_sub (X : CP) (i : Nat) (d : Disp)
    (hsub : ∀ e ∈ d.inflight, e ∈ (X.disp i).inflight) :
    ∀ e ∈ ((X.setDisp i d).disp i).inflight, e ∈ (X.disp i).inflight := by
  intro e he
  rw [disp_setDisp] at he
  by_cases hc : i = i ∧ i < X.disps.length
  · rw [if_pos hc] at he; exact hsub e he
  · rw [if_neg hc] at he; exact he

theorem completeOne_inflight_sub (cp : CP) (i id : Nat) :
    (∀ e ∈ ((completeOne cp i id).disp i).inflight, e ∈ (cp.disp i).inflight) ∧
    (completeOne cp i id).disps.length = cp.disps.length := by
  cases hf : (cp.disp i).inflight.find? (·.1 = id) with
  | none => rw [completeOne_none cp i id hf]; exact ⟨fun e he => he, rfl⟩
  | some e0 =>
    obtain ⟨x, dl⟩ := e0
    unfold completeOne
    simp only [hf]
    cases free (cp.pool.getD dl.cu default) dl.key with
    | none =>
      exact ⟨setDisp_inflight_sub _ i _ (fun e he => (List.mem_filter.1 he).1), by simp [CP.setDisp]⟩
    | some cu' =>
      exact ⟨setDisp_inflight_sub _ i _ (fun e he => (List.mem_filter.1 he).1), by simp [CP.setDisp]⟩

theorem consume_inflight_sub (i : Nat) : ∀ (ids : List Nat) (cp : CP),
    (∀ e ∈ ((consume i ids cp).1.disp i).inflight, e ∈ (cp.disp i).inflight) ∧
    (consume i ids cp).1.disps.length = cp.disps.length := by
  intro ids
  induction ids with
  | nil => intro cp; exact ⟨fun e he => he, rfl⟩
  | cons id ids ih =>
    intro cp
    simp only [consume]
    split
    · obtain ⟨a1, a2⟩ := ih (completeOne cp i id)
      obtain ⟨b1, b2⟩ := completeOne_inflight_sub cp i id
      exact ⟨fun e he => b1 e (a1 e he), a2.trans b2⟩
    · exact ih cp

theorem procMsgs_inflight_sub (i : Nat) : ∀ (n : Nat) (cp : CP),
    ∀ e ∈ ((procMsgs i n cp).1.disp i).inflight, e ∈ (cp.disp i).inflight := by
  intro n
  induction n with
  | zero => intro cp e he; exact he
  | succ n ih =>
    intro cp
    unfold procMsgs
    cases hcu : cp.cuIn with
    | nil => exact fun e he => he
    | cons ids rest =>
      simp only []
      have h1 := (consume_inflight_sub i ids cp).1
      split
      · exact fun e he => he
      · split
        · exact h1
        · split
          · intro e he
            exact h1 e (ih { (consume i ids cp).1 with cuIn := rest } e he)
          · exact h1

theorem consume_clears (i : Nat) : ∀ (ids : List Nat) (cp : CP), DCI cp → i < cp.disps.length →
    ∀ id ∈ ids, ¬ ((consume i ids cp).1.disp i).inflight.any (·.1 = id) = true := by
  intro ids
  induction ids with
  | nil => intro cp _ _ id hid; cases hid
  | cons id0 ids ih =>
    intro cp hdc hi id hid
    simp only [consume]
    by_cases hany : (cp.disp i).inflight.any (·.1 = id0) = true
    · simp only [hany, if_true]
      have hdc' := completeOne_DCI cp i id0 hdc
      have hlen := (completeOne_inflight_sub cp i id0).2
      rcases List.mem_cons.1 hid with h | h
      · subst h
        intro hc
        obtain ⟨e, he, hee⟩ := List.any_eq_true.1 hc
        have he' := (consume_inflight_sub i ids (completeOne cp i id)).1 e he
        cases hf : (cp.disp i).inflight.find? (·.1 = id) with
        | none =>
          obtain ⟨e0, he0, hee0⟩ := List.any_eq_true.1 hany
          exact absurd hee0 (List.find?_eq_none.1 hf e0 he0)
        | some e1 =>
          have := ((completion_counted_once cp i id hdc hi).2 e1 hf).2.2.1 e he'
          simp only [decide_eq_true_eq] at hee
          exact this hee
      · exact ih _ hdc' (by rw [hlen]; exact hi) id h
    · simp only [hany]
      rcases List.mem_cons.1 hid with h | h
      · subst h
        intro hc
        obtain ⟨e, he, hee⟩ := List.any_eq_true.1 hc
        have he' := (consume_inflight_sub i ids cp).1 e he
        exact hany (List.any_eq_true.2 ⟨e, he', hee⟩)
      · exact ih cp hdc hi id h

/-- a head completion message naming one of the dispatcher's in-flight requests is processed in this
    tick, and afterwards none of its ids is in flight at this dispatcher any more -/
theorem own_completion_is_consumed (cp : CP) (i n : Nat) (ids : List Nat) (rest : List (List Nat))
    (hdc : DCI cp) (hi : i < cp.disps.length) (hcu : cp.cuIn = ids :: rest)
    (hmine : ∃ id ∈ ids, (cp.disp i).inflight.any (·.1 = id) = true) :
    (procMsgs i (n + 1) cp).2 = true ∧
    ∀ id ∈ ids, ¬ ((procMsgs i (n + 1) cp).1.disp i).inflight.any (·.1 = id) = true := by
  have hv : (ids.any fun id => (cp.disp i).inflight.any (·.1 = id)) = true := by
    obtain ⟨id, hid, h⟩ := hmine
    exact List.any_eq_true.2 ⟨id, hid, h⟩
  refine ⟨procMsgs_mine i n cp ids rest hcu hv, ?_⟩
  have hc := consume_clears i ids cp hdc hi
  have hshrink : ∀ (X : CP), (∀ e ∈ (X.disp i).inflight, e ∈ ((consume i ids cp).1.disp i).inflight) →
      ∀ id ∈ ids, ¬ (X.disp i).inflight.any (·.1 = id) = true := by
    intro X hX id hid hcX
    obtain ⟨e, he, hee⟩ := List.any_eq_true.1 hcX
    exact hc id hid (List.any_eq_true.2 ⟨e, hX e he, hee⟩)
  unfold procMsgs
  simp only [hcu, hv]
  split
  · rename_i h; simp at h
  · split
    · exact hc
    · split
      · exact hshrink _ (procMsgs_inflight_sub i n { (consume i ids cp).1 with cuIn := rest })
      · exact hc

/-- concrete run (one dispatcher, one CU with two VGPR units): after the launch is accepted the next
    dispatcher tick makes progress and maps work-group 0 and 1 of launch 7 with request ids 0 and 1 -/
example :
    let cp := run (mkCP ⟨false, 0, 0, 0, 0⟩ 1
        [{ wfFree := [2], smask := .lim [0, 0], vmasks := [.lim [0, 0]], lmask := .lim [0, 0],
           nextSIMD := 0, resident := [] }])
      [.launch ⟨7, 128, 64, 16, 4, 256⟩, .tick]
    (cp.disp 0).kern.isSome = true ∧ (dispTick cp 0).2 = true ∧
    mapsOf (dispTick cp 0).1.log 7 = [0, 1] ∧ (dispTick (dispTick cp 0).1 0).2 = false := by
  decide

end C09
