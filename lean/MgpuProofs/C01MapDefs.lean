import MgpuProofs.C01CopyGrid
/-! # C01 — element-wise ("map") kernels: shared definitions

The OpenCL kernels `ReLUForward`, `mul`, … have the same shape as the driver's `copyKernel`:
work-item `g` of a 1-D grid computes the global id `e = hiddenGlobalOffsetX + g`, leaves when `e` fails
a bounds test against a count argument, loads `in…[e]`, computes one dword and stores it at `out[e]`.

`Cfg` names the addresses and sizes of one launch; `wavePairs` is the list of byte writes of one
wavefront (`val m e` = the dword the kernel stores for element `e` when the memory content is `m`);
`WaveRun` is the statement a per-kernel symbolic execution has to establish (from the registers
`initWfRegs` sets up to `S_ENDPGM`); `C01Map.lean` lifts a `WaveRun` to the whole dispatch. -/
set_option linter.unusedVariables false
namespace C01.Emu.Map
open C03V

/-- addresses and sizes of one launch of a map kernel -/
structure Cfg where
  /-- device address of the code -/
  co : Nat
  /-- kernel-argument segment -/
  ka : Nat
  /-- dispatch packet -/
  pa : Nat
  /-- output array -/
  dst : Nat
  /-- hidden global offset x: work-item `g` handles element `lo + g` -/
  lo : Nat
  /-- elements with index `< lim` pass the kernel's bounds test -/
  lim : Nat
  /-- grid size (work-items) -/
  G : Nat

/-- number of elements written: `lo, …, lo + K - 1` -/
def Cfg.K (c : Cfg) : Nat := min c.G (c.lim - c.lo)

/-- the bytes of the output array the dispatch writes -/
def Cfg.inDst (c : Cfg) (a : Nat) : Prop := c.dst + 4 * c.lo ≤ a ∧ a < c.dst + 4 * (c.lo + c.K)

instance (c : Cfg) (a : Nat) : Decidable (c.inDst a) := by unfold Cfg.inDst; infer_instance

/-- `m` agrees with `f0` outside the written range -/
def Agree (c : Cfg) (f0 m : Nat → Nat) : Prop := ∀ a, ¬ c.inDst a → m a = f0 a

/-- the lanes of the wavefront of work-group `n` (initial EXEC `msk`) that pass the bounds test -/
def execMask (c : Cfg) (n msk : Nat) : Nat :=
  maskUpTo (fun l => msk.testBit l && decide (c.lo + 64 * n + l < c.lim)) 64 &&& msk

/-- the byte writes of one wavefront: lane `l` stores the dword `val m e` at `dst + 4e`, `e = lo + 64n + l` -/
def wavePairs (c : Cfg) (val : (Nat → Nat) → Nat → Nat) (m : Nat → Nat) (n msk : Nat) : List (Nat × Nat) :=
  (lanesOf (execMask c n msk)).flatMap fun l =>
    storePairs (c.dst + 4 * (c.lo + 64 * n + l)) (val m (c.lo + 64 * n + l))

/-- the dispatch of a 1-D launch with 64-wide work-groups of a code object with the enable bits every OpenCL
    kernel of this shape has (private segment buffer, dispatch pointer, kernel-argument pointer, work-group
    id x; work-item id x) — the harness reports the flags of the loaded code object on every case line -/
def disp (c : Cfg) (kernarg packet : List Nat) : Dispatch :=
  { geo := Copy.geo c.G, kernelObject := c.co, entry := 0, kernargAddr := c.ka, kernarg := kernarg,
    packetAddr := c.pa, packet := packet,
    privSegBuf := true, dispatchPtr := true, queuePtr := false, kernargPtr := true, dispatchID := false,
    flatScratch := false, privSegSize := false, wgCountX := false, wgCountY := false, wgCountZ := false,
    wgIDX := true, wgIDY := false, wgIDZ := false, v5 := false, vgprWI := 0 }

/-- the wavefront of work-group `k` whose row has `s` items -/
def wave0 (c : Cfg) (ka pk : List Nat) (k s : Nat) : Wave :=
  initWave (disp c ka pk) ⟨(k, 0, 0), (s, 1, 1)⟩ ⟨0, 2 ^ s - 1, s⟩

/-- admissible memories: agree with the launch image outside the written range -/
def Ok (c : Cfg) (f0 : Nat → Nat) (m : Mem) : Prop := Agree c f0 (get m)

/-- **what a per-kernel symbolic execution establishes.**  From any state that `initWfRegs` can produce for
    work-group `n` (s[4:5] = packet, s[6:7] = kernel arguments, s8 = work-group id, v0 = lane, EXEC = `msk`)
    on a memory that agrees with the launch image `f0` (which satisfies the kernel's reading requirements
    `Pre`) outside the written range, the wavefront reaches `S_ENDPGM` within `nInst` instructions and its
    effect on memory is `wavePairs`. -/
def WaveRun (P : Program) (nInst : Nat) (val : (Nat → Nat) → Nat → Nat) (c : Cfg) (Pre : (Nat → Nat) → Prop) : Prop :=
  ∀ (f0 : Nat → Nat), Pre f0 → ∀ (n msk : Nat), c.lo + 64 * n + 64 ≤ 2 ^ 31 → msk < 18446744073709551616 →
    (∀ l, l < 64 → msk.testBit l = true → 64 * n + l < c.G) →
    ∀ (st : St) (V : View), Sees st V → V.pc = c.co → V.exec = msk →
      V.rs 4 = c.pa % 2 ^ 32 → V.rs 5 = c.pa / 2 ^ 32 → V.rs 6 = c.ka % 2 ^ 32 → V.rs 7 = c.ka / 2 ^ 32 →
      V.rs 8 = n → (∀ l, l < 64 → V.rv 0 l = l) → Agree c f0 V.mem → ∀ fuel : Nat,
      ∃ st', runWf P c.co (fuel + nInst) st = .ok (st', .endpgm) ∧
        ∀ a, st'.rmem a = applyWrites (wavePairs c val V.mem n msk) V.mem a

/-- byte `j` of a dword -/
def byteOf (x j : Nat) : Nat := x % 2 ^ 32 / 2 ^ (8 * j) % 256

end C01.Emu.Map
