import MgpuModel.C12
/-! Helper lemmas for C12: the invariant of the repaired hand-off protocol, its preservation,
    deadlock freedom, the FIFO ghost invariant and the termination measure. -/
namespace C12

/-- the engine will look at the event queue again -/
def willLook (s : St) : Prop :=
  s.r = .chkFlag ∨ s.e = .start ∨ s.e = .loop ∨ s.e = .deq ∨ s.e = .notify ∨
  ((s.e = .afterRun ∨ s.e = .clear) ∧ s.pend = true)

/-- "whoever holds work is awake, or a wake-up is in flight" -/
structure Inv (s : St) : Prop where
  run_iff : s.running = true ↔ s.e ≠ .none
  pend_run : s.pend = true → s.running = true
  work : (s.a = .chk ∨ s.a = .toWait ∨ s.a = .waiting) → s.cmds ≠ [] → s.r = .tick ∨ (s.evt = true ∧ willLook s)
  note : ((s.a = .toWait ∧ s.token = false) ∨ s.a = .waiting) → s.cmds = [] → s.e = .notify
  subd : (s.a = .sig ∨ s.a = .sending ∨ s.a = .chk ∨ s.a = .toWait ∨ s.a = .waiting) → s.subscribed = true
  evt_live : s.e = .notify → s.evt = true
  deq_live : s.e = .deq → s.evt = true
  snd : s.a = .sending → s.r ≠ .idle

theorem inv_init (rs : List Nat) : Inv (init rs) := by
  constructor <;> simp [init, willLook]

theorem inv_step_app (s s' : St) (h : Inv s) (hs : step s .app = some s') : Inv s' := by
  obtain ⟨h1, h2, h3, h4, h5, h6, h7, h8⟩ := h
  simp only [step] at hs
  split at hs
  · -- idle
    split at hs
    · simp at hs
    · injection hs with hs; subst hs
      constructor <;> simp_all [willLook]
    · injection hs with hs; subst hs
      constructor <;> simp_all [willLook]
  · -- sig
    split at hs <;> (injection hs with hs; subst hs; constructor <;> simp_all [willLook])
  · simp at hs
  · -- chk
    split at hs <;> (injection hs with hs; subst hs; constructor <;> simp_all [willLook])
  · -- toWait
    split at hs <;> (injection hs with hs; subst hs; constructor <;> simp_all [willLook])
  · simp at hs

theorem inv_step_async (s s' : St) (h : Inv s) (hs : step s .async = some s') : Inv s' := by
  obtain ⟨h1, h2, h3, h4, h5, h6, h7, h8⟩ := h
  simp only [step] at hs
  split at hs
  · simp at hs
  · -- tick
    split at hs
    · simp at hs
    · injection hs with hs; subst hs
      constructor <;> simp_all [willLook]
  · -- chkFlag
    by_cases hrun : s.running = true <;> by_cases hsend : s.a = .sending <;>
      simp only [hrun, hsend, if_true, if_false] at hs <;>
      (injection hs with hs; subst hs; constructor <;> simp_all [willLook]) <;>
      (try (intro _ _; cases he : s.e <;> simp_all))

theorem inv_step_eng (s s' : St) (h : Inv s) (hs : step s .eng = some s') : Inv s' := by
  obtain ⟨h1, h2, h3, h4, h5, h6, h7, h8⟩ := h
  simp only [step] at hs
  split at hs
  · simp at hs
  · injection hs with hs; subst hs; constructor <;> simp_all [willLook]
  · split at hs <;> (injection hs with hs; subst hs; constructor <;> simp_all [willLook])
  · -- deq
    split at hs <;> (injection hs with hs; subst hs; constructor <;> simp_all [willLook])
  · -- notify
    split at hs
    · split at hs <;> (injection hs with hs; subst hs; constructor <;> simp_all [willLook])
    · injection hs with hs; subst hs; constructor <;> simp_all [willLook]
  · injection hs with hs; subst hs; constructor <;> simp_all [willLook]
  · split at hs <;> (injection hs with hs; subst hs; constructor <;> simp_all [willLook])

theorem inv_step (s s' : St) (t : Th) (h : Inv s) (hs : step s t = some s') : Inv s' := by
  cases t
  · exact inv_step_app s s' h hs
  · exact inv_step_async s s' h hs
  · exact inv_step_eng s s' h hs

theorem inv_reach {s : St} (h : Reach s) : Inv s := by
  induction h with
  | init rs => exact inv_init rs
  | step t _ hs ih => exact inv_step _ _ t ih hs

/-- deadlock freedom from the invariant -/
theorem no_stuck_of_inv (s : St) (h : Inv s) (hst : stuck s) : finished s := by
  obtain ⟨h1, h2, h3, h4, h5, h6, h7, h8⟩ := h
  have ha := hst .app
  have hr := hst .async
  have he := hst .eng
  have he' : s.e = .none := by
    cases hee : s.e <;> simp [step, hee] at he
    · rfl
    all_goals ((repeat' (split at he)) <;> simp at he)
  have hr' : s.r = .idle := by
    cases hrr : s.r <;> simp [step, hrr, he'] at hr
    · rfl
    · split at hr <;> simp at hr
  cases haa : s.a <;> simp [step, haa, hr'] at ha
  · -- idle
    constructor
    · exact haa
    · cases hrs : s.rounds with
      | nil => rfl
      | cons k ks => cases k <;> simp [hrs] at ha
  · -- sending
    exact absurd hr' (h8 haa)
  · -- chk : always enabled
    split at ha <;> simp at ha
  · -- toWait : always enabled
    split at ha <;> simp at ha
  · -- waiting
    exfalso
    by_cases hc : s.cmds = []
    · have := h4 (Or.inr haa) hc
      simp [he'] at this
    · have := h3 (Or.inr (Or.inr haa)) hc
      simp [hr', willLook, he'] at this

/-! ### FIFO ghost invariant of the protocol model -/

structure Fifo (s : St) : Prop where
  split : s.submitted = s.completed ++ s.cmds

theorem fifo_init (rs : List Nat) : Fifo (init rs) := ⟨by simp [init]⟩

theorem fifo_step (s s' : St) (t : Th) (h : Fifo s) (hs : step s t = some s') : Fifo s' := by
  obtain ⟨h1⟩ := h
  cases t <;> simp only [step] at hs
  · split at hs
    · split at hs
      · simp at hs
      · injection hs with hs; subst hs; exact ⟨h1⟩
      · injection hs with hs; subst hs; exact ⟨by simp [h1]⟩
    · split at hs <;> (injection hs with hs; subst hs; exact ⟨h1⟩)
    · simp at hs
    · split at hs <;> (injection hs with hs; subst hs; exact ⟨h1⟩)
    · split at hs <;> (injection hs with hs; subst hs; exact ⟨h1⟩)
    · simp at hs
  · split at hs
    · simp at hs
    · split at hs
      · simp at hs
      · injection hs with hs; subst hs; exact ⟨h1⟩
    · by_cases hrun : s.running = true <;> by_cases hsend : s.a = .sending <;>
        simp only [hrun, hsend, if_true, if_false] at hs <;>
        (injection hs with hs; subst hs; exact ⟨h1⟩)
  · split at hs
    · simp at hs
    · injection hs with hs; subst hs; exact ⟨h1⟩
    · split at hs <;> (injection hs with hs; subst hs; exact ⟨h1⟩)
    · split at hs
      · injection hs with hs; subst hs; exact ⟨h1⟩
      · rename_i c cs hc
        injection hs with hs; subst hs; exact ⟨by simp [h1, hc]⟩
    · split at hs
      · split at hs <;> (injection hs with hs; subst hs; exact ⟨h1⟩)
      · injection hs with hs; subst hs; exact ⟨h1⟩
    · injection hs with hs; subst hs; exact ⟨h1⟩
    · split at hs <;> (injection hs with hs; subst hs; exact ⟨h1⟩)

theorem fifo_reach {s : St} (h : Reach s) : Fifo s := by
  induction h with
  | init rs => exact fifo_init rs
  | step t _ hs ih => exact fifo_step _ _ t ih hs

/-! ### termination measure -/

def rankA : APc → Nat
  | .idle => 0 | .waiting => 0 | .toWait => 1 | .chk => 2 | .sending => 11 | .sig => 12
def rankR : RPc → Nat
  | .idle => 0 | .chkFlag => 6 | .tick => 9
def rankE : EPc → Nat
  | .none => 0 | .clear => 1 | .afterRun => 2 | .deq => 3 | .loop => 4 | .start => 5 | .notify => 9
def bw (b : Bool) (w : Nat) : Nat := if b then w else 0
def roundsW : List Nat → Nat
  | [] => 0
  | k :: ks => k + 1 + roundsW ks

/-- weighted (lexicographic-style) measure: work left in the script, queued commands, then the
    per-thread program-counter ranks and the pending wake-up resources -/
def measure (s : St) : Nat :=
  13 * roundsW s.rounds + 7 * s.cmds.length + rankA s.a + bw s.token 2 + rankR s.r + bw s.evt 2 + bw s.pend 4 + rankE s.e

theorem measure_step (s s' : St) (t : Th) (hd : s.e = .deq → s.evt = true) (hs : step s t = some s') :
    measure s' < measure s := by
  cases t <;> simp only [step] at hs
  · split at hs
    · rename_i ha
      split at hs
      · simp at hs
      · rename_i ks hr
        injection hs with hs; subst hs
        cases htk : s.token <;> simp [measure, ha, hr, roundsW, rankA, bw, htk] <;> omega
      · rename_i k ks hr
        injection hs with hs; subst hs
        simp [measure, hr, roundsW]; omega
    · rename_i ha
      split at hs
      · rename_i hr
        injection hs with hs; subst hs
        simp [measure, ha, hr, rankA, rankR]; omega
      · injection hs with hs; subst hs
        simp [measure, ha, rankA]
    · simp at hs
    · rename_i ha
      split at hs
      · injection hs with hs; subst hs
        cases htk : s.token <;> simp [measure, ha, rankA, bw, htk] <;> omega
      · injection hs with hs; subst hs
        simp [measure, ha, rankA]
    · rename_i ha
      split at hs
      · rename_i htk
        injection hs with hs; subst hs
        simp [measure, ha, rankA, bw, htk]
      · injection hs with hs; subst hs
        simp [measure, ha, rankA]
    · simp at hs
  · split at hs
    · simp at hs
    · rename_i hr
      split at hs
      · simp at hs
      · injection hs with hs; subst hs
        cases hev : s.evt <;> simp [measure, hr, rankR, bw, hev] <;> omega
    · rename_i hr
      by_cases hrun : s.running = true <;> by_cases hsend : s.a = .sending <;>
        simp only [hrun, hsend, if_true, if_false] at hs <;>
        (injection hs with hs; subst hs) <;>
        cases hp : s.pend <;> cases he : s.e <;>
        simp [measure, hr, hsend, rankR, rankA, rankE, bw, hp, he] <;> omega
  · split at hs
    · simp at hs
    · rename_i he
      injection hs with hs; subst hs
      simp [measure, he, rankE]
    · rename_i he
      split at hs <;> (injection hs with hs; subst hs; simp [measure, he, rankE])
    · rename_i he
      split at hs
      · rename_i hc
        injection hs with hs; subst hs
        have hev := hd he
        simp [measure, he, hc, rankE, bw, hev]
        omega
      · rename_i c cs hc
        injection hs with hs; subst hs
        simp [measure, he, hc, rankE]; omega
    · rename_i he
      split at hs
      · split at hs
        · rename_i ha
          injection hs with hs; subst hs
          simp [measure, he, ha, rankE, rankA]; omega
        · injection hs with hs; subst hs
          cases htk : s.token <;> simp [measure, he, rankE, bw, htk] <;> omega
      · injection hs with hs; subst hs
        simp [measure, he, rankE]
    · rename_i he
      injection hs with hs; subst hs
      simp [measure, he, rankE]
    · rename_i he
      split at hs
      · rename_i hp
        injection hs with hs; subst hs
        simp [measure, he, rankE, bw, hp]
      · injection hs with hs; subst hs
        cases hp : s.pend <;> simp [measure, he, rankE, bw, hp] <;> omega

/-! ### head-of-queue processing over several queues -/
namespace Q

/-- per-queue FIFO invariant over the ghost logs -/
structure QInv (q : Queue) : Prop where
  split : q.sub = q.done ++ q.cmds.map (·.id)
  one : q.started = q.done ++ (if q.running then (q.cmds.head?.map (·.id)).toList else [])
  run_ne : q.running = true → q.cmds ≠ []

theorem qinv_empty : QInv {} := by constructor <;> simp

theorem qinv_enq (id : Nat) (k : Kind) (q : Queue) (h : QInv q) : QInv (enqQueue id k q) := by
  obtain ⟨h1, h2, h3⟩ := h
  constructor
  · simp [enqQueue, h1]
  · cases hr : q.running
    · simp [enqQueue, h2, hr]
    · have hne := h3 hr
      cases hc : q.cmds with
      | nil => exact absurd hc hne
      | cons c cs => simp [enqQueue, h2, hr, hc]
  · intro _; simp [enqQueue]

theorem qinv_proc (q : Queue) (h : QInv q) : QInv (procQueue q) := by
  obtain ⟨h1, h2, h3⟩ := h
  unfold procQueue
  split
  · exact ⟨h1, h2, h3⟩
  · rename_i c cs hc
    split
    · exact ⟨h1, h2, h3⟩
    · rename_i hr
      have hr' : q.running = false := by simpa using hr
      split
      · constructor
        · simp [h1, hc]
        · simp [h2, hr']
        · simp [hr']
      · constructor
        · simp [h1, hc]
        · simp [h2, hr', hc]
        · simp [hc]

theorem qinv_rsp (q : Queue) (h : QInv q) : QInv (rspQueue q) := by
  obtain ⟨h1, h2, h3⟩ := h
  unfold rspQueue
  split
  · exact ⟨h1, h2, h3⟩
  · rename_i c cs hc
    split
    · rename_i hr
      constructor
      · simp [h1, hc]
      · simp [h2, hr, hc]
      · simp
    · exact ⟨h1, h2, h3⟩

theorem mem_updAt (f : Queue → Queue) (i : Nat) (l : List Queue) (x : Queue) (h : x ∈ updAt f i l) :
    x ∈ l ∨ ∃ y, y ∈ l ∧ x = f y := by
  induction l generalizing i with
  | nil => simp [updAt] at h
  | cons q qs ih =>
    cases i with
    | zero =>
      simp only [updAt, List.mem_cons] at h
      rcases h with h | h
      · exact Or.inr ⟨q, by simp, h⟩
      · exact Or.inl (by simp [h])
    | succ i =>
      simp only [updAt, List.mem_cons] at h
      rcases h with h | h
      · exact Or.inl (by simp [h])
      · rcases ih i h with h | ⟨y, hy, hxy⟩
        · exact Or.inl (by simp [h])
        · exact Or.inr ⟨y, by simp [hy], hxy⟩

theorem updAt_get_ne (f : Queue → Queue) (i j : Nat) (l : List Queue) (h : j ≠ i) : (updAt f i l)[j]? = l[j]? := by
  induction l generalizing i j with
  | nil => simp [updAt]
  | cons q qs ih =>
    cases i with
    | zero => cases j with
      | zero => exact absurd rfl h
      | succ j => simp [updAt]
    | succ i => cases j with
      | zero => simp [updAt]
      | succ j => simp only [updAt, List.getElem?_cons_succ]; exact ih i j (by omega)

theorem updAt_get_eq (f : Queue → Queue) (i : Nat) (l : List Queue) : (updAt f i l)[i]? = (l[i]?).map f := by
  induction l generalizing i with
  | nil => simp [updAt]
  | cons q qs ih =>
    cases i with
    | zero => simp [updAt]
    | succ i => simp only [updAt, List.getElem?_cons_succ]; exact ih i

theorem qinv_step (s : St) (op : Op) (h : ∀ q ∈ s.qs, QInv q) : ∀ q ∈ (step s op).qs, QInv q := by
  intro q hq
  cases op with
  | enq i k =>
    simp only [step] at hq
    split at hq
    · rcases mem_updAt _ _ _ _ hq with hq | ⟨y, hy, rfl⟩
      · exact h q hq
      · exact qinv_enq _ _ _ (h y hy)
    · exact h q hq
  | tick =>
    simp only [step, List.mem_map] at hq
    obtain ⟨y, hy, rfl⟩ := hq
    exact qinv_proc _ (h y hy)
  | rsp i =>
    simp only [step] at hq
    rcases mem_updAt _ _ _ _ hq with hq | ⟨y, hy, rfl⟩
    · exact h q hq
    · exact qinv_rsp _ (h y hy)

theorem qinv_run (s : St) (ops : List Op) (h : ∀ q ∈ s.qs, QInv q) : ∀ q ∈ (run s ops).qs, QInv q := by
  induction ops generalizing s with
  | nil => exact h
  | cons op ops ih => exact ih (step s op) (qinv_step s op h)

theorem qinv_init (n : Nat) : ∀ q ∈ (init n).qs, QInv q := by
  intro q hq
  simp only [init, List.mem_replicate] at hq
  rw [hq.2]; exact qinv_empty

end Q

end C12
