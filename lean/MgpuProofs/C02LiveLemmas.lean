import MgpuProofs.C02WfFetch
import MgpuProofs.C02WfDemo
/-! Liveness of the C02 wavefront machine: a timing-only invariant of the fetch buffer (`LInv`), the
greedy scheduler, a decreasing measure. -/
namespace C02.Wf

variable {P : Prog} {T : TState}

/-- the issue gate that never refuses (scoreboard / unit eventually free) -/
abbrev gtrue : TState → Inst → Bool := fun _ _ => true

/-- no instruction reaches across the end of the 64-bit address space: `PC + size` never wraps.
    (The model keeps `InstBufferStartPC + len` and `PC - InstBufferStartPC` in unbounded naturals; the
    compute unit computes them in uint64. They agree unless the PC wraps around 2^64.) -/
def Prog.NoWrap (P : Prog) : Prop := ∀ pc i, P.instAt pc = some i → pc + i.size < PCM

theorem pcAdd_eq (p s : Nat) (h : p + s < PCM) : pcAdd p s = p + s := Nat.mod_eq_of_lt h

theorem lineBase_le (pc : Nat) : lineBase pc ≤ pc := by unfold lineBase; omega
theorem lineBase_lt (pc : Nat) : pc < lineBase pc + 64 := by unfold lineBase; omega

/-! ## `removeStaleInstBuffer` does not panic when the PC is inside (or just behind) the buffer -/

theorem removeStaleLoop_some (pc : Nat) : ∀ (n st : Nat) (ib : List Nat),
    st ≤ pc → pc ≤ st + ib.length → ib.length / 64 + 1 ≤ n → ib.length % 64 = 0 →
    ∃ st' ib', removeStaleLoop pc n st ib = some (st', ib') ∧ st' ≤ pc ∧ pc < st' + 64 ∧
      pc ≤ st' + ib'.length ∧ ib'.length % 64 = 0 := by
  intro n
  induction n with
  | zero => intro st ib _ _ h; omega
  | succ n ih =>
    intro st ib h1 h2 h3 h4
    simp only [removeStaleLoop]
    by_cases hpc : pc ≥ st + 64
    · have hlen : ¬ ib.length < 64 := by omega
      simp only [hpc, if_true, hlen, if_false]
      apply ih
      · omega
      · simp only [List.length_drop]; omega
      · simp only [List.length_drop]; omega
      · simp only [List.length_drop]; omega
    · simp only [hpc, if_false]
      exact ⟨st, ib, rfl, h1, by omega, h2, h4⟩

theorem removeStale_some (pc st : Nat) (ib : List Nat) (h1 : st ≤ pc) (h2 : pc ≤ st + ib.length)
    (h4 : ib.length % 64 = 0) :
    ∃ st' ib', removeStale pc st ib = some (st', ib') ∧ st' ≤ pc ∧ pc < st' + 64 ∧
      pc ≤ st' + ib'.length ∧ ib'.length % 64 = 0 := by
  unfold removeStale
  by_cases he : ib = []
  · subst he
    simp only [List.length_nil, Nat.add_zero] at h2
    exact ⟨st, [], by simp, h1, by omega, by simp; omega, rfl⟩
  · simp only [he, if_false]
    exact removeStaleLoop_some pc _ st ib h1 h2 (by omega) h4

/-! ## the timing-only invariant of the fetch buffer -/

/-- the instruction `i` at the PC lies inside the (non-empty) buffer and does not wrap -/
def Fits (T : TState) (i : Inst) : Prop :=
  T.ib ≠ [] ∧ T.ibStart ≤ T.pc ∧ T.pc + i.size ≤ T.ibStart + T.ib.length ∧ T.pc + i.size < PCM

structure LInv (T : TState) : Prop where
  /-- the buffer is a whole number of 64-byte lines -/
  mul : T.ib.length % 64 = 0
  /-- between two instructions the PC is in the first line of the buffer, or the buffer is empty and
      nothing is being fetched (the initial state) -/
  rdy : T.ph = .ready → (T.ibStart ≤ T.pc ∧ T.pc < T.ibStart + 64) ∨ (T.ib = [] ∧ T.fetching = none)
  tok : ∀ i, T.toIssue = some i → Fits T i
  iss : T.ph = .issued → ∃ i, T.cur = some i ∧ Fits T i
  exe : T.ph = .executed → ∃ i, T.cur = some i ∧
    (i.kind = .branch ∨
     (i.kind = .alu 0 ∧ T.ib ≠ [] ∧ T.ibStart ≤ T.pc ∧ T.pc ≤ T.ibStart + T.ib.length) ∨
     (∃ u, u ≠ 0 ∧ i.kind = .alu u ∧ Fits T i))

theorem linv_init (pc : Nat) (regs : RF) (mem : Mem) : LInv (tinit pc regs mem) :=
  ⟨rfl, fun _ => Or.inr ⟨rfl, rfl⟩, fun i h => by simp [tinit] at h, fun h => by simp [tinit] at h,
    fun h => by simp [tinit] at h⟩

/-- events that touch neither the PC, the phase nor the fetch side keep the invariant -/
theorem LInv.congr {T T' : TState} (h : LInv T) (h1 : T'.pc = T.pc) (h2 : T'.ph = T.ph)
    (h3 : T'.toIssue = T.toIssue) (h4 : T'.cur = T.cur) (h5 : T'.ibStart = T.ibStart) (h6 : T'.ib = T.ib)
    (h7 : T'.fetching = T.fetching) : LInv T' := by
  obtain ⟨a, b, c, d, e⟩ := h
  unfold Fits at *
  refine ⟨?_, ?_, ?_, ?_, ?_⟩
  · rw [h6]; exact a
  · rw [h1, h2, h5, h6, h7]; exact b
  · unfold Fits; rw [h1, h3, h5, h6]; exact c
  · unfold Fits; rw [h1, h2, h4, h5, h6]; exact d
  · unfold Fits; rw [h1, h2, h4, h5, h6]; exact e

theorem linv_advance {s s' : TState} {i : Inst} (ha : advance s i = some s')
    (hti : s.toIssue = none) : LInv s' ∨ ¬ (s.ibStart ≤ pcAdd s.pc i.size ∧
      pcAdd s.pc i.size ≤ s.ibStart + s.ib.length ∧ s.ib.length % 64 = 0) := by
  by_cases hc : s.ibStart ≤ pcAdd s.pc i.size ∧
      pcAdd s.pc i.size ≤ s.ibStart + s.ib.length ∧ s.ib.length % 64 = 0
  · left
    obtain ⟨st, ib, hrs, rfl⟩ := advance_eq s i s' ha
    obtain ⟨st', ib', hrs', q1, q2, q3, q4⟩ := removeStale_some _ _ _ hc.1 hc.2.1 hc.2.2
    rw [hrs] at hrs'
    simp only [Option.some.injEq, Prod.mk.injEq] at hrs'
    obtain ⟨rfl, rfl⟩ := hrs'
    refine ⟨q4, fun _ => Or.inl ⟨q1, q2⟩, ?_, ?_, ?_⟩
    · intro j hj; rw [show s.toIssue = some j from hj] at hti; cases hti
    · intro h; cases h
    · intro h; cases h
  · exact Or.inr hc

theorem linv_advance' {s s' : TState} {i : Inst} (ha : advance s i = some s')
    (hti : s.toIssue = none) (h1 : s.ibStart ≤ s.pc) (h2 : s.pc + i.size ≤ s.ibStart + s.ib.length)
    (h3 : s.pc + i.size < PCM) (h4 : s.ib.length % 64 = 0) : LInv s' := by
  rcases linv_advance ha hti with h | h
  · exact h
  · exfalso; apply h; rw [pcAdd_eq _ _ h3]; exact ⟨by omega, h2, h4⟩

theorem linv_setReady {s s' : TState} (ha : setReady s = some s')
    (hti : s.toIssue = none) (h1 : s.ibStart ≤ s.pc) (h2 : s.pc ≤ s.ibStart + s.ib.length)
    (h4 : s.ib.length % 64 = 0) : LInv s' := by
  obtain ⟨st, ib, hrs, rfl⟩ := setReady_eq s s' ha
  obtain ⟨st', ib', hrs', q1, q2, q3, q4⟩ := removeStale_some _ _ _ h1 h2 h4
  rw [hrs] at hrs'
  simp only [Option.some.injEq, Prod.mk.injEq] at hrs'
  obtain ⟨rfl, rfl⟩ := hrs'
  refine ⟨q4, fun _ => Or.inl ⟨q1, q2⟩, ?_, ?_, ?_⟩
  · intro j hj; rw [show s.toIssue = some j from hj] at hti; cases hti
  · intro h; cases h
  · intro h; cases h

theorem advance_some (s : TState) (i : Inst) (h1 : s.ibStart ≤ s.pc)
    (h2 : s.pc + i.size ≤ s.ibStart + s.ib.length) (h3 : s.pc + i.size < PCM)
    (h4 : s.ib.length % 64 = 0) : ∃ s', advance s i = some s' := by
  unfold advance
  rw [pcAdd_eq _ _ h3]
  obtain ⟨st', ib', hrs', _⟩ := removeStale_some (s.pc + i.size) s.ibStart s.ib (by omega) h2 h4
  simp only [hrs']
  exact ⟨_, rfl⟩

theorem setReady_some (s : TState) (h1 : s.ibStart ≤ s.pc) (h2 : s.pc ≤ s.ibStart + s.ib.length)
    (h4 : s.ib.length % 64 = 0) : ∃ s', setReady s = some s' := by
  unfold setReady
  obtain ⟨st', ib', hrs', _⟩ := removeStale_some s.pc s.ibStart s.ib h1 h2 h4
  simp only [hrs']
  exact ⟨_, rfl⟩

/-! ## every event keeps `LInv` -/

theorem linv_fetch (hL : LInv T) {gate} {T' : TState} (ht : tstep P gate T .fetch = some T') : LInv T' := by
  simp only [tstep] at ht
  split at ht
  · cases ht
    by_cases he : T.ib = []
    · rw [if_pos he]
      refine ⟨hL.mul, fun _ => Or.inl ⟨lineBase_le _, lineBase_lt _⟩, ?_, ?_, ?_⟩
      · intro i hi; exact absurd he (hL.tok i hi).1
      · intro h; obtain ⟨i, _, hf⟩ := hL.iss h; exact absurd he hf.1
      · intro h
        obtain ⟨i, hc, hx⟩ := hL.exe h
        refine ⟨i, hc, ?_⟩
        rcases hx with hx | hx | ⟨u, _, _, hf⟩
        · exact Or.inl hx
        · exact absurd he hx.2.1
        · exact absurd he hf.1
    · rw [if_neg he]
      refine ⟨hL.mul, ?_, hL.tok, hL.iss, hL.exe⟩
      intro h
      rcases hL.rdy h with h' | h'
      · exact Or.inl h'
      · exact absurd h'.1 he
  · cases ht

theorem linv_fetchRet (hL : LInv T) {gate} {T' : TState} (ht : tstep P gate T .fetchRet = some T') : LInv T' := by
  simp only [tstep] at ht
  split at ht
  · cases ht
  · rename_i a hf
    split at ht
    · cases ht
      have hlen : (T.ib ++ P.window a 64).length = T.ib.length + 64 := by
        simp [Prog.window]
      have hne : T.ib ++ P.window a 64 ≠ [] := by
        intro h; have := congrArg List.length h; rw [hlen] at this; simp at this
      refine ⟨?_, ?_, ?_, ?_, ?_⟩
      · show (T.ib ++ P.window a 64).length % 64 = 0
        rw [hlen]; have := hL.mul; omega
      · intro h
        rcases hL.rdy h with h' | h'
        · exact Or.inl h'
        · rw [hf] at h'; cases h'.2
      · intro i hi
        obtain ⟨_, q2, q3, q4⟩ := hL.tok i hi
        exact ⟨hne, q2, by show T.pc + i.size ≤ T.ibStart + (T.ib ++ P.window a 64).length; rw [hlen]; omega, q4⟩
      · intro h
        obtain ⟨i, hc, _, q2, q3, q4⟩ := hL.iss h
        exact ⟨i, hc, hne, q2, by show T.pc + i.size ≤ T.ibStart + (T.ib ++ P.window a 64).length; rw [hlen]; omega, q4⟩
      · intro h
        obtain ⟨i, hc, hx⟩ := hL.exe h
        refine ⟨i, hc, ?_⟩
        rcases hx with hx | ⟨hk, _, q2, q3⟩ | ⟨u, hu, hk, _, q2, q3, q4⟩
        · exact Or.inl hx
        · exact Or.inr (Or.inl ⟨hk, hne, q2, by show T.pc ≤ T.ibStart + (T.ib ++ P.window a 64).length; rw [hlen]; omega⟩)
        · exact Or.inr (Or.inr ⟨u, hu, hk, hne, q2, by show T.pc + i.size ≤ T.ibStart + (T.ib ++ P.window a 64).length; rw [hlen]; omega, q4⟩)
    · cases ht
      refine ⟨hL.mul, ?_, hL.tok, hL.iss, hL.exe⟩
      intro h
      rcases hL.rdy h with h' | h'
      · exact Or.inl h'
      · exact Or.inr ⟨h'.1, rfl⟩

theorem linv_resync (hL : LInv T) {gate} {T' : TState} (ht : tstep P gate T .resync = some T') : LInv T' := by
  simp only [tstep] at ht
  split at ht
  · rename_i he
    cases ht
    refine ⟨hL.mul, fun _ => Or.inl ⟨lineBase_le _, lineBase_lt _⟩, ?_, ?_, ?_⟩
    · intro i hi; exact absurd he (hL.tok i hi).1
    · intro h; obtain ⟨i, _, hf⟩ := hL.iss h; exact absurd he hf.1
    · intro h
      obtain ⟨i, hc, hx⟩ := hL.exe h
      refine ⟨i, hc, ?_⟩
      rcases hx with hx | hx | ⟨u, _, _, hf⟩
      · exact Or.inl hx
      · exact absurd he hx.2.1
      · exact absurd he hf.1
  · cases ht

theorem linv_decode (hP : P.WF) (hNW : P.NoWrap) (hF : FInv P T) (hL : LInv T) {gate} {T' : TState}
    (ht : tstep P gate T .decode = some T') : LInv T' := by
  simp only [tstep] at ht
  split at ht
  · cases ht
  · split at ht
    · rename_i hc
      split at ht
      · cases ht
      · rename_i i hd
        cases ht
        refine ⟨hL.mul, hL.rdy, ?_, hL.iss, hL.exe⟩
        intro j hj
        cases hj
        have hat := decode_instAt P hP T.ibStart T.pc T.ib i hF.f.ibok hc.2.2.1 hd
        have hsz := (hP.pfx _ _ hd).1
        simp only [List.length_drop] at hsz
        exact ⟨hc.1, hc.2.2.1, by have := hc.2.2.2; show T.pc + i.size ≤ T.ibStart + T.ib.length; omega, hNW _ _ hat⟩
    · cases ht

theorem linv_issue (hL : LInv T) {gate} {T' : TState} (ht : tstep P gate T .issue = some T') : LInv T' := by
  simp only [tstep] at ht
  split at ht
  · cases ht
  · rename_i i hi
    split at ht
    · cases ht
      refine ⟨hL.mul, fun h => (by cases h), fun j hj => (by cases hj), fun _ => ⟨i, rfl, hL.tok i hi⟩, fun h => (by cases h)⟩
    · cases ht

theorem linv_exec (hP : P.WF) (hF : FInv P T) (hL : LInv T) {gate} {T' : TState}
    (ht : tstep P gate T .exec = some T') : LInv T' := by
  simp only [tstep] at ht
  split at ht
  · cases ht
  · rename_i i hcur
    split at ht
    · rename_i hph
      have hne : T.ph ≠ .ready := by rw [hph]; decide
      have hti := hF.toIssue_none hne
      obtain ⟨i', hc', hfit⟩ := hL.iss hph
      rw [hcur] at hc'; cases hc'
      obtain ⟨f1, f2, f3, f4⟩ := hfit
      cases hk : i.kind with
      | alu u =>
        simp only [hk] at ht
        split at ht
        · rename_i hu
          cases ht
          refine ⟨hL.mul, fun h => (by cases h), fun j hj => (by rw [show T.toIssue = some j from hj] at hti; cases hti),
            fun h => (by cases h), fun _ => ⟨i, hcur, Or.inr (Or.inl ⟨by rw [hk, hu.1], f1, ?_, ?_⟩)⟩⟩
          · show T.ibStart ≤ pcAdd T.pc i.size
            rw [pcAdd_eq _ _ f4]; omega
          · show pcAdd T.pc i.size ≤ T.ibStart + T.ib.length
            rw [pcAdd_eq _ _ f4]; exact f3
        · rename_i hu
          cases ht
          have hu0 : u ≠ 0 := fun h => hu ⟨h, hP.fixed⟩
          exact ⟨hL.mul, fun h => (by cases h), fun j hj => (by rw [show T.toIssue = some j from hj] at hti; cases hti),
            fun h => (by cases h), fun _ => ⟨i, hcur, Or.inr (Or.inr ⟨u, hu0, hk, f1, f2, f3, f4⟩)⟩⟩
      | branch =>
        simp only [hk] at ht; cases ht
        exact ⟨hL.mul, fun h => (by cases h), fun j hj => (by rw [show T.toIssue = some j from hj] at hti; cases hti),
            fun h => (by cases h), fun _ => ⟨i, hcur, Or.inl hk⟩⟩
      | vload =>
        simp only [hk] at ht
        split at ht
        · split at ht
          · cases ht
          · exact linv_advance' ht hti f2 f3 f4 hL.mul
        · exact linv_advance' ht hti f2 f3 f4 hL.mul
      | vstore =>
        simp only [hk] at ht
        split at ht
        · split at ht
          · cases ht
          · exact linv_advance' ht hti f2 f3 f4 hL.mul
        · exact linv_advance' ht hti f2 f3 f4 hL.mul
      | sload =>
        simp only [hk] at ht
        exact linv_advance' ht hti f2 f3 f4 hL.mul
      | wait a b => simp only [hk] at ht; cases ht
      | nop => simp only [hk] at ht; cases ht
      | endpgm => simp only [hk] at ht; cases ht
    · cases ht

theorem linv_complete (hP : P.WF) (hF : FInv P T) (hL : LInv T) {gate} {T' : TState}
    (ht : tstep P gate T .complete = some T') : LInv T' := by
  simp only [tstep] at ht
  split at ht
  · cases ht
  · rename_i i hcur
    cases hk : i.kind with
    | alu u =>
      simp only [hk] at ht
      split at ht
      · rename_i hph
        have hti := hF.toIssue_none (by rw [hph]; decide)
        obtain ⟨i', hc', hx⟩ := hL.exe hph
        rw [hcur] at hc'; cases hc'
        split at ht
        · rename_i hu
          rcases hx with hx | ⟨_, _, q2, q3⟩ | ⟨u', hu', hk', _⟩
          · rw [hk] at hx; cases hx
          · exact linv_setReady ht hti q2 q3 hL.mul
          · rw [hk] at hk'; cases hk'; exact absurd hu.1 hu'
        · rename_i hu
          have hu0 : u ≠ 0 := fun h => hu ⟨h, hP.fixed⟩
          rcases hx with hx | ⟨hk', _⟩ | ⟨u', hu', hk', _, f2, f3, f4⟩
          · rw [hk] at hx; cases hx
          · rw [hk] at hk'; cases hk'; exact absurd rfl hu0
          · exact linv_advance' ht hti f2 f3 f4 hL.mul
      · cases ht
    | branch =>
      simp only [hk] at ht
      split at ht
      · rename_i hph
        cases ht
        have hti := hF.toIssue_none (by rw [hph]; decide)
        exact ⟨rfl, fun _ => Or.inl ⟨lineBase_le _, lineBase_lt _⟩,
          fun j hj => (by rw [show T.toIssue = some j from hj] at hti; cases hti),
          fun h => (by cases h), fun h => (by cases h)⟩
      · cases ht
    | wait a b =>
      simp only [hk] at ht
      split at ht
      · rename_i hc
        have hti := hF.toIssue_none (by rw [hc.1]; decide)
        obtain ⟨i', hc', _, f2, f3, f4⟩ := hL.iss hc.1
        rw [hcur] at hc'; cases hc'
        exact linv_advance' ht hti f2 f3 f4 hL.mul
      · cases ht
    | nop =>
      simp only [hk] at ht
      split at ht
      · rename_i hph
        have hti := hF.toIssue_none (by rw [hph]; decide)
        obtain ⟨i', hc', _, f2, f3, f4⟩ := hL.iss hph
        rw [hcur] at hc'; cases hc'
        exact linv_advance' ht hti f2 f3 f4 hL.mul
      · cases ht
    | endpgm =>
      simp only [hk] at ht
      split at ht
      · rename_i hc
        cases ht
        have hti := hF.toIssue_none (by rw [hc.1]; decide)
        exact ⟨hL.mul, fun h => (by cases h), fun j hj => (by rw [show T.toIssue = some j from hj] at hti; cases hti),
          fun h => (by cases h), fun h => (by cases h)⟩
      · cases ht
    | vload => simp only [hk] at ht; cases ht
    | vstore => simp only [hk] at ht; cases ht
    | sload => simp only [hk] at ht; cases ht

theorem linv_step (hP : P.WF) (hNW : P.NoWrap) {gate} {T T' : TState} (e : Ev) (hF : FInv P T) (hL : LInv T)
    (ht : tstep P gate T e = some T') : LInv T' := by
  cases e with
  | fetch => exact linv_fetch hL ht
  | fetchRet => exact linv_fetchRet hL ht
  | resync => exact linv_resync hL ht
  | decode => exact linv_decode hP hNW hF hL ht
  | issue => exact linv_issue hL ht
  | exec => exact linv_exec hP hF hL ht
  | complete => exact linv_complete hP hF hL ht
  | serveV k =>
    simp only [tstep] at ht
    split at ht
    · cases ht
    · split at ht
      · cases ht
      · split at ht <;> (cases ht; exact hL.congr rfl rfl rfl rfl rfl rfl rfl)
  | serveS k =>
    simp only [tstep] at ht
    split at ht
    · cases ht
    · split at ht
      · cases ht
      · cases ht; exact hL.congr rfl rfl rfl rfl rfl rfl rfl
  | retV =>
    simp only [tstep] at ht
    split at ht
    · cases ht
    · split at ht
      · cases ht
      · cases ht; exact hL.congr rfl rfl rfl rfl rfl rfl rfl
  | retS k =>
    simp only [tstep] at ht
    split at ht
    · cases ht
    · split at ht
      · cases ht
      · cases ht; exact hL.congr rfl rfl rfl rfl rfl rfl rfl
  | env a v =>
    simp only [tstep] at ht
    split at ht
    · cases ht; exact hL.congr rfl rfl rfl rfl rfl rfl rfl
    · cases ht

/-- the three invariants along a run (any gate) -/
theorem live_run (hP : P.WF) (hNW : P.NoWrap) {gate} {fuel : Nat} {x0 : EState × HState}
    (hfr : hazardFreeRun P fuel x0 = true) :
    ∀ (evs : List Ev) (T T' : TState), Sim P x0 T → FInv P T → LInv T → trun P gate T evs = some T' →
      Sim P x0 T' ∧ FInv P T' ∧ LInv T' := by
  intro evs
  induction evs with
  | nil => intro T T' hs hF hL ht; simp only [trun] at ht; cases ht; exact ⟨hs, hF, hL⟩
  | cons e es ih =>
    intro T T' hs hF hL ht
    simp only [trun] at ht
    cases hst : tstep P gate T e with
    | none => simp [hst] at ht
    | some T1 =>
      simp only [hst] at ht
      exact ih T1 T' (sim_step hP hfr e hs hst) (finv_step hP e hF hst) (linv_step hP hNW e hF hL hst) ht

/-! ## facts about the emulator side of `Sim` -/

theorem ehstep_trace (x y : EState × HState) (h : ehstep P x = some y) :
    y.1.trace.length = x.1.trace.length + 1 := by
  unfold ehstep at h
  split at h
  · cases h
  · rename_i hd
    split at h
    · cases h
    · rename_i i hi
      split at h
      · rename_i H' E' _ he
        split at h
        · cases h
          have := estep_eq he hi (by simpa using hd)
          rw [this]
          cases i.kind <;> simp
        · cases h
      · cases h

theorem ehrun_trace : ∀ (n : Nat) (x y : EState × HState), ehrun P n x = some y →
    y.1.trace.length = x.1.trace.length + n := by
  intro n
  induction n with
  | zero => intro x y h; simp only [ehrun] at h; cases h; rfl
  | succ n ih =>
    intro x y h
    simp only [ehrun] at h
    cases hx : ehstep P x with
    | none => simp [hx] at h
    | some z =>
      simp only [hx] at h
      have := ih z y h
      have := ehstep_trace x z hx
      omega

/-- a hazard-free run that is not finished after `n` instructions has `n < fuel` -/
theorem hfr_lt : ∀ (fuel : Nat) (x0 : EState × HState) (n : Nat) (x : EState × HState),
    hazardFreeRun P fuel x0 = true → ehrun P n x0 = some x → x.1.done = false → n < fuel := by
  intro fuel
  induction fuel with
  | zero =>
    intro x0 n x h hr hd
    simp only [hazardFreeRun] at h
    cases n with
    | zero => simp only [ehrun] at hr; cases hr; simp [h] at hd
    | succ n =>
      simp only [ehrun] at hr
      cases hx : ehstep P x0 with
      | none => simp [hx] at hr
      | some z => have := ehstep_not_done P x0 z hx; simp [h] at this
  | succ fuel ih =>
    intro x0 n x h hr hd
    simp only [hazardFreeRun] at h
    by_cases hd0 : x0.1.done = true
    · cases n with
      | zero => simp only [ehrun] at hr; cases hr; simp [hd0] at hd
      | succ n =>
        simp only [ehrun] at hr
        cases hx : ehstep P x0 with
        | none => simp [hx] at hr
        | some z => have := ehstep_not_done P x0 z hx; simp [hd0] at this
    · simp only [hd0] at h
      cases hx : ehstep P x0 with
      | none => simp [hx] at h
      | some z =>
        simp only [hx] at h
        cases n with
        | zero => omega
        | succ n =>
          simp only [ehrun, hx] at hr
          have := ih z n x (by simpa using h) hr hd
          omega

/-- between two instructions the emulator's next instruction exists -/
theorem ready_next {fuel : Nat} {x0 : EState × HState} (hfr : hazardFreeRun P fuel x0 = true)
    (hs : Sim P x0 T) (hph : T.ph = .ready) : ∃ i, P.instAt T.pc = some i := by
  obtain ⟨n, E, H, hrun, hinv⟩ := hs
  have hp := hinv.p
  rw [hph] at hp
  simp only [InvP] at hp
  obtain ⟨hpc, _, hd⟩ := hp
  obtain ⟨y, hy⟩ := hfr_next P fuel x0 n (E, H) hfr hrun hd
  unfold ehstep at hy
  simp only [hd, Bool.false_eq_true, if_false, hpc] at hy
  cases hi : P.instAt T.pc with
  | none => simp [hi] at hy
  | some i => exact ⟨i, rfl⟩

/-- between two instructions fewer than `fuel` instructions have been issued -/
theorem ready_trace_lt {fuel : Nat} {x0 : EState × HState} (hfr : hazardFreeRun P fuel x0 = true)
    (hx0 : x0.1.trace = []) (hs : Sim P x0 T) (hph : T.ph = .ready) : T.trace.length < fuel := by
  obtain ⟨n, E, H, hrun, hinv⟩ := hs
  have hp := hinv.p
  rw [hph] at hp
  simp only [InvP] at hp
  obtain ⟨_, htr, hd⟩ := hp
  have h1 := hfr_lt fuel x0 n (E, H) hfr hrun hd
  have h2 := ehrun_trace n x0 (E, H) hrun
  rw [hx0] at h2
  simp only [List.length_nil, Nat.zero_add] at h2
  rw [← htr, h2]
  exact h1

/-! ## the measure -/

/-- an access in flight still needs two events (perform, return) or one (return) -/
def pm : List Pend → Nat
  | [] => 0
  | p :: ps => (if p.served.isSome then 1 else 2) + pm ps

theorem pm_append (a b : List Pend) : pm (a ++ b) = pm a + pm b := by
  induction a with
  | nil => simp [pm]
  | cons p ps ih => simp only [List.cons_append, pm, ih]; omega

theorem pm_serveAt (m : Mem) : ∀ (l : List Pend) (k : Nat) (p : Pend), l[k]? = some p → p.served = none →
    pm (serveAt m l k) + 1 = pm l := by
  intro l
  induction l with
  | nil => intro k p h; simp at h
  | cons a as ih =>
    intro k p hk hs
    cases k with
    | zero =>
      simp only [List.getElem?_cons_zero, Option.some.injEq] at hk
      subst hk
      simp only [serveAt, pm, hs, Option.isSome_some, Option.isSome_none, if_true, Bool.false_eq_true, if_false]
      omega
    | succ k =>
      simp only [List.getElem?_cons_succ] at hk
      simp only [serveAt, pm]
      have := ih k p hk hs
      omega

theorem pm_eraseIdx : ∀ (l : List Pend) (k : Nat) (p : Pend), l[k]? = some p →
    pm (l.eraseIdx k) < pm l := by
  intro l
  induction l with
  | nil => intro k p h; simp at h
  | cons a as ih =>
    intro k p hk
    cases k with
    | zero =>
      simp only [List.eraseIdx_cons_zero, pm]
      split <;> omega
    | succ k =>
      simp only [List.getElem?_cons_succ] at hk
      simp only [List.eraseIdx_cons_succ, pm]
      have := ih k p hk
      omega

def rank (T : TState) : Nat :=
  match T.ph with
  | .issued => 3
  | .executed => 2
  | .ready => (match T.toIssue with | some _ => 0 | none => 1)
  | .done => 0

theorem rank_ready_le (h : T.ph = .ready) : rank T ≤ 1 := by
  unfold rank; rw [h]; simp only; split <;> omega

/-- 64-byte lines the decoder may still need -/
def need (L : Nat) : Nat := if L = 0 then 2 else if L < 128 then 1 else 0

def fetchM (T : TState) : Nat :=
  3 * need T.ib.length +
    (match T.fetching with
     | none => 2
     | some a => if a = T.ibStart + T.ib.length then 1 else 3)

theorem fetchM_le (T : TState) : fetchM T ≤ 9 := by
  unfold fetchM need
  split <;> split <;> (try split) <;> (try split) <;> omega

/-- the decreasing measure: instructions the emulator still has to execute (×64), the phase within
    the instruction, events the accesses in flight still need, fetch events still needed -/
def wfMeasure (fuel : Nat) (T : TState) : Nat :=
  (fuel - T.trace.length) * 64 + rank T * 16 + (pm T.vq + pm T.sq) + fetchM T

/-! ## each event of the greedy scheduler decreases the measure -/

theorem rank_done_le (h : T.ph = .done) : rank T ≤ 1 := by
  unfold rank; rw [h]; simp

theorem complete_shape {gate} {T' : TState} (ht : tstep P gate T .complete = some T') :
    T'.trace = T.trace ∧ T'.vq = T.vq ∧ T'.sq = T.sq ∧ 2 ≤ rank T ∧ rank T' ≤ 1 := by
  have hi3 : ∀ {s : TState}, s.ph = .issued → 2 ≤ rank s := by
    intro s h; unfold rank; rw [h]; simp
  have he2 : ∀ {s : TState}, s.ph = .executed → 2 ≤ rank s := by
    intro s h; unfold rank; rw [h]; simp
  have hadv : ∀ {i : Inst}, advance T i = some T' →
      T'.trace = T.trace ∧ T'.vq = T.vq ∧ T'.sq = T.sq ∧ rank T' ≤ 1 := by
    intro i h
    obtain ⟨st, ib, _, rfl⟩ := advance_eq _ _ _ h
    exact ⟨rfl, rfl, rfl, rank_ready_le rfl⟩
  simp only [tstep] at ht
  split at ht
  · cases ht
  · rename_i i hcur
    cases hk : i.kind with
    | alu u =>
      simp only [hk] at ht
      split at ht
      · rename_i hph
        split at ht
        · obtain ⟨st, ib, _, rfl⟩ := setReady_eq _ _ ht
          exact ⟨rfl, rfl, rfl, he2 hph, rank_ready_le rfl⟩
        · obtain ⟨a, b, c, d⟩ := hadv ht
          exact ⟨a, b, c, he2 hph, d⟩
      · cases ht
    | branch =>
      simp only [hk] at ht
      split at ht
      · rename_i hph
        cases ht
        exact ⟨rfl, rfl, rfl, he2 hph, rank_ready_le rfl⟩
      · cases ht
    | wait a b =>
      simp only [hk] at ht
      split at ht
      · rename_i hc
        obtain ⟨a, b, c, d⟩ := hadv ht
        exact ⟨a, b, c, hi3 hc.1, d⟩
      · cases ht
    | nop =>
      simp only [hk] at ht
      split at ht
      · rename_i hph
        obtain ⟨a, b, c, d⟩ := hadv ht
        exact ⟨a, b, c, hi3 hph, d⟩
      · cases ht
    | endpgm =>
      simp only [hk] at ht
      split at ht
      · rename_i hc
        cases ht
        exact ⟨rfl, rfl, rfl, hi3 hc.1, rank_done_le rfl⟩
      · cases ht
    | vload => simp only [hk] at ht; cases ht
    | vstore => simp only [hk] at ht; cases ht
    | sload => simp only [hk] at ht; cases ht

theorem dec_complete {gate} {fuel : Nat} {T' : TState} (ht : tstep P gate T .complete = some T') :
    wfMeasure fuel T' < wfMeasure fuel T := by
  obtain ⟨h1, h2, h3, h4, h5⟩ := complete_shape ht
  unfold wfMeasure
  rw [h1, h2, h3]
  have := fetchM_le T'
  omega

theorem pm_single (i : Inst) (r : RF) : pm [{ inst := i, r0 := r }] = 2 := by
  simp [pm]

theorem exec_shape {gate} {T' : TState} (ht : tstep P gate T .exec = some T') :
    T'.trace = T.trace ∧ rank T = 3 ∧
      rank T' * 16 + (pm T'.vq + pm T'.sq) ≤ 32 + (pm T.vq + pm T.sq) := by
  simp only [tstep] at ht
  split at ht
  · cases ht
  · rename_i i hcur
    split at ht
    · rename_i hph
      have hr : rank T = 3 := by unfold rank; rw [hph]
      have hadv0 : advance T i = some T' →
          T'.trace = T.trace ∧ rank T = 3 ∧
            rank T' * 16 + (pm T'.vq + pm T'.sq) ≤ 32 + (pm T.vq + pm T.sq) := by
        intro h
        obtain ⟨st, ib, _, hT⟩ := advance_eq _ _ _ h
        have h1 : T'.trace = T.trace := by rw [hT]
        have h2 : T'.vq = T.vq := by rw [hT]
        have h3 : T'.sq = T.sq := by rw [hT]
        have h4 : rank T' ≤ 1 := rank_ready_le (by rw [hT])
        rw [h2, h3]
        exact ⟨h1, hr, by omega⟩
      have hadvV : advance { T with vq := T.vq ++ [{ inst := i, r0 := T.regs }], vm := T.vm + 1, lgkm := T.lgkm + 1 } i = some T' →
          T'.trace = T.trace ∧ rank T = 3 ∧
            rank T' * 16 + (pm T'.vq + pm T'.sq) ≤ 32 + (pm T.vq + pm T.sq) := by
        intro h
        obtain ⟨st, ib, _, hT⟩ := advance_eq _ _ _ h
        have h1 : T'.trace = T.trace := by rw [hT]
        have h2 : T'.vq = T.vq ++ [{ inst := i, r0 := T.regs }] := by rw [hT]
        have h3 : T'.sq = T.sq := by rw [hT]
        have h4 : rank T' ≤ 1 := rank_ready_le (by rw [hT])
        rw [h2, h3, pm_append, pm_single]
        exact ⟨h1, hr, by omega⟩
      cases hk : i.kind with
      | alu u =>
        simp only [hk] at ht
        have h2 : ∀ {s : TState}, s.ph = .executed → rank s = 2 := by
          intro s h; unfold rank; rw [h]
        split at ht <;> (cases ht; exact ⟨rfl, hr, by rw [h2 rfl]; exact Nat.le_refl _⟩)
      | branch =>
        simp only [hk] at ht
        have h2 : ∀ {s : TState}, s.ph = .executed → rank s = 2 := by
          intro s h; unfold rank; rw [h]
        cases ht; exact ⟨rfl, hr, by rw [h2 rfl]; exact Nat.le_refl _⟩
      | vload =>
        simp only [hk] at ht
        split at ht
        · split at ht
          · cases ht
          · exact hadv0 ht
        · exact hadvV ht
      | vstore =>
        simp only [hk] at ht
        split at ht
        · split at ht
          · cases ht
          · exact hadv0 ht
        · exact hadvV ht
      | sload =>
        simp only [hk] at ht
        obtain ⟨st, ib, _, hT⟩ := advance_eq _ _ _ ht
        have h1 : T'.trace = T.trace := by rw [hT]
        have h2 : T'.vq = T.vq := by rw [hT]
        have h3 : T'.sq = T.sq ++ [{ inst := i, r0 := T.regs }] := by rw [hT]
        have h4 : rank T' ≤ 1 := rank_ready_le (by rw [hT])
        rw [h2, h3, pm_append, pm_single]
        exact ⟨h1, hr, by omega⟩
      | wait a b => simp only [hk] at ht; cases ht
      | nop => simp only [hk] at ht; cases ht
      | endpgm => simp only [hk] at ht; cases ht
    · cases ht

theorem dec_exec {gate} {fuel : Nat} {T' : TState} (ht : tstep P gate T .exec = some T') :
    wfMeasure fuel T' < wfMeasure fuel T := by
  obtain ⟨h1, h2, h3⟩ := exec_shape ht
  unfold wfMeasure
  rw [h1, h2]
  have := fetchM_le T'
  omega

theorem rank_congr {T T' : TState} (h1 : T'.ph = T.ph) (h2 : T'.toIssue = T.toIssue) : rank T' = rank T := by
  unfold rank; rw [h1, h2]

theorem fetchM_congr {T T' : TState} (h1 : T'.ib = T.ib) (h2 : T'.ibStart = T.ibStart)
    (h3 : T'.fetching = T.fetching) : fetchM T' = fetchM T := by
  unfold fetchM; rw [h1, h2, h3]

theorem rank_ready_some {T : TState} {i : Inst} (h1 : T.ph = .ready) (h2 : T.toIssue = some i) : rank T = 0 := by
  unfold rank; rw [h1, h2]

theorem rank_ready_none {T : TState} (h1 : T.ph = .ready) (h2 : T.toIssue = none) : rank T = 1 := by
  unfold rank; rw [h1, h2]

theorem rank_issued {T : TState} (h1 : T.ph = .issued) : rank T = 3 := by
  unfold rank; rw [h1]

theorem dec_issue {gate} {fuel : Nat} {T' : TState} (hlt : T.ph = .ready → T.trace.length < fuel)
    (ht : tstep P gate T .issue = some T') : wfMeasure fuel T' < wfMeasure fuel T := by
  simp only [tstep] at ht
  split at ht
  · cases ht
  · rename_i i hi
    split at ht
    · rename_i hc
      cases ht
      have hl := hlt hc.1
      have hr : rank T = 0 := rank_ready_some hc.1 hi
      have hr' : rank { T with cur := some i, toIssue := none, ph := .issued, trace := T.trace ++ [T.pc] } = 3 :=
        rank_issued rfl
      have hf' : fetchM { T with cur := some i, toIssue := none, ph := .issued, trace := T.trace ++ [T.pc] } = fetchM T :=
        fetchM_congr rfl rfl rfl
      unfold wfMeasure
      rw [hr, hr', hf']
      dsimp only
      simp only [List.length_append, List.length_singleton]
      omega
    · cases ht

theorem dec_decode {gate} {fuel : Nat} {T' : TState} (ht : tstep P gate T .decode = some T') :
    wfMeasure fuel T' < wfMeasure fuel T := by
  simp only [tstep] at ht
  split at ht
  · cases ht
  · rename_i hti
    split at ht
    · rename_i hc
      split at ht
      · cases ht
      · rename_i i hd
        cases ht
        have hr : rank T = 1 := rank_ready_none hc.2.1 hti
        have hr' : rank { T with toIssue := some i } = 0 := rank_ready_some (i := i) hc.2.1 rfl
        have hf' : fetchM { T with toIssue := some i } = fetchM T := fetchM_congr rfl rfl rfl
        unfold wfMeasure
        rw [hr, hr', hf']
        dsimp only
        omega
    · cases ht

theorem dec_retV {gate} {fuel : Nat} {T' : TState} (ht : tstep P gate T .retV = some T') :
    wfMeasure fuel T' < wfMeasure fuel T := by
  simp only [tstep] at ht
  split at ht
  · cases ht
  · rename_i p rest hv
    split at ht
    · cases ht
    · rename_i m0 hs
      have hT := (Option.some.inj ht).symm
      have hr' : rank T' = rank T := rank_congr (by rw [hT]) (by rw [hT])
      have hf' : fetchM T' = fetchM T := fetchM_congr (by rw [hT]) (by rw [hT]) (by rw [hT])
      have h1 : T'.trace = T.trace := by rw [hT]
      have h2 : T'.vq = rest := by rw [hT]
      have h3 : T'.sq = T.sq := by rw [hT]
      have h4 : pm T.vq = 1 + pm rest := by
        rw [hv]; simp only [pm, hs, Option.isSome_some, if_true]
      unfold wfMeasure
      rw [hr', hf', h1, h2, h3, h4]
      omega

theorem dec_retS {gate} {fuel k : Nat} {T' : TState} (ht : tstep P gate T (.retS k) = some T') :
    wfMeasure fuel T' < wfMeasure fuel T := by
  simp only [tstep] at ht
  split at ht
  · cases ht
  · rename_i p hk
    split at ht
    · cases ht
    · have hT := (Option.some.inj ht).symm
      have hr' : rank T' = rank T := rank_congr (by rw [hT]) (by rw [hT])
      have hf' : fetchM T' = fetchM T := fetchM_congr (by rw [hT]) (by rw [hT]) (by rw [hT])
      have h1 : T'.trace = T.trace := by rw [hT]
      have h2 : T'.vq = T.vq := by rw [hT]
      have h3 : T'.sq = T.sq.eraseIdx k := by rw [hT]
      have := pm_eraseIdx T.sq k p hk
      unfold wfMeasure
      rw [hr', hf', h1, h2, h3]
      omega

theorem dec_serveV {gate} {fuel k : Nat} {T' : TState} (ht : tstep P gate T (.serveV k) = some T') :
    wfMeasure fuel T' < wfMeasure fuel T := by
  simp only [tstep] at ht
  split at ht
  · cases ht
  · rename_i p hk
    split at ht
    · cases ht
    · rename_i hs
      have := pm_serveAt T.mem T.vq k p hk hs
      split at ht <;>
      · have hT := (Option.some.inj ht).symm
        have hr' : rank T' = rank T := rank_congr (by rw [hT]) (by rw [hT])
        have hf' : fetchM T' = fetchM T := fetchM_congr (by rw [hT]) (by rw [hT]) (by rw [hT])
        have h1 : T'.trace = T.trace := by rw [hT]
        have h2 : T'.vq = serveAt T.mem T.vq k := by rw [hT]
        have h3 : T'.sq = T.sq := by rw [hT]
        unfold wfMeasure
        rw [hr', hf', h1, h2, h3]
        omega

theorem dec_serveS {gate} {fuel k : Nat} {T' : TState} (ht : tstep P gate T (.serveS k) = some T') :
    wfMeasure fuel T' < wfMeasure fuel T := by
  simp only [tstep] at ht
  split at ht
  · cases ht
  · rename_i p hk
    split at ht
    · cases ht
    · rename_i hs
      have := pm_serveAt T.mem T.sq k p hk hs
      have hT := (Option.some.inj ht).symm
      have hr' : rank T' = rank T := rank_congr (by rw [hT]) (by rw [hT])
      have hf' : fetchM T' = fetchM T := fetchM_congr (by rw [hT]) (by rw [hT]) (by rw [hT])
      have h1 : T'.trace = T.trace := by rw [hT]
      have h2 : T'.vq = T.vq := by rw [hT]
      have h3 : T'.sq = serveAt T.mem T.sq k := by rw [hT]
      unfold wfMeasure
      rw [hr', hf', h1, h2, h3]
      omega

theorem dec_fetch {gate} {fuel : Nat} {T' : TState} (ht : tstep P gate T .fetch = some T') :
    wfMeasure fuel T' < wfMeasure fuel T := by
  simp only [tstep] at ht
  split at ht
  · rename_i hc
    have hT := (Option.some.inj ht).symm
    have hr' : rank T' = rank T := rank_congr (by rw [hT]) (by rw [hT])
    have h1 : T'.trace = T.trace := by rw [hT]
    have h2 : T'.vq = T.vq := by rw [hT]
    have h3 : T'.sq = T.sq := by rw [hT]
    have h4 : T'.ib = T.ib := by rw [hT]
    have h5 : T'.fetching = some (T'.ibStart + T'.ib.length) := by rw [hT]
    have hf' : fetchM T' = 3 * need T.ib.length + 1 := by
      unfold fetchM; rw [h5]; dsimp only; rw [if_pos rfl, h4]
    have hf : fetchM T = 3 * need T.ib.length + 2 := by
      unfold fetchM; rw [hc.1]
    unfold wfMeasure
    rw [hr', hf', hf, h1, h2, h3]
    omega
  · cases ht

theorem dec_fetchRet {gate} {fuel : Nat} {T' : TState} (h72 : T.ib.length < 72) (hmul : T.ib.length % 64 = 0)
    (ht : tstep P gate T .fetchRet = some T') : wfMeasure fuel T' < wfMeasure fuel T := by
  simp only [tstep] at ht
  split at ht
  · cases ht
  · rename_i a hf
    split at ht
    · rename_i ha
      have hT := (Option.some.inj ht).symm
      have hlen : (T.ib ++ P.window a 64).length = T.ib.length + 64 := by
        simp [Prog.window]
      have hr' : rank T' = rank T := rank_congr (by rw [hT]) (by rw [hT])
      have h1 : T'.trace = T.trace := by rw [hT]
      have h2 : T'.vq = T.vq := by rw [hT]
      have h3 : T'.sq = T.sq := by rw [hT]
      have h4 : T'.ib.length = T.ib.length + 64 := by rw [hT]; exact hlen
      have h5 : T'.fetching = none := by rw [hT]
      have hf' : fetchM T' = 3 * need (T.ib.length + 64) + 2 := by
        unfold fetchM; rw [h5, h4]
      have hf0 : fetchM T = 3 * need T.ib.length + 1 := by
        unfold fetchM; rw [hf]; dsimp only; rw [if_pos ha]
      unfold wfMeasure
      rw [hr', hf', hf0, h1, h2, h3]
      have h0 : T.ib.length = 0 ∨ T.ib.length = 64 := by omega
      have n0 : need 0 = 2 := rfl
      have n64 : need 64 = 1 := rfl
      have n128 : need 128 = 0 := rfl
      rcases h0 with h0 | h0
      · rw [h0, n0, show need (0 + 64) = 1 from rfl]; omega
      · rw [h0, n64, show need (64 + 64) = 0 from rfl]; omega
    · rename_i ha
      have hT := (Option.some.inj ht).symm
      have hr' : rank T' = rank T := rank_congr (by rw [hT]) (by rw [hT])
      have h1 : T'.trace = T.trace := by rw [hT]
      have h2 : T'.vq = T.vq := by rw [hT]
      have h3 : T'.sq = T.sq := by rw [hT]
      have h4 : T'.ib = T.ib := by rw [hT]
      have h5 : T'.fetching = none := by rw [hT]
      have hf' : fetchM T' = 3 * need T.ib.length + 2 := by
        unfold fetchM; rw [h5, h4]
      have hf0 : fetchM T = 3 * need T.ib.length + 3 := by
        unfold fetchM; rw [hf]; dsimp only; rw [if_neg ha]
      unfold wfMeasure
      rw [hr', hf', hf0, h1, h2, h3]
      omega

/-! ## the greedy scheduler -/

def first8 : List Ev := [.complete, .exec, .issue, .decode, .retV, .retS 0, .serveV 0, .serveS 0]

/-- the order in which the model driver tries the events -/
def greedyOrder : List Ev :=
  [.complete, .exec, .issue, .decode, .retV, .retS 0, .serveV 0, .serveS 0, .fetchRet, .fetch, .resync]

theorem greedyOrder_eq : greedyOrder = first8 ++ [.fetchRet, .fetch, .resync] := rfl

theorem greedyOrder_not_env : ∀ e ∈ greedyOrder, isEnv e = false := by decide

/-- the first event of the list the rules accept (issue gate open) -/
def firstOk (P : Prog) (T : TState) : List Ev → Option (Ev × TState)
  | [] => none
  | e :: es => match tstep P gtrue T e with
    | some T' => some (e, T')
    | none => firstOk P T es

theorem firstOk_some : ∀ (l : List Ev) (e : Ev) (T' : TState), firstOk P T l = some (e, T') →
    e ∈ l ∧ tstep P gtrue T e = some T' := by
  intro l
  induction l with
  | nil => intro e T' h; simp [firstOk] at h
  | cons a as ih =>
    intro e T' h
    simp only [firstOk] at h
    cases ha : tstep P gtrue T a with
    | none =>
      simp only [ha] at h
      obtain ⟨h1, h2⟩ := ih e T' h
      exact ⟨List.mem_cons_of_mem _ h1, h2⟩
    | some T1 =>
      simp only [ha, Option.some.injEq, Prod.mk.injEq] at h
      obtain ⟨rfl, rfl⟩ := h
      exact ⟨List.mem_cons_self .., ha⟩

theorem firstOk_none : ∀ (l : List Ev), firstOk P T l = none → ∀ e ∈ l, tstep P gtrue T e = none := by
  intro l
  induction l with
  | nil => intro _ e he; simp at he
  | cons a as ih =>
    intro h e he
    simp only [firstOk] at h
    cases ha : tstep P gtrue T a with
    | none =>
      simp only [ha] at h
      rcases List.mem_cons.1 he with rfl | he'
      · exact ha
      · exact ih h e he'
    | some T1 => simp [ha] at h

theorem firstOk_append (l1 l2 : List Ev) :
    firstOk P T (l1 ++ l2) = (match firstOk P T l1 with | some r => some r | none => firstOk P T l2) := by
  induction l1 with
  | nil => simp [firstOk]
  | cons a as ih =>
    simp only [List.cons_append, firstOk]
    cases ha : tstep P gtrue T a with
    | none => exact ih
    | some T1 => rfl

theorem dec_first8 {fuel : Nat} {e : Ev} {T' : TState} (hlt : T.ph = .ready → T.trace.length < fuel)
    (he : e ∈ first8) (ht : tstep P gtrue T e = some T') : wfMeasure fuel T' < wfMeasure fuel T := by
  simp only [first8, List.mem_cons, List.not_mem_nil, or_false] at he
  rcases he with rfl | rfl | rfl | rfl | rfl | rfl | rfl | rfl
  · exact dec_complete ht
  · exact dec_exec ht
  · exact dec_issue hlt ht
  · exact dec_decode ht
  · exact dec_retV ht
  · exact dec_retS ht
  · exact dec_serveV ht
  · exact dec_serveS ht

/-! ## no deadlock -/

theorem mem_progress {gate} (h : T.vq ≠ [] ∨ T.sq ≠ []) :
    ∃ e T', e ∈ first8 ∧ tstep P gate T e = some T' := by
  rcases h with h | h
  · cases hv : T.vq with
    | nil => exact absurd hv h
    | cons p rest =>
      cases hs : p.served with
      | none =>
        have : ∃ T', tstep P gate T (.serveV 0) = some T' := by
          simp only [tstep, hv, List.getElem?_cons_zero, hs]
          split <;> exact ⟨_, rfl⟩
        obtain ⟨T', hT'⟩ := this
        exact ⟨.serveV 0, T', by decide, hT'⟩
      | some m0 =>
        have : ∃ T', tstep P gate T .retV = some T' := by
          simp only [tstep, hv, hs]
          exact ⟨_, rfl⟩
        obtain ⟨T', hT'⟩ := this
        exact ⟨.retV, T', by decide, hT'⟩
  · cases hv : T.sq with
    | nil => exact absurd hv h
    | cons p rest =>
      cases hs : p.served with
      | none =>
        have : ∃ T', tstep P gate T (.serveS 0) = some T' := by
          simp only [tstep, hv, List.getElem?_cons_zero, hs]
          exact ⟨_, rfl⟩
        obtain ⟨T', hT'⟩ := this
        exact ⟨.serveS 0, T', by decide, hT'⟩
      | some m0 =>
        have : ∃ T', tstep P gate T (.retS 0) = some T' := by
          simp only [tstep, hv, List.getElem?_cons_zero, hs]
          exact ⟨_, rfl⟩
        obtain ⟨T', hT'⟩ := this
        exact ⟨.retS 0, T', by decide, hT'⟩

/-- with 8 bytes at the PC in the buffer the decoder returns the emulator's instruction -/
theorem dec_of_instAt (hP : P.WF) (ibStart pc : Nat) (ib : List Nat) (i : Inst)
    (hib : ∀ k (h : k < ib.length), ib[k] = P.imem (ibStart + k)) (hle : ibStart ≤ pc)
    (h8 : pc - ibStart + 8 ≤ ib.length) (hi : P.instAt pc = some i) :
    P.dec (ib.drop (pc - ibStart)) = some i := by
  unfold Prog.instAt at hi
  obtain ⟨_, hpf⟩ := hP.pfx _ _ hi
  have hs8 := (hP.inst _ _ hi).1.size_le
  apply hpf
  apply List.ext_getElem
  · simp only [List.length_take, List.length_drop, Prog.window, List.length_map, List.length_range]
    omega
  · intro j h1 h2
    simp only [List.getElem_take, List.getElem_drop, Prog.window, List.getElem_map, List.getElem_range]
    rw [hib]
    congr 1
    simp only [List.length_take, List.length_drop] at h1
    omega

theorem exists_of_ite_some {α : Type} {c : Prop} [Decidable c] (a b : α) :
    ∃ x, (if c then some a else some b) = some x := by
  split <;> exact ⟨_, rfl⟩

/-- **no deadlock**, the core case analysis: in a reachable unfinished state one of
    complete / exec / issue / decode / a memory event is enabled, or the wavefront is between two
    instructions and the buffer holds fewer than 72 bytes (then a fetch / fetch return is enabled) -/
theorem progress_core (hP : P.WF) {fuel : Nat} {x0 : EState × HState}
    (hfr : hazardFreeRun P fuel x0 = true) (hs : Sim P x0 T) (hF : FInv P T) (hL : LInv T)
    (hnd : T.ph ≠ .done) :
    (∃ e T', e ∈ first8 ∧ tstep P gtrue T e = some T') ∨ (T.ph = .ready ∧ T.ib.length < 72) := by
  cases hph : T.ph with
  | done => exact absurd hph hnd
  | ready =>
    cases hti : T.toIssue with
    | some i =>
      left
      refine ⟨.issue, { T with cur := some i, toIssue := none, ph := .issued, trace := T.trace ++ [T.pc] },
        by decide, ?_⟩
      simp only [tstep, hti]
      rw [if_pos ⟨hph, trivial⟩]
    | none =>
      by_cases hdec : T.ib ≠ [] ∧ T.ibStart ≤ T.pc ∧ T.pc - T.ibStart + 8 ≤ T.ib.length
      · left
        obtain ⟨i, hi⟩ := ready_next hfr hs hph
        have hd := dec_of_instAt hP T.ibStart T.pc T.ib i hF.f.ibok hdec.2.1 hdec.2.2 hi
        refine ⟨.decode, { T with toIssue := some i }, by decide, ?_⟩
        simp only [tstep, hti]
        rw [if_pos ⟨hdec.1, hph, hdec.2.1, by omega⟩]
        simp only [hd]
      · right
        refine ⟨rfl, ?_⟩
        rcases hL.rdy hph with hw | hw
        · by_cases he : T.ib = []
          · rw [he]; simp
          · have : ¬ (T.pc - T.ibStart + 8 ≤ T.ib.length) := fun h => hdec ⟨he, hw.1, h⟩
            omega
        · rw [hw.1]; simp
  | issued =>
    obtain ⟨i, hcur, f1, f2, f3, f4⟩ := hL.iss hph
    obtain ⟨n, E, H, _, hinv⟩ := hs
    have hcv := hinv.c.cvm
    have hcl := hinv.c.clgkm
    have hmemne : T.lgkm ≠ 0 → T.vq ≠ [] ∨ T.sq ≠ [] := by
      intro h
      by_cases hv : T.vq = []
      · right; intro hs'; rw [hv, hs'] at hcl; simp at hcl; exact h hcl
      · exact Or.inl hv
    have hvne : T.vm ≠ 0 → T.vq ≠ [] := by
      intro h hv; rw [hv] at hcv; simp at hcv; exact h hcv
    left
    cases hk : i.kind with
    | alu u =>
      have : ∃ T', tstep P gtrue T .exec = some T' := by
        simp only [tstep, hcur, hk]
        rw [if_pos hph]
        exact exists_of_ite_some _ _
      obtain ⟨T', hT'⟩ := this
      exact ⟨.exec, T', by decide, hT'⟩
    | branch =>
      have : ∃ T', tstep P gtrue T .exec = some T' := by
        simp only [tstep, hcur, hk]
        rw [if_pos hph]
        exact ⟨_, rfl⟩
      obtain ⟨T', hT'⟩ := this
      exact ⟨.exec, T', by decide, hT'⟩
    | vload =>
      by_cases hnt : i.noTxn T.regs = true
      · by_cases hvm : T.vm ≠ 0
        · exact mem_progress (Or.inl (hvne hvm))
        · have : ∃ T', tstep P gtrue T .exec = some T' := by
            simp only [tstep, hcur, hk]
            rw [if_pos hph, if_pos hnt, if_neg (fun h => hvm h.2)]
            exact advance_some T i f2 f3 f4 hL.mul
          obtain ⟨T', hT'⟩ := this
          exact ⟨.exec, T', by decide, hT'⟩
      · have : ∃ T', tstep P gtrue T .exec = some T' := by
          simp only [tstep, hcur, hk]
          rw [if_pos hph, if_neg hnt]
          exact advance_some _ i f2 f3 f4 hL.mul
        obtain ⟨T', hT'⟩ := this
        exact ⟨.exec, T', by decide, hT'⟩
    | vstore =>
      by_cases hnt : i.noTxn T.regs = true
      · by_cases hvm : T.vm ≠ 0
        · exact mem_progress (Or.inl (hvne hvm))
        · have : ∃ T', tstep P gtrue T .exec = some T' := by
            simp only [tstep, hcur, hk]
            rw [if_pos hph, if_pos hnt, if_neg (fun h => hvm h.2)]
            exact advance_some T i f2 f3 f4 hL.mul
          obtain ⟨T', hT'⟩ := this
          exact ⟨.exec, T', by decide, hT'⟩
      · have : ∃ T', tstep P gtrue T .exec = some T' := by
          simp only [tstep, hcur, hk]
          rw [if_pos hph, if_neg hnt]
          exact advance_some _ i f2 f3 f4 hL.mul
        obtain ⟨T', hT'⟩ := this
        exact ⟨.exec, T', by decide, hT'⟩
    | sload =>
      have : ∃ T', tstep P gtrue T .exec = some T' := by
        simp only [tstep, hcur, hk]
        rw [if_pos hph]
        exact advance_some _ i f2 f3 f4 hL.mul
      obtain ⟨T', hT'⟩ := this
      exact ⟨.exec, T', by decide, hT'⟩
    | wait a b =>
      by_cases hc : T.vm ≤ a ∧ T.lgkm ≤ b
      · have : ∃ T', tstep P gtrue T .complete = some T' := by
          simp only [tstep, hcur, hk]
          rw [if_pos ⟨hph, hc⟩]
          exact advance_some T i f2 f3 f4 hL.mul
        obtain ⟨T', hT'⟩ := this
        exact ⟨.complete, T', by decide, hT'⟩
      · exact mem_progress (hmemne (by omega))
    | nop =>
      have : ∃ T', tstep P gtrue T .complete = some T' := by
        simp only [tstep, hcur, hk]
        rw [if_pos hph]
        exact advance_some T i f2 f3 f4 hL.mul
      obtain ⟨T', hT'⟩ := this
      exact ⟨.complete, T', by decide, hT'⟩
    | endpgm =>
      by_cases hc : T.vm = 0 ∧ T.lgkm = 0
      · have : ∃ T', tstep P gtrue T .complete = some T' := by
          simp only [tstep, hcur, hk]
          rw [if_pos ⟨hph, hc⟩]
          exact ⟨_, rfl⟩
        obtain ⟨T', hT'⟩ := this
        exact ⟨.complete, T', by decide, hT'⟩
      · exact mem_progress (hmemne (by omega))
  | executed =>
    obtain ⟨i, hcur, hx⟩ := hL.exe hph
    left
    have : ∃ T', tstep P gtrue T .complete = some T' := by
      rcases hx with hk | ⟨hk, _, q2, q3⟩ | ⟨u, hu, hk, _, f2, f3, f4⟩
      · simp only [tstep, hcur, hk]
        rw [if_pos hph]
        exact ⟨_, rfl⟩
      · simp only [tstep, hcur, hk]
        rw [if_pos hph, if_pos ⟨trivial, hP.fixed⟩]
        exact setReady_some T q2 q3 hL.mul
      · simp only [tstep, hcur, hk]
        rw [if_pos hph, if_neg (fun h => hu h.1)]
        exact advance_some T i f2 f3 f4 hL.mul
    obtain ⟨T', hT'⟩ := this
    exact ⟨.complete, T', by decide, hT'⟩

/-- the greedy scheduler's choice exists in every reachable unfinished state and decreases the measure -/
theorem greedy_step (hP : P.WF) {fuel : Nat} {x0 : EState × HState}
    (hfr : hazardFreeRun P fuel x0 = true) (hx0 : x0.1.trace = []) (hs : Sim P x0 T) (hF : FInv P T)
    (hL : LInv T) (hnd : T.ph ≠ .done) :
    ∃ e T', firstOk P T greedyOrder = some (e, T') ∧ e ∈ greedyOrder ∧ tstep P gtrue T e = some T' ∧
      wfMeasure fuel T' < wfMeasure fuel T := by
  have hlt : T.ph = .ready → T.trace.length < fuel := ready_trace_lt hfr hx0 hs
  rw [greedyOrder_eq, firstOk_append]
  cases h8 : firstOk P T first8 with
  | some r =>
    obtain ⟨e, T'⟩ := r
    obtain ⟨hm, ht⟩ := firstOk_some _ _ _ h8
    exact ⟨e, T', rfl, List.mem_append_left _ hm, ht, dec_first8 hlt hm ht⟩
  | none =>
    have hnone := firstOk_none _ h8
    rcases progress_core hP hfr hs hF hL hnd with ⟨e, T', hm, ht⟩ | ⟨hph, h72⟩
    · rw [hnone e hm] at ht; cases ht
    · cases hf : T.fetching with
      | some a =>
        have : ∃ T', tstep P gtrue T .fetchRet = some T' := by
          simp only [tstep, hf]
          exact exists_of_ite_some _ _
        obtain ⟨T', hT'⟩ := this
        refine ⟨.fetchRet, T', ?_, by decide, hT', dec_fetchRet h72 hL.mul hT'⟩
        simp only [firstOk, hT']
      | none =>
        have h1 : tstep P gtrue T .fetchRet = none := by simp only [tstep, hf]
        have : ∃ T', tstep P gtrue T .fetch = some T' := by
          simp only [tstep]
          rw [if_pos ⟨hf, hnd, by omega⟩]
          exact ⟨_, rfl⟩
        obtain ⟨T', hT'⟩ := this
        refine ⟨.fetch, T', ?_, by decide, hT', dec_fetch hT'⟩
        simp only [firstOk, h1, hT']

/-- the greedy schedule: up to `k` times, take the first event of `greedyOrder` the rules accept -/
def greedy (P : Prog) : Nat → TState → List Ev × TState
  | 0, T => ([], T)
  | n + 1, T => if T.ph = .done then ([], T) else
    match firstOk P T greedyOrder with
    | none => ([], T)
    | some (e, T') => (e :: (greedy P n T').1, (greedy P n T').2)

theorem greedy_trun : ∀ (k : Nat) (T : TState), trun P gtrue T (greedy P k T).1 = some (greedy P k T).2 := by
  intro k
  induction k with
  | zero => intro T; rfl
  | succ k ih =>
    intro T
    unfold greedy
    by_cases hd : T.ph = .done
    · rw [if_pos hd]; rfl
    · rw [if_neg hd]
      cases hf : firstOk P T greedyOrder with
      | none => rfl
      | some r =>
        obtain ⟨e, T'⟩ := r
        obtain ⟨_, ht⟩ := firstOk_some _ _ _ hf
        simp only [trun, ht]
        exact ih T'

theorem greedy_done (hP : P.WF) (hNW : P.NoWrap) {fuel : Nat} {x0 : EState × HState}
    (hfr : hazardFreeRun P fuel x0 = true) (hx0 : x0.1.trace = []) :
    ∀ (k : Nat) (T : TState), Sim P x0 T → FInv P T → LInv T → wfMeasure fuel T < k →
      (greedy P k T).2.ph = .done ∧ (greedy P k T).1.length ≤ wfMeasure fuel T := by
  intro k
  induction k with
  | zero => intro T _ _ _ h; omega
  | succ k ih =>
    intro T hs hF hL hk
    unfold greedy
    by_cases hd : T.ph = .done
    · rw [if_pos hd]; exact ⟨hd, Nat.zero_le _⟩
    · rw [if_neg hd]
      obtain ⟨e, T', hf, _, ht, hdec⟩ := greedy_step hP hfr hx0 hs hF hL hd
      rw [hf]
      obtain ⟨h1, h2⟩ := ih T' (sim_step hP hfr e hs ht) (finv_step hP e hF ht) (linv_step hP hNW e hF hL ht)
        (by omega)
      exact ⟨h1, by simp only [List.length_cons]; omega⟩

theorem wfMeasure_init (fuel pc : Nat) (regs : RF) (mem : Mem) :
    wfMeasure fuel (tinit pc regs mem) = fuel * 64 + 24 := by
  simp [wfMeasure, tinit, rank, pm, fetchM, need]

/-! ## `NoWrap` for the concrete programs -/

theorem findAt_go_lt (cs : List CInst) (o n a : Nat) (r : Nat × Nat)
    (h : findAt.go a (offsets cs o) (cs.map fun c => (compile c).size) n = some r) :
    a < o + 8 * cs.length := by
  induction cs generalizing o n with
  | nil => simp [offsets, findAt.go] at h
  | cons c t ih =>
    simp only [offsets, List.map_cons, findAt.go] at h
    have := compile_size_le c
    simp only [List.length_cons]
    split at h
    · omega
    · have := ih _ _ h
      omega

/-- a program laid out by `cprog` that ends 8 bytes before 2^64 never wraps the PC -/
theorem cprog_noWrap (base : Nat) (cs : List CInst) (foreign : Nat → Bool)
    (h : base + 8 * cs.length + 8 ≤ PCM) : (cprog base cs foreign).NoWrap := by
  intro pc i hi
  unfold Prog.instAt at hi
  rw [window8] at hi
  obtain ⟨b0, b1, t, c, hl, _, _, rfl⟩ := (cprog_dec_eq base cs foreign _ i).1 hi
  have h238 : (cprog base cs foreign).imem (pc + 2) = 238 := by
    injection hl with _ hl
    injection hl with _ hl
    injection hl with hl _
  have hs := compile_size_le c
  simp only [cprog] at h238
  split at h238
  · exact absurd h238 (by decide)
  · split at h238
    · rename_i k j hfa
      unfold findAt at hfa
      have := findAt_go_lt cs 0 0 _ _ hfa
      omega
    · exact absurd h238 (by decide)

/-! ## a wedged state, decidably -/

/-- nothing decoded, nothing running, nothing in flight, no fetch outstanding, the buffer full, and the
    PC below the buffer -/
def wedged (T : TState) : Bool :=
  T.toIssue.isNone && T.cur.isNone && T.vq.isEmpty && T.sq.isEmpty && T.fetching.isNone &&
    !T.ib.isEmpty && decide (256 ≤ T.ib.length) && decide (T.pc < T.ibStart)

theorem wedged_spec (h : wedged T = true) (gate : TState → Inst → Bool) (e : Ev) (he : isEnv e = false) :
    tstep P gate T e = none := by
  simp only [wedged, Bool.and_eq_true, Option.isNone_iff_eq_none, List.isEmpty_iff, Bool.not_eq_true',
    decide_eq_true_eq] at h
  obtain ⟨⟨⟨⟨⟨⟨⟨h1, h2⟩, h3⟩, h4⟩, h5⟩, h6⟩, h7⟩, h8⟩ := h
  have h6' : T.ib ≠ [] := by intro h; rw [h] at h6; simp at h6
  cases e with
  | fetch => simp only [tstep]; rw [if_neg (by omega)]
  | fetchRet => simp only [tstep, h5]
  | resync => simp only [tstep]; rw [if_neg h6']
  | decode => simp only [tstep, h1]; rw [if_neg (by omega)]
  | issue => simp only [tstep, h1]
  | exec => simp only [tstep, h2]
  | complete => simp only [tstep, h2]
  | serveV k => simp only [tstep, h3, List.getElem?_nil]
  | serveS k => simp only [tstep, h4, List.getElem?_nil]
  | retV => simp only [tstep, h3]
  | retS k => simp only [tstep, h4, List.getElem?_nil]
  | env a v => simp [isEnv] at he

end C02.Wf
