import MgpuModel.C13Core
/-! Helper lemmas for property C13 (slices, symbol-table lookups, overrides). -/
namespace C13

/-! ## slices -/

theorem sliceU64_some {d : Bytes} {off size : Nat} {x : Bytes} (ho : off < U64) (hs : size < U64)
    (h : sliceU64 d off size = some x) :
    off + size ≤ d.length ∧ x = (d.drop off).take size ∧ x.length = size := by
  unfold sliceU64 at h
  simp only at h
  split at h
  · rename_i hc
    have hsz : (off + size) % U64 - off = size ∧ off + size ≤ d.length := by
      unfold U64 at *; omega
    injection h with h
    subst h
    rw [hsz.1]
    refine ⟨hsz.2, rfl, ?_⟩
    simp only [List.length_take, List.length_drop]
    omega
  · cases h

theorem sliceU64_ok {d : Bytes} {off size : Nat} (h : off + size ≤ d.length) (hl : d.length < U64) :
    sliceU64 d off size = some ((d.drop off).take size) := by
  unfold sliceU64
  have he : (off + size) % U64 = off + size := Nat.mod_eq_of_lt (by omega)
  simp only [he]
  rw [if_pos ⟨by omega, h⟩]
  congr 2
  omega

theorem wrapSub_lt {a b : Nat} (ha : a < U64) : wrapSub a b < U64 := by
  unfold wrapSub
  split <;> (unfold U64 at *; omega)

theorem wrapSub_of_le {a b : Nat} (h : b ≤ a) : wrapSub a b = a - b := by
  unfold wrapSub; rw [if_pos h]

/-! ## lookups only see the symbols with the name they look for -/

theorem find?_filter_name (l : List Symbol) (n : String) (q : Symbol → Bool) :
    l.find? (fun s => s.name == n && q s) = (l.filter (·.name == n)).find? q := by
  rw [List.find?_filter]
  congr 1
  funext a
  cases (a.name == n) <;> cases q a <;> simp

theorem kernel_find?_eq (secs : List Section) (l : List Symbol) (k : String) :
    (l.filter (isKernelSym secs)).find? (·.name == k) = (l.filter (·.name == k)).find? (isKernelSym secs) := by
  rw [List.find?_filter, List.find?_filter]
  congr 1
  funext a
  cases (a.name == k) <;> cases isKernelSym secs a <;> simp

theorem length_filter_name_le_one (l : List Symbol) (n : String) (h : (l.map (·.name)).Nodup) :
    (l.filter (·.name == n)).length ≤ 1 := by
  induction l with
  | nil => simp
  | cons a t ih =>
    simp only [List.map_cons, List.nodup_cons] at h
    by_cases ha : a.name = n
    · have hnil : t.filter (·.name == n) = [] := by
        rw [List.filter_eq_nil_iff]
        intro s hs hsn
        apply h.1
        have : s.name = n := by simpa using hsn
        rw [ha, ← this]
        exact List.mem_map_of_mem hs
      simp [ha, hnil]
    · have := ih h.2
      simp [ha, this]

theorem perm_short_eq {α : Type} {a b : List α} (hp : a.Perm b) (hl : a.length ≤ 1) : a = b := by
  match a, hl with
  | [], _ => exact hp.nil_eq
  | [x], _ => exact List.singleton_perm.mp hp

/-- Two symbol tables whose `rel`-relevant parts are permutations of each other and
have unique names agree on the sub-list of symbols carrying any relevant name. -/
theorem filter_name_eq_of_perm (rel : Symbol → Bool) (n : String) (l1 l2 : List Symbol)
    (hrel : ∀ s : Symbol, s.name = n → rel s = true)
    (hp : (l1.filter rel).Perm (l2.filter rel))
    (h1 : ((l1.filter rel).map (·.name)).Nodup) :
    l1.filter (·.name == n) = l2.filter (·.name == n) := by
  have e : ∀ l : List Symbol, l.filter (·.name == n) = (l.filter rel).filter (·.name == n) := by
    intro l
    rw [List.filter_filter]
    apply List.filter_congr
    intro s _
    cases h : (s.name == n)
    · simp
    · have : s.name = n := by simpa using h
      simp [hrel s this]
  rw [e l1, e l2]
  exact perm_short_eq (hp.filter _) (length_filter_name_le_one _ n h1)

/-! ## overrides: a running maximum -/

def sgprContribution (k : String) (s : Symbol) : Nat :=
  if s.name = k ++ ".numbered_sgpr" then sgprFromSym s.value else 0

def vgprContribution (k : String) (s : Symbol) : Nat :=
  if s.name = k ++ ".numbered_sgpr" then 0 else if s.name = k ++ ".num_vgpr" then vgprFromSym s.value else 0

theorem overrideStep_max (k : String) (m : Meta) (s : Symbol) :
    overrideStep k m s =
      { m with wfSgpr := max m.wfSgpr (sgprContribution k s), wiVgpr := max m.wiVgpr (vgprContribution k s) } := by
  unfold overrideStep sgprContribution vgprContribution
  cases m
  dsimp only
  split
  · split
    · simp only [Nat.max_zero, Meta.mk.injEq, true_and, and_true]; omega
    · simp only [Nat.max_zero, Meta.mk.injEq, true_and, and_true]; omega
  · split
    · split
      · simp only [Nat.max_zero, Meta.mk.injEq, true_and, and_true]; omega
      · simp only [Nat.max_zero, Meta.mk.injEq, true_and, and_true]; omega
    · simp

theorem overrideStep_comm (k : String) (m : Meta) (x y : Symbol) :
    overrideStep k (overrideStep k m x) y = overrideStep k (overrideStep k m y) x := by
  simp only [overrideStep_max, Meta.mk.injEq, true_and]
  constructor <;> omega

/-- closed form: the override is the maximum over all symbols, so it cannot depend on their order -/
theorem overrideRegs_max (k : String) (syms : List Symbol) (m : Meta) :
    overrideRegs k m syms =
      { m with wfSgpr := syms.foldl (fun a s => max a (sgprContribution k s)) m.wfSgpr,
               wiVgpr := syms.foldl (fun a s => max a (vgprContribution k s)) m.wiVgpr } := by
  unfold overrideRegs
  induction syms generalizing m with
  | nil => rfl
  | cons s t ih => simp only [List.foldl_cons]; rw [ih, overrideStep_max]

def regRelevant (k : String) (s : Symbol) : Bool :=
  s.name == k ++ ".numbered_sgpr" || s.name == k ++ ".num_vgpr"

theorem overrideStep_irrelevant (k : String) (m : Meta) (s : Symbol) (h : regRelevant k s = false) :
    overrideStep k m s = m := by
  unfold regRelevant at h
  simp only [Bool.or_eq_false_iff, beq_eq_false_iff_ne, ne_eq] at h
  unfold overrideStep
  simp [h.1, h.2]

theorem overrideRegs_filter (k : String) (syms : List Symbol) (m : Meta) :
    overrideRegs k m syms = overrideRegs k m (syms.filter (regRelevant k)) := by
  unfold overrideRegs
  induction syms generalizing m with
  | nil => rfl
  | cons s t ih =>
    cases h : regRelevant k s
    · simp only [List.foldl_cons, List.filter_cons, h, overrideStep_irrelevant k m s h]
      exact ih m
    · simp only [List.foldl_cons, List.filter_cons, h]
      exact ih _

theorem overrideRegs_perm (k : String) (l1 l2 : List Symbol) (m : Meta) (hp : l1.Perm l2) :
    overrideRegs k m l1 = overrideRegs k m l2 := by
  unfold overrideRegs
  exact hp.foldl_eq' (fun x _ y _ z => overrideStep_comm k z x y) m

end C13

namespace C13

/-! ## no out-of-range slice on well-formed views -/

/-- Symbols lie inside the sections they name, and `.text` / `.rodata` are not repeated
(so the section a symbol names is the one the loader reads). -/
structure WellFormed (secs : List Section) (syms : List Symbol) : Prop where
  inside : ∀ s ∈ syms, ∀ sec d, secs[s.shndx]? = some sec → sec.data = some d →
    sec.addr ≤ s.value ∧ s.value + s.size ≤ sec.addr + d.length
  small : ∀ sec ∈ secs, ∀ d, sec.data = some d → d.length < U64
  uniq : ∀ a ∈ secs, ∀ b ∈ secs, a.name = b.name → (a.name = ".text" ∨ a.name = ".rodata") → a = b

theorem findSection_spec {secs : List Section} {n : String} {sec : Section}
    (h : findSection secs n = some sec) : sec ∈ secs ∧ sec.name = n := by
  unfold findSection at h
  exact ⟨List.mem_of_find?_eq_some h, by simpa using List.find?_some h⟩

theorem fromEntireText_ne_fault (d : Bytes) : fromEntireText d ≠ .fault := by
  unfold fromEntireText parseV2V3Header?
  split
  · rename_i h
    simp only [ge_iff_le, Bool.and_eq_true, decide_eq_true_eq] at h
    rw [if_neg (by omega)]
    simp
  · simp

theorem withSym_ne_fault (o : Outcome) (s : Symbol) (h : o ≠ .fault) : withSym o s ≠ .fault := by
  cases o <;> simp_all [withSym]

/-- the repaired descriptor lookup cannot panic, on any view -/
theorem findV5_never_faults (secs : List Section) (k : String) (syms : List Symbol) :
    findV5 secs k syms ≠ .fault := by
  unfold findV5
  cases findSection secs ".rodata" with
  | none => simp
  | some ro =>
    simp only
    cases ro.data with
    | none => simp
    | some rod =>
      simp only
      cases syms.find? (fun s => s.name == k ++ ".kd" && s.size == 64) with
      | none => simp
      | some ks =>
        simp only
        cases secs[ks.shndx]? with
        | none => simp
        | some sec =>
          simp only
          split
          · split
            · split
              · rename_i hc
                unfold parseV5KernelDescriptor?
                rw [if_neg (by simp only [List.length_take, List.length_drop]; omega)]
                simp
              · simp
            · simp
          · simp

theorem findV5_ne_fault (secs : List Section) (syms : List Symbol) (k : String)
    (_wf : WellFormed secs syms) : findV5 secs k syms ≠ .fault := findV5_never_faults secs k syms

theorem loadNamed_ne_fault (secs : List Section) (text : Section) (td : Bytes) (syms : List Symbol) (k : String)
    (ht : findSection secs ".text" = some text) (htd : text.data = some td)
    (wf : WellFormed secs syms) : loadNamed secs text td syms k ≠ .fault := by
  obtain ⟨htm, htn⟩ := findSection_spec ht
  unfold loadNamed
  cases hf : (syms.filter (isKernelSym secs)).find? (·.name == k) with
  | none => simp
  | some s =>
    simp only
    have hmem := List.mem_filter.mp (List.mem_of_find?_eq_some hf)
    have hk := hmem.2
    unfold isKernelSym at hk
    cases hsec : secs[s.shndx]? with
    | none => simp [hsec] at hk
    | some sec =>
      simp only [hsec, Bool.and_eq_true, beq_iff_eq] at hk
      have hsm : sec ∈ secs := List.mem_of_getElem? hsec
      have he : sec = text := wf.uniq sec hsm text htm (by rw [hk.2.1, htn]) (Or.inl hk.2.1)
      subst he
      obtain ⟨h1, h2⟩ := wf.inside s hmem.1 sec td hsec htd
      have hl := wf.small sec hsm td htd
      simp only [wrapSub_of_le h1, sliceU64_ok (show s.value - sec.addr + s.size ≤ td.length by omega) hl]
      have hv := findV5_ne_fault secs syms k wf
      cases hv5 : findV5 secs k syms with
      | fault => exact absurd hv5 hv
      | found m => simp
      | none => exact withSym_ne_fault _ _ (fromEntireText_ne_fault _)

end C13
