import MgpuModel.C02L1
/-!
C02 (second deepening) — helpers and the invariant behind `Props/C02L1.lean`.

`Inv s` (reachable states of the repaired system whose kernels never overlap):
* `Ctl`: the command processor's counters match the environment (`acks = |creq| + rsps`, `busy` mirrors `run`),
  a running kernel is the one started last, and while an invalidation is in progress (`invFor = some r`)
  nothing runs and every L1V cache that has performed its flush request is empty;
* `Coh`: every cached word equals memory, or a compute unit other than the cache's wrote the address in
  the kernel started last (which a race-free kernel's own compute unit then never reads).
-/
namespace C02.L1

/-! ## lists -/

theorem getD_updL1 (l1 : List (List Line)) (cu i : Nat) (f : List Line → List Line) :
    (updL1 l1 cu f).getD i [] = if i = cu ∧ i < l1.length then f (l1.getD i []) else l1.getD i [] := by
  unfold updL1
  simp only [List.getD_eq_getElem?_getD, List.getElem?_mapIdx]
  by_cases hi : i < l1.length
  · rw [List.getElem?_eq_getElem hi]
    by_cases hc : i = cu
    · subst hc; simp [hi]
    · simp [hc]
  · rw [List.getElem?_eq_none (by omega)]
    simp [hi]

theorem length_updL1 (l1 : List (List Line)) (cu : Nat) (f : List Line → List Line) :
    (updL1 l1 cu f).length = l1.length := by
  simp [updL1]

theorem firstFree_some : ∀ (bs : List Bool) (k d : Nat), firstFree bs k = some d →
    k ≤ d ∧ bs[d - k]? = some false
  | [], _, _, h => by simp [firstFree] at h
  | b :: bs, k, d, h => by
    unfold firstFree at h
    cases b with
    | true =>
      simp only [if_true] at h
      have ⟨h1, h2⟩ := firstFree_some bs (k + 1) d h
      refine ⟨by omega, ?_⟩
      have : d - k = (d - (k + 1)) + 1 := by omega
      rw [this, List.getElem?_cons_succ]; exact h2
    | false =>
      simp only [Bool.false_eq_true, if_false, Option.some.injEq] at h
      subst h; simp

theorem getD_eq_some_iff (l : List (Option Nat)) (d k : Nat) :
    l.getD d none = some k ↔ l[d]? = some (some k) := by
  rw [List.getD_eq_getElem?_getD]
  cases l[d]? with
  | none => simp
  | some x => simp

theorem one_running : ∀ (l : List (Option Nat)) (d k : Nat), l[d]? = some (some k) →
    1 ≤ (l.filter Option.isSome).length
  | [], _, _, h => by simp at h
  | x :: l, 0, k, h => by
    simp only [List.getElem?_cons_zero, Option.some.injEq] at h
    subst h; simp [List.filter]
  | x :: l, d + 1, k, h => by
    rw [List.getElem?_cons_succ] at h
    have := one_running l d k h
    rw [List.filter_cons]; split <;> simp <;> omega

theorem two_running : ∀ (l : List (Option Nat)) (d d' k k' : Nat), d ≠ d' → l[d]? = some (some k) →
    l[d']? = some (some k') → 2 ≤ (l.filter Option.isSome).length
  | [], _, _, _, _, _, h, _ => by simp at h
  | x :: l, 0, 0, _, _, hne, _, _ => absurd rfl hne
  | x :: l, 0, d' + 1, k, k', _, h, h' => by
    simp only [List.getElem?_cons_zero, Option.some.injEq] at h
    rw [List.getElem?_cons_succ] at h'
    have := one_running l d' k' h'
    subst h; simp [List.filter]; omega
  | x :: l, d + 1, 0, k, k', _, h, h' => by
    simp only [List.getElem?_cons_zero, Option.some.injEq] at h'
    rw [List.getElem?_cons_succ] at h
    have := one_running l d k h
    subst h'; simp [List.filter]; omega
  | x :: l, d + 1, d' + 1, k, k', hne, h, h' => by
    rw [List.getElem?_cons_succ] at h h'
    have := two_running l d d' k k' (by omega) h h'
    rw [List.filter_cons]; split <;> simp <;> omega

theorem filter_set_some_le : ∀ (l : List (Option Nat)) (d x : Nat),
    (l.filter Option.isSome).length ≤ ((l.set d (some x)).filter Option.isSome).length
  | [], _, _ => by simp
  | y :: l, 0, x => by
    simp only [List.set_cons_zero, List.filter_cons, Option.isSome_some, if_true, List.length_cons]
    split <;> simp
  | y :: l, d + 1, x => by
    have := filter_set_some_le l d x
    simp only [List.set_cons_succ, List.filter_cons]
    split <;> simp <;> omega

/-! ## `applyOuts`, micro steps of a tick -/

theorem applyOuts_nil (s : Sys) : applyOuts s [] = s := rfl

theorem applyOuts_cons (s : Sys) (o : Out) (os : List Out) :
    applyOuts s (o :: os) = applyOuts (applyOuts s [o]) os := rfl

theorem applyOuts_append (s : Sys) (a b : List Out) :
    applyOuts s (a ++ b) = applyOuts (applyOuts s a) b := by
  simp [applyOuts, List.foldl_append]

theorem applyOuts_setcp (s : Sys) (c : Cp) (os : List Out) :
    applyOuts { s with cp := c } os = { applyOuts s os with cp := c } := by
  induction os generalizing s with
  | nil => rfl
  | cons o os ih =>
    rw [applyOuts_cons, applyOuts_cons s]
    have : applyOuts { s with cp := c } [o] = { applyOuts s [o] with cp := c } := by cases o <;> rfl
    rw [this]; exact ih _

theorem applyOuts_start (s : Sys) (d r : Nat) :
    applyOuts s [.start d r] =
      { s with run := s.run.set d (some s.nk), nk := s.nk + 1, before := s.before ++ [s.fin] } := rfl

theorem applyOuts_flushRsp (s : Sys) : applyOuts s [.flushRsp] = s := rfl

theorem applyOuts_inval (s : Sys) (l : List Nat) :
    applyOuts s (l.map .inval) = { s with creq := s.creq ++ l } := by
  induction l generalizing s with
  | nil => simp [applyOuts_nil]
  | cons i l ih =>
    rw [List.map_cons, applyOuts_cons, ih]
    show ({ s with creq := (s.creq ++ [i]) ++ l } : Sys) = _
    rw [List.append_assoc]; rfl

theorem applyOuts_flushc (s : Sys) (l : List Nat) :
    applyOuts s (l.map .flushc) = { s with creq := s.creq ++ l } := by
  induction l generalizing s with
  | nil => simp [applyOuts_nil]
  | cons i l ih =>
    rw [List.map_cons, applyOuts_cons, ih]
    show ({ s with creq := (s.creq ++ [i]) ++ l } : Sys) = _
    rw [List.append_assoc]; rfl

/-- number of running kernels (what `noOverlap` bounds after every tick) -/
def cnt (s : Sys) : Nat := (s.run.filter Option.isSome).length

theorem cnt_applyOuts (s : Sys) (os : List Out) : cnt s ≤ cnt (applyOuts s os) := by
  induction os generalizing s with
  | nil => exact Nat.le_refl _
  | cons o os ih =>
    rw [applyOuts_cons]
    refine Nat.le_trans ?_ (ih _)
    cases o with
    | start d r => exact filter_set_some_le _ _ _
    | _ => exact Nat.le_refl _

/-- one middleware of the command processor run on the system: its outputs applied -/
def micro (f : Cp → Cp × List Out) (s : Sys) : Sys :=
  { applyOuts s (f s.cp).2 with cp := (f s.cp).1 }

theorem cnt_micro (f : Cp → Cp × List Out) (s : Sys) : cnt s ≤ cnt (micro f s) :=
  cnt_applyOuts s _

theorem micro_comp (f g : Cp → Cp × List Out) (s : Sys) :
    micro g (micro f s) =
      { applyOuts s ((f s.cp).2 ++ (g (f s.cp).1).2) with cp := (g (f s.cp).1).1 } := by
  show ({ applyOuts ({ applyOuts s (f s.cp).2 with cp := (f s.cp).1 } : Sys) (g (f s.cp).1).2 with
          cp := (g (f s.cp).1).1 } : Sys) = _
  rw [applyOuts_setcp, applyOuts_append]

theorem micro_both (s : Sys) : micro both s = micro cacheRsp (micro mwHandle s) := by
  unfold micro both
  simp only [applyOuts_append, applyOuts_setcp]

theorem cpTick_empty (c : Cp) (h : c.inq.isEmpty = true) : cpTick c = both c := by
  unfold cpTick; simp [h]

theorem cpTick_nonempty (c : Cp) (h : c.inq.isEmpty = false) :
    cpTick c = ((both (both c).1).1, (both c).2 ++ (both (both c).1).2) := by
  unfold cpTick; simp [h]

theorem micro_cpTick (s : Sys) :
    micro cpTick s = micro both (if s.cp.inq.isEmpty then s else micro both s) := by
  by_cases h : s.cp.inq.isEmpty = true
  · simp only [h, if_true]
    unfold micro
    rw [cpTick_empty _ h]
  · simp only [h, if_false, Bool.false_eq_true]
    rw [micro_comp]
    show ({ applyOuts s (cpTick s.cp).2 with cp := (cpTick s.cp).1 } : Sys) = _
    rw [cpTick_nonempty _ (by simpa using h)]

theorem sysStep_tick (s : Sys) : sysStep s .tick = some (micro cpTick s) := by
  unfold sysStep micro
  simp only [applyOuts_setcp]

/-! ## the invariant -/

structure Ctl (s : Sys) : Prop where
  fix : s.cp.fix = true
  len : s.l1.length = s.cp.nV
  busy : s.cp.busy = s.run.map Option.isSome
  acks : s.cp.acks = s.creq.length + s.cp.rsps
  /-- a running kernel is the kernel started last -/
  last : ∀ d k, s.run.getD d none = some k → k + 1 = s.nk
  /-- while an invalidation is in progress nothing runs and the caches that answered are empty -/
  inv : ∀ r, s.cp.invFor = some r → s.cp.idle = true ∧ s.cp.nS + s.cp.nV ≠ 0 ∧
      ∀ cu, cu < s.l1.length → (s.cp.nI + s.cp.nS + cu) ∈ s.creq ∨ s.l1.getD cu [] = []

/-- every cached word is the memory word, or another compute unit wrote it in the kernel started last -/
def Coh (s : Sys) : Prop :=
  ∀ cu L a, L ∈ s.l1.getD cu [] → lineOf s.ls a = L.id →
    L.data a = s.mem a ∨ ∃ e ∈ s.log, e.a = a ∧ e.w = true ∧ e.cu ≠ cu ∧ e.k + 1 = s.nk

def Inv (s : Sys) : Prop := Ctl s ∧ Coh s

theorem Coh_sub {s s' : Sys} (h : Coh s)
    (hl : ∀ cu L, L ∈ s'.l1.getD cu [] → L ∈ s.l1.getD cu [])
    (hls : s'.ls = s.ls) (hm : s'.mem = s.mem) (hlog : ∀ e ∈ s.log, e ∈ s'.log) (hnk : s'.nk = s.nk) :
    Coh s' := by
  intro cu L a hL ha
  rw [hls] at ha
  rcases h cu L a (hl cu L hL) ha with h1 | ⟨e, he, h2⟩
  · left; rw [hm]; exact h1
  · right; exact ⟨e, hlog e he, by rw [hnk]; exact h2⟩

theorem idle_run {s : Sys} (hb : s.cp.busy = s.run.map Option.isSome) (hi : s.cp.idle = true)
    (d : Nat) : s.run.getD d none = none := by
  cases h : s.run.getD d none with
  | none => rfl
  | some k =>
    exfalso
    rw [getD_eq_some_iff] at h
    have h1 : s.cp.busy[d]? = some true := by rw [hb, List.getElem?_map, h]; rfl
    have h2 : true ∈ s.cp.busy := List.mem_of_getElem? h1
    unfold Cp.idle at hi
    rw [List.all_eq_true] at hi
    simpa using hi true h2

theorem not_idle_run {s : Sys} (hb : s.cp.busy = s.run.map Option.isSome) (hi : s.cp.idle = false) :
    ∃ d k : Nat, s.run[d]? = some (some k) := by
  unfold Cp.idle at hi
  rw [List.all_eq_false] at hi
  obtain ⟨b, hb1, hb2⟩ := hi
  have hbt : b = true := by simpa using hb2
  subst hbt
  obtain ⟨d, hd⟩ := List.getElem?_of_mem hb1
  rw [hb, List.getElem?_map] at hd
  cases h : s.run[d]? with
  | none => rw [h] at hd; simp at hd
  | some o =>
    rw [h] at hd
    cases o with
    | none => simp at hd
    | some k => exact ⟨d, k, h⟩

theorem Ctl.acks0 {s : Sys} (h : Ctl s) (h0 : s.cp.acks = 0) : s.creq = [] ∧ s.cp.rsps = 0 := by
  have := h.acks
  refine ⟨List.eq_nil_of_length_eq_zero (by omega), by omega⟩

/-- the command processor changed, the environment did not: what `Ctl` needs of the new one -/
theorem Ctl.of_cp {s : Sys} (h : Ctl s) (c' : Cp) (hfix : c'.fix = s.cp.fix) (hnI : c'.nI = s.cp.nI)
    (hnS : c'.nS = s.cp.nS) (hnV : c'.nV = s.cp.nV) (hbusy : c'.busy = s.cp.busy)
    (hinv : c'.invFor = s.cp.invFor) (hacks : c'.acks = s.creq.length + c'.rsps) :
    Ctl { s with cp := c' } where
  fix := by simpa [hfix] using h.fix
  len := by simpa [hnV] using h.len
  busy := by simpa [hbusy] using h.busy
  acks := hacks
  last := h.last
  inv := by
    intro r hr
    have hi : c'.idle = s.cp.idle := by unfold Cp.idle; rw [hbusy]
    simp only [hinv] at hr
    simpa [hi, hnI, hnS, hnV] using h.inv r hr

theorem cacheRsp_zero (c : Cp) (h : c.rsps = 0) : cacheRsp c = (c, []) := by
  simp [cacheRsp, h]

theorem cacheRsp_pos (c : Cp) (h : c.rsps ≠ 0) :
    (cacheRsp c).1.fix = c.fix ∧ (cacheRsp c).1.nI = c.nI ∧ (cacheRsp c).1.nS = c.nS ∧
    (cacheRsp c).1.nV = c.nV ∧ (cacheRsp c).1.nL2 = c.nL2 ∧ (cacheRsp c).1.busy = c.busy ∧
    (cacheRsp c).1.invFor = c.invFor ∧ (cacheRsp c).1.inq = c.inq ∧
    (cacheRsp c).1.acks = c.acks - 1 ∧ (cacheRsp c).1.rsps = c.rsps - 1 := by
  unfold cacheRsp
  simp only [h, if_false]
  repeat' split
  all_goals simp

theorem applyOuts_cacheRsp (s : Sys) (c : Cp) : applyOuts s (cacheRsp c).2 = s := by
  unfold cacheRsp
  simp only []
  repeat' split
  all_goals rfl

theorem inv_cacheRsp {s : Sys} (h : Inv s) : Inv (micro cacheRsp s) := by
  unfold micro
  rw [applyOuts_cacheRsp]
  refine ⟨?_, Coh_sub h.2 (fun _ _ h => h) rfl rfl (fun _ h => h) rfl⟩
  have ha := h.1.acks
  by_cases h0 : s.cp.rsps = 0
  · rw [cacheRsp_zero _ h0]; exact h.1
  · obtain ⟨h1, h2, h3, h4, _, h5, h6, _, h7, h8⟩ := cacheRsp_pos s.cp h0
    exact h.1.of_cp _ h1 h2 h3 h4 h5 h6 (by omega)

/-! ### `processFlushReq` -/

theorem flushReqStep_wait (c : Cp) (h : c.acks > 0) : flushReqStep c = (c, []) := by
  simp [flushReqStep, h]

theorem flushReqStep_go (c : Cp) (h : c.acks = 0) :
    flushReqStep c = ({ c with acks := (allCaches c).length, flushReq := true, inq := c.inq.drop 1 },
      (allCaches c).map .flushc ++ (if (allCaches c).length = 0 then [.flushRsp] else [])) := by
  simp [flushReqStep, h]

theorem applyOuts_flushTail (s : Sys) (n : Nat) :
    applyOuts s (if n = 0 then [.flushRsp] else []) = s := by
  split <;> rfl

theorem inv_flushReq {s : Sys} (h : Inv s) : Inv (micro flushReqStep s) := by
  unfold micro
  by_cases h0 : s.cp.acks > 0
  · rw [flushReqStep_wait _ h0]; exact h
  · have h0 : s.cp.acks = 0 := by omega
    obtain ⟨hc, hr⟩ := h.1.acks0 h0
    rw [flushReqStep_go _ h0]
    simp only [applyOuts_append, applyOuts_flushc, applyOuts_flushTail]
    refine ⟨?_, Coh_sub h.2 (fun _ _ h => h) rfl rfl (fun _ h => h) rfl⟩
    exact {
      fix := h.1.fix
      len := h.1.len
      busy := h.1.busy
      acks := by simp [hc, hr]
      last := h.1.last
      inv := by
        intro r hr
        obtain ⟨h1, h2, h3⟩ := h.1.inv r hr
        refine ⟨h1, h2, fun cu hcu => ?_⟩
        rcases h3 cu hcu with h4 | h4
        · left; exact List.mem_append_left _ h4
        · right; exact h4 }

/-! ### `processLaunchKernelReq` -/

theorem launchReq_none (c : Cp) (r : Nat) (h : firstFree c.busy 0 = none) : launchReq c r = (c, []) := by
  simp [launchReq, h]

theorem launchReq_old (c : Cp) (r d : Nat) (h : firstFree c.busy 0 = some d) (hf : c.fix = false) :
    launchReq c r = ({ c with busy := setAt c.busy d true, inq := c.inq.drop 1 }, [.start d r]) := by
  simp [launchReq, h, hf]

theorem launchReq_wait (c : Cp) (r : Nat) (hf : c.fix = true) (ha : c.acks > 0) :
    launchReq c r = (c, []) := by
  unfold launchReq
  split
  · rfl
  · simp [hf, ha]

theorem launchReq_startInv (c : Cp) (r d : Nat) (h : firstFree c.busy 0 = some d) (hf : c.fix = true)
    (ha : c.acks = 0) (hi : c.invFor = some r) :
    launchReq c r =
      ({ c with invFor := none, busy := setAt c.busy d true, inq := c.inq.drop 1 }, [.start d r]) := by
  simp [launchReq, h, hf, ha, hi]

theorem launchReq_goBusy (c : Cp) (r d : Nat) (h : firstFree c.busy 0 = some d) (hf : c.fix = true)
    (ha : c.acks = 0) (hi : c.invFor ≠ some r) (hidle : c.idle = false) :
    launchReq c r = ({ c with busy := setAt c.busy d true, inq := c.inq.drop 1 }, [.start d r]) := by
  simp [launchReq, h, hf, ha, hi, hidle]

theorem launchReq_goNoL1 (c : Cp) (r d : Nat) (h : firstFree c.busy 0 = some d) (hf : c.fix = true)
    (ha : c.acks = 0) (hi : c.invFor ≠ some r) (hidle : c.idle = true) (hl : l1Caches c = []) :
    launchReq c r = ({ c with busy := setAt c.busy d true, inq := c.inq.drop 1 }, [.start d r]) := by
  simp [launchReq, h, hf, ha, hi, hidle, hl]

theorem launchReq_inval (c : Cp) (r d : Nat) (h : firstFree c.busy 0 = some d) (hf : c.fix = true)
    (ha : c.acks = 0) (hi : c.invFor ≠ some r) (hidle : c.idle = true) (hl : l1Caches c ≠ []) :
    launchReq c r =
      ({ c with acks := (l1Caches c).length, invFor := some r }, (l1Caches c).map .inval) := by
  simp [launchReq, h, hf, ha, hi, hidle, hl]

theorem l1Caches_nil (c : Cp) : l1Caches c = [] ↔ c.nS + c.nV = 0 := by
  simp [l1Caches]

theorem length_l1Caches (c : Cp) : (l1Caches c).length = c.nS + c.nV := by
  simp [l1Caches]

theorem mem_l1Caches (c : Cp) (i : Nat) : i ∈ l1Caches c ↔ c.nI ≤ i ∧ i < c.nI + c.nS + c.nV := by
  simp only [l1Caches, List.mem_map, List.mem_range]
  constructor
  · rintro ⟨j, hj, rfl⟩; omega
  · intro h; exact ⟨i - c.nI, by omega, by omega⟩

/-- a kernel starts on an idle GPU whose L1V caches are all empty -/
theorem inv_start {s : Sys} (d r : Nat) (h : Inv s) (hidle : s.cp.idle = true)
    (hemp : ∀ cu, s.l1.getD cu [] = []) (c' : Cp) (hfix : c'.fix = s.cp.fix) (hnV : c'.nV = s.cp.nV)
    (hbusy : c'.busy = setAt s.cp.busy d true) (hinv : c'.invFor = none) (ha : c'.acks = s.cp.acks)
    (hr : c'.rsps = s.cp.rsps) :
    Inv { applyOuts s [.start d r] with cp := c' } := by
  rw [applyOuts_start]
  constructor
  · exact {
      fix := by simpa [hfix] using h.1.fix
      len := by simpa [hnV] using h.1.len
      busy := by simp [hbusy, h.1.busy, setAt, List.map_set]
      acks := by simpa [ha, hr] using h.1.acks
      last := by
        intro d' k hk
        simp only [List.getD_eq_getElem?_getD, List.getElem?_set] at hk
        have hn := idle_run h.1.busy hidle d'
        rw [List.getD_eq_getElem?_getD] at hn
        split at hk
        · split at hk
          · simp at hk; simp [hk]
          · simp at hk
        · rw [hn] at hk; simp at hk
      inv := by intro r hr; simp [hinv] at hr }
  · intro cu L a hL
    simp only [hemp] at hL
    simp at hL

theorem cnt_start_busy {s : Sys} (d r : Nat) (hb : s.cp.busy = s.run.map Option.isSome)
    (hidle : s.cp.idle = false) (hff : firstFree s.cp.busy 0 = some d) :
    2 ≤ cnt (applyOuts s [.start d r]) := by
  obtain ⟨d', k, hk⟩ := not_idle_run hb hidle
  have ⟨_, hd⟩ := firstFree_some _ _ _ hff
  rw [hb, List.getElem?_map, Nat.sub_zero] at hd
  have hdn : s.run[d]? = some none := by
    cases h : s.run[d]? with
    | none => rw [h] at hd; simp at hd
    | some o => rw [h] at hd; cases o <;> simp at hd ⊢
  have hne : d ≠ d' := by intro h; subst h; rw [hk] at hdn; simp at hdn
  have hlt : d < s.run.length := by
    rcases Nat.lt_or_ge d s.run.length with h | h
    · exact h
    · rw [List.getElem?_eq_none h] at hdn; simp at hdn
  rw [applyOuts_start]
  unfold cnt
  apply two_running _ d d' s.nk k hne
  · simp [hlt]
  · simp only [List.getElem?_set, hne, if_false]; exact hk

theorem inv_launch {s : Sys} (r : Nat) (h : Inv s)
    (hc : cnt (micro (fun c => launchReq c r) s) ≤ 1) : Inv (micro (fun c => launchReq c r) s) := by
  unfold micro at hc ⊢
  simp only at hc ⊢
  have hfix := h.1.fix
  cases hff : firstFree s.cp.busy 0 with
  | none => rw [launchReq_none _ _ hff]; exact h
  | some d =>
    by_cases ha : s.cp.acks > 0
    · rw [launchReq_wait _ _ hfix ha]; exact h
    have ha : s.cp.acks = 0 := by omega
    obtain ⟨hcr, hrs⟩ := h.1.acks0 ha
    by_cases hi : s.cp.invFor = some r
    · rw [launchReq_startInv _ _ _ hff hfix ha hi]
      obtain ⟨h1, h2, h3⟩ := h.1.inv r hi
      refine inv_start d r h h1 (fun cu => ?_) _ rfl rfl rfl rfl rfl rfl
      rcases Nat.lt_or_ge cu s.l1.length with hlt | hge
      · rcases h3 cu hlt with h4 | h4
        · rw [hcr] at h4; simp at h4
        · exact h4
      · simp [List.getD_eq_getElem?_getD, List.getElem?_eq_none hge]
    have hnone : s.cp.invFor = none ∨ s.cp.nS + s.cp.nV ≠ 0 := by
      cases hv : s.cp.invFor with
      | none => left; rfl
      | some r' => right; exact (h.1.inv r' hv).2.1
    by_cases hidle : s.cp.idle = true
    · by_cases hl : l1Caches s.cp = []
      · rw [launchReq_goNoL1 _ _ _ hff hfix ha hi hidle hl]
        have hz := (l1Caches_nil _).1 hl
        have hv : s.cp.invFor = none := by
          rcases hnone with h | h
          · exact h
          · exact absurd hz h
        refine inv_start d r h hidle (fun cu => ?_) _ rfl rfl rfl hv rfl rfl
        have : s.l1 = [] := List.eq_nil_of_length_eq_zero (by rw [h.1.len]; omega)
        simp [this]
      · rw [launchReq_inval _ _ _ hff hfix ha hi hidle hl, applyOuts_inval]
        refine ⟨?_, Coh_sub h.2 (fun _ _ h => h) rfl rfl (fun _ h => h) rfl⟩
        exact {
          fix := hfix
          len := h.1.len
          busy := h.1.busy
          acks := by simp [hcr, hrs]
          last := h.1.last
          inv := by
            intro r' _
            refine ⟨hidle, fun hz => hl ((l1Caches_nil _).2 hz), fun cu hcu => ?_⟩
            left
            refine List.mem_append_right _ ((mem_l1Caches _ _).2 ?_)
            have := h.1.len
            simp only at hcu ⊢
            omega }
    · have hidle : s.cp.idle = false := by simpa using hidle
      rw [launchReq_goBusy _ _ _ hff hfix ha hi hidle] at hc
      have := cnt_start_busy d r h.1.busy hidle hff
      exfalso
      have h2 : cnt ({ applyOuts s [Out.start d r] with
          cp := { s.cp with busy := setAt s.cp.busy d true, inq := s.cp.inq.drop 1 } } : Sys) =
          cnt (applyOuts s [Out.start d r]) := rfl
      simp only at hc
      rw [h2] at hc
      omega

theorem inv_mwHandle {s : Sys} (h : Inv s) (hc : cnt (micro mwHandle s) ≤ 1) :
    Inv (micro mwHandle s) := by
  unfold micro mwHandle at hc ⊢
  split at hc
  · exact h
  · next r _ heq => exact inv_launch r h hc
  · next heq => exact inv_flushReq h

theorem inv_both {s : Sys} (h : Inv s) (hc : cnt (micro both s) ≤ 1) : Inv (micro both s) := by
  rw [micro_both] at hc ⊢
  exact inv_cacheRsp (inv_mwHandle h (Nat.le_trans (cnt_micro _ _) hc))

theorem inv_tick {s : Sys} (h : Inv s) (hc : cnt (micro cpTick s) ≤ 1) : Inv (micro cpTick s) := by
  rw [micro_cpTick] at hc ⊢
  have h1 : Inv (if s.cp.inq.isEmpty then s else micro both s) := by
    split
    · exact h
    · next hne =>
      simp only [hne] at hc
      exact inv_both h (Nat.le_trans (cnt_micro _ _) hc)
  exact inv_both h1 hc

/-! ### the other events -/

theorem running_not_inv {s : Sys} (h : Ctl s) {d k : Nat} (hk : s.run.getD d none = some k) :
    s.cp.invFor = none := by
  cases hv : s.cp.invFor with
  | none => rfl
  | some r =>
    have := idle_run h.busy (h.inv r hv).1 d
    rw [this] at hk; simp at hk

theorem inv_arrive {s : Sys} (m : Msg) (h : Inv s) :
    Inv { s with cp := { s.cp with inq := s.cp.inq ++ [m] } } :=
  ⟨h.1.of_cp _ rfl rfl rfl rfl rfl rfl h.1.acks, Coh_sub h.2 (fun _ _ h => h) rfl rfl (fun _ h => h) rfl⟩

theorem inv_cacheDo {s : Sys} (i : Nat) (h : Inv s) (hi : s.creq.contains i = true) :
    Inv { s with creq := s.creq.erase i,
                 l1 := if s.cp.nI + s.cp.nS ≤ i ∧ i < s.cp.nI + s.cp.nS + s.cp.nV then
                         updL1 s.l1 (i - (s.cp.nI + s.cp.nS)) (fun _ => []) else s.l1,
                 cp := { s.cp with rsps := s.cp.rsps + 1 } } := by
  have hmem : i ∈ s.creq := by simpa using hi
  have hsub : ∀ cu L, L ∈ (if s.cp.nI + s.cp.nS ≤ i ∧ i < s.cp.nI + s.cp.nS + s.cp.nV then
        updL1 s.l1 (i - (s.cp.nI + s.cp.nS)) (fun _ => []) else s.l1).getD cu [] → L ∈ s.l1.getD cu [] := by
    intro cu L hL
    split at hL
    · rw [getD_updL1] at hL
      split at hL
      · simp at hL
      · exact hL
    · exact hL
  refine ⟨?_, Coh_sub h.2 hsub rfl rfl (fun _ h => h) rfl⟩
  exact {
    fix := h.1.fix
    len := by
      show (if _ then _ else _ : List (List Line)).length = s.cp.nV
      split
      · rw [length_updL1]; exact h.1.len
      · exact h.1.len
    busy := h.1.busy
    acks := by
      have := h.1.acks
      have hl := List.length_erase_of_mem hmem
      have hp : 0 < s.creq.length := List.length_pos_of_mem hmem
      simp only [hl]
      omega
    last := h.1.last
    inv := by
      intro r hr
      obtain ⟨h1, h2, h3⟩ := h.1.inv r hr
      refine ⟨h1, h2, fun cu hcu => ?_⟩
      have hlen : (if s.cp.nI + s.cp.nS ≤ i ∧ i < s.cp.nI + s.cp.nS + s.cp.nV then
          updL1 s.l1 (i - (s.cp.nI + s.cp.nS)) (fun _ => []) else s.l1).length = s.l1.length := by
        split
        · exact length_updL1 _ _ _
        · rfl
      have hcu' : cu < s.l1.length := by simpa [hlen] using hcu
      have hV := h.1.len
      by_cases hci : s.cp.nI + s.cp.nS + cu = i
      · right
        show (if _ then _ else _ : List (List Line)).getD cu [] = []
        rw [if_pos (by omega), getD_updL1, if_pos ⟨by omega, hcu'⟩]
      · rcases h3 cu hcu' with h4 | h4
        · left; exact (List.mem_erase_of_ne hci).2 h4
        · right
          show (if _ then _ else _ : List (List Line)).getD cu [] = []
          split
          · rw [getD_updL1]; split
            · rfl
            · exact h4
          · exact h4 }

theorem inv_evict {s : Sys} (cu ln : Nat) (h : Inv s) :
    Inv { s with l1 := updL1 s.l1 cu fun l => l.filter fun x => x.id != ln } := by
  have hsub : ∀ cu' L, L ∈ (updL1 s.l1 cu fun l => l.filter fun x => x.id != ln).getD cu' [] →
      L ∈ s.l1.getD cu' [] := by
    intro cu' L hL
    rw [getD_updL1] at hL
    split at hL
    · exact (List.mem_filter.1 hL).1
    · exact hL
  refine ⟨?_, Coh_sub h.2 hsub rfl rfl (fun _ h => h) rfl⟩
  exact {
    fix := h.1.fix
    len := by simpa [length_updL1] using h.1.len
    busy := h.1.busy
    acks := h.1.acks
    last := h.1.last
    inv := by
      intro r hr
      obtain ⟨h1, h2, h3⟩ := h.1.inv r hr
      refine ⟨h1, h2, fun cu' hcu => ?_⟩
      have hcu' : cu' < s.l1.length := by simpa [length_updL1] using hcu
      rcases h3 cu' hcu' with h4 | h4
      · left; exact h4
      · right
        show (updL1 _ _ _).getD cu' [] = []
        rw [getD_updL1]; split
        · rw [h4]; rfl
        · exact h4 }

theorem inv_done {s : Sys} (d k : Nat) (h : Inv s) (hk : s.run.getD d none = some k) :
    Inv { s with run := s.run.set d none, fin := s.fin ++ [k],
                 cp := { s.cp with busy := setAt s.cp.busy d false } } := by
  refine ⟨?_, Coh_sub h.2 (fun _ _ h => h) rfl rfl (fun _ h => h) rfl⟩
  have hv := running_not_inv h.1 hk
  exact {
    fix := h.1.fix
    len := h.1.len
    busy := by simp [h.1.busy, setAt, List.map_set]
    acks := h.1.acks
    last := by
      intro d' k' hk'
      simp only [List.getD_eq_getElem?_getD, List.getElem?_set] at hk'
      split at hk'
      · split at hk' <;> simp at hk'
      · exact h.1.last d' k' (by rw [List.getD_eq_getElem?_getD]; exact hk')
    inv := by intro r hr; simp [hv] at hr }

/-- the lines of a cache after a read: the old ones, or a copy of memory -/
theorem l1Read_mem {ls : Nat} {mem : Mem} {l1 : List (List Line)} {cu a cu' : Nat} {L : Line}
    (h : L ∈ (l1Read ls mem l1 cu a).2.getD cu' []) : L ∈ l1.getD cu' [] ∨ L.data = mem := by
  unfold l1Read at h
  split at h
  · left; exact h
  · simp only [getD_updL1] at h
    split at h
    · rcases List.mem_append.1 h with h | h
      · left; exact h
      · right; simp at h; rw [h]
    · left; exact h

theorem length_l1Read (ls : Nat) (mem : Mem) (l1 : List (List Line)) (cu a : Nat) :
    (l1Read ls mem l1 cu a).2.length = l1.length := by
  unfold l1Read; split
  · rfl
  · exact length_updL1 _ _ _

/-- the value of a read: memory (miss) or the cached word of a line of that cache (hit) -/
theorem l1Read_val (ls : Nat) (mem : Mem) (l1 : List (List Line)) (cu a : Nat) :
    (l1Read ls mem l1 cu a).1 = mem a ∨
      ∃ L ∈ l1.getD cu [], lineOf ls a = L.id ∧ (l1Read ls mem l1 cu a).1 = L.data a := by
  unfold l1Read
  split
  · next x hx =>
    right
    unfold findLine at hx
    refine ⟨x, List.mem_of_find?_eq_some hx, ?_, rfl⟩
    have := List.find?_some hx
    simp at this; exact this.symm
  · left; rfl

/-- the lines of a cache after a write by `cu`: each comes from an old line, changed at `a` only -/
theorem l1Write_mem {ls : Nat} {l1 : List (List Line)} {cu a v cu' : Nat} {L' : Line}
    (h : L' ∈ (l1Write ls l1 cu a v).getD cu' []) :
    ∃ L ∈ l1.getD cu' [], L.id = L'.id ∧ (∀ b, b ≠ a → L'.data b = L.data b) ∧
      (cu' = cu → L.id = lineOf ls a → L'.data a = v) ∧ (cu' ≠ cu → L' = L) := by
  unfold l1Write at h
  rw [getD_updL1] at h
  split at h
  · next hc =>
    obtain ⟨L, hL, rfl⟩ := List.mem_map.1 h
    refine ⟨L, hL, ?_⟩
    by_cases hid : L.id = lineOf ls a
    · rw [if_pos hid]
      refine ⟨rfl, fun b hb => by simp [setM, hb], fun _ _ => by simp [setM], fun hne => absurd hc.1 hne⟩
    · rw [if_neg hid]
      exact ⟨rfl, fun _ _ => rfl, fun _ h => absurd h hid, fun _ => rfl⟩
  · next hc =>
    refine ⟨L', h, rfl, fun _ _ => rfl, fun hcu hid => ?_, fun _ => rfl⟩
    exfalso
    subst hcu
    have : ¬ cu' < l1.length := fun hlt => hc ⟨rfl, hlt⟩
    rw [List.getD_eq_getElem?_getD, List.getElem?_eq_none (by omega)] at h
    simp at h

theorem length_l1Write (ls : Nat) (l1 : List (List Line)) (cu a v : Nat) :
    (l1Write ls l1 cu a v).length = l1.length := length_updL1 _ _ _

theorem inv_rd {s : Sys} (d k cu a : Nat) (h : Inv s) (hk : s.run.getD d none = some k) :
    Inv { s with race := s.race || conflicts s k (.rd cu a),
                 log := s.log ++ [Log.mk k cu a false],
                 reads := s.reads ++ [(l1Read s.ls s.mem s.l1 cu a).1],
                 l1 := (l1Read s.ls s.mem s.l1 cu a).2 } := by
  have hv := running_not_inv h.1 hk
  constructor
  · exact {
      fix := h.1.fix
      len := by simpa [length_l1Read] using h.1.len
      busy := h.1.busy
      acks := h.1.acks
      last := h.1.last
      inv := by intro r hr; simp [hv] at hr }
  · intro cu' L b hL hb
    rcases l1Read_mem hL with h1 | h1
    · rcases h.2 cu' L b h1 hb with h2 | ⟨e, he, h2⟩
      · left; exact h2
      · right; exact ⟨e, List.mem_append_left _ he, h2⟩
    · left; rw [h1]

theorem inv_wr {s : Sys} (d k cu a v : Nat) (h : Inv s) (hk : s.run.getD d none = some k) :
    Inv { s with race := s.race || conflicts s k (.wr cu a v),
                 log := s.log ++ [Log.mk k cu a true],
                 mem := setM s.mem a v,
                 l1 := l1Write s.ls s.l1 cu a v } := by
  have hv := running_not_inv h.1 hk
  constructor
  · exact {
      fix := h.1.fix
      len := by simpa [length_l1Write] using h.1.len
      busy := h.1.busy
      acks := h.1.acks
      last := h.1.last
      inv := by intro r hr; simp [hv] at hr }
  · intro cu' L' b hL hb
    obtain ⟨L, hL0, hid, hoth, hsame, hother⟩ := l1Write_mem hL
    show L'.data b = setM s.mem a v b ∨ _
    by_cases hba : b = a
    · subst hba
      by_cases hcu : cu' = cu
      · left
        rw [hsame hcu (by rw [hid]; exact hb.symm)]; simp [setM]
      · right
        refine ⟨Log.mk k cu b true, List.mem_append_right _ (by simp), rfl, rfl, fun h => hcu h.symm, ?_⟩
        exact h.1.last d k hk
    · have hm : setM s.mem a v b = s.mem b := by simp [setM, hba]
      rw [hm, hoth b hba]
      rcases h.2 cu' L b hL0 (by rw [hid]; exact hb) with h2 | ⟨e, he, h2⟩
      · left; exact h2
      · right; exact ⟨e, List.mem_append_left _ he, h2⟩

theorem inv_init (ls nI nS nV nL2 nd : Nat) (m : Mem) : Inv (initSys true ls nI nS nV nL2 nd m) := by
  constructor
  · exact {
      fix := rfl
      len := by simp [initSys, initCp]
      busy := by simp [initSys, initCp]
      acks := by simp [initSys, initCp]
      last := by
        intro d k hk
        simp [initSys, List.getD_eq_getElem?_getD, List.getElem?_replicate] at hk
        split at hk <;> simp at hk
      inv := by intro r hr; simp [initSys, initCp] at hr }
  · intro cu L a hL
    simp [initSys, List.getD_eq_getElem?_getD, List.getElem?_replicate] at hL
    split at hL <;> simp at hL

/-! ## the run against the flat memory -/

theorem applyOuts_race (s : Sys) (os : List Out) : (applyOuts s os).race = s.race := by
  induction os generalizing s with
  | nil => rfl
  | cons o os ih => rw [applyOuts_cons, ih]; cases o <;> rfl

theorem applyOuts_mem (s : Sys) (os : List Out) : (applyOuts s os).mem = s.mem := by
  induction os generalizing s with
  | nil => rfl
  | cons o os ih => rw [applyOuts_cons, ih]; cases o <;> rfl

theorem applyOuts_reads (s : Sys) (os : List Out) : (applyOuts s os).reads = s.reads := by
  induction os generalizing s with
  | nil => rfl
  | cons o os ih => rw [applyOuts_cons, ih]; cases o <;> rfl

/-- what one event does to the emulator's memory, and the value it reads -/
def flatStep (m : Mem) : Ev → List Nat × Mem
  | .acc _ (.rd _ a) => ([m a], m)
  | .acc _ (.wr _ a v) => ([], setM m a v)
  | _ => ([], m)

theorem flat_cons (m : Mem) (e : Ev) (es : List Ev) :
    flat m (e :: es) = ((flatStep m e).1 ++ (flat (flatStep m e).2 es).1, (flat (flatStep m e).2 es).2) := by
  cases e with
  | acc d x => cases x <;> rfl
  | _ => rfl

/-- a stale hit is a race: the read conflicts with the other compute unit's write in the same kernel -/
theorem stale_conflicts {s : Sys} {k cu a : Nat} {e : Log} (he : e ∈ s.log) (ha : e.a = a)
    (hw : e.w = true) (hcu : e.cu ≠ cu) (hk : e.k = k) : conflicts s k (.rd cu a) = true := by
  unfold conflicts
  rw [List.any_eq_true]
  exact ⟨e, he, by simp [Acc.addr, Acc.cu, Acc.isWr, ha, hw, hcu, hk]⟩

theorem step_inv {s s' : Sys} {e : Ev} (h : Inv s) (hs : sysStep s e = some s')
    (hc : e = .tick → cnt s' ≤ 1) : Inv s' := by
  cases e with
  | arrive m => simp only [sysStep, Option.some.injEq] at hs; subst hs; exact inv_arrive m h
  | tick =>
    rw [sysStep_tick, Option.some.injEq] at hs; subst hs
    exact inv_tick h (hc rfl)
  | cacheDo i =>
    simp only [sysStep] at hs
    split at hs
    · next hi => rw [Option.some.injEq] at hs; subst hs; exact inv_cacheDo i h hi
    · simp at hs
  | acc d x =>
    simp only [sysStep] at hs
    split at hs
    · simp at hs
    · next k hk =>
      cases x with
      | rd cu a => simp only [Option.some.injEq] at hs; subst hs; exact inv_rd d k cu a h hk
      | wr cu a v => simp only [Option.some.injEq] at hs; subst hs; exact inv_wr d k cu a v h hk
  | evict cu ln => simp only [sysStep, Option.some.injEq] at hs; subst hs; exact inv_evict cu ln h
  | done d =>
    simp only [sysStep] at hs
    split at hs
    · simp at hs
    · next k hk => rw [Option.some.injEq] at hs; subst hs; exact inv_done d k h hk

theorem step_flat {s s' : Sys} {e : Ev} (h : Inv s) (hs : sysStep s e = some s')
    (hr : s'.race = false) :
    s.race = false ∧ s'.reads = s.reads ++ (flatStep s.mem e).1 ∧ s'.mem = (flatStep s.mem e).2 := by
  cases e with
  | arrive m =>
    simp only [sysStep, Option.some.injEq] at hs; subst hs
    exact ⟨hr, by simp [flatStep], rfl⟩
  | tick =>
    rw [sysStep_tick, Option.some.injEq] at hs; subst hs
    refine ⟨?_, ?_, ?_⟩
    · rw [← hr]; exact (applyOuts_race _ _).symm
    · simp only [flatStep, List.append_nil]; exact applyOuts_reads _ _
    · exact applyOuts_mem _ _
  | cacheDo i =>
    simp only [sysStep] at hs
    split at hs
    · rw [Option.some.injEq] at hs; subst hs; exact ⟨hr, by simp [flatStep], rfl⟩
    · simp at hs
  | acc d x =>
    simp only [sysStep] at hs
    split at hs
    · simp at hs
    · next k hk =>
      cases x with
      | rd cu a =>
        simp only [Option.some.injEq] at hs; subst hs
        simp only [Bool.or_eq_false_iff] at hr
        refine ⟨hr.1, ?_, rfl⟩
        simp only [flatStep]
        congr 2
        rcases l1Read_val s.ls s.mem s.l1 cu a with hv | ⟨L, hL, hid, hv⟩
        · exact hv
        · rw [hv]
          rcases h.2 cu L a hL hid with h2 | ⟨e, he, h2, h3, h4, h5⟩
          · exact h2
          · exfalso
            have hk' := h.1.last d k hk
            have := stale_conflicts (s := s) (k := k) he h2 h3 h4 (by omega)
            rw [this] at hr; simp at hr
      | wr cu a v =>
        simp only [Option.some.injEq] at hs; subst hs
        simp only [Bool.or_eq_false_iff] at hr
        exact ⟨hr.1, by simp [flatStep], rfl⟩
  | evict cu ln =>
    simp only [sysStep, Option.some.injEq] at hs; subst hs
    exact ⟨hr, by simp [flatStep], rfl⟩
  | done d =>
    simp only [sysStep] at hs
    split at hs
    · simp at hs
    · rw [Option.some.injEq] at hs; subst hs; exact ⟨hr, by simp [flatStep], rfl⟩

theorem run_flat : ∀ (evs : List Ev) (s sf : Sys), Inv s → sysRun s evs = some sf →
    noOverlap s evs = true → sf.race = false →
    s.race = false ∧ sf.reads = s.reads ++ (flat s.mem evs).1 ∧ sf.mem = (flat s.mem evs).2
  | [], s, sf, _, hrun, _, hr => by
    simp only [sysRun, Option.some.injEq] at hrun; subst hrun
    exact ⟨hr, by simp [flat], rfl⟩
  | e :: es, s, sf, h, hrun, hno, hr => by
    simp only [sysRun] at hrun
    simp only [noOverlap] at hno
    cases hstep : sysStep s e with
    | none => rw [hstep] at hrun; simp at hrun
    | some s1 =>
      rw [hstep] at hrun hno
      simp only [Bool.and_eq_true] at hrun hno
      have hinv : Inv s1 := step_inv h hstep (by
        intro he; subst he
        simpa [cnt] using hno.1)
      obtain ⟨h1, h2, h3⟩ := run_flat es s1 sf hinv hrun hno.2 hr
      obtain ⟨g1, g2, g3⟩ := step_flat h hstep h1
      rw [flat_cons, ← g3]
      refine ⟨g1, ?_, h3⟩
      rw [h2, g2, List.append_assoc]

/-- what a concrete run shows: it is defined, and its race flag and read values -/
theorem run_obs {s0 : Sys} {evs : List Ev} {r : Bool} {rd : List Nat}
    (h : (sysRun s0 evs).map (fun s => (s.race, s.reads)) = some (r, rd)) :
    ∃ s, sysRun s0 evs = some s ∧ s.race = r ∧ s.reads = rd := by
  cases hs : sysRun s0 evs with
  | none => rw [hs] at h; simp at h
  | some s =>
    rw [hs] at h
    simp only [Option.map_some, Option.some.injEq, Prod.mk.injEq] at h
    exact ⟨s, rfl, h.1, h.2⟩

/-! ## the command processor alone -/

/-- the same command-processor state with the repair switched on / off -/
def setFix (b : Bool) (c : Cp) : Cp := { c with fix := b }

theorem setFix_self (c : Cp) : setFix c.fix c = c := rfl

theorem flushReqStep_setFix (b : Bool) (c : Cp) :
    flushReqStep (setFix b c) = (setFix b (flushReqStep c).1, (flushReqStep c).2) := by
  by_cases h : c.acks > 0
  · rw [flushReqStep_wait c h, flushReqStep_wait (setFix b c) h]
  · have h : c.acks = 0 := by omega
    rw [flushReqStep_go c h, flushReqStep_go (setFix b c) h]; rfl

theorem cacheRsp_setFix (b : Bool) (c : Cp) :
    cacheRsp (setFix b c) = (setFix b (cacheRsp c).1, (cacheRsp c).2) := by
  by_cases h0 : c.rsps = 0 <;> by_cases h1 : c.acks - 1 = 0 <;> by_cases h2 : c.invFor.isSome = true <;>
    by_cases h3 : c.flushReq = true <;> simp [cacheRsp, setFix, h0, h1, h2, h3]

theorem cacheRsp_fix (c : Cp) : (cacheRsp c).1.fix = c.fix := by
  by_cases h : c.rsps = 0
  · rw [cacheRsp_zero _ h]
  · exact (cacheRsp_pos c h).1

theorem cacheRsp_inq (c : Cp) : (cacheRsp c).1.inq = c.inq := by
  by_cases h : c.rsps = 0
  · rw [cacheRsp_zero _ h]
  · exact (cacheRsp_pos c h).2.2.2.2.2.2.2.1

theorem launchReq_fix (c : Cp) (r : Nat) : (launchReq c r).1.fix = c.fix := by
  unfold launchReq
  repeat' split
  all_goals rfl

theorem flushReqStep_fix (c : Cp) : (flushReqStep c).1.fix = c.fix := by
  unfold flushReqStep
  split <;> rfl

theorem mwHandle_fix (c : Cp) : (mwHandle c).1.fix = c.fix := by
  unfold mwHandle
  split
  · rfl
  · exact launchReq_fix _ _
  · exact flushReqStep_fix _

theorem both_fix (c : Cp) : (both c).1.fix = c.fix := by
  unfold both
  simp only [cacheRsp_fix, mwHandle_fix]

/-- if the launch/flush middleware does not depend on the repair on the states `Q` (closed under both
    middlewares), a whole tick does not -/
theorem cpTick_setFix_of (Q : Cp → Prop)
    (hm : ∀ c, Q c → c.fix = false →
      mwHandle (setFix true c) = (setFix true (mwHandle c).1, (mwHandle c).2) ∧ Q (mwHandle c).1)
    (hr : ∀ c, Q c → Q (cacheRsp c).1) :
    ∀ c, Q c → c.fix = false →
      cpTick (setFix true c) = (setFix true (cpTick c).1, (cpTick c).2) ∧ Q (cpTick c).1 := by
  have hb : ∀ c, Q c → c.fix = false →
      both (setFix true c) = (setFix true (both c).1, (both c).2) ∧ Q (both c).1 := by
    intro c hq hf
    obtain ⟨h1, h2⟩ := hm c hq hf
    unfold both
    simp only [h1, cacheRsp_setFix]
    exact ⟨trivial, hr _ h2⟩
  intro c hq hf
  have hinq : (setFix true c).inq = c.inq := rfl
  obtain ⟨h1, h2⟩ := hb c hq hf
  by_cases he : c.inq.isEmpty = true
  · rw [cpTick_empty _ (by rw [hinq]; exact he), cpTick_empty _ he]
    exact ⟨h1, h2⟩
  · have he : c.inq.isEmpty = false := by simpa using he
    rw [cpTick_nonempty _ (by rw [hinq]; exact he), cpTick_nonempty _ he]
    obtain ⟨h3, h4⟩ := hb (both c).1 h2 (by rw [both_fix]; exact hf)
    simp only [h1, h3]
    exact ⟨trivial, h4⟩

/-- no kernel-launch request waits in the driver port -/
def noLaunch (c : Cp) : Prop := ∀ r, Msg.launch r ∉ c.inq

theorem mwHandle_nil (c : Cp) (h : c.inq = []) : mwHandle c = (c, []) := by
  unfold mwHandle; rw [h]

theorem mwHandle_launch_cons (c : Cp) (r : Nat) (rest : List Msg) (h : c.inq = .launch r :: rest) :
    mwHandle c = launchReq c r := by
  unfold mwHandle; rw [h]

theorem mwHandle_flush_cons (c : Cp) (rest : List Msg) (h : c.inq = .flush :: rest) :
    mwHandle c = flushReqStep c := by
  unfold mwHandle; rw [h]

theorem mwHandle_noLaunch (c : Cp) (hq : noLaunch c) :
    mwHandle (setFix true c) = (setFix true (mwHandle c).1, (mwHandle c).2) ∧ noLaunch (mwHandle c).1 := by
  cases h : c.inq with
  | nil =>
    rw [mwHandle_nil c h, mwHandle_nil (setFix true c) h]
    exact ⟨rfl, hq⟩
  | cons m rest =>
    cases m with
    | launch r => exact absurd (by rw [h]; simp) (hq r)
    | flush =>
      rw [mwHandle_flush_cons c rest h, mwHandle_flush_cons (setFix true c) rest h]
      refine ⟨flushReqStep_setFix _ _, ?_⟩
      intro r hr
      apply hq r
      by_cases ha : c.acks > 0
      · rw [flushReqStep_wait _ ha] at hr; exact hr
      · rw [flushReqStep_go _ (by omega)] at hr
        exact List.mem_of_mem_drop hr

/-- a platform without any cache, nothing outstanding -/
def noCaches (c : Cp) : Prop :=
  c.nI = 0 ∧ c.nS = 0 ∧ c.nV = 0 ∧ c.nL2 = 0 ∧ c.acks = 0 ∧ c.invFor = none

/-- without L1 scalar/vector caches and with no flush in progress the repaired `processLaunchKernelReq`
    does what the old one did -/
theorem launchReq_noL1 (c : Cp) (r : Nat) (h2 : c.nS = 0) (h3 : c.nV = 0) (h5 : c.acks = 0)
    (h6 : c.invFor = none) (hf : c.fix = false) :
    launchReq (setFix true c) r = (setFix true (launchReq c r).1, (launchReq c r).2) := by
  cases hff : firstFree c.busy 0 with
  | none =>
    rw [launchReq_none _ _ hff, launchReq_none _ _ (by exact hff)]
  | some d =>
    rw [launchReq_old _ _ _ hff hf]
    have hl : l1Caches (setFix true c) = [] := by
      rw [l1Caches_nil]; show c.nS + c.nV = 0; omega
    by_cases hidle : c.idle = true
    · rw [launchReq_goNoL1 (setFix true c) r d hff rfl h5 (by show c.invFor ≠ some r; simp [h6]) hidle hl]
      rfl
    · rw [launchReq_goBusy (setFix true c) r d hff rfl h5 (by show c.invFor ≠ some r; simp [h6])
        (by show c.idle = false; simpa using hidle)]
      rfl

theorem launchReq_noCaches (c : Cp) (r : Nat) (hq : noCaches c) (hf : c.fix = false) :
    launchReq (setFix true c) r = (setFix true (launchReq c r).1, (launchReq c r).2) ∧
      noCaches (launchReq c r).1 := by
  obtain ⟨h1, h2, h3, h4, h5, h6⟩ := hq
  refine ⟨launchReq_noL1 c r h2 h3 h5 h6 hf, ?_⟩
  cases hff : firstFree c.busy 0 with
  | none => rw [launchReq_none _ _ hff]; exact ⟨h1, h2, h3, h4, h5, h6⟩
  | some d => rw [launchReq_old _ _ _ hff hf]; exact ⟨h1, h2, h3, h4, h5, h6⟩

theorem mwHandle_noCaches (c : Cp) (hq : noCaches c) (hf : c.fix = false) :
    mwHandle (setFix true c) = (setFix true (mwHandle c).1, (mwHandle c).2) ∧ noCaches (mwHandle c).1 := by
  cases h : c.inq with
  | nil =>
    rw [mwHandle_nil c h, mwHandle_nil (setFix true c) h]
    exact ⟨rfl, hq⟩
  | cons m rest =>
    cases m with
    | launch r =>
      rw [mwHandle_launch_cons c r rest h, mwHandle_launch_cons (setFix true c) r rest h]
      exact launchReq_noCaches c r hq hf
    | flush =>
      rw [mwHandle_flush_cons c rest h, mwHandle_flush_cons (setFix true c) rest h]
      refine ⟨flushReqStep_setFix _ _, ?_⟩
      obtain ⟨h1, h2, h3, h4, h5, h6⟩ := hq
      rw [flushReqStep_go _ h5]
      refine ⟨h1, h2, h3, h4, ?_, h6⟩
      simp [allCaches, h1, h2, h3, h4]

theorem cacheRsp_noCaches (c : Cp) (hq : noCaches c) : noCaches (cacheRsp c).1 := by
  by_cases h : c.rsps = 0
  · rw [cacheRsp_zero _ h]; exact hq
  · obtain ⟨_, g2, g3, g4, g5, _, g7, _, g9, _⟩ := cacheRsp_pos c h
    obtain ⟨h1, h2, h3, h4, h5, h6⟩ := hq
    exact ⟨by omega, by omega, by omega, by omega, by omega, by rw [g7]; exact h6⟩

/-! ### nothing starts while acknowledgements are outstanding -/

theorem mwHandle_wait (c : Cp) (hf : c.fix = true) (ha : c.acks > 0) : mwHandle c = (c, []) := by
  unfold mwHandle
  split
  · rfl
  · exact launchReq_wait _ _ hf ha
  · exact flushReqStep_wait _ ha

theorem cacheRsp_no_start (c : Cp) (d r : Nat) : Out.start d r ∉ (cacheRsp c).2 := by
  unfold cacheRsp
  simp only []
  repeat' split
  all_goals simp

theorem cacheRsp_acks (c : Cp) : c.acks - 1 ≤ (cacheRsp c).1.acks := by
  by_cases h : c.rsps = 0
  · rw [cacheRsp_zero _ h]; exact Nat.sub_le _ _
  · have := (cacheRsp_pos c h).2.2.2.2.2.2.2.2.1
    omega

theorem both_no_start (c : Cp) (hf : c.fix = true) (ha : c.acks > 0) (d r : Nat) :
    Out.start d r ∉ (both c).2 ∧ (both c).1.fix = true ∧ c.acks - 1 ≤ (both c).1.acks := by
  unfold both
  simp only [mwHandle_wait c hf ha, List.nil_append]
  exact ⟨cacheRsp_no_start _ _ _, by rw [cacheRsp_fix]; exact hf, cacheRsp_acks _⟩

/-! ### the handshake terminates -/

/-- the outputs of `k` ticks -/
def tickOuts : Nat → Cp → List Out
  | 0, _ => []
  | k + 1, c => (cpTick c).2 ++ tickOuts k (cpTick c).1

/-- the invalidation for request `r` is in progress, `j` acknowledgements outstanding, all of them arrived -/
structure Waiting (c : Cp) (r d j : Nat) : Prop where
  fix : c.fix = true
  head : c.inq.head? = some (.launch r)
  inv : c.invFor = some r
  free : firstFree c.busy 0 = some d
  acks : c.acks = j
  rsps : c.rsps = j

theorem mwHandle_launch (c : Cp) (r : Nat) (h : c.inq.head? = some (.launch r)) :
    mwHandle c = launchReq c r := by
  unfold mwHandle
  cases hq : c.inq with
  | nil => rw [hq] at h; simp at h
  | cons m rest =>
    rw [hq] at h
    simp only [List.head?_cons, Option.some.injEq] at h
    subst h; rfl

theorem both_wait_ack {c : Cp} {r d j : Nat} (h : Waiting c r d (j + 1)) :
    (both c).2 = [] ∧ Waiting (both c).1 r d j := by
  have ha : c.acks > 0 := by rw [h.acks]; omega
  have hr : c.rsps ≠ 0 := by rw [h.rsps]; omega
  unfold both
  rw [mwHandle_launch c r h.head, launchReq_wait _ _ h.fix ha]
  obtain ⟨g1, _, _, _, _, g6, g7, g8, g9, g10⟩ := cacheRsp_pos c hr
  refine ⟨?_, ⟨by rw [g1]; exact h.fix, by rw [g8]; exact h.head, by rw [g7]; exact h.inv,
    by rw [g6]; exact h.free, by rw [g9, h.acks]; rfl, by rw [g10, h.rsps]; rfl⟩⟩
  simp [cacheRsp, hr, h.inv]

theorem both_start {c : Cp} {r d : Nat} (h : Waiting c r d 0) : Out.start d r ∈ (both c).2 := by
  unfold both
  rw [mwHandle_launch c r h.head, launchReq_startInv _ _ _ h.free h.fix h.acks h.inv]
  simp

theorem Waiting.nonempty {c : Cp} {r d j : Nat} (h : Waiting c r d j) : c.inq.isEmpty = false := by
  have := h.head
  cases hq : c.inq with
  | nil => rw [hq] at this; simp at this
  | cons _ _ => rfl

theorem tick_two_acks {c : Cp} {r d j : Nat} (h : Waiting c r d (j + 2)) :
    Waiting (cpTick c).1 r d j := by
  rw [cpTick_nonempty _ h.nonempty]
  exact (both_wait_ack (both_wait_ack h).2).2

theorem tick_last_ack {c : Cp} {r d : Nat} (h : Waiting c r d 1) : Out.start d r ∈ (cpTick c).2 := by
  rw [cpTick_nonempty _ h.nonempty]
  exact List.mem_append_right _ (both_start (both_wait_ack h).2)

theorem tick_no_ack {c : Cp} {r d : Nat} (h : Waiting c r d 0) : Out.start d r ∈ (cpTick c).2 := by
  rw [cpTick_nonempty _ h.nonempty]
  exact List.mem_append_left _ (both_start h)

theorem ticks_start : ∀ (j : Nat) (c : Cp) (r d : Nat), Waiting c r d j →
    Out.start d r ∈ tickOuts (j / 2 + 1) c
  | 0, c, r, d, h => List.mem_append_left _ (tick_no_ack h)
  | 1, c, r, d, h => List.mem_append_left _ (tick_last_ack h)
  | j + 2, c, r, d, h => by
    have : (j + 2) / 2 + 1 = (j / 2 + 1) + 1 := by omega
    rw [this]
    exact List.mem_append_right _ (ticks_start j _ r d (tick_two_acks h))

theorem firstFree_idle (c : Cp) (hi : c.idle = true) (hb : c.busy ≠ []) : firstFree c.busy 0 = some 0 := by
  unfold Cp.idle at hi
  cases hq : c.busy with
  | nil => exact absurd hq hb
  | cons b bs =>
    rw [hq] at hi
    simp only [List.all_cons, Bool.and_eq_true] at hi
    have : b = false := by simpa using hi.1
    subst this; rfl

theorem nodup_l1Caches (c : Cp) : (l1Caches c).Nodup := by
  unfold l1Caches List.Nodup
  exact List.Pairwise.map _ (fun a b h => by omega) List.pairwise_lt_range

/-- the first tick of a launch on an idle GPU with L1 caches: the invalidation goes out, nothing else -/
theorem first_tick_inval (c : Cp) (r : Nat) (hf : c.fix = true) (hidle : c.idle = true)
    (hb : c.busy ≠ []) (ha : c.acks = 0) (hr : c.rsps = 0) (hi : c.invFor ≠ some r)
    (hh : c.inq.head? = some (.launch r)) (hl : l1Caches c ≠ []) :
    cpTick c = ({ c with acks := (l1Caches c).length, invFor := some r }, (l1Caches c).map .inval) := by
  have hne : c.inq.isEmpty = false := by
    cases hq : c.inq with
    | nil => rw [hq] at hh; simp at hh
    | cons _ _ => rfl
  have hpos : (l1Caches c).length > 0 := List.length_pos_iff.2 hl
  have e1 := cacheRsp_zero { c with acks := (l1Caches c).length, invFor := some r } hr
  have e2 := mwHandle_launch { c with acks := (l1Caches c).length, invFor := some r } r hh
  have e3 := launchReq_wait { c with acks := (l1Caches c).length, invFor := some r } r hf hpos
  have h1 : both c = ({ c with acks := (l1Caches c).length, invFor := some r }, (l1Caches c).map .inval) := by
    unfold both
    rw [mwHandle_launch c r hh, launchReq_inval _ _ _ (firstFree_idle c hidle hb) hf ha hi hidle hl]
    simp only
    rw [e1]; simp
  have h2 : both { c with acks := (l1Caches c).length, invFor := some r } =
      ({ c with acks := (l1Caches c).length, invFor := some r }, []) := by
    unfold both
    rw [e2, e3]
    simp only
    rw [e1]; simp
  rw [cpTick_nonempty _ hne, h1]
  simp only [h2, List.append_nil]

/-- the first tick of a launch on an idle GPU without L1 caches starts the kernel -/
theorem first_tick_start (c : Cp) (r : Nat) (hf : c.fix = true) (hidle : c.idle = true)
    (hb : c.busy ≠ []) (ha : c.acks = 0) (hi : c.invFor ≠ some r)
    (hh : c.inq.head? = some (.launch r)) (hl : l1Caches c = []) :
    Out.start 0 r ∈ (cpTick c).2 := by
  have hne : c.inq.isEmpty = false := by
    cases hq : c.inq with
    | nil => rw [hq] at hh; simp at hh
    | cons _ _ => rfl
  rw [cpTick_nonempty _ hne]
  refine List.mem_append_left _ ?_
  unfold both
  rw [mwHandle_launch c r hh, launchReq_goNoL1 _ _ _ (firstFree_idle c hidle hb) hf ha hi hidle hl]
  simp

end C02.L1
