import MgpuProofs.C01MapDefs
import MgpuProofs.C01Track5
import MgpuProofs.C01Track5b
/-! # C01 — helpers shared by the symbolic executions of the map kernels (`ReLUForward`, `mul`) -/
set_option linter.unusedSimpArgs false
set_option linter.unusedVariables false
namespace C01.Emu
open C03V

/-- flatten a tracked record after a lift -/
macro "flat5" "at" h:ident : tactic =>
  `(tactic| simp only [Nat.reduceAdd, T5.setS_0, T5.s_0, T5.setS_1, T5.s_1, T5.setS_2, T5.s_2, T5.setS_3, T5.s_3, T5.setS_4, T5.s_4,
      T5.setS_5, T5.s_5, T5.setS_6, T5.s_6, T5.setS_7, T5.s_7, T5.setS_8, T5.s_8, T5.setV_0, T5.v_0, T5.setV_1, T5.v_1,
      T5.setV_2, T5.v_2, T5.setV_3, T5.v_3, T5.setV_4, T5.v_4, T5.setPc_eq, T5.setVcc_eq, T5.setExec_eq, T5.setMem_eq,
      Nat.zero_add] at $h:ident)

macro "flat5g" : tactic =>
  `(tactic| simp only [Nat.reduceAdd, T5.setS_0, T5.s_0, T5.setS_1, T5.s_1, T5.setS_2, T5.s_2, T5.setS_3, T5.s_3, T5.setS_4, T5.s_4,
      T5.setS_5, T5.s_5, T5.setS_6, T5.s_6, T5.setS_7, T5.s_7, T5.setS_8, T5.s_8, T5.setV_0, T5.v_0, T5.setV_1, T5.v_1,
      T5.setV_2, T5.v_2, T5.setV_3, T5.v_3, T5.setV_4, T5.v_4, T5.setPc_eq, T5.setVcc_eq, T5.setExec_eq, T5.setMem_eq,
      Nat.zero_add])

/-- replace the tracked VCC by an equal value -/
theorem Tracks5.withVcc {st : St} {t : T5} (h : Tracks5 st t) (x : Nat) (hx : t.vcc = x) :
    Tracks5 st { t with vcc := x } :=
  h.congr rfl rfl hx rfl rfl rfl rfl rfl rfl rfl rfl rfl (fun _ _ => rfl) (fun _ _ => rfl) (fun _ _ => rfl)
    (fun _ _ => rfl) (fun _ _ => rfl) (fun _ => rfl)

/-- replace tracked scalar registers s0…s3 by equal values -/
theorem Tracks5.withS03 {st : St} {t : T5} (h : Tracks5 st t) (a0 a1 a2 a3 : Nat)
    (h0 : t.s0 = a0) (h1 : t.s1 = a1) (h2 : t.s2 = a2) (h3 : t.s3 = a3) :
    Tracks5 st { t with s0 := a0, s1 := a1, s2 := a2, s3 := a3 } :=
  h.congr rfl rfl rfl h0 h1 h2 h3 rfl rfl rfl rfl rfl (fun _ _ => rfl) (fun _ _ => rfl) (fun _ _ => rfl)
    (fun _ _ => rfl) (fun _ _ => rfl) (fun _ => rfl)

/-- a view seen as a tracked record -/
theorem tracks5_of_sees {st : St} {V : View} (h : Sees st V) :
    Tracks5 st { pc := V.pc, exec := V.exec, vcc := V.vcc, s0 := V.rs 0, s1 := V.rs 1, s2 := V.rs 2, s3 := V.rs 3,
                 s4 := V.rs 4, s5 := V.rs 5, s6 := V.rs 6, s7 := V.rs 7, s8 := V.rs 8,
                 v0 := V.rv 0, v1 := V.rv 1, v2 := V.rv 2, v3 := V.rv 3, v4 := V.rv 4, mem := V.mem } := by
  refine ⟨V, h, rfl, rfl, rfl, ?_, ?_, fun _ => rfl⟩
  · intro i hi
    have : i = 0 ∨ i = 1 ∨ i = 2 ∨ i = 3 ∨ i = 4 ∨ i = 5 ∨ i = 6 ∨ i = 7 ∨ i = 8 := by omega
    rcases this with rfl | rfl | rfl | rfl | rfl | rfl | rfl | rfl | rfl <;> rfl
  · intro r l hr hl
    have : r = 0 ∨ r = 1 ∨ r = 2 ∨ r = 3 ∨ r = 4 := by omega
    rcases this with rfl | rfl | rfl | rfl | rfl
    · rw [T5.v_0]
    · rw [T5.v_1]
    · rw [T5.v_2]
    · rw [T5.v_3]
    · rw [T5.v_4]

namespace Map

theorem rd32_agree (c : Cfg) (f0 m : Nat → Nat) (h : Agree c f0 m) (a : Nat)
    (hout : ∀ j, j < 4 → ¬ c.inDst (a + j)) : rd32 m a = rd32 f0 a := by
  unfold rd32
  rw [h a (hout 0 (by decide)), h (a + 1) (hout 1 (by decide)), h (a + 2) (hout 2 (by decide)),
    h (a + 3) (hout 3 (by decide))]

theorem exec_bit (c : Cfg) (n msk l : Nat) (hl : l < 64) :
    (execMask c n msk).testBit l = (msk.testBit l && decide (c.lo + 64 * n + l < c.lim)) := by
  unfold execMask
  rw [Nat.testBit_and, Copy.testBit_mask]
  simp only [hl, decide_true, Bool.true_and]
  cases msk.testBit l <;> simp

/-- global id of lane `l`: `lo + (64n + l)` computed in 32 bits -/
theorem add_lo_lane (lo n l : Nat) (h : lo + 64 * n + 64 ≤ 2 ^ 31) (hl : l < 64) :
    (lo % 2 ^ 32 + (64 * n + l) % 2 ^ 32) % 2 ^ 32 = lo + 64 * n + l := by omega

theorem elem_lt31 (lo n l : Nat) (h : lo + 64 * n + 64 ≤ 2 ^ 31) (hl : l < 64) : lo + 64 * n + l < 2 ^ 31 := by omega
theorem elem_lt32 (lo n l : Nat) (h : lo + 64 * n + 64 ≤ 2 ^ 31) (hl : l < 64) : lo + 64 * n + l < 2 ^ 32 := by omega
theorem n64 (lo n : Nat) (h : lo + 64 * n + 64 ≤ 2 ^ 31) : 64 * n + 64 ≤ 2 ^ 31 := by omega
theorem lo32' (lo n : Nat) (h : lo + 64 * n + 64 ≤ 2 ^ 31) : lo < 2 ^ 32 := by omega

end Map
end C01.Emu
