import MgpuProofs.C09CUTiming
/-! # C09, timing compute unit — every legal run keeps the invariant -/
namespace C09.CUSide

theorem tinv_set {s : TState} (hI : TInv s) (id w : Nat) (st0 st : WSt) (hst : st ≠ .done)
    (hL : wfSt s id w = some st0) (h0 : st0 ≠ .done) :
    TInv (onWG s id fun g => { g with wfs := setSt g.wfs w st }) := by
  obtain ⟨g0, x0, hf, hx0, hrun⟩ := legal_found hL
  apply tinv_target hI hf (fun g => { g with wfs := setSt g.wfs w st })
    (fun _ => rfl) (fun _ => rfl) (fun g => map_simd_setSt _ _ _)
    (not_allDone_of hx0 (by rw [hrun]; exact h0))
  refine not_allDone_of (j := w) (x := { x0 with st := st }) ?_ hst
  show (setSt g0.wfs w st)[w]? = some _
  rw [setSt_get]; simp [hx0]

theorem tinv_bar {s : TState} (hI : TInv s) (id w : Nat) (hL : TLegal s (.bar id w)) :
    TInv (barrier s id w) := by
  obtain ⟨g0, x0, hf, hx0, hrun⟩ := legal_found hL
  unfold barrier
  apply tinv_target hI hf _ (fun g => by simp only; split <;> rfl) (fun g => by simp only; split <;> rfl)
    (fun g => by
      simp only; split
      · simp only; rw [map_simd_release, map_simd_setSt]
      · exact map_simd_setSt _ _ _)
    (not_allDone_of hx0 (by rw [hrun]; decide))
  have hb : (setSt g0.wfs w .barrier)[w]? = some { x0 with st := .barrier } := by
    rw [setSt_get]; simp [hx0]
  simp only
  split
  · refine not_allDone_of (j := w) (x := { x0 with st := .ready }) ?_ (by simp)
    show (release (setSt g0.wfs w .barrier))[w]? = some _
    rw [release_get, hb]; simp
  · exact not_allDone_of hb (by simp)

/-- one legal step keeps the invariant -/
theorem tinv_step {s : TState} (hI : TInv s) (o : TOp) (hL : TLegal s o) : TInv (tstep s o) := by
  unfold tstep
  rw [hI.noFault]
  simp only [Option.isSome_none, Bool.false_eq_true, if_false]
  cases o with
  | map id src simds => exact tinv_map hI id src simds hL
  | issue id w => exact tinv_set hI id w .ready .running (by decide) hL (by decide)
  | nop id w => exact tinv_set hI id w .running .ready (by decide) hL (by decide)
  | endp id w => exact tinv_endp hI id w hL
  | bar id w => exact tinv_bar hI id w hL
  | room n => exact ⟨hI.ids, hI.sentKnown, hI.sentNodup, hI.sentIff, hI.nonempty, hI.pool, rfl⟩

/-- states reachable by legal interleavings of any number of work-groups -/
inductive TReach : TState → Prop
  | init (caps : List Nat) (room : Nat) : TReach (tinit caps room)
  | step {s : TState} (o : TOp) : TReach s → TLegal s o → TReach (tstep s o)

theorem treach_inv {s : TState} (h : TReach s) : TInv s := by
  induction h with
  | init caps room => exact tinv_init caps room
  | step o _ hL ih => exact tinv_step ih o hL

instance (s : TState) (o : TOp) : Decidable (TLegal s o) := by
  cases o <;> simp only [TLegal] <;> infer_instance

/-- every op of the run is legal in the state it is applied to -/
def TRunOk : TState → List TOp → Prop
  | _, [] => True
  | s, o :: os => TLegal s o ∧ TRunOk (tstep s o) os

instance : ∀ (s : TState) (ops : List TOp), Decidable (TRunOk s ops)
  | _, [] => isTrue trivial
  | s, o :: os =>
    have := instDecidableTRunOk (tstep s o) os
    inferInstanceAs (Decidable (TLegal s o ∧ TRunOk (tstep s o) os))

theorem treach_run {s : TState} (h : TReach s) : ∀ (ops : List TOp), TRunOk s ops → TReach (trun s ops) := by
  intro ops
  induction ops generalizing s with
  | nil => intro _; exact h
  | cons o os ih => intro hr; exact ih (TReach.step o h hr.1) hr.2

theorem find_map_upd (l : List WG) (id : Nat) (f : WG → WG) (g0 : WG) (hfid : (f g0).id = id)
    (hfind : l.find? (fun g => decide (g.id = id)) = some g0) :
    (l.map (fun g => if g.id = id then f g else g)).find? (fun g => decide (g.id = id)) = some (f g0) := by
  induction l with
  | nil => simp at hfind
  | cons a l ih =>
    simp only [List.find?_cons] at hfind
    by_cases ha : a.id = id
    · simp only [ha, decide_true, Option.some.injEq] at hfind
      subst hfind
      simp [ha, hfid]
    · simp only [ha, decide_false] at hfind
      simp only [List.map_cons, ha, if_false, List.find?_cons, decide_false]
      exact ih hfind

end C09.CUSide
