import MgpuProofs.C17WLive8
/-! C17, liveness for every width, part 9: the measure for every request in flight for a bank —
`position in the bank's chain · chainBound + chainPot`, where the chain is `inOrder`, then the delay queue, then the
pending list and the port buffer (requests of this bank), and `chainPot` is the measure of the head of the chain. -/
namespace C17
namespace WLive
open WBnd

/-- measure of the head of bank `k`'s chain: `headPot` while `inOrder` is not empty; else the delay-queue counter of the
head plus a whole `potBound`; else (pending list, port buffer) one or two ticks more plus the row-miss delay -/
def chainPot (c : Cfg) (s : WState) (k : Nat) : Nat := match s.banks[k]? with
  | none => 0
  | some b => match b.order with
    | _ :: _ => headPot c b
    | [] => match b.dq with
      | p :: _ => max p.2 1 + potBound c
      | [] => if s.pending.filter (inB c k) ≠ [] then max c.miss 1 + potBound c + 1
              else if s.topIn.filter (inB c k) ≠ [] then max c.miss 1 + potBound c + 2 else 0

/-- explicit bound on `chainPot`: `max miss 1 + 2·width·depth·(depth·cyclesPerStage + 1) + 5` -/
def chainBound (c : Cfg) : Nat := max c.miss 1 + potBound c + 2

theorem chainPot_le (c : Cfg) (s : WState) (k : Nat) (hg : AllGood c s.banks) (hcy : AllCyc c s.banks)
    (hdq : ∀ b ∈ s.banks, DqOk c b) : chainPot c s k ≤ chainBound c := by
  unfold chainPot chainBound
  cases hb : s.banks[k]? with
  | none => exact Nat.zero_le _
  | some b =>
    have hm := List.mem_of_getElem? hb
    dsimp only
    cases ho : b.order with
    | cons o os =>
      dsimp only
      have := headPot_le c b (hg b hm) (hcy b hm)
      omega
    | nil =>
      dsimp only
      cases hd : b.dq with
      | cons p q =>
        dsimp only
        have := hdq b hm p (by rw [hd]; simp)
        omega
      | nil =>
        dsimp only
        split
        · omega
        · split <;> omega

theorem chainPot_order (c : Cfg) (s : WState) (k : Nat) (b : WBank) (hb : s.banks[k]? = some b) (hne : b.order ≠ []) :
    chainPot c s k = headPot c b := by
  unfold chainPot
  rw [hb]
  dsimp only
  cases ho : b.order with
  | nil => exact absurd ho hne
  | cons o os => rfl

theorem chainPot_waiting (c : Cfg) (s : WState) (k : Nat) (b : WBank) (hb : s.banks[k]? = some b) (it : Item) (m : Nat)
    (hw : Waiting b it m) : chainPot c s k = max m 1 + potBound c := by
  obtain ⟨ho, q, hq⟩ := hw
  unfold chainPot
  rw [hb]
  dsimp only
  rw [ho]
  dsimp only
  rw [hq]

/-! ### the chain across a tick -/

theorem finAtW_resp_prefix (c : Cfg) (s : WState) (j : Nat) (pg : Bool) (h : InvW c s) :
    ∃ d, (finalizeAtW c s j pg).st.resp.map (·.req) = s.resp.map (·.req) ++ d := by
  unfold finalizeAtW
  cases hb : s.banks[j]? with
  | none => exact ⟨[], by simp⟩
  | some b =>
    dsimp only
    have hF := finalizeBankW_rel c (b.order.length + b.post.length + 1) b s.log s.outBuf s.resp pg
      (h.ok b (List.mem_of_getElem? hb)).core (List.nodup_append.1 (orderW_nodup c s h j b hb)).1
    obtain ⟨cm, done, _, _, e3, _⟩ := hF.ex
    exact ⟨done, e3⟩

theorem finFromW_resp_prefix (c : Cfg) : ∀ (ks : List Nat) (s : WState) (pg : Bool), InvW c s →
    ∃ d, (finalizeFromW c ks s pg).st.resp.map (·.req) = s.resp.map (·.req) ++ d
  | [], s, pg, _ => ⟨[], by simp [finalizeFromW]⟩
  | j :: ks, s, pg, h => by
    obtain ⟨d1, h1⟩ := finAtW_resp_prefix c s j pg h
    simp only [finalizeFromW]
    split
    · exact ⟨d1, h1⟩
    · obtain ⟨d2, h2⟩ := finFromW_resp_prefix c ks _ (finalizeAtW c s j pg).prog (finalizeAtW_inv c s j pg h)
      exact ⟨d1 ++ d2, by rw [h2, h1, List.append_assoc]⟩

/-- across a tick the chain of bank `k` loses a prefix, all of it answered -/
theorem tick_chain_split (c : Cfg) (s : WState) (h : InvW c s) (k : Nat) :
    ∃ done, chainW c s k = done ++ chainW c (tickW c s) k ∧ (∀ r ∈ done, r ∈ (tickW c s).resp.map (·.req)) := by
  have h' := tickW_inv c s h
  have r1 := h.r k
  have r2 := h'.r k
  unfold RW at r1 r2
  rw [tickW_arrived, ← r1] at r2
  obtain ⟨d, hd⟩ := finFromW_resp_prefix c (List.range s.banks.length) s false h
  have hresp : (tickW c s).resp.map (·.req) = s.resp.map (·.req) ++ d := by rw [tickW_resp]; exact hd
  rw [hresp, List.filter_append, List.append_assoc] at r2
  refine ⟨d.filter (inB c k), (List.append_cancel_left r2).symm, ?_⟩
  intro r hr
  rw [hresp]
  exact List.mem_append_right _ (List.mem_filter.1 hr).1

theorem filter_split {α : Type} (p : α → Bool) : ∀ (l : List α), l.filter p ≠ [] →
    ∃ l1 r l2, l = l1 ++ r :: l2 ∧ (∀ x ∈ l1, p x = false) ∧ p r = true := by
  intro l
  induction l with
  | nil => intro h; simp at h
  | cons a t ih =>
    intro h
    cases hp : p a with
    | true => exact ⟨[], a, t, rfl, (fun _ hx => by cases hx), hp⟩
    | false =>
      simp only [List.filter_cons, hp, Bool.false_eq_true, if_false] at h
      obtain ⟨l1, r, l2, e, h1, h2⟩ := ih h
      refine ⟨a :: l1, r, l2, by rw [e]; rfl, ?_, h2⟩
      intro x hx
      rcases List.mem_cons.1 hx with rfl | hx
      · exact hp
      · exact h1 x hx

theorem nofault_split (c : Cfg) (s : WState) (hnf : (tickFlagsW c s).2 = none) : (finalizeW c s).fault = none := by
  unfold tickFlagsW at hnf
  dsimp only at hnf
  cases hx : (finalizeW c s).fault with
  | none => rfl
  | some x =>
    rw [hx] at hnf
    simp at hnf

/-- bank `k` with an empty `inOrder` before `dispatchPending` of the tick: untouched by `finalizeBanks`, then
`tickPipelines`, `tickDelayQueues` -/
theorem tickW_idle_s3 (c : Cfg) (s : WState) (h : InvW c s) (k : Nat) (b : WBank) (hb : s.banks[k]? = some b)
    (ho : b.order = []) (hnf : (tickFlagsW c s).2 = none) :
    (tickDelaysW c (tickPipesW c (finalizeW c s).st)).banks[k]? =
      some (tickBankDelayW c (tickBankPipeW c b)) := by
  have hklt : k < s.banks.length := by
    rcases Nat.lt_or_ge k s.banks.length with h | h
    · exact h
    · rw [List.getElem?_eq_none h] at hb; cases hb
  obtain ⟨F, ⟨⟨log, out, resp, pg, hFeq⟩, _, _⟩, hget⟩ := finFromW_get c k b (List.range s.banks.length) s false h
    List.nodup_range (List.mem_range.2 hklt) hb (nofault_split c s hnf)
  have hFb : F.bank = b := by rw [hFeq]; exact fin_idle c _ b log out resp pg ho
  rw [hFb] at hget
  show (((finalizeW c s).st.banks.map (tickBankPipeW c)).map (tickBankDelayW c))[k]? = _
  rw [List.getElem?_map, List.getElem?_map]
  unfold finalizeW
  rw [hget]
  rfl

theorem s3_pending (c : Cfg) (s : WState) :
    (tickDelaysW c (tickPipesW c (finalizeW c s).st)).pending = s.pending ∧
    (tickDelaysW c (tickPipesW c (finalizeW c s).st)).topIn = s.topIn :=
  finFromW_pending c _ s false

theorem not_inB (c : Cfg) (k : Nat) (l : List Req) (h : l.filter (inB c k) = []) : ∀ r ∈ l, bankOf c r.addr ≠ k := by
  intro r hr e
  have : r ∈ l.filter (inB c k) := List.mem_filter.2 ⟨hr, by simp [inB, e]⟩
  rw [h] at this
  cases this

/-- **one tick, chain level**: if no request of bank `k` is answered in the tick, the measure of the head of its chain
drops by one when the port accepts -/
theorem tick_chainPot (c : Cfg) (hw : 0 < c.width) (hd0 : 0 < c.depth) (hp0 : 0 < c.post) (s : WState) (h : InvW c s)
    (hg : AllGood c s.banks) (hcy : AllCyc c s.banks) (k : Nat) (b : WBank) (hb : s.banks[k]? = some b)
    (hnf : (tickFlagsW c s).2 = none) (hsame : chainW c (tickW c s) k = chainW c s k) (hne : chainW c s k ≠ []) :
    chainPot c (tickW c s) k + (if acceptsW c s k = true then 1 else 0) ≤ chainPot c s k := by
  have hmem := List.mem_of_getElem? hb
  have hg' := tickW_good c s hg
  have hcy' := tickW_cyc c s hcy
  have hacc1 : (if acceptsW c s k = true then 1 else 0) ≤ 1 := by split <;> omega
  have heq := tickW_eq c s hnf
  have hbanks : (tickW c s).banks = (s.pending.foldl (dispatchOneW c)
      ((tickDelaysW c (tickPipesW c (finalizeW c s).st)).banks, [])).1 := by
    rw [heq]
    show (dispatchW c _).banks = _
    unfold dispatchW
    rw [(s3_pending c s).1]
  cases ho : b.order with
  | cons o os =>
    -- the head is in `inOrder`
    obtain ⟨done, rest, t, b3, hb3, e1, e2, hdone, hpot⟩ := tick_order c hd0 hp0 s h hg k b hb hnf
    have hdn : done = [] := by
      cases done with
      | nil => rfl
      | cons d0 ds =>
        exfalso
        have hd0r : d0 ∈ (tickW c s).resp.map (·.req) := hdone d0 (by simp)
        have hd0o : d0 ∈ b.order := by rw [e1]; simp
        have hin := orderW_in_bank c s h k b hb d0 (by simp [wBankReqs, hd0o])
        have hc : d0 ∈ chainW c (tickW c s) k := by
          rw [hsame]; simp [chainW, wBankChain, hb, wBankReqs, hd0o]
        have h' := tickW_inv c s h
        have r2 := h'.r k
        unfold RW at r2
        have hnd : ((tickW c s).arrived.filter (inB c k)).Nodup := (arrivedW_nodup c _ h').filter _
        rw [← r2] at hnd
        have hdis := (List.nodup_append.1 hnd).2.2
        exact hdis d0 (List.mem_filter.2 ⟨hd0r, hin.1⟩) d0 hc rfl
    have hp := hpot hdn (by rw [ho]; simp)
    have hb3o : b3.order ≠ [] := by
      rw [e2]
      subst hdn
      simp only [List.nil_append] at e1
      rw [← e1, ho]
      simp
    rw [chainPot_order c _ k b3 hb3 hb3o, chainPot_order c s k b hb (by rw [ho]; simp)]
    exact hp
  | nil =>
    have hs3 := tickW_idle_s3 c s h k b hb ho hnf
    have hg2 : Good c (tickBankPipeW c b) := tickBankPipeW_good c b (hg b hmem)
    have ho2 : (tickBankPipeW c b).order = [] := ho
    cases hdq : b.dq with
    | cons p rest =>
      obtain ⟨it, n⟩ := p
      have hdq2 : (tickBankPipeW c b).dq = (it, n) :: rest := hdq
      have hold : chainPot c s k = max n 1 + potBound c :=
        chainPot_waiting c s k b hb it n ⟨ho, rest, hdq⟩
      rw [hold]
      by_cases hn : n - 1 = 0
      · obtain ⟨t, ht⟩ := delay_head_enter c hw hd0 _ hg2 ho2 it n rest hdq2 hn
        obtain ⟨b3, h3, a3⟩ := fold_dispatch_acc c k s.pending ((tickDelaysW c (tickPipesW c (finalizeW c s).st)).banks, []) _ hs3
        rw [← hbanks] at h3
        obtain ⟨t', ht'⟩ := accStar_order c a3
        have hb3o : b3.order ≠ [] := by rw [ht', ht]; simp
        rw [chainPot_order c _ k b3 h3 hb3o]
        have := headPot_le c b3 (hg' b3 (List.mem_of_getElem? h3)) (hcy' b3 (List.mem_of_getElem? h3))
        omega
      · obtain ⟨hw1, q, hw2⟩ := delay_head_wait c _ it n rest hdq2 hn
        have hrm : rowMode c := by
          by_cases hrm : rowMode c
          · exact hrm
          · have := (h.ok b hmem).norow hrm
            rw [this] at hdq
            cases hdq
        obtain ⟨b3, h3, w3⟩ := fold_waiting c hrm k it (n - 1) s.pending ((tickDelaysW c (tickPipesW c (finalizeW c s).st)).banks, []) _ hs3 ⟨hw1.trans ho2, q, hw2⟩
        rw [← hbanks] at h3
        rw [chainPot_waiting c _ k b3 h3 it (n - 1) w3]
        omega
    | nil =>
      have hdq2 : (tickBankPipeW c b).dq = [] := hdq
      rw [WQuiet.delay_idle c _ hdq2] at hs3
      by_cases hpf : s.pending.filter (inB c k) ≠ []
      · -- the head is in the pending list
        have hold : chainPot c s k = max c.miss 1 + potBound c + 1 := by
          unfold chainPot
          rw [hb]
          dsimp only
          rw [ho]
          dsimp only
          rw [hdq]
          dsimp only
          rw [if_pos hpf]
        rw [hold]
        obtain ⟨l1, r, l2, e, h1, h2⟩ := filter_split (inB c k) s.pending hpf
        have hr : bankOf c r.addr = k := by simpa [inB] using h2
        have h1' : ∀ x ∈ l1, bankOf c x.addr ≠ k := by
          intro x hx e'
          have := h1 x hx
          simp [inB, e'] at this
        obtain ⟨b3, h3, hcase⟩ := fold_first c hw hd0 k l1 l2 r h1' hr ((tickDelaysW c (tickPipesW c (finalizeW c s).st)).banks, []) _ hs3 hg2 ho2 hdq2
        rw [← e, ← hbanks] at h3
        rcases hcase with hb3o | w3
        · rw [chainPot_order c _ k b3 h3 hb3o]
          have := headPot_le c b3 (hg' b3 (List.mem_of_getElem? h3)) (hcy' b3 (List.mem_of_getElem? h3))
          omega
        · rw [chainPot_waiting c _ k b3 h3 _ _ w3]
          omega
      · -- the head is in the port buffer
        have hpf' : s.pending.filter (inB c k) = [] := by
          cases hx : s.pending.filter (inB c k) with
          | nil => rfl
          | cons _ _ => exact absurd (by rw [hx]; simp) hpf
        have htf : s.topIn.filter (inB c k) ≠ [] := by
          intro htf
          apply hne
          simp [chainW, wBankChain, hb, wBankReqs, ho, hdq, List.filter_append, hpf', htf]
        have hold : chainPot c s k = max c.miss 1 + potBound c + 2 := by
          unfold chainPot
          rw [hb]
          dsimp only
          rw [ho]
          dsimp only
          rw [hdq]
          dsimp only
          rw [if_neg hpf, if_pos htf]
        rw [hold]
        have h3 : (tickW c s).banks[k]? = some (tickBankPipeW c b) := by
          rw [hbanks, fold_other c k s.pending _ (not_inB c k _ hpf')]
          exact hs3
        have hpend : (tickW c s).pending.filter (inB c k) ≠ [] := by
          rw [heq]
          show ((dispatchW c _).pending ++ (dispatchW c _).topIn).filter (inB c k) ≠ []
          rw [List.filter_append]
          have : (dispatchW c (tickDelaysW c (tickPipesW c (finalizeW c s).st))).topIn = s.topIn := (s3_pending c s).2
          rw [this]
          intro hx
          exact htf (List.append_eq_nil_iff.1 hx).2
        have hnew : chainPot c (tickW c s) k = max c.miss 1 + potBound c + 1 := by
          unfold chainPot
          rw [h3]
          dsimp only
          rw [ho2]
          dsimp only
          rw [hdq2]
          dsimp only
          rw [if_pos hpend]
        rw [hnew]
        omega

end WLive
end C17
