import MgpuProofs.C06Lanes
import MgpuModel.C06_Mem
/-! # C06 — helper lemmas for the memory part: stores leave other addresses alone; race freedom suffices -/
namespace C06

theorem applyStores_of_not_mem (ws : List (Nat × Nat)) (m : Nat → Nat) (a : Nat)
    (h : a ∉ ws.map (·.1)) : applyStores m ws a = m a := by
  induction ws generalizing m with
  | nil => rfl
  | cons w ws ih =>
    simp only [List.map_cons, List.mem_cons, not_or] at h
    simp only [applyStores, List.foldl_cons]
    have := ih (fun c => if c = w.1 then w.2 else m c) h.2
    simp only [applyStores] at this
    rw [this]
    simp [h.1]

theorem mem_activeStores_addr {υ} (h : Handler υ) (u : υ) (exec : Nat → Bool) (n : Nat) (s : VState) (a : Nat)
    (ha : a ∈ (activeStores h u exec n s).map (·.1)) :
    ∃ k, k < n ∧ exec k = true ∧ a ∈ (laneOut h u s k).stores.map (·.1) := by
  simp only [activeStores, List.map_flatMap, List.mem_flatMap, List.mem_range] at ha
  obtain ⟨k, hk, hm⟩ := ha
  by_cases he : exec k = true
  · simp only [he, if_true] at hm
    exact ⟨k, hk, he, hm⟩
  · simp [he] at hm

/-- under race freedom, lane `k`'s body sees after the earlier lanes ran what it saw on the original state -/
theorem laneOut_parMap_rf {υ} (h : Handler υ) (u : υ) (exec : Nat → Bool) (s : VState)
    (hrf : RaceFree h u exec s) (k : Nat) (hk : k < 64) (he : exec k = true) :
    laneOut h u (parMap h u exec k s) k = laneOut h u s k := by
  have hregs : (parMap h u exec k s).vgpr k = s.vgpr k := by simp [parMap]
  have hcin : (parMap h u exec k s).cin k = s.cin k := rfl
  have hmout : (parMap h u exec k s).mout k = s.mout k := by
    simp only [parMap]; cases h.mask <;> simp
  have hin : laneIn h (parMap h u exec k s) k = { laneIn h s k with mem := (parMap h u exec k s).mem } := by
    simp only [laneIn, hregs, hcin, hmout]
  simp only [laneOut, hin]
  apply hrf k hk he
  intro a ha
  simp only [parMap]
  apply applyStores_of_not_mem
  intro hmem
  obtain ⟨j, hj, hej, hja⟩ := mem_activeStores_addr h u exec k s a hmem
  apply ha
  simp only [otherStoreAddrs, List.mem_flatMap, List.mem_range]
  refine ⟨j, by omega, ?_⟩
  have : j ≠ k := by omega
  simp [this, hej, hja]

/-- a handler that only loads or only stores is race free on every state -/
theorem raceFree_of_loadOrStore {υ} (h : Handler υ) (u : υ) (exec : Nat → Bool) (s : VState)
    (hls : LoadOrStore h) : RaceFree h u exec s := by
  intro l _ _ m' hm
  rcases hls with hl | hs
  · -- no lane stores: the memory every body sees is the original one
    have : m' = s.mem := by
      funext a
      apply hm a
      simp only [otherStoreAddrs, List.mem_flatMap, not_exists, not_and]
      intro k _
      split
      · simp [laneOut, hl]
      · simp
    simp [this, laneIn]
  · exact hs u (laneIn h s l) m'

end C06
