import MgpuProofs.C16Inv
/-! # C16 — counting invariant: every access id moves top port → transaction → forwarded →
in flight → answered, never duplicated -/
namespace C16

structure CInv (s : St) : Prop where
  a : ∀ i, (s.topIn.map (·.id)).count i + (s.received.map (·.1.id)).count i ≤ 1
  a2 : ∀ i, s.nextA ≤ i → (s.topIn.map (·.id)).count i + (s.received.map (·.1.id)).count i = 0
  b : ∀ i, (txIds s.txs).count i + (s.forwarded.map (·.top.id)).count i ≤ (s.received.map (·.1.id)).count i
  c : ∀ i, (s.infl.map (·.top.id)).count i + (s.answered.map (·.top.id)).count i
        ≤ (s.forwarded.map (·.top.id)).count i
  d : ∀ b, (s.forwarded.map (·.breq.bid)).count b ≤ 1
  d2 : ∀ b, s.nextB ≤ b → (s.forwarded.map (·.breq.bid)).count b = 0

theorem translate_cinv (c : Cfg) (s : St) (h : CInv s) : CInv (translate c s).1 := by
  unfold translate
  split
  · exact h
  · rename_i a rest htop
    split
    · rename_i txs' hco
      have hc := coalesce_count _ _ _ _ hco
      refine ⟨?_, ?_, ?_, h.c, h.d, h.d2⟩ <;> intro i
      · have := h.a i
        by_cases h1 : a.id = i <;> simp [htop, h1] at this ⊢ <;> omega
      · intro hi
        have := h.a2 i hi
        by_cases h1 : a.id = i <;> simp [htop, h1] at this ⊢ <;> omega
      · have h3 := h.b i
        have h4 := hc i
        by_cases h1 : a.id = i <;> simp [h1] at h3 h4 ⊢ <;> omega
    · split
      · refine ⟨?_, ?_, ?_, h.c, h.d, h.d2⟩ <;> intro i
        · have := h.a i
          by_cases h1 : a.id = i <;> simp [htop, h1] at this ⊢ <;> omega
        · intro hi
          have := h.a2 i hi
          by_cases h1 : a.id = i <;> simp [htop, h1] at this ⊢ <;> omega
        · have h3 := h.b i
          by_cases h1 : a.id = i <;> simp [List.count_append, h1] at h3 ⊢ <;> omega
      · exact h

theorem emit_cinv (c : Cfg) (s : St) (a : Acc) (p : Nat) (txs' : List Tx) (h : CInv s)
    (hcnt : ∀ i, (txIds txs').count i + (if a.id = i then 1 else 0) = (txIds s.txs).count i) :
    CInv (emit c s a p txs') := by
  refine ⟨h.a, h.a2, ?_, ?_, ?_, ?_⟩ <;> intro i
  · have h3 := h.b i
    have h4 := hcnt i
    by_cases h1 : a.id = i <;> simp [emit, h1] at h3 h4 ⊢ <;> omega
  · have h3 := h.c i
    by_cases h1 : a.id = i <;> simp [emit, List.count_append, h1] at h3 ⊢ <;> omega
  · have h3 := h.d i
    have h0 := h.d2 s.nextB (Nat.le_refl _)
    by_cases h1 : s.nextB = i
    · subst h1; simp [emit, mkBReq] at h0 ⊢; omega
    · simp [emit, mkBReq, h1] at h3 ⊢; omega
  · intro hi
    have h3 := h.d2 i (by simp [emit] at hi; omega)
    have h1 : ¬ s.nextB = i := by simp [emit] at hi; omega
    simp [emit, mkBReq, h1] at h3 ⊢; omega

theorem parseTranslation_cinv (c : Cfg) (s : St) (h : CInv s) : CInv (parseTranslation c s).1 := by
  unfold parseTranslation
  split
  · rename_i t txs' hp
    obtain ⟨_, _, _, h4⟩ := popFirst_spec _ _ _ _ hp
    split
    · rename_i a rs p hr _
      split
      · exact emit_cinv c s a p txs' h (h4 a rs hr)
      · exact h
    · exact h
  · split
    · exact h
    · rename_i r rest htr
      split
      · exact ⟨h.a, h.a2, h.b, h.c, h.d, h.d2⟩
      · rename_i t txs' hp
        obtain ⟨_, _, _, h4⟩ := popFirst_spec _ _ _ _ hp
        have hs1 : CInv { s with txs := markFirst (hasTid r.rspTo) r.paddr s.txs } :=
          ⟨h.a, h.a2, by simpa [markFirst_ids] using h.b, h.c, h.d, h.d2⟩
        split
        · exact hs1
        · rename_i a rs hr
          split
          · have := emit_cinv c { s with txs := markFirst (hasTid r.rspTo) r.paddr s.txs } a r.paddr txs' hs1
              (h4 a rs hr)
            exact ⟨this.a, this.a2, this.b, this.c, this.d, this.d2⟩
          · exact hs1

theorem respond_cinv (c : Cfg) (s : St) (h : CInv s) : CInv (respond c s).1 := by
  unfold respond
  split
  · exact h
  · rename_i r rest hb
    split
    · exact ⟨h.a, h.a2, h.b, h.c, h.d, h.d2⟩
    · rename_i f infl' hx
      obtain ⟨_, _, _, h4⟩ := extract_spec _ _ _ _ hx
      split
      · refine ⟨h.a, h.a2, h.b, ?_, h.d, h.d2⟩
        intro i
        have h3 := h.c i
        have h5 := h4 i
        by_cases h1 : f.top.id = i <;> simp [h1] at h3 h5 ⊢ <;> omega
      · exact h

theorem handleCtrl_cinv (s : St) (h : CInv s) : CInv (handleCtrl s).1 := by
  unfold handleCtrl
  split
  · exact h
  · split
    · refine ⟨h.a, h.a2, ?_, ?_, h.d, h.d2⟩ <;> intro i
      · have h3 := h.b i; simp at h3 ⊢; omega
      · have h3 := h.c i; simp at h3 ⊢; omega
    · exact h
  · split
    · refine ⟨?_, ?_, h.b, h.c, h.d, h.d2⟩ <;> intro i
      · have h3 := h.a i; simp at h3 ⊢; omega
      · intro hi; have h3 := h.a2 i hi; simp at h3 ⊢; omega
    · exact h
  · exact ⟨h.a, h.a2, h.b, h.c, h.d, h.d2⟩

theorem iter_pres {P : St → Prop} {f : St → St × Bool} (hf : ∀ s, P s → P (f s).1) :
    ∀ n s, P s → P (iter f n s).1 := by
  intro n
  induction n with
  | zero => intro s h; exact h
  | succ n ih => intro s h; exact ih _ (hf _ h)

theorem tick_pres {P : St → Prop} (c : Cfg)
    (h1 : ∀ s, P s → P (respond c s).1) (h2 : ∀ s, P s → P (parseTranslation c s).1)
    (h3 : ∀ s, P s → P (translate c s).1) (h4 : ∀ s, P s → P (handleCtrl s).1) :
    ∀ s, P s → P (tick c s).1 := by
  intro s h
  unfold tick
  apply h4
  split
  · exact iter_pres h2 _ _ h
  · exact iter_pres h3 _ _ (iter_pres h2 _ _ (iter_pres h1 _ _ h))

theorem tick_cinv (c : Cfg) (s : St) (h : CInv s) : CInv (tick c s).1 :=
  tick_pres c (respond_cinv c) (parseTranslation_cinv c) (translate_cinv c) handleCtrl_cinv s h

theorem step_cinv (c : Cfg) (s : St) (o : Op) (h : CInv s) : CInv (step c s o) := by
  cases o with
  | tick => exact tick_cinv c s h
  | access pid va pl =>
    simp only [step]
    split
    · refine ⟨?_, ?_, h.b, h.c, h.d, h.d2⟩ <;> intro i
      · have h3 := h.a i
        have h0 := h.a2 s.nextA (Nat.le_refl _)
        by_cases h1 : s.nextA = i
        · subst h1; simp [List.count_append] at h0 ⊢; omega
        · simp [List.count_append, h1] at h3 ⊢; omega
      · intro hi
        have h3 := h.a2 i (by simp at hi; omega)
        have h1 : ¬ s.nextA = i := by simp at hi; omega
        simp [List.count_append, h1] at h3 ⊢; omega
    · refine ⟨h.a, ?_, h.b, h.c, h.d, h.d2⟩
      intro i hi
      exact h.a2 i (by simp at hi; omega)
  | trsp r => simp only [step]; split <;> exact ⟨h.a, h.a2, h.b, h.c, h.d, h.d2⟩
  | brsp r => simp only [step]; split <;> exact ⟨h.a, h.a2, h.b, h.c, h.d, h.d2⟩
  | drainTop => exact ⟨h.a, h.a2, h.b, h.c, h.d, h.d2⟩
  | drainBot => exact ⟨h.a, h.a2, h.b, h.c, h.d, h.d2⟩
  | drainTr => exact ⟨h.a, h.a2, h.b, h.c, h.d, h.d2⟩
  | drainCtl => exact ⟨h.a, h.a2, h.b, h.c, h.d, h.d2⟩
  | ctl k => simp only [step]; split <;> exact ⟨h.a, h.a2, h.b, h.c, h.d, h.d2⟩

theorem run_pres {P : St → Prop} (c : Cfg) (hs : ∀ s o, P s → P (step c s o)) :
    ∀ (ops : List Op) (s : St), P s → P (ops.foldl (step c) s) := by
  intro ops
  induction ops with
  | nil => intro s h; exact h
  | cons o os ih => intro s h; exact ih _ (hs s o h)

theorem cinv_init : CInv {} :=
  ⟨by intro i; simp, by intro i; simp, by intro i; simp, by intro i; simp, by intro i; simp, by intro i; simp⟩

theorem run_cinv (c : Cfg) (ops : List Op) : CInv (run c ops) :=
  run_pres c (step_cinv c) ops {} cinv_init

end C16
