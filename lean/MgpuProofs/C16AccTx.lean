import MgpuProofs.C16AccSt
/-! # C16 — per-access liveness, stage 2: the reply to the access's lookup is at the translation
port (or already recorded) → the access is forwarded

Rank (lexicographic): (replies ahead of ours at the translation port, and whether the reply at the
head still has to be recorded; 0 once our transaction is marked done), then (requests waiting in
completed transactions, whether the bottom port is full). Recording a reply makes the second
component jump, but only when the first one falls. -/
namespace C16

def lt2 (x y : Nat × Nat) : Prop := x.1 < y.1 ∨ (x.1 = y.1 ∧ x.2 < y.2)

theorem lt2_trans : ∀ x y z : Nat × Nat, lt2 x y → lt2 y z → lt2 x z := by
  intro x y z h1 h2
  unfold lt2 at *
  omega

theorem lt2_wf : WellFounded lt2 := by
  apply Subrelation.wf (r := Prod.Lex (fun a b : Nat => a < b) (fun a b : Nat => a < b))
  · intro x y h
    obtain ⟨x1, x2⟩ := x
    obtain ⟨y1, y2⟩ := y
    rcases h with h | ⟨h1, h2⟩
    · exact Prod.Lex.left _ _ h
    · simp only at h1 h2
      subst h1
      exact Prod.Lex.right _ h2
  · exact (Prod.lex Nat.lt_wfRel Nat.lt_wfRel).wf

theorem lex_le {k' k d' d : Nat} (h1 : k' ≤ k) (h2 : k' = k → d' ≤ d) :
    lt2 (k', d') (k, d) ∨ (k', d') = (k, d) := by
  by_cases hk : k' = k
  · have := h2 hk
    by_cases hd : d' = d
    · right; rw [hk, hd]
    · left; right; exact ⟨hk, by omega⟩
  · left; left; show k' < k; omega

theorem lex_lt {k' k d' d : Nat} (h1 : k' ≤ k) (h2 : k' = k → d' < d) : lt2 (k', d') (k, d) := by
  by_cases hk : k' = k
  · right; exact ⟨hk, h2 hk⟩
  · left; show k' < k; omega

def posT (tid : Nat) : List TRsp → Nat
  | [] => 0
  | r :: rs => if r.rspTo = tid then 0 else posT tid rs + 1

theorem posT_append (tid : Nat) : ∀ (l l' : List TRsp), (∃ r ∈ l, r.rspTo = tid) →
    posT tid (l ++ l') = posT tid l := by
  intro l
  induction l with
  | nil => intro l' h; obtain ⟨r, hr, _⟩ := h; simp at hr
  | cons x xs ih =>
    intro l' h
    by_cases hx : x.rspTo = tid
    · simp [posT, hx]
    · have : ∃ r ∈ xs, r.rspTo = tid := by
        obtain ⟨r, hr, hb⟩ := h
        rcases List.mem_cons.mp hr with rfl | hr
        · exact absurd hb hx
        · exact ⟨r, hr, hb⟩
      simp [posT, hx, ih l' this]

/-- requests waiting in completed transactions -/
def doneWork : List Tx → Nat
  | [] => 0
  | t :: ts => (if t.done then t.reqs.length else 0) + doneWork ts

theorem doneWork_append (l l' : List Tx) : doneWork (l ++ l') = doneWork l + doneWork l' := by
  induction l with
  | nil => simp [doneWork]
  | cons t ts ih => simp [doneWork, ih]; omega

theorem coalesce_work (lg : Nat) (x : Acc) : ∀ (txs txs' : List Tx), coalesce lg x txs = some txs' →
    doneWork txs' = doneWork txs := by
  intro txs
  induction txs with
  | nil => intro txs' h; simp [coalesce] at h
  | cons t0 ts ih =>
    intro txs' h
    unfold coalesce at h
    split at h
    · rename_i hc
      injection h with h; subst h
      simp [doneWork, hc.1]
    · cases hc : coalesce lg x ts with
      | none => rw [hc] at h; simp at h
      | some ts' =>
        rw [hc] at h; simp at h; subst h
        simp [doneWork, ih ts' hc]

theorem popFirst_work (p : Tx → Bool) : ∀ (txs : List Tx) (t0 : Tx) (txs' : List Tx),
    popFirst p txs = some (t0, txs') → t0.done = true → t0.reqs ≠ [] → doneWork txs' + 1 = doneWork txs := by
  intro txs
  induction txs with
  | nil => intro t0 txs' h; simp [popFirst] at h
  | cons u us ih =>
    intro t0 txs' h hd hne
    unfold popFirst at h
    split at h
    · simp at h
      obtain ⟨h1, h2⟩ := h
      subst h1
      cases hr : u.reqs with
      | nil => exact absurd hr hne
      | cons a0 tl =>
        rw [hr] at h2
        by_cases htl : tl = []
        · simp [htl] at h2
          subst h2
          simp [doneWork, hd, hr, htl]; omega
        · simp [htl] at h2
          subst h2
          simp [doneWork, hd, hr]; omega
    · cases hc : popFirst p us with
      | none => rw [hc] at h; simp at h
      | some y =>
        rw [hc] at h; simp at h
        obtain ⟨h1, h2⟩ := h
        subst h1; subst h2
        have := ih y.1 y.2 (by rw [hc]) hd hne
        simp [doneWork]; omega

/-- our transaction is marked done -/
def DoneT (tid : Nat) (s : St) : Prop := ∃ t ∈ s.txs, t.treq.tid = tid ∧ t.done = true
/-- the reply at the head of the translation port still has to be recorded -/
def HeadP (s : St) : Prop := ∃ r rest, s.trIn = r :: rest ∧ ∃ t ∈ s.txs, t.treq.tid = r.rspTo ∧ t.done = false

open Classical in
noncomputable def K2 (tid : Nat) (s : St) : Nat :=
  if DoneT tid s then 0 else 2 * (posT tid s.trIn + 1) + (if HeadP s then 1 else 0)

noncomputable def rho2 (c : Cfg) (tid : Nat) (s : St) : Nat × Nat :=
  (K2 tid s, 2 * doneWork s.txs + (if c.width ≤ s.botOut.length then 1 else 0))

/-- helpful move: the memory takes a request if the bottom port is full, else a tick -/
def hk2 (r : Nat × Nat) : Nat := if r.2 % 2 = 1 then 4 else 0

/-- the access waits in the transaction of lookup `tid`, which is completed or whose reply is at the port -/
def P2 (a : Acc) (tid : Nat) (s : St) : Prop :=
  ∃ t ∈ s.txs, t.treq.tid = tid ∧ a ∈ t.reqs ∧ (t.done = true ∨ ∃ r ∈ s.trIn, r.rspTo = tid)

theorem K2_le {tid : Nat} {s s' : St} (h1 : DoneT tid s → DoneT tid s')
    (h2 : ¬ DoneT tid s → posT tid s'.trIn ≤ posT tid s.trIn ∧ (HeadP s' → HeadP s)) :
    K2 tid s' ≤ K2 tid s := by
  unfold K2
  by_cases hd : DoneT tid s
  · simp [hd, h1 hd]
  · obtain ⟨h3, h4⟩ := h2 hd
    by_cases hd' : DoneT tid s'
    · simp [hd']
    · simp only [hd, hd', if_false]
      by_cases hh : HeadP s'
      · simp only [hh, h4 hh, if_true]; omega
      · simp only [hh, if_false]; split <;> omega

theorem K2_lt_pos {tid : Nat} {s s' : St} (h0 : ¬ DoneT tid s) (h : posT tid s'.trIn < posT tid s.trIn) :
    K2 tid s' < K2 tid s := by
  unfold K2
  simp only [h0, if_false]
  split
  · omega
  · split <;> split <;> omega

theorem K2_lt_done {tid : Nat} {s s' : St} (h0 : ¬ DoneT tid s) (h : DoneT tid s') : K2 tid s' < K2 tid s := by
  unfold K2
  simp only [h0, h, if_false, if_true]
  omega

theorem K2_lt_head {tid : Nat} {s s' : St} (h0 : ¬ DoneT tid s) (hpos : posT tid s'.trIn ≤ posT tid s.trIn)
    (h1 : HeadP s) (h2 : ¬ HeadP s') : K2 tid s' < K2 tid s := by
  unfold K2
  simp only [h0, h1, h2, if_false, if_true]
  split <;> omega

theorem uniq_tid {s : St} (hu : UInv s) : ∀ u ∈ s.txs, ∀ v ∈ s.txs, u.treq.tid = v.treq.tid → u = v :=
  eq_of_nodup_map (fun x : Tx => x.treq.tid) s.txs (show (s.txs.map (fun x : Tx => x.treq.tid)).Nodup from hu.tnd)

theorem uniq_tid_l {l : List Tx} (hu : (txTids l).Nodup) : ∀ u ∈ l, ∀ v ∈ l, u.treq.tid = v.treq.tid → u = v :=
  eq_of_nodup_map (fun x : Tx => x.treq.tid) l (show (l.map (fun x : Tx => x.treq.tid)).Nodup from hu)

theorem hasTid_iff (x : Nat) (t : Tx) : hasTid x t = true ↔ t.treq.tid = x := by simp [hasTid]

/-- one call of `parseTranslation` in stage 2 -/
theorem parse_l2 (c : Cfg) (s : St) (a : Acc) (tid : Nat) (hg : GInv c s) (hp : P2 a tid s) :
    (B2 (parseTranslation c s).1 a ∨
      (P2 a tid (parseTranslation c s).1 ∧ lt2 (rho2 c tid (parseTranslation c s).1) (rho2 c tid s))) ∨
    ((parseTranslation c s).1 = s ∧ c.width ≤ s.botOut.length) := by
  obtain ⟨t, ht, htid, hat, hdr⟩ := hp
  have hne : ∀ u ∈ s.txs, u.reqs ≠ [] := fun u hu => (hg.m.tx u hu).1
  have huniq := uniq_tid hg.u
  cases hpf : popFirst isDrainable s.txs with
  | some y =>
    obtain ⟨t0, txs'⟩ := y
    obtain ⟨ht0, hdr0, hbwd, _⟩ := popFirst_spec _ _ _ _ hpf
    have hd0 : t0.done = true := by simp [isDrainable] at hdr0; exact hdr0.1
    rcases parse_specA c s t0 txs' hpf with ⟨he, hwhy⟩ | ⟨a0, tl, p, hr, _, hroom, he⟩
    · right
      rcases hwhy with h | h | h
      · rw [he]; exact ⟨rfl, h⟩
      · exact absurd h (hne t0 ht0)
      · have := hg.d t0 ht0 hd0; rw [h] at this; simp at this
    · left
      rw [he]
      rcases popFirst_fwd _ _ _ _ hpf t ht a hat with ⟨t', h1, h2, h3, h4⟩ | ⟨_, h2⟩
      · right
        refine ⟨⟨t', h1, by rw [h2]; exact htid, h4, by rw [h3]; exact hdr⟩, ?_⟩
        refine lex_lt (K2_le ?_ ?_) (fun _ => ?_)
        · rintro ⟨u, hu, hut, hud⟩
          have : u = t := huniq u hu t ht (by rw [hut, htid])
          subst this
          exact ⟨t', h1, by rw [h2]; exact htid, by rw [h3]; exact hud⟩
        · intro _
          refine ⟨Nat.le_refl _, ?_⟩
          rintro ⟨r, rest, hr1, u', hu', hut', hud'⟩
          refine ⟨r, rest, hr1, ?_⟩
          rcases hbwd u' hu' with h | ⟨h, _⟩
          · exact ⟨u', h, hut', hud'⟩
          · rw [h] at hud'; simp only at hud'; rw [hd0] at hud'; simp at hud'
        · have hw := popFirst_work _ _ _ _ hpf hd0 (hne t0 ht0)
          show 2 * doneWork txs' + _ < 2 * doneWork s.txs + _
          split <;> split <;> omega
      · left
        rw [hr] at h2; simp at h2
        exact Or.inl ⟨_, by show _ ∈ s.infl ++ [_]; exact List.mem_append_right _ (List.mem_singleton.mpr rfl), h2⟩
  | none =>
    have hnd : ∀ u ∈ s.txs, u.done = false := by
      intro u hu
      have h1 := popFirst_none _ _ hpf u hu
      have h2 := hne u hu
      cases hud : u.done with
      | false => rfl
      | true =>
        simp [isDrainable, hud] at h1
        exact absurd h1 h2
    have hD : ¬ DoneT tid s := by
      rintro ⟨u, hu, _, hud⟩
      rw [hnd u hu] at hud; simp at hud
    have hrep : ∃ r ∈ s.trIn, r.rspTo = tid := by
      rcases hdr with h | h
      · rw [hnd t ht] at h; simp at h
      · exact h
    left
    rcases parse_specB c s hpf with ⟨h, _⟩ | ⟨r0, rest, htr, hcase⟩
    · obtain ⟨r, hr, _⟩ := hrep; rw [h] at hr; simp at hr
    have hM := markFirst_fwd (hasTid r0.rspTo) r0.paddr s.txs
    obtain ⟨tm, htm, htmq, htmr, _, htme⟩ := hM t ht
    have hatm : a ∈ tm.reqs := by rw [htmr]; exact hat
    have htmt : tm.treq.tid = tid := by rw [htmq]; exact htid
    have hMnd : (txTids (markFirst (hasTid r0.rspTo) r0.paddr s.txs)).Nodup := by
      rw [markFirst_tids]; exact hg.u.tnd
    have hrest : r0.rspTo ≠ tid → ∃ r ∈ rest, r.rspTo = tid := by
      intro hne0
      obtain ⟨r, hr, hrt⟩ := hrep
      rw [htr] at hr
      rcases List.mem_cons.mp hr with rfl | h
      · exact absurd hrt hne0
      · exact ⟨r, h, hrt⟩
    have hposlt : r0.rspTo ≠ tid → posT tid rest < posT tid s.trIn := by
      intro hne0; rw [htr]; simp [posT, hne0]
    rcases hcase with ⟨hpn, ev, he⟩ | ⟨t1, txs', hp1, hc2⟩
    · -- unknown reply: dropped
      have hne0 : r0.rspTo ≠ tid := by
        intro h
        exact popFirst_markFirst_none _ _ _ hpn t ht (by rw [htid, h])
      rw [he]
      right
      refine ⟨⟨t, ht, htid, hat, Or.inr (hrest hne0)⟩, Or.inl ?_⟩
      exact K2_lt_pos (s' := { s with trIn := rest, ev := ev }) hD (hposlt hne0)
    · obtain ⟨ht1, hp1t, hbwd1, _⟩ := popFirst_spec _ _ _ _ hp1
      have ht1tid : t1.treq.tid = r0.rspTo := (hasTid_iff _ _).mp hp1t
      have ht1d : t1.done = true := popFirst_markFirst_done _ _ _ _ _ hp1
      have hsame : r0.rspTo = tid → tm = t1 := fun h =>
        uniq_tid_l hMnd tm htm t1 ht1 (by rw [htmt, ht1tid, h])
      rcases hc2 with ⟨hr1, _⟩ | ⟨a1, tl, hr1, hc3⟩
      · exfalso
        rcases markFirst_mem _ _ _ t1 ht1 with h | ⟨u, hu, _, h⟩
        · exact hne t1 h hr1
        · rw [h] at hr1; exact hne u hu hr1
      · rcases hc3 with ⟨hroom, ev, he⟩ | ⟨hroom, he⟩
        · rw [he]
          rcases popFirst_fwd _ _ _ _ hp1 tm htm a hatm with ⟨t', h1, h2, h3, h4⟩ | ⟨_, h2⟩
          · right
            by_cases h0 : r0.rspTo = tid
            · have hdn : t'.done = true := by rw [h3, hsame h0]; exact ht1d
              refine ⟨⟨t', h1, by rw [h2]; exact htmt, h4, Or.inl hdn⟩, Or.inl ?_⟩
              exact K2_lt_done hD ⟨t', h1, by rw [h2]; exact htmt, hdn⟩
            · refine ⟨⟨t', h1, by rw [h2]; exact htmt, h4, Or.inr (hrest h0)⟩, Or.inl ?_⟩
              exact K2_lt_pos (s' := { emit c s a1 r0.paddr txs' with trIn := rest, ev := ev }) hD (hposlt h0)
          · left
            rw [hr1] at h2; simp at h2
            exact Or.inl ⟨_, by show _ ∈ s.infl ++ [_]; exact List.mem_append_right _ (List.mem_singleton.mpr rfl), h2⟩
        · -- the reply is recorded while the bottom port is full
          rw [he]
          right
          refine ⟨⟨tm, htm, htmt, hatm, Or.inr hrep⟩, Or.inl ?_⟩
          by_cases h0 : r0.rspTo = tid
          · exact K2_lt_done hD ⟨tm, htm, htmt, by rw [hsame h0]; exact ht1d⟩
          · refine K2_lt_head hD (Nat.le_refl _) ?_ ?_
            · refine ⟨r0, rest, htr, ?_⟩
              rcases markFirst_mem _ _ _ t1 ht1 with h | ⟨u, hu, _, h⟩
              · exact ⟨t1, h, ht1tid, hnd t1 h⟩
              · exact ⟨u, hu, by rw [h] at ht1tid; exact ht1tid, hnd u hu⟩
            · rintro ⟨r, rest', hr', u', hu', hut', hud'⟩
              have hr0 : r = r0 := by
                have : s.trIn = r :: rest' := hr'
                rw [htr] at this; injection this with h _; exact h.symm
              have : u' = t1 := uniq_tid_l hMnd u' hu' t1 ht1 (by rw [hut', hr0, ht1tid])
              rw [this, ht1d] at hud'; simp at hud'

theorem frame2 (c : Cfg) (a : Acc) (tid : Nat) (s s' : St) (h1 : s'.txs = s.txs)
    (h2 : ∃ l, s'.trIn = s.trIn ++ l) (h3 : s'.botOut.length ≤ s.botOut.length) (h4 : B2 s a → B2 s' a) :
    Adv (P2 a tid) (fun s => B2 s a) (rho2 c tid) lt2 s s' := by
  refine ⟨h4, fun hp => Or.inr ?_⟩
  obtain ⟨l, hl⟩ := h2
  obtain ⟨t, ht, htid, hat, hdr⟩ := hp
  refine ⟨⟨t, by rw [h1]; exact ht, htid, hat,
    hdr.imp id (fun ⟨r, hr, hrt⟩ => ⟨r, by rw [hl]; exact List.mem_append_left _ hr, hrt⟩)⟩, ?_⟩
  unfold rho2
  rw [h1]
  apply lex_le
  · apply K2_le
    · rintro ⟨u, hu, h⟩; exact ⟨u, by rw [h1]; exact hu, h⟩
    · intro hD
      have hrep : ∃ r ∈ s.trIn, r.rspTo = tid := by
        rcases hdr with h | h
        · exact absurd ⟨t, ht, htid, h⟩ hD
        · exact h
      refine ⟨by rw [hl, posT_append tid _ _ hrep]; exact Nat.le_refl _, ?_⟩
      rintro ⟨r, rest, hr1, u, hu, hut, hud⟩
      obtain ⟨r', hr', _⟩ := hrep
      cases htr : s.trIn with
      | nil => rw [htr] at hr'; simp at hr'
      | cons r0 rest0 =>
        rw [hl, htr] at hr1
        simp at hr1
        exact ⟨r0, rest0, htr, u, by rw [← h1]; exact hu, by rw [hr1.1]; exact hut, hud⟩
  · intro _
    split <;> split <;> omega

theorem translate_l2 (c : Cfg) (s : St) (a : Acc) (tid : Nat) (hg : GInv c s) :
    Adv (P2 a tid) (fun s => B2 s a) (rho2 c tid) lt2 s (translate c s).1 := by
  refine ⟨translate_b2 c s a, fun hp => ?_⟩
  cases htop : s.topIn with
  | nil => rw [translate_nil c s htop]; exact Or.inr ⟨hp, Or.inr rfl⟩
  | cons x rest =>
    cases hc : coalesce c.lg x s.txs with
    | some txs' =>
      obtain ⟨ev, he⟩ := translate_co c s x rest htop txs' hc
      rw [he]
      right
      obtain ⟨t, ht, htid, hat, hdr⟩ := hp
      obtain ⟨t', h1, h2, h3, h4⟩ := coalesce_fwd _ _ _ _ hc t ht
      refine ⟨⟨t', h1, by rw [h2]; exact htid, h4 a hat, by rw [h3]; exact hdr⟩, ?_⟩
      apply lex_le
      · apply K2_le
        · rintro ⟨u, hu, hut, hud⟩
          obtain ⟨u', g1, g2, g3, _⟩ := coalesce_fwd _ _ _ _ hc u hu
          exact ⟨u', g1, by rw [g2]; exact hut, by rw [g3]; exact hud⟩
        · intro _
          refine ⟨Nat.le_refl _, ?_⟩
          rintro ⟨r, rest', hr1, u', hu', hut', hud'⟩
          refine ⟨r, rest', hr1, ?_⟩
          rcases coalesce_mem _ _ _ _ hc u' hu' with h | ⟨u, hu, _, h⟩
          · exact ⟨u', h, hut', hud'⟩
          · exact ⟨u, hu, by rw [h] at hut'; exact hut', by rw [h] at hud'; exact hud'⟩
      · intro _
        show 2 * doneWork txs' + _ ≤ 2 * doneWork s.txs + _
        rw [coalesce_work _ _ _ _ hc]
        exact Nat.le_refl _
    | none =>
      by_cases hroom : s.trOut.length < c.width
      · obtain ⟨ev, he⟩ := translate_new c s x rest htop hc hroom
        rw [he]
        right
        obtain ⟨t, ht, htid, hat, hdr⟩ := hp
        refine ⟨⟨t, List.mem_append_left _ ht, htid, hat, hdr⟩, ?_⟩
        apply lex_le
        · apply K2_le
          · rintro ⟨u, hu, h⟩; exact ⟨u, List.mem_append_left _ hu, h⟩
          · intro _
            refine ⟨Nat.le_refl _, ?_⟩
            rintro ⟨r, rest', hr1, u', hu', hut', hud'⟩
            refine ⟨r, rest', hr1, ?_⟩
            rcases List.mem_append.mp hu' with h | h
            · exact ⟨u', h, hut', hud'⟩
            · exfalso
              rw [List.mem_singleton] at h
              have hrin : r ∈ s.trIn := by rw [show s.trIn = r :: rest' from hr1]; exact List.mem_cons_self ..
              have := hg.tl r (hg.m.trIn r hrin)
              rw [h] at hut'; simp at hut'; omega
        · intro _
          show 2 * doneWork (s.txs ++ [_]) + _ ≤ 2 * doneWork s.txs + _
          rw [doneWork_append]; simp [doneWork]
      · rw [translate_full c s x rest htop hc hroom]; exact Or.inr ⟨hp, Or.inr rfl⟩

theorem stage2 (c : Cfg) (a : Acc) (tid : Nat) :
    StageOK c (P2 a tid) (fun s => B2 s a) (rho2 c tid) lt2 where
  tr := lt2_trans
  fR := by
    intro s _
    obtain ⟨h1, _, h3, _, h5⟩ := respond_frame c s
    exact frame2 c a tid _ _ h1 ⟨[], by simp [h3]⟩ (by rw [h5]; exact Nat.le_refl _) (respond_b2 c s a)
  fP := by
    intro s hg
    refine ⟨parse_b2 c s a, fun hp => ?_⟩
    rcases parse_l2 c s a tid hg hp with (h | ⟨h1, h2⟩) | ⟨h, _⟩
    · exact Or.inl h
    · exact Or.inr ⟨h1, Or.inl h2⟩
    · rw [h]; exact Or.inr ⟨hp, Or.inr rfl⟩
  fT := fun s hg => translate_l2 c s a tid hg
  env := by
    intro s o ho _ _
    refine frame2 c a tid _ _ (step_frame c s o ho).1 ?_ ?_ (step_b2 c s o ho a)
    all_goals (cases o <;> simp [Op.env] at ho <;> simp only [step] <;> (try split) <;> simp)

theorem strict2 {c : Cfg} {e : Env} (hw : 0 < c.width) (a : Acc) (tid : Nat) (w : CW) (hr : Reach c e w)
    (nc : NC w.s) (o : HOp) (_ho : o.noCtl = true) (hk : o.kind = hk2 (rho2 c tid w.s)) :
    AdvS (P2 a tid) (fun s => B2 s a) (rho2 c tid) lt2 w.s (hstep c e w o).s := by
  have hg := reach_ginv hr nc
  by_cases hfull : c.width ≤ w.s.botOut.length
  · have h4 : hk2 (rho2 c tid w.s) = 4 := by simp only [hk2, rho2, hfull, if_true]; split <;> omega
    have ho := kind4 o (hk.trans h4)
    subst ho
    cases hq : w.s.botOut with
    | nil => rw [hq] at hfull; simp at hfull; omega
    | cons x l =>
      have hs : (hstep c e w .drainBot).s = { w.s with botOut := l } := by simp [hstep, hq, step]
      rw [hs]
      refine ⟨fun h => h, fun hp => Or.inr ⟨hp, Or.inr ⟨rfl, ?_⟩⟩⟩
      have hb := hg.b.bot
      rw [hq] at hb hfull
      simp only [List.length_cons] at hb hfull
      show 2 * doneWork w.s.txs + (if c.width ≤ l.length then 1 else 0) <
        2 * doneWork w.s.txs + (if c.width ≤ w.s.botOut.length then 1 else 0)
      rw [hq]
      simp only [List.length_cons]
      split <;> omega
  · have h0 : hk2 (rho2 c tid w.s) = 0 := by simp only [hk2, rho2, hfull, if_false]; split <;> omega
    have ho := kind0 o (hk.trans h0)
    subst ho
    rw [hstep_tick_s hr, tick_nc c w.s nc]
    obtain ⟨n, hn⟩ : ∃ n, c.width = n + 1 := ⟨c.width - 1, by omega⟩
    have st := stage2 c a tid
    have h1 := (st.riR c.width w.s) hg
    generalize (iter (respond c) c.width w.s).1 = mid at h1 ⊢
    have h2 := (RI.trans st.tr (st.riP c.width mid) (st.riT c.width _)) h1.1
    refine Adv.strict_mid st.tr h1.2 h2.2 ?_
    intro hp heq
    have hroom : ¬ c.width ≤ mid.botOut.length := by
      intro hf
      have := congrArg Prod.snd heq
      simp only [rho2, hf, hfull, if_true, if_false] at this
      omega
    have first : AdvS (P2 a tid) (fun s => B2 s a) (rho2 c tid) lt2 mid (parseTranslation c mid).1 := by
      refine ⟨parse_b2 c _ a, fun hp => ?_⟩
      rcases parse_l2 c _ a tid h1.1 hp with h | ⟨_, h⟩
      · exact h
      · exact absurd h hroom
    have rest := (RI.trans st.tr (st.riP n (parseTranslation c mid).1) (st.riT (n + 1) _)) (parse_ginv c _ h1.1)
    rw [hn]
    exact first.andThen st.tr rest.2

/-! ## nothing is lost while waiting: the "keep" stages (rank constant) -/

/-- in flight as request `bid` -/
def PF (a : Acc) (bid : Nat) (s : St) : Prop := ∃ f ∈ s.infl, f.top = a ∧ f.breq.bid = bid
/-- waiting in the transaction of lookup `tid` -/
def PT (a : Acc) (tid : Nat) (s : St) : Prop := ∃ t ∈ s.txs, t.treq.tid = tid ∧ a ∈ t.reqs

theorem respond_keepf (c : Cfg) (s : St) (f : Fwd) (hf : f ∈ s.infl) :
    f ∈ (respond c s).1.infl ∨ ∃ l ∈ (respond c s).1.answered, l.top = f.top := by
  cases hb : s.botIn with
  | nil => rw [respond_nil c s hb]; exact Or.inl hf
  | cons r0 rest =>
    cases hx : extract r0.rspTo s.infl with
    | none =>
      obtain ⟨ev, he⟩ := respond_none c s r0 rest hb hx
      rw [he]; exact Or.inl hf
    | some x =>
      obtain ⟨f', l'⟩ := x
      by_cases hroom : s.topOut.length < c.width
      · obtain ⟨ev, he⟩ := respond_some c s r0 rest hb f' l' hx hroom
        rw [he]
        rcases extract_keep _ _ _ _ hx f hf with h | h
        · exact Or.inl h
        · exact Or.inr ⟨_, List.mem_cons_self .., by rw [← h]⟩
      · rw [respond_full c s r0 rest hb f' l' hx hroom]; exact Or.inl hf

theorem keep3 (c : Cfg) (a : Acc) (bid : Nat) :
    StageOK c (PF a bid) (fun s => Ans s a) (fun _ => 0) (fun x y : Nat => x < y) where
  tr := nat_lt_trans3
  fR := by
    intro s _
    refine ⟨fun ⟨l, hl, ha⟩ => ⟨l, (respond_grow c s).ans l hl, ha⟩, fun ⟨f, hf, hfa, hfb⟩ => ?_⟩
    rcases respond_keepf c s f hf with h | ⟨l, hl, hla⟩
    · exact Or.inr ⟨⟨f, h, hfa, hfb⟩, Or.inr rfl⟩
    · exact Or.inl ⟨l, hl, by rw [hla]; exact hfa⟩
  fP := by
    intro s _
    obtain ⟨_, _, _, _, h5, h6⟩ := parse_frame c s
    exact ⟨fun ⟨l, hl, ha⟩ => ⟨l, by rw [h5]; exact hl, ha⟩,
      fun ⟨f, hf, hfa, hfb⟩ => Or.inr ⟨⟨f, h6 f hf, hfa, hfb⟩, Or.inr rfl⟩⟩
  fT := by
    intro s _
    obtain ⟨h1, _, _, _, _, h6⟩ := translate_frame c s
    exact ⟨fun ⟨l, hl, ha⟩ => ⟨l, by rw [h6]; exact hl, ha⟩,
      fun ⟨f, hf, hfa, hfb⟩ => Or.inr ⟨⟨f, by rw [h1]; exact hf, hfa, hfb⟩, Or.inr rfl⟩⟩
  env := by
    intro s o ho _ _
    obtain ⟨_, h2, h3⟩ := step_frame c s o ho
    exact ⟨fun ⟨l, hl, ha⟩ => ⟨l, by rw [h3]; exact hl, ha⟩,
      fun ⟨f, hf, hfa, hfb⟩ => Or.inr ⟨⟨f, by rw [h2]; exact hf, hfa, hfb⟩, Or.inr rfl⟩⟩

theorem parse_keept (c : Cfg) (s : St) (a : Acc) (tid : Nat) (h : PT a tid s) :
    PT a tid (parseTranslation c s).1 ∨ B2 (parseTranslation c s).1 a := by
  obtain ⟨t, ht, htid, hat⟩ := h
  cases hpf : popFirst isDrainable s.txs with
  | some y =>
    obtain ⟨t0, txs'⟩ := y
    rcases parse_specA c s t0 txs' hpf with ⟨he, _⟩ | ⟨a0, tl, p, hr, _, _, he⟩
    · rw [he]; exact Or.inl ⟨t, ht, htid, hat⟩
    · rw [he]
      rcases popFirst_fwd _ _ _ _ hpf t ht a hat with ⟨t', h1, h2, _, h4⟩ | ⟨_, h2⟩
      · exact Or.inl ⟨t', h1, by rw [h2]; exact htid, h4⟩
      · rw [hr] at h2; simp at h2
        exact Or.inr (Or.inl ⟨_, by show _ ∈ s.infl ++ [_]; exact List.mem_append_right _ (List.mem_singleton.mpr rfl), h2⟩)
  | none =>
    rcases parse_specB c s hpf with ⟨_, he⟩ | ⟨r, rest, _, hcase⟩
    · rw [he]; exact Or.inl ⟨t, ht, htid, hat⟩
    · have hm := markFirst_fwd (hasTid r.rspTo) r.paddr s.txs
      obtain ⟨tm, htm, htq, htr, _⟩ := hm t ht
      have hatm : a ∈ tm.reqs := by rw [htr]; exact hat
      have htmt : tm.treq.tid = tid := by rw [htq]; exact htid
      rcases hcase with ⟨_, ev, he⟩ | ⟨t1, txs', hp1, hc2⟩
      · rw [he]; exact Or.inl ⟨t, ht, htid, hat⟩
      · rcases hc2 with ⟨_, he⟩ | ⟨a1, tl, hr1, hc3⟩
        · rw [he]; exact Or.inl ⟨tm, htm, htmt, hatm⟩
        · rcases hc3 with ⟨_, ev, he⟩ | ⟨_, he⟩
          · rw [he]
            rcases popFirst_fwd _ _ _ _ hp1 tm htm a hatm with ⟨t', h1, h2, _, h4⟩ | ⟨_, h2⟩
            · exact Or.inl ⟨t', h1, by rw [h2]; exact htmt, h4⟩
            · rw [hr1] at h2; simp at h2
              exact Or.inr (Or.inl ⟨_, by show _ ∈ s.infl ++ [_]; exact List.mem_append_right _ (List.mem_singleton.mpr rfl), h2⟩)
          · rw [he]; exact Or.inl ⟨tm, htm, htmt, hatm⟩

theorem keep2 (c : Cfg) (a : Acc) (tid : Nat) :
    StageOK c (PT a tid) (fun s => B2 s a) (fun _ => 0) (fun x y : Nat => x < y) where
  tr := nat_lt_trans3
  fR := by
    intro s _
    refine ⟨respond_b2 c s a, fun ⟨t, ht, h⟩ => Or.inr ⟨⟨t, by rw [(respond_frame c s).1]; exact ht, h⟩, Or.inr rfl⟩⟩
  fP := by
    intro s _
    refine ⟨parse_b2 c s a, fun hp => ?_⟩
    rcases parse_keept c s a tid hp with h | h
    · exact Or.inr ⟨h, Or.inr rfl⟩
    · exact Or.inl h
  fT := by
    intro s _
    refine ⟨translate_b2 c s a, fun ⟨t, ht, htid, hat⟩ => Or.inr ⟨?_, Or.inr rfl⟩⟩
    cases htop : s.topIn with
    | nil => rw [translate_nil c s htop]; exact ⟨t, ht, htid, hat⟩
    | cons x rest =>
      cases hc : coalesce c.lg x s.txs with
      | some txs' =>
        obtain ⟨ev, he⟩ := translate_co c s x rest htop txs' hc
        rw [he]
        obtain ⟨t', h1, h2, _, h4⟩ := coalesce_fwd _ _ _ _ hc t ht
        exact ⟨t', h1, by rw [h2]; exact htid, h4 a hat⟩
      | none =>
        by_cases hroom : s.trOut.length < c.width
        · obtain ⟨ev, he⟩ := translate_new c s x rest htop hc hroom
          rw [he]
          exact ⟨t, List.mem_append_left _ ht, htid, hat⟩
        · rw [translate_full c s x rest htop hc hroom]; exact ⟨t, ht, htid, hat⟩
  env := by
    intro s o ho _ _
    refine ⟨step_b2 c s o ho a, fun ⟨t, ht, h⟩ => Or.inr ⟨⟨t, by rw [(step_frame c s o ho).1]; exact ht, h⟩, Or.inr rfl⟩⟩

/-- along a run, what a stage holds is kept until it moves on -/
theorem StageOK.keep_run {β : Type} {P Q : St → Prop} {ρ : St → β} {lt : β → β → Prop} {c : Cfg} {e : Env}
    (st : StageOK c P Q ρ lt) {w0 : CW} {sched : Nat → HOp} (h0 : Reach c e w0) (nc0 : NC w0.s)
    (hs : ∀ i, (sched i).noCtl = true) (n : Nat) (hp : P (wrun c e w0 sched n).s) :
    ∀ d, Q (wrun c e w0 sched (n + d)).s ∨ P (wrun c e w0 sched (n + d)).s := by
  intro d
  induction d with
  | zero => exact Or.inr hp
  | succ d ih =>
    have hm := st.hmove (wrun_reach sched h0 (n + d)) (wrun_nc h0 nc0 hs (n + d)) _ (hs (n + d))
    rcases ih with h | h
    · exact Or.inl (hm.1 h)
    · rcases hm.2 h with h' | ⟨h', _⟩
      · exact Or.inl h'
      · exact Or.inr h'

end C16
