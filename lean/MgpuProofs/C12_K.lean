import MgpuModel.C12_K
/-! Helper lemmas for C12.K (k application threads, m queues): the invariant "every non-empty queue
    is served or somebody still owes a signal; every waiter on an empty queue has a notification in
    flight", its preservation, deadlock freedom, FIFO per queue and the termination measure. -/
namespace C12
namespace K

/-! ### list helpers -/

theorem mem_set_self {α} (l : List α) (j : Nat) (b : α) (h : j < l.length) : b ∈ l.set j b := by
  rw [List.mem_iff_getElem?]
  exact ⟨j, by simp [h]⟩

theorem exists_set {α} (W : α → Prop) (l : List α) (j : Nat) (a b : α) (hj : l[j]? = some a)
    (h : ∃ x ∈ l, W x) : (∃ x ∈ l.set j b, W x) ∨ W a := by
  obtain ⟨x, hx, hw⟩ := h
  rw [List.mem_iff_getElem?] at hx
  obtain ⟨k, hk⟩ := hx
  by_cases hjk : j = k
  · subst hjk
    rw [hj] at hk
    injection hk with hk
    subst hk
    exact Or.inr hw
  · refine Or.inl ⟨x, ?_, hw⟩
    rw [List.mem_iff_getElem?]
    exact ⟨k, by rw [List.getElem?_set_ne hjk]; exact hk⟩

theorem lt_of_get {α} (l : List α) (j : Nat) (a : α) (hj : l[j]? = some a) : j < l.length := by
  have := List.getElem?_eq_some_iff.mp hj
  exact this.1

theorem mem_of_get {α} (l : List α) (j : Nat) (a : α) (hj : l[j]? = some a) : a ∈ l :=
  List.mem_iff_getElem?.mpr ⟨j, hj⟩

/-! ### queues -/

theorem updQ_length (f : Qu → Qu) (i : Nat) (l : List Qu) : (updQ f i l).length = l.length := by
  induction l generalizing i with
  | nil => simp [updQ]
  | cons q qs ih => cases i <;> simp [updQ, ih]

theorem updQ_get_ne (f : Qu → Qu) (i j : Nat) (l : List Qu) (h : j ≠ i) : (updQ f i l)[j]? = l[j]? := by
  induction l generalizing i j with
  | nil => simp [updQ]
  | cons q qs ih =>
    cases i with
    | zero => cases j with
      | zero => exact absurd rfl h
      | succ j => simp [updQ]
    | succ i => cases j with
      | zero => simp [updQ]
      | succ j => simp only [updQ, List.getElem?_cons_succ]; exact ih i j (by omega)

theorem updQ_get_eq (f : Qu → Qu) (i : Nat) (l : List Qu) : (updQ f i l)[i]? = (l[i]?).map f := by
  induction l generalizing i with
  | nil => simp [updQ]
  | cons q qs ih =>
    cases i with
    | zero => simp [updQ]
    | succ i => simp only [updQ, List.getElem?_cons_succ]; exact ih i

theorem cmdsAt_ne_nil_lt (qs : List Qu) (q : Nat) (h : cmdsAt qs q ≠ []) : q < qs.length := by
  unfold cmdsAt at h
  cases hq : qs[q]? with
  | none => simp [hq] at h
  | some x => exact lt_of_get _ _ _ hq

theorem cmdsAt_updQ_ne (f : Qu → Qu) (i q : Nat) (qs : List Qu) (h : q ≠ i) : cmdsAt (updQ f i qs) q = cmdsAt qs q := by
  unfold cmdsAt; rw [updQ_get_ne _ _ _ _ h]

theorem cmdsAt_enq (id i : Nat) (qs : List Qu) (h : i < qs.length) : cmdsAt (updQ (enqQu id) i qs) i = cmdsAt qs i ++ [id] := by
  unfold cmdsAt; rw [updQ_get_eq]
  cases hq : qs[i]? with
  | none => have := List.getElem?_eq_none_iff.mp hq; omega
  | some x => simp [enqQu]

theorem cmdsAt_enq_oob (id i : Nat) (qs : List Qu) (h : ¬ i < qs.length) (q : Nat) : cmdsAt (updQ (enqQu id) i qs) q = cmdsAt qs q := by
  by_cases hq : q = i
  · subst hq
    unfold cmdsAt; rw [updQ_get_eq]
    have : qs[q]? = none := List.getElem?_eq_none_iff.mpr (by omega)
    simp [this]
  · exact cmdsAt_updQ_ne _ _ _ _ hq

theorem cmdsAt_deq (i : Nat) (qs : List Qu) : cmdsAt (updQ deqQu i qs) i = (cmdsAt qs i).tail := by
  unfold cmdsAt; rw [updQ_get_eq]
  cases hq : qs[i]? with
  | none => simp
  | some x =>
    simp only [Option.map_some, deqQu]
    cases hc : x.cmds <;> simp [hc]

/-! ### the invariant -/

/-- the engine will look at the event queue again -/
def willLook (s : St) : Prop :=
  s.r = .chkFlag ∨ s.e = .start ∨ s.e = .loop ∨ isTickPc s.e = true ∨ ((s.e = .afterRun ∨ s.e = .clear) ∧ s.pend = true)

/-- the tick being handled will still reach queue `q`, or has already made progress (and so re-schedules itself) -/
def midTick (e : EPc) (prog : Bool) (q : Nat) : Prop := match e with
  | .deq i => prog = true ∨ i ≤ q
  | .notify _ => prog = true
  | _ => False

/-- a pass of `processNewCommand` over queue `q` is guaranteed: `runAsync` is about to call `TickLater`,
    or a tick event is queued and the engine will look, or the running tick has not passed `q` / re-schedules -/
def served (s : St) (q : Nat) : Prop := s.r = .tick ∨ (s.evt = true ∧ willLook s) ∨ midTick s.e s.prog q

/-- the thread still owes a `d.enqueueSignal <- true` -/
def willSignal (a : App) : Prop := (a.pc = .idle ∧ a.script ≠ []) ∨ a.pc = .enqN ∨ a.pc = .sig ∨ a.pc = .sending
def inDrain (a : App) : Prop := a.pc = .sig ∨ a.pc = .sending ∨ a.pc = .chk ∨ a.pc = .toWait ∨ a.pc = .waiting
/-- the thread is (about to be) blocked in `Wait` with no buffered notification -/
def blockedEmpty (a : App) : Prop := (a.pc = .toWait ∧ a.token = false) ∨ a.pc = .waiting

structure AppOk (a : App) : Prop where
  subd : inDrain a → a.subscribed = true
  ok : okScript a.script = true
  enqN_ne : a.pc = .enqN → a.script ≠ []

/-- "every non-empty queue is served or some thread still owes a signal; every waiter on an empty
    queue has its notification in flight" -/
structure Inv (s : St) : Prop where
  run_iff : s.running = true ↔ s.e ≠ .none
  pend_run : s.pend = true → s.running = true
  work : ∀ q, cmdsOf s q ≠ [] → served s q ∨ ∃ a ∈ s.apps, willSignal a
  note : ∀ a ∈ s.apps, blockedEmpty a → cmdsOf s a.q = [] → s.e = .notify a.q
  aok : ∀ a ∈ s.apps, AppOk a

theorem okScript_tail (op : Op) (rest : List Op) (h : okScript (op :: rest) = true) : okScript rest = true := by
  cases rest with
  | nil => rfl
  | cons b l => simpa [okScript, List.getLast?_cons_cons] using h

theorem okScript_enq_ne (q : Nat) (rest : List Op) (h : okScript (.enq q :: rest) = true) : rest ≠ [] := by
  intro hr; subst hr; simp [okScript] at h

theorem inv_init (scripts : List (List Op)) (nq : Nat) (h : ∀ sc ∈ scripts, okScript sc = true) : Inv (init scripts nq) := by
  constructor
  · simp [init]
  · simp [init]
  · intro q hq
    exfalso; apply hq
    simp only [cmdsOf, cmdsAt, init]
    cases hx : (List.replicate nq ({} : Qu))[q]? with
    | none => rfl
    | some x =>
      have := List.mem_of_getElem? hx
      simp only [List.mem_replicate] at this
      rw [this.2]
  · intro a ha hb
    simp only [init, List.mem_map] at ha
    obtain ⟨sc, _, rfl⟩ := ha
    simp [blockedEmpty] at hb
  · intro a ha
    simp only [init, List.mem_map] at ha
    obtain ⟨sc, hsc, rfl⟩ := ha
    exact ⟨by simp [inDrain], h sc hsc, by simp⟩

theorem notify1_blocked (q : Nat) (y : App) (h : blockedEmpty (notify1 q y)) :
    notify1 q y = y ∧ ¬ (y.subscribed = true ∧ y.q = q) := by
  unfold notify1 at h ⊢
  by_cases hc : y.subscribed = true ∧ y.q = q
  · exfalso
    rw [if_pos hc] at h
    by_cases hw : y.pc = .waiting
    · rw [if_pos hw] at h; simp [blockedEmpty] at h
    · rw [if_neg hw] at h; simp [blockedEmpty, hw] at h
  · rw [if_neg hc]; exact ⟨rfl, hc⟩

theorem notify1_will (q : Nat) (y : App) (h : willSignal y) : willSignal (notify1 q y) := by
  unfold notify1
  split
  · split
    · rename_i hw; simp [willSignal, hw] at h
    · exact h
  · exact h

theorem notify1_ok (q : Nat) (y : App) (h : AppOk y) : AppOk (notify1 q y) := by
  unfold notify1
  split
  · rename_i hc
    split
    · exact ⟨fun _ => hc.1, h.ok, by simp⟩
    · exact ⟨fun _ => hc.1, h.ok, h.enqN_ne⟩
  · exact h

theorem notify1_q (q : Nat) (y : App) : (notify1 q y).q = y.q := by
  unfold notify1; split
  · split <;> rfl
  · rfl

/-- an application step that rewrites only the thread's own record (and possibly completes the
    rendezvous with `runAsync`) -/
theorem inv_app_set (s : St) (j : Nat) (a a' : App) (r' : RPc) (hj : s.apps[j]? = some a) (hr : r' = s.r ∨ r' = .tick)
    (hW : willSignal a → willSignal a' ∨ r' = .tick)
    (hB : blockedEmpty a' → cmdsOf s a'.q = [] → s.e = .notify a'.q)
    (hOk : AppOk a') (h : Inv s) : Inv { s with r := r', apps := s.apps.set j a' } := by
  have hlt := lt_of_get _ _ _ hj
  constructor
  · exact h.run_iff
  · exact h.pend_run
  · intro q hq
    rcases hr with hr | hr
    · subst hr
      rcases h.work q hq with hs | hw
      · exact Or.inl hs
      · rcases exists_set willSignal _ j a a' hj hw with hw | hw
        · exact Or.inr hw
        · rcases hW hw with hw | hw
          · exact Or.inr ⟨a', mem_set_self _ _ _ hlt, hw⟩
          · exact Or.inl (Or.inl hw)
    · exact Or.inl (Or.inl hr)
  · intro x hx hb hc
    rcases List.mem_or_eq_of_mem_set hx with hx | hx
    · exact h.note x hx hb hc
    · subst hx; exact hB hb hc
  · intro x hx
    rcases List.mem_or_eq_of_mem_set hx with hx | hx
    · exact h.aok x hx
    · subst hx; exact hOk

theorem cmdsOf_enq_nil (s : St) (id i q : Nat) (h : cmdsAt (updQ (enqQu id) i s.qs) q = []) : cmdsAt s.qs q = [] := by
  by_cases hi : i < s.qs.length
  · by_cases hq : q = i
    · subst hq; rw [cmdsAt_enq _ _ _ hi] at h; simp at h
    · rwa [cmdsAt_updQ_ne _ _ _ _ hq] at h
  · rwa [cmdsAt_enq_oob _ _ _ hi] at h

theorem inv_step_app (s s' : St) (j : Nat) (h : Inv s) (hs : step s (.app j) = some s') : Inv s' := by
  simp only [step] at hs
  cases hj : s.apps[j]? with
  | none => simp [hj] at hs
  | some a =>
    simp only [hj] at hs
    have hlt := lt_of_get _ _ _ hj
    have hmem := mem_of_get _ _ _ hj
    have hok := h.aok a hmem
    unfold stepApp at hs
    split at hs
    · -- idle
      rename_i hpc
      split at hs
      · simp at hs
      · -- enqueue: append
        rename_i q rest hsc
        injection hs with hs; subst hs
        have hok' := hok.ok; rw [hsc] at hok'
        constructor
        · exact h.run_iff
        · exact h.pend_run
        · intro q' _
          exact Or.inr ⟨_, mem_set_self _ _ _ hlt, Or.inr (Or.inl rfl)⟩
        · intro x hx hb hc
          rcases List.mem_or_eq_of_mem_set hx with hx | hx
          · exact h.note x hx hb (cmdsOf_enq_nil s _ _ _ hc)
          · subst hx; simp [blockedEmpty] at hb
        · intro x hx
          rcases List.mem_or_eq_of_mem_set hx with hx | hx
          · exact h.aok x hx
          · subst hx
            exact ⟨by simp [inDrain], okScript_tail _ _ hok', fun _ => okScript_enq_ne _ _ hok'⟩
      · -- drain: subscribe
        rename_i q rest hsc
        injection hs with hs; subst hs
        have hok' := hok.ok; rw [hsc] at hok'
        refine inv_app_set s j a _ s.r hj (Or.inl rfl) (fun _ => Or.inl (Or.inr (Or.inr (Or.inl rfl)))) ?_ ?_ h
        · intro hb; simp [blockedEmpty] at hb
        · exact ⟨fun _ => rfl, okScript_tail _ _ hok', by simp⟩
    · -- enqN: NotifyAllSubscribers
      rename_i hpc
      injection hs with hs; subst hs
      have hne := hok.enqN_ne hpc
      constructor
      · exact h.run_iff
      · exact h.pend_run
      · intro q' _
        refine Or.inr ⟨notify1 a.q { a with pc := .idle }, ?_, ?_⟩
        · exact List.mem_map.mpr ⟨_, mem_set_self _ _ _ hlt, rfl⟩
        · exact notify1_will _ _ (Or.inl ⟨rfl, hne⟩)
      · intro x hx hb hc
        obtain ⟨y, hy, rfl⟩ := List.mem_map.mp hx
        obtain ⟨heq, _⟩ := notify1_blocked _ _ hb
        rw [heq] at hb hc ⊢
        rcases List.mem_or_eq_of_mem_set hy with hy | hy
        · exact h.note y hy hb hc
        · subst hy; simp [blockedEmpty] at hb
      · intro x hx
        obtain ⟨y, hy, rfl⟩ := List.mem_map.mp hx
        apply notify1_ok
        rcases List.mem_or_eq_of_mem_set hy with hy | hy
        · exact h.aok y hy
        · subst hy; exact ⟨by simp [inDrain], hok.ok, by simp⟩
    · -- sig
      rename_i hpc
      have hsub := hok.subd (Or.inl hpc)
      split at hs
      · injection hs with hs; subst hs
        refine inv_app_set s j a _ .tick hj (Or.inr rfl) (fun _ => Or.inr rfl) ?_ ?_ h
        · intro hb; simp [blockedEmpty] at hb
        · exact ⟨fun _ => hsub, hok.ok, by simp⟩
      · injection hs with hs; subst hs
        refine inv_app_set s j a _ s.r hj (Or.inl rfl) (fun _ => Or.inl (Or.inr (Or.inr (Or.inr rfl)))) ?_ ?_ h
        · intro hb; simp [blockedEmpty] at hb
        · exact ⟨fun _ => hsub, hok.ok, by simp⟩
    · -- sending
      rename_i hpc
      have hsub := hok.subd (Or.inr (Or.inl hpc))
      split at hs
      · injection hs with hs; subst hs
        refine inv_app_set s j a _ .tick hj (Or.inr rfl) (fun _ => Or.inr rfl) ?_ ?_ h
        · intro hb; simp [blockedEmpty] at hb
        · exact ⟨fun _ => hsub, hok.ok, by simp⟩
      · simp at hs
    · -- chk
      rename_i hpc
      have hsub := hok.subd (Or.inr (Or.inr (Or.inl hpc)))
      have hnw : ¬ willSignal a := by simp [willSignal, hpc]
      split at hs
      · injection hs with hs; subst hs
        refine inv_app_set s j a _ s.r hj (Or.inl rfl) (fun hw => absurd hw hnw) ?_ ?_ h
        · intro hb; simp [blockedEmpty] at hb
        · exact ⟨by simp [inDrain], hok.ok, by simp⟩
      · rename_i hne
        injection hs with hs; subst hs
        refine inv_app_set s j a _ s.r hj (Or.inl rfl) (fun hw => absurd hw hnw) ?_ ?_ h
        · intro _ hc; exact absurd hc hne
        · exact ⟨fun _ => hsub, hok.ok, by simp⟩
    · -- toWait
      rename_i hpc
      have hsub := hok.subd (Or.inr (Or.inr (Or.inr (Or.inl hpc))))
      have hnw : ¬ willSignal a := by simp [willSignal, hpc]
      split at hs
      · injection hs with hs; subst hs
        refine inv_app_set s j a _ s.r hj (Or.inl rfl) (fun hw => absurd hw hnw) ?_ ?_ h
        · intro hb; simp [blockedEmpty] at hb
        · exact ⟨fun _ => hsub, hok.ok, by simp⟩
      · rename_i htk
        injection hs with hs; subst hs
        refine inv_app_set s j a _ s.r hj (Or.inl rfl) (fun hw => absurd hw hnw) ?_ ?_ h
        · intro _ hc
          exact h.note a hmem (Or.inl ⟨hpc, by simpa using htk⟩) hc
        · exact ⟨fun _ => hsub, hok.ok, by simp⟩
    · simp at hs

theorem inv_step_async (s s' : St) (h : Inv s) (hs : step s .async = some s') : Inv s' := by
  obtain ⟨h1, h2, h3, h4, h5⟩ := h
  simp only [step] at hs
  split at hs
  · simp at hs
  · -- tick: Pause; TickLater; Continue
    split at hs
    · simp at hs
    · injection hs with hs; subst hs
      constructor
      · exact h1
      · exact h2
      · intro q _; exact Or.inl (Or.inr (Or.inl ⟨rfl, Or.inl rfl⟩))
      · exact h4
      · exact h5
  · -- chkFlag
    rename_i hr
    split at hs
    · rename_i hrun
      injection hs with hs; subst hs
      have hne := h1.mp hrun
      constructor
      · exact h1
      · intro _; exact hrun
      · intro q hq
        rcases h3 q hq with hsv | hw
        · refine Or.inl ?_
          rcases hsv with hsv | hsv | hsv
          · rw [hr] at hsv; cases hsv
          · refine Or.inr (Or.inl ⟨hsv.1, ?_⟩)
            show _ ∨ _ ∨ _ ∨ _ ∨ _
            cases he : s.e <;> simp_all [isTickPc]
          · exact Or.inr (Or.inr hsv)
        · exact Or.inr hw
      · exact h4
      · exact h5
    · rename_i hrun
      injection hs with hs; subst hs
      have hnone : s.e = .none := by
        cases he : s.e <;> first | rfl | (exfalso; exact hrun (h1.mpr (by simp [he])))
      constructor
      · simp
      · intro _; rfl
      · intro q hq
        rcases h3 q hq with hsv | hw
        · refine Or.inl ?_
          rcases hsv with hsv | hsv | hsv
          · rw [hr] at hsv; cases hsv
          · exact Or.inr (Or.inl ⟨hsv.1, Or.inr (Or.inl rfl)⟩)
          · simp [midTick, hnone] at hsv
        · exact Or.inr hw
      · intro a ha hb hc
        have := h4 a ha hb hc
        rw [hnone] at this; cases this
      · exact h5

theorem inv_step_eng (s s' : St) (h : Inv s) (hs : step s .eng = some s') : Inv s' := by
  obtain ⟨h1, h2, h3, h4, h5⟩ := h
  simp only [step] at hs
  split at hs
  · simp at hs
  · -- start
    rename_i he
    injection hs with hs; subst hs
    constructor
    · simp_all
    · exact h2
    · intro q hq
      rcases h3 q hq with hsv | hw
      · refine Or.inl ?_
        rcases hsv with hsv | hsv | hsv
        · exact Or.inl hsv
        · exact Or.inr (Or.inl ⟨hsv.1, Or.inr (Or.inr (Or.inl rfl))⟩)
        · simp [midTick, he] at hsv
      · exact Or.inr hw
    · intro a ha hb hc
      have := h4 a ha hb hc
      rw [he] at this; cases this
    · exact h5
  · -- loop
    rename_i he
    split at hs
    · injection hs with hs; subst hs
      constructor
      · simp_all
      · exact h2
      · intro q _; exact Or.inl (Or.inr (Or.inr (Or.inr (Nat.zero_le _))))
      · intro a ha hb hc
        have := h4 a ha hb hc
        rw [he] at this; cases this
      · exact h5
    · rename_i hev
      injection hs with hs; subst hs
      constructor
      · simp_all
      · exact h2
      · intro q hq
        rcases h3 q hq with hsv | hw
        · refine Or.inl ?_
          rcases hsv with hsv | hsv | hsv
          · exact Or.inl hsv
          · exact absurd hsv.1 hev
          · simp [midTick, he] at hsv
        · exact Or.inr hw
      · intro a ha hb hc
        have := h4 a ha hb hc
        rw [he] at this; cases this
      · exact h5
  · -- deq i
    rename_i i he
    split at hs
    · rename_i hi
      split at hs
      · -- queue i empty: next queue
        rename_i hemp
        injection hs with hs; subst hs
        constructor
        · simp_all
        · exact h2
        · intro q hq
          rcases h3 q hq with hsv | hw
          · refine Or.inl ?_
            rcases hsv with hsv | hsv | hsv
            · exact Or.inl hsv
            · exact Or.inr (Or.inl ⟨hsv.1, Or.inr (Or.inr (Or.inr (Or.inl rfl)))⟩)
            · refine Or.inr (Or.inr ?_)
              simp only [midTick, he] at hsv
              rcases hsv with hsv | hsv
              · exact Or.inl hsv
              · refine Or.inr ?_
                have : q ≠ i := by intro hqi; subst hqi; exact hq hemp
                show i + 1 ≤ q
                omega
          · exact Or.inr hw
        · intro a ha hb hc
          have := h4 a ha hb hc
          rw [he] at this; cases this
        · exact h5
      · -- Dequeue: removal
        injection hs with hs; subst hs
        constructor
        · simp_all
        · exact h2
        · intro q _; exact Or.inl (Or.inr (Or.inr rfl))
        · intro a ha hb hc
          by_cases hq : a.q = i
          · rw [hq]
          · have hc' : cmdsOf s a.q = [] := by
              simp only [cmdsOf] at hc ⊢
              rwa [cmdsAt_updQ_ne _ _ _ _ hq] at hc
            have := h4 a ha hb hc'
            rw [he] at this; cases this
        · exact h5
    · -- end of the tick
      rename_i hi
      injection hs with hs; subst hs
      constructor
      · simp_all
      · exact h2
      · intro q hq
        have hlt : q < s.qs.length := cmdsAt_ne_nil_lt _ _ hq
        rcases h3 q hq with hsv | hw
        · refine Or.inl ?_
          rcases hsv with hsv | hsv | hsv
          · exact Or.inl hsv
          · exact Or.inr (Or.inl ⟨by simp [hsv.1], Or.inr (Or.inr (Or.inl rfl))⟩)
          · simp only [midTick, he] at hsv
            rcases hsv with hsv | hsv
            · exact Or.inr (Or.inl ⟨by simp [hsv], Or.inr (Or.inr (Or.inl rfl))⟩)
            · exfalso; omega
        · exact Or.inr hw
      · intro a ha hb hc
        have := h4 a ha hb hc
        rw [he] at this; cases this
      · exact h5
  · -- notify i
    rename_i i he
    injection hs with hs; subst hs
    constructor
    · simp_all
    · exact h2
    · intro q hq
      rcases h3 q hq with hsv | hw
      · refine Or.inl ?_
        rcases hsv with hsv | hsv | hsv
        · exact Or.inl hsv
        · exact Or.inr (Or.inl ⟨hsv.1, Or.inr (Or.inr (Or.inr (Or.inl rfl)))⟩)
        · simp only [midTick, he] at hsv
          exact Or.inr (Or.inr (Or.inl hsv))
      · obtain ⟨a, ha, hw⟩ := hw
        exact Or.inr ⟨notify1 i a, List.mem_map.mpr ⟨a, ha, rfl⟩, notify1_will _ _ hw⟩
    · intro x hx hb hc
      obtain ⟨y, hy, rfl⟩ := List.mem_map.mp hx
      obtain ⟨heq, hnot⟩ := notify1_blocked _ _ hb
      rw [heq] at hb hc
      exfalso
      have hsub : y.subscribed = true := (h5 y hy).subd (by
        rcases hb with hb | hb
        · exact Or.inr (Or.inr (Or.inr (Or.inl hb.1)))
        · exact Or.inr (Or.inr (Or.inr (Or.inr hb))))
      have := h4 y hy hb hc
      rw [he] at this
      injection this with this
      exact hnot ⟨hsub, this.symm⟩
    · intro x hx
      obtain ⟨y, hy, rfl⟩ := List.mem_map.mp hx
      exact notify1_ok _ _ (h5 y hy)
  · -- afterRun
    rename_i he
    injection hs with hs; subst hs
    constructor
    · simp_all
    · exact h2
    · intro q hq
      rcases h3 q hq with hsv | hw
      · refine Or.inl ?_
        rcases hsv with hsv | hsv | hsv
        · exact Or.inl hsv
        · refine Or.inr (Or.inl ⟨hsv.1, ?_⟩)
          have hl := hsv.2
          simp only [willLook, he, isTickPc] at hl
          rcases hl with hl | hl | hl | hl | hl
          · exact Or.inl hl
          · cases hl
          · cases hl
          · cases hl
          · exact Or.inr (Or.inr (Or.inr (Or.inr ⟨Or.inr rfl, hl.2⟩)))
        · simp [midTick, he] at hsv
      · exact Or.inr hw
    · intro a ha hb hc
      have := h4 a ha hb hc
      rw [he] at this; cases this
    · exact h5
  · -- clear
    rename_i he
    split at hs
    · rename_i hp
      injection hs with hs; subst hs
      constructor
      · simp_all
      · intro hf; cases hf
      · intro q hq
        rcases h3 q hq with hsv | hw
        · refine Or.inl ?_
          rcases hsv with hsv | hsv | hsv
          · exact Or.inl hsv
          · exact Or.inr (Or.inl ⟨hsv.1, Or.inr (Or.inr (Or.inl rfl))⟩)
          · simp [midTick, he] at hsv
        · exact Or.inr hw
      · intro a ha hb hc
        have := h4 a ha hb hc
        rw [he] at this; cases this
      · exact h5
    · rename_i hp
      injection hs with hs; subst hs
      constructor
      · simp
      · intro hf; exact absurd hf hp
      · intro q hq
        rcases h3 q hq with hsv | hw
        · refine Or.inl ?_
          rcases hsv with hsv | hsv | hsv
          · exact Or.inl hsv
          · refine Or.inr (Or.inl ⟨hsv.1, ?_⟩)
            have hl := hsv.2
            simp only [willLook, he, isTickPc] at hl
            rcases hl with hl | hl | hl | hl | hl
            · exact Or.inl hl
            · cases hl
            · cases hl
            · cases hl
            · exact absurd hl.2 hp
          · simp [midTick, he] at hsv
        · exact Or.inr hw
      · intro a ha hb hc
        have := h4 a ha hb hc
        rw [he] at this; cases this
      · exact h5

theorem inv_step (s s' : St) (t : Th) (h : Inv s) (hs : step s t = some s') : Inv s' := by
  cases t with
  | app j => exact inv_step_app s s' j h hs
  | async => exact inv_step_async s s' h hs
  | eng => exact inv_step_eng s s' h hs

theorem inv_reach {s : St} (h : Reach s) : Inv s := by
  induction h with
  | init scripts nq hok => exact inv_init scripts nq hok
  | step t _ hs ih => exact inv_step _ _ t ih hs

/-! ### deadlock freedom -/

theorem will_moves (s : St) (k : Nat) (b : App) (hk : s.apps[k]? = some b) (hr : s.r = .idle) (hw : willSignal b) :
    step s (.app k) ≠ none := by
  simp only [step, hk]
  unfold stepApp
  rcases hw with ⟨hpc, hsc⟩ | hpc | hpc | hpc
  · simp only [hpc]
    cases hb : b.script with
    | nil => exact absurd hb hsc
    | cons op rest => cases op <;> simp
  · simp [hpc]
  · simp [hpc, hr]
  · simp [hpc, hr]

theorem no_stuck_of_inv (s : St) (h : Inv s) (hst : stuck s) : finished s := by
  have he := hst .eng
  have hr := hst .async
  have he' : s.e = .none := by
    cases hee : s.e <;> simp only [step, hee] at he
    · rfl
    all_goals ((repeat' (split at he)) <;> simp at he)
  have hr' : s.r = .idle := by
    cases hrr : s.r <;> simp [step, hrr, he', isTickPc] at hr
    · rfl
    · split at hr <;> simp at hr
  intro a ha
  obtain ⟨j, hj⟩ := List.mem_iff_getElem?.mp ha
  have hstep := hst (.app j)
  simp only [step, hj] at hstep
  unfold stepApp at hstep
  cases hpc : a.pc <;> simp only [hpc] at hstep
  · -- idle
    refine ⟨hpc, ?_⟩
    cases hsc : a.script with
    | nil => rfl
    | cons op rest => cases op <;> simp [hsc] at hstep
  · simp at hstep
  · split at hstep <;> simp at hstep
  · simp [hr'] at hstep
  · split at hstep <;> simp at hstep
  · split at hstep <;> simp at hstep
  · -- waiting
    exfalso
    by_cases hc : cmdsOf s a.q = []
    · have := h.note a ha (Or.inr hpc) hc
      rw [he'] at this; cases this
    · rcases h.work a.q hc with hsv | ⟨b, hb, hw⟩
      · rcases hsv with hsv | hsv | hsv
        · rw [hr'] at hsv; cases hsv
        · have hl := hsv.2
          simp [willLook, hr', he', isTickPc] at hl
        · simp [midTick, he'] at hsv
      · obtain ⟨k, hk⟩ := List.mem_iff_getElem?.mp hb
        exact will_moves s k b hk hr' hw (hst (.app k))

/-! ### FIFO per queue -/

def QFifo (q : Qu) : Prop := q.sub = q.done ++ q.cmds

theorem mem_updQ (f : Qu → Qu) (i : Nat) (l : List Qu) (x : Qu) (h : x ∈ updQ f i l) :
    x ∈ l ∨ ∃ y, y ∈ l ∧ x = f y := by
  induction l generalizing i with
  | nil => simp [updQ] at h
  | cons q qs ih =>
    cases i with
    | zero =>
      simp only [updQ, List.mem_cons] at h
      rcases h with h | h
      · exact Or.inr ⟨q, by simp, h⟩
      · exact Or.inl (by simp [h])
    | succ i =>
      simp only [updQ, List.mem_cons] at h
      rcases h with h | h
      · exact Or.inl (by simp [h])
      · rcases ih i h with h | ⟨y, hy, hxy⟩
        · exact Or.inl (by simp [h])
        · exact Or.inr ⟨y, by simp [hy], hxy⟩

theorem qfifo_enq (id : Nat) (q : Qu) (h : QFifo q) : QFifo (enqQu id q) := by
  simp [QFifo, enqQu] at h ⊢; rw [h]; simp

theorem qfifo_deq (q : Qu) (h : QFifo q) : QFifo (deqQu q) := by
  unfold deqQu
  split
  · exact h
  · rename_i c cs hc
    simp [QFifo, hc] at h ⊢; exact h

theorem qs_step (s s' : St) (t : Th) (hs : step s t = some s') :
    s'.qs = s.qs ∨ (∃ i, s'.qs = updQ (enqQu s.nextId) i s.qs) ∨
    (∃ i, s'.qs = updQ deqQu i s.qs ∧ s.e = .deq i ∧ cmdsOf s i ≠ [] ∧ t = .eng) := by
  cases t with
  | app j =>
    simp only [step] at hs
    cases hj : s.apps[j]? with
    | none => simp [hj] at hs
    | some a =>
      simp only [hj] at hs
      unfold stepApp at hs
      split at hs
      · split at hs
        · simp at hs
        · injection hs with hs; subst hs; exact Or.inr (Or.inl ⟨_, rfl⟩)
        · injection hs with hs; subst hs; exact Or.inl rfl
      · injection hs with hs; subst hs; exact Or.inl rfl
      · split at hs <;> (injection hs with hs; subst hs; exact Or.inl rfl)
      · split at hs
        · injection hs with hs; subst hs; exact Or.inl rfl
        · simp at hs
      · split at hs <;> (injection hs with hs; subst hs; exact Or.inl rfl)
      · split at hs <;> (injection hs with hs; subst hs; exact Or.inl rfl)
      · simp at hs
  | async =>
    simp only [step] at hs
    split at hs
    · simp at hs
    · split at hs
      · simp at hs
      · injection hs with hs; subst hs; exact Or.inl rfl
    · split at hs <;> (injection hs with hs; subst hs; exact Or.inl rfl)
  | eng =>
    simp only [step] at hs
    split at hs
    · simp at hs
    · injection hs with hs; subst hs; exact Or.inl rfl
    · split at hs <;> (injection hs with hs; subst hs; exact Or.inl rfl)
    · rename_i i he
      split at hs
      · split at hs
        · injection hs with hs; subst hs; exact Or.inl rfl
        · rename_i hne
          injection hs with hs; subst hs; exact Or.inr (Or.inr ⟨i, rfl, he, hne, rfl⟩)
      · injection hs with hs; subst hs; exact Or.inl rfl
    · injection hs with hs; subst hs; exact Or.inl rfl
    · injection hs with hs; subst hs; exact Or.inl rfl
    · split at hs <;> (injection hs with hs; subst hs; exact Or.inl rfl)

theorem qfifo_step (s s' : St) (t : Th) (h : ∀ q ∈ s.qs, QFifo q) (hs : step s t = some s') : ∀ q ∈ s'.qs, QFifo q := by
  intro q hq
  rcases qs_step s s' t hs with he | ⟨i, he⟩ | ⟨i, he, _⟩ <;> rw [he] at hq
  · exact h q hq
  · rcases mem_updQ _ _ _ _ hq with hq | ⟨y, hy, rfl⟩
    · exact h q hq
    · exact qfifo_enq _ _ (h y hy)
  · rcases mem_updQ _ _ _ _ hq with hq | ⟨y, hy, rfl⟩
    · exact h q hq
    · exact qfifo_deq _ (h y hy)

theorem qfifo_reachAny {s : St} (h : ReachAny s) : ∀ q ∈ s.qs, QFifo q := by
  induction h with
  | init scripts nq =>
    intro q hq
    simp only [init, List.mem_replicate] at hq
    rw [hq.2]; rfl
  | step t _ hs ih => exact qfifo_step _ _ t ih hs

theorem reachAny_of_reach {s : St} (h : Reach s) : ReachAny s := by
  induction h with
  | init scripts nq _ => exact ReachAny.init scripts nq
  | step t _ hs ih => exact ReachAny.step t ih hs

/-! ### termination measure -/

/-- `w` for every element of the list (a product written as a sum, so that the weights stay linear) -/
def wsum {α : Type} (w : Nat) : List α → Nat
  | [] => 0
  | _ :: t => w + wsum w t

theorem wsum_append {α : Type} (w : Nat) (l : List α) (x : α) : wsum w (l ++ [x]) = wsum w l + w := by
  induction l with
  | nil => simp [wsum]
  | cons a t ih => simp only [List.cons_append, wsum, ih]; omega

/-- weight of a queued tick event / of the progress flag of the running tick (`m` queues) -/
def EW (m : Nat) : Nat := m + 2
/-- weight of one queued command (`n` threads: one `NotifyAllSubscribers` wakes up to `n` waiters) -/
def CW (n m : Nat) : Nat := 2 * n + m + 3
/-- weight of one API call still in a script -/
def SW (n m : Nat) : Nat := 4 * n + 2 * m + 17
def rankA (n m : Nat) : APc → Nat
  | .idle => 0 | .waiting => 0 | .toWait => 1 | .chk => 2 | .enqN => 2 * n + 1 | .sending => m + 11 | .sig => m + 12
def rankR (m : Nat) : RPc → Nat
  | .idle => 0 | .chkFlag => 5 | .tick => m + 8
def rankE (n m : Nat) : EPc → Nat
  | .none => 0 | .clear => 1 | .afterRun => 2 | .loop => 3 | .start => 4
  | .deq i => 4 + (m - i) | .notify i => 5 + 2 * n + (m - (i + 1))
def bw (b : Bool) (w : Nat) : Nat := if b then w else 0
def appM (n m : Nat) (a : App) : Nat := wsum (SW n m) a.script + rankA n m a.pc + bw a.token 2
def appsM (n m : Nat) (l : List App) : Nat := (l.map (appM n m)).sum
def qsM (n m : Nat) (l : List Qu) : Nat := (l.map fun q => wsum (CW n m) q.cmds).sum

/-- weighted lexicographic-style measure: API calls left in the scripts, queued commands, then the
    per-thread program-counter ranks and the pending wake-up resources; the weights grow with the
    number of threads and queues (one dequeue can wake every thread, one tick visits every queue) -/
def measure (s : St) : Nat :=
  appsM s.apps.length s.qs.length s.apps + qsM s.apps.length s.qs.length s.qs + rankR s.qs.length s.r +
    bw s.evt (EW s.qs.length) + bw s.prog (EW s.qs.length) + bw s.pend 3 + rankE s.apps.length s.qs.length s.e

theorem sum_map_set {α : Type} (f : α → Nat) (l : List α) (j : Nat) (a a' : α) (hj : l[j]? = some a) :
    ((l.set j a').map f).sum + f a = (l.map f).sum + f a' := by
  induction l generalizing j with
  | nil => simp at hj
  | cons x t ih =>
    cases j with
    | zero =>
      simp only [List.getElem?_cons_zero] at hj
      injection hj with hj; subst hj
      simp only [List.set_cons_zero, List.map_cons, List.sum_cons]; omega
    | succ j =>
      simp only [List.getElem?_cons_succ] at hj
      have := ih j hj
      simp only [List.set_cons_succ, List.map_cons, List.sum_cons]; omega

theorem appsM_set (n m : Nat) (l : List App) (j : Nat) (a a' : App) (hj : l[j]? = some a) :
    appsM n m (l.set j a') + appM n m a = appsM n m l + appM n m a' :=
  sum_map_set _ l j a a' hj

theorem appM_notify1 (n m q : Nat) (y : App) : appM n m (notify1 q y) ≤ appM n m y + 2 := by
  unfold notify1
  split
  · split
    · rename_i hw; simp only [appM, hw, rankA]; omega
    · cases ht : y.token <;> simp only [appM, bw, ht] <;> simp
  · omega

theorem appsM_notify (n m q : Nat) (l : List App) : appsM n m (notifyAll q l) ≤ appsM n m l + 2 * l.length := by
  unfold appsM notifyAll
  induction l with
  | nil => simp
  | cons y t ih =>
    have := appM_notify1 n m q y
    simp only [List.map_cons, List.sum_cons, List.length_cons]; omega

theorem qsM_enq (n m id i : Nat) (l : List Qu) : qsM n m (updQ (enqQu id) i l) ≤ qsM n m l + CW n m := by
  unfold qsM
  induction l generalizing i with
  | nil => simp [updQ]
  | cons x t ih =>
    cases i with
    | zero => simp only [updQ, List.map_cons, List.sum_cons, enqQu, wsum_append]; omega
    | succ i => have := ih i; simp only [updQ, List.map_cons, List.sum_cons]; omega

theorem qsM_deq (n m i : Nat) (l : List Qu) (h : cmdsAt l i ≠ []) : qsM n m (updQ deqQu i l) + CW n m = qsM n m l := by
  unfold qsM
  induction l generalizing i with
  | nil => simp [cmdsAt] at h
  | cons x t ih =>
    cases i with
    | zero =>
      simp only [cmdsAt, List.getElem?_cons_zero] at h
      cases hc : x.cmds with
      | nil => exact absurd hc h
      | cons c cs => simp only [updQ, List.map_cons, List.sum_cons, deqQu, hc, wsum]; omega
    | succ i =>
      have := ih i (by simpa [cmdsAt] using h)
      simp only [updQ, List.map_cons, List.sum_cons]; omega

theorem measure_step_app (s s' : St) (j : Nat) (hs : step s (.app j) = some s') : measure s' < measure s := by
  simp only [step] at hs
  cases hj : s.apps[j]? with
  | none => simp [hj] at hs
  | some a =>
    simp only [hj] at hs
    have hset := fun a' => appsM_set s.apps.length s.qs.length s.apps j a a' hj
    unfold stepApp at hs
    split at hs
    · rename_i hpc
      split at hs
      · simp at hs
      · rename_i q rest hsc
        injection hs with hs; subst hs
        have h1 := hset { a with pc := .enqN, script := rest, q := q }
        have h2 := qsM_enq s.apps.length s.qs.length s.nextId q s.qs
        simp only [measure, List.length_set, updQ_length]
        simp only [appM, hpc, hsc, wsum, rankA, SW, CW] at h1 h2
        omega
      · rename_i q rest hsc
        injection hs with hs; subst hs
        have h1 := hset { a with pc := .sig, script := rest, q := q, subscribed := true, token := false }
        simp only [measure, List.length_set]
        simp only [appM, hpc, hsc, wsum, rankA, SW, bw] at h1
        simp only [Bool.false_eq_true, if_false] at h1
        omega
    · rename_i hpc
      injection hs with hs; subst hs
      have h1 := hset { a with pc := .idle }
      have h2 := appsM_notify s.apps.length s.qs.length a.q (s.apps.set j { a with pc := .idle })
      simp only [measure, notifyAll, List.length_map, List.length_set]
      simp only [notifyAll, List.length_set] at h2
      simp only [appM, hpc, rankA] at h1
      omega
    · rename_i hpc
      split at hs
      · rename_i hr
        injection hs with hs; subst hs
        have h1 := hset { a with pc := .chk }
        simp only [measure, List.length_set, hr, rankR]
        simp only [appM, hpc, rankA] at h1
        omega
      · injection hs with hs; subst hs
        have h1 := hset { a with pc := .sending }
        simp only [measure, List.length_set]
        simp only [appM, hpc, rankA] at h1
        omega
    · rename_i hpc
      split at hs
      · rename_i hr
        injection hs with hs; subst hs
        have h1 := hset { a with pc := .chk }
        simp only [measure, List.length_set, hr, rankR]
        simp only [appM, hpc, rankA] at h1
        omega
      · simp at hs
    · rename_i hpc
      split at hs
      · injection hs with hs; subst hs
        have h1 := hset { a with pc := .idle, subscribed := false, token := false, returned := a.returned + 1 }
        simp only [measure, List.length_set]
        simp only [appM, hpc, rankA, bw] at h1
        simp only [Bool.false_eq_true, if_false] at h1
        omega
      · injection hs with hs; subst hs
        have h1 := hset { a with pc := .toWait }
        simp only [measure, List.length_set]
        simp only [appM, hpc, rankA] at h1
        omega
    · rename_i hpc
      split at hs
      · rename_i htk
        injection hs with hs; subst hs
        have h1 := hset { a with pc := .chk, token := false }
        simp only [measure, List.length_set]
        simp only [appM, hpc, rankA, bw, htk] at h1
        simp only [Bool.false_eq_true, if_false, if_true] at h1
        omega
      · injection hs with hs; subst hs
        have h1 := hset { a with pc := .waiting }
        simp only [measure, List.length_set]
        simp only [appM, hpc, rankA] at h1
        omega
    · simp at hs

theorem measure_step_async (s s' : St) (hs : step s .async = some s') : measure s' < measure s := by
  simp only [step] at hs
  split at hs
  · simp at hs
  · rename_i hr
    split at hs
    · simp at hs
    · injection hs with hs; subst hs
      cases hev : s.evt <;> simp [measure, hr, rankR, bw, hev, EW] <;> omega
  · rename_i hr
    split at hs
    · injection hs with hs; subst hs
      cases hp : s.pend <;> simp [measure, hr, rankR, bw, hp] <;> omega
    · injection hs with hs; subst hs
      simp only [measure, hr, rankR, rankE]
      omega

theorem measure_step_eng (s s' : St) (hs : step s .eng = some s') : measure s' < measure s := by
  simp only [step] at hs
  split at hs
  · simp at hs
  · rename_i he
    injection hs with hs; subst hs
    simp [measure, he, rankE]
  · rename_i he
    split at hs
    · rename_i hev
      injection hs with hs; subst hs
      cases hp : s.prog <;> simp [measure, he, rankE, bw, hev, hp, EW] <;> omega
    · injection hs with hs; subst hs
      simp [measure, he, rankE]
  · rename_i i he
    split at hs
    · rename_i hi
      split at hs
      · injection hs with hs; subst hs
        simp only [measure, he, rankE]; omega
      · rename_i hne
        injection hs with hs; subst hs
        have h1 := qsM_deq s.apps.length s.qs.length i s.qs hne
        cases hp : s.prog <;> simp only [measure, he, rankE, bw, hp, updQ_length, EW] <;>
          simp only [CW] at h1 <;> simp <;> omega
    · injection hs with hs; subst hs
      cases hp : s.prog <;> cases hev : s.evt <;> simp [measure, he, rankE, bw, hp, hev] <;> omega
  · rename_i i he
    injection hs with hs; subst hs
    have h2 := appsM_notify s.apps.length s.qs.length i s.apps
    simp only [measure, he, rankE, notifyAll, List.length_map]
    simp only [notifyAll] at h2
    omega
  · rename_i he
    injection hs with hs; subst hs
    simp [measure, he, rankE]
  · rename_i he
    split at hs
    · rename_i hp
      injection hs with hs; subst hs
      simp [measure, he, rankE, bw, hp]
    · injection hs with hs; subst hs
      cases hp : s.pend <;> simp [measure, he, rankE, bw, hp] <;> omega

theorem measure_step (s s' : St) (t : Th) (hs : step s t = some s') : measure s' < measure s := by
  cases t with
  | app j => exact measure_step_app s s' j hs
  | async => exact measure_step_async s s' hs
  | eng => exact measure_step_eng s s' hs

end K






end C12
