import MgpuProofs.C16Fair
/-! # C16 — per-access liveness while accesses keep arriving: framework

* `wrun`: the infinite run of the closed world along an arbitrary schedule (accesses may arrive for ever);
* `NC`/`GInv`: no control traffic during the wait, plus the state invariants of the safety proofs;
* `Adv`/`AdvS`: "the access stays in its stage with a rank that does not grow / strictly falls, or has
  moved on"; closed under the `w`-fold iteration of a pipeline stage (`ri_iter`), hence under a tick;
* `leads_rank`: a stage whose rank never grows and strictly falls whenever the *helpful* kind of move
  (a function of the rank) is made leads to the next stage along every run in which the helpful kinds
  recur;
* the two FIFO stages (a lookup in the translation port's outgoing buffer reaches the service, a
  translated request in the bottom port's outgoing buffer reaches the memory). -/
namespace C16

theorem iter_rel {R : St → St → Prop} {f : St → St × Bool} (hr : ∀ s, R s s)
    (ht : ∀ a b d, R a b → R b d → R a d) (hf : ∀ s, R s (f s).1) : ∀ n s, R s (iter f n s).1 := by
  intro n
  induction n with
  | zero => intro s; exact hr s
  | succ n ih => intro s; exact ht _ _ _ (hf s) (ih (f s).1)

/-- no control traffic: nothing at the control port, not flushing -/
def NC (s : St) : Prop := s.ctlIn = [] ∧ s.flushing = false

/-- every move except the controller's -/
def HOp.noCtl : HOp → Bool
  | .flush => false
  | .restart => false
  | _ => true

theorem NC.of_same {s s' : St} (h : SameCtl s s') (nc : NC s) : NC s' :=
  ⟨by rw [h.1]; exact nc.1, by rw [h.2.2.2.1]; exact nc.2⟩

theorem tick_nc (c : Cfg) (s : St) (h : NC s) :
    (tick c s).1 = (iter (translate c) c.width (iter (parseTranslation c) c.width
      (iter (respond c) c.width s).1).1).1 := by
  rw [tick_eq]
  have hp := pipe_same c s
  have h0 : (pipe c s).1.ctlIn = [] := by rw [hp.1]; exact h.1
  rw [handleCtrl_idle _ h0]
  simp [pipe, h.2, runPipeline]

/-- moves of the environment at the level of the translator's state -/
def Op.env : Op → Bool
  | .tick => false
  | .ctl _ => false
  | _ => true

theorem step_nc (c : Cfg) (s : St) (o : Op) (ho : o.env = true) (h : NC s) : NC (step c s o) := by
  cases o <;> simp [Op.env] at ho <;> simp only [step] <;> (try split) <;> exact h

/-- all transactions have somebody waiting -/
def NE (s : St) : Prop := ∀ t ∈ s.txs, t.reqs ≠ []

/-- every translation reply ever delivered answers a lookup that was sent -/
def TL (s : St) : Prop := ∀ r ∈ s.tdel, r.rspTo < s.nextT

theorem TL.of {s s' : St} (h1 : s'.tdel = s.tdel) (h2 : s.nextT ≤ s'.nextT) (h : TL s) : TL s' := by
  intro r hr
  rw [h1] at hr
  exact Nat.lt_of_lt_of_le (h r hr) h2

theorem respond_nextT (c : Cfg) (s : St) : (respond c s).1.nextT = s.nextT := by
  unfold respond
  repeat' split
  all_goals rfl

theorem parse_nextT (c : Cfg) (s : St) : (parseTranslation c s).1.nextT = s.nextT := by
  unfold parseTranslation
  repeat' split
  all_goals rfl

theorem translate_nextT (c : Cfg) (s : St) : s.nextT ≤ (translate c s).1.nextT := by
  unfold translate
  repeat' split
  all_goals first | exact Nat.le_refl _ | exact Nat.le_succ _

/-- side condition on a translation reply the honest service delivers: it answers a lookup sent -/
def okT (s : St) : Op → Prop
  | .trsp r => r.rspTo < s.nextT
  | _ => True

theorem step_tl (c : Cfg) (s : St) (o : Op) (ho : o.env = true) (hk : okT s o) (h : TL s) : TL (step c s o) := by
  cases o with
  | tick => simp [Op.env] at ho
  | ctl k => simp [Op.env] at ho
  | trsp r =>
    simp only [step]
    split
    · intro r' hr'
      rcases List.mem_cons.mp hr' with rfl | h'
      · exact hk
      · exact h r' h'
    · exact h
  | access pid va pl => simp only [step]; split <;> exact h
  | brsp r => simp only [step]; split <;> exact h
  | drainTop => exact h
  | drainBot => exact h
  | drainTr => exact h
  | drainCtl => exact h

/-- the state invariants used below (all proved for every reachable state in the safety part) and `NC` -/
structure GInv (c : Cfg) (s : St) : Prop where
  u : UInv s
  b : BInv c s
  d : DInv s
  nc : NC s
  m : MInv c s
  tl : TL s

theorem respond_ginv (c : Cfg) (s : St) (h : GInv c s) : GInv c (respond c s).1 :=
  ⟨respond_uinv c s h.u, respond_binv c s h.b, respond_dinv c s h.d, h.nc.of_same (respond_same c s),
    respond_minv c s h.m, h.tl.of (respond_same c s).2.2.2.2.2.2.1 (Nat.le_of_eq (respond_nextT c s).symm)⟩
theorem parse_ginv (c : Cfg) (s : St) (h : GInv c s) : GInv c (parseTranslation c s).1 :=
  ⟨parseTranslation_uinv c s h.u, parseTranslation_binv c s h.b, parseTranslation_dinv c s h.d,
    h.nc.of_same (parseTranslation_same c s), parseTranslation_minv c s h.m,
    h.tl.of (parseTranslation_same c s).2.2.2.2.2.2.1 (Nat.le_of_eq (parse_nextT c s).symm)⟩
theorem translate_ginv (c : Cfg) (s : St) (h : GInv c s) : GInv c (translate c s).1 :=
  ⟨translate_uinv c s h.u, translate_binv c s h.b, translate_dinv c s h.d, h.nc.of_same (translate_same c s),
    translate_minv c s h.m, h.tl.of (translate_same c s).2.2.2.2.2.2.1 (translate_nextT c s)⟩
theorem step_ginv (c : Cfg) (s : St) (o : Op) (ho : o.env = true) (hk : okT s o) (h : GInv c s) :
    GInv c (step c s o) :=
  ⟨step_uinv c s o h.u, step_binv c s o h.b, step_dinv c s o h.d, step_nc c s o ho h.nc, step_minv c s o h.m,
    step_tl c s o ho hk h.tl⟩

theorem reach_ginv_u {c : Cfg} {e : Env} {w : CW} (hr : Reach c e w) : UInv w.s := by
  obtain ⟨ops, h⟩ := reach_run hr
  exact h ▸ run_uinv c ops

theorem reach_ginv {c : Cfg} {e : Env} {w : CW} (hr : Reach c e w) (nc : NC w.s) : GInv c w.s := by
  obtain ⟨ops, h⟩ := reach_run hr
  refine ⟨h ▸ run_uinv c ops, h ▸ run_binv c ops, h ▸ run_dinv c ops, nc, h ▸ run_minv c ops, ?_⟩
  intro r hr'
  obtain ⟨q, hq, rfl⟩ := (reach_winv hr).tT r hr'
  exact (reach_ginv_u hr).alt q hq

/-! ## stage relations -/

section adv
variable {β : Type} (P Q : St → Prop) (ρ : St → β) (lt : β → β → Prop)

/-- from `s` to `s'` the access has moved on (`Q`, stable), or stays in its stage (`P`) with a rank
    that did not grow -/
def Adv (s s' : St) : Prop :=
  (Q s → Q s') ∧ (P s → Q s' ∨ (P s' ∧ (lt (ρ s') (ρ s) ∨ ρ s' = ρ s)))

/-- … with a rank that fell -/
def AdvS (s s' : St) : Prop := (Q s → Q s') ∧ (P s → Q s' ∨ (P s' ∧ lt (ρ s') (ρ s)))

theorem Adv.refl (s : St) : Adv P Q ρ lt s s := ⟨id, fun h => Or.inr ⟨h, Or.inr rfl⟩⟩

variable {P Q ρ lt}

theorem Adv.trans (htr : ∀ x y z, lt x y → lt y z → lt x z) {a b d : St}
    (h1 : Adv P Q ρ lt a b) (h2 : Adv P Q ρ lt b d) : Adv P Q ρ lt a d := by
  refine ⟨fun h => h2.1 (h1.1 h), fun hp => ?_⟩
  rcases h1.2 hp with hq | ⟨hpb, hl⟩
  · exact Or.inl (h2.1 hq)
  · rcases h2.2 hpb with hq | ⟨hpd, hl2⟩
    · exact Or.inl hq
    · refine Or.inr ⟨hpd, ?_⟩
      rcases hl with hl | hl <;> rcases hl2 with hl2 | hl2
      · exact Or.inl (htr _ _ _ hl2 hl)
      · rw [hl2]; exact Or.inl hl
      · rw [← hl]; exact Or.inl hl2
      · exact Or.inr (hl2.trans hl)

theorem AdvS.andThen (htr : ∀ x y z, lt x y → lt y z → lt x z) {a b d : St}
    (h1 : AdvS P Q ρ lt a b) (h2 : Adv P Q ρ lt b d) : AdvS P Q ρ lt a d := by
  refine ⟨fun h => h2.1 (h1.1 h), fun hp => ?_⟩
  rcases h1.2 hp with hq | ⟨hpb, hl⟩
  · exact Or.inl (h2.1 hq)
  · rcases h2.2 hpb with hq | ⟨hpd, hl2⟩
    · exact Or.inl hq
    · refine Or.inr ⟨hpd, ?_⟩
      rcases hl2 with hl2 | hl2
      · exact htr _ _ _ hl2 hl
      · rw [hl2]; exact hl

theorem Adv.thenS (htr : ∀ x y z, lt x y → lt y z → lt x z) {a b d : St}
    (h1 : Adv P Q ρ lt a b) (h2 : AdvS P Q ρ lt b d) : AdvS P Q ρ lt a d := by
  refine ⟨fun h => h2.1 (h1.1 h), fun hp => ?_⟩
  rcases h1.2 hp with hq | ⟨hpb, hl⟩
  · exact Or.inl (h2.1 hq)
  · rcases h2.2 hpb with hq | ⟨hpd, hl2⟩
    · exact Or.inl hq
    · refine Or.inr ⟨hpd, ?_⟩
      rcases hl with hl | hl
      · exact htr _ _ _ hl2 hl
      · rw [← hl]; exact hl2

theorem AdvS.toAdv {a b : St} (h : AdvS P Q ρ lt a b) : Adv P Q ρ lt a b :=
  ⟨h.1, fun hp => (h.2 hp).imp id (fun x => ⟨x.1, Or.inl x.2⟩)⟩

end adv

section ri
variable {β : Type} {P Q : St → Prop} {ρ : St → β} {lt : β → β → Prop} {c : Cfg}

/-- `Adv` together with preservation of the invariants -/
def RI (c : Cfg) (P Q : St → Prop) (ρ : St → β) (lt : β → β → Prop) (s s' : St) : Prop :=
  GInv c s → GInv c s' ∧ Adv P Q ρ lt s s'

theorem RI.refl (c : Cfg) (s : St) : RI c P Q ρ lt s s := fun h => ⟨h, Adv.refl P Q ρ lt s⟩

theorem RI.trans (htr : ∀ x y z, lt x y → lt y z → lt x z) {a b d : St}
    (h1 : RI c P Q ρ lt a b) (h2 : RI c P Q ρ lt b d) : RI c P Q ρ lt a d := by
  intro hg
  obtain ⟨g1, a1⟩ := h1 hg
  obtain ⟨g2, a2⟩ := h2 g1
  exact ⟨g2, a1.trans htr a2⟩

/-- what a stage has to show: each pipeline function and each environment move respects it -/
structure StageOK (c : Cfg) (P Q : St → Prop) (ρ : St → β) (lt : β → β → Prop) : Prop where
  tr : ∀ x y z, lt x y → lt y z → lt x z
  fR : ∀ s, GInv c s → Adv P Q ρ lt s (respond c s).1
  fP : ∀ s, GInv c s → Adv P Q ρ lt s (parseTranslation c s).1
  fT : ∀ s, GInv c s → Adv P Q ρ lt s (translate c s).1
  env : ∀ s o, o.env = true → GInv c s → okT s o → Adv P Q ρ lt s (step c s o)

theorem StageOK.riR (h : StageOK c P Q ρ lt) (n : Nat) (s : St) : RI c P Q ρ lt s (iter (C16.respond c) n s).1 :=
  iter_rel (RI.refl c) (fun _ _ _ => RI.trans h.tr) (fun s hg => ⟨respond_ginv c s hg, h.fR s hg⟩) n s
theorem StageOK.riP (h : StageOK c P Q ρ lt) (n : Nat) (s : St) : RI c P Q ρ lt s (iter (parseTranslation c) n s).1 :=
  iter_rel (RI.refl c) (fun _ _ _ => RI.trans h.tr) (fun s hg => ⟨parse_ginv c s hg, h.fP s hg⟩) n s
theorem StageOK.riT (h : StageOK c P Q ρ lt) (n : Nat) (s : St) : RI c P Q ρ lt s (iter (translate c) n s).1 :=
  iter_rel (RI.refl c) (fun _ _ _ => RI.trans h.tr) (fun s hg => ⟨translate_ginv c s hg, h.fT s hg⟩) n s

theorem StageOK.tick (h : StageOK c P Q ρ lt) (s : St) (hg : GInv c s) :
    GInv c (tick c s).1 ∧ Adv P Q ρ lt s (tick c s).1 := by
  rw [tick_nc c s hg.nc]
  exact (RI.trans h.tr (h.riR c.width s) (RI.trans h.tr (h.riP c.width _) (h.riT c.width _))) hg

end ri

theorem tick_ginv (c : Cfg) (s : St) (hg : GInv c s) : GInv c (tick c s).1 := by
  rw [tick_nc c s hg.nc]
  have hr : ∀ n s, GInv c s → GInv c (iter (respond c) n s).1 :=
    fun n s => iter_rel (R := fun s s' => GInv c s → GInv c s') (fun _ h => h) (fun _ _ _ h1 h2 h => h2 (h1 h))
      (fun s h => respond_ginv c s h) n s
  have hp : ∀ n s, GInv c s → GInv c (iter (parseTranslation c) n s).1 :=
    fun n s => iter_rel (R := fun s s' => GInv c s → GInv c s') (fun _ h => h) (fun _ _ _ h1 h2 h => h2 (h1 h))
      (fun s h => parse_ginv c s h) n s
  have ht : ∀ n s, GInv c s → GInv c (iter (translate c) n s).1 :=
    fun n s => iter_rel (R := fun s s' => GInv c s → GInv c s') (fun _ h => h) (fun _ _ _ h1 h2 h => h2 (h1 h))
      (fun s h => translate_ginv c s h) n s
  exact ht _ _ (hp _ _ (hr _ _ hg))

/-! ## the closed world's moves at the level of the translator's state -/

theorem hstep_tick_s {c : Cfg} {e : Env} {w : CW} (hr : Reach c e w) :
    (hstep c e w .tick).s = (tick c w.s).1 := by
  cases ha : w.awake with
  | true => simp [hstep, ha]
  | false =>
    have := quiet_tick c w.s (reach_winv hr).noBad (reach_quiet' hr ha)
    simp [hstep, ha, this]

/-- a move other than the controller's leaves the translator's state alone, is a tick, or is one
    environment move (a reply delivered by the honest service answers a lookup that was sent) -/
theorem hstep_s_cases {c : Cfg} {e : Env} {w : CW} (hr : Reach c e w) (o : HOp) (ho : o.noCtl = true) :
    (hstep c e w o).s = w.s ∨ (hstep c e w o).s = (tick c w.s).1 ∨
    ∃ op : Op, op.env = true ∧ okT w.s op ∧ (hstep c e w o).s = step c w.s op ∧
      (op = .drainTr → o = .drainTr) ∧ (op = .drainBot → o = .drainBot) := by
  cases o with
  | flush => simp [HOp.noCtl] at ho
  | restart => simp [HOp.noCtl] at ho
  | tick => exact Or.inr (Or.inl (hstep_tick_s hr))
  | access pid va pl => exact Or.inr (Or.inr ⟨.access pid va pl, rfl, trivial, rfl, nofun, nofun⟩)
  | ansT j =>
    cases hq : w.envT with
    | nil => left; simp [hstep, hq]
    | cons q0 l =>
      by_cases hlt : w.s.trIn.length < c.width
      · right; right
        have hi : j % (q0 :: l).length < (q0 :: l).length := Nat.mod_lt _ (by simp)
        have hm : (q0 :: l).getD (j % (q0 :: l).length) q0 ∈ w.envT := by rw [hq]; exact getD_mem _ _ _ hi
        have hlt' := (reach_ginv_u hr).alt _ ((reach_winv hr).eT _ hm)
        exact ⟨.trsp ⟨((q0 :: l).getD (j % (q0 :: l).length) q0).tid,
          e.pt ((q0 :: l).getD (j % (q0 :: l).length) q0).pid ((q0 :: l).getD (j % (q0 :: l).length) q0).vpage⟩,
          rfl, hlt', by simp [hstep, hq, hlt], nofun, nofun⟩
      · left; simp [hstep, hq, hlt]
  | ansM j =>
    cases hq : w.envM with
    | nil => left; simp [hstep, hq]
    | cons q0 l =>
      by_cases hlt : w.s.botIn.length < c.width
      · right; right
        exact ⟨.brsp ⟨((q0 :: l).getD (j % (q0 :: l).length) q0).bid,
          e.md ((q0 :: l).getD (j % (q0 :: l).length) q0)⟩, rfl, trivial, by simp [hstep, hq, hlt], nofun, nofun⟩
      · left; simp [hstep, hq, hlt]
  | drainTop =>
    cases hq : w.s.topOut with
    | nil => left; simp [hstep, hq]
    | cons x l => right; right; exact ⟨.drainTop, rfl, trivial, by simp [hstep, hq], nofun, nofun⟩
  | drainBot =>
    cases hq : w.s.botOut with
    | nil => left; simp [hstep, hq]
    | cons x l => right; right; exact ⟨.drainBot, rfl, trivial, by simp [hstep, hq], nofun, fun _ => rfl⟩
  | drainTr =>
    cases hq : w.s.trOut with
    | nil => left; simp [hstep, hq]
    | cons x l => right; right; exact ⟨.drainTr, rfl, trivial, by simp [hstep, hq], fun _ => rfl, nofun⟩
  | drainCtl =>
    by_cases h : 0 < w.s.ctlOut
    · right; right; exact ⟨.drainCtl, rfl, trivial, by simp [hstep, h], nofun, nofun⟩
    · left; simp [hstep, h]

theorem hstep_ginv {c : Cfg} {e : Env} {w : CW} (hr : Reach c e w) (nc : NC w.s) (o : HOp)
    (ho : o.noCtl = true) : GInv c (hstep c e w o).s := by
  have hg := reach_ginv hr nc
  rcases hstep_s_cases hr o ho with h | h | ⟨op, h1, h2, h, _⟩ <;> rw [h]
  · exact hg
  · exact tick_ginv c _ hg
  · exact step_ginv c _ op h1 h2 hg

section stage
variable {β : Type} {P Q : St → Prop} {ρ : St → β} {lt : β → β → Prop} {c : Cfg}

theorem StageOK.hmove (h : StageOK c P Q ρ lt) {e : Env} {w : CW} (hr : Reach c e w) (nc : NC w.s)
    (o : HOp) (ho : o.noCtl = true) : Adv P Q ρ lt w.s (hstep c e w o).s := by
  have hg := reach_ginv hr nc
  rcases hstep_s_cases hr o ho with h' | h' | ⟨op, h1, h2, h', _⟩ <;> rw [h']
  · exact Adv.refl ..
  · exact (h.tick _ hg).2
  · exact h.env _ op h1 hg h2

end stage

/-! ## infinite runs -/

/-- the run of the closed world from `w0` along `sched` (any moves: accesses may arrive for ever) -/
def wrun (c : Cfg) (e : Env) (w0 : CW) (sched : Nat → HOp) : Nat → CW
  | 0 => w0
  | n + 1 => hstep c e (wrun c e w0 sched n) (sched n)

theorem wrun_reach {c : Cfg} {e : Env} {w0 : CW} (sched : Nat → HOp) (h0 : Reach c e w0) :
    ∀ n, Reach c e (wrun c e w0 sched n)
  | 0 => h0
  | n + 1 => Reach.step _ _ (wrun_reach sched h0 n)

theorem wrun_nc {c : Cfg} {e : Env} {w0 : CW} {sched : Nat → HOp} (h0 : Reach c e w0) (nc0 : NC w0.s)
    (hs : ∀ i, (sched i).noCtl = true) : ∀ n, NC (wrun c e w0 sched n).s
  | 0 => nc0
  | n + 1 => (hstep_ginv (wrun_reach sched h0 n) (wrun_nc h0 nc0 hs n) _ (hs n)).nc

/-- a stage whose rank never grows and falls whenever the helpful kind of move (`hk` of the rank) is
    made leads to the next stage if the helpful kind always recurs -/
theorem leads_rank {β : Type} (lt : β → β → Prop) (wf : WellFounded lt) (S : Nat → St) (kind : Nat → Nat)
    (P Q : St → Prop) (ρ : St → β) (hk : β → Nat)
    (hst : ∀ n, P (S n) → Q (S (n + 1)) ∨ (P (S (n + 1)) ∧
      (lt (ρ (S (n + 1))) (ρ (S n)) ∨ (ρ (S (n + 1)) = ρ (S n) ∧ kind n ≠ hk (ρ (S n))))))
    (fair : ∀ n b, ∃ m, n ≤ m ∧ kind m = hk b) :
    ∀ n, P (S n) → ∃ m, n ≤ m ∧ Q (S m) := by
  intro n hp
  refine wf.induction (C := fun x => ∀ n, P (S n) → ρ (S n) = x → ∃ m, n ≤ m ∧ Q (S m)) (ρ (S n)) ?_ n hp rfl
  intro x ih n hp hx
  obtain ⟨m, hm, hkm⟩ := fair n x
  have inner : ∀ d n, m = n + d → P (S n) → ρ (S n) = x → ∃ m', n ≤ m' ∧ Q (S m') := by
    intro d
    induction d with
    | zero =>
      intro n hmn hp hx
      rcases hst n hp with hq | ⟨hp', hl | ⟨_, hne⟩⟩
      · exact ⟨n + 1, Nat.le_succ _, hq⟩
      · obtain ⟨m', h1, h2⟩ := ih _ (hx ▸ hl) (n + 1) hp' rfl
        exact ⟨m', by omega, h2⟩
      · exfalso; apply hne; rw [hx, ← hkm, hmn]; rfl
    | succ d ihd =>
      intro n hmn hp hx
      rcases hst n hp with hq | ⟨hp', hl | ⟨he, _⟩⟩
      · exact ⟨n + 1, Nat.le_succ _, hq⟩
      · obtain ⟨m', h1, h2⟩ := ih _ (hx ▸ hl) (n + 1) hp' rfl
        exact ⟨m', by omega, h2⟩
      · obtain ⟨m', h1, h2⟩ := ihd (n + 1) (by omega) hp' (he.trans hx)
        exact ⟨m', by omega, h2⟩
  exact inner (m - n) n (by omega) hp hx

section stage2
variable {β : Type} {P Q : St → Prop} {ρ : St → β} {lt : β → β → Prop} {c : Cfg}

/-- the run-level statement of a stage -/
theorem StageOK.leads (h : StageOK c P Q ρ lt) (wf : WellFounded lt) (hk : β → Nat) {e : Env}
    (strict : ∀ w, Reach c e w → NC w.s → ∀ o, o.noCtl = true → o.kind = hk (ρ w.s) →
      AdvS P Q ρ lt w.s (hstep c e w o).s)
    {w0 : CW} {sched : Nat → HOp} (h0 : Reach c e w0) (nc0 : NC w0.s) (hs : ∀ i, (sched i).noCtl = true)
    (fair : ∀ n b, ∃ m, n ≤ m ∧ (sched m).kind = hk b) :
    ∀ n, P (wrun c e w0 sched n).s → ∃ m, n ≤ m ∧ Q (wrun c e w0 sched m).s := by
  refine leads_rank lt wf (fun n => (wrun c e w0 sched n).s) (fun n => (sched n).kind) P Q ρ hk ?_ fair
  intro n hp
  have hr := wrun_reach sched h0 n
  have nc := wrun_nc h0 nc0 hs n
  by_cases hkd : (sched n).kind = hk (ρ (wrun c e w0 sched n).s)
  · rcases (strict _ hr nc _ (hs n) hkd).2 hp with hq | ⟨hp', hl⟩
    · exact Or.inl hq
    · exact Or.inr ⟨hp', Or.inl hl⟩
  · rcases (h.hmove hr nc _ (hs n)).2 hp with hq | ⟨hp', hl | he⟩
    · exact Or.inl hq
    · exact Or.inr ⟨hp', Or.inl hl⟩
    · exact Or.inr ⟨hp', Or.inr ⟨he, hkd⟩⟩

end stage2

end C16
