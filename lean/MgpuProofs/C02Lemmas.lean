import MgpuModel.C02
/-! Helper lemmas for C02: last-writer-wins application, grouping by key, first-touch de-duplication. -/
namespace C02

theorem applyW_cons (w : Wr) (ws : List Wr) (f : St) : applyW (w :: ws) f = applyW ws (upd f w) := rfl

theorem applyW_append (a b : List Wr) (f : St) : applyW (a ++ b) f = applyW b (applyW a f) := by
  simp [applyW, List.foldl_append]

theorem applyW_congr_at (ws : List Wr) : ∀ (f g : St) (c : Nat × Nat), f c = g c →
    applyW ws f c = applyW ws g c := by
  induction ws with
  | nil => intro f g c h; exact h
  | cons w ws ih =>
    intro f g c h
    rw [applyW_cons, applyW_cons]
    apply ih
    simp only [upd, h]

theorem applyW_untouched (ws : List Wr) : ∀ (f : St) (c : Nat × Nat), (∀ w ∈ ws, w.cell ≠ c) →
    applyW ws f c = f c := by
  induction ws with
  | nil => intro f c _; rfl
  | cons w ws ih =>
    intro f c h
    rw [applyW_cons, ih _ c (fun x hx => h x (List.mem_cons_of_mem _ hx))]
    have : w.cell ≠ c := h w (List.mem_cons_self ..)
    simp only [upd]
    rw [if_neg (fun e => this e.symm)]

theorem applyW_filter (p : Wr → Bool) (ws : List Wr) : ∀ (f : St) (c : Nat × Nat),
    (∀ w ∈ ws, p w = false → w.cell ≠ c) → applyW (ws.filter p) f c = applyW ws f c := by
  induction ws with
  | nil => intro f c _; rfl
  | cons w ws ih =>
    intro f c h
    have hrest : ∀ x ∈ ws, p x = false → x.cell ≠ c := fun x hx => h x (List.mem_cons_of_mem _ hx)
    by_cases hp : p w = true
    · rw [List.filter_cons_of_pos hp, applyW_cons, applyW_cons]
      exact ih _ c hrest
    · rw [List.filter_cons_of_neg hp, applyW_cons, ih f c hrest]
      apply applyW_congr_at
      have : w.cell ≠ c := h w (List.mem_cons_self ..) (by simpa using hp)
      simp only [upd]
      rw [if_neg (fun e => this e.symm)]

theorem grouped_cons (ws : List Wr) (k : Nat) (ord : List Nat) (f : St) :
    grouped ws (k :: ord) f = grouped ws ord (applyW (ws.filter (fun w => w.key = k)) f) := rfl

theorem grouped_untouched (ws : List Wr) (c : Nat × Nat) (h : ∀ w ∈ ws, w.cell ≠ c) :
    ∀ (ord : List Nat) (f : St), grouped ws ord f c = f c := by
  intro ord
  induction ord with
  | nil => intro f; rfl
  | cons k ord ih =>
    intro f
    rw [grouped_cons, ih]
    apply applyW_untouched
    intro w hw
    exact h w (List.mem_filter.mp hw).1

theorem grouped_at (ws : List Wr) (c : Nat × Nat) (k0 : Nat)
    (hk : ∀ w ∈ ws, w.cell = c → w.key = k0) :
    ∀ (ord : List Nat) (f : St), ord.Nodup →
      grouped ws ord f c = if k0 ∈ ord then applyW ws f c else f c := by
  intro ord
  induction ord with
  | nil => intro f _; rfl
  | cons k ord ih =>
    intro f hnd
    simp only [List.nodup_cons] at hnd
    rw [grouped_cons, ih _ hnd.2]
    by_cases hkk : k = k0
    · subst hkk
      rw [if_neg hnd.1, if_pos (List.mem_cons_self ..)]
      apply applyW_filter
      intro w hw hp
      have hne : w.key ≠ k := by simpa using hp
      exact fun e => hne (hk w hw e)
    · have hun : applyW (ws.filter (fun w => w.key = k)) f c = f c := by
        apply applyW_untouched
        intro w hw
        have hm := List.mem_filter.mp hw
        have hkey : w.key = k := by simpa using hm.2
        intro e
        exact hkk (hkey ▸ hk w hm.1 e)
      have hmem : (k0 ∈ k :: ord) ↔ k0 ∈ ord := by
        simp only [List.mem_cons]
        constructor
        · rintro (h | h)
          · exact absurd h.symm hkk
          · exact h
        · exact Or.inr
      by_cases hin : k0 ∈ ord
      · rw [if_pos hin, if_pos (hmem.mpr hin)]
        exact applyW_congr_at ws _ _ c hun
      · rw [if_neg hin, if_neg (fun h => hin (hmem.mp h))]
        exact hun

/-- batches by key, in any duplicate-free order that covers the keys, give the same state as the
    plain list order — provided writes to one cell all carry the same key -/
theorem grouped_eq (ws : List Wr) (ord : List Nat) (f : St) (hnd : ord.Nodup)
    (hcov : ∀ w ∈ ws, w.key ∈ ord)
    (hfun : ∀ w1 ∈ ws, ∀ w2 ∈ ws, w1.cell = w2.cell → w1.key = w2.key) :
    grouped ws ord f = applyW ws f := by
  funext c
  by_cases h : ∃ w ∈ ws, w.cell = c
  · obtain ⟨w, hw, hc⟩ := h
    rw [grouped_at ws c w.key (fun w' hw' e => hfun w' hw' w hw (e.trans hc.symm)) ord f hnd,
      if_pos (hcov w hw)]
  · have hno : ∀ w ∈ ws, w.cell ≠ c := fun w hw e => h ⟨w, hw, e⟩
    rw [grouped_untouched ws c hno, applyW_untouched ws f c hno]

/-- with pairwise distinct target cells the order of the writes is irrelevant -/
theorem applyW_perm {ws ws' : List Wr} (hp : ws.Perm ws') :
    ∀ f : St, (ws.map (·.cell)).Nodup → applyW ws f = applyW ws' f := by
  induction hp with
  | nil => intro f _; rfl
  | cons x _ ih =>
    intro f hn
    simp only [List.map_cons, List.nodup_cons] at hn
    rw [applyW_cons, applyW_cons]
    exact ih _ hn.2
  | swap x y l =>
    intro f hn
    simp only [List.map_cons, List.nodup_cons, List.mem_cons, not_or] at hn
    rw [applyW_cons, applyW_cons, applyW_cons, applyW_cons]
    congr 1
    funext c
    simp only [upd]
    have hne : ¬ y.cell = x.cell := hn.1.1
    by_cases h1 : c = y.cell
    · by_cases h2 : c = x.cell
      · exact absurd (h1.symm.trans h2) hne
      · subst h1; simp [hne]
    · by_cases h2 : c = x.cell
      · subst h2; simp [Ne.symm hne]
      · simp [h1, h2]
  | trans h1 _ ih1 ih2 =>
    intro f hn
    rw [ih1 f hn]
    exact ih2 f ((h1.map _).nodup_iff.mp hn)

theorem foldl_applyW_flatMap {α : Type} (g : α → List Wr) (l : List α) : ∀ s : St,
    l.foldl (fun s c => applyW (g c) s) s = applyW (l.flatMap g) s := by
  induction l with
  | nil => intro s; rfl
  | cons a l ih =>
    intro s
    rw [List.foldl_cons, ih, List.flatMap_cons, applyW_append]

/-- the driver evaluates a cell by scanning for the last write (`lastW`) -/
theorem applyW_eq_lastW (ws : List Wr) (f : St) (c : Nat × Nat) :
    applyW ws f c = (lastW ws c).getD (f c) := by
  have gen : ∀ (ws : List Wr) (o : Option Nat) (f : St),
      (ws.foldl (fun acc w => if c = w.cell then some w.val else acc) o).getD (f c) =
        applyW ws (fun c' => if c' = c then o.getD (f c) else f c') c := by
    intro ws
    induction ws with
    | nil => intro o f; simp [applyW]
    | cons w ws ih =>
      intro o f
      rw [List.foldl_cons, ih, applyW_cons]
      apply applyW_congr_at
      simp only [upd]
      by_cases h : c = w.cell <;> simp [h]
  rw [lastW, gen ws none f]
  apply applyW_congr_at
  simp

/-- applying the Data/DirtyMask summary of a request = applying its byte writes in merge order -/
theorem applyReq_summ (ws : List Wr) (m : St) : applyReq (summ ws) m = applyW ws m := by
  funext c
  simp only [applyReq, summ, applyW_eq_lastW]

/-! first-touch de-duplication -/

theorem mem_addLine (l : List Nat) (x y : Nat) : y ∈ addLine l x ↔ y ∈ l ∨ y = x := by
  unfold addLine
  by_cases h : x ∈ l
  · rw [if_pos h]
    constructor
    · exact Or.inl
    · rintro (h' | h')
      · exact h'
      · exact h' ▸ h
  · rw [if_neg h]; simp

theorem nodup_addLine (l : List Nat) (x : Nat) (h : l.Nodup) : (addLine l x).Nodup := by
  unfold addLine
  by_cases hx : x ∈ l
  · rw [if_pos hx]; exact h
  · rw [if_neg hx, List.nodup_append]
    refine ⟨h, by simp, ?_⟩
    intro a ha b hb
    simp only [List.mem_singleton] at hb
    subst hb
    exact fun e => hx (e ▸ ha)

theorem foldl_addLine (l : List Nat) : ∀ acc : List Nat, acc.Nodup →
    (l.foldl addLine acc).Nodup ∧ ∀ y, y ∈ l.foldl addLine acc ↔ y ∈ acc ∨ y ∈ l := by
  induction l with
  | nil => intro acc h; exact ⟨h, by simp⟩
  | cons x l ih =>
    intro acc h
    have := ih (addLine acc x) (nodup_addLine acc x h)
    refine ⟨this.1, ?_⟩
    intro y
    rw [List.foldl_cons, this.2 y, mem_addLine, List.mem_cons]
    constructor
    · rintro ((h1 | h1) | h1)
      · exact Or.inl h1
      · exact Or.inr (Or.inl h1)
      · exact Or.inr (Or.inr h1)
    · rintro (h1 | h1 | h1)
      · exact Or.inl (Or.inl h1)
      · exact Or.inl (Or.inr h1)
      · exact Or.inr h1

theorem dedup_nodup (l : List Nat) : (dedup l).Nodup := (foldl_addLine l [] List.nodup_nil).1

theorem mem_dedup (l : List Nat) (y : Nat) : y ∈ dedup l ↔ y ∈ l := by
  have := (foldl_addLine l [] List.nodup_nil).2 y
  simpa [dedup] using this

/-! address arithmetic -/

theorem lineOf_add (ls a b : Nat) (hls : 0 < ls) (h : a % ls + b < ls) : lineOf ls (a + b) = lineOf ls a := by
  unfold lineOf
  have h1 : ls * (a / ls) + a % ls = a := Nat.div_add_mod a ls
  have h2 : (a + b) / ls = a / ls := by
    calc (a + b) / ls = (ls * (a / ls) + (a % ls + b)) / ls := by rw [← Nat.add_assoc, h1]
      _ = a / ls + (a % ls + b) / ls := Nat.mul_add_div hls _ _
      _ = a / ls := by rw [Nat.div_eq_of_lt h]; rfl
  rw [h2]

theorem lineOf_add_mod (ls a : Nat) : lineOf ls a + a % ls = a := by
  unfold lineOf
  exact Nat.div_add_mod' a ls

end C02
