import MgpuModel.C01_Emu
import MgpuProofs.C01Step
import MgpuProofs.C01Emu
import MgpuProofs.Props.C03V
/-! # C01 — `View` transformers of the instruction classes used by straight-line integer kernels

Each lemma: if the state is described by `V` and the PC points at an instruction of the class, `step`
succeeds and the new state is described by an explicit update of `V`.  The vector-ALU classes go
through `execVALU` (C03V) and the meaning lemmas of `MgpuProofs/Props/C03V.lean`; scalar classes
through `C03S.execute`; SMEM / FLAT through `C03V.execSMEM` / `execFLAT`. -/
set_option linter.unusedSimpArgs false
set_option linter.unusedVariables false
namespace C01
namespace Emu
open C03V

/-! ## Interface to the imported models

The C01 proofs touch the models of the other properties ONLY through the lemmas of this section (plus
`execVALU_unfold` in `C01Valu.lean`, the `rfl` / `decide +kernel` facts about the 27 concrete instructions in
`C01Copy.lean`, and the meaning lemmas of `Props/C03V.lean`).  When `C03S_Machine.lean`, `C03V.lean` or `C04.lean`
change shape, these are what has to be re-proved; the instruction classes and the program proof build on them.

### C03S: the scalar machine

`C03S.execute` = `fetch` (operand reads) then `commit` (write-back of `dst`, then EXEC/VCC/SCC/PC). -/
namespace Iface
open C03S

/-- the input record `C03S.fetch` builds from the operand values -/
def scalarIn (st : MState) (s0 s1 dOld simm : Nat) : ScalarIn :=
  { src0 := BitVec.ofNat 64 s0, src1 := BitVec.ofNat 64 s1, dstOld := BitVec.ofNat 64 dOld,
    scc := BitVec.ofNat 8 st.scc, vcc := BitVec.ofNat 64 st.vcc, exec := BitVec.ofNat 64 st.exec,
    pc := BitVec.ofNat 64 st.pc, simm16 := BitVec.ofNat 64 simm }

theorem execute_eq (sem : Sem) (d : DInst) (st : MState) (i : ScalarIn)
    (h : C03S.fetch sem.src0W sem.src1W d st = some i) : execute sem d st = commit sem.dstW d st (sem.f i) := by
  simp [execute, h]

theorem fetch_sop2 (w0 w1 op sd a b sm lit : Nat) (st : MState) (s0 s1 : Nat)
    (h0 : readOpnd st a w0 lit = some s0) (h1 : readOpnd st b w1 lit = some s1) :
    C03S.fetch w0 w1 ⟨0, op, sd, a, b, sm, lit⟩ st = some (scalarIn st s0 s1 0 sm) := by
  simp [C03S.fetch, h0, h1, scalarIn]

theorem fetch_sop1 (w0 w1 op sd a b sm lit : Nat) (st : MState) (s0 : Nat)
    (h0 : readOpnd st a w0 lit = some s0) :
    C03S.fetch w0 w1 ⟨2, op, sd, a, b, sm, lit⟩ st = some (scalarIn st s0 0 0 sm) := by
  simp [C03S.fetch, h0, scalarIn]

theorem fetch_sopp (w0 w1 op sd a b sm lit : Nat) (st : MState) :
    C03S.fetch w0 w1 ⟨4, op, sd, a, b, sm, lit⟩ st = some (scalarIn st 0 0 0 sm) := by
  simp [C03S.fetch, scalarIn]

theorem read_sgpr32 (st : MState) (code lit : Nat) (h : code ≤ 101) : readOpnd st code 32 lit = some (st.sreg code) := by
  simp [readOpnd, h]
theorem read_lit (st : MState) (w lit : Nat) : readOpnd st 255 w lit = some lit := by
  simp [readOpnd]
theorem read_vcc64 (st : MState) (lit : Nat) : readOpnd st 106 64 lit = some st.vcc := by
  simp [readOpnd]

theorem commit_nodst (dstW : Nat) (d : DInst) (st : MState) (o : ScalarOut) (h : o.dst = none) :
    commit dstW d st o = some (commitSpecial st o) := by
  simp [commit, h]

theorem commit_sgpr32 (fmt op sd a b sm lit : Nat) (hf : fmt = 0 ∨ fmt = 1 ∨ fmt = 2) (hsd : sd ≤ 101)
    (st : MState) (o : ScalarOut) (v : BitVec 64) (ho : o.dst = some v) :
    commit 32 ⟨fmt, op, sd, a, b, sm, lit⟩ st o =
      some (commitSpecial (st.setS sd (v.toNat % 4294967296)) o) := by
  have e : v.toNat % 4294967296 % 18446744073709551616 % 4294967296 = v.toNat % 4294967296 := by omega
  rcases hf with rfl | rfl | rfl <;> simp [commit, ho, writeOpnd, hsd, keep, C03S.two32, e]

theorem commit_sgpr64 (fmt op sd a b sm lit : Nat) (hf : fmt = 0 ∨ fmt = 1 ∨ fmt = 2) (hsd : sd ≤ 101)
    (st : MState) (o : ScalarOut) (v : BitVec 64) (ho : o.dst = some v) :
    commit 64 ⟨fmt, op, sd, a, b, sm, lit⟩ st o =
      some (commitSpecial ((st.setS sd (v.toNat % 4294967296)).setS (sd + 1) (v.toNat / 4294967296 % 4294967296)) o) := by
  rcases hf with rfl | rfl | rfl <;> simp [commit, ho, writeOpnd, hsd, keep, C03S.two32]

theorem commitSpecial_s (st : MState) (o : ScalarOut) : (commitSpecial st o).s = st.s := by
  unfold commitSpecial
  cases o.exec <;> cases o.vcc <;> cases o.scc <;> cases o.pc <;> rfl
theorem commitSpecial_vcc (st : MState) (o : ScalarOut) :
    (commitSpecial st o).vcc = match o.vcc with | some v => v.toNat | none => st.vcc := by
  unfold commitSpecial
  cases o.exec <;> cases o.vcc <;> cases o.scc <;> cases o.pc <;> rfl
theorem commitSpecial_exec (st : MState) (o : ScalarOut) :
    (commitSpecial st o).exec = match o.exec with | some v => v.toNat | none => st.exec := by
  unfold commitSpecial
  cases o.exec <;> cases o.vcc <;> cases o.scc <;> cases o.pc <;> rfl
theorem commitSpecial_pc (st : MState) (o : ScalarOut) :
    (commitSpecial st o).pc = match o.pc with | some v => v.toNat | none => st.pc := by
  unfold commitSpecial
  cases o.exec <;> cases o.vcc <;> cases o.scc <;> cases o.pc <;> rfl

end Iface

/-! ### C03V: operand fetch, memory access and address arithmetic

What the proofs use of `C03V.St.src`, `laneRd` (the operand fetch inside `execVALU`; the loop itself is
`execVALU_unfold` in `C01Valu.lean`), `memRead`, `rvN`, the SMEM / FLAT address expressions of
`execSMEM` / `execFLAT` (`sAddr`, `gAddr`: the instruction-specific `exec … = some …` facts in `C01Copy.lean`
are stated with them and proved by `rfl`), and the write lists `wrS32`, `wrVN`, `wrMemBytes`. -/

theorem laneRd_int32 (st : St) (e : VEnc) (l code idx : Nat) (hs : e.sdwa = false) (hty : e.op.ty = Ty.int) :
    laneRd st e l code 32 idx = lo32 (st.src code l 32 e.lit false) := by
  unfold laneRd
  simp [hs, hty, applyMod, show (Ty.int == Ty.f64) = false from rfl, show (Ty.int == Ty.int) = true from rfl]

theorem laneRd_int64 (st : St) (e : VEnc) (l code idx : Nat) (hs : e.sdwa = false) (hty : e.op.ty = Ty.int) :
    laneRd st e l code 64 idx = st.src code l 64 e.lit false % 2 ^ 64 := by
  unfold laneRd
  simp [hs, hty, applyMod, show (Ty.int == Ty.f64) = false from rfl, show (Ty.int == Ty.int) = true from rfl]

theorem src_sgpr (st : St) (c l w lit : Nat) (f : Bool) (hc : c ≤ 101) (hw : w = 32) : st.src c l w lit f = st.rs c := by
  subst hw
  have : ¬ c ≥ 256 := by omega
  simp [St.src, this, hc]

theorem src_vgpr (st : St) (r l lit : Nat) (f : Bool) : st.src (256 + r) l 32 lit f = st.rv r l := by
  simp [St.src]

theorem src_vgpr64 (st : St) (r l lit : Nat) (f : Bool) :
    st.src (256 + r) l 64 lit f = st.rv r l + st.rv (r + 1) l * 2 ^ 32 := by
  simp [St.src]

theorem src_inline (st : St) (c l w lit : Nat) (f : Bool) (h1 : 128 ≤ c) (h2 : c ≤ 192) : st.src c l w lit f = c - 128 := by
  have a : ¬ c ≥ 256 := by omega
  have b : ¬ c ≤ 101 := by omega
  have c1 : ¬ c = 106 := by omega
  have c2 : ¬ c = 107 := by omega
  have c3 : ¬ c = 124 := by omega
  have c4 : ¬ c = 126 := by omega
  have c5 : ¬ c = 127 := by omega
  simp [St.src, a, b, c1, c2, c3, c4, c5, h1, h2]

def rd32 (f : Nat → Nat) (a : Nat) : Nat := f a + f (a + 1) * 2 ^ 8 + f (a + 2) * 2 ^ 16 + f (a + 3) * 2 ^ 24

theorem memRead4 (st : St) (a : Nat) (h : a + 4 ≤ 2 ^ 64) : st.memRead a 4 = rd32 st.rmem a := by
  have h0 : (a + 0) % 2 ^ 64 = a := Nat.mod_eq_of_lt (by omega)
  have h1 : (a + 1) % 2 ^ 64 = a + 1 := Nat.mod_eq_of_lt (by omega)
  have h2 : (a + 2) % 2 ^ 64 = a + 2 := Nat.mod_eq_of_lt (by omega)
  have h3 : (a + 3) % 2 ^ 64 = a + 3 := Nat.mod_eq_of_lt (by omega)
  unfold St.memRead leNat rd32
  rw [show List.range 4 = [0, 1, 2, 3] from rfl]
  simp only [List.map_cons, List.map_nil, h0, h1, h2, h3]
  rw [show ∀ (b0 b1 b2 b3 : Nat), [b0, b1, b2, b3].zipIdx = [(b0, 0), (b1, 1), (b2, 2), (b3, 3)] from fun _ _ _ _ => rfl]
  rw [List.foldl_cons, List.foldl_cons, List.foldl_cons, List.foldl_cons, List.foldl_nil]
  show 0 + st.rmem a * 2 ^ (8 * 0) + st.rmem (a + 1) * 2 ^ (8 * 1) + st.rmem (a + 2) * 2 ^ (8 * 2) + st.rmem (a + 3) * 2 ^ (8 * 3) = _
  rw [Nat.mul_zero, Nat.pow_zero, Nat.mul_one, Nat.zero_add, Nat.mul_one]

theorem rvN2 (st : St) (r l : Nat) : st.rvN r l 2 = st.rv r l + st.rv (r + 1) l * 2 ^ 32 := by
  unfold St.rvN
  rw [show List.range 2 = [0, 1] from rfl]
  rw [List.foldl_cons, List.foldl_cons, List.foldl_nil]
  rw [Nat.add_zero, Nat.mul_zero, Nat.pow_zero, Nat.mul_one, Nat.zero_add, Nat.mul_one]
theorem rvN1 (st : St) (r l : Nat) : st.rvN r l 1 = st.rv r l := by
  unfold St.rvN
  rw [show List.range 1 = [0] from rfl]
  rw [List.foldl_cons, List.foldl_nil]
  rw [Nat.add_zero, Nat.mul_zero, Nat.pow_zero, Nat.mul_one, Nat.zero_add]

/-- the FLAT address of a lane on GCN3: the 64-bit VGPR pair, no offset -/
def gAddr (st : St) (va l : Nat) : Nat := ((((st.rvN va l 2 : Nat) : Int) + 0) % (2 ^ 64 : Int)).toNat

theorem gAddr_eq (st : St) (va l : Nat) : gAddr st va l = (st.rv va l + st.rv (va + 1) l * 2 ^ 32) % 2 ^ 64 := by
  unfold gAddr
  rw [rvN2, Int.add_zero]
  generalize st.rv va l + st.rv (va + 1) l * 2 ^ 32 = x
  have : ((2 : Int) ^ 64) = ((2 ^ 64 : Nat) : Int) := by norm_cast
  rw [this, ← Int.natCast_emod, Int.toNat_natCast]

/-- the SMEM address: SGPR pair plus immediate offset, the two low bits ignored -/
def sAddr (st : St) (sb off : Nat) : Nat :=
  ((((st.sreg64 sb : Nat) : Int) + ((off : Nat) : Int)) % (2 ^ 64 : Int)).toNat / 4 * 4

theorem align4 (a : Nat) (h : a < 2 ^ 64) (h4 : a % 4 = 0) : a % 2 ^ 64 / 4 * 4 = a := by omega

theorem sAddr_eq (st : St) (sb off : Nat) (hsb : sb ≤ 100) :
    sAddr st sb off = (st.rs sb + st.rs (sb + 1) * 2 ^ 32 + off) % 2 ^ 64 / 4 * 4 := by
  unfold sAddr St.sreg64
  have h1 : (sb == 106) = false := by simp only [beq_eq_false_iff_ne, ne_eq]; omega
  have h2 : (sb == 126) = false := by simp only [beq_eq_false_iff_ne, ne_eq]; omega
  simp only [h1, h2, Bool.false_eq_true, if_false]
  generalize st.rs sb + st.rs (sb + 1) * 2 ^ 32 = x
  have : ((2 : Int) ^ 64) = ((2 ^ 64 : Nat) : Int) := by norm_cast
  rw [this, ← Int.natCast_add, ← Int.natCast_emod, Int.toNat_natCast]

theorem wrS32_sgpr (st : St) (c x : Nat) (hc : c ≤ 101) : wrS32 st c x = [(Cell.s c, lo32 x)] := by
  unfold wrS32
  have h1 : (c == 106) = false := by simp only [beq_eq_false_iff_ne, ne_eq]; omega
  have h2 : (c == 107) = false := by simp only [beq_eq_false_iff_ne, ne_eq]; omega
  have h3 : (c == 124) = false := by simp only [beq_eq_false_iff_ne, ne_eq]; omega
  have h4 : (c == 126) = false := by simp only [beq_eq_false_iff_ne, ne_eq]; omega
  have h5 : (c == 127) = false := by simp only [beq_eq_false_iff_ne, ne_eq]; omega
  simp only [h1, h2, h3, h4, h5, Bool.false_eq_true, if_false]

/-- the enabled lanes of an EXEC mask (this is `C03V.activeLanes`) -/
def lanesOf (e : Nat) : List Nat := (List.range 64).filter fun i => e.testBit i

theorem mem_lanesOf (e l : Nat) : l ∈ lanesOf e ↔ l < 64 ∧ e.testBit l = true := by
  simp [lanesOf]

theorem lanesOf_nodup (e : Nat) : (lanesOf e).Nodup := (List.filter_sublist).nodup List.nodup_range

theorem activeLanes_eq (st : St) : activeLanes st = lanesOf st.exec := rfl

theorem wrVN1 (r l x : Nat) : wrVN r l 1 x = [(Cell.v r l, x % 2 ^ 32)] := by
  unfold wrVN
  rw [show List.range 1 = [0] from rfl, List.map_cons, List.map_nil, Nat.add_zero, Nat.mul_zero, Nat.pow_zero, Nat.div_one]

/-- the (address, byte) pairs of one lane's dword store -/
def storePairs (a x : Nat) : List (Nat × Nat) :=
  [(a, x % 256), (a + 1, x / 256 % 256), (a + 2, x / 65536 % 256), (a + 3, x / 16777216 % 256)]

theorem wrMemBytes4 (a x : Nat) (h : a + 4 ≤ 2 ^ 64) :
    wrMemBytes a 4 x = (storePairs a x).map fun p => (Cell.mem p.1, p.2) := by
  have h0 : (a + 0) % 2 ^ 64 = a := Nat.mod_eq_of_lt (by omega)
  have h1 : (a + 1) % 2 ^ 64 = a + 1 := Nat.mod_eq_of_lt (by omega)
  have h2 : (a + 2) % 2 ^ 64 = a + 2 := Nat.mod_eq_of_lt (by omega)
  have h3 : (a + 3) % 2 ^ 64 = a + 3 := Nat.mod_eq_of_lt (by omega)
  unfold wrMemBytes bytesOf storePairs
  rw [show List.range 4 = [0, 1, 2, 3] from rfl]
  simp only [List.map_cons, List.map_nil]
  rw [show ∀ (b0 b1 b2 b3 : Nat), [b0, b1, b2, b3].zipIdx = [(b0, 0), (b1, 1), (b2, 2), (b3, 3)] from fun _ _ _ _ => rfl]
  simp only [List.map_cons, List.map_nil, h0, h1, h2, h3]
  rw [Nat.mul_zero, Nat.pow_zero, Nat.div_one]

/-! ### C04: decoding

`DecV` / `DecS` facts (`C01Step.lean`) are obtained by evaluating `C04.decode` in the kernel; SOP2 needs the
lemmas below because the decoder looks for "64" in the mnemonic (`String.splitOn`, which the kernel cannot
evaluate) — that only changes register counts, which `toDInst` does not read. -/

theorem dec_t1 (buf : List Nat) (hlen : buf.length = 8) :
    C04.decode false buf = C04.decodeCore C04.lookUp false (C04.le32 buf 0) (some (C04.le32 buf 4)) := by
  have hl : C04.lookUpArch false = C04.lookUp := by
    funext ft op; simp [C04.lookUpArch]
  unfold C04.decode C04.decodeWith
  rw [if_neg (by omega), if_pos (by omega), hl]

theorem dec_t2 (w0 : Nat) (w1 : Option Nat) (f : Gen.Format) (row : Gen.Row)
    (hf : C04.matchFormat w0 = some f)
    (hr : C04.lookUp f.ft (C04.extractBits w0 f.opLo f.opHi) = some row) :
    C04.decodeCore C04.lookUp false w0 w1 = C04.decodeRow false f row w0 w1 := by
  unfold C04.decodeCore
  rw [hf]
  simp only
  rw [hr]

theorem dec_t3 (w0 w1 : Nat) (f : Gen.Format) (row : Gen.Row) (hft : f.ft = 0) (hsz : f.size = 4) :
    C04.decodeRow false f row w0 (some w1) =
      match C04.decodeSOP2 { name := row.name, ft := 0, opcode := row.opcode } w0 with
      | .done i => .ok { i with size := 4 }
      | .err => .err
      | .more k => (k w1).setSize 8 := by
  unfold C04.decodeRow
  rw [hsz, hft]
  simp only [show ((4 : Nat) == 8) = false from rfl, Bool.false_eq_true, if_false]
  unfold C04.dec4
  simp only [show ((0 : Nat) == Gen.FT_SOP2) = true from rfl, if_true]
  generalize C04.decodeSOP2 _ _ = r
  cases r <;> rfl

theorem opndCode_setCount (o : C04.Opnd) (n : Nat) : opndCode (some (o.setCount n)) = opndCode (some o) := by
  cases o <;> rfl
theorem opndLit_setCount (o : C04.Opnd) (n : Nat) : opndLit (some (o.setCount n)) = opndLit (some o) := by
  cases o <;> rfl
theorem opndCode_setLit (o : C04.Opnd) (v : Nat) : opndCode (some (C04.setLit o v)) = opndCode (some o) := by
  cases o <;> rfl
theorem setCount_setLit (o : C04.Opnd) (n v : Nat) : (C04.setLit o v).setCount n = C04.setLit (o.setCount n) v := by
  cases o <;> rfl
theorem opndCode_ite (c : Bool) (o : C04.Opnd) (n : Nat) :
    opndCode (some (if c = true then o.setCount n else o)) = opndCode (some o) := by
  cases c <;> simp [opndCode_setCount]
theorem opndLit_ite (c : Bool) (o : C04.Opnd) (n : Nat) :
    opndLit (some (if c = true then o.setCount n else o)) = opndLit (some o) := by
  cases c <;> simp [opndLit_setCount]

theorem sop2_dinst (nm : String) (op w w1 : Nat) (s0 s1 d : C04.Opnd)
    (h0 : C04.getOperand (C04.extractBits w 0 7) = some s0)
    (h1 : C04.getOperand (C04.extractBits w 8 15) = some s1)
    (hd : C04.getOperand (C04.extractBits w 16 22) = some d) :
    ∃ i, (match C04.decodeSOP2 { name := nm, ft := 0, opcode := op } w with
          | .done i => C04.Outcome.ok { i with size := 4 }
          | .err => .err
          | .more k => (k w1).setSize 8) = .ok i ∧ i.ft = 0 ∧ i.opcode = op ∧
      i.size = (if (s0.isLit || s1.isLit) = true then 8 else 4) ∧
      toDInst i = ⟨0, op, opndCode (some d), opndCode (some s0), opndCode (some s1), 0,
        if (s0.isLit || s1.isLit) = true then
          (opndLit (some (C04.setLit s0 w1))).getD ((opndLit (some (C04.setLit s1 w1))).getD 0)
        else (opndLit (some s0)).getD ((opndLit (some s1)).getD 0)⟩ := by
  unfold C04.decodeSOP2
  rw [h0, h1, hd]
  simp only
  generalize C04.containsSub nm "64" = wide
  cases hl : (s0.isLit || s1.isLit)
  · simp only [Bool.false_eq_true, if_false]
    refine ⟨_, rfl, rfl, rfl, rfl, ?_⟩
    simp only [toDInst, opndCode_ite, opndLit_ite]
  · simp only [if_true]
    refine ⟨_, rfl, rfl, rfl, rfl, ?_⟩
    simp only [toDInst, C04.Outcome.setSize, opndCode_ite, opndLit_ite, opndCode_setLit]

/-- a SOP2 instruction from table look-ups that the kernel evaluates (`decide +kernel`) -/
theorem DecS_sop2 (buf : List Nat) (f : Gen.Format) (row : Gen.Row) (s0 s1 d : C04.Opnd)
    (hlen : buf.length = 8)
    (hf : C04.matchFormat (C04.le32 buf 0) = some f) (hft : f.ft = 0) (hsz : f.size = 4)
    (hr : C04.lookUp f.ft (C04.extractBits (C04.le32 buf 0) f.opLo f.opHi) = some row)
    (h0 : C04.getOperand (C04.extractBits (C04.le32 buf 0) 0 7) = some s0)
    (h1 : C04.getOperand (C04.extractBits (C04.le32 buf 0) 8 15) = some s1)
    (hd : C04.getOperand (C04.extractBits (C04.le32 buf 0) 16 22) = some d) :
    DecS buf 0 row.opcode (if (s0.isLit || s1.isLit) = true then 8 else 4)
      ⟨0, row.opcode, opndCode (some d), opndCode (some s0), opndCode (some s1), 0,
        if (s0.isLit || s1.isLit) = true then
          (opndLit (some (C04.setLit s0 (C04.le32 buf 4)))).getD ((opndLit (some (C04.setLit s1 (C04.le32 buf 4)))).getD 0)
        else (opndLit (some s0)).getD ((opndLit (some s1)).getD 0)⟩ := by
  unfold DecS
  rw [dec_t1 buf hlen, dec_t2 _ _ f row hf hr, dec_t3 _ _ f row hft hsz]
  exact sop2_dinst row.name row.opcode _ _ s0 s1 d h0 h1 hd

theorem flatMap_congr' {α β : Type} (l : List α) (f g : α → List β) (h : ∀ x ∈ l, f x = g x) :
    l.flatMap f = l.flatMap g := by
  induction l with
  | nil => rfl
  | cons x xs ih =>
    simp only [List.flatMap_cons]
    rw [h x (List.mem_cons_self ..), ih (fun y hy => h y (List.mem_cons_of_mem _ hy))]

theorem maskUpTo_congr (f g : Nat → Bool) (n : Nat) (h : ∀ l, l < n → f l = g l) : maskUpTo f n = maskUpTo g n := by
  induction n with
  | zero => rfl
  | succ n ih =>
    simp only [maskUpTo]
    rw [ih (fun l hl => h l (by omega)), h n (by omega)]

theorem sel_wrV32 (r l D d old : Nat) (hl : l < 64) :
    sel (isV (r * 64 + l)) (wrV D l 32 d) old = if r = D then lo32 d else old := by
  simp only [wrV, show ((32 : Nat) == 64) = false from rfl, Bool.false_eq_true, if_false, sel_cons, sel_nil, isV]
  by_cases h : r = D
  · subst h; simp
  · have : ¬ D * 64 = r * 64 := by omega
    simp [h, this]

theorem sel_wrV64 (r l D d old : Nat) (hl : l < 64) :
    sel (isV (r * 64 + l)) (wrV D l 64 d) old =
      if r = D + 1 then d / 2 ^ 32 % 2 ^ 32 else if r = D then lo32 d else old := by
  simp only [wrV, show ((64 : Nat) == 64) = true from rfl, if_true, sel_cons, sel_nil, isV]
  by_cases h1 : r = D + 1
  · subst h1
    have : ¬ D * 64 = (D + 1) * 64 := by omega
    simp [this]
  · by_cases h : r = D
    · subst h
      have : ¬ (r + 1) * 64 = r * 64 := by omega
      simp [this, h1]
    · have a : ¬ D * 64 = r * 64 := by omega
      have b : ¬ (D + 1) * 64 = r * 64 := by omega
      simp [h, h1, a, b]

/-! ## scalar classes -/

theorem sees_ofM {st : St} {V : View} (h : Sees st V) (m : C03S.MState) :
    Sees (ofM st m) { pc := m.pc, exec := m.exec, vcc := m.vcc, rs := m.sreg, rv := V.rv, mem := V.mem } := by
  refine ⟨?_, h.vsz, rfl, rfl, rfl, ?_, ?_, ?_⟩
  · simp [ofM, h.ssz]
  · intro i hi
    exact ofM_rs st m i (by rw [h.ssz]; exact hi)
  · intro r l hr hl
    exact h.rv r l hr hl
  · intro a
    exact h.mem a

theorem toM_of_sees {st : St} {V : View} (h : Sees st V) :
    (toM st).vcc = V.vcc ∧ (toM st).exec = V.exec ∧ (toM st).pc = V.pc ∧ ∀ i, i < 128 → (toM st).sreg i = V.rs i :=
  ⟨h.vcc, h.exec, h.pc, fun i hi => (toM_sreg st i).trans (h.rs i hi)⟩

/-- a scalar step: the new state is described by the scalar machine's result -/
theorem step_scalar_view (P : Program) (hP : P.cdna3 = false) (base k ft op sz : Nat) (d : C03S.DInst)
    (hd : DecS ((P.code.drop k).take 8) ft op sz d) (hft : ft ≤ 4)
    (hnb : ¬ (ft = 4 ∧ (op = 10 ∨ op = 1))) (sem : C03S.Sem) (hsem : C03S.specSem d = some sem)
    (st : St) (V : View) (h : Sees st V) (hpc : V.pc = base + k) (m' : C03S.MState)
    (hex : C03S.execute sem d (toM { st with pc := base + k + sz }) = some m') :
    ∃ st', step P base st = .ok (st', .next) ∧
      Sees st' { pc := m'.pc, exec := m'.exec, vcc := m'.vcc, rs := m'.sreg, rv := V.rv, mem := V.mem } := by
  have hpc' : st.pc = base + k := h.pc.trans hpc
  exact ⟨_, step_scalar P hP base k st hpc' ft op sz d hd hft hnb sem hsem m' hex,
    sees_ofM (h.setPc (base + k + sz)) m'⟩

/-- sreg of a machine state given by its register list -/
theorem sreg_of_s (m m' : C03S.MState) (h : m'.s = m.s) (k : Nat) : m'.sreg k = m.sreg k := by
  unfold C03S.MState.sreg; rw [h]

open C03S in
theorem sem_wait (x : Nat) : C03S.specSem ⟨4, 12, 0, 0, 0, x, 0⟩ = some ⟨0, 0, 0, Spec.s_waitcnt⟩ := rfl
open C03S in
theorem exe_wait (x : Nat) (M : MState) : execute ⟨0, 0, 0, Spec.s_waitcnt⟩ ⟨4, 12, 0, 0, 0, x, 0⟩ M = some M := by
  rw [Iface.execute_eq _ _ _ _ (Iface.fetch_sopp 0 0 12 0 0 0 x 0 M), Iface.commit_nodst _ _ _ _ rfl]
  rfl

/-- S_WAITCNT -/
theorem step_wait (P : Program) (hP : P.cdna3 = false) (base k x : Nat)
    (hd : DecS ((P.code.drop k).take 8) 4 12 4 ⟨4, 12, 0, 0, 0, x, 0⟩) (st : St) (V : View)
    (h : Sees st V) (hpc : V.pc = base + k) :
    ∃ st', step P base st = .ok (st', .next) ∧ Sees st' { V with pc := base + k + 4 } := by
  obtain ⟨st', hs, hv⟩ := step_scalar_view P hP base k 4 12 4 _ hd (by omega) (by omega) _ (sem_wait x) st V h hpc _
    (exe_wait x _)
  obtain ⟨a, b, c, d⟩ := toM_of_sees (h.setPc (base + k + 4))
  exact ⟨st', hs, hv.congr c b a d (fun _ _ _ _ => rfl) (fun _ => rfl)⟩

theorem and_ffff (a : Nat) : (a % 4294967296 % 18446744073709551616 &&& 65535) % 4294967296 = a % 65536 := by
  have h := Nat.and_two_pow_sub_one_eq_mod (a % 4294967296 % 18446744073709551616) 16
  simp only [show (2 : Nat) ^ 16 - 1 = 65535 from rfl, show (2 : Nat) ^ 16 = 65536 from rfl] at h
  rw [h]
  omega

open C03S in
theorem sem_and : C03S.specSem ⟨0, 12, 0, 0, 255, 0, 0xffff⟩ = some ⟨32, 32, 32, Spec.s_and_b32⟩ := rfl
open C03S in
theorem exe_and (M : MState) : ∃ m', execute ⟨32, 32, 32, Spec.s_and_b32⟩ ⟨0, 12, 0, 0, 255, 0, 0xffff⟩ M = some m' ∧
    m'.s = (M.setS 0 (M.sreg 0 % 65536)).s ∧ m'.vcc = M.vcc ∧ m'.exec = M.exec ∧ m'.pc = M.pc := by
  rw [Iface.execute_eq _ _ _ _ (Iface.fetch_sop2 32 32 12 0 0 255 0 0xffff M _ _
    (Iface.read_sgpr32 M 0 _ (by decide)) (Iface.read_lit M 32 _))]
  rw [Iface.commit_sgpr32 0 12 0 0 255 0 0xffff (Or.inl rfl) (by decide) M _ _ rfl]
  refine ⟨_, rfl, ?_, ?_, ?_, ?_⟩
  · rw [Iface.commitSpecial_s]
    simp [Iface.scalarIn, Spec.lo, Spec.w32, and_ffff]
  · rw [Iface.commitSpecial_vcc]; rfl
  · rw [Iface.commitSpecial_exec]; rfl
  · rw [Iface.commitSpecial_pc]; rfl

/-- S_AND_B32 s0, s0, 0xffff -/
theorem step_and_ffff (P : Program) (hP : P.cdna3 = false) (base k : Nat)
    (hd : DecS ((P.code.drop k).take 8) 0 12 8 ⟨0, 12, 0, 0, 255, 0, 0xffff⟩) (st : St) (V : View)
    (h : Sees st V) (hpc : V.pc = base + k) :
    ∃ st', step P base st = .ok (st', .next) ∧
      Sees st' { V with pc := base + k + 8, rs := fun i => if i = 0 then V.rs 0 % 65536 else V.rs i } := by
  obtain ⟨m', he, hs', hvcc, hexec, hpc2⟩ := exe_and (toM { st with pc := base + k + 8 })
  obtain ⟨st', hs, hv⟩ := step_scalar_view P hP base k 0 12 8 _ hd (by omega) (by omega) _ sem_and st V h hpc m' he
  obtain ⟨a, b, c, d⟩ := toM_of_sees (h.setPc (base + k + 8))
  refine ⟨st', hs, hv.congr (hpc2.trans c) (hexec.trans b) (hvcc.trans a) ?_ (fun _ _ _ _ => rfl) (fun _ => rfl)⟩
  intro i hi
  show m'.sreg i = _
  rw [sreg_of_s _ m' hs', setS_sreg, d 0 (by omega)]
  by_cases hi0 : i = 0
  · simp [hi0]
  · simp only [hi0, if_false]; exact d i hi

open C03S in
theorem sem_mul (D A B : Nat) : C03S.specSem ⟨0, 36, D, A, B, 0, 0⟩ = some ⟨32, 32, 32, Spec.s_mul_i32⟩ := rfl
open C03S in
theorem exe_mul (D A B : Nat) (hD : D ≤ 101) (hA : A ≤ 101) (hB : B ≤ 101) (M : MState) :
    execute ⟨32, 32, 32, Spec.s_mul_i32⟩ ⟨0, 36, D, A, B, 0, 0⟩ M =
    some (M.setS D (M.sreg A * M.sreg B % 4294967296)) := by
  rw [Iface.execute_eq _ _ _ _ (Iface.fetch_sop2 32 32 36 D A B 0 0 M _ _
    (Iface.read_sgpr32 M A _ hA) (Iface.read_sgpr32 M B _ hB))]
  rw [Iface.commit_sgpr32 0 36 D A B 0 0 (Or.inl rfl) hD M _ _ rfl]
  simp [Iface.scalarIn, Spec.lo, Spec.w32, commitSpecial, Spec.s_mul_i32, Spec.ret32n]

/-- S_MUL_I32 sD, sA, sB -/
theorem step_mul (P : Program) (hP : P.cdna3 = false) (base k D A B : Nat) (hD : D ≤ 101) (hA : A ≤ 101) (hB : B ≤ 101)
    (hd : DecS ((P.code.drop k).take 8) 0 36 4 ⟨0, 36, D, A, B, 0, 0⟩) (st : St) (V : View)
    (h : Sees st V) (hpc : V.pc = base + k) :
    ∃ st', step P base st = .ok (st', .next) ∧
      Sees st' { V with pc := base + k + 4, rs := fun i => if i = D then V.rs A * V.rs B % 4294967296 else V.rs i } := by
  obtain ⟨st', hs, hv⟩ := step_scalar_view P hP base k 0 36 4 _ hd (by omega) (by omega) _ (sem_mul D A B) st V h hpc _
    (exe_mul D A B hD hA hB _)
  obtain ⟨a, b, c, d⟩ := toM_of_sees (h.setPc (base + k + 4))
  refine ⟨st', hs, hv.congr c b a ?_ (fun _ _ _ _ => rfl) (fun _ => rfl)⟩
  intro i hi
  show (C03S.MState.setS _ _ _).sreg i = _
  rw [setS_sreg, d A (by omega), d B (by omega)]
  by_cases hi0 : i = D
  · simp [hi0]
  · simp only [hi0, if_false]; exact d i hi

open C03S in
theorem sem_saveexec : C03S.specSem ⟨2, 32, 0, 106, 0, 0, 0⟩ = some ⟨64, 64, 0, Spec.s_and_saveexec_b64⟩ := rfl
open C03S in
theorem exe_saveexec (M : MState) (hv : M.vcc < 18446744073709551616) (he : M.exec < 18446744073709551616) :
    ∃ m', execute ⟨64, 64, 0, Spec.s_and_saveexec_b64⟩ ⟨2, 32, 0, 106, 0, 0, 0⟩ M = some m' ∧
    m'.s = ((M.setS 0 (M.exec % 4294967296)).setS 1 (M.exec / 4294967296 % 4294967296)).s ∧
    m'.vcc = M.vcc ∧ m'.exec = M.vcc &&& M.exec ∧ m'.pc = M.pc := by
  rw [Iface.execute_eq _ _ _ _ (Iface.fetch_sop1 64 0 32 0 106 0 0 0 M _ (Iface.read_vcc64 M _))]
  rw [Iface.commit_sgpr64 2 32 0 106 0 0 0 (Or.inr (Or.inr rfl)) (by decide) M _ _ rfl]
  refine ⟨_, rfl, ?_, ?_, ?_, ?_⟩
  · rw [Iface.commitSpecial_s]
    simp [Iface.scalarIn, Nat.mod_eq_of_lt he]
  · rw [Iface.commitSpecial_vcc]; rfl
  · rw [Iface.commitSpecial_exec]
    simp [Iface.scalarIn, Spec.s_and_saveexec_b64, Spec.saveexec, Nat.mod_eq_of_lt he, Nat.mod_eq_of_lt hv]
  · rw [Iface.commitSpecial_pc]; rfl

/-- S_AND_SAVEEXEC_B64 s[0:1], vcc -/
theorem step_saveexec (P : Program) (hP : P.cdna3 = false) (base k : Nat)
    (hd : DecS ((P.code.drop k).take 8) 2 32 4 ⟨2, 32, 0, 106, 0, 0, 0⟩) (st : St) (V : View)
    (h : Sees st V) (hpc : V.pc = base + k) (hvcc : V.vcc < 18446744073709551616) (hexec : V.exec < 18446744073709551616) :
    ∃ st', step P base st = .ok (st', .next) ∧
      Sees st' { V with pc := base + k + 4, exec := V.vcc &&& V.exec,
                        rs := fun i => if i = 1 then V.exec / 4294967296 % 4294967296
                                       else if i = 0 then V.exec % 4294967296 else V.rs i } := by
  obtain ⟨a, b, c, d⟩ := toM_of_sees (h.setPc (base + k + 4))
  obtain ⟨m', he, hs', hvcc2, hexec2, hpc2⟩ := exe_saveexec (toM { st with pc := base + k + 4 })
    (by rw [a]; exact hvcc) (by rw [b]; exact hexec)
  obtain ⟨st', hs, hv⟩ := step_scalar_view P hP base k 2 32 4 _ hd (by omega) (by omega) _ sem_saveexec st V h hpc m' he
  refine ⟨st', hs, hv.congr (hpc2.trans c) (by rw [hexec2, a, b]) (hvcc2.trans a) ?_ (fun _ _ _ _ => rfl) (fun _ => rfl)⟩
  intro i hi
  show m'.sreg i = _
  rw [sreg_of_s _ m' hs', setS_sreg, setS_sreg, b]
  by_cases hi1 : i = 1
  · simp [hi1]
  · by_cases hi0 : i = 0
    · simp [hi0]
    · simp only [hi0, hi1, if_false]; exact d i hi

open C03S in
theorem sem_execz (x : Nat) : C03S.specSem ⟨4, 8, 0, 0, 0, x, 0⟩ = some ⟨0, 0, 0, Spec.s_cbranch_execz⟩ := rfl
open C03S in
theorem exe_execz18 (M : MState) (he : M.exec < 18446744073709551616) (hp : M.pc + 72 < 18446744073709551616) :
    ∃ m', execute ⟨0, 0, 0, Spec.s_cbranch_execz⟩ ⟨4, 8, 0, 0, 0, 18, 0⟩ M = some m' ∧
    m'.s = M.s ∧ m'.vcc = M.vcc ∧ m'.exec = M.exec ∧ m'.pc = if M.exec = 0 then M.pc + 72 else M.pc := by
  have hz : (BitVec.ofNat 64 M.exec = 0#64) ↔ M.exec = 0 := by
    rw [BitVec.toNat_eq]
    simp [Nat.mod_eq_of_lt he]
  rw [Iface.execute_eq _ _ _ _ (Iface.fetch_sopp 0 0 8 0 0 0 18 0 M)]
  show ∃ m', commit 0 ⟨4, 8, 0, 0, 0, 18, 0⟩ M (Spec.s_cbranch_execz (Iface.scalarIn M 0 0 0 18)) = some m' ∧ _
  by_cases h0 : M.exec = 0
  · have h0' : BitVec.ofNat 64 M.exec = 0#64 := hz.mpr h0
    have ho : (Spec.s_cbranch_execz (Iface.scalarIn M 0 0 0 18)) = Spec.retPc (BitVec.ofNat 64 M.pc + 72#64) := by
      simp [Spec.s_cbranch_execz, Spec.cbranch, Iface.scalarIn, h0', Spec.target, Spec.imm64]
    rw [ho, Iface.commit_nodst _ _ _ _ rfl]
    refine ⟨_, rfl, Iface.commitSpecial_s _ _, ?_, ?_, ?_⟩
    · rw [Iface.commitSpecial_vcc]; rfl
    · rw [Iface.commitSpecial_exec]; rfl
    · rw [Iface.commitSpecial_pc, if_pos h0]
      simp [Spec.retPc, BitVec.toNat_add]
      omega
  · have h0' : ¬ BitVec.ofNat 64 M.exec = 0#64 := fun e => h0 (hz.mp e)
    have ho : (Spec.s_cbranch_execz (Iface.scalarIn M 0 0 0 18)) = Spec.nothing := by
      simp [Spec.s_cbranch_execz, Spec.cbranch, Iface.scalarIn, h0']
    rw [ho, Iface.commit_nodst _ _ _ _ rfl]
    refine ⟨_, rfl, Iface.commitSpecial_s _ _, ?_, ?_, ?_⟩
    · rw [Iface.commitSpecial_vcc]; rfl
    · rw [Iface.commitSpecial_exec]; rfl
    · rw [Iface.commitSpecial_pc, if_neg h0]; rfl

/-- S_CBRANCH_EXECZ 18 -/
theorem step_execz18 (P : Program) (hP : P.cdna3 = false) (base k : Nat)
    (hd : DecS ((P.code.drop k).take 8) 4 8 4 ⟨4, 8, 0, 0, 0, 18, 0⟩) (st : St) (V : View)
    (h : Sees st V) (hpc : V.pc = base + k) (hexec : V.exec < 18446744073709551616)
    (hb : base + k + 76 < 18446744073709551616) :
    ∃ st', step P base st = .ok (st', .next) ∧
      Sees st' { V with pc := if V.exec = 0 then base + k + 76 else base + k + 4 } := by
  obtain ⟨a, b, c, d⟩ := toM_of_sees (h.setPc (base + k + 4))
  obtain ⟨m', he, hs', hvcc2, hexec2, hpc2⟩ := exe_execz18 (toM { st with pc := base + k + 4 })
    (by rw [b]; exact hexec) (by rw [c]; show base + k + 4 + 72 < _; omega)
  obtain ⟨st', hs, hv⟩ := step_scalar_view P hP base k 4 8 4 _ hd (by omega) (by omega) _ (sem_execz 18) st V h hpc m' he
  refine ⟨st', hs, hv.congr ?_ (hexec2.trans b) (hvcc2.trans a) ?_ (fun _ _ _ _ => rfl) (fun _ => rfl)⟩
  · show m'.pc = _
    rw [hpc2, b, c]
  · intro i hi
    show m'.sreg i = _
    rw [sreg_of_s _ m' hs']
    exact d i hi


/-! ## vector-ALU classes -/

/-- a `Simple` vector-ALU instruction with VCC as mask destination; `d`, `co` are the lane function's
    outputs.  32-bit destination. -/
theorem step_valu32 (P : Program) (hP : P.cdna3 = false) (base k sz ft op : Nat)
    (hd : DecV ((P.code.drop k).take 8) ft op sz) (hft : 4 < ft) (name : String)
    (e : VEnc) (hs : Simple e) (hsd : e.sdst = 106) (hw : (e.op.kind == Kind.cmp) = false → e.op.wd = 32)
    (st : St) (V : View) (h : Sees st V) (hpc : V.pc = base + k)
    (hex : exec false { st with pc := base + k + sz } (((P.code.drop k).take 8).take sz) =
      some (name, execVALU { st with pc := base + k + sz } e))
    (d : Nat → Nat) (co : Nat → Bool)
    (hO : ∀ l, l < 64 → laneO { st with pc := base + k + sz } e l = ⟨d l, co l⟩) :
    ∃ st', step P base st = .ok (st', .next) ∧ Sees st'
      { V with pc := base + k + sz,
               vcc := if e.op.kind == .plain then V.vcc else maskUpTo (fun l => V.exec.testBit l && co l) 64,
               rv := fun r l => if V.exec.testBit l = true ∧ (e.op.kind == .cmp) = false ∧ r = e.vdst
                                then d l % 2 ^ 32 else V.rv r l } := by
  have hpc' : st.pc = base + k := h.pc.trans hpc
  refine ⟨_, step_vec P hP base k st hpc' ft op sz hd hft name _ hex, ?_⟩
  generalize hst1 : ({ st with pc := base + k + sz } : St) = st1 at hO ⊢
  have h1 : Sees st1 { V with pc := base + k + sz } := by rw [← hst1]; exact h.setPc _
  obtain ⟨fe, _, fpc, _, fmem, _, frs, fss, fvs, fvcc⟩ := valu_frame st1 e hs hsd
  refine ⟨by rw [fss]; exact h1.ssz, by rw [fvs]; exact h1.vsz, ?_, ?_, ?_, ?_, ?_, ?_⟩
  · rw [fpc]; exact h1.pc
  · rw [fe]; exact h1.exec
  · rw [fvcc]
    split
    · exact h1.vcc
    · apply maskUpTo_congr
      intro l hl
      simp only [laneCo, hO l hl, h1.exec]
  · intro i hi
    rw [frs i (by rw [h1.ssz]; exact hi)]; exact h1.rs i hi
  · intro r l hr hl
    have hb : r * 64 + l < st1.v.size := by rw [h1.vsz]; omega
    rw [rv_valu st1 e hs r l hl hb (by
      intro w hw'
      split at hw'
      · cases hw'
      · rw [hsd, wrMask_vcc] at hw'
        simp only [List.mem_cons, List.mem_nil_iff, or_false] at hw'
        subst hw'; rfl)]
    unfold laneW
    rw [h1.exec, hO l hl]
    simp only
    by_cases hx : V.exec.testBit l = true
    · by_cases hc : (e.op.kind == Kind.cmp) = true
      · simp [hx, hc, h1.rv r l hr hl]
      · have hc' : (e.op.kind == Kind.cmp) = false := by simpa using hc
        rw [hw hc']
        simp only [hx, hc', Bool.not_true, Bool.false_eq_true, if_false, sel_wrV32 r l e.vdst (d l) _ hl, true_and]
        by_cases hrd : r = e.vdst
        · simp [hrd, lo32]
        · simp [hrd, h1.rv r l hr hl]
    · simp [hx, h1.rv r l hr hl]
  · intro a
    show (applyWrs st1 (execVALU st1 e)).rmem a = _
    unfold St.rmem
    rw [fmem]
    exact h1.mem a

/-- the same with a 64-bit destination pair (plain kinds) -/
theorem step_valu64 (P : Program) (hP : P.cdna3 = false) (base k sz ft op : Nat)
    (hd : DecV ((P.code.drop k).take 8) ft op sz) (hft : 4 < ft) (name : String)
    (e : VEnc) (hs : Simple e) (hsd : e.sdst = 106) (hw : e.op.wd = 64) (hk : e.op.kind = .plain)
    (st : St) (V : View) (h : Sees st V) (hpc : V.pc = base + k)
    (hex : exec false { st with pc := base + k + sz } (((P.code.drop k).take 8).take sz) =
      some (name, execVALU { st with pc := base + k + sz } e))
    (d : Nat → Nat)
    (hO : ∀ l, l < 64 → (laneO { st with pc := base + k + sz } e l).d = d l) :
    ∃ st', step P base st = .ok (st', .next) ∧ Sees st'
      { V with pc := base + k + sz,
               rv := fun r l => if V.exec.testBit l = true ∧ r = e.vdst + 1 then d l / 2 ^ 32 % 2 ^ 32
                                else if V.exec.testBit l = true ∧ r = e.vdst then d l % 2 ^ 32 else V.rv r l } := by
  have hpc' : st.pc = base + k := h.pc.trans hpc
  refine ⟨_, step_vec P hP base k st hpc' ft op sz hd hft name _ hex, ?_⟩
  generalize hst1 : ({ st with pc := base + k + sz } : St) = st1 at hO ⊢
  have h1 : Sees st1 { V with pc := base + k + sz } := by rw [← hst1]; exact h.setPc _
  obtain ⟨fe, _, fpc, _, fmem, _, frs, fss, fvs, fvcc⟩ := valu_frame st1 e hs hsd
  have hkp : (e.op.kind == Kind.plain) = true := by rw [hk]; rfl
  have hkc : (e.op.kind == Kind.cmp) = false := by rw [hk]; rfl
  refine ⟨by rw [fss]; exact h1.ssz, by rw [fvs]; exact h1.vsz, ?_, ?_, ?_, ?_, ?_, ?_⟩
  · rw [fpc]; exact h1.pc
  · rw [fe]; exact h1.exec
  · rw [fvcc, hkp]; exact h1.vcc
  · intro i hi
    rw [frs i (by rw [h1.ssz]; exact hi)]; exact h1.rs i hi
  · intro r l hr hl
    have hb : r * 64 + l < st1.v.size := by rw [h1.vsz]; omega
    rw [rv_valu st1 e hs r l hl hb (by
      intro w hw'
      rw [hkp] at hw'
      cases hw')]
    unfold laneW
    rw [h1.exec, hO l hl, hw, hkc]
    simp only
    by_cases hx : V.exec.testBit l = true
    · simp only [hx, Bool.not_true, Bool.false_eq_true, if_false, sel_wrV64 r l e.vdst (d l) _ hl, true_and]
      by_cases h1' : r = e.vdst + 1
      · simp [h1']
      · by_cases h2' : r = e.vdst
        · simp [h1', h2', lo32]
        · simp [h1', h2', h1.rv r l hr hl]
    · simp [hx, h1.rv r l hr hl]
  · intro a
    show (applyWrs st1 (execVALU st1 e)).rmem a = _
    unfold St.rmem
    rw [fmem]
    exact h1.mem a

/-- V_ADD_U32 vD, vcc, sS, vR (VOP2 25, `v_add_co_u32`) -/
def eAdd (S R D : Nat) : VEnc := { op := co32 "v_add_co_u32" I.addCo, src0 := S, src1 := 256 + R, vdst := D, lit := 0 }

theorem laneO_eAdd (st : St) (S R D l : Nat) (hS : S ≤ 101) :
    laneO st (eAdd S R D) l =
      ⟨(st.rs S % 2 ^ 32 + st.rv R l % 2 ^ 32) % 2 ^ 32, decide (st.rs S % 2 ^ 32 + st.rv R l % 2 ^ 32 ≥ 2 ^ 32)⟩ := by
  have m := addCo_meaning (w32 (lo32 (st.rs S))) (w32 (lo32 (st.rv R l)))
  have e1 : (w32 (lo32 (st.rs S))).toNat = st.rs S % 2 ^ 32 := by simp [w32, lo32]
  have e2 : (w32 (lo32 (st.rv R l))).toNat = st.rv R l % 2 ^ 32 := by simp [w32, lo32]
  rw [e1, e2] at m
  have ha : laneRd st (eAdd S R D) l (eAdd S R D).src0 (eAdd S R D).op.w0 0 = lo32 (st.rs S) := by
    show laneRd st (eAdd S R D) l S 32 0 = _
    rw [laneRd_int32 st _ l _ 0 rfl rfl, src_sgpr st S l 32 _ false hS rfl]
  have hb : laneRd st (eAdd S R D) l (eAdd S R D).src1 (eAdd S R D).op.w1 1 = lo32 (st.rv R l) := by
    show laneRd st (eAdd S R D) l (256 + R) 32 1 = _
    rw [laneRd_int32 st _ l _ 1 rfl rfl, src_vgpr]
  unfold laneO
  rw [ha, hb]
  show (let r := I.addCo (w32 (lo32 (st.rs S))) (w32 (lo32 (st.rv R l))); (⟨r.1.toNat, r.2⟩ : LaneOut)) = _
  simp only [m.1, m.2]

theorem step_vadd (P : Program) (hP : P.cdna3 = false) (base k S R D : Nat) (hS : S ≤ 101) (hR : R < 256)
    (hd : DecV ((P.code.drop k).take 8) 6 25 4)
    (hex : ∀ st, exec false st (((P.code.drop k).take 8).take 4) = some ("v_add_co_u32", execVALU st (eAdd S R D)))
    (st : St) (V : View) (h : Sees st V) (hpc : V.pc = base + k) :
    ∃ st', step P base st = .ok (st', .next) ∧ Sees st'
      { V with pc := base + k + 4,
               vcc := maskUpTo (fun l => V.exec.testBit l && decide (V.rs S % 2 ^ 32 + V.rv R l % 2 ^ 32 ≥ 2 ^ 32)) 64,
               rv := fun r l => if V.exec.testBit l = true ∧ r = D
                                then (V.rs S % 2 ^ 32 + V.rv R l % 2 ^ 32) % 2 ^ 32 else V.rv r l } := by
  obtain ⟨st', hs, hv⟩ := step_valu32 P hP base k 4 6 25 hd (by omega) _ (eAdd S R D)
    ⟨rfl, Or.inr (Or.inl rfl), rfl⟩ rfl (fun _ => rfl) st V h hpc (hex _)
    (fun l => (V.rs S % 2 ^ 32 + V.rv R l % 2 ^ 32) % 2 ^ 32)
    (fun l => decide (V.rs S % 2 ^ 32 + V.rv R l % 2 ^ 32 ≥ 2 ^ 32))
    (by
      intro l hl
      rw [laneO_eAdd _ S R D l hS]
      have e1 : ({ st with pc := base + k + 4 } : St).rs S = V.rs S := h.rs S (by omega)
      have e2 : ({ st with pc := base + k + 4 } : St).rv R l = V.rv R l := h.rv R l hR hl
      rw [e1, e2])
  refine ⟨st', hs, hv.congr rfl rfl rfl (fun _ _ => rfl) ?_ (fun _ => rfl)⟩
  intro r l hr hl
  show (if V.exec.testBit l = true ∧ ((eAdd S R D).op.kind == Kind.cmp) = false ∧ r = (eAdd S R D).vdst then _ else _) = _
  have : ((eAdd S R D).op.kind == Kind.cmp) = false := rfl
  simp only [this, true_and, Nat.mod_mod]
  rfl

/-- V_ADDC_U32 vD, vcc, vA, vB, vcc (VOP2 28, `v_addc_co_u32`) -/
def eAddc (A B D : Nat) : VEnc :=
  { op := cio32 "v_addc_co_u32" I.addcCo, src0 := 256 + A, src1 := 256 + B, vdst := D, lit := 0 }

theorem laneO_eAddc (st : St) (A B D l : Nat) :
    laneO st (eAddc A B D) l =
      ⟨(st.rv A l % 2 ^ 32 + st.rv B l % 2 ^ 32 + (st.vcc.testBit l).toNat) % 2 ^ 32,
       decide (st.rv A l % 2 ^ 32 + st.rv B l % 2 ^ 32 + (st.vcc.testBit l).toNat ≥ 2 ^ 32)⟩ := by
  have m := addcCo_meaning (w32 (lo32 (st.rv A l))) (w32 (lo32 (st.rv B l))) (st.vcc.testBit l)
  have e1 : (w32 (lo32 (st.rv A l))).toNat = st.rv A l % 2 ^ 32 := by simp [w32, lo32]
  have e2 : (w32 (lo32 (st.rv B l))).toNat = st.rv B l % 2 ^ 32 := by simp [w32, lo32]
  rw [e1, e2] at m
  have ha : laneRd st (eAddc A B D) l (eAddc A B D).src0 (eAddc A B D).op.w0 0 = lo32 (st.rv A l) := by
    show laneRd st (eAddc A B D) l (256 + A) 32 0 = _
    rw [laneRd_int32 st _ l _ 0 rfl rfl, src_vgpr]
  have hb : laneRd st (eAddc A B D) l (eAddc A B D).src1 (eAddc A B D).op.w1 1 = lo32 (st.rv B l) := by
    show laneRd st (eAddc A B D) l (256 + B) 32 1 = _
    rw [laneRd_int32 st _ l _ 1 rfl rfl, src_vgpr]
  have hc : (st.sreg64 (eAddc A B D).msrc) = st.vcc := rfl
  unfold laneO
  rw [ha, hb, hc]
  show (let r := I.addcCo (w32 (lo32 (st.rv A l))) (w32 (lo32 (st.rv B l))) (st.vcc.testBit l); (⟨r.1.toNat, r.2⟩ : LaneOut)) = _
  simp only [m.1, m.2]

theorem step_vaddc (P : Program) (hP : P.cdna3 = false) (base k A B D : Nat) (hA : A < 256) (hB : B < 256)
    (hd : DecV ((P.code.drop k).take 8) 6 28 4)
    (hex : ∀ st, exec false st (((P.code.drop k).take 8).take 4) = some ("v_addc_co_u32", execVALU st (eAddc A B D)))
    (st : St) (V : View) (h : Sees st V) (hpc : V.pc = base + k) :
    ∃ st', step P base st = .ok (st', .next) ∧ Sees st'
      { V with pc := base + k + 4,
               vcc := maskUpTo (fun l => V.exec.testBit l &&
                  decide (V.rv A l % 2 ^ 32 + V.rv B l % 2 ^ 32 + (V.vcc.testBit l).toNat ≥ 2 ^ 32)) 64,
               rv := fun r l => if V.exec.testBit l = true ∧ r = D
                                then (V.rv A l % 2 ^ 32 + V.rv B l % 2 ^ 32 + (V.vcc.testBit l).toNat) % 2 ^ 32
                                else V.rv r l } := by
  obtain ⟨st', hs, hv⟩ := step_valu32 P hP base k 4 6 28 hd (by omega) _ (eAddc A B D)
    ⟨rfl, Or.inr (Or.inr (Or.inl rfl)), rfl⟩ rfl (fun _ => rfl) st V h hpc (hex _)
    (fun l => (V.rv A l % 2 ^ 32 + V.rv B l % 2 ^ 32 + (V.vcc.testBit l).toNat) % 2 ^ 32)
    (fun l => decide (V.rv A l % 2 ^ 32 + V.rv B l % 2 ^ 32 + (V.vcc.testBit l).toNat ≥ 2 ^ 32))
    (by
      intro l hl
      rw [laneO_eAddc _ A B D l]
      have e1 : ({ st with pc := base + k + 4 } : St).rv A l = V.rv A l := h.rv A l hA hl
      have e2 : ({ st with pc := base + k + 4 } : St).rv B l = V.rv B l := h.rv B l hB hl
      have e3 : ({ st with pc := base + k + 4 } : St).vcc = V.vcc := h.vcc
      rw [e1, e2, e3])
  refine ⟨st', hs, hv.congr rfl rfl rfl (fun _ _ => rfl) ?_ (fun _ => rfl)⟩
  intro r l hr hl
  show (if V.exec.testBit l = true ∧ ((eAddc A B D).op.kind == Kind.cmp) = false ∧ r = (eAddc A B D).vdst then _ else _) = _
  have : ((eAddc A B D).op.kind == Kind.cmp) = false := rfl
  simp only [this, true_and, Nat.mod_mod]
  rfl

/-- V_MOV_B32 vD, src (VOP1 1) -/
def eMov (c D : Nat) : VEnc := { op := un32 "v_mov_b32" id, src0 := c, src1 := 0, vdst := D, lit := 0 }

theorem laneO_eMov (st : St) (c D l : Nat) :
    laneO st (eMov c D) l = ⟨st.src c l 32 0 false % 2 ^ 32, false⟩ := by
  have ha : laneRd st (eMov c D) l (eMov c D).src0 (eMov c D).op.w0 0 = lo32 (st.src c l 32 0 false) := by
    show laneRd st (eMov c D) l c 32 0 = _
    rw [laneRd_int32 st _ l _ 0 rfl rfl]
    rfl
  unfold laneO
  rw [ha]
  show (⟨(id (w32 (lo32 (st.src c l 32 0 false)))).toNat, false⟩ : LaneOut) = _
  simp [w32, lo32]

/-- the per-lane value `val` is what the source operand reads -/
theorem step_vmov (P : Program) (hP : P.cdna3 = false) (base k c D : Nat)
    (hd : DecV ((P.code.drop k).take 8) 7 1 4)
    (hex : ∀ st, exec false st (((P.code.drop k).take 8).take 4) = some ("v_mov_b32", execVALU st (eMov c D)))
    (st : St) (V : View) (h : Sees st V) (hpc : V.pc = base + k) (val : Nat → Nat)
    (hval : ∀ l, l < 64 → ({ st with pc := base + k + 4 } : St).src c l 32 0 false % 2 ^ 32 = val l) :
    ∃ st', step P base st = .ok (st', .next) ∧ Sees st'
      { V with pc := base + k + 4,
               rv := fun r l => if V.exec.testBit l = true ∧ r = D then val l else V.rv r l } := by
  obtain ⟨st', hs, hv⟩ := step_valu32 P hP base k 4 7 1 hd (by omega) _ (eMov c D)
    ⟨rfl, Or.inl rfl, rfl⟩ rfl (fun _ => rfl) st V h hpc (hex _) val (fun _ => false)
    (by
      intro l hl
      rw [laneO_eMov, hval l hl])
  refine ⟨st', hs, hv.congr rfl rfl rfl (fun _ _ => rfl) ?_ (fun _ => rfl)⟩
  intro r l hr hl
  show (if V.exec.testBit l = true ∧ ((eMov c D).op.kind == Kind.cmp) = false ∧ r = (eMov c D).vdst then _ else _) = _
  have : ((eMov c D).op.kind == Kind.cmp) = false := rfl
  simp only [this, true_and]
  have hm : val l % 2 ^ 32 = val l := by
    rw [← hval l hl]; exact Nat.mod_mod _ _
  rw [hm]
  rfl


/-- integer compare (VOPC) sS, vR with lane predicate `c` -/
theorem step_vcmp32 (P : Program) (hP : P.cdna3 = false) (base k op S R : Nat) (hS : S ≤ 101) (hR : R < 256)
    (hd : DecV ((P.code.drop k).take 8) 10 op 4) (name : String) (e : VEnc)
    (hs : Simple e) (hk : e.op.kind = .cmp) (hsd : e.sdst = 106) (hty : e.op.ty = .int)
    (hw0 : e.op.w0 = 32) (hw1 : e.op.w1 = 32) (hn : e.op.nsrc = 2) (hs0 : e.src0 = S) (hs1 : e.src1 = 256 + R)
    (c : Nat → Nat → Bool) (hf : ∀ x : LaneIn, (e.op.f x).co = c x.a x.b)
    (hex : ∀ st, exec false st (((P.code.drop k).take 8).take 4) = some (name, execVALU st e))
    (st : St) (V : View) (h : Sees st V) (hpc : V.pc = base + k) :
    ∃ st', step P base st = .ok (st', .next) ∧ Sees st'
      { V with pc := base + k + 4,
               vcc := maskUpTo (fun l => V.exec.testBit l && c (V.rs S % 2 ^ 32) (V.rv R l % 2 ^ 32)) 64 } := by
  obtain ⟨st', hst, hv⟩ := step_valu32 P hP base k 4 10 op hd (by omega) name e hs hsd (fun hc => by rw [hk] at hc; cases hc) st V h hpc (hex _)
    (fun l => (laneO { st with pc := base + k + 4 } e l).d)
    (fun l => c (V.rs S % 2 ^ 32) (V.rv R l % 2 ^ 32))
    (by
      intro l hl
      have ha : laneRd { st with pc := base + k + 4 } e l e.src0 e.op.w0 0 = V.rs S % 2 ^ 32 := by
        rw [hs0, hw0, laneRd_int32 _ _ l _ 0 hs.sdwa hty, src_sgpr _ S l 32 _ false hS rfl]
        show lo32 (st.rs S) = _
        rw [h.rs S (by omega)]; rfl
      have hb : laneRd { st with pc := base + k + 4 } e l e.src1 e.op.w1 1 = V.rv R l % 2 ^ 32 := by
        rw [hs1, hw1, laneRd_int32 _ _ l _ 1 hs.sdwa hty, src_vgpr]
        show lo32 (st.rv R l) = _
        rw [h.rv R l hR hl]; rfl
      have hco : (laneO { st with pc := base + k + 4 } e l).co = c (V.rs S % 2 ^ 32) (V.rv R l % 2 ^ 32) := by
        unfold laneO
        rw [hf, ha, hn]
        simp only [ge_iff_le, Nat.le_refl, if_true, hb]
      cases hlo : laneO { st with pc := base + k + 4 } e l with
      | mk dd cc =>
        rw [hlo] at hco
        simp only at hco ⊢
        rw [hco])
  have hkc : (e.op.kind == Kind.cmp) = true := by rw [hk]; rfl
  have hkp : (e.op.kind == Kind.plain) = false := by rw [hk]; rfl
  refine ⟨st', hst, hv.congr rfl rfl ?_ (fun _ _ => rfl) ?_ (fun _ => rfl)⟩
  · show (if (e.op.kind == Kind.plain) = true then _ else _) = _
    rw [hkp]; rfl
  · intro r l hr hl
    show (if V.exec.testBit l = true ∧ (e.op.kind == Kind.cmp) = false ∧ r = e.vdst then _ else _) = _
    rw [hkc]
    simp

theorem cmpI_gt_meaning (a b : I.W) : I.cmpI 4 a b = decide (a.toInt > b.toInt) := by
  simp only [I.cmpI, I.cmpOp, BitVec.slt, gt_iff_lt]
  by_cases h : a = b
  · subst h; simp
  · have hne : (a == b) = false := by simpa using h
    have hi : a.toInt ≠ b.toInt := fun e => h (BitVec.eq_of_toInt_eq e)
    simp only [hne, Bool.or_false]
    by_cases hl : a.toInt < b.toInt
    · have : ¬ b.toInt < a.toInt := by omega
      simp [hl, this]
    · have : b.toInt < a.toInt := by omega
      simp [hl, this]

/-- for values below 2^31 the signed compare is the compare of the numbers -/
theorem cmp_gt_small (a b : Nat) (ha : a < 2 ^ 31) (hb : b < 2 ^ 31) :
    I.cmpI 4 (w32 a) (w32 b) = decide (b < a) := by
  rw [cmpI_gt_meaning]
  have e1 : (w32 a).toInt = a := by
    unfold w32
    have hm : a % 2 ^ 32 = a := Nat.mod_eq_of_lt (by omega)
    rw [BitVec.toInt_eq_toNat_of_lt (by simp only [BitVec.toNat_ofNat, hm]; omega)]
    simp only [BitVec.toNat_ofNat, hm]
  have e2 : (w32 b).toInt = b := by
    unfold w32
    have hm : b % 2 ^ 32 = b := Nat.mod_eq_of_lt (by omega)
    rw [BitVec.toInt_eq_toNat_of_lt (by simp only [BitVec.toNat_ofNat, hm]; omega)]
    simp only [BitVec.toNat_ofNat, hm]
  rw [e1, e2]
  simp only [gt_iff_lt, Int.ofNat_lt]

/-! ## V_ASHRREV_I64 by an inline constant -/

theorem ashr_small (n b : Nat) (hn : n < 64) (hb : b < 2 ^ 63) :
    (I.ashrrev64 (w32 n) (w64 b)).toNat = b / 2 ^ n := by
  unfold I.ashrrev64
  have h1 : ((w32 n) &&& 63#32).toNat = n := by
    simp only [w32, BitVec.toNat_and, BitVec.toNat_ofNat]
    have := Nat.and_two_pow_sub_one_eq_mod (n % 2 ^ 32) 6
    simp only [show (2 : Nat) ^ 6 - 1 = 63 from rfl] at this
    show n % 2 ^ 32 &&& 63 = n
    rw [this]; omega
  rw [h1]
  have hm : (w64 b).msb = false := by
    rw [BitVec.msb_eq_decide]
    simp only [w64, BitVec.toNat_ofNat]
    have : b % 2 ^ 64 = b := Nat.mod_eq_of_lt (by omega)
    rw [this]
    simp only [decide_eq_false_iff_not, Nat.not_le]
    omega
  rw [BitVec.sshiftRight_eq_of_msb_false hm, BitVec.toNat_ushiftRight, Nat.shiftRight_eq_div_pow]
  simp only [w64, BitVec.toNat_ofNat]
  rw [Nat.mod_eq_of_lt (by omega)]


/-- V_ASHRREV_I64 v[D:D+1], n, v[R:R+1] (VOP3a 657) with an inline shift count -/
theorem step_vashr64 (P : Program) (hP : P.cdna3 = false) (base k n R D : Nat) (hn : n < 64) (hR : R + 1 < 256)
    (hd : DecV ((P.code.drop k).take 8) 8 657 8) (name : String) (e : VEnc)
    (hs : Simple e) (hk : e.op.kind = .plain) (hsd : e.sdst = 106) (hwd : e.op.wd = 64) (hty : e.op.ty = .int)
    (hw0 : e.op.w0 = 32) (hw1 : e.op.w1 = 64) (hns : e.op.nsrc = 2) (hs0 : e.src0 = 128 + n) (hs1 : e.src1 = 256 + R)
    (hvd : e.vdst = D)
    (hf : ∀ x : LaneIn, (e.op.f x).d = (I.ashrrev64 (w32 x.a) (w64 x.b)).toNat)
    (hex : ∀ st, exec false st (((P.code.drop k).take 8).take 8) = some (name, execVALU st e))
    (st : St) (V : View) (h : Sees st V) (hpc : V.pc = base + k)
    (hpos : ∀ l, l < 64 → V.exec.testBit l = true → V.rv R l + V.rv (R + 1) l * 2 ^ 32 < 2 ^ 63) :
    ∃ st', step P base st = .ok (st', .next) ∧ Sees st'
      { V with pc := base + k + 8,
               rv := fun r l => if V.exec.testBit l = true ∧ r = D + 1
                                then (V.rv R l + V.rv (R + 1) l * 2 ^ 32) / 2 ^ n / 2 ^ 32 % 2 ^ 32
                                else if V.exec.testBit l = true ∧ r = D
                                then (V.rv R l + V.rv (R + 1) l * 2 ^ 32) / 2 ^ n % 2 ^ 32 else V.rv r l } := by
  obtain ⟨st', hst, hv⟩ := step_valu64 P hP base k 8 8 657 hd (by omega) name e hs hsd hwd hk st V h hpc (hex _)
    (fun l => if V.exec.testBit l = true then (V.rv R l + V.rv (R + 1) l * 2 ^ 32) / 2 ^ n
              else (laneO { st with pc := base + k + 8 } e l).d)
    (by
      intro l hl
      by_cases hx : V.exec.testBit l = true
      · simp only [hx, if_true]
        have ha : laneRd { st with pc := base + k + 8 } e l e.src0 e.op.w0 0 = n := by
          rw [hs0, hw0, laneRd_int32 _ _ l _ 0 hs.sdwa hty, src_inline _ _ l 32 _ false (by omega) (by omega)]
          show lo32 (128 + n - 128) = n
          rw [Nat.add_sub_cancel_left]
          exact Nat.mod_eq_of_lt (by omega)
        have hb : laneRd { st with pc := base + k + 8 } e l e.src1 e.op.w1 1 = V.rv R l + V.rv (R + 1) l * 2 ^ 32 := by
          rw [hs1, hw1, laneRd_int64 _ _ l _ 1 hs.sdwa hty, src_vgpr64]
          show (st.rv R l + st.rv (R + 1) l * 2 ^ 32) % 2 ^ 64 = _
          rw [h.rv R l (by omega) hl, h.rv (R + 1) l hR hl]
          exact Nat.mod_eq_of_lt (by have := hpos l hl hx; omega)
        unfold laneO
        rw [hf, ha, hns]
        simp only [ge_iff_le, Nat.le_refl, if_true, hb]
        exact ashr_small n _ hn (hpos l hl hx)
      · simp only [hx, Bool.false_eq_true, if_false])
  refine ⟨st', hst, hv.congr rfl rfl rfl (fun _ _ => rfl) ?_ (fun _ => rfl)⟩
  intro r l hr hl
  show (if V.exec.testBit l = true ∧ r = e.vdst + 1 then _ else if V.exec.testBit l = true ∧ r = e.vdst then _ else _) = _
  rw [hvd]
  by_cases hx : V.exec.testBit l = true <;> simp [hx]

/-! ## memory classes -/

/-- S_LOAD_DWORD{,X2,X4} s[sd:sd+n-1], s[sb:sb+1], off -/
theorem step_smem (P : Program) (hP : P.cdna3 = false) (base k op n sd sb off : Nat) (hn0 : 0 < n) (hsd : sd + n ≤ 102) (hsb : sb ≤ 100)
    (hd : DecV ((P.code.drop k).take 8) 5 op 8) (name : String)
    (hex : ∀ st, exec false st (((P.code.drop k).take 8).take 8) =
      some (name, (List.range n).flatMap fun i => wrS32 st (sd + i) (st.memRead (sAddr st sb off + 4 * i) 4)))
    (st : St) (V : View) (h : Sees st V) (hpc : V.pc = base + k) (a : Nat)
    (ha : V.rs sb + V.rs (sb + 1) * 2 ^ 32 + off = a) (ha4 : a % 4 = 0) (hnw : a + 4 * n ≤ 2 ^ 64) :
    ∃ st', step P base st = .ok (st', .next) ∧ Sees st'
      { V with pc := base + k + 8,
               rs := fun j => if sd ≤ j ∧ j < sd + n then rd32 V.mem (a + 4 * (j - sd)) % 2 ^ 32 else V.rs j } := by
  have hpc' : st.pc = base + k := h.pc.trans hpc
  have halt : a < 2 ^ 64 := by clear ha; omega
  have hrange : ∀ i, i < n → a + 4 * i + 4 ≤ 2 ^ 64 := by clear ha; intro i hi; omega
  refine ⟨_, step_vec P hP base k st hpc' 5 op 8 hd (by omega) name _ (hex _), ?_⟩
  generalize hst1 : ({ st with pc := base + k + 8 } : St) = st1
  have h1 : Sees st1 { V with pc := base + k + 8 } := by rw [← hst1]; exact h.setPc _
  have hA : sAddr st1 sb off = a := by
    rw [sAddr_eq st1 sb off hsb, h1.rs sb (by clear ha; omega), h1.rs (sb + 1) (by clear ha; omega)]
    show (V.rs sb + V.rs (sb + 1) * 2 ^ 32 + off) % 2 ^ 64 / 4 * 4 = a
    rw [ha]
    exact align4 a halt ha4
  rw [hA]
  clear ha hA
  -- the write list, one cell per destination register
  let W : Nat → List Wr := fun i => [(Cell.s (sd + i), lo32 (rd32 V.mem (a + 4 * i)))]
  have hws : ((List.range n).flatMap fun i => wrS32 st1 (sd + i) (st1.memRead (a + 4 * i) 4)) = (List.range n).flatMap W := by
    apply flatMap_congr'
    intro i hi
    have hi' : i < n := List.mem_range.mp hi
    show wrS32 st1 (sd + i) (st1.memRead (a + 4 * i) 4) = W i
    rw [wrS32_sgpr st1 _ _ (by omega), memRead4 st1 _ (hrange i hi')]
    have : st1.rmem = V.mem := funext h1.mem
    rw [this]
  rw [hws]
  have hcell : ∀ w ∈ (List.range n).flatMap W, ∃ i, i < n ∧ w.1 = Cell.s (sd + i) := by
    intro w hw
    obtain ⟨i, hi, hwi⟩ := List.mem_flatMap.mp hw
    simp only [W, List.mem_cons, List.mem_nil_iff, or_false] at hwi
    exact ⟨i, List.mem_range.mp hi, by rw [hwi]⟩
  have blind : ∀ (p : Cell → Bool), (∀ i, p (.s i) = false) → ∀ d, sel p ((List.range n).flatMap W) d = d := by
    intro p hp d
    apply sel_none
    intro w hw
    obtain ⟨i, _, hi⟩ := hcell w hw
    rw [hi, hp]
  have hml := mem_applyWrs_of_none st1 ((List.range n).flatMap W) (by
    intro w hw
    obtain ⟨i, _, hi⟩ := hcell w hw
    rw [hi])
  refine ⟨by rw [size_s_applyWrs]; exact h1.ssz, by rw [size_v_applyWrs]; exact h1.vsz, ?_, ?_, ?_, ?_, ?_, ?_⟩
  · rw [pc_applyWrs, blind _ (fun _ => rfl)]; exact h1.pc
  · rw [exec_applyWrs, blind _ (fun _ => rfl)]; exact h1.exec
  · rw [vcc_applyWrs, blind _ (fun _ => rfl)]; exact h1.vcc
  · intro j hj
    rw [rs_applyWrs _ _ _ (by rw [h1.ssz]; exact hj)]
    by_cases hin : sd ≤ j ∧ j < sd + n
    · rw [sel_flatMap_single (isS j) W (j - sd) (List.range n) _ List.nodup_range (by
        intro i hi hne w hw
        simp only [W, List.mem_cons, List.mem_nil_iff, or_false] at hw
        rw [hw]
        simp only [isS, beq_eq_false_iff_ne, ne_eq]
        omega)]
      have hm : j - sd ∈ List.range n := List.mem_range.mpr (by omega)
      have hj' : sd + (j - sd) = j := by omega
      rw [if_pos hm]
      show sel (isS j) [(Cell.s (sd + (j - sd)), lo32 (rd32 V.mem (a + 4 * (j - sd))))] (st1.rs j) = _
      rw [hj', sel_cons, sel_nil]
      have hb : isS j (Cell.s j) = true := by simp only [isS, beq_self_eq_true]
      rw [if_pos hb]
      show _ = if sd ≤ j ∧ j < sd + n then rd32 V.mem (a + 4 * (j - sd)) % 2 ^ 32 else V.rs j
      rw [if_pos hin]
      rfl
    · rw [sel_none _ _ _ (by
        intro w hw
        obtain ⟨i, hi, hwi⟩ := hcell w hw
        rw [hwi]
        simp only [isS, beq_eq_false_iff_ne, ne_eq]
        omega)]
      simp only [hin, if_false]
      exact h1.rs j hj
  · intro r l hr hl
    rw [rv_applyWrs _ _ _ _ (by rw [h1.vsz]; omega), blind _ (fun _ => rfl)]
    exact h1.rv r l hr hl
  · intro x
    show (applyWrs st1 _).rmem x = _
    unfold St.rmem
    rw [hml.1]
    exact h1.mem x


/-! ### FLAT -/

/-- FLAT_LOAD_DWORD vD, v[A:A+1] (GCN3: no offset) -/
theorem step_flat_load (P : Program) (hP : P.cdna3 = false) (base k A D : Nat) (hA : A + 1 < 256)
    (hd : DecV ((P.code.drop k).take 8) 17 20 8) (name : String)
    (hex : ∀ st, exec false st (((P.code.drop k).take 8).take 8) =
      some (name, (activeLanes st).flatMap fun l => wrVN D l 1 (st.memRead (gAddr st A l) 4)))
    (st : St) (V : View) (h : Sees st V) (hpc : V.pc = base + k) (addr : Nat → Nat)
    (haddr : ∀ l, l < 64 → V.exec.testBit l = true →
      (V.rv A l + V.rv (A + 1) l * 2 ^ 32) % 2 ^ 64 = addr l ∧ addr l + 4 ≤ 2 ^ 64) :
    ∃ st', step P base st = .ok (st', .next) ∧ Sees st'
      { V with pc := base + k + 8,
               rv := fun r l => if V.exec.testBit l = true ∧ r = D then rd32 V.mem (addr l) % 2 ^ 32 else V.rv r l } := by
  have hpc' : st.pc = base + k := h.pc.trans hpc
  refine ⟨_, step_vec P hP base k st hpc' 17 20 8 hd (by omega) name _ (hex _), ?_⟩
  generalize hst1 : ({ st with pc := base + k + 8 } : St) = st1
  have h1 : Sees st1 { V with pc := base + k + 8 } := by rw [← hst1]; exact h.setPc _
  rw [activeLanes_eq, h1.exec]
  show Sees (applyWrs st1 ((lanesOf V.exec).flatMap fun l => wrVN D l 1 (st1.memRead (gAddr st1 A l) 4))) _
  let W : Nat → List Wr := fun l => [(Cell.v D l, rd32 V.mem (addr l) % 2 ^ 32)]
  have hws : ((lanesOf V.exec).flatMap fun l => wrVN D l 1 (st1.memRead (gAddr st1 A l) 4)) = (lanesOf V.exec).flatMap W := by
    apply flatMap_congr'
    intro l hl
    obtain ⟨hl64, hx⟩ := (mem_lanesOf _ _).mp hl
    obtain ⟨ha1, ha2⟩ := haddr l hl64 hx
    show wrVN D l 1 (st1.memRead (gAddr st1 A l) 4) = W l
    rw [wrVN1, gAddr_eq, h1.rv A l (by omega) hl64, h1.rv (A + 1) l hA hl64, ha1, memRead4 st1 _ ha2]
    have : st1.rmem = V.mem := funext h1.mem
    rw [this]
  rw [hws]
  have hcell : ∀ w ∈ (lanesOf V.exec).flatMap W, ∃ l, l < 64 ∧ w.1 = Cell.v D l := by
    intro w hw
    obtain ⟨l, hl, hwl⟩ := List.mem_flatMap.mp hw
    simp only [W, List.mem_cons, List.mem_nil_iff, or_false] at hwl
    exact ⟨l, ((mem_lanesOf _ _).mp hl).1, by rw [hwl]⟩
  have blind : ∀ (p : Cell → Bool), (∀ r l, p (.v r l) = false) → ∀ d, sel p ((lanesOf V.exec).flatMap W) d = d := by
    intro p hp d
    apply sel_none
    intro w hw
    obtain ⟨l, _, hl⟩ := hcell w hw
    rw [hl, hp]
  have hml := mem_applyWrs_of_none st1 ((lanesOf V.exec).flatMap W) (by
    intro w hw
    obtain ⟨l, _, hl⟩ := hcell w hw
    rw [hl])
  refine ⟨by rw [size_s_applyWrs]; exact h1.ssz, by rw [size_v_applyWrs]; exact h1.vsz, ?_, ?_, ?_, ?_, ?_, ?_⟩
  · rw [pc_applyWrs, blind _ (fun _ _ => rfl)]; exact h1.pc
  · rw [exec_applyWrs, blind _ (fun _ _ => rfl)]; exact h1.exec
  · rw [vcc_applyWrs, blind _ (fun _ _ => rfl)]; exact h1.vcc
  · intro j hj
    rw [rs_applyWrs _ _ _ (by rw [h1.ssz]; exact hj), blind _ (fun _ _ => rfl)]
    exact h1.rs j hj
  · intro r l hr hl
    rw [rv_applyWrs _ _ _ _ (by rw [h1.vsz]; omega)]
    rw [sel_flatMap_single (isV (r * 64 + l)) W l (lanesOf V.exec) _ (lanesOf_nodup _) (by
      intro l' hl' hne w hw
      simp only [W, List.mem_cons, List.mem_nil_iff, or_false] at hw
      rw [hw]
      have := ((mem_lanesOf _ _).mp hl').1
      simp only [isV, beq_eq_false_iff_ne, ne_eq]
      omega)]
    show _ = if V.exec.testBit l = true ∧ r = D then rd32 V.mem (addr l) % 2 ^ 32 else V.rv r l
    by_cases hx : V.exec.testBit l = true
    · have hm : l ∈ lanesOf V.exec := (mem_lanesOf _ _).mpr ⟨hl, hx⟩
      rw [if_pos hm]
      show sel (isV (r * 64 + l)) [(Cell.v D l, rd32 V.mem (addr l) % 2 ^ 32)] (st1.rv r l) = _
      rw [sel_cons, sel_nil]
      by_cases hrd : r = D
      · subst hrd
        have hb : isV (r * 64 + l) (Cell.v r l) = true := by simp only [isV, beq_self_eq_true]
        rw [if_pos hb, if_pos ⟨hx, rfl⟩]
      · have hb : isV (r * 64 + l) (Cell.v D l) = false := by
          simp only [isV, beq_eq_false_iff_ne, ne_eq]; omega
        simp only [hb, Bool.false_eq_true, if_false]
        rw [if_neg (fun hc => hrd hc.2)]
        exact h1.rv r l hr hl
    · have hm : ¬ l ∈ lanesOf V.exec := fun hc => hx ((mem_lanesOf _ _).mp hc).2
      rw [if_neg hm, if_neg (fun hc => hx hc.1)]
      exact h1.rv r l hr hl
  · intro x
    show (applyWrs st1 _).rmem x = _
    unfold St.rmem
    rw [hml.1]
    exact h1.mem x

theorem sel_mem_map (a : Nat) (ps : List (Nat × Nat)) (f : Nat → Nat) :
    sel (isMem a) (ps.map fun p => (Cell.mem p.1, p.2)) (f a) = applyWrites ps f a := by
  induction ps generalizing f with
  | nil => rfl
  | cons p ps ih =>
    rw [List.map_cons, sel_cons]
    show sel (isMem a) _ (if isMem a (Cell.mem p.1) = true then p.2 else f a) = applyWrites ps (fun x => if x = p.1 then p.2 else f x) a
    rw [← ih]
    congr 1
    by_cases hpa : p.1 = a
    · simp [isMem, hpa]
    · have : ¬ a = p.1 := fun e => hpa e.symm
      simp [isMem, hpa, this]

/-- FLAT_STORE_DWORD v[A:A+1], vS (GCN3: no offset) -/
theorem step_flat_store (P : Program) (hP : P.cdna3 = false) (base k A S : Nat) (hA : A + 1 < 256) (hS : S < 256)
    (hd : DecV ((P.code.drop k).take 8) 17 28 8) (name : String)
    (hex : ∀ st, exec false st (((P.code.drop k).take 8).take 8) =
      some (name, (activeLanes st).flatMap fun l => wrMemBytes (gAddr st A l) 4 (st.rvN S l 1)))
    (st : St) (V : View) (h : Sees st V) (hpc : V.pc = base + k) (addr : Nat → Nat)
    (haddr : ∀ l, l < 64 → V.exec.testBit l = true →
      (V.rv A l + V.rv (A + 1) l * 2 ^ 32) % 2 ^ 64 = addr l ∧ addr l + 4 ≤ 2 ^ 64) :
    ∃ st', step P base st = .ok (st', .next) ∧ Sees st'
      { V with pc := base + k + 8,
               mem := applyWrites ((lanesOf V.exec).flatMap fun l => storePairs (addr l) (V.rv S l)) V.mem } := by
  have hpc' : st.pc = base + k := h.pc.trans hpc
  refine ⟨_, step_vec P hP base k st hpc' 17 28 8 hd (by omega) name _ (hex _), ?_⟩
  generalize hst1 : ({ st with pc := base + k + 8 } : St) = st1
  have h1 : Sees st1 { V with pc := base + k + 8 } := by rw [← hst1]; exact h.setPc _
  rw [activeLanes_eq, h1.exec]
  show Sees (applyWrs st1 ((lanesOf V.exec).flatMap fun l => wrMemBytes (gAddr st1 A l) 4 (st1.rvN S l 1))) _
  have hws : ((lanesOf V.exec).flatMap fun l => wrMemBytes (gAddr st1 A l) 4 (st1.rvN S l 1)) =
      ((lanesOf V.exec).flatMap fun l => storePairs (addr l) (V.rv S l)).map fun p => (Cell.mem p.1, p.2) := by
    rw [List.map_flatMap]
    apply flatMap_congr'
    intro l hl
    obtain ⟨hl64, hx⟩ := (mem_lanesOf _ _).mp hl
    obtain ⟨ha1, ha2⟩ := haddr l hl64 hx
    show wrMemBytes (gAddr st1 A l) 4 (st1.rvN S l 1) = _
    rw [gAddr_eq, h1.rv A l (by omega) hl64, h1.rv (A + 1) l hA hl64, ha1, rvN1, h1.rv S l hS hl64, wrMemBytes4 _ _ ha2]
  rw [hws]
  generalize ((lanesOf V.exec).flatMap fun l => storePairs (addr l) (V.rv S l)) = ps
  have blind : ∀ (p : Cell → Bool), (∀ x, p (.mem x) = false) → ∀ d, sel p (ps.map fun p => (Cell.mem p.1, p.2)) d = d := by
    intro p hp d
    apply sel_none
    intro w hw
    obtain ⟨q, _, hq⟩ := List.mem_map.mp hw
    rw [← hq, hp]
  refine ⟨by rw [size_s_applyWrs]; exact h1.ssz, by rw [size_v_applyWrs]; exact h1.vsz, ?_, ?_, ?_, ?_, ?_, ?_⟩
  · rw [pc_applyWrs, blind _ (fun _ => rfl)]; exact h1.pc
  · rw [exec_applyWrs, blind _ (fun _ => rfl)]; exact h1.exec
  · rw [vcc_applyWrs, blind _ (fun _ => rfl)]; exact h1.vcc
  · intro j hj
    rw [rs_applyWrs _ _ _ (by rw [h1.ssz]; exact hj), blind _ (fun _ => rfl)]
    exact h1.rs j hj
  · intro r l hr hl
    rw [rv_applyWrs _ _ _ _ (by rw [h1.vsz]; omega), blind _ (fun _ => rfl)]
    exact h1.rv r l hr hl
  · intro x
    rw [rmem_applyWrs, h1.mem x]
    exact sel_mem_map x ps V.mem

/-- S_ENDPGM -/
theorem step_endpgm_view (P : Program) (hP : P.cdna3 = false) (base k : Nat)
    (hd : DecV ((P.code.drop k).take 8) 4 1 4) (st : St) (V : View) (h : Sees st V) (hpc : V.pc = base + k) :
    ∃ st', step P base st = .ok (st', .endpgm) ∧ Sees st' { V with pc := base + k + 4 } :=
  ⟨_, step_endpgm P hP base k st (h.pc.trans hpc) hd, h.setPc _⟩

end Emu
end C01
