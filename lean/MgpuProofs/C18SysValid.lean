import MgpuProofs.C18SysOk
/-! C18 system level: every message in the network, every live name and every clone waiting in an
outgoing buffer of the inside channel refers to an existing node (`SValid`).

The only move that creates a destination is the engine tick: a clone gets the bank index the
remote table (`routeOut`) finds, which is below `nBanks`, which is at most the number of nodes. -/
namespace C18

/-- every message and every name refers to existing nodes -/
structure SValid (y : Sys) : Prop where
  qdst : ∀ m ∈ y.netQ, m.frm < y.nodes.length ∧ m.c.dst < y.nodes.length
  rdst : ∀ m ∈ y.netR, m.dst < y.nodes.length
  nmA : ∀ (b : Nat) (B : Node), y.nodes[b]? = some B → ∀ nm ∈ B.names, nm.a < y.nodes.length
  outDst : ∀ (a : Nat) (A : Node), y.nodes[a]? = some A → ∀ c ∈ A.s.io.reqOut, c.dst < y.nodes.length
  banks : ∀ (a : Nat) (A : Node), y.nodes[a]? = some A → A.cfg.nBanks ≤ y.nodes.length

theorem svalid_init (cfgs : List Cfg) (h : ∀ c ∈ cfgs, c.nBanks ≤ cfgs.length) : SValid (initSys cfgs) := by
  constructor
  · intro m hm; simp [initSys] at hm
  · intro m hm; simp [initSys] at hm
  · intro b B hb
    simp only [initSys, List.getElem?_map, Option.map_eq_some_iff] at hb
    obtain ⟨c, _, rfl⟩ := hb
    intro nm hnm; simp at hnm
  · intro a A ha
    simp only [initSys, List.getElem?_map, Option.map_eq_some_iff] at ha
    obtain ⟨c, _, rfl⟩ := ha
    intro o ho; simp at ho
  · intro a A ha
    simp only [initSys, List.getElem?_map, Option.map_eq_some_iff] at ha
    obtain ⟨c, hc, rfl⟩ := ha
    simp only [initSys, List.length_map]
    exact h c (List.mem_of_getElem? hc)

/-! ### the channel predicate through a tick -/

/-- every clone in the outgoing buffer is addressed to a node below `N` -/
def OutDst (N : Nat) (c : Chan) : Prop := ∀ o ∈ c.reqOut, o.dst < N

theorem routeOut_lt (c : Cfg) (x d : Nat) (h : routeOut c x = some d) : d < c.nBanks := by
  unfold routeOut at h
  split at h
  · cases h
  · split at h
    · next hlt =>
      simp only [Option.some.injEq] at h
      omega
    · cases h

theorem outDst_fwdStep (N : Nat) (route : Nat → Option Nat) (cap : Nat) (c : Chan)
    (hr : ∀ x d, route x = some d → d < N) (h : OutDst N c) : OutDst N (fwdStep route cap c).1 := by
  unfold fwdStep
  split
  · exact h
  · next r rest hin =>
    split
    · exact h
    · split
      · exact h
      · next dst hdst =>
        split
        · intro o ho
          simp only [List.mem_append, List.mem_singleton] at ho
          rcases ho with ho | rfl
          · exact h o ho
          · exact hr _ _ hdst
        · exact h

theorem outDst_rspStep (N : Nat) (cap : Nat) (c : Chan) (h : OutDst N c) : OutDst N (rspStep cap c).1 := by
  unfold rspStep
  split
  · exact h
  · split
    · exact h
    · split
      · exact h
      · split
        · exact h
        · exact h

theorem outDst_l1Loop (N : Nat) (route : Nat → Option Nat) (cap : Nat) (hr : ∀ x d, route x = some d → d < N) :
    ∀ (n : Nat) (c : Chan) (p : Bool), OutDst N c → OutDst N (l1Loop route cap n c p).1 := by
  intro n
  induction n with
  | zero => intro c p h; exact h
  | succ n ih =>
    intro c p h
    unfold l1Loop
    split
    · exact h
    · simp only
      split
      · exact ih _ _ (outDst_fwdStep N route cap c hr h)
      · exact outDst_fwdStep N route cap c hr h

/-- the predicate on an engine state: only the inside channel matters -/
def StOut (N : Nat) (s : St) : Prop := OutDst N s.io

theorem stOut_dataPhase (N : Nat) (c : Cfg) (hb : c.nBanks ≤ N) (s : St) (h : StOut N s) :
    StOut N (dataPhase c s).1 := by
  have hr : ∀ x d, routeOut c x = some d → d < N := fun x d e =>
    Nat.lt_of_lt_of_le (routeOut_lt c x d e) hb
  unfold dataPhase
  simp only
  apply pres_iter (StOut N) _ (pres_guard (StOut N) _ ?_)
  · apply pres_iter (StOut N) _ (pres_guard (StOut N) _ ?_)
    · apply pres_iter (StOut N) _ (pres_guard (StOut N) _ ?_)
      · apply pres_iter (StOut N) _ (pres_guard (StOut N) _ ?_) _ _ h
        intro t ht
        unfold fromL1
        split
        · exact ht
        · exact outDst_l1Loop N _ _ hr _ _ _ ht
      · intro t ht; exact ht
    · intro t ht; exact ht
  · intro t ht; exact outDst_rspStep N _ _ ht

theorem stOut_tick (N : Nat) (c : Cfg) (hb : c.nBanks ≤ N) (s : St) (h : StOut N s) :
    StOut N (tick c s).1 := by
  unfold tick
  simp only
  apply stOut_dataPhase N c hb
  have := ctrlPhase_io c s
  unfold StOut
  rw [this.1]
  exact h

/-! ### the moves -/

theorem sstep_length (y : Sys) (o : SOp) : (sstep y o).nodes.length = y.nodes.length := by
  cases o <;> simp only [sstep] <;> (repeat' split) <;> simp only [setNode, List.length_set]

/-- a move that replaces node `i` (same configuration) and the two bags of the network -/
theorem svalid_set {y : Sys} {i : Nat} {A nd' : Node} {nq : List NReq} {nr : List NRsp}
    (h : SValid y) (hi : y.nodes[i]? = some A)
    (hq : ∀ m ∈ nq, m.frm < y.nodes.length ∧ m.c.dst < y.nodes.length)
    (hr : ∀ m ∈ nr, m.dst < y.nodes.length)
    (hnm : ∀ nm ∈ nd'.names, nm.a < y.nodes.length)
    (hout : ∀ c ∈ nd'.s.io.reqOut, c.dst < y.nodes.length)
    (hcfg : nd'.cfg = A.cfg) :
    SValid { nodes := y.nodes.set i nd', netQ := nq, netR := nr } := by
  constructor
  · intro m hm
    simp only [List.length_set]
    exact hq m hm
  · intro m hm
    simp only [List.length_set]
    exact hr m hm
  · intro b B hb
    simp only [List.length_set]
    rcases getElem?_set' hb with ⟨_, rfl, _⟩ | ⟨_, h2⟩
    · exact hnm
    · exact h.nmA b B h2
  · intro b B hb
    simp only [List.length_set]
    rcases getElem?_set' hb with ⟨_, rfl, _⟩ | ⟨_, h2⟩
    · exact hout
    · exact h.outDst b B h2
  · intro b B hb
    simp only [List.length_set]
    rcases getElem?_set' hb with ⟨_, rfl, _⟩ | ⟨_, h2⟩
    · rw [hcfg]; exact h.banks i A hi
    · exact h.banks b B h2

theorem svalid_step (y : Sys) (o : SOp) (hs : SInv y) (h : SValid y) : SValid (sstep y o) := by
  cases o with
  | issue a src pl =>
    simp only [sstep]
    split
    · exact h
    · next A hA =>
      split
      · next hsp =>
        refine svalid_set h hA h.qdst h.rdst (h.nmA a A hA) ?_ rfl
        simp only [step, deliverReq, hsp, if_true]
        exact h.outDst a A hA
      · exact h
  | ctl a k =>
    simp only [sstep]
    split
    · exact h
    · next A hA =>
      have hc := step_ctl_io A.cfg A.s k
      refine svalid_set h hA h.qdst h.rdst (h.nmA a A hA) ?_ rfl
      show ∀ c ∈ (step A.cfg A.s (.ctl k)).io.reqOut, c.dst < y.nodes.length
      rw [hc.1]
      exact h.outDst a A hA
  | tick a =>
    simp only [sstep]
    split
    · exact h
    · next A hA =>
      refine svalid_set h hA h.qdst h.rdst (h.nmA a A hA) ?_ rfl
      exact stOut_tick y.nodes.length A.cfg (h.banks a A hA) A.s (h.outDst a A hA)
  | sendQ a =>
    simp only [sstep]
    split
    · exact h
    · next A hA =>
      split
      · exact h
      · next q rest hq =>
        refine svalid_set h hA ?_ h.rdst (h.nmA a A hA) ?_ rfl
        · intro m hm
          simp only [List.mem_append, List.mem_singleton] at hm
          rcases hm with hm | rfl
          · exact h.qdst m hm
          · exact ⟨lt_of_getElem? hA, h.outDst a A hA q (by rw [hq]; exact List.mem_cons_self)⟩
        · intro c hc
          exact h.outDst a A hA c (mem_tail' hc)
  | delivQ j =>
    simp only [sstep]
    split
    · exact h
    · next m hm =>
      split
      · exact h
      · next B hB =>
        split
        · next hsp =>
          refine svalid_set h hB ?_ h.rdst ?_ ?_ rfl
          · intro x hx
            exact h.qdst x (mem_eraseIdx' hx)
          · intro nm hnm
            simp only [List.mem_cons] at hnm
            rcases hnm with rfl | hnm
            · exact (h.qdst m (List.mem_of_getElem? hm)).1
            · exact h.nmA _ B hB nm hnm
          · simp only [step]
            exact h.outDst _ B hB
        · exact h
  | l2take b =>
    simp only [sstep]
    split
    · exact h
    · next B hB =>
      split
      · exact h
      · next q rest hq =>
        refine svalid_set h hB h.qdst h.rdst (h.nmA b B hB) ?_ rfl
        simp only [step]
        exact h.outDst b B hB
  | l2ans b j d =>
    simp only [sstep]
    split
    · exact h
    · next B hB =>
      split
      · exact h
      · next q hq =>
        split
        · next hsp =>
          refine svalid_set h hB h.qdst h.rdst (h.nmA b B hB) ?_ rfl
          simp only [step]
          exact h.outDst b B hB
        · exact h
  | sendR b =>
    simp only [sstep]
    split
    · exact h
    · next B hB =>
      split
      · exact h
      · next o rest ho =>
        split
        · exact h
        · next nm r ht =>
          have hp := takeName_perm ht
          have hdst := sendR_name (hs.node b B hB) ho ht
          have hnm : nm ∈ B.names := hp.1.mem_iff.mpr List.mem_cons_self
          refine svalid_set h hB h.qdst ?_ ?_ ?_ rfl
          · intro m hm
            simp only [List.mem_append, List.mem_singleton] at hm
            rcases hm with hm | rfl
            · exact h.rdst m hm
            · show o.dst < y.nodes.length
              rw [← hdst]
              exact h.nmA b B hB nm hnm
          · intro x hx
            exact h.nmA b B hB x (hp.1.mem_iff.mpr (List.mem_cons_of_mem _ hx))
          · simp only [step]
            exact h.outDst b B hB
  | delivR j =>
    simp only [sstep]
    split
    · exact h
    · next m hm =>
      split
      · exact h
      · next A hA =>
        split
        · next hsp =>
          refine svalid_set h hA h.qdst ?_ (h.nmA _ A hA) ?_ rfl
          · intro x hx
            exact h.rdst x (mem_eraseIdx' hx)
          · simp only [step, deliverRsp, hsp, if_true]
            exact h.outDst _ A hA
        · exact h
  | l1take a =>
    simp only [sstep]
    split
    · exact h
    · next A hA =>
      split
      · exact h
      · next o rest ho =>
        refine svalid_set h hA h.qdst h.rdst (h.nmA a A hA) ?_ rfl
        simp only [step]
        exact h.outDst a A hA
  | ctake a =>
    simp only [sstep]
    split
    · exact h
    · next A hA =>
      split
      · exact h
      · next x rest hx =>
        refine svalid_set h hA h.qdst h.rdst (h.nmA a A hA) ?_ rfl
        simp only [step]
        exact h.outDst a A hA

theorem svalid_run (y : Sys) (ops : List SOp) (hs : SInv y) (h : SValid y) : SValid (srun y ops) := by
  unfold srun
  induction ops generalizing y with
  | nil => exact h
  | cons o os ih => exact ih _ (sinv_step y o hs) (svalid_step y o hs h)

end C18
