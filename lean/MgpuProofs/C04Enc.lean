import MgpuModel.C04
import MgpuProofs.C04
import MgpuProofs.C04Bits
/-! Round trip `decode (encode d ++ t) = ok (instOf d)`: byte-level and per-format lemmas. -/
namespace C04
open Gen
set_option linter.unusedSimpArgs false

/-! ## bytes -/

theorem le32_bytes32 (w : Nat) (hw : w < 2 ^ 32) (t : List Nat) : le32 (bytes32 w ++ t) 0 = w := by
  simp only [le32, bytes32, List.cons_append, List.nil_append, List.getD_cons_zero, List.getD_cons_succ]
  omega

theorem le32_bytes32_4 (w : Nat) (t : List Nat) : le32 (bytes32 w ++ t) 4 = le32 t 0 := by
  simp only [le32, bytes32, List.cons_append, List.nil_append, List.getD_cons_succ]

theorem length_bytes32_append (w : Nat) (t : List Nat) : (bytes32 w ++ t).length = t.length + 4 := by
  simp [bytes32]

/-- the second dword the decoder sees behind a first dword -/
def second (rest : List Nat) : Option Nat := if rest.length ≥ 4 then some (le32 rest 0) else none

theorem decode_bytes32 (c : Bool) (w : Nat) (hw : w < 2 ^ 32) (rest : List Nat) :
    decode c (bytes32 w ++ rest) = decodeCore (lookUpArch c) c w (second rest) := by
  unfold decode decodeWith second
  have h4 : ¬ (bytes32 w ++ rest).length < 4 := by rw [length_bytes32_append]; omega
  have h8 : ((bytes32 w ++ rest).length ≥ 8) = (rest.length ≥ 4) := by
    rw [length_bytes32_append]; apply propext; omega
  simp only [h4, if_false, le32_bytes32 w hw, le32_bytes32_4, h8]

theorem second_bytes32 (l : Nat) (hl : l < 2 ^ 32) (t : List Nat) : second (bytes32 l ++ t) = some l := by
  unfold second
  have : (bytes32 l ++ t).length ≥ 4 := by rw [length_bytes32_append]; omega
  simp only [this, if_true, le32_bytes32 l hl]

theorem decodeCore_of {look : Nat → Nat → Option Row} {c : Bool} {w : Nat} {f : Format} {row : Row} (w1? : Option Nat)
    (hm : matchFormat w = some f) (hl : look f.ft (extractBits w f.opLo f.opHi) = some row) :
    decodeCore look c w w1? = decodeRow c f row w w1? := by
  unfold decodeCore
  simp only [hm, hl]

/-! ## operands -/

theorem getOperand_isLit_tab : ∀ n, n < 512 →
    (match getOperand n with | some o => o.isLit == (n == 255) | none => true) = true := by decide +kernel

theorem getOperand_isLit {n : Nat} (hn : n < 512) {o : Opnd} (h : getOperand n = some o) :
    o.isLit = (n == 255) := by
  have := getOperand_isLit_tab n hn
  rw [h] at this
  simpa using this

theorem codeOK_some {n b : Nat} (h : codeOK n b = true) : n < b ∧ ∃ o, getOperand n = some o ∧ opndOf n = o := by
  unfold codeOK at h
  simp only [Bool.and_eq_true, decide_eq_true_eq] at h
  refine ⟨h.1, ?_⟩
  cases hg : getOperand n with
  | none => simp [hg] at h
  | some o => exact ⟨o, rfl, by simp [opndOf, hg]⟩

theorem lastRow_some (rows : List Row) (ft op : Nat) (r : Row) (h : lastRow rows ft op = some r) :
    r ∈ rows ∧ r.ft = ft ∧ r.opcode = op := by
  unfold lastRow at h
  suffices H : ∀ (l : List Row) (acc : Option Row),
      l.foldl (fun acc x => if x.ft == ft && x.opcode == op then some x else acc) acc = some r →
      (r ∈ l ∧ r.ft = ft ∧ r.opcode = op) ∨ acc = some r by
    rcases H rows none h with h | h
    · exact h
    · simp at h
  intro l
  induction l with
  | nil => intro acc h; exact Or.inr h
  | cons a as ih =>
    intro acc h
    simp only [List.foldl] at h
    rcases ih _ h with h' | h'
    · exact Or.inl ⟨List.mem_cons_of_mem _ h'.1, h'.2⟩
    · by_cases hc : (a.ft == ft && a.opcode == op) = true
      · simp only [hc, if_true, Option.some.injEq] at h'
        subst h'
        simp only [Bool.and_eq_true, beq_iff_eq] at hc
        exact Or.inl ⟨List.mem_cons_self, hc⟩
      · simp only [hc] at h'
        exact Or.inr h'

theorem lookUp_some {ft op : Nat} {r : Row} (h : lookUp ft op = some r) :
    r ∈ allRows ∧ r.ft = ft ∧ r.opcode = op := lastRow_some _ _ _ _ h

theorem lookUpArch_some {c : Bool} {ft op : Nat} {r : Row} (h : lookUpArch c ft op = some r) :
    (r ∈ allRows ∨ r ∈ cdna3Rows) ∧ r.ft = ft ∧ r.opcode = op := by
  unfold lookUpArch at h
  cases c with
  | false =>
    simp only [Bool.false_eq_true, if_false] at h
    obtain ⟨a, b⟩ := lookUp_some h
    exact ⟨Or.inl a, b⟩
  | true =>
    simp only [if_true] at h
    cases hc : lastRow cdna3Rows ft op with
    | none =>
      rw [hc] at h
      obtain ⟨a, b⟩ := lookUp_some h
      exact ⟨Or.inl a, b⟩
    | some r' =>
      rw [hc] at h
      simp only [Option.some.injEq] at h
      subst h
      obtain ⟨a, b⟩ := lastRow_some _ _ _ _ hc
      exact ⟨Or.inr a, b⟩

/-- on GCN3 (`IsCDNA3` clear) the architecture lookup is the shared table -/
theorem lookUpArch_false (ft op : Nat) : lookUpArch false ft op = lookUp ft op := by
  simp [lookUpArch]

/-- a (format, opcode) of the shared table is also answered by the architecture's lookup (possibly by
    the CDNA3 row for the same key) -/
theorem lookUpArch_of_lookUp {c : Bool} {ft op : Nat} {row : Row} (h : lookUp ft op = some row) :
    ∃ row', lookUpArch c ft op = some row' ∧ row'.ft = ft ∧ row'.opcode = op := by
  cases hx : lookUpArch c ft op with
  | some r => exact ⟨r, rfl, (lookUpArch_some hx).2⟩
  | none =>
    exfalso
    unfold lookUpArch at hx
    cases c with
    | false => simp [h] at hx
    | true =>
      simp only [if_true] at hx
      cases hc : lastRow cdna3Rows ft op with
      | none => rw [hc] at hx; simp [h] at hx
      | some r => rw [hc] at hx; simp at hx

/-! ## per-format round trips -/

theorem enc_sop2 (c : Bool) (d : Desc) (row : Row) (f : Format)
    (hft : d.ft = FT_SOP2) (hf : f.ft = FT_SOP2) (hsz : f.size = 4)
    (hro : row.opcode = d.op) (hop : d.op < 128)
    (hfo : fieldsOK d = true) (hl : d.lit.isSome = usesLit d) :
    encWord d < 2 ^ 32 ∧ encWord d / 2 ^ 30 = 2 ∧ extractBits (encWord d) 23 29 = d.op ∧
    ∀ w1?, (∀ l, encSecond d = some l → w1? = some l) →
      decodeRow c f row (encWord d) w1? = .ok (instOfRow d row) := by
  have hW : encWord d = 0x80000000 + d.op * 2 ^ 23 + d.sdst * 2 ^ 16 + d.ssrc1 * 2 ^ 8 + d.ssrc0 := by
    simp [encWord, hft, FT_SOP2]
  simp only [fieldsOK, hft, FT_SOP2, BEq.rfl, if_true, Bool.and_eq_true] at hfo
  obtain ⟨⟨h0, h1⟩, hd⟩ := hfo
  obtain ⟨b0, s0, g0, e0⟩ := codeOK_some h0
  obtain ⟨b1, s1, g1, e1⟩ := codeOK_some h1
  obtain ⟨bd, sd, gd, ed⟩ := codeOK_some hd
  have x0 : extractBits (encWord d) 0 7 = d.ssrc0 := by rw [hW]; unfold extractBits; omega
  have x1 : extractBits (encWord d) 8 15 = d.ssrc1 := by rw [hW]; unfold extractBits; omega
  have xd : extractBits (encWord d) 16 22 = d.sdst := by rw [hW]; unfold extractBits; omega
  refine ⟨by rw [hW]; omega, by rw [hW]; omega, by rw [hW]; unfold extractBits; omega, ?_⟩
  clear hW
  generalize encWord d = w at x0 x1 xd ⊢
  intro w1? hw1
  have l0 := getOperand_isLit (by omega) g0
  have l1 := getOperand_isLit (by omega) g1
  have hsec : encSecond d = d.lit := by simp [encSecond, hft, FT_SOP2, FT_SOPK, FT_SOP1, FT_SOPC, FT_SOPP, FT_SMEM, FT_VOP2, FT_VOP1, FT_VOPC, FT_VOP3a, FT_VOP3b, FT_FLAT, FT_DS]
  rw [hsec] at hw1
  have hul : usesLit d = (d.ssrc0 == 255 || d.ssrc1 == 255) := by simp [usesLit, hft, FT_SOP2]
  rw [hul] at hl
  unfold decodeRow instOfRow
  simp only [hsz, hsec, dec4, hf, hft, FT_SOP2, decodeSOP2, x0, x1, xd, g0, g1, gd, l0, l1, e0, e1, ed, hro]
  cases hlit : d.lit with
  | none =>
    rw [hlit] at hl
    simp [← hl, withLit]
  | some l =>
    rw [hlit] at hl
    simp [← hl, withLit, hw1 l hlit, Outcome.setSize]

theorem with64_isLit (w : Nat) (o : Opnd) : (with64 w o).isLit = o.isLit := by
  unfold with64
  split
  · cases o <;> rfl
  · rfl

theorem getOperand_249 : getOperand 249 = none := by decide

theorem getOperand_vgpr_tab : ∀ n, n < 256 → (getOperand (n + 256) == some (vreg (n + 256) n 0)) = true := by
  decide +kernel

theorem getOperand_vgpr {n : Nat} (h : n < 256) : getOperand (n + 256) = some (vreg (n + 256) n 0) := by
  simpa using getOperand_vgpr_tab n h

theorem extractBits_0_3 (x : Nat) : extractBits x 0 3 = x % 16 := by simp [extractBits]
theorem extractBits_8_12 (x : Nat) : extractBits x 8 12 = x / 256 % 32 := by simp [extractBits]

theorem enc_sopk (c : Bool) (d : Desc) (row : Row) (f : Format)
    (hft : d.ft = FT_SOPK) (hf : f.ft = FT_SOPK) (hsz : f.size = 4)
    (hro : row.opcode = d.op) (hop : d.op < 32)
    (hfo : fieldsOK d = true) (hl : d.lit.isSome = usesLit d) :
    encWord d < 2 ^ 32 ∧ encWord d / 2 ^ 28 = 11 ∧ extractBits (encWord d) 23 27 = d.op ∧
    ∀ w1?, (∀ l, encSecond d = some l → w1? = some l) →
      decodeRow c f row (encWord d) w1? = .ok (instOfRow d row) := by
  have hW : encWord d = 0xB0000000 + d.op * 2 ^ 23 + d.sdst * 2 ^ 16 + d.simm16 := by
    simp [encWord, hft, FT_SOP2, FT_SOPK, FT_SOP1, FT_SOPC, FT_SOPP, FT_SMEM, FT_VOP2, FT_VOP1, FT_VOPC, FT_VOP3a, FT_VOP3b, FT_FLAT, FT_DS]
  simp [fieldsOK, hft, FT_SOP2, FT_SOPK, FT_SOP1, FT_SOPC, FT_SOPP, FT_SMEM, FT_VOP2, FT_VOP1, FT_VOPC, FT_VOP3a, FT_VOP3b, FT_FLAT, FT_DS] at hfo
  obtain ⟨hd, bi⟩ := hfo
  obtain ⟨bd, sd, gd, ed⟩ := codeOK_some hd
  have xi : extractBits (encWord d) 0 15 = d.simm16 := by rw [hW]; unfold extractBits; omega
  have xd : extractBits (encWord d) 16 22 = d.sdst := by rw [hW]; unfold extractBits; omega
  refine ⟨by rw [hW]; omega, by rw [hW]; omega, by rw [hW]; unfold extractBits; omega, ?_⟩
  clear hW
  generalize encWord d = w at xi xd ⊢
  intro w1? hw1
  have hsec : encSecond d = d.lit := by simp [encSecond, hft, FT_SOP2, FT_SOPK, FT_SOP1, FT_SOPC, FT_SOPP, FT_SMEM, FT_VOP2, FT_VOP1, FT_VOPC, FT_VOP3a, FT_VOP3b, FT_FLAT, FT_DS]
  rw [hsec] at hw1
  have hul : usesLit d = (d.op == 20) := by
    simp [usesLit, hft, FT_SOP2, FT_SOPK, FT_SOP1, FT_SOPC, FT_SOPP, FT_SMEM, FT_VOP2, FT_VOP1, FT_VOPC, FT_VOP3a, FT_VOP3b, FT_FLAT, FT_DS]
  rw [hul] at hl
  unfold decodeRow instOfRow
  simp only [hsz, hsec, dec4, hf, hft, FT_SOP2, FT_SOPK, FT_SOP1, FT_SOPC, FT_SOPP, FT_SMEM, FT_VOP2, FT_VOP1, FT_VOPC, FT_VOP3a, FT_VOP3b, FT_FLAT, FT_DS, decodeSOPK, xi, xd, gd, ed, hro]
  cases hlit : d.lit with
  | none =>
    rw [hlit] at hl
    simp [← hl]
  | some l =>
    rw [hlit] at hl
    simp [← hl, hw1 l hlit, Outcome.setSize]

theorem enc_sop1 (c : Bool) (d : Desc) (row : Row) (f : Format)
    (hft : d.ft = FT_SOP1) (hf : f.ft = FT_SOP1) (hsz : f.size = 4)
    (hro : row.opcode = d.op) (hop : d.op < 256)
    (hfo : fieldsOK d = true) (hl : d.lit.isSome = usesLit d) :
    encWord d < 2 ^ 32 ∧ encWord d / 2 ^ 23 = 381 ∧ extractBits (encWord d) 8 15 = d.op ∧
    ∀ w1?, (∀ l, encSecond d = some l → w1? = some l) →
      decodeRow c f row (encWord d) w1? = .ok (instOfRow d row) := by
  have hW : encWord d = 0xBE800000 + d.sdst * 2 ^ 16 + d.op * 2 ^ 8 + d.ssrc0 := by
    simp [encWord, hft, FT_SOP2, FT_SOPK, FT_SOP1, FT_SOPC, FT_SOPP, FT_SMEM, FT_VOP2, FT_VOP1, FT_VOPC, FT_VOP3a, FT_VOP3b, FT_FLAT, FT_DS]
  simp [fieldsOK, hft, FT_SOP2, FT_SOPK, FT_SOP1, FT_SOPC, FT_SOPP, FT_SMEM, FT_VOP2, FT_VOP1, FT_VOPC, FT_VOP3a, FT_VOP3b, FT_FLAT, FT_DS] at hfo
  obtain ⟨h0, hd⟩ := hfo
  obtain ⟨b0, s0, g0, e0⟩ := codeOK_some h0
  obtain ⟨bd, sd, gd, ed⟩ := codeOK_some hd
  have x0 : extractBits (encWord d) 0 7 = d.ssrc0 := by rw [hW]; unfold extractBits; omega
  have xd : extractBits (encWord d) 16 22 = d.sdst := by rw [hW]; unfold extractBits; omega
  refine ⟨by rw [hW]; omega, by rw [hW]; omega, by rw [hW]; unfold extractBits; omega, ?_⟩
  clear hW
  generalize encWord d = w at x0 xd ⊢
  intro w1? hw1
  have l0 := getOperand_isLit (by omega) g0
  have hsec : encSecond d = d.lit := by simp [encSecond, hft, FT_SOP2, FT_SOPK, FT_SOP1, FT_SOPC, FT_SOPP, FT_SMEM, FT_VOP2, FT_VOP1, FT_VOPC, FT_VOP3a, FT_VOP3b, FT_FLAT, FT_DS]
  rw [hsec] at hw1
  have hul : usesLit d = (d.ssrc0 == 255) := by simp [usesLit, hft, FT_SOP2, FT_SOPK, FT_SOP1, FT_SOPC, FT_SOPP, FT_SMEM, FT_VOP2, FT_VOP1, FT_VOPC, FT_VOP3a, FT_VOP3b, FT_FLAT, FT_DS]
  rw [hul] at hl
  unfold decodeRow instOfRow
  simp only [hsz, hsec, dec4, hf, hft, FT_SOP2, FT_SOPK, FT_SOP1, FT_SOPC, FT_SOPP, FT_SMEM, FT_VOP2, FT_VOP1, FT_VOPC, FT_VOP3a, FT_VOP3b, FT_FLAT, FT_DS, decodeSOP1, x0, xd, g0, gd, with64_isLit, l0, e0, ed, hro]
  cases hlit : d.lit with
  | none =>
    rw [hlit] at hl
    simp [← hl, withLit]
  | some l =>
    rw [hlit] at hl
    simp [← hl, withLit, hw1 l hlit, Outcome.setSize]

theorem enc_sopc (c : Bool) (d : Desc) (row : Row) (f : Format)
    (hft : d.ft = FT_SOPC) (hf : f.ft = FT_SOPC) (hsz : f.size = 4)
    (hro : row.opcode = d.op) (hop : d.op < 128)
    (hfo : fieldsOK d = true) (hl : d.lit.isSome = usesLit d) :
    encWord d < 2 ^ 32 ∧ encWord d / 2 ^ 23 = 382 ∧ extractBits (encWord d) 16 22 = d.op ∧
    ∀ w1?, (∀ l, encSecond d = some l → w1? = some l) →
      decodeRow c f row (encWord d) w1? = .ok (instOfRow d row) := by
  have hW : encWord d = 0xBF000000 + d.op * 2 ^ 16 + d.ssrc1 * 2 ^ 8 + d.ssrc0 := by
    simp [encWord, hft, FT_SOP2, FT_SOPK, FT_SOP1, FT_SOPC, FT_SOPP, FT_SMEM, FT_VOP2, FT_VOP1, FT_VOPC, FT_VOP3a, FT_VOP3b, FT_FLAT, FT_DS]
  simp [fieldsOK, hft, FT_SOP2, FT_SOPK, FT_SOP1, FT_SOPC, FT_SOPP, FT_SMEM, FT_VOP2, FT_VOP1, FT_VOPC, FT_VOP3a, FT_VOP3b, FT_FLAT, FT_DS] at hfo
  obtain ⟨h0, h1⟩ := hfo
  obtain ⟨b0, s0, g0, e0⟩ := codeOK_some h0
  obtain ⟨b1, s1, g1, e1⟩ := codeOK_some h1
  have x0 : extractBits (encWord d) 0 7 = d.ssrc0 := by rw [hW]; unfold extractBits; omega
  have x1 : extractBits (encWord d) 8 15 = d.ssrc1 := by rw [hW]; unfold extractBits; omega
  refine ⟨by rw [hW]; omega, by rw [hW]; omega, by rw [hW]; unfold extractBits; omega, ?_⟩
  clear hW
  generalize encWord d = w at x0 x1 ⊢
  intro w1? hw1
  have l0 := getOperand_isLit (by omega) g0
  have l1 := getOperand_isLit (by omega) g1
  have hsec : encSecond d = d.lit := by simp [encSecond, hft, FT_SOP2, FT_SOPK, FT_SOP1, FT_SOPC, FT_SOPP, FT_SMEM, FT_VOP2, FT_VOP1, FT_VOPC, FT_VOP3a, FT_VOP3b, FT_FLAT, FT_DS]
  rw [hsec] at hw1
  have hul : usesLit d = (d.ssrc0 == 255 || d.ssrc1 == 255) := by simp [usesLit, hft, FT_SOP2, FT_SOPK, FT_SOP1, FT_SOPC, FT_SOPP, FT_SMEM, FT_VOP2, FT_VOP1, FT_VOPC, FT_VOP3a, FT_VOP3b, FT_FLAT, FT_DS]
  rw [hul] at hl
  unfold decodeRow instOfRow
  simp only [hsz, hsec, dec4, hf, hft, FT_SOP2, FT_SOPK, FT_SOP1, FT_SOPC, FT_SOPP, FT_SMEM, FT_VOP2, FT_VOP1, FT_VOPC, FT_VOP3a, FT_VOP3b, FT_FLAT, FT_DS, decodeSOPC, x0, x1, g0, g1, l0, l1, e0, e1, hro]
  cases hlit : d.lit with
  | none =>
    rw [hlit] at hl
    simp [← hl, withLit]
  | some l =>
    rw [hlit] at hl
    simp [← hl, withLit, hw1 l hlit, Outcome.setSize]

theorem enc_sopp (c : Bool) (d : Desc) (row : Row) (f : Format)
    (hft : d.ft = FT_SOPP) (hf : f.ft = FT_SOPP) (hsz : f.size = 4)
    (hro : row.opcode = d.op) (hop : d.op < 128)
    (hfo : fieldsOK d = true) (hl : d.lit.isSome = usesLit d) :
    encWord d < 2 ^ 32 ∧ encWord d / 2 ^ 23 = 383 ∧ extractBits (encWord d) 16 22 = d.op ∧
    ∀ w1?, (∀ l, encSecond d = some l → w1? = some l) →
      decodeRow c f row (encWord d) w1? = .ok (instOfRow d row) := by
  have hW : encWord d = 0xBF800000 + d.op * 2 ^ 16 + d.simm16 := by
    simp [encWord, hft, FT_SOP2, FT_SOPK, FT_SOP1, FT_SOPC, FT_SOPP, FT_SMEM, FT_VOP2, FT_VOP1, FT_VOPC, FT_VOP3a, FT_VOP3b, FT_FLAT, FT_DS]
  simp [fieldsOK, hft, FT_SOP2, FT_SOPK, FT_SOP1, FT_SOPC, FT_SOPP, FT_SMEM, FT_VOP2, FT_VOP1, FT_VOPC, FT_VOP3a, FT_VOP3b, FT_FLAT, FT_DS] at hfo
  have xi : extractBits (encWord d) 0 15 = d.simm16 := by rw [hW]; unfold extractBits; omega
  refine ⟨by rw [hW]; omega, by rw [hW]; omega, by rw [hW]; unfold extractBits; omega, ?_⟩
  clear hW
  generalize encWord d = w at xi ⊢
  intro w1? hw1
  have hsec : encSecond d = d.lit := by simp [encSecond, hft, FT_SOP2, FT_SOPK, FT_SOP1, FT_SOPC, FT_SOPP, FT_SMEM, FT_VOP2, FT_VOP1, FT_VOPC, FT_VOP3a, FT_VOP3b, FT_FLAT, FT_DS]
  have hul : usesLit d = false := by simp [usesLit, hft, FT_SOP2, FT_SOPK, FT_SOP1, FT_SOPC, FT_SOPP, FT_SMEM, FT_VOP2, FT_VOP1, FT_VOPC, FT_VOP3a, FT_VOP3b, FT_FLAT, FT_DS]
  rw [hul] at hl
  have hlit : d.lit = none := by cases h : d.lit <;> simp [h] at hl ⊢
  unfold decodeRow instOfRow
  simp only [hsz, hsec, hlit, dec4, hf, hft, FT_SOP2, FT_SOPK, FT_SOP1, FT_SOPC, FT_SOPP, FT_SMEM, FT_VOP2, FT_VOP1, FT_VOPC, FT_VOP3a, FT_VOP3b, FT_FLAT, FT_DS, decodeSOPP, xi, hro, extractBits_0_3, extractBits_8_12]
  by_cases h12 : d.op = 12 <;> simp [h12]


theorem enc_vopc (c : Bool) (d : Desc) (row : Row) (f : Format)
    (hft : d.ft = FT_VOPC) (hf : f.ft = FT_VOPC) (hsz : f.size = 4)
    (hro : row.opcode = d.op) (hop : d.op < 256)
    (hfo : fieldsOK d = true) (hl : d.lit.isSome = usesLit d) :
    encWord d < 2 ^ 32 ∧ encWord d / 2 ^ 25 = 62 ∧ extractBits (encWord d) 17 24 = d.op ∧
    ∀ w1?, (∀ l, encSecond d = some l → w1? = some l) →
      decodeRow c f row (encWord d) w1? = .ok (instOfRow d row) := by
  have hW : encWord d = 0x7C000000 + d.op * 2 ^ 17 + d.vsrc1 * 2 ^ 9 + d.src0 := by
    simp [encWord, hft, FT_SOP2, FT_SOPK, FT_SOP1, FT_SOPC, FT_SOPP, FT_SMEM, FT_VOP2, FT_VOP1, FT_VOPC, FT_VOP3a, FT_VOP3b, FT_FLAT, FT_DS]
  simp [fieldsOK, hft, FT_SOP2, FT_SOPK, FT_SOP1, FT_SOPC, FT_SOPP, FT_SMEM, FT_VOP2, FT_VOP1, FT_VOPC, FT_VOP3a, FT_VOP3b, FT_FLAT, FT_DS] at hfo
  obtain ⟨h0, b1⟩ := hfo
  obtain ⟨b0, s0, g0, e0⟩ := codeOK_some h0
  have x0 : extractBits (encWord d) 0 8 = d.src0 := by rw [hW]; unfold extractBits; omega
  have x1 : extractBits (encWord d) 9 16 = d.vsrc1 := by rw [hW]; unfold extractBits; omega
  refine ⟨by rw [hW]; omega, by rw [hW]; omega, by rw [hW]; unfold extractBits; omega, ?_⟩
  clear hW
  generalize encWord d = w at x0 x1 ⊢
  intro w1? hw1
  have l0 := getOperand_isLit (by omega) g0
  have hsec : encSecond d = d.lit := by simp [encSecond, hft, FT_SOP2, FT_SOPK, FT_SOP1, FT_SOPC, FT_SOPP, FT_SMEM, FT_VOP2, FT_VOP1, FT_VOPC, FT_VOP3a, FT_VOP3b, FT_FLAT, FT_DS]
  rw [hsec] at hw1
  have hul : usesLit d = (d.src0 == 255) := by simp [usesLit, hft, FT_SOP2, FT_SOPK, FT_SOP1, FT_SOPC, FT_SOPP, FT_SMEM, FT_VOP2, FT_VOP1, FT_VOPC, FT_VOP3a, FT_VOP3b, FT_FLAT, FT_DS]
  rw [hul] at hl
  unfold decodeRow instOfRow
  simp only [hsz, hsec, dec4, hf, hft, FT_SOP2, FT_SOPK, FT_SOP1, FT_SOPC, FT_SOPP, FT_SMEM, FT_VOP2, FT_VOP1, FT_VOPC, FT_VOP3a, FT_VOP3b, FT_FLAT, FT_DS, decodeVOPC, x0, x1, g0, l0, e0, hro]
  cases hlit : d.lit with
  | none =>
    rw [hlit] at hl
    simp [← hl, withLit]
  | some l =>
    rw [hlit] at hl
    simp [← hl, withLit, hw1 l hlit, Outcome.setSize]

theorem enc_vop1 (c : Bool) (d : Desc) (row : Row) (f : Format)
    (hft : d.ft = FT_VOP1) (hf : f.ft = FT_VOP1) (hsz : f.size = 4)
    (hro : row.opcode = d.op) (hop : d.op < 256)
    (hfo : fieldsOK d = true) (hl : d.lit.isSome = usesLit d) :
    encWord d < 2 ^ 32 ∧ encWord d / 2 ^ 25 = 63 ∧ extractBits (encWord d) 9 16 = d.op ∧
    ∀ w1?, (∀ l, encSecond d = some l → w1? = some l) →
      decodeRow c f row (encWord d) w1? = .ok (instOfRow d row) := by
  have hW : encWord d = 0x7E000000 + d.vdst * 2 ^ 17 + d.op * 2 ^ 9 + d.src0 := by
    simp [encWord, hft, FT_SOP2, FT_SOPK, FT_SOP1, FT_SOPC, FT_SOPP, FT_SMEM, FT_VOP2, FT_VOP1, FT_VOPC, FT_VOP3a, FT_VOP3b, FT_FLAT, FT_DS]
  simp [fieldsOK, hft, FT_SOP2, FT_SOPK, FT_SOP1, FT_SOPC, FT_SOPP, FT_SMEM, FT_VOP2, FT_VOP1, FT_VOPC, FT_VOP3a, FT_VOP3b, FT_FLAT, FT_DS] at hfo
  obtain ⟨⟨h0, bd⟩, hd2⟩ := hfo
  obtain ⟨b0, s0, g0, e0⟩ := codeOK_some h0
  have x0 : extractBits (encWord d) 0 8 = d.src0 := by rw [hW]; unfold extractBits; omega
  have xd : extractBits (encWord d) 17 24 = d.vdst := by rw [hW]; unfold extractBits; omega
  refine ⟨by rw [hW]; omega, by rw [hW]; omega, by rw [hW]; unfold extractBits; omega, ?_⟩
  clear hW
  generalize encWord d = w at x0 xd ⊢
  intro w1? hw1
  have l0 := getOperand_isLit (by omega) g0
  have hsec : encSecond d = d.lit := by simp [encSecond, hft, FT_SOP2, FT_SOPK, FT_SOP1, FT_SOPC, FT_SOPP, FT_SMEM, FT_VOP2, FT_VOP1, FT_VOPC, FT_VOP3a, FT_VOP3b, FT_FLAT, FT_DS]
  rw [hsec] at hw1
  have hul : usesLit d = (d.src0 == 255) := by simp [usesLit, hft, FT_SOP2, FT_SOPK, FT_SOP1, FT_SOPC, FT_SOPP, FT_SMEM, FT_VOP2, FT_VOP1, FT_VOPC, FT_VOP3a, FT_VOP3b, FT_FLAT, FT_DS]
  rw [hul] at hl
  -- the destination operand
  have hdst : ∃ dd, (if d.op == 2 then getOperand d.vdst else getOperand (d.vdst + 256)) = some dd ∧
      (if d.op == 2 then opndOf d.vdst else vreg (d.vdst + 256) d.vdst 0) = dd := by
    by_cases h2 : d.op = 2
    · have := hd2
      simp only [h2] at this
      cases hg : getOperand d.vdst with
      | none => simp [hg] at this
      | some dd => exact ⟨dd, by simp [h2], by simp [h2, opndOf, hg]⟩
    · have hb : (d.op == 2) = false := by simpa using h2
      exact ⟨vreg (d.vdst + 256) d.vdst 0, by rw [hb, if_neg (by simp)]; exact getOperand_vgpr bd, by rw [hb, if_neg (by simp)]⟩
  obtain ⟨dd, gdd, edd⟩ := hdst
  unfold decodeRow instOfRow
  simp only [hsz, hsec, dec4, hf, hft, FT_SOP2, FT_SOPK, FT_SOP1, FT_SOPC, FT_SOPP, FT_SMEM, FT_VOP2, FT_VOP1, FT_VOPC, FT_VOP3a, FT_VOP3b, FT_FLAT, FT_DS, decodeVOP1, x0, xd, g0, gdd, edd, with64_isLit, l0, e0, hro]
  cases hlit : d.lit with
  | none =>
    rw [hlit] at hl
    simp [← hl, withLit]
  | some l =>
    rw [hlit] at hl
    simp [← hl, withLit, hw1 l hlit, Outcome.setSize]

theorem enc_vop2 (c : Bool) (d : Desc) (row : Row) (f : Format)
    (hft : d.ft = FT_VOP2) (hf : f.ft = FT_VOP2) (hsz : f.size = 4)
    (hro : row.opcode = d.op) (hop : d.op < 64) (hs : (d.sdwa == 1) = false)
    (hfo : fieldsOK d = true) (hl : d.lit.isSome = usesLit d) :
    encWord d < 2 ^ 32 ∧ encWord d / 2 ^ 31 = 0 ∧ extractBits (encWord d) 25 30 = d.op ∧
    ∀ w1?, (∀ l, encSecond d = some l → w1? = some l) →
      decodeRow c f row (encWord d) w1? = .ok (instOfRow d row) := by
  have hs' : ¬ d.sdwa = 1 := by simpa using hs
  have hW : encWord d = d.op * 2 ^ 25 + d.vdst * 2 ^ 17 + d.vsrc1 * 2 ^ 9 + d.src0 := by
    simp [encWord, hft, hs', FT_SOP2, FT_SOPK, FT_SOP1, FT_SOPC, FT_SOPP, FT_SMEM, FT_VOP2, FT_VOP1, FT_VOPC, FT_VOP3a, FT_VOP3b, FT_FLAT, FT_DS]
  simp [fieldsOK, hft, hs', FT_SOP2, FT_SOPK, FT_SOP1, FT_SOPC, FT_SOPP, FT_SMEM, FT_VOP2, FT_VOP1, FT_VOPC, FT_VOP3a, FT_VOP3b, FT_FLAT, FT_DS] at hfo
  obtain ⟨⟨h0, b1⟩, bd⟩ := hfo
  obtain ⟨b0, s0, g0, e0⟩ := codeOK_some h0
  have x0 : extractBits (encWord d) 0 8 = d.src0 := by rw [hW]; unfold extractBits; omega
  have x1 : extractBits (encWord d) 9 16 = d.vsrc1 := by rw [hW]; unfold extractBits; omega
  have xd : extractBits (encWord d) 17 24 = d.vdst := by rw [hW]; unfold extractBits; omega
  refine ⟨by rw [hW]; omega, by rw [hW]; omega, by rw [hW]; unfold extractBits; omega, ?_⟩
  clear hW
  generalize encWord d = w at x0 x1 xd ⊢
  intro w1? hw1
  have l0 := getOperand_isLit (by omega) g0
  have n249 : (d.src0 == 249) = false := by
    cases h : d.src0 == 249 with
    | false => rfl
    | true => rw [beq_iff_eq.mp h, getOperand_249] at g0; simp at g0
  have hsec : encSecond d = d.lit := by simp [encSecond, hft, hs', FT_SOP2, FT_SOPK, FT_SOP1, FT_SOPC, FT_SOPP, FT_SMEM, FT_VOP2, FT_VOP1, FT_VOPC, FT_VOP3a, FT_VOP3b, FT_FLAT, FT_DS]
  rw [hsec] at hw1
  have hul : usesLit d = (d.src0 == 255 || isKOpcode d.op) := by simp [usesLit, hft, hs', FT_SOP2, FT_SOPK, FT_SOP1, FT_SOPC, FT_SOPP, FT_SMEM, FT_VOP2, FT_VOP1, FT_VOPC, FT_VOP3a, FT_VOP3b, FT_FLAT, FT_DS]
  rw [hul] at hl
  unfold decodeRow instOfRow
  simp only [hsz, hsec, dec4, hf, hft, hs, FT_SOP2, FT_SOPK, FT_SOP1, FT_SOPC, FT_SOPP, FT_SMEM, FT_VOP2, FT_VOP1, FT_VOPC, FT_VOP3a, FT_VOP3b, FT_FLAT, FT_DS, decodeVOP2, x0, x1, xd, n249, g0, l0, e0, hro]
  cases hlit : d.lit with
  | none =>
    rw [hlit] at hl
    have hl' := hl.symm
    simp only [Option.isSome_none, Bool.or_eq_false_iff] at hl'
    simp [hl'.1, hl'.2, withLit]
  | some l =>
    rw [hlit] at hl
    have hl' := hl.symm
    simp only [Option.isSome_some, Bool.or_eq_true] at hl'
    by_cases hk : isKOpcode d.op = true
    · simp [hk, withLit, hw1 l hlit, Outcome.setSize]
    · have hk' : isKOpcode d.op = false := by simpa using hk
      have h255 : (d.src0 == 255) = true := by rcases hl' with h | h; exact h; exact absurd h hk
      simp [hk', h255, withLit, hw1 l hlit, Outcome.setSize]

theorem enc_smem (c : Bool) (d : Desc) (row : Row) (f : Format)
    (hft : d.ft = FT_SMEM) (hf : f.ft = FT_SMEM) (hsz : f.size = 8)
    (hro : row.opcode = d.op) (hop : d.op < 256)
    (hfo : fieldsOK d = true) :
    encWord d < 2 ^ 32 ∧ encWord d / 2 ^ 26 = 48 ∧ extractBits (encWord d) 18 25 = d.op ∧
    ∀ w1?, (∀ l, encSecond d = some l → w1? = some l) →
      decodeRow c f row (encWord d) w1? = .ok (instOfRow d row) := by
  have hW : encWord d = 0xC0000000 + d.op * 2 ^ 18 + d.imm * 2 ^ 17 + d.glc * 2 ^ 16 + d.sdata * 2 ^ 6 + d.sbase := by
    simp [encWord, hft, FT_SOP2, FT_SOPK, FT_SOP1, FT_SOPC, FT_SOPP, FT_SMEM, FT_VOP2, FT_VOP1, FT_VOPC, FT_VOP3a, FT_VOP3b, FT_FLAT, FT_DS]
  simp [fieldsOK, hft, FT_SOP2, FT_SOPK, FT_SOP1, FT_SOPC, FT_SOPP, FT_SMEM, FT_VOP2, FT_VOP1, FT_VOPC, FT_VOP3a, FT_VOP3b, FT_FLAT, FT_DS] at hfo
  obtain ⟨⟨⟨⟨bb, hdt⟩, bi⟩, bg⟩, bo⟩ := hfo
  obtain ⟨bdt, sdt, gdt, edt⟩ := codeOK_some hdt
  have hoff : d.offset < 2 ^ 20 := by split at bo <;> omega
  have xb : extractBits (encWord d) 0 5 = d.sbase := by rw [hW]; unfold extractBits; omega
  have xdt : extractBits (encWord d) 6 12 = d.sdata := by rw [hW]; unfold extractBits; omega
  have xg : extractBits (encWord d) 16 16 = d.glc := by rw [hW]; unfold extractBits; omega
  have xi : extractBits (encWord d) 17 17 = d.imm := by rw [hW]; unfold extractBits; omega
  have xo : extractBits d.offset 0 19 = d.offset := by unfold extractBits; omega
  have xs : smemImm c d.offset = (d.offset : Int) := by
    have x20 : extractBits d.offset 0 20 = d.offset := by unfold extractBits; omega
    unfold smemImm
    cases c
    · simp [xo]
    · have hlt : ¬ (d.offset ≥ 2 ^ 20) := by omega
      simp [x20, hlt]
  refine ⟨by rw [hW]; omega, by rw [hW]; omega, by rw [hW]; unfold extractBits; omega, ?_⟩
  clear hW
  generalize encWord d = w at xb xdt xg xi ⊢
  intro w1? hw1
  have hsec : encSecond d = some d.offset := by simp [encSecond, hft, FT_SOP2, FT_SOPK, FT_SOP1, FT_SOPC, FT_SOPP, FT_SMEM, FT_VOP2, FT_VOP1, FT_VOPC, FT_VOP3a, FT_VOP3b, FT_FLAT, FT_DS]
  rw [hw1 _ hsec]
  unfold decodeRow instOfRow
  simp only [hsz, hsec, dec8, hf, hft, FT_SOP2, FT_SOPK, FT_SOP1, FT_SOPC, FT_SOPP, FT_SMEM, FT_VOP2, FT_VOP1, FT_VOPC, FT_VOP3a, FT_VOP3b, FT_FLAT, FT_DS, decodeSMEM, xb, xdt, xg, xi, xo, xs, gdt, edt, hro]
  simp [Outcome.setSize]


/-! ## what the round trip needs to know about the (regenerated) format table -/

def FmtIs (ft size lo hi k e : Nat) : Prop :=
  ∀ f ∈ formats, f.ft = ft → f.size = size ∧ f.opLo = lo ∧ f.opHi = hi ∧ shiftOf f = k ∧ f.encoding / 2 ^ k = e

theorem fmt_sop2 : FmtIs FT_SOP2 4 23 29 30 2 := by unfold FmtIs; decide
theorem fmt_sopk : FmtIs FT_SOPK 4 23 27 28 11 := by unfold FmtIs; decide
theorem fmt_sop1 : FmtIs FT_SOP1 4 8 15 23 381 := by unfold FmtIs; decide
theorem fmt_sopc : FmtIs FT_SOPC 4 16 22 23 382 := by unfold FmtIs; decide
theorem fmt_sopp : FmtIs FT_SOPP 4 16 22 23 383 := by unfold FmtIs; decide
theorem fmt_vop2 : FmtIs FT_VOP2 4 25 30 31 0 := by unfold FmtIs; decide
theorem fmt_vop1 : FmtIs FT_VOP1 4 9 16 25 63 := by unfold FmtIs; decide
theorem fmt_vopc : FmtIs FT_VOPC 4 17 24 25 62 := by unfold FmtIs; decide
theorem fmt_smem : FmtIs FT_SMEM 8 18 25 26 48 := by unfold FmtIs; decide

theorem fieldsOK_ft {d : Desc} (h : fieldsOK d = true) :
    d.ft = FT_SOP2 ∨ d.ft = FT_SOPK ∨ d.ft = FT_SOP1 ∨ d.ft = FT_SOPC ∨ d.ft = FT_SOPP ∨
    d.ft = FT_VOP2 ∨ d.ft = FT_VOP1 ∨ d.ft = FT_VOPC ∨ d.ft = FT_SMEM ∨
    d.ft = FT_VOP3a ∨ d.ft = FT_VOP3b ∨ d.ft = FT_DS ∨ d.ft = FT_FLAT := by
  by_cases h1 : d.ft = FT_SOP2; · simp [h1]
  by_cases h2 : d.ft = FT_SOPK; · simp [h2]
  by_cases h3 : d.ft = FT_SOP1; · simp [h3]
  by_cases h4 : d.ft = FT_SOPC; · simp [h4]
  by_cases h5 : d.ft = FT_SOPP; · simp [h5]
  by_cases h6 : d.ft = FT_VOP2; · simp [h6]
  by_cases h7 : d.ft = FT_VOP1; · simp [h7]
  by_cases h8 : d.ft = FT_VOPC; · simp [h8]
  by_cases h9 : d.ft = FT_SMEM; · simp [h9]
  by_cases h10 : d.ft = FT_VOP3a; · simp [h10]
  by_cases h11 : d.ft = FT_VOP3b; · simp [h11]
  by_cases h12 : d.ft = FT_DS; · simp [h12]
  by_cases h13 : d.ft = FT_FLAT; · simp [h13]
  exfalso
  simp [fieldsOK, h1, h2, h3, h4, h5, h6, h7, h8, h9, h10, h11, h12, h13] at h

theorem encSecond_lt {d : Desc} (hfo : fieldsOK d = true)
    (hlb : (match d.lit with | some l => decide (l < 2 ^ 32) | none => true) = true)
    {l : Nat} (h : encSecond d = some l) : l < 2 ^ 32 := by
  have hlit : ∀ l, d.lit = some l → l < 2 ^ 32 := by
    intro l hl
    rw [hl] at hlb
    simpa using hlb
  rcases fieldsOK_ft hfo with h1 | h1 | h1 | h1 | h1 | h1 | h1 | h1 | h1 | h1 | h1 | h1 | h1
  · simp [encSecond, h1, FT_SOP2, FT_SOPK, FT_SOP1, FT_SOPC, FT_SOPP, FT_SMEM, FT_VOP2, FT_VOP1, FT_VOPC, FT_VOP3a, FT_VOP3b, FT_FLAT, FT_DS] at h; exact hlit l h
  · simp [encSecond, h1, FT_SOP2, FT_SOPK, FT_SOP1, FT_SOPC, FT_SOPP, FT_SMEM, FT_VOP2, FT_VOP1, FT_VOPC, FT_VOP3a, FT_VOP3b, FT_FLAT, FT_DS] at h; exact hlit l h
  · simp [encSecond, h1, FT_SOP2, FT_SOPK, FT_SOP1, FT_SOPC, FT_SOPP, FT_SMEM, FT_VOP2, FT_VOP1, FT_VOPC, FT_VOP3a, FT_VOP3b, FT_FLAT, FT_DS] at h; exact hlit l h
  · simp [encSecond, h1, FT_SOP2, FT_SOPK, FT_SOP1, FT_SOPC, FT_SOPP, FT_SMEM, FT_VOP2, FT_VOP1, FT_VOPC, FT_VOP3a, FT_VOP3b, FT_FLAT, FT_DS] at h; exact hlit l h
  · simp [encSecond, h1, FT_SOP2, FT_SOPK, FT_SOP1, FT_SOPC, FT_SOPP, FT_SMEM, FT_VOP2, FT_VOP1, FT_VOPC, FT_VOP3a, FT_VOP3b, FT_FLAT, FT_DS] at h; exact hlit l h
  · by_cases hs : d.sdwa = 1
    · simp [encSecond, h1, hs, FT_SOP2, FT_SOPK, FT_SOP1, FT_SOPC, FT_SOPP, FT_SMEM, FT_VOP2, FT_VOP1, FT_VOPC, FT_VOP3a, FT_VOP3b, FT_FLAT, FT_DS] at h
      simp [fieldsOK, h1, hs, FT_SOP2, FT_SOPK, FT_SOP1, FT_SOPC, FT_SOPP, FT_SMEM, FT_VOP2, FT_VOP1, FT_VOPC, FT_VOP3a, FT_VOP3b, FT_FLAT, FT_DS] at hfo
      subst h
      unfold sdwaWord
      omega
    · simp [encSecond, h1, hs, FT_SOP2, FT_SOPK, FT_SOP1, FT_SOPC, FT_SOPP, FT_SMEM, FT_VOP2, FT_VOP1, FT_VOPC, FT_VOP3a, FT_VOP3b, FT_FLAT, FT_DS] at h; exact hlit l h
  · simp [encSecond, h1, FT_SOP2, FT_SOPK, FT_SOP1, FT_SOPC, FT_SOPP, FT_SMEM, FT_VOP2, FT_VOP1, FT_VOPC, FT_VOP3a, FT_VOP3b, FT_FLAT, FT_DS] at h; exact hlit l h
  · simp [encSecond, h1, FT_SOP2, FT_SOPK, FT_SOP1, FT_SOPC, FT_SOPP, FT_SMEM, FT_VOP2, FT_VOP1, FT_VOPC, FT_VOP3a, FT_VOP3b, FT_FLAT, FT_DS] at h; exact hlit l h
  · simp [encSecond, h1, FT_SOP2, FT_SOPK, FT_SOP1, FT_SOPC, FT_SOPP, FT_SMEM, FT_VOP2, FT_VOP1, FT_VOPC, FT_VOP3a, FT_VOP3b, FT_FLAT, FT_DS] at h
    simp [fieldsOK, h1, FT_SOP2, FT_SOPK, FT_SOP1, FT_SOPC, FT_SOPP, FT_SMEM, FT_VOP2, FT_VOP1, FT_VOPC, FT_VOP3a, FT_VOP3b, FT_FLAT, FT_DS] at hfo
    have : d.offset < 2 ^ 20 := by
      rcases hfo with ⟨_, ho⟩
      split at ho <;> omega
    omega
  · simp [encSecond, h1, FT_SOP2, FT_SOPK, FT_SOP1, FT_SOPC, FT_SOPP, FT_SMEM, FT_VOP2, FT_VOP1, FT_VOPC, FT_VOP3a, FT_VOP3b, FT_FLAT, FT_DS] at h
    simp [fieldsOK, h1, FT_SOP2, FT_SOPK, FT_SOP1, FT_SOPC, FT_SOPP, FT_SMEM, FT_VOP2, FT_VOP1, FT_VOPC, FT_VOP3a, FT_VOP3b, FT_FLAT, FT_DS] at hfo
    obtain ⟨⟨⟨⟨⟨⟨⟨⟨_, a0⟩, a1⟩, a2⟩, _⟩, b1⟩, b2⟩, _⟩, _⟩ := hfo
    have c0 := (codeOK_some a0).1
    have c1 := (codeOK_some a1).1
    have c2 := (codeOK_some a2).1
    subst h
    simp [hiWord, h1, FT_SOP2, FT_SOPK, FT_SOP1, FT_SOPC, FT_SOPP, FT_SMEM, FT_VOP2, FT_VOP1, FT_VOPC, FT_VOP3a, FT_VOP3b, FT_FLAT, FT_DS]
    omega
  · simp [encSecond, h1, FT_SOP2, FT_SOPK, FT_SOP1, FT_SOPC, FT_SOPP, FT_SMEM, FT_VOP2, FT_VOP1, FT_VOPC, FT_VOP3a, FT_VOP3b, FT_FLAT, FT_DS] at h
    simp [fieldsOK, h1, FT_SOP2, FT_SOPK, FT_SOP1, FT_SOPC, FT_SOPP, FT_SMEM, FT_VOP2, FT_VOP1, FT_VOPC, FT_VOP3a, FT_VOP3b, FT_FLAT, FT_DS] at hfo
    obtain ⟨⟨⟨⟨⟨⟨⟨_, _⟩, a0⟩, a1⟩, a2⟩, b1⟩, b2⟩, _⟩ := hfo
    have c0 := (codeOK_some a0).1
    have c1 := (codeOK_some a1).1
    have c2 := (codeOK_some a2).1
    subst h
    simp [hiWord, h1, FT_SOP2, FT_SOPK, FT_SOP1, FT_SOPC, FT_SOPP, FT_SMEM, FT_VOP2, FT_VOP1, FT_VOPC, FT_VOP3a, FT_VOP3b, FT_FLAT, FT_DS]
    omega
  · simp [encSecond, h1, FT_SOP2, FT_SOPK, FT_SOP1, FT_SOPC, FT_SOPP, FT_SMEM, FT_VOP2, FT_VOP1, FT_VOPC, FT_VOP3a, FT_VOP3b, FT_FLAT, FT_DS] at h
    simp [fieldsOK, h1, FT_SOP2, FT_SOPK, FT_SOP1, FT_SOPC, FT_SOPP, FT_SMEM, FT_VOP2, FT_VOP1, FT_VOPC, FT_VOP3a, FT_VOP3b, FT_FLAT, FT_DS] at hfo
    subst h
    simp [hiWord, h1, FT_SOP2, FT_SOPK, FT_SOP1, FT_SOPC, FT_SOPP, FT_SMEM, FT_VOP2, FT_VOP1, FT_VOPC, FT_VOP3a, FT_VOP3b, FT_FLAT, FT_DS]
    omega
  · simp [encSecond, h1, FT_SOP2, FT_SOPK, FT_SOP1, FT_SOPC, FT_SOPP, FT_SMEM, FT_VOP2, FT_VOP1, FT_VOPC, FT_VOP3a, FT_VOP3b, FT_FLAT, FT_DS] at h
    simp [fieldsOK, h1, FT_SOP2, FT_SOPK, FT_SOP1, FT_SOPC, FT_SOPP, FT_SMEM, FT_VOP2, FT_VOP1, FT_VOPC, FT_VOP3a, FT_VOP3b, FT_FLAT, FT_DS] at hfo
    subst h
    simp [hiWord, h1, FT_SOP2, FT_SOPK, FT_SOP1, FT_SOPC, FT_SOPP, FT_SMEM, FT_VOP2, FT_VOP1, FT_VOPC, FT_VOP3a, FT_VOP3b, FT_FLAT, FT_DS]
    omega

/-- One table row, one format, one encoded first dword: if every word that carries the format's
    encoding and the row's opcode is matched to (format, row), the encoded dword is such a word,
    and `decodeRow` on it gives the expected instruction, then the whole byte string
    `encode d ++ t` decodes to it. -/
theorem roundtrip_of (c : Bool) (d : Desc) (row : Row) (f : Format) (hfm : f ∈ formats) (x : Inst)
    (hall : ∀ w, w < 2 ^ 32 → (w ^^^ f.encoding) &&& f.mask = 0 → extractBits w f.opLo f.opHi = row.opcode →
        matchFormat w = some f ∧ lookUpArch c f.ft (extractBits w f.opLo f.opHi) = some row)
    (hsec : ∀ l, encSecond d = some l → l < 2 ^ 32)
    (h : encWord d < 2 ^ 32 ∧ encWord d / 2 ^ shiftOf f = f.encoding / 2 ^ shiftOf f ∧
      extractBits (encWord d) f.opLo f.opHi = row.opcode ∧
      ∀ w1?, (∀ l, encSecond d = some l → w1? = some l) →
        decodeRow c f row (encWord d) w1? = .ok x) (t : List Nat) :
    decode c (encode d ++ t) = .ok x := by
  obtain ⟨hlt, hdiv, hop, hdec⟩ := h
  have hhit : (encWord d ^^^ f.encoding) &&& f.mask = 0 := by
    have := hit_eq_div hfm hlt
    rw [decide_eq_true hdiv] at this
    simpa [hit] using this
  obtain ⟨hm, hl⟩ := hall (encWord d) hlt hhit hop
  unfold encode
  rw [List.append_assoc, decode_bytes32 c _ hlt, decodeCore_of _ hm hl]
  apply hdec
  intro l hl
  rw [hl]
  exact second_bytes32 l (hsec l hl) t

end C04
